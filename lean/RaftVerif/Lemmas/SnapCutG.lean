/-
The per-node invariants `C12Track.Tracks` / `Order.Ordered` on the system with the stale reset and the cut WITHOUT the
premise `TermTracked` (`Snap6.TransT`, `Snap6.Reachable6T`, Sys/Snap6.lean):
* `stale_restart_tracks` — a restart that resets a stale log yields a tracking node, WHATEVER was on the disk (the restart
  is the restart from the disk with the log `NLog.reset F`: `restart_stale_as_reset`);
* `crash_tracks6` — a crash at any storage point of any operation of stage 2 leaves a disk from which the restart yields
  a tracking node (`SnapInst4.crash_tracks` without `NoCut` and without `staleLog = false`);
* `inv4_trans6`, `reach6T` — every run of `Snap6.TransT` is a run of `Snap6.Trans` on which every node is tracking and
  ordered; `sentDec_reach6` — the append requests on the wire decode.
-/
import RaftVerif.Lemmas.SnapCutF
import RaftVerif.Lemmas.SnapInst4c
import RaftVerif.Lemmas.RestartSysA

namespace Raft
namespace SnapCut
open Node Election LogRel Replication CommitRel Commit C02Sys C03Sys SnapRel SnapRelU SnapSim Snap Snap2 SnapInv SnapInv2
open SnapInst SnapInstU Snap3 SnapFrame SnapInst3 Snap4 SnapInst4 Snap6

/-- **the restart from a disk with a stale log is the restart from the disk with the reset log** -/
theorem restart_stale_as_reset (d : Durable) (r : Nat) (sor : Bool) (hst : staleLog d = true) :
    Node.restart { d with log := NLog.reset (headSnap d).index } r sor = Node.restart d r sor ∧
    staleLog { d with log := NLog.reset (headSnap d).index } = false := by
  have hst' : staleLog { d with log := NLog.reset (headSnap d).index } = false := by
    show (decide ((NLog.reset (headSnap d).index).last < (headSnap d).index) ||
      (decide ((NLog.reset (headSnap d).index).prev < (headSnap d).index) && _)) = false
    have e1 : (NLog.reset (headSnap d).index).last = (headSnap d).index := by simp [NLog.reset, NLog.last]
    have e2 : (NLog.reset (headSnap d).index).prev = (headSnap d).index := rfl
    rw [e1, e2]
    simp
  refine ⟨?_, hst'⟩
  unfold Node.restart Node.restartFails Node.restartNode
  simp only [hst, hst', if_true, Bool.false_eq_true, if_false]
  rfl

/-- **a restart that resets a stale log yields a tracking node** — whatever the log on disk was -/
theorem stale_restart_tracks (d : Durable) (r : Nat) (sor : Bool) (n : Node) (hr : 1 ≤ r)
    (hn : Node.restart d r sor = some n) (hst : staleLog d = true) : C12Track.Tracks n := by
  obtain ⟨e, hst'⟩ := restart_stale_as_reset d r sor hst
  rw [← e] at hn
  refine C12Track.restart_tracks _ r sor n hr ?_ hn
  have hlo : C10.logOf { d with log := NLog.reset (headSnap d).index } = NLog.reset (headSnap d).index := by
    unfold C10.logOf; rw [hst']; rfl
  have hpos := stale_pos d hst
  refine ⟨C03.LogContig.reset _, ?_, fun hlt => ?_, fun h0 => ?_⟩
  · rw [hlo]; exact Track.newest_of_nil _ (Track.pre_reset _ _)
  · rw [hlo] at hlt
    exact absurd hlt (Nat.lt_irrefl _)
  · have h0' : (headSnap d).index = 0 := h0
    omega

section
variable {V : List Nat}

/-- **a crash at any storage point of an operation of stage 2 leaves a disk from which the restart yields a tracking
node** — no condition on the request, no condition on the disk -/
theorem crash_tracks6 (hV : V.Nodup) {x : Snap3.Sys} (hI : Inv3 V x) (hS : Side3 V x) {i : Nat} {op : Op}
    {ra : List Nat} {ord : List (List Nat)} {src k retain : Nat} {sor : Bool} {n : Node}
    (en : Snap.Enabled x.s2.cs i op src) (hret : 1 ≤ retain) (hp : ((x.node i).step op ra ord).panicked = none)
    (htt : TermTracked (x.node i) op)
    (hn : Node.restart (C05.crashDisk (x.node i) op ra ord k) retain sor = some n)
    (hIy : Inv3 V { x with s2 := crashS x.s2 i op n }) (hSy : Side3 V { x with s2 := crashS x.s2 i op n })
    (hT : C12Track.Tracks (x.node i)) (hO : Order.Ordered (x.node i))
    (hr : Order.ReqOk (x.node i) op) : C12Track.Tracks n := by
  cases hst : staleLog (C05.crashDisk (x.node i) op ra ord k) with
  | true => exact stale_restart_tracks _ retain sor n hret hn hst
  | false =>
    by_cases hap : ∃ q, op = .append q
    · obtain ⟨q, rfl⟩ := hap
      by_cases hnc : NoCut (x.node i) (.append q)
      · exact crash_tracks hV hI hS en hret hp hnc htt hst hn hIy hSy hT hO hr
      · -- the cut
        refine C12Track.restart_tracks _ retain sor n hret ?_ hn
        have so : SnapOK (x.vnode i) := hI.sinv.snap i
        have hseg : n.log.segs ≠ [] := fun h => by
          have := (hSy.segs i).head
          have e : ({ x with s2 := crashS x.s2 i (.append q) n } : Snap3.Sys).node i = n := crashS_node_i _ _ _ _
          rw [e, h] at this; cases this
        obtain ⟨_, _, a3, _, _, a5⟩ := crash3_append hV hI hS en hret hp hst hn hseg (sideS_view3 hSy)
        have hsd := crash_snaps_eq (x.node i) (.append q) ra ord k en.ok2.1 (fun h => nomatch h) (fun h => nomatch h)
        obtain ⟨_, _, w3, _⟩ := restart_snapTerm _ retain sor n hn
        obtain ⟨r1, r2⟩ := restart_log_notstale _ retain sor n hn hst
        generalize C05.crashDisk (x.node i) (.append q) ra ord k = d at hst hn a5 hsd w3 r1 r2
        have hvy : (({ x with s2 := crashS x.s2 i (.append q) n } : Snap3.Sys).vlog i) =
            pad (x.s2.base i) (x.node i).log.prev ++ d.log.entries := by
          show ((crashS x.s2 i (.append q) n).vnode i).log.entries = _
          rw [a3]
          show pad (x.s2.base i) n.log.prev ++ n.log.entries = _
          rw [r1, r2, a5]
        have hcy := hIy.sinv.cinv
        refine diskTracks_transport (x.node i) hT d a5 hsd ?_ ?_ hst
        · -- agreement up to the snapshot index
          by_cases h0 : (x.node i).snapIndex = 0
          · rw [h0]; simp
          · have hK1 : 1 ≤ (x.node i).snapIndex := by omega
            have hKc : (x.node i).snapIndex ≤ (x.node i).commitIndex := by
              show (x.vnode i).snapIndex ≤ (x.vnode i).commitIndex
              rw [so.head]; exact so.files.head_le
            obtain ⟨hlen, m, hm, m1, m2⟩ := hI.sinv.cinv.cmt.cc i (x.node i).snapIndex hK1 hKc
            have hlen' : (x.node i).snapIndex ≤ (x.vlog i).length := hlen
            have hP : Path (eview (view3 { x with s2 := crashS x.s2 i (.append q) n }).cs).T ((x.vlog i).take (x.node i).snapIndex) :=
              ((log_path hI.sinv.cinv i).prefix (List.take_prefix _ _)).mono (crashS_T x.s2 i (.append q) n).1
            have hPl : ((x.vlog i).take (x.node i).snapIndex).length = (x.node i).snapIndex := by
              rw [List.length_take]; omega
            have hlt : lastTerm ((x.vlog i).take (x.node i).snapIndex) = termAt (x.vlog i) (x.node i).snapIndex :=
              lastTerm_take _ _ hlen'
            have hcm : Cmt (eview (view3 { x with s2 := crashS x.s2 i (.append q) n }).cs)
                (((x.vlog i).take (x.node i).snapIndex).length, lastTerm ((x.vlog i).take (x.node i).snapIndex))
                (x.node i).term := by
              rw [hPl, hlt]
              exact ⟨m, (crashS_T x.s2 i (.append q) n).2 m hm, m1, m2.mono (crashS_T x.s2 i (.append q) n).1⟩
            have hF : (x.node i).snapIndex ≤ ((eview (view3 { x with s2 := crashS x.s2 i (.append q) n }).cs).node i).commitIndex := by
              show (x.node i).snapIndex ≤ ((crashS x.s2 i (.append q) n).node i).commitIndex
              rw [crashS_node_i, w3]
              have h5 : (headSnap d).index = (headOf (x.node i).snapsDisk).index := by
                unfold headSnap headOf; rw [hsd]
              rw [h5]
              have h6 : (x.node i).snapIndex = (headOf (x.node i).snapsDisk).index := so.head
              omega
            have key := path_agree_commit hcy hP (by omega) hcm i (x.node i).snapIndex hF (by rw [hPl]; exact Nat.le_refl _)
            rw [List.take_take, Nat.min_self] at key
            have e : ((eview (view3 { x with s2 := crashS x.s2 i (.append q) n }).cs).node i).log.entries =
                ({ x with s2 := crashS x.s2 i (.append q) n } : Snap3.Sys).vlog i := rfl
            rw [e, hvy, vlog_def] at key
            have hpl : (pad (x.s2.base i) (x.node i).log.prev).length ≤ (x.node i).snapIndex := by
              rw [pad_length]; exact (hI.prev i).le
            have := take_append_cancel _ _ _ _ hpl key
            rw [pad_length] at this
            exact this.symm
        · -- the log on disk is index-contiguous
          have hn' : NWF ((eview (view3 { x with s2 := crashS x.s2 i (.append q) n }).cs).node i) := nwf hcy i
          have hcont := hn'.contig
          have e : ((eview (view3 { x with s2 := crashS x.s2 i (.append q) n }).cs).node i).log.entries =
              pad (x.s2.base i) (x.node i).log.prev ++ d.log.entries := hvy
          intro j hj
          have hj' : (x.node i).log.prev + j <
              ((eview (view3 { x with s2 := crashS x.s2 i (.append q) n }).cs).node i).log.entries.length := by
            rw [e, List.length_append, pad_length]; omega
          have := hcont ((x.node i).log.prev + j) hj'
          have hget : ((eview (view3 { x with s2 := crashS x.s2 i (.append q) n }).cs).node i).log.entries[(x.node i).log.prev + j] =
              d.log.entries[j] := by
            have : (pad (x.s2.base i) (x.node i).log.prev ++ d.log.entries)[(x.node i).log.prev + j]'(by
                rw [List.length_append, pad_length]; omega) = d.log.entries[j] := by
              rw [List.getElem_append_right (by rw [pad_length]; omega)]
              congr 1
              rw [pad_length]; omega
            rw [← this]
            congr 1
          rw [hget] at this
          rw [this, a5]

    · have hnc : NoCut (x.node i) op := by
        cases op <;> first | trivial | exact absurd ⟨_, rfl⟩ hap
      exact crash_tracks hV hI hS en hret hp hnc htt hst hn hIy hSy hT hO hr

/-- a transition of `Snap6.TransT` from a state in which every node is tracking is a transition of `Snap6.Trans` -/
theorem transT_trans6 {x y : Snap3.Sys} (ht : Snap6.TransT x y) (hT : ∀ i, C12Track.Tracks (x.node i)) :
    Snap6.Trans x y := by
  cases ht with
  | step i op ra ord src en hp => exact .step i op ra ord src en hp (termTracked_of _ (hT i) op)
  | crash i op ra ord src k retain sor n en hret hp hn =>
    exact .crash i op ra ord src k retain sor n en hret hp (termTracked_of _ (hT i) op) hn
  | send i q hi hl hr hc => exact .send i q hi hl hr hc
  | sendSnap i q hi hl hr => exact .sendSnap i q hi hl hr
  | install i m ra ord hi hm hp => exact .install i m ra ord hi hm hp
  | crashInstall i m ra ord k retain sor n hi hm hret hp hn =>
    exact .crashInstall i m ra ord k retain sor n hi hm hret hp hn

/-- **the per-node invariants are preserved by every transition of `Snap6.TransT`** — stale resets and the cut included -/
theorem inv4_trans6 (hV : V.Nodup) {x y : Snap3.Sys} (h6 : Reachable6 V x) (hI4 : Inv4 x) (hS : Side4 V x)
    (ht : Snap6.TransT x y) (hS' : Side4 V y) : Inv4 y := by
  have hI := (inv6_reachable hV h6).1
  have h6y : Reachable6 V y := .next x y h6 (transT_trans6 ht hI4.tracks) hS'.side
  have hIy := (inv6_reachable hV h6y).1
  cases ht with
  | step i op ra ord src en hp =>
    have hr := reqOk_old hI en (hS.cfg i)
    refine ⟨fun j => ?_, fun j => ?_, hI4.mlab⟩
    · by_cases hj : j = i
      · subst hj
        show C12Track.Tracks ((stepS x.s2 j op ra ord src).node j)
        rw [stepS_node_i]
        exact C12Track.tracks_step _ op ra ord (hI4.tracks j) (hI4.ord j) hr hp
      · show C12Track.Tracks ((stepS x.s2 i op ra ord src).node j)
        rw [stepS_node_j _ _ _ _ _ _ hj]; exact hI4.tracks j
    · by_cases hj : j = i
      · subst hj
        show Order.Ordered ((stepS x.s2 j op ra ord src).node j)
        rw [stepS_node_i]
        exact C19Order.ordered_step _ op ra ord (hI4.ord j) hr hp
      · show Order.Ordered ((stepS x.s2 i op ra ord src).node j)
        rw [stepS_node_j _ _ _ _ _ _ hj]; exact hI4.ord j
  | crash i op ra ord src k retain sor n en hret hp hn =>
    have hr := reqOk_old hI en (hS.cfg i)
    refine ⟨fun j => ?_, fun j => ?_, hI4.mlab⟩
    · by_cases hj : j = i
      · subst hj
        show C12Track.Tracks ((crashS x.s2 j op n).node j)
        rw [crashS_node_i]
        exact crash_tracks6 hV hI hS.side en hret hp (termTracked_of _ (hI4.tracks j) op) hn hIy hS'.side
          (hI4.tracks j) (hI4.ord j) hr
      · show C12Track.Tracks ((crashS x.s2 i op n).node j)
        rw [crashS_node_j _ _ _ _ hj]; exact hI4.tracks j
    · by_cases hj : j = i
      · subst hj
        refine ordered_assemble hIy hS' j ?_
        show ((crashS x.s2 j op n).node j).ldr.removeLTE ≤ _
        rw [crashS_node_i, restart_ldr _ retain sor n hn]
        exact Nat.zero_le _
      · show Order.Ordered ((crashS x.s2 i op n).node j)
        rw [crashS_node_j _ _ _ _ hj]; exact hI4.ord j
  | send i q hi hl hr hc => exact ⟨hI4.tracks, hI4.ord, hI4.mlab⟩
  | sendSnap i q hi hl hr =>
    refine ⟨hI4.tracks, hI4.ord, fun m hm => ?_⟩
    rcases List.mem_cons.mp hm with rfl | hm
    · show q.lastConfig.index ≤ q.lastIndex
      have hlab := hS.lab i
      have so : SnapOK (x.vnode i) := hI.sinv.snap i
      have h1 : Track.label (x.node i) = q.lastConfig := by
        unfold Track.label; rw [hr.file]; rfl
      have h2 : (x.node i).snapIndex = q.lastIndex := by
        have : (x.node i).snapIndex = (headOf (x.node i).snapsDisk).index := so.head
        rw [this]
        unfold headOf; rw [hr.file]; rfl
      rw [h1, h2] at hlab
      exact hlab
    · exact hI4.mlab m hm
  | install i m ra ord hi hm hp =>
    have hr : Order.ReqOk (x.node i) (.install m.q) := by
      show m.q.term < (x.node i).term ∨ m.q.lastIndex ≤ (x.node i).commitIndex ∨ Order.InstallOk m.q
      rcases hm with h | h
      · exact Or.inl h
      · exact Or.inr (Or.inr (hI4.mlab m h))
    refine ⟨fun j => ?_, fun j => ?_, hI4.mlab⟩
    · by_cases hj : j = i
      · subst hj
        show C12Track.Tracks ((installS x j m ra ord).node j)
        unfold installS; rw [replS_node_i]
        exact C12Track.tracks_step _ _ ra ord (hI4.tracks j) (hI4.ord j) hr hp
      · show C12Track.Tracks ((installS x i m ra ord).node j)
        unfold installS; rw [replS_node_j _ _ _ _ hj]; exact hI4.tracks j
    · by_cases hj : j = i
      · subst hj
        show Order.Ordered ((installS x j m ra ord).node j)
        unfold installS; rw [replS_node_i]
        exact C19Order.ordered_step _ _ ra ord (hI4.ord j) hr hp
      · show Order.Ordered ((installS x i m ra ord).node j)
        unfold installS; rw [replS_node_j _ _ _ _ hj]; exact hI4.ord j
  | crashInstall i m ra ord k retain sor n hi hm hret hp hn =>
    have hq : Installs (x.node i) m.q → Order.InstallOk m.q := fun hin => hI4.mlab m (hm.resolve_left hin.1)
    obtain ⟨t1, t2⟩ := install_crash_restart_tracks (x.node i) m.q ra ord k retain sor n (hI4.tracks i) (hI4.ord i)
      (lwf_real hI i) (hS.lab i) hq hret hn
    refine ⟨fun j => ?_, fun j => ?_, hI4.mlab⟩
    · by_cases hj : j = i
      · subst hj
        show C12Track.Tracks ((crashInstS6 x j m _ n).node j)
        unfold crashInstS6; rw [replS_node_i]; exact t1
      · show C12Track.Tracks ((crashInstS6 x i m _ n).node j)
        unfold crashInstS6; rw [replS_node_j _ _ _ _ hj]; exact hI4.tracks j
    · by_cases hj : j = i
      · subst hj
        show Order.Ordered ((crashInstS6 x j m _ n).node j)
        unfold crashInstS6; rw [replS_node_i]; exact t2
      · show Order.Ordered ((crashInstS6 x i m _ n).node j)
        unfold crashInstS6; rw [replS_node_j _ _ _ _ hj]; exact hI4.ord j

/-- **every run of `Snap6.TransT` is a run of `Snap6.Trans` on which every node is tracking and ordered** -/
theorem reach6T (hV : V.Nodup) {x : Snap3.Sys} (h : Reachable6T V x) : Reachable6 V x ∧ Inv4 x ∧ Side4 V x := by
  induction h with
  | init x hi hs =>
    exact ⟨.init x hi.init hs.side, ⟨hi.tracks, hi.ord, fun m hm => by rw [hi.init.sent] at hm; cases hm⟩, hs⟩
  | next x y _ ht hs ih =>
    obtain ⟨r6, i4, s4⟩ := ih
    exact ⟨.next x y r6 (transT_trans6 ht i4.tracks) hs.side, inv4_trans6 hV r6 i4 s4 ht hs, hs⟩

/-- **every append request on the wire decodes**, in every reachable state of `Raft.Snap6` -/
theorem sentDec_reach6 {x : Snap3.Sys} (h : Reachable6 V x) : RestartSys.SentDec x := by
  induction h with
  | init x hi hs =>
    intro q hq
    have : x.s2.cs.rp.sent = [] := hi.init.init.cs.rp.sent
    rw [this] at hq; cases hq
  | next x y hx ht hs ih =>
    have hsx : Side3 V x := by
      cases hx with
      | init _ _ hs' => exact hs'
      | next _ _ _ _ hs' => exact hs'
    cases ht with
    | step i op ra ord src en hp htt => exact ih
    | crash i op ra ord src k retain sor n en hret hp htt hn => exact ih
    | send i q hi hl hr hc => exact RestartSys.sentDec_send ih hsx.dec i q hr
    | sendSnap i q hi hl hr => exact ih
    | install i m ra ord hi hm hp => exact ih
    | crashInstall i m ra ord k retain sor n hi hm hret hp hn => exact ih

/-- every transition of `Raft.Snap4` is a transition of `Snap6.TransT` (from a state that satisfies the invariant) -/
theorem trans4_transT {x y : Snap3.Sys} (hI : Inv3 V x) (ht : Snap4.Trans x y) : Snap6.TransT x y := by
  cases ht with
  | step i op ra ord src en hp => exact .step i op ra ord src en hp
  | crash i op ra ord src k retain sor n en hret hp hnc hst hn => exact .crash i op ra ord src k retain sor n en hret hp hn
  | send i q hi hl hr hc => exact .send i q hi hl hr hc
  | sendSnap i q hi hl hr => exact .sendSnap i q hi hl hr
  | install i m ra ord hi hm hp => exact .install i m ra ord hi hm hp
  | crashInstall i m ra ord k retain sor n hi hm hret hp hold hn =>
    -- the target state is the one of `Snap6`
    have heq : crashInstS x i m (C05.crashDisk (x.node i) (.install m.q) ra ord k) n =
        crashInstS6 x i m (C05.crashDisk (x.node i) (.install m.q) ra ord k) n := by
      have hd := install_crashDisk (x.node i) m.q ra ord k
      have wf := snapsWF_node hI i
      have so : SnapOK (x.vnode i) := hI.sinv.snap i
      generalize C05.crashDisk (x.node i) (.install m.q) ra ord k = d at hd hold hn
      unfold crashInstS crashInstS6 instBase
      by_cases hc : d.snaps.head? = some (C09.fileOf m.q) ∧ Installs (x.node i) m.q
      · rw [if_pos hc, if_pos hc]
      · rw [if_neg hc, if_neg hc]
        rcases hd.data with ⟨e1, e2⟩ | ⟨hin, e1, e2, e3⟩
        · obtain ⟨_, _, _, s4⟩ := restart_shape d retain sor n hn
          rw [hold e2] at s4
          have hprev : n.log.prev = (x.node i).log.prev := by
            have : n.log.prev = d.log.prev := s4
            rw [this, e1]; rfl
          rw [hprev]
        · have hh : ∀ g, (x.node i).snapsDisk.head? = some g → g.index ≤ m.q.lastIndex := by
            intro g hg
            have := wf.head g hg; have := wf.le_commit; have := hin.2.1
            omega
          exact absurd ⟨inst_head (x.node i) m.q so.retain hh e2, hin⟩ hc
    rw [heq]
    exact .crashInstall i m ra ord k retain sor n hi hm hret hp hn

/-- **every run of `Raft.Snap4` is a run of `Snap6.TransT`** -/
theorem reach4_reach6T (hV : V.Nodup) {x : Snap3.Sys} (h : Reachable4 V x) : Reachable6T V x := by
  induction h with
  | init x hi hs => exact .init x hi hs
  | next x y h4 ht hs ih => exact .next x y ih (trans4_transT (inv3_reachable hV (reach4 hV h4).1).1 ht) hs

end

end SnapCut
end Raft
