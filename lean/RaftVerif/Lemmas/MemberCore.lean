/-
The single-server-change argument — election safety and leader completeness ACROSS membership changes — as a
theorem about ledgers (trees of log entries with configuration entries, elections, commits), independent of the node
model. It is the joint induction on terms of the Raft thesis (4.1–4.2, with the correction of 2015: a leader may
introduce a configuration only after it has committed an entry of its own term).

`Data`: a forest order `A` ("ancestor of or equal to") on keys (index, term) with nodes `N`; the creator `cr` of a
node (0: present initially); which nodes are configuration entries (`isC`), their voter lists `V`, the bootstrap entry
`root`; commit records `R` (the committed key `m`, the last entry `l` of the committing leader's log — which decides
the configuration whose majority acknowledged — and that majority `Q`); elections `E` (candidate, term, last entry
of the candidate's log, the majority that voted); the ledgers `acked` and `granted`.

`Rules d` = `Forest d` + `Local True d` + `grantU` — the LOCAL rules, each of them about one action of one node at
the time it acts:
* `Forest`: the order is a forest order, terms do not decrease along paths; `Local`: the entries one node created in
  one term lie on one path (`tb`), every path starts with the bootstrap configuration entry `root`;
* `recd`:   a leader commits `m` of its own term, below its last entry `l`, when a majority of the voters OF THE
            LATEST CONFIGURATION ENTRY OF ITS LOG (`LastCfg D l`) acknowledged, in that term, entries extending `m`;
* `mono`:   the commit index of a leader does not decrease while its log grows;
* `chain`:  a configuration entry `c` other than `root` was created by a leader; its predecessor `P` (`Prev P c`: the
            nearest configuration entry below it) has voters that differ by at most one id (`AdjLists`), and when `c` was
            created the leader had committed, IN ITS OWN TERM and with a log that ended below `c` (`r.l.1 < c.1`), a key
            `r.m` at or above `P`: the previous configuration was committed and so was an entry of the leader's term;
* `creator` / `elect`: a node creates entries of term `t` only on top of the log `last` it campaigned with for `t`
            (`last.2 < t`), after a majority of the voters of the latest configuration entry of THAT log granted it
            their vote and passed the up-to-date check in the strict form, for the committed keys (`UpToC`, implied by
            `UpToS`): a committed key the voter acknowledged (an extension of) in an earlier term is extended by `last`,
            unless some entry of a term strictly in between does not extend it;
* `grantU`: one vote per voter and term.  `init`: initial entries have terms not above any commit.

`member_safety` — from the rules alone:
1. LEADER COMPLETENESS (tree form): every entry of a later term extends every committed key;
2. ELECTION SAFETY (tree form): all entries of one term that were created by nodes were created by ONE node.
The proof is by induction on the term (`S u`): for an election of term `u`, `ext1` shows that the candidate's log
extends every key committed in a smaller term — taking the least commit record it does not extend (least in the order
term, index, length of the leader's log; `lex3_induction`), the chain rule makes the two configurations equal or adjacent
(`cfg_overlap`), so the majorities intersect (`QuorumRel.adjacent_quorums_intersect`) and the up-to-date check
contradicts the choice; `es_overlap` shows, from `ext1` for both, that two candidates of term `u` have equal or adjacent
configurations, so they share a voter (`safe_below`).
Examples: `exData_rules` (the rules hold for a ledger with a membership change and a change of leader);
NECESSITY: `bug_local` / `bug_unsafe` — the scenario of the membership-change bug of 2015 obeys every rule except the
own-term requirement of `chain` (`Local False`) and violates leader completeness.
-/
import RaftVerif.Lemmas.QuorumRel

namespace Raft
namespace MemberCore
open QuorumRel

/-- (index, term) -/
abbrev K := Nat × Nat

/-- a commit record: the committed key, the last entry of the committing leader's log, the acknowledging majority -/
structure Rec where
  m : K
  l : K
  Q : List Nat
  deriving DecidableEq

/-- an election: candidate, term, last entry of the log it campaigned with, the majority that voted for it -/
structure El where
  cand : Nat
  term : Nat
  last : K
  Q : List Nat
  deriving DecidableEq

structure Data where
  A : K → K → Prop
  N : K → Prop
  cr : K → Nat
  isC : K → Prop
  V : K → List Nat
  root : K
  R : List Rec
  E : List El
  acked : Nat → Nat → K → Prop
  granted : Nat → Nat → Nat → Prop

/-- `D` is the latest configuration entry at or below `a` -/
def LastCfg (d : Data) (D a : K) : Prop := d.isC D ∧ d.A D a ∧ ∀ E, d.isC E → d.A E a → E.1 ≤ D.1

/-- `P` is the nearest configuration entry strictly below `c` -/
def Prev (d : Data) (P c : K) : Prop :=
  d.isC P ∧ d.A P c ∧ P.1 < c.1 ∧ ∀ E, d.isC E → d.A E c → E.1 < c.1 → E.1 ≤ P.1

/-- **the up-to-date check, strict form**: whatever voter `v` acknowledged in a term before the election `e` is
extended by the log the candidate campaigned with — unless an entry of a term strictly in between does not extend it -/
def UpToS (d : Data) (e : El) (v : Nat) : Prop :=
  ∀ w a, d.acked v w a → w < e.term → ∀ b : K, b.2 = w → d.A b a →
    d.A b e.last ∨ ∃ c, d.N c ∧ b.2 < c.2 ∧ c.2 < e.term ∧ ¬ d.A b c

/-- … the part of it the argument uses: the same for the COMMITTED keys only — if voter `v` acknowledged, in the term
of the commit record `r` (a term before the election `e`), an entry extending the committed key `r.m`, then the log
the candidate campaigned with extends `r.m`, unless an entry of a term strictly in between does not -/
def UpToC (d : Data) (e : El) (v : Nat) : Prop :=
  ∀ r ∈ d.R, r.m.2 < e.term → ∀ a, d.acked v r.m.2 a → d.A r.m a →
    d.A r.m e.last ∨ ∃ c, d.N c ∧ r.m.2 < c.2 ∧ c.2 < e.term ∧ ¬ d.A r.m c

theorem upToC_of_upToS {d : Data} {e : El} {v : Nat} (h : UpToS d e v) : UpToC d e v :=
  fun r _ hlt a ha hA => h r.m.2 a ha hlt r.m rfl hA

/-- the keys form a forest under `A`, terms do not decrease along paths -/
structure Forest (d : Data) : Prop where
  refl : ∀ a, d.N a → d.A a a
  node : ∀ a c, d.A a c → d.N a ∧ d.N c
  trans : ∀ a b c, d.A a b → d.A b c → d.A a c
  cmp : ∀ a b c, d.A a c → d.A b c → a.1 ≤ b.1 → d.A a b
  eqi : ∀ a c, d.A a c → a.1 = c.1 → a = c
  idx : ∀ a c, d.A a c → a.1 ≤ c.1
  trm : ∀ a c, d.A a c → a.2 ≤ c.2

/-- the local rules of creation, commitment, membership change and election (see the file header). The parameter
`own` switches the requirement "an entry of the leader's OWN TERM is committed" of the chain rule on (`Local True` is
what the code implements: `canChangeConfig` demands `commitIndex ≥ startIndex`) or off (`Local False`: only "the
previous configuration is committed" — the rule of the Raft thesis before the correction of 2015; see `exBug`). -/
structure Local (own : Prop) (d : Data) : Prop where
  rootC : d.isC d.root
  rootA : ∀ a, d.N a → d.A d.root a
  cfgN : ∀ a, d.isC a → d.N a
  vnd : ∀ a, d.isC a → (d.V a).Nodup
  tb : ∀ c e, d.N c → d.N e → c.2 = e.2 → d.cr c = d.cr e → c.1 ≤ e.1 → d.A c e
  init : ∀ c, d.N c → d.cr c = 0 → ∀ r ∈ d.R, c.2 ≤ r.m.2
  recd : ∀ r ∈ d.R, r.m.2 = r.l.2 ∧ d.A r.m r.l ∧ d.cr r.l ≠ 0 ∧
    ∃ D, LastCfg d D r.l ∧ r.Q.Nodup ∧ (∀ v ∈ r.Q, v ∈ d.V D) ∧ 2 * r.Q.length > (d.V D).length ∧
      ∀ v ∈ r.Q, ∃ a, d.acked v r.m.2 a ∧ d.A r.m a
  mono : ∀ r ∈ d.R, ∀ r' ∈ d.R, r.m.2 = r'.m.2 → r.l.1 ≤ r'.l.1 → r.m.1 ≤ r'.m.1
  chain : ∀ c, d.isC c → c ≠ d.root → d.cr c ≠ 0 ∧
    ∃ P r, r ∈ d.R ∧ Prev d P c ∧ AdjLists (d.V P) (d.V c) ∧ (own → r.m.2 = c.2) ∧ r.l.1 < c.1 ∧ d.A P r.m
  creator : ∀ c, d.N c → d.cr c ≠ 0 → ∃ e ∈ d.E, e.cand = d.cr c ∧ e.term = c.2 ∧ d.A e.last c
  elect : ∀ e ∈ d.E, e.last.2 < e.term ∧ d.N e.last ∧
    ∃ D, LastCfg d D e.last ∧ e.Q.Nodup ∧ (∀ v ∈ e.Q, v ∈ d.V D) ∧ 2 * e.Q.length > (d.V D).length ∧
      ∀ v ∈ e.Q, d.granted v e.term e.cand ∧ UpToC d e v

/-- all rules: a forest, the local rules, and one vote per voter and term -/
structure Rules (d : Data) : Prop extends Forest d, Local True d where
  grantU : ∀ v t c c', d.granted v t c → d.granted v t c' → c = c'

/-- induction on a lexicographically ordered triple of measures -/
theorem lex3_induction {α : Type} (f g h : α → Nat) (P : α → Prop)
    (step : ∀ x, (∀ y, f y < f x ∨ (f y = f x ∧ (g y < g x ∨ (g y = g x ∧ h y < h x))) → P y) → P x) :
    ∀ x, P x := by
  have H : ∀ a b c x, f x = a → g x = b → h x = c → P x := by
    intro a
    induction a using Nat.strongRecOn with
    | ind a iha =>
      intro b
      induction b using Nat.strongRecOn with
      | ind b ihb =>
        intro c
        induction c using Nat.strongRecOn with
        | ind c ihc =>
          intro x hf hg hh
          apply step
          intro y hy
          rcases hy with hy | ⟨e1, hy | ⟨e2, hy⟩⟩
          · exact iha (f y) (by omega) (g y) (h y) y rfl rfl rfl
          · exact ihb (g y) (by omega) (h y) y (by omega) rfl rfl
          · exact ihc (h y) (by omega) y (by omega) (by omega) rfl
  intro x; exact H _ _ _ x rfl rfl rfl

section
variable {d : Data} (h : Rules d)
include h

/-- leader completeness below term `u` -/
def LcU (d : Data) (u : Nat) : Prop := ∀ r ∈ d.R, ∀ c, d.N c → r.m.2 < c.2 → c.2 < u → d.A r.m c

/-- one creator per term below `u` -/
def EsU (d : Data) (u : Nat) : Prop :=
  ∀ c c', d.N c → d.N c' → c.2 = c'.2 → c.2 < u → d.cr c ≠ 0 → d.cr c' ≠ 0 → d.cr c = d.cr c'

/-- the chain rule with the own-term requirement -/
theorem chain_own (c : K) (hc : d.isC c) (hne : c ≠ d.root) : d.cr c ≠ 0 ∧
    ∃ P r, r ∈ d.R ∧ Prev d P c ∧ AdjLists (d.V P) (d.V c) ∧ r.m.2 = c.2 ∧ r.l.1 < c.1 ∧ d.A P r.m := by
  obtain ⟨a, P, r, b1, b2, b3, b4, b5, b6⟩ := h.chain c hc hne
  exact ⟨a, P, r, b1, b2, b3, b4 trivial, b5, b6⟩

/-- two ancestors of one key with different terms: the one with the smaller term is below -/
theorem cmp_term {a b c : K} (h1 : d.A a c) (h2 : d.A b c) (ht : a.2 < b.2) : d.A a b := by
  by_cases hi : a.1 ≤ b.1
  · exact h.cmp a b c h1 h2 hi
  · have := h.trm b a (h.cmp b a c h2 h1 (by omega))
    omega

/-- two ancestors of one key are equal when they have the same index -/
theorem eq_of_anc {a b c : K} (h1 : d.A a c) (h2 : d.A b c) (hi : a.1 = b.1) : a = b :=
  h.eqi a b (h.cmp a b c h1 h2 (by omega)) hi

/-- entries of one term below `u` created by nodes lie on one path -/
theorem same_term {u : Nat} (hes : EsU d u) {a b : K} (ha : d.N a) (hb : d.N b) (ht : a.2 = b.2) (hu : a.2 < u)
    (ca : d.cr a ≠ 0) (cb : d.cr b ≠ 0) (hi : a.1 ≤ b.1) : d.A a b :=
  h.tb a b ha hb ht (hes a b ha hb ht hu ca cb) hi

/-- what the chain rule gives for a configuration entry `c` of a term below `u`: the witnessing commit lies below `c` -/
theorem chain_anc {u : Nat} (hes : EsU d u) {c : K} {r : Rec} (hc : d.isC c) (hcr : d.cr c ≠ 0) (hr : r ∈ d.R)
    (ht : r.m.2 = c.2) (hl : r.l.1 < c.1) (hu : c.2 < u) : d.A r.m c := by
  obtain ⟨r1, r2, r3, _⟩ := h.recd r hr
  have hN := (h.node _ _ r2).2
  have : d.A r.l c := same_term h hes hN (h.cfgN c hc) (by rw [← r1, ht]) (by rw [← r1, ht]; exact hu) r3 hcr
    (Nat.le_of_lt hl)
  exact h.trans _ _ _ r2 this

/-- **the configurations overlap**: let `L` be a log end, `DL` its latest configuration entry, `r` a commit record of a
term `w < u` that `L` does not extend, with configuration `D`; if `L` extends every smaller record (in the order term,
index, log length) and terms below `u` are safe, then the voter lists of `DL` and `D` are equal or adjacent. -/
theorem cfg_overlap {u : Nat} (hlc : LcU d u) (hes : EsU d u) {L DL D : K} {r : Rec} (hr : r ∈ d.R)
    (hL : LastCfg d DL L) (hLu : L.2 < u) (hw : r.m.2 < u) (hD : LastCfg d D r.l) (hna : ¬ d.A r.m L)
    (ih : ∀ y : Rec, y.m.2 < r.m.2 ∨ (y.m.2 = r.m.2 ∧ (y.m.1 < r.m.1 ∨ (y.m.1 = r.m.1 ∧ y.l.1 < r.l.1))) →
      y ∈ d.R → d.A y.m L) :
    AdjLists (d.V DL) (d.V D) := by
  obtain ⟨r1, r2, r3, _⟩ := h.recd r hr
  obtain ⟨cL, aL, mL⟩ := hL
  obtain ⟨cD, aD, mD⟩ := hD
  have NL : d.N L := (h.node _ _ aL).2
  have Nl : d.N r.l := (h.node _ _ r2).2
  have tDLu : DL.2 < u := Nat.lt_of_le_of_lt (h.trm _ _ aL) hLu
  by_cases hDL : DL = D
  · rw [hDL]; exact AdjLists.refl _
  -- what is known of `DL` when it is not the bootstrap entry
  have keyL : DL ≠ d.root → ∃ PL rL, rL ∈ d.R ∧ Prev d PL DL ∧ AdjLists (d.V PL) (d.V DL) ∧ rL.m.2 = DL.2 ∧
      d.A PL rL.m ∧ d.A rL.m DL ∧ d.cr DL ≠ 0 := by
    intro hne
    obtain ⟨c0, PL, rL, k1, k2, k3, k4, k5, k6⟩ := chain_own h DL cL hne
    exact ⟨PL, rL, k1, k2, k3, k4, k6, chain_anc h hes cL c0 k1 k4 k5 tDLu, c0⟩
  -- the cases `tL > w` and `tL = w` end the same way in both branches
  have big : ∀ rL : Rec, rL ∈ d.R → rL.m.2 = DL.2 → d.A rL.m DL → r.m.2 < DL.2 → False := by
    intro rL hrL e1 e2 hlt
    have := hlc r hr rL.m (h.node _ _ e2).1 (by rw [e1]; exact hlt) (by rw [e1]; exact tDLu)
    exact hna (h.trans _ _ _ this (h.trans _ _ _ e2 aL))
  by_cases hroot : D = d.root
  · -- the commit used the bootstrap configuration
    have hne : DL ≠ d.root := fun e => hDL (e.trans hroot.symm)
    obtain ⟨PL, rL, k1, k2, k3, k4, k5, k6, k7⟩ := keyL hne
    rcases Nat.lt_trichotomy DL.2 r.m.2 with hlt | heq | hgt
    · -- the witness of `DL` is committed in a smaller term: it is in the leader's log
      have a1 : d.A rL.m r.l := hlc rL k1 r.l Nl (by rw [k4, ← r1]; exact hlt) (by rw [← r1]; exact hw)
      have a2 : d.A PL r.l := h.trans _ _ _ k5 a1
      have i1 : PL.1 ≤ D.1 := mD PL k2.1 a2
      have a3 : d.A d.root PL := h.rootA PL (h.cfgN PL k2.1)
      have i2 := h.idx _ _ a3
      have e : PL = D := by
        apply eq_of_anc h a2 aD
        rw [hroot] at i1 ⊢; omega
      rw [← e]
      exact k3.symm
    · -- same term as the commit: `DL` and the leader's log end lie on one path
      exfalso
      by_cases hi : DL.1 ≤ r.l.1
      · have a1 : d.A DL r.l := same_term h hes (h.cfgN _ cL) Nl (by rw [heq, r1]) tDLu k7 r3 hi
        have i1 : DL.1 ≤ D.1 := mD DL cL a1
        have a3 : d.A d.root DL := h.rootA DL (h.cfgN DL cL)
        have i2 := h.idx _ _ a3
        apply hDL
        apply eq_of_anc h a1 aD
        rw [hroot] at i1 ⊢; omega
      · have a1 : d.A r.l DL := same_term h hes Nl (h.cfgN _ cL) (by rw [heq, r1]) (by rw [← r1]; exact hw) r3 k7
          (by omega)
        exact hna (h.trans _ _ _ r2 (h.trans _ _ _ a1 aL))
    · exact (big rL k1 k4 k6 hgt).elim
  · -- the commit used a configuration `D` with predecessor `P`
    obtain ⟨cD0, P, rD, d1, d2, d3, d4, d5, d6⟩ := chain_own h D cD hroot
    have tDw : D.2 ≤ r.m.2 := by rw [r1]; exact h.trm _ _ aD
    have tDu : D.2 < u := Nat.lt_of_le_of_lt tDw hw
    have wD : d.A rD.m D := chain_anc h hes cD cD0 d1 d4 d5 tDu
    -- the witness of `D` is a smaller record
    have sm : rD.m.2 < r.m.2 ∨ (rD.m.2 = r.m.2 ∧ (rD.m.1 < r.m.1 ∨ (rD.m.1 = r.m.1 ∧ rD.l.1 < r.l.1))) := by
      rcases Nat.lt_or_ge D.2 r.m.2 with hlt | hge
      · left; rw [d4]; exact hlt
      · right
        have e : rD.m.2 = r.m.2 := by rw [d4]; omega
        have i0 := h.idx _ _ aD
        have i1 := h.mono rD d1 r hr e (by omega)
        refine ⟨e, ?_⟩
        rcases Nat.lt_or_ge rD.m.1 r.m.1 with h1 | h1
        · exact Or.inl h1
        · exact Or.inr ⟨by omega, by omega⟩
    have aDL : d.A rD.m L := ih rD sm d1
    have aPL : d.A P L := h.trans _ _ _ d6 aDL
    by_cases hP : DL = P
    · rw [hP]; exact d3
    have iP : P.1 ≤ DL.1 := mL P d2.1 aPL
    have aPDL : d.A P DL := h.cmp _ _ _ aPL aL iP
    have iP' : P.1 < DL.1 := by
      rcases Nat.lt_or_ge P.1 DL.1 with h1 | h1
      · exact h1
      · exact absurd (h.eqi _ _ aPDL (by omega)).symm hP
    have hne : DL ≠ d.root := by
      intro e
      have := h.idx _ _ (h.rootA P (h.cfgN P d2.1))
      rw [e] at iP'; omega
    obtain ⟨PL, rL, k1, k2, k3, k4, k5, k6, k7⟩ := keyL hne
    have iPL : P.1 ≤ PL.1 := k2.2.2.2 P d2.1 aPDL iP'
    rcases Nat.lt_trichotomy DL.2 r.m.2 with hlt | heq | hgt
    · have a1 : d.A rL.m r.l := hlc rL k1 r.l Nl (by rw [k4, ← r1]; exact hlt) (by rw [← r1]; exact hw)
      have a2 : d.A PL r.l := h.trans _ _ _ k5 a1
      have i1 : PL.1 ≤ D.1 := mD PL k2.1 a2
      have aPLD : d.A PL D := h.cmp _ _ _ a2 aD i1
      by_cases hPLD : PL = D
      · rw [← hPLD]; exact k3.symm
      exfalso
      have i2 : PL.1 < D.1 := by
        rcases Nat.lt_or_ge PL.1 D.1 with h1 | h1
        · exact h1
        · exact absurd (h.eqi _ _ aPLD (by omega)) hPLD
      have i3 : PL.1 ≤ P.1 := d2.2.2.2 PL k2.1 aPLD i2
      have ePL : PL = P := eq_of_anc h aPLD d2.2.1 (by omega)
      -- `DL` and `D` have the same predecessor `P`
      rcases Nat.lt_trichotomy DL.2 D.2 with h1 | h1 | h1
      · -- `DL` is older than `D`: it lies below the witness of `D`
        by_cases hi : rD.m.1 ≤ DL.1
        · have := h.trm _ _ (h.cmp _ _ _ aDL aL hi)
          omega
        · have a3 : d.A DL rD.m := h.cmp _ _ _ aL aDL (by omega)
          have a4 : d.A DL D := h.trans _ _ _ a3 wD
          have i4 : DL.1 < D.1 := by
            rcases Nat.lt_or_ge DL.1 D.1 with h2 | h2
            · exact h2
            · exact absurd (h.eqi _ _ a4 (by have := h.idx _ _ a4; omega)) hDL
          have := d2.2.2.2 DL cL a4 i4
          omega
      · -- same term: on one path
        by_cases hi : DL.1 ≤ D.1
        · have a4 : d.A DL D := same_term h hes (h.cfgN _ cL) (h.cfgN _ cD) h1 tDLu k7 cD0 hi
          have i4 : DL.1 < D.1 := by
            rcases Nat.lt_or_ge DL.1 D.1 with h2 | h2
            · exact h2
            · exact absurd (h.eqi _ _ a4 (by omega)) hDL
          have := d2.2.2.2 DL cL a4 i4
          omega
        · have a4 : d.A D DL := same_term h hes (h.cfgN _ cD) (h.cfgN _ cL) h1.symm tDu cD0 k7 (by omega)
          have := k2.2.2.2 D cD a4 (by omega)
          rw [ePL] at this
          have := d2.2.2.1
          omega
      · -- `DL` is newer than `D`: `D` lies below the witness of `DL`
        by_cases hi : rL.m.1 ≤ D.1
        · have := h.trm _ _ (h.cmp _ _ _ a1 aD hi)
          omega
        · have a3 : d.A D rL.m := h.cmp _ _ _ aD a1 (by omega)
          have a4 : d.A D DL := h.trans _ _ _ a3 k6
          have i4 : D.1 < DL.1 := by
            rcases Nat.lt_or_ge D.1 DL.1 with h2 | h2
            · exact h2
            · exact absurd (h.eqi _ _ a4 (by have := h.idx _ _ a4; omega)).symm hDL
          have := k2.2.2.2 D cD a4 i4
          rw [ePL] at this
          have := d2.2.2.1
          omega
    · exfalso
      by_cases hi : DL.1 ≤ r.l.1
      · have a1 : d.A DL r.l := same_term h hes (h.cfgN _ cL) Nl (by rw [heq, r1]) tDLu k7 r3 hi
        have i1 : DL.1 ≤ D.1 := mD DL cL a1
        have a4 : d.A DL D := h.cmp _ _ _ a1 aD i1
        have i4 : DL.1 < D.1 := by
          rcases Nat.lt_or_ge DL.1 D.1 with h2 | h2
          · exact h2
          · exact absurd (h.eqi _ _ a4 (by omega)) hDL
        have := d2.2.2.2 DL cL a4 i4
        omega
      · have a1 : d.A r.l DL := same_term h hes Nl (h.cfgN _ cL) (by rw [heq, r1]) (by rw [← r1]; exact hw) r3 k7
          (by omega)
        exact hna (h.trans _ _ _ r2 (h.trans _ _ _ a1 aL))
    · exact (big rL k1 k4 k6 hgt).elim

/-- **the log a candidate of term `u` won with extends every key committed in a smaller term** (given safety below
`u`) -/
theorem ext1 {u : Nat} (hlc : LcU d u) (hes : EsU d u) {e : El} (he : e ∈ d.E) (hu : e.term = u) :
    ∀ r : Rec, r ∈ d.R → r.m.2 < u → d.A r.m e.last := by
  obtain ⟨e1, e2, DL, e3, e4, e5, e6, e7⟩ := h.elect e he
  refine lex3_induction (fun r : Rec => r.m.2) (fun r => r.m.1) (fun r => r.l.1)
    (fun r => r ∈ d.R → r.m.2 < u → d.A r.m e.last) ?_
  intro r ih hr hw
  apply Classical.byContradiction
  intro hna
  obtain ⟨r1, r2, r3, D, r4, r5, r6, r7, r8⟩ := h.recd r hr
  have hadj : AdjLists (d.V DL) (d.V D) :=
    cfg_overlap h hlc hes hr e3 (by rw [← hu]; exact e1) hw r4 hna
      (fun y hy hyR => ih y hy hyR (by rcases hy with hy | ⟨hy, _⟩ <;> omega))
  obtain ⟨v, hv, hv'⟩ := adjacent_quorums_intersect (d.V DL) (d.V D) e.Q r.Q (h.vnd DL e3.1) (h.vnd D r4.1) e4 r5
    hadj e5 r6 e6 r7
  obtain ⟨a, a1, a2⟩ := r8 v hv'
  rcases (e7 v hv).2 r hr (by rw [hu]; exact hw) a a1 a2 with g | ⟨c, c1, c2, c3, c4⟩
  · exact hna g
  · exact c4 (hlc r hr c c1 c2 (by rw [← hu]; exact c3))

/-- **two elections of term `u` that created entries have equal or adjacent configurations** (given safety below `u`) -/
theorem es_overlap {u : Nat} (hlc : LcU d u) (hes : EsU d u) {e e' : El} (he : e ∈ d.E) (he' : e' ∈ d.E)
    (hu : e.term = u) (hu' : e'.term = u) {DL DL' : K} (hL : LastCfg d DL e.last) (hL' : LastCfg d DL' e'.last) :
    AdjLists (d.V DL) (d.V DL') := by
  have x1 := ext1 h hlc hes he hu
  have x1' := ext1 h hlc hes he' hu'
  obtain ⟨t1, N1, _⟩ := h.elect e he
  obtain ⟨t1', N1', _⟩ := h.elect e' he'
  obtain ⟨cL, aL, mL⟩ := hL
  obtain ⟨cL', aL', mL'⟩ := hL'
  have tu : DL.2 < u := by have := h.trm _ _ aL; omega
  have tu' : DL'.2 < u := by have := h.trm _ _ aL'; omega
  by_cases hDD : DL = DL'
  · rw [hDD]; exact AdjLists.refl _
  -- the predecessor of the latest configuration of one log is in the other log
  have key : ∀ (X Y : K) (LX LY : K), d.isC X → d.A X LX → X.2 < u → X ≠ d.root →
      (∀ r : Rec, r ∈ d.R → r.m.2 < u → d.A r.m LY) →
      ∃ P r, r ∈ d.R ∧ Prev d P X ∧ AdjLists (d.V P) (d.V X) ∧ r.m.2 = X.2 ∧ d.A r.m X ∧ d.A P LY ∧ d.cr X ≠ 0 := by
    intro X _ LX LY cX _ tX hne hext
    obtain ⟨c0, P, r, k1, k2, k3, k4, k5, k6⟩ := chain_own h X cX hne
    exact ⟨P, r, k1, k2, k3, k4, chain_anc h hes cX c0 k1 k4 k5 tX,
      h.trans _ _ _ k6 (hext r k1 (by rw [k4]; exact tX)), c0⟩
  by_cases hr' : DL' = d.root
  · have hne : DL ≠ d.root := fun e0 => hDD (e0.trans hr'.symm)
    obtain ⟨P, r, k1, k2, k3, k4, k5, k6, _⟩ := key DL DL' e.last e'.last cL aL tu hne x1'
    have i1 : P.1 ≤ DL'.1 := mL' P k2.1 k6
    have i2 := h.idx _ _ (h.rootA P (h.cfgN P k2.1))
    have e0 : P = DL' := by
      apply eq_of_anc h k6 aL'
      rw [hr'] at i1 ⊢; omega
    rw [← e0]; exact k3.symm
  by_cases hr : DL = d.root
  · obtain ⟨P', r', k1, k2, k3, k4, k5, k6, _⟩ := key DL' DL e'.last e.last cL' aL' tu' hr' x1
    have i1 : P'.1 ≤ DL.1 := mL P' k2.1 k6
    have i2 := h.idx _ _ (h.rootA P' (h.cfgN P' k2.1))
    have e0 : P' = DL := by
      apply eq_of_anc h k6 aL
      rw [hr] at i1 ⊢; omega
    rw [← e0]; exact k3
  obtain ⟨P, r, k1, k2, k3, k4, k5, k6, k7⟩ := key DL DL' e.last e'.last cL aL tu hr x1'
  obtain ⟨P', r', j1, j2, j3, j4, j5, j6, j7⟩ := key DL' DL e'.last e.last cL' aL' tu' hr' x1
  have aPL : d.A P e.last := h.trans _ _ _ k2.2.1 aL
  have aPL' : d.A P' e'.last := h.trans _ _ _ j2.2.1 aL'
  have iP' : P'.1 ≤ DL.1 := mL P' j2.1 j6
  have iP : P.1 ≤ DL'.1 := mL' P k2.1 k6
  by_cases hA : d.A DL e'.last
  · have i1 : DL.1 ≤ DL'.1 := mL' DL cL hA
    have a1 : d.A DL DL' := h.cmp _ _ _ hA aL' i1
    have i2 : DL.1 < DL'.1 := by
      rcases Nat.lt_or_ge DL.1 DL'.1 with h2 | h2
      · exact h2
      · exact absurd (h.eqi _ _ a1 (by omega)) hDD
    have i3 := j2.2.2.2 DL cL a1 i2
    have e0 : P' = DL := eq_of_anc h j6 aL (by omega)
    rw [← e0]; exact j3
  by_cases hA' : d.A DL' e.last
  · have i1 : DL'.1 ≤ DL.1 := mL DL' cL' hA'
    have a1 : d.A DL' DL := h.cmp _ _ _ hA' aL i1
    have i2 : DL'.1 < DL.1 := by
      rcases Nat.lt_or_ge DL'.1 DL.1 with h2 | h2
      · exact h2
      · exact absurd (h.eqi _ _ a1 (by omega)).symm hDD
    have i3 := k2.2.2.2 DL' cL' a1 i2
    have e0 : P = DL' := eq_of_anc h k6 aL' (by omega)
    rw [← e0]; exact k3.symm
  exfalso
  -- neither latest configuration is in the other log: they have the same predecessor
  have ePP : P.1 = P'.1 := by
    rcases Nat.lt_trichotomy P.1 P'.1 with h1 | h1 | h1
    · have a1 : d.A P' DL := h.cmp _ _ _ j6 aL iP'
      rcases Nat.lt_or_ge P'.1 DL.1 with h2 | h2
      · have := k2.2.2.2 P' j2.1 a1 h2; omega
      · have e0 : P' = DL := h.eqi _ _ a1 (by omega)
        rw [e0] at aPL'; exact absurd aPL' hA
    · exact h1
    · have a1 : d.A P DL' := h.cmp _ _ _ k6 aL' iP
      rcases Nat.lt_or_ge P.1 DL'.1 with h2 | h2
      · have := j2.2.2.2 P k2.1 a1 h2; omega
      · have e0 : P = DL' := h.eqi _ _ a1 (by omega)
        rw [e0] at aPL; exact absurd aPL hA'
  rcases Nat.lt_trichotomy DL.2 DL'.2 with h1 | h1 | h1
  · have a0 : d.A r'.m e.last := x1 r' j1 (by rw [j4]; exact tu')
    by_cases hi : r'.m.1 ≤ DL.1
    · have := h.trm _ _ (h.cmp _ _ _ a0 aL hi)
      omega
    · have a3 : d.A DL r'.m := h.cmp _ _ _ aL a0 (by omega)
      exact hA (h.trans _ _ _ a3 (h.trans _ _ _ j5 aL'))
  · by_cases hi : DL.1 ≤ DL'.1
    · exact hA (h.trans _ _ _ (same_term h hes (h.cfgN _ cL) (h.cfgN _ cL') h1 tu k7 j7 hi) aL')
    · exact hA' (h.trans _ _ _ (same_term h hes (h.cfgN _ cL') (h.cfgN _ cL) h1.symm tu' j7 k7 (by omega)) aL)
  · have a0 : d.A r.m e'.last := x1' r k1 (by rw [k4]; exact tu)
    by_cases hi : r.m.1 ≤ DL'.1
    · have := h.trm _ _ (h.cmp _ _ _ a0 aL' hi)
      omega
    · have a3 : d.A DL' r.m := h.cmp _ _ _ aL' a0 (by omega)
      exact hA' (h.trans _ _ _ a3 (h.trans _ _ _ k5 aL))

/-- the joint statement up to term `u` -/
theorem safe_below : ∀ u, LcU d u ∧ EsU d u := by
  intro u
  induction u with
  | zero => exact ⟨fun _ _ _ _ _ hc => absurd hc (Nat.not_lt_zero _), fun _ _ _ _ _ hc => absurd hc (Nat.not_lt_zero _)⟩
  | succ u ih =>
    obtain ⟨hlc, hes⟩ := ih
    refine ⟨fun r hr c hN hlt hcu => ?_, fun c c' hN hN' ht hcu hc hc' => ?_⟩
    · rcases Nat.lt_or_ge c.2 u with h1 | h1
      · exact hlc r hr c hN hlt h1
      · have hcu' : c.2 = u := by omega
        have hcr : d.cr c ≠ 0 := by
          intro h0
          have := h.init c hN h0 r hr
          omega
        obtain ⟨e, he, _, e2, e3⟩ := h.creator c hN hcr
        exact h.trans _ _ _ (ext1 h hlc hes he (e2.trans hcu') r hr (by omega)) e3
    · rcases Nat.lt_or_ge c.2 u with h1 | h1
      · exact hes c c' hN hN' ht h1 hc hc'
      · have hcu' : c.2 = u := by omega
        obtain ⟨e, he, e1, e2, _⟩ := h.creator c hN hc
        obtain ⟨e', he', e1', e2', _⟩ := h.creator c' hN' hc'
        obtain ⟨_, _, DL, f3, f4, f5, f6, f7⟩ := h.elect e he
        obtain ⟨_, _, DL', g3, g4, g5, g6, g7⟩ := h.elect e' he'
        have hadj := es_overlap h hlc hes he he' (e2.trans hcu') (e2'.trans (ht.symm.trans hcu')) f3 g3
        obtain ⟨v, hv, hv'⟩ := adjacent_quorums_intersect (d.V DL) (d.V DL') e.Q e'.Q (h.vnd DL f3.1)
          (h.vnd DL' g3.1) f4 g4 hadj f5 g5 f6 g6
        have g1 := (f7 v hv).1
        have g2 := (g7 v hv').1
        rw [e2, e1] at g1
        rw [e2', e1', ← ht] at g2
        exact h.grantU v c.2 _ _ g1 g2

/-- **Election safety and leader completeness across single-server membership changes** (ledger form; see the file
header for `Rules`): in a ledger that obeys the local rules,
1. every node `c` of the tree whose term is above that of a commit record `r` extends the committed key `r.m`;
2. all nodes of one term that were created by a node (not initial) were created by the same node. -/
theorem member_safety :
    (∀ r ∈ d.R, ∀ c, d.N c → r.m.2 < c.2 → d.A r.m c) ∧
    (∀ c c', d.N c → d.N c' → c.2 = c'.2 → d.cr c ≠ 0 → d.cr c' ≠ 0 → d.cr c = d.cr c') :=
  ⟨fun r hr c hN hlt => (safe_below h (c.2 + 1)).1 r hr c hN hlt (Nat.lt_succ_self _),
   fun c c' hN hN' ht hc hc' => (safe_below h (c.2 + 1)).2 c c' hN hN' ht (Nat.lt_succ_self _) hc hc'⟩

/-- the committed keys lie on one path -/
theorem committed_chain {r r' : Rec} (hr : r ∈ d.R) (hr' : r' ∈ d.R) : d.A r.m r'.m ∨ d.A r'.m r.m := by
  obtain ⟨lc, es⟩ := member_safety h
  obtain ⟨a1, a2, a3, _⟩ := h.recd r hr
  obtain ⟨b1, b2, b3, _⟩ := h.recd r' hr'
  have Nm := (h.node _ _ a2).1
  have Nm' := (h.node _ _ b2).1
  have Nl := (h.node _ _ a2).2
  have Nl' := (h.node _ _ b2).2
  rcases Nat.lt_trichotomy r.m.2 r'.m.2 with h1 | h1 | h1
  · exact Or.inl (lc r hr r'.m Nm' h1)
  · -- same term: both below the longer of the two leader logs
    have hl : d.A r.l r'.l ∨ d.A r'.l r.l := by
      have ecr := es r.l r'.l Nl Nl' (by rw [← a1, ← b1]; exact h1) a3 b3
      rcases Nat.le_total r.l.1 r'.l.1 with h2 | h2
      · exact Or.inl (h.tb _ _ Nl Nl' (by rw [← a1, ← b1]; exact h1) ecr h2)
      · exact Or.inr (h.tb _ _ Nl' Nl (by rw [← a1, ← b1]; exact h1.symm) ecr.symm h2)
    rcases hl with hl | hl
    · have c1 := h.trans _ _ _ a2 hl
      rcases Nat.le_total r.m.1 r'.m.1 with h2 | h2
      · exact Or.inl (h.cmp _ _ _ c1 b2 h2)
      · exact Or.inr (h.cmp _ _ _ b2 c1 h2)
    · have c1 := h.trans _ _ _ b2 hl
      rcases Nat.le_total r.m.1 r'.m.1 with h2 | h2
      · exact Or.inl (h.cmp _ _ _ a2 c1 h2)
      · exact Or.inr (h.cmp _ _ _ c1 a2 h2)
  · exact Or.inr (lc r' hr' r.m Nm h1)

end


/-! ### Example (non-vacuity): the rules are satisfiable by a ledger with a membership change and a change of leader

One path `(1,1) – (2,2) – (3,2) – (4,3)`: the bootstrap configuration `(1,1)` has the voters 1, 2, 3. Node 1 wins term
2 with the votes of 1 and 2, creates the entry `(2,2)`, commits it (acknowledged by 1 and 2: a majority of the
bootstrap configuration), then creates the configuration entry `(3,2)` with the voters 1, 2, 3, 4 (one voter added;
the predecessor `(1,1)` and the own-term entry `(2,2)` are committed) and commits it with 1, 2, 3 (a majority of the NEW
configuration). Node 2, whose log ends with `(3,2)`, wins term 3 with the votes of 2, 3, 4 — a majority of the
configuration `(3,2)` — and creates `(4,3)`. -/

def exNodes : List K := [(1, 1), (2, 2), (3, 2), (4, 3)]

def exData : Data where
  A := fun a c => a ∈ exNodes ∧ c ∈ exNodes ∧ a.1 ≤ c.1
  N := fun a => a ∈ exNodes
  cr := fun a => if a = (1, 1) then 0 else if a = (4, 3) then 2 else 1
  isC := fun a => a = (1, 1) ∨ a = (3, 2)
  V := fun a => if a = (3, 2) then [1, 2, 3, 4] else [1, 2, 3]
  root := (1, 1)
  R := [{ m := (2, 2), l := (2, 2), Q := [1, 2] }, { m := (3, 2), l := (3, 2), Q := [1, 2, 3] }]
  E := [{ cand := 1, term := 2, last := (1, 1), Q := [1, 2] }, { cand := 2, term := 3, last := (3, 2), Q := [2, 3, 4] }]
  acked := fun v w a => (v, w, a) ∈ [(1, 2, (2, 2)), (2, 2, (2, 2)), (1, 2, (3, 2)), (2, 2, (3, 2)), (3, 2, (3, 2))]
  granted := fun v t c => (v, t, c) ∈ [(1, 2, 1), (2, 2, 1), (2, 3, 2), (3, 3, 2), (4, 3, 2)]

instance (a c : K) : Decidable (exData.A a c) :=
  inferInstanceAs (Decidable (a ∈ exNodes ∧ c ∈ exNodes ∧ a.1 ≤ c.1))
instance (a : K) : Decidable (exData.N a) := inferInstanceAs (Decidable (a ∈ exNodes))
instance (a : K) : Decidable (exData.isC a) := inferInstanceAs (Decidable (a = (1, 1) ∨ a = (3, 2)))
instance (v w : Nat) (a : K) : Decidable (exData.acked v w a) :=
  inferInstanceAs (Decidable ((v, w, a) ∈ [(1, 2, ((2, 2) : K)), (2, 2, (2, 2)), (1, 2, (3, 2)), (2, 2, (3, 2)), (3, 2, (3, 2))]))
instance (v t c : Nat) : Decidable (exData.granted v t c) :=
  inferInstanceAs (Decidable ((v, t, c) ∈ [(1, 2, 1), (2, 2, 1), (2, 3, 2), (3, 3, 2), (4, 3, 2)]))
instance (r : Rec) : Decidable (r ∈ exData.R) :=
  inferInstanceAs (Decidable (r ∈ [({ m := (2, 2), l := (2, 2), Q := [1, 2] } : Rec), { m := (3, 2), l := (3, 2), Q := [1, 2, 3] }]))
instance (e : El) : Decidable (e ∈ exData.E) :=
  inferInstanceAs (Decidable (e ∈ [({ cand := 1, term := 2, last := (1, 1), Q := [1, 2] } : El), { cand := 2, term := 3, last := (3, 2), Q := [2, 3, 4] }]))

theorem mem_exNodes {a : K} (h : a ∈ exNodes) : a = (1, 1) ∨ a = (2, 2) ∨ a = (3, 2) ∨ a = (4, 3) := by
  simpa [exNodes] using h

/-- EXAMPLE: the hypotheses of `member_safety` hold for `exData` -/
theorem exData_rules : Rules exData where
  refl := fun a ha => ⟨ha, ha, Nat.le_refl _⟩
  node := fun a c h => ⟨h.1, h.2.1⟩
  trans := fun a b c h1 h2 => ⟨h1.1, h2.2.1, Nat.le_trans h1.2.2 h2.2.2⟩
  cmp := fun a b c h1 h2 hi => ⟨h1.1, h2.1, hi⟩
  eqi := fun a c h hi => by
    rcases mem_exNodes h.1 with rfl | rfl | rfl | rfl <;> rcases mem_exNodes h.2.1 with rfl | rfl | rfl | rfl <;>
      first | rfl | (exact absurd hi (by decide))
  idx := fun a c h => h.2.2
  trm := fun a c h => by
    have := h.2.2
    rcases mem_exNodes h.1 with rfl | rfl | rfl | rfl <;> rcases mem_exNodes h.2.1 with rfl | rfl | rfl | rfl <;>
      first | decide | (exact absurd this (by decide))
  rootC := Or.inl rfl
  rootA := fun a ha => by
    refine ⟨by decide, ha, ?_⟩
    rcases mem_exNodes ha with rfl | rfl | rfl | rfl <;> decide
  cfgN := fun a ha => by rcases ha with rfl | rfl <;> decide
  vnd := fun a ha => by rcases ha with rfl | rfl <;> decide
  tb := fun c e hc he _ _ hi => ⟨hc, he, hi⟩
  init := fun c hc h0 r hr => by
    rcases mem_exNodes hc with rfl | rfl | rfl | rfl
    · have : r = { m := (2, 2), l := (2, 2), Q := [1, 2] } ∨ r = { m := (3, 2), l := (3, 2), Q := [1, 2, 3] } := by
        simpa [exData] using hr
      rcases this with rfl | rfl <;> decide
    all_goals exact absurd h0 (by decide)
  recd := fun r hr => by
    have : r = { m := (2, 2), l := (2, 2), Q := [1, 2] } ∨ r = { m := (3, 2), l := (3, 2), Q := [1, 2, 3] } := by
      simpa [exData] using hr
    rcases this with rfl | rfl
    · refine ⟨rfl, by decide, by decide, (1, 1), ⟨Or.inl rfl, by decide, ?_⟩, by decide, by decide, by decide, ?_⟩
      · intro E hE hA
        rcases hE with rfl | rfl
        · decide
        · exact absurd hA.2.2 (by decide)
      · intro v hv
        have : v = 1 ∨ v = 2 := by simpa using hv
        rcases this with rfl | rfl <;> exact ⟨(2, 2), by decide, by decide⟩
    · refine ⟨rfl, by decide, by decide, (3, 2), ⟨Or.inr rfl, by decide, ?_⟩, by decide, by decide, by decide, ?_⟩
      · intro E hE _
        rcases hE with rfl | rfl <;> decide
      · intro v hv
        have : v = 1 ∨ v = 2 ∨ v = 3 := by simpa using hv
        rcases this with rfl | rfl | rfl <;> exact ⟨(3, 2), by decide, by decide⟩
  mono := fun r hr r' hr' _ hl => by
    have e1 : r = { m := (2, 2), l := (2, 2), Q := [1, 2] } ∨ r = { m := (3, 2), l := (3, 2), Q := [1, 2, 3] } := by
      simpa [exData] using hr
    have e2 : r' = { m := (2, 2), l := (2, 2), Q := [1, 2] } ∨ r' = { m := (3, 2), l := (3, 2), Q := [1, 2, 3] } := by
      simpa [exData] using hr'
    rcases e1 with rfl | rfl <;> rcases e2 with rfl | rfl <;> first | decide | (exact absurd hl (by decide))
  chain := fun c hc hne => by
    rcases hc with rfl | rfl
    · exact absurd rfl hne
    · refine ⟨by decide, (1, 1), { m := (2, 2), l := (2, 2), Q := [1, 2] }, by decide,
        ⟨Or.inl rfl, by decide, by decide, ?_⟩, ?_, fun _ => rfl, by decide, by decide⟩
      · intro E hE _ hlt
        rcases hE with rfl | rfl
        · decide
        · exact absurd hlt (by decide)
      · exact (⟨4, fun x hx => by simp; omega⟩ : AdjLists [1, 2, 3] [1, 2, 3, 4])
  creator := fun c hc hcr => by
    rcases mem_exNodes hc with rfl | rfl | rfl | rfl
    · exact absurd rfl hcr
    · exact ⟨{ cand := 1, term := 2, last := (1, 1), Q := [1, 2] }, by decide, rfl, rfl, by decide⟩
    · exact ⟨{ cand := 1, term := 2, last := (1, 1), Q := [1, 2] }, by decide, rfl, rfl, by decide⟩
    · exact ⟨{ cand := 2, term := 3, last := (3, 2), Q := [2, 3, 4] }, by decide, rfl, rfl, by decide⟩
  elect := fun e he => by
    have : e = { cand := 1, term := 2, last := (1, 1), Q := [1, 2] } ∨
        e = { cand := 2, term := 3, last := (3, 2), Q := [2, 3, 4] } := by simpa [exData] using he
    rcases this with rfl | rfl
    · refine ⟨by decide, by decide, (1, 1), ⟨Or.inl rfl, by decide, ?_⟩, by decide, by decide, by decide, ?_⟩
      · intro E hE hA
        rcases hE with rfl | rfl
        · decide
        · exact absurd hA.2.2 (by decide)
      · intro v hv
        have hv' : v = 1 ∨ v = 2 := by simpa using hv
        refine ⟨by rcases hv' with rfl | rfl <;> decide, ?_⟩
        intro r hr hlt
        have : r = { m := (2, 2), l := (2, 2), Q := [1, 2] } ∨ r = { m := (3, 2), l := (3, 2), Q := [1, 2, 3] } := by
          simpa [exData] using hr
        rcases this with rfl | rfl <;> exact absurd hlt (by decide)
    · refine ⟨by decide, by decide, (3, 2), ⟨Or.inr rfl, by decide, ?_⟩, by decide, by decide, by decide, ?_⟩
      · intro E hE _
        rcases hE with rfl | rfl <;> decide
      · intro v hv
        have hv' : v = 2 ∨ v = 3 ∨ v = 4 := by simpa using hv
        refine ⟨by rcases hv' with rfl | rfl | rfl <;> decide, ?_⟩
        intro r hr _ a _ _
        left
        have : r = { m := (2, 2), l := (2, 2), Q := [1, 2] } ∨ r = { m := (3, 2), l := (3, 2), Q := [1, 2, 3] } := by
          simpa [exData] using hr
        rcases this with rfl | rfl <;> decide
  grantU := fun v t c c' h1 h2 => by
    have g1 : (v, t, c) ∈ [(1, 2, 1), (2, 2, 1), (2, 3, 2), (3, 3, 2), (4, 3, 2)] := h1
    have g2 : (v, t, c') ∈ [(1, 2, 1), (2, 2, 1), (2, 3, 2), (3, 3, 2), (4, 3, 2)] := h2
    simp only [List.mem_cons, Prod.mk.injEq, List.mem_nil_iff, or_false] at g1 g2
    omega

/-- EXAMPLE: hence the entry `(4,3)` of the new leader extends the committed keys `(2,2)` and `(3,2)` -/
example : exData.A (3, 2) (4, 3) :=
  (member_safety exData_rules).1 { m := (3, 2), l := (3, 2), Q := [1, 2, 3] } (by decide) (4, 3) (by decide) (by decide)


/-! ### NECESSITY of "an entry of the leader's own term is committed" (the membership-change bug of 2015)

Four voters 1–4 (bootstrap entry `(1,1)`). Node 1 leads term 2, commits its no-op `(2,2)` with 1, 2, 3 and appends the
configuration `(3,2)` = voters 1–5 (node 5 added), which reaches nodes 1 and 5 only. Node 2 wins term 3 with the votes
of 2, 3, 4 (a majority of the bootstrap configuration; its log ends with `(2,2)`) and AT ONCE appends the configuration
`(3,3)` = voters 2, 3, 4 (node 1 removed): the previous configuration `(1,1)` is committed, but no entry of term 3 is.
`(3,3)` is acknowledged by 2 and 3 — a majority of ITSELF — and is committed. Node 1, whose log ends with `(3,2)`, wins
term 4 with the votes of 1, 4 and 5 — a majority of `(3,2)`; node 4 never saw `(3,3)` — and appends `(4,4)`, which does
not extend the committed `(3,3)`. Every rule holds except the own-term requirement at `(3,3)`: `Local False`. -/

def bugNodes : List K := [(1, 1), (2, 2), (3, 2), (3, 3), (4, 4)]
def bugPA : List K := [(1, 1), (2, 2), (3, 2), (4, 4)]
def bugPB : List K := [(1, 1), (2, 2), (3, 3)]

def bugA (a c : K) : Prop := (a ∈ bugPA ∧ c ∈ bugPA ∧ a.1 ≤ c.1) ∨ (a ∈ bugPB ∧ c ∈ bugPB ∧ a.1 ≤ c.1)
instance (a c : K) : Decidable (bugA a c) := by unfold bugA; infer_instance

def bugIsC (a : K) : Prop := a ∈ [((1, 1) : K), (3, 2), (3, 3)]
instance (a : K) : Decidable (bugIsC a) := by unfold bugIsC; infer_instance

def bugR : List Rec := [{ m := (2, 2), l := (2, 2), Q := [1, 2, 3] }, { m := (3, 3), l := (3, 3), Q := [2, 3] }]
def bugE : List El :=
  [{ cand := 1, term := 2, last := (1, 1), Q := [1, 2, 3] }, { cand := 2, term := 3, last := (2, 2), Q := [2, 3, 4] },
   { cand := 1, term := 4, last := (3, 2), Q := [1, 4, 5] }]
def bugAcks : List (Nat × Nat × K) :=
  [(1, 2, (2, 2)), (2, 2, (2, 2)), (3, 2, (2, 2)), (1, 2, (3, 2)), (5, 2, (3, 2)), (2, 3, (3, 3)), (3, 3, (3, 3))]
def bugGrants : List (Nat × Nat × Nat) :=
  [(1, 2, 1), (2, 2, 1), (3, 2, 1), (2, 3, 2), (3, 3, 2), (4, 3, 2), (1, 4, 1), (4, 4, 1), (5, 4, 1)]

def exBug : Data where
  A := bugA
  N := fun a => a ∈ bugNodes
  cr := fun a => if a = (1, 1) then 0 else if a = (3, 3) then 2 else 1
  isC := bugIsC
  V := fun a => if a = (3, 2) then [1, 2, 3, 4, 5] else if a = (3, 3) then [2, 3, 4] else [1, 2, 3, 4]
  root := (1, 1)
  R := bugR
  E := bugE
  acked := fun v w a => (v, w, a) ∈ bugAcks
  granted := fun v t c => (v, t, c) ∈ bugGrants

instance (a c : K) : Decidable (exBug.A a c) := inferInstanceAs (Decidable (bugA a c))
instance (a : K) : Decidable (exBug.N a) := inferInstanceAs (Decidable (a ∈ bugNodes))
instance (a : K) : Decidable (exBug.isC a) := inferInstanceAs (Decidable (bugIsC a))
instance (v w : Nat) (a : K) : Decidable (exBug.acked v w a) := inferInstanceAs (Decidable ((v, w, a) ∈ bugAcks))
instance (v t c : Nat) : Decidable (exBug.granted v t c) := inferInstanceAs (Decidable ((v, t, c) ∈ bugGrants))
instance (r : Rec) : Decidable (r ∈ exBug.R) := inferInstanceAs (Decidable (r ∈ bugR))
instance (e : El) : Decidable (e ∈ exBug.E) := inferInstanceAs (Decidable (e ∈ bugE))

theorem bugA_mem {a c : K} (h : bugA a c) : a ∈ bugNodes ∧ c ∈ bugNodes := by
  have hA : ∀ x ∈ bugPA, x ∈ bugNodes := by decide
  have hB : ∀ x ∈ bugPB, x ∈ bugNodes := by decide
  rcases h with ⟨h1, h2, _⟩ | ⟨h1, h2, _⟩
  · exact ⟨hA a h1, hA c h2⟩
  · exact ⟨hB a h1, hB c h2⟩

set_option maxRecDepth 100000 in
theorem bug_forest : Forest exBug where
  refl := fun a ha => (by decide : ∀ a ∈ bugNodes, bugA a a) a ha
  node := fun a c h => bugA_mem h
  trans := fun a b c h1 h2 =>
    (by decide : ∀ a ∈ bugNodes, ∀ b ∈ bugNodes, ∀ c ∈ bugNodes, bugA a b → bugA b c → bugA a c)
      a (bugA_mem h1).1 b (bugA_mem h1).2 c (bugA_mem h2).2 h1 h2
  cmp := fun a b c h1 h2 hi =>
    (by decide : ∀ a ∈ bugNodes, ∀ b ∈ bugNodes, ∀ c ∈ bugNodes, bugA a c → bugA b c → a.1 ≤ b.1 → bugA a b)
      a (bugA_mem h1).1 b (bugA_mem h2).1 c (bugA_mem h1).2 h1 h2 hi
  eqi := fun a c h hi =>
    (by decide : ∀ a ∈ bugNodes, ∀ c ∈ bugNodes, bugA a c → a.1 = c.1 → a = c) a (bugA_mem h).1 c (bugA_mem h).2 h hi
  idx := fun a c h => by rcases h with ⟨_, _, h⟩ | ⟨_, _, h⟩ <;> exact h
  trm := fun a c h =>
    (by decide : ∀ a ∈ bugNodes, ∀ c ∈ bugNodes, bugA a c → a.2 ≤ c.2) a (bugA_mem h).1 c (bugA_mem h).2 h

theorem mem_bugR {r : Rec} (h : r ∈ exBug.R) :
    r = { m := (2, 2), l := (2, 2), Q := [1, 2, 3] } ∨ r = { m := (3, 3), l := (3, 3), Q := [2, 3] } := by
  have : r ∈ bugR := h
  simpa [bugR] using this

theorem mem_bugE {e : El} (h : e ∈ exBug.E) :
    e = { cand := 1, term := 2, last := (1, 1), Q := [1, 2, 3] } ∨
    e = { cand := 2, term := 3, last := (2, 2), Q := [2, 3, 4] } ∨
    e = { cand := 1, term := 4, last := (3, 2), Q := [1, 4, 5] } := by
  have : e ∈ bugE := h
  simpa [bugE] using this

/-- the latest configuration entry at or below a node of `exBug`, by evaluation -/
theorem bug_lastCfg (D a : K) (h1 : bugIsC D) (h2 : bugA D a)
    (h3 : ∀ E ∈ bugNodes, bugIsC E → bugA E a → E.1 ≤ D.1) : LastCfg exBug D a :=
  ⟨h1, h2, fun E hE hA => h3 E (bugA_mem hA).1 hE hA⟩

set_option maxRecDepth 100000 in
/-- NECESSITY: `exBug` obeys every rule when the own-term requirement is dropped (`Local False`), … -/
theorem bug_local : Local False exBug where
  rootC := by decide
  rootA := fun a ha => (by decide : ∀ a ∈ bugNodes, bugA (1, 1) a) a ha
  cfgN := fun a ha => (by decide : ∀ a ∈ [((1, 1) : K), (3, 2), (3, 3)], a ∈ bugNodes) a ha
  vnd := fun a ha => (by decide : ∀ a ∈ [((1, 1) : K), (3, 2), (3, 3)], (exBug.V a).Nodup) a ha
  tb := fun c e hc he ht hcr hi =>
    (by decide : ∀ c ∈ bugNodes, ∀ e ∈ bugNodes, c.2 = e.2 → exBug.cr c = exBug.cr e → c.1 ≤ e.1 → bugA c e)
      c hc e he ht hcr hi
  init := fun c hc h0 r hr => by
    have hc1 : c = (1, 1) := (by decide : ∀ c ∈ bugNodes, exBug.cr c = 0 → c = (1, 1)) c hc h0
    subst hc1
    rcases mem_bugR hr with rfl | rfl <;> decide
  recd := fun r hr => by
    rcases mem_bugR hr with rfl | rfl
    · refine ⟨rfl, by decide, by decide, (1, 1), bug_lastCfg _ _ (by decide) (by decide) (by decide), by decide,
        by decide, by decide, ?_⟩
      intro v hv
      have : v = 1 ∨ v = 2 ∨ v = 3 := by simpa using hv
      rcases this with rfl | rfl | rfl <;> exact ⟨(2, 2), by decide, by decide⟩
    · refine ⟨rfl, by decide, by decide, (3, 3), bug_lastCfg _ _ (by decide) (by decide) (by decide), by decide,
        by decide, by decide, ?_⟩
      intro v hv
      have : v = 2 ∨ v = 3 := by simpa using hv
      rcases this with rfl | rfl <;> exact ⟨(3, 3), by decide, by decide⟩
  mono := fun r hr r' hr' ht hl => by
    rcases mem_bugR hr with rfl | rfl <;> rcases mem_bugR hr' with rfl | rfl <;>
      first | decide | (exact absurd ht (by decide)) | (exact absurd hl (by decide))
  chain := fun c hc hne => by
    have : c = (1, 1) ∨ c = (3, 2) ∨ c = (3, 3) := by
      have : c ∈ [((1, 1) : K), (3, 2), (3, 3)] := hc
      simpa using this
    rcases this with rfl | rfl | rfl
    · exact absurd rfl hne
    · refine ⟨by decide, (1, 1), { m := (2, 2), l := (2, 2), Q := [1, 2, 3] }, by decide,
        ⟨by decide, by decide, by decide, fun E hE hA hlt => ?_⟩, ?_, fun hf => hf.elim, by decide, by decide⟩
      · exact (by decide : ∀ E ∈ bugNodes, bugIsC E → bugA E (3, 2) → E.1 < 3 → E.1 ≤ 1) E (bugA_mem hA).1 hE hA hlt
      · exact (⟨5, fun x hx => by simp; omega⟩ : AdjLists [1, 2, 3, 4] [1, 2, 3, 4, 5])
    · refine ⟨by decide, (1, 1), { m := (2, 2), l := (2, 2), Q := [1, 2, 3] }, by decide,
        ⟨by decide, by decide, by decide, fun E hE hA hlt => ?_⟩, ?_, fun hf => hf.elim, by decide, by decide⟩
      · exact (by decide : ∀ E ∈ bugNodes, bugIsC E → bugA E (3, 3) → E.1 < 3 → E.1 ≤ 1) E (bugA_mem hA).1 hE hA hlt
      · exact (⟨1, fun x hx => by simp; omega⟩ : AdjLists [1, 2, 3, 4] [2, 3, 4])
  creator := fun c hc hcr => by
    have : c = (1, 1) ∨ c = (2, 2) ∨ c = (3, 2) ∨ c = (3, 3) ∨ c = (4, 4) := by
      have : c ∈ bugNodes := hc
      simpa [bugNodes] using this
    rcases this with rfl | rfl | rfl | rfl | rfl
    · exact absurd rfl hcr
    · exact ⟨{ cand := 1, term := 2, last := (1, 1), Q := [1, 2, 3] }, by decide, rfl, rfl, by decide⟩
    · exact ⟨{ cand := 1, term := 2, last := (1, 1), Q := [1, 2, 3] }, by decide, rfl, rfl, by decide⟩
    · exact ⟨{ cand := 2, term := 3, last := (2, 2), Q := [2, 3, 4] }, by decide, rfl, rfl, by decide⟩
    · exact ⟨{ cand := 1, term := 4, last := (3, 2), Q := [1, 4, 5] }, by decide, rfl, rfl, by decide⟩
  elect := fun e he => by
    rcases mem_bugE he with rfl | rfl | rfl
    · refine ⟨by decide, by decide, (1, 1), bug_lastCfg _ _ (by decide) (by decide) (by decide), by decide, by decide,
        by decide, fun v hv => ?_⟩
      have hv' : v = 1 ∨ v = 2 ∨ v = 3 := by simpa using hv
      refine ⟨by rcases hv' with rfl | rfl | rfl <;> decide, fun r hr hlt => ?_⟩
      rcases mem_bugR hr with rfl | rfl <;> exact absurd hlt (by decide)
    · refine ⟨by decide, by decide, (1, 1), bug_lastCfg _ _ (by decide) (by decide) (by decide), by decide, by decide,
        by decide, fun v hv => ?_⟩
      have hv' : v = 2 ∨ v = 3 ∨ v = 4 := by simpa using hv
      refine ⟨by rcases hv' with rfl | rfl | rfl <;> decide, fun r hr hlt a _ _ => ?_⟩
      rcases mem_bugR hr with rfl | rfl
      · left; decide
      · exact absurd hlt (by decide)
    · refine ⟨by decide, by decide, (3, 2), bug_lastCfg _ _ (by decide) (by decide) (by decide), by decide, by decide,
        by decide, fun v hv => ?_⟩
      have hv' : v = 1 ∨ v = 4 ∨ v = 5 := by simpa using hv
      refine ⟨by rcases hv' with rfl | rfl | rfl <;> decide, fun r hr _ a ha _ => ?_⟩
      rcases mem_bugR hr with rfl | rfl
      · left; decide
      · -- none of 1, 4, 5 acknowledged anything in term 3
        exfalso
        have ha' : (v, 3, a) ∈ bugAcks := ha
        simp only [bugAcks, List.mem_cons, Prod.mk.injEq, List.mem_nil_iff, or_false] at ha'
        omega

/-- … grants are unique, … -/
theorem bug_grantU : ∀ v t c c', exBug.granted v t c → exBug.granted v t c' → c = c' := by
  intro v t c c' h1 h2
  have g1 : (v, t, c) ∈ bugGrants := h1
  have g2 : (v, t, c') ∈ bugGrants := h2
  simp only [bugGrants, List.mem_cons, Prod.mk.injEq, List.mem_nil_iff, or_false] at g1 g2
  omega

/-- … and yet LEADER COMPLETENESS FAILS: `(3,3)` was committed in term 3, the entry `(4,4)` of term 4 does not extend
it. So the own-term requirement of the chain rule cannot be dropped from `member_safety`; in the code it is the clause
`commitIndex ≥ startIndex` of `leader.canChangeConfig` (`C08Step.OneChange.ownTerm`). -/
theorem bug_unsafe : ¬ (∀ r ∈ exBug.R, ∀ c, exBug.N c → r.m.2 < c.2 → exBug.A r.m c) := by
  intro h
  have := h { m := (3, 3), l := (3, 3), Q := [2, 3] } (by decide) (4, 4) (by decide) (by decide)
  revert this
  decide

/-- in particular `exBug` violates the own-term requirement (it is the only rule it violates) -/
example : ¬ Local True exBug := fun h =>
  bug_unsafe (member_safety { toForest := bug_forest, toLocal := h, grantU := bug_grantU }).1

end MemberCore
end Raft

#print axioms Raft.MemberCore.member_safety
#print axioms Raft.MemberCore.committed_chain
