/-
A TWO-LEVEL variant of the composition framework `Lemmas/FsmConfigA.lean`, for invariants of the shape "a node with an
empty log is a follower (and not a voter of its latest configuration)", which the leader handlers keep only in the stronger
form "the log is not empty":

* `L` — the invariant INSIDE the leader handlers (the mutually recursive block, `leaderInit`, `onChangeConfig`, the
  transfer handlers, `checkReplUpdates`, …): closed under the primitives of `FClosed` (reused from FsmConfigA: `appendEntry`
  with its assertion, …) and under `setRole`/`setLeader`/`setTerm`/`RemoveLTE` without any guard;
* `J` — the invariant BETWEEN handlers: `L s → J s` (`down`), and `J s → role ≠ follower → L s` (`up`). The primitives the
  non-leader handlers are built from keep `J`; `setRole candidate` is GUARDED by "the node is a voter of its latest
  configuration" (the two call sites — `follower.onTimeout`, `onTimeoutNowRequest` — have just tested it), `setRole leader`
  only happens to a candidate (`up`);
* the three handlers that write the log of a follower — `onAppendEntriesRequest` (under a condition `PA` on the request),
  `onInstallSnapRequest` (under `PI`), `Raft.bootstrap` — and the snapshot goroutine `snapRun` (in a state satisfying
  `PS`) are fields (proved directly for the concrete invariant).
`begin` (which clears `panicked`) is left to the caller. The proofs are those of FsmConfigA, mutatis mutandis.
-/
import RaftVerif.Lemmas.FsmConfigA

namespace Raft
namespace Node

structure TwoClosed (PA : Node → AppendReq → Prop) (PI : Node → InstallReq → Prop) (PS : Node → Prop)
    (L J : Node → Prop) : Prop extends FClosed L where
  down : ∀ s, L s → J s
  up : ∀ (s : Node), J s → s.role ≠ .follower → L s
  lRole : ∀ (s : Node) r, L s → L (s.setRole r)
  lLeader : ∀ (s : Node) l, L s → L (s.setLeader l)
  lTerm : ∀ (s : Node) t, L s → L (s.setTerm t)
  lRemoveLTE : ∀ (s : Node) i, L s → L { s with log := s.log.removeLTE i }
  jpanic : ∀ s site, J s → J (s.panic site)
  jreply : ∀ s t r, J s → J (s.reply t r)
  jpoint : ∀ s n, J s → J (s.point n)
  jldr : ∀ (s : Node) l, J s → J (s.withLdr l)
  jrpcReply : ∀ (s : Node) r, J s → J (s.withRpcReply r)
  jret : ∀ (s : Node) r, J s → J (s.ret r)
  jLeader : ∀ (s : Node) l, J s → J (s.setLeader l)
  jdoClose : ∀ (s : Node) r, J s → J (s.doClose r)
  jTerm : ∀ (s : Node) t, J s → J (s.setTerm t)
  jVotedFor : ∀ (s : Node) t c, J s → J (s.setVotedFor t c)
  jvotesNeeded : ∀ (s : Node) v, J s → J (s.withVotesNeeded v)
  jcandTransfer : ∀ (s : Node) v, J s → J (s.withCandTransfer v)
  jRemoveLTE : ∀ (s : Node) i, J s → J { s with log := s.log.removeLTE i }
  jsnapPending : ∀ (s : Node) v, J s → J (s.withSnapPending v)
  jsnapResult : ∀ (s : Node) v, J s → J (s.withSnapResult v)
  /-- the snapshot goroutine, in a state satisfying `PS` -/
  jsnapRun : ∀ (s : Node), J s → PS s → J s.snapRun
  /-- stepping down -/
  jRoleF : ∀ (s : Node), J s → J (s.setRole .follower)
  /-- becoming candidate: only a voter of the latest configuration does -/
  jRoleC : ∀ (s : Node), J s → s.configs.latest.isVoter s.nid = true → J (s.setRole .candidate)
  jbootstrap : ∀ (s : Node) t c, J s → J (s.bootstrap t c)
  jappend : ∀ (s : Node) q, J s → PA s q → J (s.onAppendEntries q)
  jinstall : ∀ (s : Node) q, J s → PI s q → J (s.onInstallSnap q)

namespace TwoClosed

variable {PA : Node → AppendReq → Prop} {PI : Node → InstallReq → Prop} {PS : Node → Prop} {L J : Node → Prop}
  (h : TwoClosed PA PI PS L J)
include h

/-! ### the leader level -/

theorem storeEntry_l (f : Nat) (s : Node) (b) (hs : L s) : L (storeEntry f s b) := (h.toFClosed.block f).1 s b hs
theorem doChangeConfig_l (f : Nat) (s : Node) (t c) (hs : L s) : L (doChangeConfig f s t c) :=
  (h.toFClosed.block f).2.2.2.1 s t c hs
theorem checkConfigActions_l (f : Nat) (s : Node) (t c) (hs : L s) : L (checkConfigActions f s t c) :=
  (h.toFClosed.block f).2.2.2.2.1 s t c hs
theorem checkConfigAction_l (f : Nat) (s : Node) (t c id) (hs : L s) : L (checkConfigAction f s t c id) :=
  (h.toFClosed.block f).2.2.2.2.2.1 s t c id hs
theorem onMajorityCommit_l (f : Nat) (s : Node) (hs : L s) : L (onMajorityCommit f s) :=
  (h.toFClosed.block f).2.2.2.2.2.2.2 s hs

theorem compactLog_l (s : Node) (i : Nat) (hs : L s) : L (s.compactLog i) := by
  unfold Node.compactLog; exact h.point _ _ (h.lRemoveLTE _ _ hs)

theorem checkQuorum_l (s : Node) (hs : L s) : L s.checkQuorum := by
  unfold Node.checkQuorum; dsimp only
  repeat' split
  all_goals first
    | exact hs
    | exact h.panic _ _ hs
    | exact h.lLeader _ _ (h.lRole _ _ hs)
    | exact h.lLeader _ _ (h.lRole _ _ (h.panic _ _ hs))

theorem transferReply_l (s : Node) (r : String) (hs : L s) : L (s.transferReply r) := by
  unfold Node.transferReply; exact h.ldr _ _ (h.reply _ _ _ hs)

theorem tryTransfer_l (s : Node) (hs : L s) : L s.tryTransfer := by
  unfold Node.tryTransfer; dsimp only
  have hp := h.popOrder s hs
  repeat' split
  all_goals first
    | exact hs
    | exact hp
    | exact h.panic _ _ hs
    | exact h.panic _ _ hp
    | exact h.ldr _ _ hs
    | exact h.ldr _ _ hp
    | exact h.ldr _ _ (h.panic _ _ hs)
    | exact h.ldr _ _ (h.panic _ _ hp)

theorem onTransfer_l (s : Node) (t g : Nat) (hs : L s) : L (s.onTransfer t g) := by
  unfold Node.onTransfer; dsimp only
  split
  · exact h.reply _ _ _ hs
  · exact h.tryTransfer_l _ (h.ldr _ _ hs)

theorem replyTransfer_l (s : Node) (r : String) (hs : L s) : L (s.replyTransfer r) := by
  unfold Node.replyTransfer; exact h.checkConfigActions_l _ _ _ _ (h.transferReply_l _ _ hs)

theorem onTimeoutNowResult_l (s : Node) (src : Nat) (e : Bool) (r : Nat) (hs : L s) :
    L (s.onTimeoutNowResult src e r) := by
  unfold Node.onTimeoutNowResult
  extract_lets l0 t0 s1 s2 l1 t1
  have h0 : L s1 := h.ldr _ _ hs
  have h2 : L s2 := by
    unfold s2
    split
    · split
      · exact h.toFClosed.setRepl_inv _ _ h0
      · exact h0
    · exact h.panic _ _ h0
  split
  · split
    · exact h.tryTransfer_l _ h2
    · exact h2
  · split
    · split
      · exact h.replyTransfer_l _ _ h0
      · exact h.tryTransfer_l _ h0
    · exact h.ldr _ _ h0

theorem leaderInit_l (s : Node) (hs : L s) : L s.leaderInit := by
  unfold Node.leaderInit; dsimp only
  apply h.storeEntry_l
  apply h.checkConfigActions_l
  apply FClosed.foldl_inv
  · intro s x hs
    split
    · exact hs
    · exact h.toFClosed.addReplication_inv _ _ hs
  · exact h.ldr _ _ (h.toFClosed.assert_inv _ _ _ hs)

end TwoClosed

/-- One backward step for goals `L (…)` at the leader level. -/
syntax "linv_step " term : tactic
macro_rules
  | `(tactic| linv_step $h) => `(tactic| first
      | assumption
      | with_reducible apply TwoClosed.compactLog_l $h
      | with_reducible apply TwoClosed.checkQuorum_l $h
      | with_reducible apply TwoClosed.tryTransfer_l $h
      | with_reducible apply TwoClosed.onTransfer_l $h
      | with_reducible apply TwoClosed.replyTransfer_l $h
      | with_reducible apply TwoClosed.transferReply_l $h
      | with_reducible apply TwoClosed.onTimeoutNowResult_l $h
      | with_reducible apply TwoClosed.storeEntry_l $h
      | with_reducible apply TwoClosed.doChangeConfig_l $h
      | with_reducible apply TwoClosed.checkConfigActions_l $h
      | with_reducible apply TwoClosed.checkConfigAction_l $h
      | with_reducible apply TwoClosed.onMajorityCommit_l $h
      | with_reducible apply FClosed.appendEntry_inv (TwoClosed.toFClosed $h)
      | with_reducible apply FClosed.commitLog_inv (TwoClosed.toFClosed $h)
      | with_reducible apply FClosed.assert_inv (TwoClosed.toFClosed $h)
      | with_reducible apply FClosed.fsmApply_inv (TwoClosed.toFClosed $h)
      | with_reducible apply FClosed.setRepl_inv (TwoClosed.toFClosed $h)
      | with_reducible apply FClosed.notifyFlr_inv (TwoClosed.toFClosed $h)
      | with_reducible apply FClosed.panic (TwoClosed.toFClosed $h)
      | with_reducible apply FClosed.reply (TwoClosed.toFClosed $h)
      | with_reducible apply FClosed.point (TwoClosed.toFClosed $h)
      | with_reducible apply FClosed.ldr (TwoClosed.toFClosed $h)
      | with_reducible apply TwoClosed.lRole $h
      | with_reducible apply TwoClosed.lLeader $h
      | with_reducible apply TwoClosed.lTerm $h
      | split)

syntax "linv_auto " term : tactic
macro_rules
  | `(tactic| linv_auto $h) => `(tactic| repeat' (linv_step $h))

namespace TwoClosed
variable {PA : Node → AppendReq → Prop} {PI : Node → InstallReq → Prop} {PS : Node → Prop} {L J : Node → Prop}
  (h : TwoClosed PA PI PS L J)
include h

theorem onChangeConfig_l (s : Node) (t : Nat) (c : Config) (hs : L s) : L (s.onChangeConfig t c) := by
  unfold Node.onChangeConfig
  dsimp only
  linv_auto h

theorem replUpdLoop_l (s : Node) (f : UpdFlags) (us : List ReplUpdate) (hs : L s) :
    L (replUpdLoop s f us).1 := by
  induction us generalizing s f with
  | nil => exact hs
  | cons u us ih =>
    unfold replUpdLoop
    dsimp only
    repeat' (first | linv_step h | apply ih)

theorem checkLogCompact_l (s : Node) (hs : L s) : L s.checkLogCompact := by
  unfold Node.checkLogCompact
  linv_auto h

theorem checkReplUpdates_l (s : Node) (us : List ReplUpdate) (hs : L s) : L (s.checkReplUpdates us) := by
  unfold Node.checkReplUpdates
  dsimp only
  have hL : L (replUpdLoop s {} us).1 := h.replUpdLoop_l _ _ _ hs
  have hC : ∀ x, L x → L x.checkLogCompact := fun x hx => h.checkLogCompact_l x hx
  repeat' (first | linv_step h | apply hC)

theorem onWaitForStable_l (s : Node) (t : Nat) (hs : L s) : L (s.onWaitForStable t) := by
  unfold Node.onWaitForStable
  linv_auto h

/-! ### the level between handlers -/

theorem assert_j (s : Node) (b : Bool) (site : String) (hs : J s) : J (s.assert b site) := by
  unfold Node.assert; split
  · exact hs
  · exact h.jpanic _ _ hs

theorem compactLog_j (s : Node) (i : Nat) (hs : J s) : J (s.compactLog i) := by
  unfold Node.compactLog; exact h.jpoint _ _ (h.jRemoveLTE _ _ hs)

theorem notifyFlr_j (s : Node) (hs : J s) : J s.notifyFlr := by
  unfold Node.notifyFlr; split
  · exact hs
  · split
    · exact hs
    · exact h.jpanic _ _ hs

theorem checkQuorum_j (s : Node) (hs : J s) : J s.checkQuorum := by
  unfold Node.checkQuorum; dsimp only
  repeat' split
  all_goals first
    | exact hs
    | exact h.jpanic _ _ hs
    | exact h.jLeader _ _ (h.jRoleF _ hs)
    | exact h.jLeader _ _ (h.jRoleF _ (h.jpanic _ _ hs))

theorem transferReply_j (s : Node) (r : String) (hs : J s) : J (s.transferReply r) := by
  unfold Node.transferReply; exact h.jldr _ _ (h.jreply _ _ _ hs)

omit h in
theorem foldl_j {β : Type} (f : Node → β → Node) (hf : ∀ s x, J s → J (f s x))
    (xs : List β) (s : Node) (hs : J s) : J (xs.foldl f s) := by
  induction xs generalizing s with
  | nil => exact hs
  | cons x xs ih => exact ih _ (hf _ _ hs)

theorem leaderRelease_j (s : Node) (hs : J s) : J s.leaderRelease := by
  unfold Node.leaderRelease Node.leaderReleaseRest; dsimp only
  apply h.jldr
  apply foldl_j _ (fun s t hs => h.jreply _ _ _ hs)
  apply foldl_j _ (fun s t hs => h.jreply _ _ _ hs)
  repeat' split
  all_goals first
    | exact hs
    | exact h.jLeader _ _ hs
    | exact h.transferReply_j _ _ hs
    | exact h.jLeader _ _ (h.transferReply_j _ _ hs)

omit h in
theorem role_setVotedFor (s : Node) (t c : Nat) : (s.setVotedFor t c).role = s.role := by
  unfold Node.setVotedFor Node.storeTermVote Node.panic Node.point
  dsimp only
  repeat' split
  all_goals rfl

omit h in
theorem role_assert (s : Node) (b : Bool) (site : String) : (s.assert b site).role = s.role := by
  unfold Node.assert Node.panic
  repeat' split
  all_goals rfl

theorem startElection_j (s : Node) (hs : J s) (hr : s.role = .candidate) : J s.startElection := by
  unfold Node.startElection
  extract_lets s1 s2 s3 s4
  have h4 : J s4 := h.jvotesNeeded _ _ (h.jVotedFor _ _ _ (h.jvotesNeeded _ _ (h.assert_j _ _ _ hs)))
  have hr4 : s4.role = .candidate := by
    show (s2.setVotedFor (s2.term + 1) s2.nid).role = _
    rw [role_setVotedFor]
    show (s.assert _ _).role = _
    rw [role_assert, hr]
  split
  · exact h.jLeader _ _ (h.down _ (h.lRole _ _ (h.up _ h4 (by rw [hr4]; decide))))
  · exact h4

theorem onVoteResult_j (s : Node) (e : Bool) (t r : Nat) (hs : J s) (hr : s.role = .candidate) :
    J (s.onVoteResult e t r) := by
  unfold Node.onVoteResult; dsimp only
  have hv : ∀ v, J ((s.withVotesNeeded v).setRole .leader) := fun v =>
    h.down _ (h.lRole _ _ (h.up _ (h.jvotesNeeded _ v hs) (by show s.role ≠ _; rw [hr]; decide)))
  repeat' split
  all_goals first
    | exact hs
    | exact h.jTerm _ _ (h.jRoleF _ hs)
    | exact h.jLeader _ _ (hv _)
    | exact h.jvotesNeeded _ _ hs

theorem followerTimeout_j (s : Node) (hs : J s) : J s.followerTimeout := by
  unfold Node.followerTimeout; dsimp only
  split
  · rename_i hc
    refine h.jRoleC _ (h.jLeader _ _ hs) ?_
    unfold Node.canStartElection at hc
    rw [Bool.and_eq_true] at hc
    exact hc.2
  · exact h.jLeader _ _ hs

theorem releaseRole_j (s : Node) (r : Role) (hs : J s) : J (s.releaseRole r) := by
  unfold Node.releaseRole
  split
  · exact hs
  · exact h.jcandTransfer _ _ hs
  · exact h.leaderRelease_j _ hs

theorem initRole_j (s : Node) (hs : J s) : J s.initRole := by
  unfold Node.initRole
  split
  · exact hs
  · rename_i hr
    exact h.startElection_j _ hs hr
  · rename_i hr
    exact h.down _ (h.leaderInit_l _ (h.up _ hs (by rw [hr]; decide)))

theorem settle_j (f : Nat) (s : Node) (c : Role) (hs : J s) : J (settle f s c) := by
  induction f generalizing s c with
  | zero => exact hs
  | succ n ih =>
    unfold settle
    split
    · exact hs
    · exact ih _ _ (h.initRole_j _ (h.releaseRole_j _ _ hs))

theorem onVoteRequest_j (s : Node) (q : VoteReq) (hs : J s) : J (s.onVoteRequest q) := by
  unfold Node.onVoteRequest
  dsimp only
  repeat' split
  all_goals first
    | exact h.jret _ _ hs
    | exact h.jret _ _ (h.jVotedFor _ _ _ hs)
    | exact h.jret _ _ (h.jVotedFor _ _ _ (h.jRoleF _ hs))

theorem onTimeoutNow_j (s : Node) (hs : J s) : J s.onTimeoutNow := by
  unfold Node.onTimeoutNow
  split
  · exact h.jret _ _ hs
  · rename_i hv
    refine h.jret _ _ (h.jcandTransfer _ _ (h.jLeader _ _ (h.jRoleC _ hs ?_)))
    cases hh : s.configs.latest.isVoter s.nid with
    | true => rfl
    | false => rw [hh] at hv; exact absurd rfl hv

theorem onTakeSnapshot_j (s : Node) (t th : Nat) (hs : J s) : J (s.onTakeSnapshot t th) := by
  unfold Node.onTakeSnapshot
  split
  · exact h.jreply _ _ _ hs
  · exact h.jsnapPending _ _ hs

theorem snapRun_j (s : Node) (hs : J s) (hps : PS s) : J s.snapRun := h.jsnapRun s hs hps

theorem onSnapshotTaken_j (s : Node) (hs : J s) : J s.onSnapshotTaken := by
  unfold Node.onSnapshotTaken
  split
  · exact hs
  · dsimp only
    have h1 := h.jsnapResult s none hs
    have hC : ∀ x i, J x → J (x.compactLog i) := fun x i hx => h.compactLog_j x i hx
    have hN : ∀ x, J x → J x.notifyFlr := fun x hx => h.notifyFlr_j x hx
    repeat' (first
      | assumption
      | with_reducible apply TwoClosed.jreply h
      | with_reducible apply hN
      | with_reducible apply TwoClosed.jldr h
      | with_reducible apply hC
      | split)

theorem rejectEntries_j (s : Node) (b : List QItem) (hs : J s) : J (s.rejectEntries b) := by
  induction b generalizing s with
  | nil => exact hs
  | cons q qs ih =>
    unfold Node.rejectEntries
    dsimp only
    apply ih
    split
    · exact h.jreply _ _ _ hs
    · exact h.jreply _ _ _ hs

theorem rpcDone_j (s : Node) (a b : Bool) (hs : J s) : J (s.rpcDone a b) := by
  unfold Node.rpcDone
  split
  · exact h.jpanic _ _ (h.jrpcReply _ _ hs)
  · exact h.jrpcReply _ _ hs

theorem shutdown_j (s : Node) (hs : J s)
    (hps : PS ((s.doClose "serverClosed").releaseRole (s.doClose "serverClosed").role)) : J s.shutdown := by
  unfold Node.shutdown
  extract_lets s1 s2 s3
  have h2 : J s2 := h.releaseRole_j _ _ (h.jdoClose _ _ hs)
  have h3 : J s3 := by
    unfold s3; split
    · exact h.snapRun_j _ h2 hps
    · exact h2
  split
  · exact h.onSnapshotTaken_j _ h3
  · exact h3

/-- what is asked of an operation: an append request satisfies `PA`, an install request `PI`, the snapshot goroutine
runs in a state satisfying `PS` -/
def _root_.Raft.Node.TwoOpOk (PA : Node → AppendReq → Prop) (PI : Node → InstallReq → Prop) (PS : Node → Prop)
    (s : Node) : Op → Prop
  | .append q => PA s q
  | .install q => PI s q
  | .snapRun => PS s
  | .shutdown => PS ((s.doClose "serverClosed").releaseRole (s.doClose "serverClosed").role)
  | _ => True

omit h in
theorem leader_ne {s : Node} (hr : s.role = .leader) : s.role ≠ .follower := by rw [hr]; decide

theorem handle_j (s : Node) (op : Op) (hs : J s) (hop : TwoOpOk PA PI PS s op) : J (s.handle op) := by
  cases op <;> unfold Node.handle <;> dsimp only
  case vote q => exact h.rpcDone_j _ _ _ (h.onVoteRequest_j _ _ hs)
  case append q => exact h.rpcDone_j _ _ _ (h.jappend _ _ hs hop)
  case install q => exact h.rpcDone_j _ _ _ (h.jinstall _ _ hs hop)
  case timeoutNow => exact h.rpcDone_j _ _ _ (h.onTimeoutNow_j _ hs)
  case identity a b c => exact h.jrpcReply _ _ hs
  case disconnected n => split; exact h.jLeader _ _ hs; exact hs
  case timeout =>
    split
    · exact h.followerTimeout_j _ hs
    · rename_i hr; exact h.startElection_j _ hs hr
    · exact h.checkQuorum_j _ hs
  case newEntries b =>
    split
    · rename_i hr; exact h.down _ (h.storeEntry_l _ _ _ (h.up _ hs (leader_ne hr)))
    · exact h.rejectEntries_j _ _ hs
  case changeConfig t c =>
    split
    · rename_i hr; exact h.down _ (h.onChangeConfig_l _ _ _ (h.up _ hs (leader_ne hr)))
    · exact h.jbootstrap _ _ _ hs
  case takeSnapshot t th => exact h.onTakeSnapshot_j _ _ _ hs
  case snapRun => exact h.snapRun_j _ hs hop
  case snapTaken => exact h.onSnapshotTaken_j _ hs
  case waitStable t =>
    split
    · rename_i hr; exact h.down _ (h.onWaitForStable_l _ _ (h.up _ hs (leader_ne hr)))
    · exact h.jreply _ _ _ hs
  case transfer t g =>
    split
    · rename_i hr; exact h.down _ (h.onTransfer_l _ _ _ (h.up _ hs (leader_ne hr)))
    · exact h.jreply _ _ _ hs
  case voteResult e t r =>
    split
    · rename_i hr; exact h.onVoteResult_j _ _ _ _ hs hr
    · exact hs
  case replUpdates us =>
    split
    · rename_i hr; exact h.down _ (h.checkReplUpdates_l _ _ (h.up _ hs (leader_ne hr)))
    · exact hs
  case transferTimeout =>
    split
    · rename_i hr; exact h.down _ (h.replyTransfer_l _ _ (h.up _ hs (leader_ne hr.1)))
    · exact hs
  case timeoutNowResult a b c =>
    split
    · rename_i hr; exact h.down _ (h.onTimeoutNowResult_l _ _ _ _ (h.up _ hs (leader_ne hr.1)))
    · exact hs
  case newTermTimeout =>
    split
    · rename_i hr; exact h.down _ (h.tryTransfer_l _ (h.ldr _ _ (h.up _ hs (leader_ne hr.1))))
    · exact hs
  case shutdown => exact h.shutdown_j _ hs hop

/-- **Composition theorem**: `J` after `begin` is preserved by the handler and the role transitions of every step. -/
theorem step_j (s : Node) (op : Op) (ra : List Nat) (ord : List (List Nat)) (hs : J (s.begin ra ord))
    (hop : TwoOpOk PA PI PS (s.begin ra ord) op) : J (s.step op ra ord) := by
  unfold Node.step
  dsimp only
  have h1 := h.handle_j _ op hs hop
  split
  · exact h1
  · exact h.settle_j _ _ _ h1

end TwoClosed
end Node
end Raft
