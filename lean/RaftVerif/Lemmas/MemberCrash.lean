/-
A crash during a step + restart, and a leader putting a request on the wire, preserve the invariant `MemberInv.MInv`
(the generalisation of `C02Sys.CC` / `C02Sys.cinv_send` to the system with membership changes); `minv_trans`: every
transition of `Member.Sys` does.
-/
import RaftVerif.Lemmas.MemberStep

namespace Raft
namespace MemberStep
open Node Election LogRel Replication CommitRel Commit Member MemberCore QuorumRel MemberInv MemberCommit
open SM (recOf leaders_same)

/-- what is on disk when node `i` dies while handling `op` -/
structure DImg (x : Member.Sys) (G : Ghost) (i : Nat) (op : Op) (post : Node) (d : Durable) : Prop where
  snaps : d.snaps = []
  prev : d.log.prev = 0
  dw : DW d
  pair : PairOK (x.node i) (AOp (x.node i) op) d.term d.vote
  termLe : ∀ e ∈ d.log.entries, e.term ≤ d.term
  dur : ∀ a ∈ acksG x G, a.voter = i → ∀ b : K, b.2 = a.term → DurHolds (x.node i) b →
    (b.1 ≤ d.log.entries.length ∧ Holds d.log.entries b.1 b.2) ∨ Unsafe x.cm.T b d.term
  within : (∀ q, op ≠ .append q) → d.log.entries <+: (x.node i).log.entries ∨ d.log.entries <+: post.log.entries
  growp : (∀ q, op ≠ .append q) → (x.node i).log.entries.length < d.log.entries.length →
    (d.term = post.term ∧ d.vote = post.votedFor) ∨
    ((x.node i).role = .leader ∧ lastTerm d.log.entries = (x.node i).term)
  /-- a step with a commit moment makes no new vote durable -/
  evp : ∀ T L, MEvs (x.node i) (Commit.Backed x.cm i) post T L → L ≠ [] → PairOK (x.node i) AF d.term d.vote
  /-- what was flushed — and does not conflict with the request handled, if it is not stale — is on disk -/
  keep : ∀ k, k ≤ (x.node i).log.flushed →
    (∀ q, op = .append q → ¬ q.term < (x.node i).term → NoConf (x.node i) q k) →
    d.log.entries.take k = (x.node i).log.entries.take k ∧ k ≤ d.log.entries.length

namespace SM
variable {x : Member.Sys} {G : Ghost} {i : Nat} {op : Op} {ra : List Nat} {ord : List (List Nat)} {src : Nat}

theorem img_pre (h : SM x G i op ra ord src) : DImg x G i op h.post (x.node i).durable := by
  have hI := h.inv
  have hn := nwfM hI i
  have hwf := (hI.rp.el.ids i).2
  have hd : (x.node i).durable.log.entries = (x.node i).log.entries.take (x.node i).log.flushed :=
    durable_entries hn
  refine ⟨hn.snaps, hn.prev, durable_dw _ hn.prev (hI.node.lwf i), ?_, fun e he => ?_, fun a _ _ b _ hb => ?_,
    fun _ => Or.inl (by rw [hd]; exact List.take_prefix _ _), fun _ hg => ?_, fun _ _ _ _ => ?_,
    fun k hk _ => ?_⟩
  rotate_right
  · have hfl : (x.node i).log.flushed ≤ (x.node i).log.entries.length := by
      have := (hI.node.lwf i).2
      unfold NLog.last at this; rw [hn.prev] at this; omega
    rw [hd, List.take_take, Nat.min_eq_left hk, List.length_take]
    exact ⟨rfl, by omega⟩
  · show PairOK _ _ (x.node i).durTerm (x.node i).durVote
    rw [hwf.1, hwf.2]; exact ⟨Nat.le_refl _, Or.inr (Or.inl ⟨rfl, rfl⟩)⟩
  · rw [hd] at he
    show e.term ≤ (x.node i).durTerm
    rw [hwf.1]; exact hI.node.termLe i e (List.mem_of_mem_take he)
  · left
    rw [hd, List.length_take]
    have := hb.2.2.1
    refine ⟨by have := hb.1; omega, holds_of_take_eq (k := (x.node i).log.flushed) ?_ hb.2 hb.1⟩
    rw [List.take_take, Nat.min_self]
  · rw [hd, List.length_take] at hg; omega
  · show PairOK _ _ (x.node i).durTerm (x.node i).durVote
    rw [hwf.1, hwf.2]; exact ⟨Nat.le_refl _, Or.inr (Or.inl ⟨rfl, rfl⟩)⟩

theorem img_post (h : SM x G i op ra ord src) : DImg x G i op h.post h.post.durable := by
  have hI := h.inv
  have hn := h.nwf_post
  have hwf := h.vstep.2
  have hd : h.post.durable.log.entries = h.post.log.entries.take h.post.log.flushed := durable_entries hn
  refine ⟨hn.snaps, hn.prev, durable_dw _ hn.prev h.lwf_post, ?_, fun e he => ?_, fun a ha hv b hb hdur => ?_,
    fun _ => Or.inr (by rw [hd]; exact List.take_prefix _ _), fun _ _ => Or.inl ⟨hwf.1, hwf.2⟩,
    fun T L m hne => ?_, fun k hk hnc => ?_⟩
  rotate_right
  · have hfl : (x.node i).log.flushed ≤ (x.node i).log.entries.length := by
      have := (hI.node.lwf i).2
      have hp := (nwfM hI i).prev
      unfold NLog.last at this; rw [hp] at this; omega
    have hflp : h.post.log.flushed ≤ h.post.log.entries.length := by
      have := h.lwf_post.2
      unfold NLog.last at this; rw [hn.prev] at this; omega
    -- the first `k` entries are kept and still flushed
    have kf : h.post.log.entries.take k = (x.node i).log.entries.take k ∧ k ≤ h.post.log.flushed := by
      rcases op_cases op with happ | ⟨q, rfl⟩
      · obtain ⟨es, te, _, hl⟩ := h.newM happ
        exact ⟨by rw [hl, List.take_append_of_le_length (by omega)], Nat.le_trans hk (h.nst happ).flush⟩
      · by_cases hst : q.term < (x.node i).term
        · have s1 : h.post.log = (x.node i).log := (append_stale _ q ra ord hst).1
          rw [s1]; exact ⟨rfl, hk⟩
        · obtain ⟨_, fs⟩ := h.fst hst
          obtain ⟨k1, k2⟩ := fs.keep k (by omega) (hnc q rfl hst)
          exact ⟨k1, k2 hk⟩
    rw [hd, List.take_take, Nat.min_eq_left kf.2, List.length_take]
    exact ⟨kf.1, by omega⟩
  · show PairOK _ _ h.post.durTerm h.post.durVote
    rw [hwf.1, hwf.2]; exact h.pair_post
  · rw [hd] at he
    show e.term ≤ h.post.durTerm
    rw [hwf.1]; exact h.termLe_post e (List.mem_of_mem_take he)
  · rcases h.dur_post ha hv hb hdur with ⟨d1, d2⟩ | u
    · left
      rw [hd, List.length_take]
      have := d2.2.1
      refine ⟨by omega, holds_of_take_eq (k := h.post.log.flushed) ?_ d2 d1⟩
      rw [List.take_take, Nat.min_self]
    · right
      show Unsafe x.cm.T b h.post.durTerm
      rw [hwf.1]; exact u
  · show PairOK _ _ h.post.durTerm h.post.durVote
    rw [hwf.1, hwf.2]; exact (m.trp hne).1

theorem img_trace (h : SM x G i op ra ord src) {p : String × Durable} (hp : p ∈ h.post.trace) :
    DImg x G i op h.post p.2 := by
  have hI := h.inv
  have hn := nwfM hI i
  rcases op_cases op with happ | ⟨q, rfl⟩
  · have ns := h.nst happ
    have ls := leader_step (x.node i) op ra ord hn (hI.rp.el.ids i).2 (h.side.boot i) h.en.rp.ok happ
      (fun hc => (hI.rp.el.cand i hc).term_pos)
    obtain ⟨es, te, l1, l2, _, _, l5⟩ := ls.ext
    obtain ⟨t1, t2, t3⟩ := ns.tr p hp
    obtain ⟨o1, o2, o3⟩ := l5 p hp
    refine ⟨o1, o2, t3, t2, fun e he => ?_, fun a _ _ b _ hb => ?_, fun _ => o3.imp id (fun z => z.1),
      fun _ hg => ns.trgrow p hp hg, fun T L m hne => (m.trp hne).2 p hp, fun k hk _ => ?_⟩
    rotate_right
    · have hfl : (x.node i).log.flushed ≤ (x.node i).log.entries.length := by
        have := (hI.node.lwf i).2
        unfold NLog.last at this; rw [hn.prev] at this; omega
      obtain ⟨r, hr⟩ := t1
      rw [← hr, List.take_append_of_le_length (by rw [List.length_take]; omega), List.take_take,
        Nat.min_eq_left hk, List.length_append, List.length_take]
      exact ⟨rfl, by omega⟩
    · rcases o3 with o3 | ⟨o3, o4⟩
      · exact Nat.le_trans (hI.node.termLe i e (o3.subset he)) t2.1
      · have := o3.subset he
        rw [l1] at this
        rcases List.mem_append.mp this with m | m
        · exact Nat.le_trans (hI.node.termLe i e m) t2.1
        · rw [l2 e m]; exact o4
    · left
      have hh : Holds ((x.node i).log.entries.take (x.node i).log.flushed) b.1 b.2 := by
        have := hb.2.2.1
        refine holds_of_take_eq (k := (x.node i).log.flushed) ?_ hb.2 hb.1
        rw [List.take_take, Nat.min_self]
      have := holds_prefix t1 hh
      exact ⟨this.2.1, this⟩
  · by_cases hst : q.term < (x.node i).term
    · have : h.post.trace = [] := (append_stale _ q ra ord hst).2.2.2.2.1
      rw [this] at hp; cases hp
    · obtain ⟨hq, fs⟩ := h.fst hst
      have pf := fs.tr p hp
      have hge : (x.node i).term ≤ q.term := Nat.le_of_not_lt hst
      refine ⟨pf.snaps, pf.prev, pf.segs, pf.pair.mono (fun _ _ hf => hf.elim), fun e he => ?_,
        fun a ha hv b hb hdur => ?_, fun hna => absurd rfl (hna q), fun hna => absurd rfl (hna q),
        fun _ _ _ _ => pf.pair, fun k hk hnc => pf.keep k hk (by
          have hfl := (hI.node.lwf i).2
          unfold NLog.last at hfl; rw [hn.prev] at hfl; omega) (hnc q rfl hst)⟩
      · rw [pf.term hge]
        rcases pf.src e he with m | m
        · exact Nat.le_trans (hI.node.termLe i e m) hge
        · exact (hI.sent.term q hq).1 e m
      · by_cases hnc : NoConf (x.node i) q b.1
        · left
          obtain ⟨k1, k2⟩ := pf.keep b.1 hdur.1 hdur.2.2.1 hnc
          exact ⟨k2, holds_of_take_eq k1 hdur.2 (Nat.le_refl _)⟩
        · right
          have : ∃ e ∈ q.entries, e.index ≤ b.1 ∧ termAt (x.node i).log.entries e.index ≠ e.term := by
            apply Classical.byContradiction
            intro hn'
            apply hnc
            intro e he hle
            apply Classical.byContradiction
            intro hne
            exact hn' ⟨e, he, hle, hne⟩
          obtain ⟨e, he, hle, hne⟩ := this
          rw [pf.term hge]
          exact conflict_unsafeM hI ha hv hb hdur.2 hq hst he hle hne

/-- what is on disk at any moment the process may die -/
theorem img (h : SM x G i op ra ord src) (k : Nat) : DImg x G i op h.post (C05.crashDisk (x.node i) op ra ord k) := by
  rcases C04Sys.crashDisk_cases (x.node i) op ra ord k with e | ⟨p, hp, e⟩ | e
  · rw [e]; exact h.img_pre
  · rw [e]; exact h.img_trace hp
  · rw [e]; exact h.img_post

end SM

/-- the hypotheses under which a crash is analysed -/
structure CM (x : Member.Sys) (G : Ghost) (i : Nat) (op : Op) (ra : List Nat) (ord : List (List Nat))
    (src k retain : Nat) (sor : Bool) (n : Node) : Prop where
  sm : SM x G i op ra ord src
  hn : Node.restart (C05.crashDisk (x.node i) op ra ord k) retain sor = some n

namespace CM
variable {x : Member.Sys} {G : Ghost} {i : Nat} {op : Op} {ra : List Nat} {ord : List (List Nat)}
  {src k retain : Nat} {sor : Bool} {n : Node}

/-- the state after the crash and the restart -/
abbrev y (_h : CM x G i op ra ord src k retain sor n) : Member.Sys := crashM x i op n

theorem node_i (h : CM x G i op ra ord src k retain sor n) : h.y.node i = n := by
  show setNode x.cm.rp.el.node i n i = _
  rw [setNode_same]

theorem node_j (h : CM x G i op ra ord src k retain sor n) {j : Nat} (hj : j ≠ i) : h.y.node j = x.node j := by
  show setNode x.cm.rp.el.node i n j = _
  rw [setNode_other _ _ _ _ hj]

theorem ry (h : CM x G i op ra ord src k retain sor n) : C04Member.RInv h.y.cm.rp h.y.ecfg :=
  C04Member.rinv_upd h.sm.inv.rp h.sm.esafe i op src n h.sm.en.rp.id (h.sm.side.q1 i) h.sm.en.rp.real
    (C04Member.upd_crash h.sm.inv.rp i (h.sm.side.boot i) op ra ord src k retain sor n h.sm.en.rp h.hn)
    { x.cm.rp.el with node := setNode x.cm.rp.el.node i n } _ rfl (fun g hg => hg)
    (fun k hk => List.mem_append_right _ hk)
    (C01Member.einv_crash x.cm.rp.el x.ecfg h.sm.inv.rp.el i op ra ord k retain sor n h.hn)

/-- the restarted node -/
theorem facts (h : CM x G i op ra ord src k retain sor n) :
    n.term = (C05.crashDisk (x.node i) op ra ord k).term ∧
    n.votedFor = (C05.crashDisk (x.node i) op ra ord k).vote ∧ C05.VoteWF n ∧ n.role = .follower ∧
    n.commitIndex = 0 ∧ n.fsm = {} ∧ n.log.flushed = n.log.entries.length ∧ C06.LogWF n.log ∧
    n.log.entries = (C05.crashDisk (x.node i) op ra ord k).log.entries := by
  have im := h.sm.img k
  obtain ⟨r1, r2, r3⟩ := C05.restart_reads_durable _ _ _ _ h.hn
  obtain ⟨r4, _⟩ := Election.restart_role_nid _ _ _ _ h.hn
  obtain ⟨f1, f2, f3, f4, f5⟩ := restart_facts _ retain sor n h.hn im.snaps im.prev im.dw
  exact ⟨r1, r2, r3, r4, f1, f2, f3, f4, f5⟩

theorem ext (h : CM x G i op ra ord src k retain sor n) : Ext x.cm h.y.cm i := by
  refine ⟨fun j hj => h.node_j hj, fun j => ?_, fun c hc => List.mem_append_right _ hc, fun q hq => hq,
    fun a ha => ha, fun k hk => List.mem_append_right _ hk, fun m hm => hm, fun g hg => hg, fun e he => he,
    fun e he => he, h.ry.uniq, h.sm.inv.tree.pathc⟩
  by_cases hj : j = i
  · subst hj
    show (x.node j).term ≤ (h.y.node j).term
    rw [h.node_i, h.facts.1]
    exact (h.sm.img k).pair.1
  · show (x.node j).term ≤ (h.y.node j).term
    rw [h.node_j hj]; exact Nat.le_refl _

/-- the new state, as new entries appended by node `i` that reached the disk -/
theorem newM (h : CM x G i op ra ord src k retain sor n) : ∃ es te, NewM x h.y G i op src es te := by
  have sm := h.sm
  have hI := sm.inv
  have hpre := nwfM hI i
  have upd := C04Member.upd_crash hI.rp i (sm.side.boot i) op ra ord src k retain sor n sm.en.rp h.hn
  obtain ⟨f1, f2, _, f4, _, _, _, _, f9⟩ := h.facts
  have hni := h.node_i
  have hfol : (h.y.node i).role = .leader → False := by
    rw [hni, f4]; intro e; cases e
  -- the trivial instance: nothing was created
  have triv : h.y.cm.T = chainOf i (lastTerm (x.node i).log.entries) [] ++ x.cm.T →
      NewM x h.y G i op src [] 0 := fun hT =>
    ⟨hI, sm.side, sm.en.rp.id, h.ext, h.ry, hT, fun hne => absurd rfl hne, fun hl => (hfol hl).elim,
      fun e he => absurd he List.not_mem_nil, fun hne => absurd rfl hne, sm.en.rp.real, fun hl => (hfol hl).elim⟩
  rcases upd.log with ⟨⟨q, hq⟩, _⟩ | ⟨hna, hl⟩
  · subst hq
    exact ⟨[], 0, triv rfl⟩
  · rcases hl with hp | ⟨es, te, e1, e2', e3, e4, e5, e6⟩
    · refine ⟨[], 0, triv ?_⟩
      show newCreated i (x.node i).log.entries n.log.entries op ++ x.cm.T = _
      rw [C04Sys.newCreated_other _ _ _ _ hna, List.drop_eq_nil_of_le hp.length_le]
    · have e2 : n.log.entries = (x.node i).log.entries ++ es := e2'
      refine ⟨es, te, ⟨hI, sm.side, sm.en.rp.id, h.ext, h.ry, ?_, fun _ => by rw [hni]; exact e2,
        fun hl => (hfol hl).elim, fun e he => ⟨e3 e he, ?_⟩, fun _ => by rw [hni]; exact ⟨e4, e5, e6⟩,
        sm.en.rp.real, fun hl => (hfol hl).elim⟩⟩
      · show newCreated i (x.node i).log.entries n.log.entries op ++ x.cm.T = _
        rw [C04Sys.newCreated_other _ _ _ _ hna, e2, List.drop_left]
      · have := (C04Sys.contig_drop upd.nwf.contig (x.node i).log.entries.length).2 e
          (by rw [e2, List.drop_left]; exact he)
        rw [hpre.last]; exact this.1

theorem treeM (h : CM x G i op ra ord src k retain sor n) : TreeM h.y G := by
  obtain ⟨es, te, hN⟩ := h.newM
  exact hN.treeM

theorem nodeM (h : CM x G i op ra ord src k retain sor n) : NodeM h.y := by
  have hI := h.sm.inv
  have hE := h.ext
  obtain ⟨f1, _, _, f4, _, _, f7, f8, f9⟩ := h.facts
  have im := h.sm.img k
  have hfol : (h.y.node i).role = .follower := by rw [h.node_i]; exact f4
  refine ⟨fun j => ?_, fun j => ?_, fun j k' hk hk2 => ?_, fun j hr => ?_, fun j hl => ?_, fun j hl hc => ?_⟩
  · by_cases hj : j = i
    · subst hj; rw [h.node_i]; exact f8
    · rw [h.node_j hj]; exact hI.node.lwf j
  · by_cases hj : j = i
    · subst hj; rw [h.node_i, f9, f1]; exact im.termLe
    · rw [h.node_j hj]; exact hI.node.termLe j
  · by_cases hj : j = i
    · subst hj; rw [h.node_i] at hk hk2; omega
    · rw [h.node_j hj] at hk hk2 ⊢
      obtain ⟨c, hc, r⟩ := hI.node.unfl j k' hk hk2
      exact ⟨c, hE.T c hc, r⟩
  · by_cases hj : j = i
    · subst hj; exact absurd hfol hr
    · rw [h.node_j hj] at hr ⊢
      obtain ⟨c, hc, r⟩ := hI.node.camp j hr
      exact ⟨c, hE.camps c hc, r⟩
  · by_cases hj : j = i
    · subst hj; rw [hfol] at hl; cases hl
    · rw [h.node_j hj] at hl ⊢
      refine (hI.node.ldr j hl).mono ?_
      rintro v m ⟨a, ha, a1, a2, a3⟩
      refine ⟨a, ha, a1, ?_, a3⟩
      show a.term = (h.y.node j).term
      rw [h.node_j hj]; exact a2
  · by_cases hj : j = i
    · subst hj; rw [hfol] at hl; cases hl
    · rw [h.node_j hj] at hl hc ⊢; exact hI.node.cc j hl hc

theorem sentM (h : CM x G i op ra ord src k retain sor n) : SentM h.y := by
  have hI := h.sm.inv
  have hE := h.ext
  refine ⟨fun q hq => ?_, fun q hq => hI.sent.term q hq, fun q hq => ?_, fun q hq c hc h0 => ?_, fun q hq => ?_⟩
  rotate_right
  · obtain ⟨c1, c2⟩ := hI.sent.cmt q hq
    exact ⟨fun e he hle => hE.cmt (Nat.le_refl _) (c1 e he hle), fun h1 h2 => hE.cmt (Nat.le_refl _) (c2 h1 h2)⟩
  · obtain ⟨a1, a3, a4, a5⟩ := hI.sent.won q hq
    refine ⟨a1, a3, Nat.le_trans a4 (hE.term _), fun hc => ?_⟩
    by_cases hj : q.src = i
    · have e : h.y.node q.src = n := by rw [hj]; exact h.node_i
      rw [e, h.facts.2.2.2.1] at hc; cases hc
    · rw [h.node_j hj] at hc ⊢; exact a5 hc
  · obtain ⟨c, hc, c1, c2, c3⟩ := hI.sent.anc q hq
    exact ⟨c, hE.T c hc, c1, fun e he => hE.anc (c2 e he), fun h1 => hE.anc (c3 h1)⟩
  · obtain ⟨es, te, hN⟩ := h.newM
    rcases hN.mem_T hc with hn | ho
    · exact absurd ((hN.mem_new hn).1.symm.trans h0) h.sm.en.rp.id
    · exact hI.sent.init q hq c ho h0

/-- **commit indexes** after a crash: the restarted node's is 0 -/
theorem cmtM (h : CM x G i op ra ord src k retain sor n) : CmtM h.y := by
  have hI := h.sm.inv
  have hE := h.ext
  refine ⟨fun j k' hk hk2 => ?_⟩
  by_cases hj : j = i
  · subst hj
    rw [h.node_i, h.facts.2.2.2.2.1] at hk2
    omega
  · rw [h.node_j hj] at hk2 ⊢
    obtain ⟨c1, c2⟩ := hI.cmt.cc j k' hk hk2
    exact ⟨c1, hE.cmt (Nat.le_refl _) c2⟩

/-- the configuration a campaign is recorded with is the last configuration entry of the campaign's log -/
theorem cfgAt_new (h : CM x G i op ra ord src k retain sor n) :
    ∃ D, CfgAt h.y.cm.T D (x.node i).configs.latest ((x.node i).lastLogIndex, (x.node i).lastLogTerm) := by
  have hI := h.sm.inv
  have hn := nwfM hI i
  have hcl := h.sm.inv.cfg.cl i
  have hlen : 1 ≤ (x.node i).log.entries.length := by
    obtain ⟨⟨e, he, _⟩, _⟩ := hcl
    exact List.length_pos_of_mem he
  obtain ⟨D, hD, _⟩ := cfgAt_of_log hI.rp i (x.node i).log.entries.length hlen (Nat.le_refl _)
    (by rw [List.take_length]; exact hcl)
  refine ⟨D, ?_⟩
  rw [hn.last, hn.lastT, ← termAt_length]
  exact cfgAt_mono h.ext.T h.ry.uniq ⟨_, log_pathM hI i, hlen, Nat.le_refl _, rfl⟩ hD

/-! ### the ghost ledgers after a crash -/

/-- the commit moments of the interrupted step that are kept: those that happened within the log found on disk -/
def kept (n : Node) (L : List CEvt) : List CEvt := L.filter (fun ev => decide (ev.len ≤ n.log.entries.length))

theorem mem_kept {n : Node} {L : List CEvt} {ev : CEvt} : ev ∈ kept n L ↔ ev ∈ L ∧ ev.len ≤ n.log.entries.length := by
  unfold kept
  rw [List.mem_filter]
  simp

/-- the self acknowledgement of a commit moment -/
def selfOf (i T : Nat) (ev : CEvt) : Ack := ⟨i, T, ev.ci, T⟩

/-- what is known when a commit moment of the interrupted step is kept: the node was leader of `T`; the log on disk
lies between the old log and the log the completed step would have produced; no new vote reached the disk -/
theorem kept_facts (h : CM x G i op ra ord src k retain sor n) (happ : ∀ q, op ≠ .append q) {T : Nat} {L : List CEvt}
    (m : MEvs (x.node i) (Commit.Backed x.cm i) h.sm.post T L) {ev : CEvt} (hev : ev ∈ kept n L) :
    (x.node i).role = .leader ∧ T = (x.node i).term ∧ (x.node i).log.entries <+: n.log.entries ∧
    n.log.entries <+: h.sm.post.log.entries ∧ PairOK (x.node i) AF n.term n.votedFor := by
  obtain ⟨hevL, hlen⟩ := mem_kept.mp hev
  have hne : L ≠ [] := List.ne_nil_of_mem hevL
  obtain ⟨hl, hT⟩ := h.sm.ev_leader m hne
  have im := h.sm.img k
  obtain ⟨f1, f2, _, _, _, _, _, _, f9⟩ := h.facts
  obtain ⟨es, te, _, hle⟩ := h.sm.newM happ
  have hpp : (x.node i).log.entries <+: h.sm.post.log.entries := by rw [hle]; exact List.prefix_append _ _
  have hge := (m.ev ev hevL).2.2.1
  have hnp : n.log.entries <+: h.sm.post.log.entries := by
    rw [f9]
    rcases im.within happ with w | w
    · have hl1 := w.length_le
      rw [← f9] at hl1
      have : (C05.crashDisk (x.node i) op ra ord k).log.entries = (x.node i).log.entries :=
        w.eq_of_length (by rw [← f9]; omega)
      rw [this]; exact hpp
    · exact w
  refine ⟨hl, hT, ?_, hnp, by rw [f1, f2]; exact im.evp T L m hne⟩
  exact List.prefix_of_prefix_length_le hpp hnp (by omega)

end CM


/-- what is known of a ghost self acknowledgement added at a crash -/
structure SelfA (x : Member.Sys) (i : Nat) (n : Node) (a : Ack) : Prop where
  voter : a.voter = i
  et : a.eterm = a.term
  term : a.term = (x.node i).term
  leader : (x.node i).role = .leader
  holds : Holds n.log.entries a.index a.term
  pair : PairOK (x.node i) AF n.term n.votedFor

namespace CM
variable {x : Member.Sys} {G : Ghost} {i : Nat} {op : Op} {ra : List Nat} {ord : List (List Nat)}
  {src k retain : Nat} {sor : Bool} {n : Node}

theorem selfA_kept (h : CM x G i op ra ord src k retain sor n) (happ : ∀ q, op ≠ .append q) {T : Nat} {L : List CEvt}
    (m : MEvs (x.node i) (Commit.Backed x.cm i) h.sm.post T L) {ev : CEvt} (hev : ev ∈ kept n L) :
    SelfA x i n (selfOf i T ev) := by
  obtain ⟨hl, hT, _, hnp, hp⟩ := h.kept_facts happ m hev
  obtain ⟨hevL, hlen⟩ := mem_kept.mp hev
  obtain ⟨_, a2, _, _, hci, _⟩ := m.ev ev hevL
  exact ⟨rfl, rfl, hT, hl, holds_of_prefix hnp hci (by show ev.ci ≤ _; omega), hp⟩

theorem acks_cases (h : CM x G i op ra ord src k retain sor n) {SAn : List Ack} {a : Ack}
    (ha : a ∈ h.y.cm.acks ++ (SAn ++ G.SA)) : a ∈ SAn ∨ a ∈ acksG x G := by
  rcases List.mem_append.mp ha with ha | ha
  · exact Or.inr (List.mem_append_left _ ha)
  · rcases List.mem_append.mp ha with ha | ha
    · exact Or.inl ha
    · exact Or.inr (List.mem_append_right _ ha)

/-- the new acknowledgements are node `i`'s, in its old term -/
theorem new_acks (h : CM x G i op ra ord src k retain sor n) {SAn : List Ack} (hnew : ∀ a ∈ SAn, SelfA x i n a) :
    ∀ a ∈ h.y.cm.acks ++ (SAn ++ G.SA), a ∈ acksG x G ∨ (a.voter = i ∧ (x.node i).term ≤ a.term) := by
  intro a ha
  rcases h.acks_cases ha with hn | ho
  · exact Or.inr ⟨(hnew a hn).voter, Nat.le_of_eq (hnew a hn).term.symm⟩
  · exact Or.inl ho

/-- **acknowledgements** after a crash and restart -/
theorem ackM (h : CM x G i op ra ord src k retain sor n) {SAn : List Ack} (hnew : ∀ a ∈ SAn, SelfA x i n a) :
    AckM h.y (h.y.cm.acks ++ (SAn ++ G.SA)) := by
  have hI := h.sm.inv
  have hE := h.ext
  obtain ⟨f1, _, _, _, _, _, f7, _, f9⟩ := h.facts
  have im := h.sm.img k
  have hni := h.node_i
  refine ⟨fun a ha => ?_, fun a ha => ?_, fun a ha b hb hanc => ?_⟩
  · rcases h.acks_cases ha with hn | ho
    · obtain ⟨n1, n2, n3, _, n5, n6⟩ := hnew a hn
      have hh : Holds (h.y.node i).log.entries a.index a.term := by rw [hni]; exact n5
      obtain ⟨r, hr, hk⟩ := rrecordM h.ry i hh
      refine ⟨n5.1, ?_, by rw [n2]; exact Nat.le_refl _, r, hr, by rw [hk]; unfold Ack.key; rw [n2]⟩
      rw [n1, hni, n3]; exact n6.1
    · obtain ⟨a1, a2, a3, c, hc, hk⟩ := hI.ack.wf a ho
      exact ⟨a1, Nat.le_trans a2 (hE.term _), a3, c, hE.T c hc, hk⟩
  · rcases h.acks_cases ha with hn | ho
    · right
      obtain ⟨n1, n2, n3, n4, n5, _⟩ := hnew a hn
      refine ⟨n2, ?_⟩
      have hh : Holds (h.y.node i).log.entries a.index a.term := by rw [hni]; exact n5
      obtain ⟨r, hr, hk⟩ := rrecordM h.ry i hh
      refine ⟨r, hr, by rw [hk]; unfold Ack.key; rw [n2], ?_⟩
      have hrt : r.e.term = a.term := by unfold key at hk; simp only [Prod.mk.injEq] at hk; exact hk.2
      rw [n1]
      obtain ⟨es, te, hN⟩ := h.newM
      rcases hN.mem_T hr with hnw | hold
      · exact ⟨(hN.mem_new hnw).1, by rw [(hN.mem_new hnw).1]; exact h.sm.en.rp.id⟩
      · exact ⟨creator_is_leaderM hI h.sm.side.tree n4 hold (hrt.trans n3),
          cr_ne_zeroM hI (by rw [n4]; decide) hold (hrt.trans n3)⟩
    · rcases hI.ack.src a ho with ⟨q, hq, r⟩ | ⟨e, c, hc, r⟩
      · exact Or.inl ⟨q, hq, r⟩
      · exact Or.inr ⟨e, c, hE.T c hc, r⟩
  · rcases h.acks_cases ha with hn | ho
    · left
      obtain ⟨n1, n2, _, _, n5, _⟩ := hnew a hn
      rw [n1, hni]
      have hh : Holds (h.y.node i).log.entries a.key.1 a.key.2 := by
        rw [hni]; unfold Ack.key; rw [n2]; exact n5
      have hbh := rholdsM h.ry i hanc hh
      rw [hni] at hbh
      exact ⟨by rw [f7]; exact hbh.2.1, hbh⟩
    · obtain ⟨c, hc, hk⟩ := (hI.ack.wf a ho).2.2.2
      rw [← hk] at hanc
      have hanc' := anc_reflect hE hc hanc
      rw [hk] at hanc'
      by_cases hv : a.voter = i
      · rw [hv, hni]
        rcases hI.ack.stable a ho b hb hanc' with d | u
        · rw [hv] at d
          rcases im.dur a ho hv b hb d with ⟨d1, d2⟩ | u
          · left
            exact ⟨by rw [f7, f9]; exact d1, by rw [f9]; exact d2⟩
          · right; rw [f1]; exact hE.unsafeU (Nat.le_refl _) u
        · rw [hv] at u
          right
          exact hE.unsafeU (by rw [f1]; exact im.pair.1) u
      · rw [h.node_j hv]
        exact (hI.ack.stable a ho b hb hanc').imp id (hE.unsafeU (Nat.le_refl _))

theorem pair_n (h : CM x G i op ra ord src k retain sor n) :
    PairOK (x.node i) (AOp (x.node i) op) n.term n.votedFor := by
  rw [h.facts.1, h.facts.2.1]; exact (h.sm.img k).pair

theorem camp_new (_h : CM x G i op ra ord src k retain sor n) {c : Camp} (hc : c ∈ campOf i (x.node i) n) :
    n.term > (x.node i).term ∧ n.votedFor = i ∧
    c = Camp.mk i n.term (x.node i).lastLogIndex (x.node i).lastLogTerm := by
  unfold campOf at hc
  split at hc
  · rename_i hcond
    exact ⟨hcond.1, hcond.2, List.mem_singleton.mp hc⟩
  · cases hc

theorem camp_cases (h : CM x G i op ra ord src k retain sor n) {c : Camp} (hc : c ∈ h.y.cm.camps) :
    c ∈ campOf i (x.node i) n ∨ c ∈ x.cm.camps := List.mem_append.mp hc

theorem ecfg_cases (h : CM x G i op ra ord src k retain sor n) {c : ECfg} (hc : c ∈ h.y.ecfg) :
    c ∈ ecfgOf i (x.node i) n ∨ c ∈ x.ecfg := List.mem_append.mp hc

theorem campUniq_n (h : CM x G i op ra ord src k retain sor n) : ∀ c ∈ h.y.cm.camps,
    ∀ c' ∈ h.y.cm.camps, c.cand = c'.cand → c.term = c'.term → c = c' := by
  have hI := h.sm.inv
  intro c hc c' hc' e1 e2
  have key : ∀ kn ∈ campOf i (x.node i) n, ∀ ko ∈ x.cm.camps, kn.cand = ko.cand → kn.term = ko.term → False := by
    intro kn hkn ko hko a1 a2
    obtain ⟨n1, _, n3⟩ := h.camp_new hkn
    have := (hI.vote.campWf ko hko).2.1
    rw [← a1, ← a2, n3] at this
    have this' : n.term ≤ (x.node i).term := this
    omega
  rcases h.camp_cases hc with hn | ho <;> rcases h.camp_cases hc' with hn' | ho'
  · rw [(h.camp_new hn).2.2, (h.camp_new hn').2.2]
  · exact (key c hn c' ho' e1 e2).elim
  · exact (key c' hn' c ho e1.symm e2.symm).elim
  · exact hI.vote.campUniq c ho c' ho' e1 e2

/-- **the up-to-date check for the vote found on disk** -/
theorem vote_core (h : CM x G i op ra ord src k retain sor n) (hv0 : n.votedFor ≠ 0)
    {c : Camp} (hc : c ∈ h.y.cm.camps) (hcc : c.cand = n.votedFor) (hct : c.term = n.term)
    {a : Ack} (ha : a ∈ acksG x G) (hav : a.voter = i) (hlt : a.term < c.term)
    {b : K} (hb : b.2 = a.term) (hanc : Anc h.y.cm.T b a.key) :
    Anc h.y.cm.T b c.last ∨ Unsafe h.y.cm.T b c.term := by
  have sm := h.sm
  have hI := sm.inv
  have hE := h.ext
  have hnid := sm.nid_pre
  obtain ⟨ca, hca, hcak⟩ := (hI.ack.wf a ha).2.2.2
  rw [← hcak] at hanc
  have hanc' := anc_reflect hE hca hanc
  rw [hcak] at hanc'
  have hst := hI.ack.stable a ha b hb hanc'
  rw [hav] at hst
  rcases h.pair_n.2 with p0 | ⟨p1, p2⟩ | ⟨q, rfl, p1, p2, p3, p4⟩ | ⟨p1, p2⟩
  · exact absurd p0 hv0
  · have hko : c ∈ x.cm.camps := by
      rcases h.camp_cases hc with hn | ho
      · have := (h.camp_new hn).1; omega
      · exact ho
    have hv0' : (x.node i).votedFor ≠ 0 := by rw [← p2]; exact hv0
    rcases hI.vote.voteInv i hv0' c hko (hcc.trans p2) (hct.trans p1) a ha hav hlt b hb hanc' with r | r
    · exact Or.inl (hE.anc r)
    · exact Or.inr (hE.unsafeU (Nat.le_refl _) r)
  · have hk0 : (Camp.mk q.src q.term q.lastLogIndex q.lastLogTerm) ∈ x.cm.camps := by
      rcases sm.en.vote q rfl with hs | hc'
      · omega
      · exact hc'
    have hkk : c = Camp.mk q.src q.term q.lastLogIndex q.lastLogTerm :=
      h.campUniq_n c hc _ (hE.camps _ hk0) (hcc.trans p2) (hct.trans p1)
    rcases hst with ⟨_, hh⟩ | u
    · rcases uptodate_ancM hI hh hk0 p4 with r | r
      · left; rw [hkk]; exact hE.anc r
      · right; rw [hkk]; exact hE.unsafeU (Nat.le_refl _) r
    · right
      rw [hct, p1]
      exact hE.unsafeU p3 u
  · have hcond : n.term > (x.node i).term ∧ n.votedFor = i := ⟨p2, by rw [p1, hnid]⟩
    have hkn : (Camp.mk i n.term (x.node i).lastLogIndex (x.node i).lastLogTerm) ∈ h.y.cm.camps := by
      apply List.mem_append_left
      unfold campOf
      rw [if_pos hcond]
      exact List.mem_singleton.mpr rfl
    have hkk := h.campUniq_n c hc _ hkn (hcc.trans hcond.2) hct
    rcases hst with ⟨_, hh⟩ | u
    · left
      have hlen : 1 ≤ (x.node i).log.entries.length := by have := hh.1; have := hh.2.1; omega
      have := log_ancM hI i (a := b) (c := ((x.node i).log.entries.length, (x.node i).lastLogTerm)) hh
        (C02Sys.holds_last (nwfM hI i) hlen) hh.2.1
      rw [hkk]
      show Anc _ b ((x.node i).lastLogIndex, (x.node i).lastLogTerm)
      rw [(nwfM hI i).last]
      exact hE.anc this
    · right
      rw [hct]
      exact hE.unsafeU (Nat.le_of_lt p2) u

/-- a new self acknowledgement is never older than a campaign node `i` takes part in after the restart -/
theorem selfA_term (h : CM x G i op ra ord src k retain sor n) {a : Ack} (hs : SelfA x i n a) :
    (n.votedFor ≠ 0 → n.term = a.term) ∧ (x.node i).term = a.term := by
  refine ⟨fun hv => ?_, hs.term.symm⟩
  rcases hs.pair.2 with p | ⟨p, _⟩ | p
  · exact absurd p hv
  · rw [p, hs.term]
  · exact p.elim

/-- **campaigns, votes and elections** after a crash and restart -/
theorem voteM (h : CM x G i op ra ord src k retain sor n) {SAn : List Ack} (hnew : ∀ a ∈ SAn, SelfA x i n a) :
    VoteM h.y (h.y.cm.acks ++ (SAn ++ G.SA)) := by
  have sm := h.sm
  have hI := sm.inv
  have hE := h.ext
  have hni := h.node_i
  have hnid := sm.nid_pre
  have hwfa : ∀ a ∈ acksG x G, ∃ c ∈ x.cm.T, key c = a.key := fun a ha => (hI.ack.wf a ha).2.2.2
  have newk : ∀ c ∈ campOf i (x.node i) n, c.cand = i ∧ (x.node i).term < c.term ∧ c.term = n.term ∧
      n.votedFor = i ∧ c.last = ((x.node i).lastLogIndex, (x.node i).lastLogTerm) := by
    intro c hc
    obtain ⟨n1, n2, n3⟩ := h.camp_new hc
    rw [n3]; exact ⟨rfl, n1, rfl, n2, rfl⟩
  have oldv : ∀ {a : Ack} {b : K}, a ∈ acksG x G → Anc h.y.cm.T b a.key → Anc x.cm.T b a.key := by
    intro a b ha hanc
    obtain ⟨ca, hca, hcak⟩ := hwfa a ha
    rw [← hcak] at hanc
    have := anc_reflect hE hca hanc
    rw [hcak] at this
    exact this
  have hrecOld : ∀ k ∈ x.cm.camps, ∃ es, Path x.cm.T es ∧ Holds es k.last.1 k.last.2 := by
    intro k hk
    obtain ⟨_, _, _, c, hc, hck⟩ := hI.vote.campWf k hk
    obtain ⟨es, p, hh⟩ := hI.tree.pathc c hc
    exact ⟨es, p, by rw [← hck]; exact hh⟩
  refine ⟨h.campUniq_n, fun c hc => ?_, fun v hv hvv => ?_, fun v hv c hc hcc hct a ha hav hlt b hb hanc => ?_,
    fun g hg c hc hcc hct a ha hav hlt b hb hanc => ?_, fun c hc v hel => ?_, fun e he => hI.vote.countedGrant e he,
    fun g hg => ?_, fun c hc => ?_, fun kc hkc => ?_⟩
  · rcases h.camp_cases hc with hn | ho
    · obtain ⟨n1, n2, n3, _, n5⟩ := newk c hn
      have hlt := lastLogTerm_leM hI i
      refine ⟨by rw [n1]; exact sm.en.rp.id, by rw [n1, hni, n3]; exact Nat.le_refl _, ?_, ?_⟩
      · have : c.lastTerm = (x.node i).lastLogTerm := congrArg Prod.snd n5
        omega
      · obtain ⟨D, ⟨_, hA, _⟩⟩ := h.cfgAt_new
        rw [← n5] at hA
        obtain ⟨_, es, p, hh, _⟩ := hA
        obtain ⟨r, hr, c1, c2, _⟩ := path_record p hh
        exact ⟨r, hr, by unfold key; rw [c1, c2]⟩
    · obtain ⟨a1, a2, a3, r, hr, hrk⟩ := hI.vote.campWf c ho
      exact ⟨a1, Nat.le_trans a2 (hE.term _), a3, r, hE.T r hr, hrk⟩
  · by_cases hvi : v = i
    · subst hvi
      rw [hni] at hv hvv ⊢
      rcases h.pair_n.2 with p0 | ⟨p1, p2⟩ | ⟨q, rfl, p1, p2, p3, _⟩ | ⟨p1, _⟩
      · exact absurd p0 hv
      · obtain ⟨c, hc, k1, k2⟩ := hI.vote.voteCamp v (by rw [← p2]; exact hv) (by rw [← p2]; exact hvv)
        exact ⟨c, hE.camps c hc, by rw [k1, p2], by rw [k2, p1]⟩
      · rcases sm.en.vote q rfl with hst | hc
        · omega
        · exact ⟨_, hE.camps _ hc, p2.symm, p1.symm⟩
      · rw [p1, hnid] at hvv; exact absurd rfl hvv
    · rw [h.node_j hvi] at hv hvv ⊢
      obtain ⟨c, hc, r⟩ := hI.vote.voteCamp v hv hvv
      exact ⟨c, hE.camps c hc, r⟩
  · -- the vote a node holds
    rcases h.acks_cases ha with han | hao
    · -- a new self acknowledgement is not older than the vote
      exfalso
      have hs := hnew a han
      have hvi : v = i := hav.symm.trans hs.voter
      subst hvi
      rw [hni] at hv hct
      have := (h.selfA_term hs).1 hv
      omega
    · by_cases hvi : v = i
      · subst hvi
        rw [hni] at hv hcc hct
        exact h.vote_core hv hc hcc hct hao hav hlt hb hanc
      · rw [h.node_j hvi] at hv hcc hct
        have hko : c ∈ x.cm.camps := by
          rcases h.camp_cases hc with hn | ho
          · exfalso
            obtain ⟨n1, n2, _⟩ := newk c hn
            have hvv : (x.node v).votedFor ≠ v := by rw [← hcc, n1]; exact fun e => hvi e.symm
            obtain ⟨c', hc', k1, k2⟩ := hI.vote.voteCamp v hv hvv
            have := (hI.vote.campWf c' hc').2.1
            rw [k1, ← hcc, n1, k2, ← hct] at this
            omega
          · exact ho
        rcases hI.vote.voteInv v hv c hko hcc hct a hao hav hlt b hb (oldv hao hanc) with r | r
        · exact Or.inl (hE.anc r)
        · exact Or.inr (hE.unsafeU (Nat.le_refl _) r)
  · -- every recorded grant
    have hgt := grant_termM hI hg
    rcases h.acks_cases ha with han | hao
    · exfalso
      have hs := hnew a han
      rw [← hav, hs.voter] at hgt
      have := hs.term
      omega
    · have hko : c ∈ x.cm.camps := by
        rcases h.camp_cases hc with hn | ho'
        · exfalso
          obtain ⟨n1, n2, _⟩ := newk c hn
          obtain ⟨c', hc', k1, k2⟩ := hI.vote.grantCamp g hg
          have := (hI.vote.campWf c' hc').2.1
          rw [k1, ← hcc, n1, k2, ← hct] at this
          omega
        · exact ho'
      rcases hI.vote.grantInv g hg c hko hcc hct a hao hav hlt b hb (oldv hao hanc) with r | r
      · exact Or.inl (hE.anc r)
      · exact Or.inr (hE.unsafeU (Nat.le_refl _) r)
  · -- the voters a candidate counted
    rcases h.camp_cases hc with hn | ho
    · obtain ⟨n1, n2, n3, n4, n5⟩ := newk c hn
      have hvi : v = i := by
        rcases hel with e | e
        · exact e.trans n1
        · exfalso
          have := hI.rp.el.countedTerm _ e
          have this' : c.term ≤ (x.node c.cand).term := this
          rw [n1] at this'; omega
      subst hvi
      intro a ha hav hlt b hb hanc
      rcases h.acks_cases ha with han | hao
      · exfalso
        have hs := hnew a han
        have := (h.selfA_term hs).1 (by rw [n4]; exact sm.en.rp.id)
        omega
      · have hst := hI.ack.stable a hao b hb (oldv hao hanc)
        rw [hav] at hst
        rcases hst with ⟨_, hh⟩ | ⟨r, hr, c1, c2, c3⟩
        · left
          have hlen : 1 ≤ (x.node v).log.entries.length := by have := hh.1; have := hh.2.1; omega
          have := log_ancM hI v (a := b) (c := ((x.node v).log.entries.length, (x.node v).lastLogTerm)) hh
            (C02Sys.holds_last (nwfM hI v) hlen) hh.2.1
          rw [n5, (nwfM hI v).last]
          exact hE.anc this
        · right
          exact ⟨r, hE.T r hr, c1, hE.not_anc hr c3, Or.inl (by omega)⟩
    · refine upToM_mono hE hwfa (fun a ha => ?_) (hI.vote.electInv c ho v hel)
      rcases h.acks_cases ha with han | hao
      · right
        intro hav
        have hs := hnew a han
        have := elector_termM hI ho hel
        rw [← hav, hs.voter] at this
        rw [hs.term]; exact this
      · exact Or.inl hao
  · obtain ⟨c, hc, r⟩ := hI.vote.grantCamp g hg
    exact ⟨c, hE.camps c hc, r⟩
  · rcases h.camp_cases hc with hn | ho
    · obtain ⟨n1, n2, n3⟩ := h.camp_new hn
      refine ⟨⟨i, n.term, (x.node i).configs.latest⟩, ?_, by rw [n3], by rw [n3], ?_⟩
      · apply List.mem_append_left
        unfold ecfgOf
        rw [if_pos ⟨n1, n2⟩]
        exact List.mem_singleton.mpr rfl
      · rw [n3]; exact h.cfgAt_new
    · obtain ⟨kc, hkc, c1, c2, D, hD⟩ := hI.vote.campCfg c ho
      exact ⟨kc, List.mem_append_right _ hkc, c1, c2, D, cfgAt_mono hE.T h.ry.uniq (hrecOld c ho) hD⟩
  · rcases h.ecfg_cases hkc with hn | ho
    · obtain ⟨n1, n2, n3⟩ := C01Member.mem_ecfgOf hn
      refine ⟨Camp.mk i n.term (x.node i).lastLogIndex (x.node i).lastLogTerm, ?_, by rw [n3], by rw [n3]⟩
      apply List.mem_append_left
      unfold campOf
      rw [if_pos ⟨n1, n2⟩]
      exact List.mem_singleton.mpr rfl
    · obtain ⟨c, hc, r⟩ := hI.vote.cfgCamp kc ho
      exact ⟨c, hE.camps c hc, r⟩

/-! ### commit records and election records after a crash -/

/-- an old record stays a record -/
theorem recOK_old (h : CM x G i op ra ord src k retain sor n) (SAn : List Ack) {r : Rec}
    (hr : RecOK x (acksG x G) r) : RecOK h.y (h.y.cm.acks ++ (SAn ++ G.SA)) r := by
  have hE := h.ext
  obtain ⟨r1, r2, ⟨c, hc, hk, h0⟩, D, cfg, r4, r5, r6, r7⟩ := hr
  obtain ⟨p, hp, hh⟩ := h.sm.inv.tree.pathc c hc
  refine ⟨r1, hE.anc r2, ⟨c, hE.T c hc, hk, h0⟩, D, cfg,
    cfgAt_mono hE.T h.ry.uniq ⟨p, hp, by rw [← hk]; exact hh⟩ r4, r5, r6, fun v hv => ?_⟩
  obtain ⟨a, ha, a1, a2, a3⟩ := r7 v hv
  refine ⟨a, ?_, a1, a2, hE.anc a3⟩
  rcases List.mem_append.mp ha with ha | ha
  · exact List.mem_append_left _ ha
  · exact List.mem_append_right _ (List.mem_append_right _ ha)

/-- the log found on disk is a root path of the new tree -/
theorem npath (h : CM x G i op ra ord src k retain sor n) : Path h.y.cm.T n.log.entries := by
  have := rpathM h.ry i
  rwa [h.node_i] at this

theorem nanc (h : CM x G i op ra ord src k retain sor n) {a c : K} (ha : Holds n.log.entries a.1 a.2)
    (hc : Holds n.log.entries c.1 c.2) (hle : a.1 ≤ c.1) : Anc h.y.cm.T a c := anc_of_path h.npath ha hc hle

theorem nrecord (h : CM x G i op ra ord src k retain sor n) {k' τ : Nat} (hh : Holds n.log.entries k' τ) :
    ∃ c ∈ h.y.cm.T, key c = (k', τ) := by
  obtain ⟨c, hc, h1, h2, _⟩ := path_record h.npath hh
  exact ⟨c, hc, by unfold key; rw [h1, h2]⟩

/-- **the record of a commit moment of the interrupted step that is kept** -/
theorem recOK_new (h : CM x G i op ra ord src k retain sor n) (happ : ∀ q, op ≠ .append q) {T : Nat} {L : List CEvt}
    (m : MEvs (x.node i) (Commit.Backed x.cm i) h.sm.post T L) {ev : CEvt} (hev : ev ∈ kept n L) :
    RecOK h.y (h.y.cm.acks ++ ((kept n L).map (selfOf i T) ++ G.SA)) (recOf T ev) := by
  have hI := h.sm.inv
  obtain ⟨hl, hT, hpn, hnp, _⟩ := h.kept_facts happ m hev
  obtain ⟨hevL, hlen⟩ := mem_kept.mp hev
  obtain ⟨a1, a2, a3, a4, hci, afl, acl, aq1, aq2, aq3⟩ := m.ev ev hevL
  have hlenT := h.sm.ev_terms happ m hevL a2 a4
  have hci' : Holds n.log.entries ev.ci T := holds_of_prefix hnp hci (by omega)
  have hlenT' : Holds n.log.entries ev.len T := holds_of_prefix hnp hlenT hlen
  have hni := h.node_i
  have htake : n.log.entries.take ev.len = h.sm.post.log.entries.take ev.len := by
    obtain ⟨r, hr⟩ := hnp
    rw [← hr, List.take_append_of_le_length hlen]
  obtain ⟨D, hD, _⟩ := cfgAt_of_log h.ry i ev.len hlenT.1 (by rw [hni]; exact hlen) (by rw [hni, htake]; exact acl)
  rw [hni, hlenT'.2.2] at hD
  obtain ⟨cl, hcl, hclk⟩ := h.nrecord hlenT'
  refine ⟨rfl, h.nanc hci' hlenT' a2, ⟨cl, hcl, hclk, ?_⟩, D, ev.cfg, hD, aq1, aq2, fun v hv => ?_⟩
  · have hclt : cl.e.term = T := by unfold key at hclk; simp only [Prod.mk.injEq] at hclk; exact hclk.2
    obtain ⟨es, te, hN⟩ := h.newM
    rcases hN.mem_T hcl with hn | ho
    · rw [(hN.mem_new hn).1]; exact h.sm.en.rp.id
    · exact cr_ne_zeroM hI (i := i) (by rw [hl]; decide) ho (hclt.trans hT)
  · rcases aq3 v hv with e | ⟨_, _, mm, hm1, a, ha, b1, b2, b3⟩
    · -- the leader itself: the ghost self acknowledgement
      refine ⟨selfOf i T ev, ?_, by rw [e, h.sm.nid_pre]; rfl, rfl, h.nanc hci' hci' (Nat.le_refl _)⟩
      apply List.mem_append_right
      apply List.mem_append_left
      exact List.mem_map.mpr ⟨ev, hev, rfl⟩
    · have hah := ack_on_leaderM hI h.sm.side.tree hl (List.mem_append_left _ ha) b2
      have hah' : Holds n.log.entries a.index a.eterm := holds_prefix hpn hah
      refine ⟨a, List.mem_append_left _ ha, b1, by rw [b2, hT]; rfl, ?_⟩
      exact h.nanc hci' hah' (by show ev.ci ≤ a.index; omega)

/-- **the commit records** after a crash in a step that is not an append request: the commit moments that happened
within the log found on disk are kept (with their ghost self acknowledgements) -/
theorem recM (h : CM x G i op ra ord src k retain sor n) (happ : ∀ q, op ≠ .append q) {T : Nat} {L : List CEvt}
    (m : MEvs (x.node i) (Commit.Backed x.cm i) h.sm.post T L) (E' : List El) :
    RecM h.y ⟨G.root, (kept n L).map (recOf T) ++ G.R, E', (kept n L).map (selfOf i T) ++ G.SA⟩ := by
  have hI := h.sm.inv
  have hE := h.ext
  have hni := h.node_i
  obtain ⟨es, te, hN⟩ := h.newM
  have hfol : n.role = .follower := h.facts.2.2.2.1
  have hmem : ∀ r ∈ (kept n L).map (recOf T) ++ G.R, (∃ ev ∈ kept n L, r = recOf T ev) ∨ r ∈ G.R := by
    intro r hr
    rcases List.mem_append.mp hr with hr | hr
    · obtain ⟨ev, hev, rfl⟩ := List.mem_map.mp hr
      exact Or.inl ⟨ev, hev, rfl⟩
    · exact Or.inr hr
  refine ⟨fun r hr => ?_, fun r hr r' hr' ht hlt => ?_, fun m' hm' => ?_, fun c hc hty h0 => ?_,
    fun j hl hst => ?_, fun c hc h0 r hr => ?_, fun j hl r hr ht => ?_⟩
  · rcases hmem r hr with ⟨ev, hev, rfl⟩ | ho
    · exact h.recOK_new happ m hev
    · exact h.recOK_old _ (hI.recs.recd r ho)
  · rcases hmem r hr with ⟨ev, hev, rfl⟩ | ho <;> rcases hmem r' hr' with ⟨ev', hev', rfl⟩ | ho'
    · show ev.ci ≤ ev'.ci
      have hlt' : ev.len < ev'.len := hlt
      rcases pairwise_cases m.sorted ev (mem_kept.mp hev).1 ev' (mem_kept.mp hev').1 with e | ⟨_, e⟩ | ⟨e, _⟩
      · rw [e] at hlt'; omega
      · omega
      · omega
    · exfalso
      obtain ⟨hl, hT, _⟩ := h.kept_facts happ m hev
      have hb := (hI.recs.bound i hl r' ho' (by rw [← ht]; exact hT)).2
      have := (m.ev ev (mem_kept.mp hev).1).2.2.1
      have hlt' : ev.len < r'.l.1 := hlt
      omega
    · obtain ⟨hl, hT, _⟩ := h.kept_facts happ m hev'
      have hb := (hI.recs.bound i hl r ho (by rw [ht]; exact hT)).1
      have := (m.ev ev' (mem_kept.mp hev').1).1
      show r.m.1 ≤ ev'.ci
      omega
    · exact hI.recs.mono r ho r' ho' ht hlt
  · obtain ⟨r, hr, e⟩ := hI.recs.cover m' hm'
    exact ⟨r, List.mem_append_right _ hr, e⟩
  · rcases hN.mem_T hc with hn | ho
    · obtain ⟨c1, c2, c3, c4, hne⟩ := hN.mem_new hn
      have hch := hN.new_holds hn
      rw [hni] at hch
      -- the log on disk is a prefix of the log the completed step produces
      obtain ⟨es', te', _, hle⟩ := h.sm.newM happ
      have im := h.sm.img k
      have f9 := h.facts.2.2.2.2.2.2.2.2
      have hnp : n.log.entries <+: h.sm.post.log.entries := by
        rw [f9]
        rcases im.within happ with w | w
        · exfalso
          have := w.length_le
          rw [← f9] at this
          have := hch.2.1
          omega
        · exact w
      have hcm : c.e ∈ h.sm.post.log.entries := by
        apply hnp.subset
        rw [← hni, hN.log hne]
        exact List.mem_append_right _ c2
      obtain ⟨P, ci, p1, p2, p3, p4⟩ := m.chg c.e hcm c4 hty
      have htake : n.log.entries.take (c.e.index - 1) = h.sm.post.log.entries.take (c.e.index - 1) := by
        obtain ⟨r, hr⟩ := hnp
        rw [← hr, List.take_append_of_le_length (by have := hch.2.1; omega)]
      have hPT := prevT_of_log h.ry i c.e.index (by rw [hni]; exact hch.2.1) (by rw [hni, htake]; exact p1)
      rw [hni, hch.2.2] at hPT
      have hPh : Holds n.log.entries P.index P.term := by
        have := rholdsM h.ry i hPT.2.1 (by rw [hni]; exact hch)
        rwa [hni] at this
      have hcT : c.e.term = T := m.newT c.e hcm c4
      have hcile : ci ≤ n.log.entries.length := by
        have := p3; have := hPT.2.2.1; have := hch.2.1
        rcases p4 with ⟨e1, _, _⟩ | ⟨ev, hevL, e1, e2⟩
        · have := ciLeM hI i
          have := (hN.mem_new hn).2.2.2.1
          omega
        · have := (m.ev ev hevL).2.1; omega
      have p2' : Holds n.log.entries ci T := holds_of_prefix hnp p2 hcile
      rcases p4 with ⟨e1, hl, hst⟩ | ⟨ev, hevL, e1, e2⟩
      · obtain ⟨r, hr, r1, r2⟩ := hI.recs.lead i hl (by rw [← e1]; exact hst)
        have lo := hI.node.ldr i hl
        have hTe : T = (x.node i).term := by
          have hcl : ci ≤ (x.node i).log.entries.length := by rw [e1]; exact ciLeM hI i
          have := lo.own ci hst hcl
          have h2 := p2.2.2
          rw [hle, termAt_append_left _ _ _ hcl] at h2
          omega
        refine ⟨(P.index, P.term), r, List.mem_append_right _ hr, hPT, by rw [r1, hcT]; exact hTe.symm, by omega, ?_⟩
        rw [r1, ← e1, ← hTe]
        exact h.nanc hPh p2' p3
      · have hevk : ev ∈ kept n L := mem_kept.mpr ⟨hevL, by have := hch.2.1; omega⟩
        refine ⟨(P.index, P.term), recOf T ev, List.mem_append_left _ (List.mem_map.mpr ⟨ev, hevk, rfl⟩), hPT,
          hcT.symm, e2, ?_⟩
        show Anc _ _ (ev.ci, T)
        rw [e1]
        exact h.nanc hPh p2' p3
    · obtain ⟨P, r, hr, hP, r1, r2, r3⟩ := hI.recs.chain c ho hty h0
      obtain ⟨p, hp, hh⟩ := hI.tree.pathc c ho
      exact ⟨P, r, List.mem_append_right _ hr, prevT_mono hE.T h.ry.uniq ⟨p, hp, hh⟩ hP, r1, r2, hE.anc r3⟩
  · by_cases hj : j = i
    · subst hj; rw [hni, hfol] at hl; cases hl
    · rw [h.node_j hj] at hl hst ⊢
      obtain ⟨r, hr, r1, r2⟩ := hI.recs.lead j hl hst
      exact ⟨r, List.mem_append_right _ hr, r1, r2⟩
  · have hco : c ∈ x.cm.T := by
      rcases hN.mem_T hc with hn | ho
      · exact absurd ((hN.mem_new hn).1.symm.trans h0) h.sm.en.rp.id
      · exact ho
    rcases hmem r hr with ⟨ev, hev, rfl⟩ | ho
    · obtain ⟨hl, hT, _⟩ := h.kept_facts happ m hev
      have := (hI.rp.init0 c hco h0 i).2 (by rw [show (x.cm.rp.el.node i).role = _ from hl]; decide)
      show c.e.term ≤ T
      rw [hT]; exact Nat.le_of_lt this
    · exact hI.recs.init c hco h0 r ho
  · by_cases hj : j = i
    · subst hj; rw [hni, hfol] at hl; cases hl
    · rw [h.node_j hj] at hl ht ⊢
      rcases hmem r hr with ⟨ev, hev, rfl⟩ | ho
      · exfalso
        obtain ⟨hli, hT, _⟩ := h.kept_facts happ m hev
        have ht' : T = (x.node j).term := ht
        exact hj (leaders_same hI h.sm.side.tree hl hli (by rw [← ht', hT]))
      · exact hI.recs.bound j hl r ho ht

/-- **the commit records** after a crash in a step handling an append request: nothing is added -/
theorem recM_app {q : AppendReq} (h : CM x G i (.append q) ra ord src k retain sor n) : RecM h.y G := by
  have hI := h.sm.inv
  have hT : h.y.cm.T = x.cm.T := rfl
  have hfol : n.role = .follower := h.facts.2.2.2.1
  refine ⟨fun r hr => ?_, hI.recs.mono, hI.recs.cover, by rw [hT]; exact hI.recs.chain, fun j hl hst => ?_,
    by rw [hT]; exact hI.recs.init, fun j hl r hr ht => ?_⟩
  · have := h.recOK_old [] (hI.recs.recd r hr)
    exact this
  · by_cases hj : j = i
    · subst hj; rw [h.node_i, hfol] at hl; cases hl
    · rw [h.node_j hj] at hl hst ⊢; exact hI.recs.lead j hl hst
  · by_cases hj : j = i
    · subst hj; rw [h.node_i, hfol] at hl; cases hl
    · rw [h.node_j hj] at hl ht ⊢; exact hI.recs.bound j hl r hr ht

/-- **configurations and logs after a crash and the restart**: the restarted node's configurations are the last two
configuration entries of what it found on disk -/
theorem cfgM (h : CM x G i op ra ord src k retain sor n) (hsidey : SideT (crashM x i op n)) (G' : Ghost)
    (hroot : G'.root = G.root) (hsub : ∀ r ∈ G.R, r ∈ G'.R) : CfgM h.y G' := by
  have hI := h.sm.inv
  have hE := h.ext
  have hR := h.ry
  have t := h.treeM
  have hni := h.node_i
  have im := h.sm.img k
  obtain ⟨_, _, _, _, _, _, f7, _, f9⟩ := h.facts
  have hnw : NWF n := by
    have := (hR.nodes i).1
    rwa [show h.y.cm.rp.el.node i = _ from hni] at this
  have hne : 1 ≤ (x.node i).log.entries.length := by
    obtain ⟨⟨e, he, _⟩, _⟩ := hI.cfg.cl i
    exact List.length_pos_of_mem he
  have hhx := holds_root hI.rp hI.tree.rootA i hne
  have hrootx : ProtG x G i G.root.1 := protG_root hhx
  -- the bootstrap entry is on disk
  obtain ⟨k1, k2⟩ := im.keep G.root.1 (hI.cfg.rootFl i) (by
    intro q hop hst
    subst hop
    exact protNoConf hI h.sm.side.tree ((h.sm.en.rp.append q rfl).resolve_left hst) hst hrootx)
  have hhn : Holds n.log.entries G.root.1 G.root.2 := by
    rw [f9]; exact holds_of_take_eq k1 hhx (Nat.le_refl _)
  have hhy : Holds (h.y.node i).log.entries G.root.1 G.root.2 := by rw [hni]; exact hhn
  obtain ⟨c0, hc0, hk0, ht0, _⟩ := t.rootC
  have e1 : c0.e.index = G.root.1 := by rw [← hk0]; rfl
  have e2 : c0.e.term = G.root.2 := by rw [← hk0]; rfl
  have hm0 : c0.e ∈ n.log.entries := by
    have := record_in_take hR i (h.y.node i).log.entries.length hc0 (by rw [e1, e2]; exact hhy)
      (by rw [e1]; exact hhy.2.1)
    rw [hni] at this
    exact List.mem_of_mem_take this
  have hdec : ∀ e ∈ n.log.entries, e.typ = etConfig → ∃ c, e.config? = some c := by
    intro e he ht
    obtain ⟨c, hc, hce, _⟩ := log_entry_record hR i (by rw [hni]; exact he)
    have := hsidey.dec c hc (by rw [hce]; exact ht)
    rwa [hce] at this
  obtain ⟨R1, R2⟩ := MemberFollow.restart_cfg _ retain sor n h.hn im.snaps im.prev (by rw [← f9]; exact hnw.contig)
    (by rw [← f9]; exact hdec) ⟨c0.e, by rw [← f9]; exact hm0, ht0⟩
  rw [← f9] at R1 R2
  have mono : ∀ j k', j ≠ i → ProtG x G j k' → ProtG h.y G' j k' := fun j k' hj hp =>
    protG_mono hE.T hroot hsub (hE.term j) (by rw [h.node_j hj]) hp
  refine ⟨fun j => ?_, fun j => ?_, fun j => ?_⟩
  · by_cases hj : j = i
    · subst hj; rw [hni]; exact R1
    · rw [h.node_j hj]; exact hI.cfg.cl j
  · by_cases hj : j = i
    · subst hj
      rcases R2 with p | p
      · right; rw [hni]; exact p
      · left
        exact prot_single hR (by rw [hroot]; exact t.rootC) (by rw [hroot]; exact t.rootA)
          (by rw [hni]; exact R1) (by rw [hni]; exact p)
    · rcases hI.cfg.sp j with p | p
      · left; rw [h.node_j hj]; exact mono j _ hj p
      · right; rw [h.node_j hj]; exact p
  · by_cases hj : j = i
    · subst hj; rw [hni, hroot, f7]; exact hhn.2.1
    · rw [h.node_j hj, hroot]; exact hI.cfg.rootFl j

/-- **a crash during a step and the restart preserve the invariant** (for suitable new ghost ledgers) — given the side
condition on the tree in the state after the restart (a hypothesis of this lemma and of `cfgM` only, so that the other
facts about the restarted state can be used to establish it) -/
theorem minv (h : CM x G i op ra ord src k retain sor n) (hsidey : SideT (crashM x i op n)) :
    ∃ G', MInv h.y G' ∧ G'.root = G.root := by
  have hI := h.sm.inv
  rcases SM.op_cases op with happ | ⟨q, rfl⟩
  · obtain ⟨T, L, m⟩ := h.sm.evs happ
    have hnew : ∀ a ∈ (kept n L).map (selfOf i T), SelfA x i n a := by
      intro a ha
      obtain ⟨ev, hev, rfl⟩ := List.mem_map.mp ha
      exact h.selfA_kept happ m hev
    obtain ⟨es, te, hN⟩ := h.newM
    obtain ⟨E', hE'⟩ := hN.elM (fun k hk => List.mem_append_right _ hk) ((kept n L).map (recOf T) ++ G.R)
      ((kept n L).map (selfOf i T) ++ G.SA) (h.new_acks hnew)
    have t := h.treeM
    exact ⟨⟨G.root, (kept n L).map (recOf T) ++ G.R, E', (kept n L).map (selfOf i T) ++ G.SA⟩,
      ⟨h.ry, ⟨t.pathc, t.tmono, t.tbI, t.cu, t.ownLog, t.rootC, t.rootA, t.rootOnly, t.initLt⟩, h.nodeM, h.sentM,
        h.ackM hnew, h.voteM hnew, h.recM happ m E', hE', h.cmtM,
        h.cfgM hsidey ⟨G.root, (kept n L).map (recOf T) ++ G.R, E', (kept n L).map (selfOf i T) ++ G.SA⟩ rfl
          (fun r hr => List.mem_append_right _ hr)⟩, rfl⟩
  · have hnil : ∀ a ∈ ([] : List Ack), SelfA x i n a := fun a ha => by cases ha
    have hT : h.y.cm.T = x.cm.T := rfl
    refine ⟨G, ⟨h.ry, h.treeM, h.nodeM, h.sentM, h.ackM hnil, h.voteM hnil, h.recM_app, ?_, h.cmtM,
      h.cfgM hsidey G rfl (fun r hr => hr)⟩, rfl⟩
    refine ⟨by rw [hT]; exact hI.el.creator, fun e he => ?_⟩
    exact elOK_mono hI h.ext h.ry.uniq (fun k hk => List.mem_append_right _ hk) (h.new_acks hnil) (hI.el.elect e he)

end CM

/-! ### a leader puts a request on the wire -/

theorem minv_send {x : Member.Sys} {G : Ghost} (hI : MInv x G) {i : Nat} {q : AppendReq}
    (hi : i ≠ 0) (hl : (x.node i).role = .leader) (hr : ReadFrom (x.node i) q)
    (hci : q.ldrCommitIndex ≤ (x.node i).commitIndex) :
    MInv { x with cm := { x.cm with rp := { x.cm.rp with sent := q :: x.cm.rp.sent } } } G := by
  have hn := nwfM hI i
  have lo := hI.node.ldr i hl
  have hlen : 1 ≤ (x.node i).log.entries.length := Nat.le_trans lo.start lo.startLe
  have hz : Holds (x.node i).log.entries (x.node i).log.entries.length (x.node i).term :=
    ⟨hlen, Nat.le_refl _, lo.own _ lo.startLe (Nat.le_refl _)⟩
  obtain ⟨n', hq'⟩ := hr.entries
  -- the entries of the request are entries of the leader's log
  have hmem : ∀ e ∈ q.entries, Holds (x.node i).log.entries e.index e.term := by
    intro e he
    rw [hq'] at he
    exact C02Sys.holds_of_mem hn.contig (List.mem_of_mem_drop (List.mem_of_mem_take he))
  have hprev : 1 ≤ q.prevLogIndex → Holds (x.node i).log.entries q.prevLogIndex q.prevLogTerm :=
    fun h1 => ⟨h1, hr.prev, hr.prevTerm.symm⟩
  refine ⟨C04Member.rinv_send hI.rp i q hr,
    ⟨hI.tree.pathc, hI.tree.tmono, hI.tree.tbI, hI.tree.cu, hI.tree.ownLog, hI.tree.rootC, hI.tree.rootA,
      hI.tree.rootOnly, hI.tree.initLt⟩,
    ⟨hI.node.lwf, hI.node.termLe, hI.node.unfl, hI.node.camp, hI.node.ldr, hI.node.cc⟩,
    ⟨fun q' hq'' => ?_, fun q' hq'' => ?_, fun q' hq'' => ?_, fun q' hq'' c hc h0 => ?_, fun q' hq'' => ?_⟩,
    ⟨hI.ack.wf, fun a ha => ?_, hI.ack.stable⟩,
    ⟨hI.vote.campUniq, hI.vote.campWf, hI.vote.voteCamp, hI.vote.voteInv, hI.vote.grantInv, hI.vote.electInv,
      hI.vote.countedGrant, hI.vote.grantCamp, hI.vote.campCfg, hI.vote.cfgCamp⟩,
    ⟨hI.recs.recd, hI.recs.mono, hI.recs.cover, hI.recs.chain, hI.recs.lead, hI.recs.init, hI.recs.bound⟩,
    ⟨hI.el.creator, hI.el.elect⟩, ⟨hI.cmt.cc⟩, ⟨hI.cfg.cl, hI.cfg.sp, hI.cfg.rootFl⟩⟩
  · rcases List.mem_cons.mp hq'' with e | e
    · subst e
      rw [hr.src, (hI.rp.el.ids i).1, hr.term]
      exact ⟨hi, hI.rp.el.recorded i hl, Nat.le_refl _,
        fun hcd => by
          have hcd' : (x.node i).role = .candidate := hcd
          rw [hl] at hcd'; cases hcd'⟩
    · exact hI.sent.won q' e
  · rcases List.mem_cons.mp hq'' with e | e
    · subst e
      rw [hr.term]
      refine ⟨fun e he => ?_, ?_⟩
      · obtain ⟨z, hz1, hz2⟩ := holds_get (hmem e he)
        rw [← hz2]; exact hI.node.termLe i z (List.mem_of_getElem? hz1)
      · rw [hr.prevTerm]
        unfold termAt
        split
        · exact Nat.zero_le _
        · cases hg : (x.node i).log.entries[q'.prevLogIndex - 1]? with
          | none => exact Nat.zero_le _
          | some z => exact hI.node.termLe i z (List.mem_of_getElem? hg)
    · exact hI.sent.term q' e
  · rcases List.mem_cons.mp hq'' with e | e
    · subst e
      obtain ⟨c, hcT, hck⟩ := log_recordM hI i hz
      have hct : c.e.term = q'.term := by
        unfold key at hck; simp only [Prod.mk.injEq] at hck; rw [hck.2, hr.term]
      refine ⟨c, hcT, hct, fun e he => ?_, fun h1 => ?_⟩
      · rw [hck]; exact log_ancM hI i (hmem e he) hz (hmem e he).2.1
      · rw [hck]; exact log_ancM hI i (hprev h1) hz hr.prev
    · exact hI.sent.anc q' e
  · rcases List.mem_cons.mp hq'' with e | e
    · subst e
      rw [hr.term]
      exact (hI.rp.init0 c hc h0 i).2 (by rw [show (x.cm.rp.el.node i).role = _ from hl]; decide)
    · exact hI.sent.init q' e c hc h0
  · rcases List.mem_cons.mp hq'' with e | e
    · subst e
      rw [hr.term]
      refine ⟨fun e he hle => ?_, fun h1 h2 => ?_⟩
      · have hh := hmem e he
        obtain ⟨_, c2⟩ := hI.cmt.cc i e.index hh.1 (Nat.le_trans hle hci)
        rw [hh.2.2] at c2; exact c2
      · have hh := hprev h1
        obtain ⟨_, c2⟩ := hI.cmt.cc i q'.prevLogIndex h1 (Nat.le_trans h2 hci)
        rw [hh.2.2] at c2; exact c2
    · exact hI.sent.cmt q' e
  · rcases hI.ack.src a ha with ⟨q', hq'', r⟩ | r
    · exact Or.inl ⟨q', List.mem_cons_of_mem _ hq'', r⟩
    · exact Or.inr r

/-! ### every transition -/

/-- **A transition of `Member.Sys` in which the operation at hand does not make a candidate or leader fail**: the
transitions of `Member.Trans`, each step / crash with the hypothesis that handling the operation to completion records
no failure (`panicked`) if the node is candidate or leader. (The state predicate `NoFail` asks this of EVERY enabled
operation and is unsatisfiable; Props/C08Member.lean proves the per-operation hypothesis from conditions on the initial
state and on what is delivered.) -/
inductive TransNF (x : Member.Sys) : Member.Sys → Prop
  | step (i : Nat) (op : Op) (ra : List Nat) (ord : List (List Nat)) (src : Nat) : Member.Enabled x i op src →
      ((x.node i).role ≠ .follower → ((x.node i).step op ra ord).panicked = none) →
      TransNF x (stepM x i op ra ord src)
  | crash (i : Nat) (op : Op) (ra : List Nat) (ord : List (List Nat)) (src k retain : Nat) (sor : Bool)
      (n : Node) : Member.Enabled x i op src →
      ((x.node i).role ≠ .follower → ((x.node i).step op ra ord).panicked = none) →
      Node.restart (C05.crashDisk (x.node i) op ra ord k) retain sor = some n →
      TransNF x (crashM x i op n)
  | send (i : Nat) (q : AppendReq) : i ≠ 0 → (x.node i).role = .leader → ReadFrom (x.node i) q →
      q.ldrCommitIndex ≤ (x.node i).commitIndex →
      TransNF x { x with cm := { x.cm with rp := { x.cm.rp with sent := q :: x.cm.rp.sent } } }

theorem TransNF.trans {x y : Member.Sys} (h : TransNF x y) : Member.Trans x y := by
  cases h with
  | step i op ra ord src he _ => exact .step i op ra ord src he
  | crash i op ra ord src k retain sor n he _ hn => exact .crash i op ra ord src k retain sor n he hn
  | send i q hi hl hr hc => exact .send i q hi hl hr hc

/-- **every transition of `Member.Sys` (in which the operation at hand does not fail) preserves the invariant** (for
suitable ghost ledgers; the bootstrap key stays) -/
theorem minv_trans {x y : Member.Sys} {G : Ghost} (hI : MInv x G) (hS : SideM x) (hSy : SideT y)
    (ht : TransNF x y) :
    ∃ G', MInv y G' ∧ G'.root = G.root := by
  cases ht with
  | step i op ra ord src he hnf => exact minv_step hI hS i op ra ord src he hnf
  | crash i op ra ord src k retain sor n he hnf hn =>
    exact (⟨⟨hI, hS, he, hnf⟩, hn⟩ : CM x G i op ra ord src k retain sor n).minv hSy
  | send i q hi hl hr hc => exact ⟨G, minv_send hI hi hl hr hc, rfl⟩

/-- the initial tree has a bootstrap configuration entry below every entry, and no other configuration entry
(e.g. all nodes bootstrapped with the same configuration entry (1,1)) — in terms of the INITIAL entries (`cr = 0`), so
that the statement is a predicate on every state of a run -/
structure RootI (root : K) (x : Member.Sys) : Prop where
  rootC : ∃ c ∈ x.cm.T, key c = root ∧ c.e.typ = etConfig ∧ c.cr = 0
  rootA : ∀ c ∈ x.cm.T, c.cr = 0 → Anc x.cm.T root (key c)
  rootOnly : ∀ c ∈ x.cm.T, c.cr = 0 → c.e.typ = etConfig → key c = root

/-- **the initial states satisfy the invariant** -/
theorem minv_init {x : Member.Sys} (root : K) (h : Member.Init x) (hr : RootI root x) (hcl : CfgLatest x) :
    MInv x ⟨root, [], [], []⟩ := by
  have hc := h.cm
  have hR : C04Member.RInv x.cm.rp x.ecfg := by
    have := C04Member.rinv_init x.cm.rp hc.rp; rw [h.ecfg]; exact this
  have hrole : ∀ i, (x.node i).role = .follower := fun i => (hc.rp.el.1 i).2.2
  have hcr : ∀ c ∈ x.cm.T, c.cr = 0 := hc.rp.cr0
  have hacks : acksG x ⟨root, [], [], []⟩ = [] := by
    show x.cm.acks ++ [] = []
    rw [hc.acks]; rfl
  have hcfg : CfgM x ⟨root, [], [], []⟩ := by
    have hrA : ∀ c ∈ x.cm.T, Anc x.cm.T root (key c) := fun c hc1 => hr.rootA c hc1 (hcr c hc1)
    -- every configuration entry of a log is the bootstrap entry
    have hidx : ∀ i, ∀ e ∈ (x.node i).log.entries, e.typ = etConfig → e.index = root.1 := by
      intro i e he ht
      obtain ⟨c, hc1, hce, _⟩ := log_entry_record hR i he
      have := hr.rootOnly c hc1 (hcr c hc1) (by rw [hce]; exact ht)
      rw [← hce, ← this]; rfl
    refine ⟨hcl, fun i => Or.inl ?_, fun i => ?_⟩
    · obtain ⟨⟨el, hel, helc⟩, _⟩ := hcl i
      obtain ⟨ty, li, _⟩ := config?_facts helc
      refine prot_single (G := ⟨root, [], [], []⟩) hR hr.rootC hrA (hcl i) (fun e he ht => ?_)
      rw [hidx i e he ht, li, hidx i el hel ty]
    · obtain ⟨⟨el, hel, _⟩, _⟩ := hcl i
      have hh := holds_root hR hrA i (List.length_pos_of_mem hel)
      have e : (x.node i).log.flushed = (x.node i).log.entries.length := (hc.nodes i).2.1
      rw [e]; exact hh.2.1
  refine ⟨hR,
    ⟨hc.tree.pathc, hc.tree.tmono, fun c hc1 d hd ht _ hle => hc.tree.tblock c hc1 d hd ht hle,
      fun c hc1 _ _ _ h0 _ => absurd (hcr c hc1) h0, fun c hc1 h0 => absurd (hcr c hc1) h0, hr.rootC,
      fun c hc1 => hr.rootA c hc1 (hcr c hc1), hr.rootOnly, fun _ _ d hd _ hd0 => absurd (hcr d hd) hd0⟩,
    ⟨fun i => (hc.nodes i).1, ?_, ?_, ?_, ?_, ?_⟩, ⟨?_, ?_, ?_, ?_, ?_⟩, ⟨?_, ?_, ?_⟩,
    ⟨?_, ?_, ?_, ?_, ?_, ?_, ?_, ?_, ?_, ?_⟩, ⟨?_, ?_, ?_, ?_, ?_, ?_, ?_⟩, ⟨?_, ?_⟩,
    ⟨fun i k hk hk2 => by have e : (x.node i).commitIndex = 0 := (hc.nodes i).2.2.1; rw [e] at hk2; omega⟩, hcfg⟩
  · intro i e he
    obtain ⟨c, hc1, hce⟩ := C04Sys.chain_mem (hc.rp.nodes i).2 e he
    rw [← hce]; exact hc.rp.terms c hc1 i
  · intro i k hk hk2
    have e : (x.node i).log.flushed = (x.node i).log.entries.length := (hc.nodes i).2.1
    rw [e] at hk; omega
  · intro i hi; exact absurd (hrole i) hi
  · intro i hi; rw [hrole i] at hi; cases hi
  · intro i hi; rw [hrole i] at hi; cases hi
  · intro q hq; rw [hc.rp.sent] at hq; cases hq
  · intro q hq; rw [hc.rp.sent] at hq; cases hq
  · intro q hq; rw [hc.rp.sent] at hq; cases hq
  · intro q hq; rw [hc.rp.sent] at hq; cases hq
  · intro q hq; rw [hc.rp.sent] at hq; cases hq
  · intro a ha; rw [hacks] at ha; cases ha
  · intro a ha; rw [hacks] at ha; cases ha
  · intro a ha; rw [hacks] at ha; cases ha
  · intro k hk; rw [hc.camps] at hk; cases hk
  · intro k hk; rw [hc.camps] at hk; cases hk
  · intro v hv; exact absurd (hc.nodes v).2.2.2.1 hv
  · intro v hv; exact absurd (hc.nodes v).2.2.2.1 hv
  · intro g hg; rw [hc.rp.el.2.1] at hg; cases hg
  · intro k hk; rw [hc.camps] at hk; cases hk
  · intro e he; rw [hc.rp.el.2.2.1] at he; cases he
  · intro g hg; rw [hc.rp.el.2.1] at hg; cases hg
  · intro k hk; rw [hc.camps] at hk; cases hk
  · intro k hk; rw [h.ecfg] at hk; cases hk
  · intro r hr'; cases hr'
  · intro r hr'; cases hr'
  · intro m hm; rw [hc.committed] at hm; cases hm
  · intro c hc1 _ h0; exact absurd (hcr c hc1) h0
  · intro i hi; rw [hrole i] at hi; cases hi
  · intro c _ _ r hr'; cases hr'
  · intro i hi; rw [hrole i] at hi; cases hi
  · intro c hc1 h0; exact absurd (hcr c hc1) h0
  · intro e he; cases he

end MemberStep
end Raft
