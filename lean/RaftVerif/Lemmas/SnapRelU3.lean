/-
Un-compaction, continued (Lemmas/SnapRelU.lean, SnapRelU2.lean): append requests. The handler reads the log only above
the snapshot index; it commutes with `U β` when the log starts at or below the snapshot index — and, for the segment
bookkeeping of `RemoveGTE`, strictly below it at a segment boundary unless it starts at 0 (`AOK`).
-/
import RaftVerif.Lemmas.SnapRelU2
import RaftVerif.Lemmas.SnapRelA
namespace Raft
namespace SnapRelU
open Node SnapRelP SnapRel
variable {β : List Entry}

/-- the first index of the log is 0 or below the snapshot index, and it is a segment boundary -/
def AOK (s : Node) : Prop := s.log.prev = 0 ∨ (s.log.prev < s.snapIndex ∧ s.log.prev ∈ s.log.segs)

theorem U_get? (s : Node) (i : Nat) (h : s.log.prev < i) : (U β s).log.get? i = s.log.get? i := by
  unfold NLog.get?
  rw [if_pos h]
  show (if 0 < i then (pad β s.log.prev ++ s.log.entries)[i - 0 - 1]? else none) = _
  rw [if_pos (by omega), List.getElem?_append_right (by rw [pad_length]; omega), pad_length]
  congr 1
  omega

theorem U_entryTerm? (s : Node) (i : Nat) (h : s.log.prev < i) : (U β s).entryTerm? i = s.entryTerm? i := by
  unfold Node.entryTerm?
  rw [U_get? s i h]

theorem uncLog_removeGTE (l : NLog) (i : Nat) (h : l.prev = 0 ∨ (l.prev < i - 1 ∧ l.prev ∈ l.segs)) :
    (uncLog β l).removeGTE i = uncLog β (l.removeGTE i) := by
  unfold NLog.removeGTE uncLog uncSegs
  dsimp only
  by_cases h0 : l.prev = 0
  · simp only [h0, if_true, Nat.sub_zero]
    have : pad β 0 = [] := by unfold pad; simp
    rw [this, List.nil_append, List.nil_append]
  · have hne : ¬ l.prev = 0 := h0
    obtain ⟨h1, h2⟩ := h.resolve_left h0
    simp only [if_neg hne, Nat.sub_zero]
    have e1 : (pad β l.prev ++ l.entries).take (i - 1) = pad β l.prev ++ l.entries.take (i - 1 - l.prev) := by
      rw [List.take_append, pad_length, List.take_of_length_le (by rw [pad_length]; omega)]
    have e2 : List.filter (fun x => decide (x < i - 1)) (l.prev :: l.segs) =
        l.prev :: List.filter (fun x => decide (x < i - 1)) l.segs := by
      rw [List.filter_cons_of_pos (by simpa using h1)]
    have e3 : (List.filter (fun x => decide (x < i - 1)) l.segs).isEmpty = false := by
      rw [List.isEmpty_eq_false_iff]
      intro hc
      have : l.prev ∈ List.filter (fun x => decide (x < i - 1)) l.segs := List.mem_filter.mpr ⟨h2, by simpa using h1⟩
      rw [hc] at this; cases this
    rw [e1, e2, e3]
    simp only [List.isEmpty_cons, Bool.false_eq_true, if_false]

theorem U_removeGTE (s : Node) (i pt : Nat) (h : s.log.prev = 0 ∨ (s.log.prev < i - 1 ∧ s.log.prev ∈ s.log.segs)) :
    (U β s).removeGTE i pt = U β (s.removeGTE i pt) := by
  unfold Node.removeGTE
  show ({ U β s with log := (uncLog β s.log).removeGTE i, lastLogIndex := i - 1, lastLogTerm := pt } : Node).point _ = _
  rw [uncLog_removeGTE _ _ h]
  show (U β { s with log := s.log.removeGTE i, lastLogIndex := i - 1, lastLogTerm := pt }).point _ = _
  rw [U_point]

theorem U_resolveConflict (s : Node) (ne : Entry) (pt : Nat) (ha : AOK s) (hi : s.snapIndex < ne.index) :
    (U β s).resolveConflict ne pt = U β (s.resolveConflict ne pt) := by
  have hlt : s.log.prev < ne.index := by rcases ha with h | h <;> omega
  unfold Node.resolveConflict
  rw [U_entryTerm? s ne.index hlt]
  show (if ne.index ≤ s.lastLogIndex then _ else _) = _
  split
  · cases s.entryTerm? ne.index with
    | none => exact U_panic s _
    | some t =>
      dsimp only
      rw [U_removeGTE s ne.index pt (ha.imp id (fun h => ⟨by omega, h.2⟩))]
      show (if ne.index ≤ (s.removeGTE ne.index pt).configs.latest.index then _ else _) = _
      split <;> rfl
  · rfl

/-! `AOK` along the entry-consuming loop -/

theorem lobs_panic (s : Node) (site : String) : (s.panic site).log = s.log := by
  unfold Node.panic; split <;> rfl

theorem AOK_congr {s s' : Node} (h : AOK s) (e1 : s'.log.prev = s.log.prev) (e2 : s'.snapIndex = s.snapIndex)
    (e3 : s.log.prev ∈ s.log.segs → s.log.prev ∈ s'.log.segs) : AOK s' := by
  unfold AOK at h ⊢
  rw [e1, e2]
  exact h.imp id (fun h => ⟨h.1, e3 h.2⟩)

theorem AOK_resolveConflict (s : Node) (ne : Entry) (pt : Nat) (ha : AOK s) (hi : s.snapIndex < ne.index) :
    AOK (s.resolveConflict ne pt) := by
  unfold Node.resolveConflict
  split
  · split
    · exact AOK_congr ha (by rw [lobs_panic]) (snapIndex_panic _ _) (fun h => by rw [lobs_panic]; exact h)
    · dsimp only
      have key : AOK (s.removeGTE ne.index pt) := by
        refine AOK_congr ha rfl rfl (fun h => ?_)
        show s.log.prev ∈ (s.log.removeGTE ne.index).segs
        unfold NLog.removeGTE
        dsimp only
        rcases ha with h0 | ⟨h1, _⟩
        · by_cases hk : (List.filter (fun x => decide (x < ne.index - 1)) s.log.segs).isEmpty = true
          · rw [if_pos hk]
            have := List.isEmpty_iff.mp hk
            by_cases h2 : s.log.prev < ne.index - 1
            · have hm : s.log.prev ∈ List.filter (fun x => decide (x < ne.index - 1)) s.log.segs :=
                List.mem_filter.mpr ⟨h, by simpa using h2⟩
              rw [this] at hm; cases hm
            · have : ne.index - 1 = s.log.prev := by omega
              rw [this]; exact List.mem_singleton.mpr rfl
          · rw [if_neg hk]
            by_cases h2 : s.log.prev < ne.index - 1
            · exact List.mem_filter.mpr ⟨h, by simpa using h2⟩
            · exfalso
              -- prev = 0 and the index is 1: the filter is empty
              have h3 : ne.index - 1 = 0 := by omega
              rw [h3] at hk
              apply hk
              rw [List.isEmpty_iff]
              apply List.filter_eq_nil_iff.mpr
              intro a _
              simp
        · have hm : s.log.prev ∈ List.filter (fun x => decide (x < ne.index - 1)) s.log.segs :=
            List.mem_filter.mpr ⟨h, by simpa using (by omega : s.log.prev < ne.index - 1)⟩
          have hk : ¬ (List.filter (fun x => decide (x < ne.index - 1)) s.log.segs).isEmpty = true := by
            intro hk; rw [List.isEmpty_iff.mp hk] at hm; cases hm
          rw [if_neg hk]; exact hm
      split
      · exact AOK_congr key rfl rfl id
      · exact key
  · exact ha

theorem AOK_appendEntry (s : Node) (e : Entry) (ha : AOK s) : AOK (s.appendEntry e) := by
  rw [appendEntry_eq]
  have h1 : AOK (s.assert (e.index == s.lastLogIndex + 1) "assert.appendEntry") := by
    unfold Node.assert
    split
    · exact ha
    · exact AOK_congr ha (by rw [lobs_panic]) (snapIndex_panic _ _) (fun h => by rw [lobs_panic]; exact h)
  generalize s.assert (e.index == s.lastLogIndex + 1) "assert.appendEntry" = s1 at h1
  unfold appendRaw
  refine AOK_congr h1 ?_ rfl (fun h => ?_)
  · show (s1.log.append e _).prev = _
    unfold NLog.append; split <;> rfl
  · show s1.log.prev ∈ (s1.log.append e _).segs
    unfold NLog.append
    split
    · exact List.mem_append_left _ h
    · exact h

theorem AOK_changeConfigR (s : Node) (c : Config) (ha : AOK s) : AOK (s.changeConfigR c) := by
  unfold Node.changeConfigR
  dsimp only
  split <;> exact AOK_congr ha rfl rfl id

/-- `U` on the state of the entry-consuming loop -/
def Ul (β : List Entry) (st : AppLoop) : AppLoop := { st with s := U β st.s }

theorem appendLoop_U (es : List Entry) : ∀ (st : AppLoop), AOK st.s →
    appendLoop (Ul β st) es = Ul β (appendLoop st es) := by
  induction es with
  | nil => intro st _; rfl
  | cons ne rest ih =>
    intro st ha
    unfold appendLoop
    by_cases herr : st.err = true
    · rw [if_pos herr, if_pos (show (Ul β st).err = true from herr)]
    · rw [if_neg herr, if_neg (show ¬ (Ul β st).err = true from herr)]
      dsimp only
      by_cases hsn : ne.index ≤ st.s.snapIndex
      · rw [if_pos hsn, if_pos (show ne.index ≤ (Ul β st).s.snapIndex from hsn)]
        exact ih { st with index := ne.index, term := ne.term } ha
      · rw [if_neg hsn, if_neg (show ¬ ne.index ≤ (Ul β st).s.snapIndex from hsn)]
        have hlt : st.s.log.prev < ne.index := by rcases ha with h | h <;> omega
        have et : (Ul β st).s.entryTerm? ne.index = st.s.entryTerm? ne.index := U_entryTerm? st.s ne.index hlt
        rw [et]
        show (if (decide (ne.index ≤ st.s.lastLogIndex) && st.s.entryTerm? ne.index == some ne.term) = true then _ else _) = _
        split
        · exact ih { st with index := ne.index, term := ne.term } ha
        · have e1 : ((Ul β st).s.resolveConflict ne (Ul β st).term).appendEntry ne =
              U β ((st.s.resolveConflict ne st.term).appendEntry ne) := by
            show ((U β st.s).resolveConflict ne st.term).appendEntry ne = _
            rw [U_resolveConflict _ _ _ ha (by omega), U_appendEntry]
          show (if ne.typ = etConfig then _ else _) = _
          rw [e1]
          have ha2 : AOK ((st.s.resolveConflict ne st.term).appendEntry ne) :=
            AOK_appendEntry _ _ (AOK_resolveConflict _ _ _ ha (by omega))
          split
          · split
            · rename_i c hc
              rw [U_changeConfigR]
              exact ih { st with index := ne.index, term := ne.term,
                                 s := ((st.s.resolveConflict ne st.term).appendEntry ne).changeConfigR c, syncLog := true }
                (AOK_changeConfigR _ _ ha2)
            · rfl
          · exact ih { st with index := ne.index, term := ne.term,
                               s := (st.s.resolveConflict ne st.term).appendEntry ne, syncLog := true } ha2

theorem checkBody_U (s : Node) (q : AppendReq) (ha : AOK s) (hq : s.snapIndex < q.prevLogIndex)
    (hp : (checkBody s q).panicked = none) : checkBody (U β s) q = U β (checkBody s q) := by
  have hlt : s.log.prev < q.prevLogIndex := by rcases ha with h | h <;> omega
  unfold checkBody at hp ⊢
  rw [U_entryTerm? s _ hlt]
  dsimp +instances only [uproj] at hp ⊢
  by_cases h1 : q.prevLogIndex > s.lastLogIndex
  · simp only [if_pos h1]; rfl
  · simp only [if_neg h1] at hp ⊢
    by_cases h2 : q.prevLogIndex = s.lastLogIndex
    · simp only [if_pos h2] at hp ⊢
      ucomm hp [U_entryTerm? s _ hlt]
    · simp only [if_neg h2] at hp ⊢
      cases het : s.entryTerm? q.prevLogIndex with
      | none =>
        simp only [het] at hp
        have : (s.panic "bug.mustGetEntry").panicked = none := by npk_core hp
        exact absurd this (panic_ne_none _ _)
      | some t =>
        simp only [het] at hp ⊢
        ucomm hp [U_entryTerm? s _ hlt, het]

theorem appendCheck_U (s : Node) (q : AppendReq) (ha : AOK s) (hp : (s.appendCheck q).panicked = none) :
    (U β s).appendCheck q = U β (s.appendCheck q) := by
  rw [appendCheck_eq] at hp ⊢
  rw [appendCheck_eq]
  show (if q.prevLogIndex > s.snapIndex then _ else _) = _
  split
  · rename_i h
    rw [if_pos h] at hp
    exact checkBody_U s q ha h hp
  · rfl

theorem appendLoop_sticky (es : List Entry) (st : AppLoop) (h : (appendLoop st es).s.panicked = none) :
    st.s.panicked = none := by
  refine npk (k := fun x => (appendLoop { st with s := x } es).s) (fun π x => ?_) h
  show (appendLoop (Pl π { st with s := x }) es).s = _
  rw [P_appendLoop]; rfl

theorem P_appendTail {π : String} (q : AppendReq) (s3 : Node) : appendTail q (P π s3) = P π (appendTail q s3) := by
  unfold appendTail
  by_cases hr : s3.result ≠ 0
  · rw [if_pos hr, if_pos (show (P π s3).result ≠ 0 from hr)]
  · rw [if_neg hr, if_neg (show ¬ (P π s3).result ≠ 0 from hr)]
    have hl' : appendLoop { s := P π s3, index := q.prevLogIndex, term := q.prevLogTerm } q.entries =
        Pl π (appendLoop { s := s3, index := q.prevLogIndex, term := q.prevLogTerm } q.entries) :=
      P_appendLoop (π := π) q.entries { s := s3, index := q.prevLogIndex, term := q.prevLogTerm }
    rw [hl']
    generalize appendLoop { s := s3, index := q.prevLogIndex, term := q.prevLogTerm } q.entries = st
    show (let s := P π st.s
          let s := if (!q.entries.isEmpty) = true ∧ st.syncLog = true then
              let s := s.commitLog s.lastLogIndex
              if s.canCommit q st.index st.term = true then (s.setCommitIndexR st.index).1.applyCommitted else s
            else s
          s.ret (if st.err = true then rUnexpectedErr else rSuccess)) = _
    pcomm

theorem appendTail_U (q : AppendReq) (s : Node) (ha : AOK s) (hp : (appendTail q s).panicked = none) :
    appendTail q (U β s) = U β (appendTail q s) := by
  unfold appendTail at hp ⊢
  by_cases hr : s.result ≠ 0
  · rw [if_pos hr, if_pos (show (U β s).result ≠ 0 from hr)]
  · rw [if_neg hr] at hp
    rw [if_neg hr, if_neg (show ¬ (U β s).result ≠ 0 from hr)]
    have hl' : appendLoop { s := U β s, index := q.prevLogIndex, term := q.prevLogTerm } q.entries =
        Ul β (appendLoop { s := s, index := q.prevLogIndex, term := q.prevLogTerm } q.entries) :=
      appendLoop_U q.entries { s := s, index := q.prevLogIndex, term := q.prevLogTerm } ha
    rw [hl']
    generalize appendLoop { s := s, index := q.prevLogIndex, term := q.prevLogTerm } q.entries = st at hp ⊢
    show (let s := U β st.s
          let s := if (!q.entries.isEmpty) = true ∧ st.syncLog = true then
              let s := s.commitLog s.lastLogIndex
              if s.canCommit q st.index st.term = true then (s.setCommitIndexR st.index).1.applyCommitted else s
            else s
          s.ret (if st.err = true then rUnexpectedErr else rSuccess)) = _
    dsimp only at hp ⊢
    ucomm hp

theorem onAppendEntries_U (s : Node) (q : AppendReq) (ha : AOK s) (hp : (s.onAppendEntries q).panicked = none) :
    (U β s).onAppendEntries q = U β (s.onAppendEntries q) := by
  rw [onAppendEntries_eq] at hp ⊢
  rw [onAppendEntries_eq]
  by_cases hst : q.term < s.term
  · rw [if_pos hst, if_pos (show q.term < (U β s).term from hst)]; rfl
  · rw [if_neg hst] at hp
    rw [if_neg hst, if_neg (show ¬ q.term < (U β s).term from hst)]
    have ea := aobs_appendHead s q
    unfold aobs at ea
    simp only [Prod.mk.injEq] at ea
    have h2 : AOK (appendHead q s) := AOK_congr ha (by rw [ea.1]) ea.2.2.2.2 (fun h => by rw [ea.1]; exact h)
    have eh : appendHead q (U β s) = U β (appendHead q s) := by
      unfold appendHead
      have hp' : True := trivial
      ucomm hp'
    have hc : ((appendHead q s).appendCheck q).panicked = none := by
      exact npk (k := fun x => appendTail q x) (fun π x => P_appendTail q x) hp
    rw [eh, appendCheck_U _ q h2 hc]
    obtain ⟨e, _⟩ := CommitRel.appendCheck_fobs (appendHead q s) q
    unfold CommitRel.fobs LogRel.Core at e
    simp only [Prod.mk.injEq] at e
    exact appendTail_U q _ (AOK_congr h2 (by rw [e.1.1]) e.1.2.2.2.1 (fun h => by rw [e.1.1]; exact h)) hp

/-- **an append request is handled alike on the un-compacted log** -/
theorem append_step_U (s : Node) (q : AppendReq) (ra : List Nat) (ord : List (List Nat)) (ha : AOK s)
    (hp : (s.step (.append q) ra ord).panicked = none) :
    (U β s).step (.append q) ra ord = U β (s.step (.append q) ra ord) := by
  have hp' : (settle 6 (((s.begin ra ord).onAppendEntries q).rpcDone false true) (s.begin ra ord).role).panicked = none := hp
  show settle 6 ((((U β s).begin ra ord).onAppendEntries q).rpcDone false true) ((U β s).begin ra ord).role =
    U β (settle 6 (((s.begin ra ord).onAppendEntries q).rpcDone false true) (s.begin ra ord).role)
  have h1 : ((s.begin ra ord).onAppendEntries q).panicked = none := by npk_core hp'
  have hb : AOK (s.begin ra ord) := ha
  rw [U_begin, onAppendEntries_U _ q hb h1, U_rpcDone, U_role, U_settle _ _ _ hp']

end SnapRelU
end Raft
