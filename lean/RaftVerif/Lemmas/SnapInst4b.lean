/-
The per-node invariants `C12Track.Tracks` and `Order.Ordered` along the runs of the cluster system with installation of
snapshots (Sys/Snap4.lean), part 2: a crash in an operation of stage 2 leaves a disk from which the restart yields a
tracking node (`crash_tracks`); every run of `Raft.Snap4` is a run of `Raft.Snap3` on which every node is tracking and
ordered (`reach4`).
-/
import RaftVerif.Lemmas.SnapInst4

namespace Raft
namespace SnapInst4
open Node Election LogRel Replication CommitRel Commit C02Sys C03Sys SnapRel SnapRelU SnapSim Snap Snap2 SnapInv SnapInv2
open SnapInst SnapInstU Snap3 SnapInst3 Snap4

section
variable {V : List Nat}

theorem restart_ldr (d : Durable) (r : Nat) (sor : Bool) (n : Node) (hn : Node.restart d r sor = some n) :
    n.ldr.removeLTE = 0 := by
  obtain ⟨_, _, _, hne⟩ := C10.restart_some d r sor n hn
  rw [hne]
  split
  · show (restartNode d r sor).fsmRestore.ldr.removeLTE = 0
    rw [fsmRestore_eq]; rfl
  · rfl

theorem restart_log_notstale (d : Durable) (r : Nat) (sor : Bool) (n : Node) (hn : Node.restart d r sor = some n)
    (hst : staleLog d = false) : n.log.entries = d.log.entries ∧ n.log.prev = d.log.prev := by
  have hne := C10.restart_fsm d r sor n hn
  have hl : n.log = (restartNode d r sor).log := hne.2.2.2.1
  have hl2 := (C10.restartNode_fields d r sor).2.2.1
  have hlo : C10.logOf d = d.log := by
    rcases C10.logOf_cases d with ⟨hs', _⟩ | ⟨_, e⟩
    · rw [hst] at hs'; cases hs'
    · exact e
  rw [hl, hl2, hlo]
  exact ⟨rfl, rfl⟩

/-- the head of the listing after the snapshot goroutine published a file -/
theorem publish_heads (s : Node) (f : SnapFile) (hr : 1 ≤ s.retain) (hlt : ∀ g ∈ s.snapsDisk, g.index < f.index) :
    (insertSnap f s.snapsDisk).head? = some f ∧ ((insertSnap f s.snapsDisk).take s.retain).head? = some f := by
  rw [insertSnap_front f s.snapsDisk hlt]
  obtain ⟨r, hr'⟩ : ∃ r, s.retain = r + 1 := ⟨s.retain - 1, by omega⟩
  rw [hr']
  exact ⟨rfl, rfl⟩

/-- the snapshot files on disk whenever the process dies in an operation that does not touch them -/
theorem crash_snaps_eq (s : Node) (op : Op) (ra : List Nat) (ord : List (List Nat)) (k : Nat) (hok : OpOKS op)
    (h1 : op ≠ .snapRun) (h2 : op ≠ .snapTaken) : (C05.crashDisk s op ra ord k).snaps = s.snapsDisk := by
  have hfr : ((s.step op ra ord).snapsDisk = s.snapsDisk) ∧ ∀ p ∈ (s.step op ra ord).trace, p.2.snaps = s.snapsDisk := by
    by_cases happ : ∃ q, op = .append q
    · obtain ⟨q, rfl⟩ := happ
      exact ⟨(append_snap_frame s q ra ord).2.2.1, (append_snap_frame s q ra ord).2.2.2⟩
    · have hpl : Plain op := by
        cases op <;> first | trivial | exact absurd rfl h1 | exact hok | exact absurd ⟨_, rfl⟩ happ
      exact ⟨(step_snap_frame s op ra ord hpl).2.2.1, (step_snap_frame s op ra ord hpl).2.2.2⟩
  rcases C04Sys.crashDisk_cases s op ra ord k with e | ⟨p, hp, e⟩ | e
  · rw [e]; rfl
  · rw [e]; exact hfr.2 p hp
  · rw [e]; exact hfr.1

theorem take_append_cancel {α : Type} (a b c : List α) (K : Nat) (hK : a.length ≤ K)
    (h : (a ++ b).take K = (a ++ c).take K) : b.take (K - a.length) = c.take (K - a.length) := by
  rw [List.take_append, List.take_append, List.take_of_length_le hK] at h
  exact List.append_cancel_left h

/-- **a crash at any storage point of an operation of stage 2 leaves a disk from which the restart yields a tracking
node** -/
theorem crash_tracks (hV : V.Nodup) {x : Snap3.Sys} (hI : Inv3 V x) (hS : Side3 V x) {i : Nat} {op : Op}
    {ra : List Nat} {ord : List (List Nat)} {src k retain : Nat} {sor : Bool} {n : Node}
    (en : Snap.Enabled x.s2.cs i op src) (hret : 1 ≤ retain) (hp : ((x.node i).step op ra ord).panicked = none)
    (hnc : NoCut (x.node i) op) (htt : TermTracked (x.node i) op)
    (hst : staleLog (C05.crashDisk (x.node i) op ra ord k) = false)
    (hn : Node.restart (C05.crashDisk (x.node i) op ra ord k) retain sor = some n)
    (hIy : Inv3 V { x with s2 := crashS x.s2 i op n }) (hSy : Side3 V { x with s2 := crashS x.s2 i op n })
    (hT : C12Track.Tracks (x.node i)) (hO : Order.Ordered (x.node i))
    (hr : Order.ReqOk (x.node i) op) : C12Track.Tracks n := by
  refine C12Track.restart_tracks _ retain sor n hret ?_ hn
  have hT' : C12Track.Tracks ((x.node i).step op ra ord) := C12Track.tracks_step _ op ra ord hT hO hr hp
  have hO' : Order.Ordered ((x.node i).step op ra ord) := C19Order.ordered_step _ op ra ord hO hr hp
  have so : SnapOK (x.vnode i) := hI.sinv.snap i
  by_cases hsr : op = .snapRun
  · subst hsr
    obtain ⟨he, hsn⟩ := snap_crashDisk (x.node i) .snapRun ra ord k (Or.inl rfl)
    have hlog : (C05.crashDisk (x.node i) .snapRun ra ord k).log = (x.node i).durable.log :=
      congrArg (fun d => d.log) he
    rcases hsn with e | ⟨rq, _, hpd, hne, hge, e⟩
    · exact diskTracks_congr (C12Track.durable_diskTracks _ hT hO) hlog e
    · have hlt : ∀ g ∈ (x.node i).snapsDisk, g.index < (C09.snapFileOf (x.node i) rq).index := by
        intro g hg
        have h1 : g.index ≤ (headOf (x.node i).snapsDisk).index := so.files.le_head g hg
        have h2 : (x.node i).snapIndex = (headOf (x.node i).snapsDisk).index := so.head
        have h3 : (x.node i).snapIndex ≤ (x.node i).fsm.index := so.le
        have h4 : (x.node i).fsm.index ≠ (x.node i).snapIndex := hne
        show g.index < (x.node i).fsm.index
        omega
      obtain ⟨p1, p2⟩ := publish_heads (x.node i) (C09.snapFileOf (x.node i) rq) so.retain hlt
      have hdur := C12Track.durable_diskTracks _ hT' hO'
      have hl' : ((x.node i).step .snapRun ra ord).durable.log = (x.node i).durable.log := by
        show ((x.node i).step .snapRun ra ord).log.durable = (x.node i).log.durable
        rw [snapRun_step_eq, (snapRun_frame ((x.node i).begin ra ord)).1]; rfl
      have hs' : ((x.node i).step .snapRun ra ord).durable.snaps.head? = some (C09.snapFileOf (x.node i) rq) := by
        show ((x.node i).step .snapRun ra ord).snapsDisk.head? = _
        rw [snapRun_step_eq]
        have := (C09.snapshot_at_applied_index ((x.node i).begin ra ord) rq hpd hne hge).1
        rw [this]; exact p2
      refine diskTracks_congr_head hdur (hlog.trans hl'.symm) ?_
      rw [hs']
      rcases e with e | e <;> rw [e]
      · exact p1
      · exact p2
  · by_cases hstk : op = .snapTaken
    · subst hstk
      rcases snapTaken_crashDisk (x.node i) ra ord k with e | ⟨e, hdur⟩
      · rw [e]; exact C12Track.durable_diskTracks _ hT hO
      · rw [e, ← hdur, ← snapTaken_step_eq]
        exact C12Track.durable_diskTracks _ hT' hO'
    · -- an operation that touches neither the snapshots nor the first index: the disk agrees with the node up to the
      -- snapshot index (commit safety, in the state after the restart)
      obtain ⟨_, _, a3, _, a5⟩ := crash3_nc hV hI hS en hret hp hstk hnc htt hst hn (sideS_view3 hSy)
      have hsd := crash_snaps_eq (x.node i) op ra ord k en.ok2.1 hsr hstk
      obtain ⟨_, _, w3, _⟩ := restart_snapTerm _ retain sor n hn
      obtain ⟨r1, r2⟩ := restart_log_notstale _ retain sor n hn hst
      generalize C05.crashDisk (x.node i) op ra ord k = d at hst hn a5 hsd w3 r1 r2
      have hvy : (({ x with s2 := crashS x.s2 i op n } : Snap3.Sys).vlog i) =
          pad (x.s2.base i) (x.node i).log.prev ++ d.log.entries := by
        show ((crashS x.s2 i op n).vnode i).log.entries = _
        rw [a3]
        show pad (x.s2.base i) n.log.prev ++ n.log.entries = _
        rw [r1, r2, a5]
      have hcy := hIy.sinv.cinv
      refine diskTracks_transport (x.node i) hT d a5 hsd ?_ ?_ hst
      · -- agreement up to the snapshot index
        by_cases h0 : (x.node i).snapIndex = 0
        · rw [h0]; simp
        · have hK1 : 1 ≤ (x.node i).snapIndex := by omega
          have hKc : (x.node i).snapIndex ≤ (x.node i).commitIndex := by
            show (x.vnode i).snapIndex ≤ (x.vnode i).commitIndex
            rw [so.head]; exact so.files.head_le
          obtain ⟨hlen, m, hm, m1, m2⟩ := hI.sinv.cinv.cmt.cc i (x.node i).snapIndex hK1 hKc
          have hlen' : (x.node i).snapIndex ≤ (x.vlog i).length := hlen
          have hP : Path (eview (view3 { x with s2 := crashS x.s2 i op n }).cs).T ((x.vlog i).take (x.node i).snapIndex) :=
            ((log_path hI.sinv.cinv i).prefix (List.take_prefix _ _)).mono (crashS_T x.s2 i op n).1
          have hPl : ((x.vlog i).take (x.node i).snapIndex).length = (x.node i).snapIndex := by
            rw [List.length_take]; omega
          have hlt : lastTerm ((x.vlog i).take (x.node i).snapIndex) = termAt (x.vlog i) (x.node i).snapIndex :=
            lastTerm_take _ _ hlen'
          have hcm : Cmt (eview (view3 { x with s2 := crashS x.s2 i op n }).cs)
              (((x.vlog i).take (x.node i).snapIndex).length, lastTerm ((x.vlog i).take (x.node i).snapIndex))
              (x.node i).term := by
            rw [hPl, hlt]
            exact ⟨m, (crashS_T x.s2 i op n).2 m hm, m1, m2.mono (crashS_T x.s2 i op n).1⟩
          have hF : (x.node i).snapIndex ≤ ((eview (view3 { x with s2 := crashS x.s2 i op n }).cs).node i).commitIndex := by
            show (x.node i).snapIndex ≤ ((crashS x.s2 i op n).node i).commitIndex
            rw [crashS_node_i, w3]
            have h5 : (headSnap d).index = (headOf (x.node i).snapsDisk).index := by
              unfold headSnap headOf; rw [hsd]
            rw [h5]
            have h6 : (x.node i).snapIndex = (headOf (x.node i).snapsDisk).index := so.head
            omega
          have key := path_agree_commit hcy hP (by omega) hcm i (x.node i).snapIndex hF (by rw [hPl]; exact Nat.le_refl _)
          rw [List.take_take, Nat.min_self] at key
          have e : ((eview (view3 { x with s2 := crashS x.s2 i op n }).cs).node i).log.entries =
              ({ x with s2 := crashS x.s2 i op n } : Snap3.Sys).vlog i := rfl
          rw [e, hvy, vlog_def] at key
          have hpl : (pad (x.s2.base i) (x.node i).log.prev).length ≤ (x.node i).snapIndex := by
            rw [pad_length]; exact (hI.prev i).le
          have := take_append_cancel _ _ _ _ hpl key
          rw [pad_length] at this
          exact this.symm
      · -- the log on disk is index-contiguous
        have hn' : NWF ((eview (view3 { x with s2 := crashS x.s2 i op n }).cs).node i) := nwf hcy i
        have hcont := hn'.contig
        have e : ((eview (view3 { x with s2 := crashS x.s2 i op n }).cs).node i).log.entries =
            pad (x.s2.base i) (x.node i).log.prev ++ d.log.entries := hvy
        intro j hj
        have hj' : (x.node i).log.prev + j <
            ((eview (view3 { x with s2 := crashS x.s2 i op n }).cs).node i).log.entries.length := by
          rw [e, List.length_append, pad_length]; omega
        have := hcont ((x.node i).log.prev + j) hj'
        have hget : ((eview (view3 { x with s2 := crashS x.s2 i op n }).cs).node i).log.entries[(x.node i).log.prev + j] =
            d.log.entries[j] := by
          have : (pad (x.s2.base i) (x.node i).log.prev ++ d.log.entries)[(x.node i).log.prev + j]'(by
              rw [List.length_append, pad_length]; omega) = d.log.entries[j] := by
            rw [List.getElem_append_right (by rw [pad_length]; omega)]
            congr 1
            rw [pad_length]; omega
          rw [← this]
          congr 1
        rw [hget] at this
        rw [this, a5]

end

end SnapInst4
end Raft
