/-
C03 / C12 on the cluster WITH membership changes — **the configuration cached by the state machine tracks the applied
prefix of the log** (`C12Track.Tracks`, the per-node invariant of Props/C12Track.lean) in every state of a run of
`C08Member.ReachableR` whose INITIAL nodes have `snapTerm = 0` (`ReachableT`; there are no snapshots in this system, and
`Tracks` asks that the cached term of the newest snapshot is 0 when there is none — what `openStorage` yields; the other
clauses of `Tracks` follow from `Member.Init`, `NWF` and `NoPanic.Good` for an initial node):

* `tracks_fresh`   : a node without snapshots that has applied nothing tracks;
* `tracks_restart` : so does a node restarted from a disk without snapshots whose log is index-contiguous;
* `tinv_reachableT`: `∀ i, Tracks (x.node i)` along the runs (completed steps: `C12Track.tracks_step`, whose hypotheses —
  `Ordered`, `Order.ReqOk`, no failed assertion — hold inside the system);
* `cfgLast_of_tracks`: what `Tracks` says without snapshots, in the words of `MemberCommit.CfgLast`.
-/
import RaftVerif.Lemmas.MemberApply
import RaftVerif.Props.C12Track

namespace Raft
namespace MemberApplyCfg
open Node LogRel CommitRel Commit Member MemberInv MemberSide NoPanic MemberCommit
open MemberStep (SM CM)

/-! ### lists -/

/-- the last element of `filterMap f l` comes from an element of `l` after which `f` finds nothing -/
theorem getLast_filterMap {α β : Type} (f : α → Option β) : ∀ (l : List α) (c : β), (l.filterMap f).getLast? = some c →
    ∃ l1 e l2, l = l1 ++ e :: l2 ∧ f e = some c ∧ ∀ e' ∈ l2, f e' = none := by
  intro l
  induction l with
  | nil => intro c h; cases h
  | cons a t ih =>
    intro c h
    by_cases ht : t.filterMap f = []
    · have hnone : ∀ e' ∈ t, f e' = none := List.filterMap_eq_nil_iff.mp ht
      cases hfa : f a with
      | none =>
        rw [List.filterMap_cons_none hfa, ht] at h; cases h
      | some b =>
        rw [List.filterMap_cons_some hfa, ht] at h
        have : b = c := by simpa using h
        exact ⟨[], a, t, rfl, by rw [hfa, this], hnone⟩
    · have h' : (t.filterMap f).getLast? = some c := by
        cases hfa : f a with
        | none => rw [List.filterMap_cons_none hfa] at h; exact h
        | some b =>
          rw [List.filterMap_cons_some hfa] at h
          cases hq : t.filterMap f with
          | nil => exact absurd hq ht
          | cons u us => rw [hq, List.getLast?_cons_cons] at h; exact h
      obtain ⟨l1, e, l2, e1, e2, e3⟩ := ih c h'
      exact ⟨a :: l1, e, l2, by rw [e1]; rfl, e2, e3⟩

/-! ### node level -/

/-- a node without snapshots that has applied nothing tracks -/
theorem tracks_fresh (s : Node) (hn : NWF s) (hf : s.fsm = {}) (hr : s.role = .follower) (hret : 1 ≤ s.retain)
    (hst : s.snapTerm = 0) : C12Track.Tracks s := by
  have hpre : Track.pre s.log 0 = [] := by unfold Track.pre; rw [Nat.zero_sub]; rfl
  refine ⟨⟨hret, ?_, ?_, ?_, ?_, ⟨?_, ?_, ?_, ?_⟩, ⟨?_, ?_, ?_⟩⟩, fun hl => ?_⟩
  · rw [hn.snapIndex, hn.snaps]; rfl
  · intro k h; rw [hn.prev, hn.contig k h]; omega
  · rw [hf]; exact Nat.zero_le _
  · rw [hn.snapIndex]; exact Track.newest_of_nil _ hpre
  · intro h; rw [hf] at h; exact absurd h (Nat.lt_irrefl 0)
  · intro _; rw [hf]; exact hpre
  · intro h; rw [hf] at h; exact absurd h (Nat.not_lt_zero _)
  · intro _; rw [hf, hst]
  · intro h; rw [hn.snapIndex] at h; exact absurd h (Nat.not_lt_zero _)
  · rw [hst, hn.snaps]; rfl
  · intro _; exact hst
  · rw [hr] at hl; cases hl

/-- a node restarted from a disk without snapshots whose log is index-contiguous tracks -/
theorem tracks_restart (d : Durable) (r : Nat) (sor : Bool) (n : Node) (hr : 1 ≤ r) (hs : d.snaps = [])
    (hc : C03.LogContig d.log) (h : Node.restart d r sor = some n) : C12Track.Tracks n := by
  have hso : C10.snapOf d = {} := by unfold C10.snapOf; rw [hs]; rfl
  refine C12Track.restart_tracks d r sor n hr ⟨hc, ?_, ?_, ?_⟩ h
  · rw [hso]
    apply Track.newest_of_nil
    unfold Track.pre
    rw [show (({} : SnapFile).index) = 0 from rfl, Nat.zero_sub]; rfl
  · rw [hso]; intro h; exact absurd h (Nat.not_lt_zero _)
  · intro _; rw [hso]

/-- **what `Tracks` says of a node without snapshots**: the configuration the state machine holds is the LAST
configuration entry of the applied prefix `1 … fsm.index` of the log (every configuration entry of which decodes) — or it
holds none (index 0) and the applied prefix has no configuration entry -/
theorem cfgLast_of_tracks (s : Node) (ht : C12Track.Tracks s) (hn : NWF s)
    (hdec : ∀ e ∈ s.log.entries, e.typ = etConfig → ∃ c, e.config? = some c) :
    (s.fsm.config.index = 0 ∧ ∀ e ∈ s.log.entries.take s.fsm.index, e.typ ≠ etConfig) ∨
    (0 < s.fsm.config.index ∧ CfgLast (s.log.entries.take s.fsm.index) s.fsm.config) := by
  have hpre : Track.pre s.log s.fsm.index = (s.log.entries.take s.fsm.index).filterMap Entry.config? := by
    unfold Track.pre; rw [hn.prev, Nat.sub_zero]
  by_cases h0 : s.fsm.config.index = 0
  · left
    refine ⟨h0, fun e he hty => ?_⟩
    have hnil := ht.fsmOk.cfgZero h0
    rw [hpre] at hnil
    obtain ⟨c, hc⟩ := hdec e (List.mem_of_mem_take he) hty
    have := List.filterMap_eq_nil_iff.mp hnil e he
    rw [hc] at this; cases this
  · right
    have hpos : 0 < s.fsm.config.index := by omega
    refine ⟨hpos, ?_⟩
    have hnew := ht.fsmOk.cfgPos hpos
    have hlab : Track.label s = {} := by unfold Track.label; rw [hn.snaps]; rfl
    have hlast : (Track.pre s.log s.fsm.index).getLast? = some s.fsm.config := by
      unfold Track.newest at hnew
      cases hq : (Track.pre s.log s.fsm.index).getLast? with
      | none =>
        rw [hq, hlab] at hnew
        rw [hnew] at hpos
        exact absurd hpos (Nat.lt_irrefl 0)
      | some c =>
        rw [hq] at hnew
        rw [hnew]; rfl
    rw [hpre] at hlast
    obtain ⟨l1, e, l2, e1, e2, e3⟩ := getLast_filterMap _ _ _ hlast
    have hmem : e ∈ s.log.entries.take s.fsm.index := by rw [e1]; exact List.mem_append_right _ (List.mem_cons_self ..)
    refine ⟨⟨e, hmem, e2⟩, fun e' he' hty => ?_⟩
    obtain ⟨_, hci, _⟩ := config?_facts e2
    rw [hci]
    -- positions: entry number k of the prefix has index k + 1
    have hidx : ∀ k (h : k < (s.log.entries.take s.fsm.index).length),
        (s.log.entries.take s.fsm.index)[k].index = k + 1 := by
      intro k h
      rw [List.getElem_take]
      exact hn.contig k (by rw [List.length_take] at h; omega)
    have hpw : (l1 ++ e :: l2).Pairwise (fun a b => a.index < b.index) := by
      rw [← e1]; exact contig_pairwise hidx
    have he'' : e' ∈ l1 ++ e :: l2 := by rw [← e1]; exact he'
    rcases List.mem_append.mp he'' with h1 | h1
    · exact Nat.le_of_lt ((List.pairwise_append.mp hpw).2.2 e' h1 e (List.mem_cons_self ..))
    · rcases List.mem_cons.mp h1 with h2 | h2
      · rw [h2]; exact Nat.le_refl _
      · -- an entry after `e` is no configuration
        obtain ⟨c', hc'⟩ := hdec e' (List.mem_of_mem_take he') hty
        have := e3 e' h2
        rw [hc'] at this; cases this

/-! ### cluster level -/

/-- every node tracks -/
def TInv (x : Member.Sys) : Prop := ∀ i, C12Track.Tracks (x.node i)

variable {x : Member.Sys} {G : Ghost}

theorem tinv_init (hi : Member.Init x) (hg : ∀ i, Good true (x.node i)) (hst : ∀ i, (x.node i).snapTerm = 0) :
    TInv x := by
  intro i
  obtain ⟨_, _, _, _, h5⟩ := hi.cm.nodes i
  exact tracks_fresh _ (hi.cm.rp.nodes i).1 h5 (hi.cm.rp.el.1 i).2.2 (hg i).glob.retain (hst i)

theorem tinv_trans (hI : MInv x G) (hX : XInv x) (hLC : ∀ i, C06Cache.LeaderCache (x.node i)) (hT : TInv x)
    {y : Member.Sys} (ht : TransR x y) : TInv y := by
  obtain ⟨_, G', hI', _⟩ := xinv_trans hI hX hLC ht
  cases ht with
  | step i op ra ord src he hg ho =>
    have hq := reqok hI hX he hg
    have hp := (C15NoPanic.good_step_two _ op ra ord (hX.good i) ho hq).1
    have sm : SM x G i op ra ord src := ⟨hI, sideM_of hI hX hLC, he, fun _ => hp⟩
    intro j
    by_cases hj : j = i
    · subst hj
      show C12Track.Tracks (sm.y.node j)
      rw [sm.node_i]
      exact C12Track.tracks_step _ op ra ord (hT j) (hX.good j).ordered hq.toReqOk hp
    · show C12Track.Tracks (sm.y.node j)
      rw [sm.node_j hj]; exact hT j
  | crash i op ra ord src k retain sor n he hg hopen hret hn =>
    have key : ∃ op' , ∃ cm : CM x G i op' ra ord src k retain sor n, crashM x i op n = crashM x i op' n := by
      rcases hopen with ho | hk
      · have hp := (C15NoPanic.good_step_two _ op ra ord (hX.good i) ho (reqok hI hX he hg)).1
        exact ⟨op, ⟨⟨hI, sideM_of hI hX hLC, he, fun _ => hp⟩, hn⟩, rfl⟩
      · subst hk
        obtain ⟨he', hp', heq⟩ := crash0_swap hI (sideM_of hI hX hLC) he hn
        exact ⟨.disconnected 0, ⟨⟨hI, sideM_of hI hX hLC, he', fun _ => hp'⟩, hn⟩, heq⟩
    obtain ⟨op', cm, heq⟩ := key
    rw [heq] at hI' ⊢
    intro j
    by_cases hj : j = i
    · subst hj
      show C12Track.Tracks (cm.y.node j)
      rw [cm.node_i]
      have hnw : NWF n := by
        have := nwfM hI' j
        rw [show (crashM x j op' n).node j = n from cm.node_i] at this
        exact this
      have im := cm.sm.img k
      obtain ⟨_, _, _, _, _, _, _, _, f9⟩ := cm.facts
      refine tracks_restart _ retain sor n hret im.snaps ?_ cm.hn
      show ∀ k' (h : k' < (C05.crashDisk (x.node j) op' ra ord k).log.entries.length),
        (C05.crashDisk (x.node j) op' ra ord k).log.entries[k'].index =
          (C05.crashDisk (x.node j) op' ra ord k).log.prev + k' + 1
      rw [im.prev, ← f9]
      intro k' h
      rw [hnw.contig k' h]; omega
    · show C12Track.Tracks (cm.y.node j)
      rw [cm.node_j hj]; exact hT j
  | send i q hi hl hr hc => exact hT

/-- States reachable by runs of `MemberSide.TransR` from an initial state satisfying `C08Member.InitR root` in which, in
addition, every node's cached snapshot term is 0 (there is no snapshot). -/
inductive ReachableT (root : MemberCore.K) : Member.Sys → Prop
  | init (x : Member.Sys) : C08Member.InitR root x → (∀ i, (x.node i).snapTerm = 0) → ReachableT root x
  | next (x y : Member.Sys) : ReachableT root x → TransR x y → ReachableT root y

theorem ReachableT.toR {root : MemberCore.K} {x : Member.Sys} (h : ReachableT root x) : C08Member.ReachableR root x := by
  induction h with
  | init x hi _ => exact .init x hi
  | next x y _ ht ih => exact .next x y ih ht

/-- **every node tracks in every reachable state** -/
theorem tinv_reachableT (root : MemberCore.K) (x : Member.Sys) (h : ReachableT root x) : TInv x := by
  induction h with
  | init x hi hst => exact tinv_init hi.init hi.good hst
  | next x y hx ht ih =>
    obtain ⟨⟨G, hI, _⟩, hX⟩ := C08Member.inv_reachable root x hx.toR
    exact tinv_trans hI hX (C08Sys.leaderCache_reachable x (C08Member.reachableP_of hx.toR)) ih ht

end MemberApplyCfg
end Raft

#print axioms Raft.MemberApplyCfg.cfgLast_of_tracks
#print axioms Raft.MemberApplyCfg.tinv_reachableT
