/-
Delayed compaction, part G3 — THE FRAME LEMMA for the leader's compaction bound and the replication statuses, for every
operation of `Node.step` (guarded closure framework: Lemmas/SnapDelayG1.lean, SnapDelayG2.lean).

`GL R F l` (a predicate on leader records): the bound is `R`, and every status of the replication table holds `R`
(it was created by `addReplication`) or a value `v` with `F id v`.  With `Inh s` (`F id v` := a status of `s` has this id
and this `removeLTE`) it says: the bound is that of `s` and every status is new or INHERITED from `s`.

* `stepClosedG_of_ldr` — every predicate on the leader record that survives the two guarded updates is closed under all
  primitives of all handlers (none of the others touches the leader record).
* `leaderInit_spec` — `leader.init`: the bound becomes `log.prev`, EVERY status is new and holds it (all replications of
  a new leadership are new; their views are created from `ldr.removeLTE`: `addReplication` builds
  `ViewAt(ldr.removeLTE, lastLogIndex)`), the log's first index does not move.
* `handle_status_frame` — every handler except `onSnapshotTaken`, the loop of `checkReplUpdates` and `shutdown`: the
  bound is unchanged, every status is new or inherited.
* `step_status_frame` — the same through the role transitions, or a new leadership began (`FreshL`).
* `snapTaken_status_frame` — `onSnapshotTaken`: the replication table is untouched; the bound is unchanged, or
  `CanLTE(canCompact)`, or the new `log.prev`; and what is compacted AT ONCE is not beyond any replication's MATCH INDEX
  (`snapTaken_prev_le_match`) — the views of the goroutines are not consulted.
* `replUpdates_status_frame` — `checkReplUpdates`, any batch: the bound is unchanged; every status is new, inherited, or
  holds an index that a `removeLTE` report of the batch carried for its id.
-/
import RaftVerif.Lemmas.SnapDelayG2
import RaftVerif.Lemmas.SnapDelayB

namespace Raft
namespace SnapDelay
open Node

/-! ### predicates on the leader record -/

theorem ldr_panic (s : Node) (site : String) : (s.panic site).ldr = s.ldr := by
  unfold Node.panic; split <;> rfl

theorem ldr_storeTermVote (s : Node) (t v : Nat) : (s.storeTermVote t v).ldr = s.ldr := by
  unfold Node.storeTermVote; dsimp only; split <;> rfl

theorem ldr_setVotedFor (s : Node) (t v : Nat) : (s.setVotedFor t v).ldr = s.ldr := by
  unfold Node.setVotedFor
  repeat' split
  all_goals first | rfl | exact ldr_storeTermVote _ _ _ | exact ldr_panic _ _

theorem ldr_setTerm (s : Node) (t : Nat) : (s.setTerm t).ldr = s.ldr := by
  unfold Node.setTerm
  repeat' split
  all_goals first | rfl | exact ldr_storeTermVote _ _ _ | exact ldr_panic _ _

theorem ldr_setCommitIndexR (s : Node) (i : Nat) : (s.setCommitIndexR i).1.ldr = s.ldr := by
  unfold Node.setCommitIndexR Node.afterConfigCommit Node.closeIfRemoved Node.stepDownIfNotVoter Node.commitConfig
    Node.doClose
  dsimp only
  repeat' split
  all_goals rfl

/-- a predicate on the leader record that survives the two guarded updates is closed under the primitives of the leader
block -/
theorem closedG_of_ldr (P : Leader → Prop)
    (hK : ∀ l l' : Leader, P l → l'.removeLTE = l.removeLTE → l'.repls = l.repls → P l')
    (hR : ∀ (l : Leader) rs, P l →
      (∀ r ∈ rs, r.removeLTE = l.removeLTE ∨ ∃ r1 ∈ l.repls, r1.id = r.id ∧ r1.removeLTE = r.removeLTE) →
      P { l with repls := rs }) : ClosedG (fun s => P s.ldr) where
  panic := fun s site h => by rw [ldr_panic]; exact h
  reply := fun s t r h => by rw [removeLTE_reply]; exact h
  point := fun s n h => h
  ldrK := fun s l h e1 e2 => hK s.ldr l h e1 e2
  replsG := fun s rs h hg => hR s.ldr rs h hg
  append := fun s e roll h => h
  commitN := fun s n h => h
  fsm := fun s f h => h
  changeConfigR := fun s c h => by unfold Node.changeConfigR; dsimp only; split <;> exact h
  setCommitIndexR := fun s i h _ => by rw [ldr_setCommitIndexR]; exact h
  popOrder := fun s h => h

/-- … and under the primitives of all handlers -/
theorem stepClosedG_of_ldr (P : Leader → Prop)
    (hK : ∀ l l' : Leader, P l → l'.removeLTE = l.removeLTE → l'.repls = l.repls → P l')
    (hR : ∀ (l : Leader) rs, P l →
      (∀ r ∈ rs, r.removeLTE = l.removeLTE ∨ ∃ r1 ∈ l.repls, r1.id = r.id ∧ r1.removeLTE = r.removeLTE) →
      P { l with repls := rs }) : StepClosedG (fun s => P s.ldr) where
  toClosedG := closedG_of_ldr P hK hR
  begin := fun s ra ord h => h
  rpcReply := fun s r h => h
  ret := fun s r h => h
  setRole := fun s r h => h
  setLeader := fun s l h => h
  doClose := fun s r h => by unfold Node.doClose; split <;> exact h
  setTerm := fun s t h => by rw [ldr_setTerm]; exact h
  voteNewTerm := fun s t c h _ => by rw [ldr_setVotedFor]; exact h
  voteGrant := fun s c h _ => by rw [ldr_setVotedFor]; exact h
  votesNeeded := fun s v h => h
  candTransfer := fun s v h => h
  removeGTE := fun s i pt h => h
  removeLTE := fun s i h => h
  clearLog := fun s h => h
  revertConfig := fun s h => by unfold Node.revertConfig; exact h
  commitConfig := fun s h => by unfold Node.commitConfig; dsimp only; split <;> exact h
  publishSnapshot := fun s f h => h
  installCommit := fun s h _ => h
  snapPending := fun s v h => h
  snapResult := fun s v h => h
  bootstrapLast := fun s i t h => h

/-! ### the bound and the statuses -/

/-- the bound is `R`; every status holds `R` or a value allowed by `F` for its id -/
def GL (R : Nat) (F : Nat → Nat → Prop) (l : Leader) : Prop :=
  l.removeLTE = R ∧ ∀ r ∈ l.repls, r.removeLTE = R ∨ F r.id r.removeLTE

/-- a status of `s` has this id and this `removeLTE` -/
def Inh (s : Node) (id v : Nat) : Prop := ∃ r0 ∈ s.ldr.repls, r0.id = id ∧ r0.removeLTE = v

/-- every status holds the bound: all replications are new -/
def FreshL (l : Leader) : Prop := ∀ r ∈ l.repls, r.removeLTE = l.removeLTE

theorem GL_keep {R : Nat} {F : Nat → Nat → Prop} (l l' : Leader) (h : GL R F l) (e1 : l'.removeLTE = l.removeLTE)
    (e2 : l'.repls = l.repls) : GL R F l' := by
  unfold GL
  rw [e1, e2]; exact h

theorem GL_repls {R : Nat} {F : Nat → Nat → Prop} (l : Leader) (rs : List Repl) (h : GL R F l)
    (hg : ∀ r ∈ rs, r.removeLTE = l.removeLTE ∨ ∃ r1 ∈ l.repls, r1.id = r.id ∧ r1.removeLTE = r.removeLTE) :
    GL R F { l with repls := rs } := by
  refine ⟨h.1, fun r hr => ?_⟩
  rcases hg r hr with e | ⟨r1, h1, e1, e2⟩
  · left; rw [e, h.1]
  · rcases h.2 r1 h1 with a | a
    · left; rw [← e2, a]
    · right; rw [← e1, ← e2]; exact a

theorem FreshL_keep (l l' : Leader) (h : FreshL l) (e1 : l'.removeLTE = l.removeLTE) (e2 : l'.repls = l.repls) :
    FreshL l' := by
  unfold FreshL
  rw [e1, e2]; exact h

theorem FreshL_repls (l : Leader) (rs : List Repl) (h : FreshL l)
    (hg : ∀ r ∈ rs, r.removeLTE = l.removeLTE ∨ ∃ r1 ∈ l.repls, r1.id = r.id ∧ r1.removeLTE = r.removeLTE) :
    FreshL { l with repls := rs } := by
  intro r hr
  rcases hg r hr with e | ⟨r1, h1, _, e2⟩
  · exact e
  · show r.removeLTE = l.removeLTE
    rw [← e2]; exact h r1 h1

theorem GL_closed (R : Nat) (F : Nat → Nat → Prop) : StepClosedG (fun s => GL R F s.ldr) :=
  stepClosedG_of_ldr _ GL_keep GL_repls

/-- the bound is `c` and all replications are new -/
def FreshAt (c : Nat) (l : Leader) : Prop := l.removeLTE = c ∧ FreshL l

theorem FreshAt_closed (c : Nat) : StepClosedG (fun s => FreshAt c s.ldr) :=
  stepClosedG_of_ldr _ (fun l l' h e1 e2 => ⟨by rw [e1]; exact h.1, FreshL_keep l l' h.2 e1 e2⟩)
    (fun l rs h hg => ⟨h.1, FreshL_repls l rs h.2 hg⟩)

/-! ### `leader.init` -/

theorem prev_closed (c : Nat) : Closed (fun s : Node => s.log.prev = c) where
  panic := fun s site h => by unfold Node.panic; split <;> exact h
  reply := fun s t r h => by unfold Node.reply; split <;> exact h
  point := fun s n h => h
  ldr := fun s l h => h
  append := fun s e roll h => by
    show (s.log.append e roll).prev = c
    unfold NLog.append; split <;> exact h
  commitN := fun s n h => by
    show (s.log.commitN n).prev = c
    unfold NLog.commitN; split <;> exact h
  fsm := fun s f h => h
  changeConfigR := fun s cf h => by unfold Node.changeConfigR; dsimp only; split <;> exact h
  setCommitIndexR := fun s i h _ => by
    unfold Node.setCommitIndexR Node.afterConfigCommit Node.closeIfRemoved Node.stepDownIfNotVoter Node.commitConfig
      Node.doClose
    dsimp only
    repeat' split
    all_goals exact h
  popOrder := fun s h => h

/-- **`leader.init`**: the bound is reset to `log.prev`, every replication is new and its status holds the bound, the
first index of the log does not move -/
theorem leaderInit_spec (s : Node) :
    s.leaderInit.ldr.removeLTE = s.log.prev ∧ FreshL s.leaderInit.ldr ∧ s.leaderInit.log.prev = s.log.prev := by
  have hp : s.leaderInit.log.prev = s.log.prev :=
    (prev_closed s.log.prev).leaderInit_inv' s rfl
  have c := (FreshAt_closed s.log.prev).toClosedG
  have key : FreshAt s.log.prev s.leaderInit.ldr := by
    unfold Node.leaderInit
    extract_lets s1 s2 s3 s4
    have h2 : FreshAt s.log.prev s2.ldr := by
      refine ⟨?_, fun r hr => by cases hr⟩
      show s1.log.prev = s.log.prev
      unfold s1 Node.assert; split
      · rfl
      · unfold Node.panic; split <;> rfl
    have h3 : FreshAt s.log.prev s3.ldr :=
      ClosedG.foldl_inv (Inv := fun x => FreshAt s.log.prev x.ldr) _ (fun x n hx => by
        split
        · exact hx
        · exact c.addReplication_inv _ _ hx) _ _ h2
    have h4 : FreshAt s.log.prev s4.ldr := (c.block _).2.2.2.2.1 _ _ _ h3
    exact (c.block _).1 _ _ h4
  exact ⟨key.1, key.2, hp⟩

/-! ### the frame of the handlers -/

/-- **the frame of a handler**: every handler except `onSnapshotTaken`, the loop of `checkReplUpdates` and `shutdown`
keeps `ldr.removeLTE`, and every status of the replication table afterwards is new (it holds the bound) or has the id and
the `removeLTE` of a status of the table before -/
theorem handle_status_frame (s : Node) (op : Op) (hop : StepClosedG.FOp op) :
    GL s.ldr.removeLTE (Inh s) (s.handle op).ldr :=
  (GL_closed s.ldr.removeLTE (Inh s)).handle_inv s op hop ⟨rfl, fun r hr => Or.inr ⟨r, hr, rfl, rfl⟩⟩

/-- **the frame of a step** (handler and role transitions): as for the handler — or `leader.init` ran (a new leadership:
every replication is new) -/
theorem step_status_frame (s : Node) (op : Op) (ra : List Nat) (ord : List (List Nat)) (hop : StepClosedG.FOp op) :
    GL s.ldr.removeLTE (Inh s) (s.step op ra ord).ldr ∨ FreshL (s.step op ra ord).ldr := by
  have c : StepClosedG (fun x => GL s.ldr.removeLTE (Inh s) x.ldr ∨ FreshL x.ldr) :=
    stepClosedG_of_ldr (fun l => GL s.ldr.removeLTE (Inh s) l ∨ FreshL l)
      (fun l l' h e1 e2 => h.imp (fun a => GL_keep l l' a e1 e2) (fun a => FreshL_keep l l' a e1 e2))
      (fun l rs h hg => h.imp (fun a => GL_repls l rs a hg) (fun a => FreshL_repls l rs a hg))
  exact c.step_inv (fun x _ => Or.inr (leaderInit_spec x).2.1) s op ra ord hop
    (Or.inl ⟨rfl, fun r hr => Or.inr ⟨r, hr, rfl, rfl⟩⟩)

/-- a step in which the handler leaves the role alone is the handler (no role transition runs) -/
theorem step_eq_handle (s : Node) (op : Op) (ra : List Nat) (ord : List (List Nat))
    (h : ((s.begin ra ord).handle op).role = (s.begin ra ord).role) :
    s.step op ra ord = (s.begin ra ord).handle op := by
  unfold Node.step
  dsimp only
  split
  · rfl
  · rw [← h]; exact SnapSim.settle_same_role 6 _

/-! ### `onSnapshotTaken` -/

theorem foldl_min_le (rs : List Repl) : ∀ (init : Nat) (r : Repl), r ∈ rs →
    rs.foldl (fun m r => if r.matchIndex < m then r.matchIndex else m) init ≤ r.matchIndex := by
  induction rs with
  | nil => intro _ r hr; cases hr
  | cons a t ih =>
    intro init r hr
    rw [List.foldl_cons]
    rcases List.mem_cons.mp hr with e | e
    · rw [e]
      have := C09.foldl_le_init (fun m (r : Repl) => if r.matchIndex < m then r.matchIndex else m)
        (fun m r => by split <;> omega) t (if a.matchIndex < init then a.matchIndex else init)
      by_cases hlt : a.matchIndex < init
      · rw [if_pos hlt] at this ⊢; exact this
      · rw [if_neg hlt] at this ⊢; omega
    · exact ih _ r e

/-- **`onSnapshotTaken`**: the replication table is untouched; the first index of the log is unchanged or — the compaction
AT ONCE — a segment boundary that is not beyond the MATCH INDEX of any replication of a leader (and not beyond the
snapshot) -/
theorem snapTaken_status_frame (s : Node) (hok : C09.SegsOK s.log) :
    s.onSnapshotTaken.ldr.repls = s.ldr.repls ∧
    (s.onSnapshotTaken.log.prev = s.log.prev ∨
      (s.role = .leader → ∀ r ∈ s.ldr.repls, s.onSnapshotTaken.log.prev ≤ r.matchIndex)) := by
  cases hrs : s.snapResult with
  | none =>
    have e : s.onSnapshotTaken = s := by unfold Node.onSnapshotTaken; rw [hrs]
    rw [e]; exact ⟨rfl, Or.inl rfl⟩
  | some rs =>
    unfold Node.onSnapshotTaken
    rw [hrs]
    dsimp -zeta only
    extract_lets s0 repls nowC0 canC0 nowC canC s1 src s2
    have hl1 : s1.ldr = s.ldr := by unfold s1; split <;> rfl
    have hp1 : s1.log.prev = s.log.prev ∨ (s.role = .leader → ∀ r ∈ s.ldr.repls, s1.log.prev ≤ r.matchIndex) := by
      unfold s1
      split
      · right
        intro hl r hr
        show (s.log.removeLTE nowC).prev ≤ r.matchIndex
        rw [C09.removeLTE_prev]
        have hrep : repls = s.ldr.repls := by
          unfold repls
          show (if s.role = .leader then s.ldr.repls else []) = _
          rw [if_pos hl]
        have h0 : nowC0 ≤ r.matchIndex := by
          unfold nowC0
          rw [hrep]
          exact foldl_min_le _ _ r hr
        rename_i hgt
        have hgt' : s.log.canLTE nowC0 > s.log.prev := hgt
        obtain ⟨_, _, _, hor, _⟩ := C09.canLTE_bounds s.log nowC0 hok
        have h1 : s.log.canLTE nowC0 ≤ nowC0 := by rcases hor with e | e <;> omega
        have h2 : s.log.canLTE nowC ≤ s.log.canLTE nowC0 := by
          show s.log.canLTE (s.log.canLTE nowC0) ≤ _
          obtain ⟨_, _, _, hor', _⟩ := C09.canLTE_bounds s.log (s.log.canLTE nowC0) hok
          rcases hor' with e | e <;> omega
        omega
      · left; rfl
    have hfin : s1.ldr.repls = s.ldr.repls ∧
        (s1.log.prev = s.log.prev ∨ (s.role = .leader → ∀ r ∈ s.ldr.repls, s1.log.prev ≤ r.matchIndex)) :=
      ⟨by rw [hl1], hp1⟩
    split
    · rw [C09.reply_ldr, C09.reply_log]; exact ⟨rfl, Or.inl rfl⟩
    · rw [C09.reply_ldr, C09.reply_log]
      unfold s2
      split
      · split
        · rw [(C09.notifyFlr_log _).2.1, (C09.notifyFlr_log _).1]; exact hfin
        · split
          · rw [(C09.notifyFlr_log _).2.1, (C09.notifyFlr_log _).1]; exact hfin
          · exact hfin
      · exact ⟨rfl, Or.inl rfl⟩

/-! ### `checkReplUpdates` -/

/-- a `removeLTE` report of the batch carried `v` for the replication `id` -/
def Reported (us : List ReplUpdate) (id v : Nat) : Prop := ∃ u ∈ us, u.id = id ∧ u.upd = .removeLTE v

/-- the loop of `checkReplUpdates` -/
theorem replUpdLoop_status_frame (R : Nat) (F : Nat → Nat → Prop) (us0 : List ReplUpdate) :
    ∀ (us : List ReplUpdate) (s : Node) (f : UpdFlags), (∀ u ∈ us, u ∈ us0) →
      GL R (fun id v => F id v ∨ Reported us0 id v) s.ldr →
      GL R (fun id v => F id v ∨ Reported us0 id v) (replUpdLoop s f us).1.ldr := by
  intro us
  induction us with
  | nil => intro s f _ h; exact h
  | cons u us ih =>
    intro s f hsub h
    have hsub' : ∀ x ∈ us, x ∈ us0 := fun x hx => hsub x (List.mem_cons_of_mem _ hx)
    have hu : u ∈ us0 := hsub u (List.mem_cons_self ..)
    have c := GL_closed R (fun id v => F id v ∨ Reported us0 id v)
    unfold replUpdLoop
    split
    · exact ih s f hsub' h
    · split
      · exact ih s f hsub' h
      · rename_i st hf
        obtain ⟨hmem, hid⟩ := LC.find_mem hf
        split
        · rename_i v _
          dsimp only
          apply ih _ _ hsub'
          have h1 : GL R (fun id v => F id v ∨ Reported us0 id v) (s.setRepl { st with matchIndex := v }).ldr :=
            c.toClosedG.setRepl_keep s _ st h hmem rfl rfl
          split
          · exact (c.toClosedG.block _).2.2.2.2.2.1 _ _ _ _ h1
          · exact h1
        · rename_i v hv
          apply ih _ _ hsub'
          refine ⟨h.1, fun r hr => ?_⟩
          rcases ClosedG.mem_insertRepl' _ r _ hr with e | e
          · right; right
            rw [e]
            exact ⟨u, hu, hid.symm, hv⟩
          · exact h.2 r e
        · rename_i b _
          exact ih _ _ hsub' (c.toClosedG.setRepl_keep s _ st h hmem rfl rfl)
        · show GL R _ (Node.setTerm _ _).ldr
          rw [ldr_setTerm]
          exact h

/-- **`checkReplUpdates`, any batch**: `ldr.removeLTE` is unchanged; every status afterwards is new (holds the bound),
inherited, or holds an index a `removeLTE` report of the batch carried for its id -/
theorem replUpdates_status_frame (s : Node) (us : List ReplUpdate) :
    GL s.ldr.removeLTE (fun id v => Inh s id v ∨ Reported us id v) (s.checkReplUpdates us).ldr := by
  have c := GL_closed s.ldr.removeLTE (fun id v => Inh s id v ∨ Reported us id v)
  apply c.checkReplUpdates_inv
  exact replUpdLoop_status_frame s.ldr.removeLTE (Inh s) us us s {} (fun u hu => hu)
    ⟨rfl, fun r hr => Or.inr (Or.inl ⟨r, hr, rfl, rfl⟩)⟩

end SnapDelay
end Raft
