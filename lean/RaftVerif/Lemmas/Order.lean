/-
Lemmas for C19 (orderings of the observable state as an inductive invariant of `Node.step`).

* `Ordered s`: the conjunction of orderings a node reports (plus the strengthening needed to make it
  inductive: segment list well formed, `leader.removeLTE ≤ snaps.index`, a finished snapshot's index
  `≤ snaps.index`).
* `ReqOk s op`: what is required from the incoming operation.
* `Inv s₀ b s`: the invariant carried through a step relative to the state `s₀` the step started from:
  *while the step has not panicked* (`panicked = none`; a Go panic kills the process, what the totalised
  model computes afterwards is meaningless) the state is ordered and the applied index and the snapshot
  index are at least those of `s₀`. The flag `b` says whether `commitIndex ≤ lastLogIndex` is part of it:
  `leader.setCommitIndex` may raise the commit index beyond the log (a replication reporting a match index
  the leader does not have) — the `ViewAt` of the `applyCommitted` that always follows then panics, so the
  clause is dropped between the two and regained after `fsmApply`.
* every primitive state update preserves `Inv` (under an explicit guard where it matters), hence the
  mutually recursive leader block (`block`), every handler, `settle`, `handle`.
-/
import RaftVerif.Props.C10
import RaftVerif.Lemmas.LocalA

namespace Raft
namespace Order
open Node

/-! ## definitions -/

/-- Everything of `Ordered` but `commitIndex ≤ lastLogIndex`. -/
structure CoreW (s : Node) : Prop where
  last_eq : s.lastLogIndex = s.log.last
  prev_le_snap : s.log.prev ≤ s.snapIndex
  snap_le_applied : s.snapIndex ≤ s.fsm.index
  applied_le_commit : s.fsm.index ≤ s.commitIndex
  committed_le_latest : s.configs.committed.index ≤ s.configs.latest.index
  latest_le_last : s.configs.latest.index ≤ s.lastLogIndex
  segs : C09.SegsOK s.log
  removeLTE_le : s.ldr.removeLTE ≤ s.snapIndex
  snapRes_le : ∀ rs, s.snapResult = some rs → rs.index ≤ s.snapIndex

/-- **The state a node reports is internally ordered**:
`log.prev ≤ snapIndex ≤ fsm.index (last applied) ≤ commitIndex ≤ lastLogIndex = log.last`,
`configs.committed.index ≤ configs.latest.index ≤ lastLogIndex`; plus the strengthening that makes it
inductive: the segment list is well formed (`C09.SegsOK`), the compaction bound kept in the leader struct
(also when stale) and the index of a finished, not yet consumed snapshot are `≤ snapIndex`. -/
structure Ordered (s : Node) : Prop extends CoreW s where
  commit_le_last : s.commitIndex ≤ s.lastLogIndex

/-- the fields `CoreW`/`Ordered` look at -/
def obs (s : Node) : Nat × NLog × Nat × Nat × Nat × Configs × Nat × Option SnapRes :=
  (s.lastLogIndex, s.log, s.snapIndex, s.fsm.index, s.commitIndex, s.configs, s.ldr.removeLTE, s.snapResult)

theorem obs_eq {s s' : Node} (h : obs s' = obs s) :
    s'.lastLogIndex = s.lastLogIndex ∧ s'.log = s.log ∧ s'.snapIndex = s.snapIndex ∧
    s'.fsm.index = s.fsm.index ∧ s'.commitIndex = s.commitIndex ∧ s'.configs = s.configs ∧
    s'.ldr.removeLTE = s.ldr.removeLTE ∧ s'.snapResult = s.snapResult := by
  simp only [obs, Prod.mk.injEq] at h
  exact h

theorem CoreW.congr {s s' : Node} (c : CoreW s) (h : obs s' = obs s) : CoreW s' := by
  obtain ⟨e1, e2, e3, e4, e5, e6, e7, e8⟩ := obs_eq h
  exact ⟨by rw [e1, e2]; exact c.last_eq, by rw [e2, e3]; exact c.prev_le_snap,
    by rw [e3, e4]; exact c.snap_le_applied, by rw [e4, e5]; exact c.applied_le_commit,
    by rw [e6]; exact c.committed_le_latest, by rw [e6, e1]; exact c.latest_le_last,
    by rw [e2]; exact c.segs, by rw [e7, e3]; exact c.removeLTE_le, by rw [e8, e3]; exact c.snapRes_le⟩

/-- The invariant of a step that started in `s₀` (see the file header). -/
def Inv (s₀ : Node) (b : Bool) (s : Node) : Prop :=
  s.panicked = none →
    CoreW s ∧ (b = true → s.commitIndex ≤ s.lastLogIndex) ∧
    s₀.fsm.index ≤ s.fsm.index ∧ s₀.snapIndex ≤ s.snapIndex

variable {s₀ : Node} {b : Bool}

theorem Inv.weaken {s : Node} (h : Inv s₀ true s) : Inv s₀ b s :=
  fun hp => let ⟨c, hb, m1, m2⟩ := h hp; ⟨c, fun _ => hb rfl, m1, m2⟩

theorem Inv.toFalse {s : Node} (h : Inv s₀ b s) : Inv s₀ false s :=
  fun hp => let ⟨c, _, m1, m2⟩ := h hp; ⟨c, fun e => Bool.noConfusion e, m1, m2⟩

/-- `s'` differs from `s` in nothing the invariant looks at, and does not clear a panic -/
def Irr (s s' : Node) : Prop := obs s' = obs s ∧ (s'.panicked = none → s.panicked = none)

theorem Irr.refl (s : Node) : Irr s s := ⟨rfl, id⟩

theorem Irr.trans {a b c : Node} (h1 : Irr a b) (h2 : Irr b c) : Irr a c :=
  ⟨h2.1.trans h1.1, fun h => h1.2 (h2.2 h)⟩

theorem Irr.inv {s s' : Node} (hi : Irr s s') (h : Inv s₀ b s) : Inv s₀ b s' := by
  intro hp
  obtain ⟨c, hb, m1, m2⟩ := h (hi.2 hp)
  obtain ⟨e1, _, e3, e4, e5, _⟩ := obs_eq hi.1
  exact ⟨c.congr hi.1, by rw [e5, e1]; exact hb, by rw [e4]; exact m1, by rw [e3]; exact m2⟩

/-! ## primitives that touch nothing of the invariant -/

theorem irr_panic (s : Node) (site : String) : Irr s (s.panic site) :=
  ⟨by unfold Node.panic; split <;> rfl, fun h => absurd h (panic_panicked_ne s site)⟩

theorem irr_assert (s : Node) (bb : Bool) (site : String) : Irr s (s.assert bb site) := by
  unfold Node.assert; split
  · exact Irr.refl s
  · exact irr_panic s site

theorem assert_true {s : Node} {bb : Bool} {site : String} (h : (s.assert bb site).panicked = none) : bb = true := by
  unfold Node.assert at h
  split at h
  · assumption
  · exact absurd h (panic_panicked_ne s site)

theorem irr_reply (s : Node) (t : Nat) (r : String) : Irr s (s.reply t r) := by
  unfold Node.reply; split <;> exact ⟨rfl, id⟩

theorem irr_point (s : Node) (n : String) : Irr s (s.point n) := ⟨rfl, id⟩
theorem irr_popOrder (s : Node) : Irr s s.popOrder := ⟨rfl, id⟩
theorem irr_rpcReply (s : Node) (r) : Irr s (s.withRpcReply r) := ⟨rfl, id⟩
theorem irr_ret (s : Node) (r : Nat) : Irr s (s.ret r) := ⟨rfl, id⟩
theorem irr_setRole (s : Node) (r : Role) : Irr s (s.setRole r) := ⟨rfl, id⟩
theorem irr_setLeader (s : Node) (l : Nat) : Irr s (s.setLeader l) := ⟨rfl, id⟩
theorem irr_votesNeeded (s : Node) (v : Int) : Irr s (s.withVotesNeeded v) := ⟨rfl, id⟩
theorem irr_candTransfer (s : Node) (v : Bool) : Irr s (s.withCandTransfer v) := ⟨rfl, id⟩
theorem irr_snapPending (s : Node) (v) : Irr s (s.withSnapPending v) := ⟨rfl, id⟩

theorem irr_doClose (s : Node) (r : String) : Irr s (s.doClose r) := by
  unfold Node.doClose; split <;> exact ⟨rfl, id⟩

theorem irr_storeTermVote (s : Node) (t c : Nat) : Irr s (s.storeTermVote t c) := by
  unfold Node.storeTermVote Node.point; dsimp only; split <;> exact ⟨rfl, id⟩

theorem irr_setTerm (s : Node) (t : Nat) : Irr s (s.setTerm t) := by
  unfold Node.setTerm
  repeat' split
  all_goals first | exact irr_storeTermVote _ _ _ | exact irr_panic _ _ | exact Irr.refl _

theorem irr_setVotedFor (s : Node) (t c : Nat) : Irr s (s.setVotedFor t c) := by
  unfold Node.setVotedFor
  repeat' split
  all_goals first | exact irr_storeTermVote _ _ _ | exact irr_panic _ _ | exact Irr.refl _

/-- replacing the leader struct by one with the same compaction bound -/
theorem irr_ldr (s : Node) (l : Leader) (h : l.removeLTE = s.ldr.removeLTE) : Irr s (s.withLdr l) :=
  ⟨by unfold obs Node.withLdr; dsimp only; rw [h], id⟩

/-! ### the same, as backward steps on `Inv` goals -/

theorem inv_panic (s : Node) (site : String) : Inv s₀ b (s.panic site) :=
  fun h => absurd h (panic_panicked_ne s site)
theorem inv_assert {s : Node} (bb : Bool) (site : String) (h : Inv s₀ b s) : Inv s₀ b (s.assert bb site) :=
  (irr_assert s bb site).inv h
theorem inv_reply {s : Node} (t : Nat) (r : String) (h : Inv s₀ b s) : Inv s₀ b (s.reply t r) := (irr_reply s t r).inv h
theorem inv_point {s : Node} (n : String) (h : Inv s₀ b s) : Inv s₀ b (s.point n) := (irr_point s n).inv h
theorem inv_popOrder {s : Node} (h : Inv s₀ b s) : Inv s₀ b s.popOrder := (irr_popOrder s).inv h
theorem inv_rpcReply {s : Node} (r) (h : Inv s₀ b s) : Inv s₀ b (s.withRpcReply r) := (irr_rpcReply s r).inv h
theorem inv_ret {s : Node} (r : Nat) (h : Inv s₀ b s) : Inv s₀ b (s.ret r) := (irr_ret s r).inv h
theorem inv_setRole {s : Node} (r : Role) (h : Inv s₀ b s) : Inv s₀ b (s.setRole r) := (irr_setRole s r).inv h
theorem inv_setLeader {s : Node} (l : Nat) (h : Inv s₀ b s) : Inv s₀ b (s.setLeader l) := (irr_setLeader s l).inv h
theorem inv_votesNeeded {s : Node} (v : Int) (h : Inv s₀ b s) : Inv s₀ b (s.withVotesNeeded v) := (irr_votesNeeded s v).inv h
theorem inv_candTransfer {s : Node} (v : Bool) (h : Inv s₀ b s) : Inv s₀ b (s.withCandTransfer v) := (irr_candTransfer s v).inv h
theorem inv_snapPending {s : Node} (v) (h : Inv s₀ b s) : Inv s₀ b (s.withSnapPending v) := (irr_snapPending s v).inv h
theorem inv_doClose {s : Node} (r : String) (h : Inv s₀ b s) : Inv s₀ b (s.doClose r) := (irr_doClose s r).inv h
theorem inv_setTerm {s : Node} (t : Nat) (h : Inv s₀ b s) : Inv s₀ b (s.setTerm t) := (irr_setTerm s t).inv h
theorem inv_setVotedFor {s : Node} (t c : Nat) (h : Inv s₀ b s) : Inv s₀ b (s.setVotedFor t c) := (irr_setVotedFor s t c).inv h
theorem inv_ldr_same {s : Node} {l : Leader} (h : Inv s₀ b s) (hl : l.removeLTE = s.ldr.removeLTE) :
    Inv s₀ b (s.withLdr l) := (irr_ldr s l hl).inv h

/-! ## the segment list under the log operations -/

theorem last_append (l : NLog) (e : Entry) (roll : Bool) : (l.append e roll).last = l.last + 1 := by
  unfold NLog.append NLog.last
  split <;> simp only [List.length_append, List.length_singleton] <;> omega

theorem prev_append (l : NLog) (e : Entry) (roll : Bool) : (l.append e roll).prev = l.prev := by
  unfold NLog.append; split <;> rfl

/-- in a strictly increasing list every element is the last one or below it -/
theorem sorted_le_getLast (l : List Nat) (hs : l.Pairwise (· < ·)) (x : Nat) (hx : l.getLast? = some x) :
    ∀ a ∈ l, a = x ∨ a < x := by
  obtain ⟨ys, rfl⟩ := List.getLast?_eq_some_iff.mp hx
  intro a ha
  rcases List.mem_append.mp ha with h | h
  · right
    exact (List.pairwise_append.mp hs).2.2 a h x (List.mem_singleton.mpr rfl)
  · left; exact List.mem_singleton.mp h

theorem segsOK_append (l : NLog) (e : Entry) (roll : Bool) (h : C09.SegsOK l)
    (hr : roll = true → l.lastSegPrev ≠ l.last) : C09.SegsOK (l.append e roll) := by
  obtain ⟨hs, hh, hl⟩ := h
  have hlast := last_append l e roll
  cases roll with
  | false =>
    refine ⟨hs, hh, fun x hx => ?_⟩
    rw [hlast]; exact Nat.le_succ_of_le (hl x hx)
  | true =>
    have hne := hr rfl
    have hsegs : (l.append e true).segs = l.segs ++ [l.last] := rfl
    have hlt : ∀ a ∈ l.segs, a < l.last := by
      cases hg : l.segs.getLast? with
      | none =>
        rw [List.getLast?_eq_none_iff] at hg
        rw [hg] at hh; cases hh
      | some x =>
        have hx : l.lastSegPrev = x := by unfold NLog.lastSegPrev; rw [hg]; rfl
        intro a ha
        have hxl : x ≤ l.last := hl x (List.mem_of_getLast? hg)
        rcases sorted_le_getLast l.segs hs x hg a ha with e1 | e1 <;> omega
    refine ⟨?_, ?_, ?_⟩
    · rw [hsegs, List.pairwise_append]
      refine ⟨hs, List.pairwise_singleton _ _, fun a ha c hc => ?_⟩
      rw [List.mem_singleton.mp hc]; exact hlt a ha
    · rw [hsegs]
      cases hsg : l.segs with
      | nil => rw [hsg] at hh; cases hh
      | cons a rest => rw [hsg] at hh; exact hh
    · intro x hx
      rw [hsegs] at hx
      rw [hlast]
      rcases List.mem_append.mp hx with h1 | h1
      · exact Nat.le_succ_of_le (hl x h1)
      · rw [List.mem_singleton.mp h1]; exact Nat.le_succ _

theorem last_removeGTE (l : NLog) (i : Nat) (h1 : l.prev < i) (h2 : i ≤ l.last) : (l.removeGTE i).last = i - 1 := by
  unfold NLog.removeGTE NLog.last at *
  simp only [List.length_take]
  omega

theorem segsOK_removeGTE (l : NLog) (i : Nat) (h : C09.SegsOK l) (h1 : l.prev < i) (h2 : i ≤ l.last) :
    C09.SegsOK (l.removeGTE i) := by
  obtain ⟨hs, hh, hl⟩ := h
  have hlast := last_removeGTE l i h1 h2
  have hprev : (l.removeGTE i).prev = l.prev := rfl
  have hsegs : (l.removeGTE i).segs =
      if (l.segs.filter (· < i - 1)).isEmpty then [i - 1] else l.segs.filter (· < i - 1) := rfl
  cases hsg : l.segs with
  | nil => rw [hsg] at hh; cases hh
  | cons a rest =>
    rw [hsg] at hh hs hl
    have ha : a = l.prev := by injection hh
    have hrest : ∀ x ∈ rest, a < x := (List.pairwise_cons.mp hs).1
    rw [hsg] at hsegs
    by_cases hlt : a < i - 1
    · have hf : (a :: rest).filter (· < i - 1) = a :: rest.filter (· < i - 1) :=
        List.filter_cons_of_pos (by simpa using hlt)
      rw [hf] at hsegs
      simp only [List.isEmpty_cons, Bool.false_eq_true, if_false] at hsegs
      refine ⟨?_, ?_, ?_⟩
      · rw [hsegs, ← hf]; exact List.Pairwise.sublist List.filter_sublist hs
      · rw [hsegs, hprev, ha]; rfl
      · intro x hx
        rw [hsegs, ← hf] at hx
        have := (List.mem_filter.mp hx).2
        rw [hlast]
        simp only [decide_eq_true_eq] at this
        omega
    · have hf : (a :: rest).filter (· < i - 1) = [] := by
        rw [List.filter_eq_nil_iff]
        intro x hx
        simp only [decide_eq_true_eq]
        rcases List.mem_cons.mp hx with e | e
        · rw [e]; exact hlt
        · have := hrest x e; omega
      rw [hf] at hsegs
      simp only [List.isEmpty_nil, if_true] at hsegs
      have hai : i - 1 = l.prev := by omega
      refine ⟨?_, ?_, ?_⟩
      · rw [hsegs]; exact List.pairwise_singleton _ _
      · rw [hsegs, hprev, hai]; rfl
      · intro x hx
        rw [hsegs] at hx
        rw [hlast, List.mem_singleton.mp hx]; exact Nat.le_refl _

theorem segsOK_reset (i : Nat) : C09.SegsOK (NLog.reset i) :=
  ⟨List.pairwise_singleton _ _, rfl, fun x hx => by
    rw [show (NLog.reset i).segs = [i] from rfl] at hx
    rw [List.mem_singleton.mp hx]; exact Nat.le_refl _⟩

theorem commitN_same (l : NLog) (n : Nat) :
    (l.commitN n).prev = l.prev ∧ (l.commitN n).entries = l.entries ∧ (l.commitN n).segs = l.segs := by
  unfold NLog.commitN; split <;> exact ⟨rfl, rfl, rfl⟩

theorem segsOK_of_same {l l' : NLog} (h : C09.SegsOK l) (e1 : l'.prev = l.prev) (e2 : l'.entries = l.entries)
    (e3 : l'.segs = l.segs) : C09.SegsOK l' := by
  have hl : l'.last = l.last := by unfold NLog.last; rw [e1, e2]
  exact ⟨by rw [e3]; exact h.sorted, by rw [e3, e1]; exact h.head, by rw [e3, hl]; exact h.le_last⟩


/-! ## guarded primitives -/

/-- the record update of `storage.appendEntry` -/
theorem inv_appendRaw {s : Node} (e : Entry) (roll : Bool) (h : Inv s₀ b s)
    (hg : s.panicked = none → e.index = s.lastLogIndex + 1 ∧ (roll = true → s.log.lastSegPrev ≠ e.index - 1)) :
    Inv s₀ b { s with log := s.log.append e roll, lastLogIndex := e.index, lastLogTerm := e.term } := by
  intro hp
  have hp' : s.panicked = none := hp
  obtain ⟨c, hcl, m1, m2⟩ := h hp'
  obtain ⟨he, hr⟩ := hg hp'
  have hle := c.last_eq
  refine ⟨⟨?_, ?_, c.snap_le_applied, c.applied_le_commit, c.committed_le_latest, ?_, ?_, c.removeLTE_le,
    c.snapRes_le⟩, ?_, m1, m2⟩
  · show e.index = (s.log.append e roll).last
    rw [last_append]; omega
  · show (s.log.append e roll).prev ≤ s.snapIndex
    rw [prev_append]; exact c.prev_le_snap
  · show s.configs.latest.index ≤ e.index
    have := c.latest_le_last; omega
  · show C09.SegsOK (s.log.append e roll)
    exact segsOK_append _ _ _ c.segs (fun hroll => by have := hr hroll; rw [← hle]; omega)
  · intro hb
    show s.commitIndex ≤ e.index
    have := hcl hb; omega

theorem inv_appendEntry {s : Node} (e : Entry) (h : Inv s₀ b s) : Inv s₀ b (s.appendEntry e) := by
  unfold Node.appendEntry
  dsimp only
  refine inv_appendRaw e _ (inv_assert _ _ h) (fun hp => ?_)
  have hb := assert_true hp
  obtain ⟨e1, e2, _⟩ := obs_eq (irr_assert s (e.index == s.lastLogIndex + 1) "assert.appendEntry").1
  rw [e1, e2]
  refine ⟨by simpa using hb, fun hroll => ?_⟩
  simp only [Bool.and_eq_true, bne_iff_ne, ne_eq] at hroll
  exact hroll.2

/-- `storage.appendEntry` when it did not panic: the entry was the next one -/
theorem appendEntry_ok {s : Node} {e : Entry} (hp : (s.appendEntry e).panicked = none) :
    e.index = s.lastLogIndex + 1 ∧ s.panicked = none := by
  have hp' : (s.assert (e.index == s.lastLogIndex + 1) "assert.appendEntry").panicked = none := hp
  exact ⟨by simpa using assert_true hp', (irr_assert _ _ _).2 hp'⟩

theorem inv_commitLog {s : Node} (n : Nat) (h : Inv s₀ b s) : Inv s₀ b (s.commitLog n) := by
  unfold Node.commitLog
  apply inv_point
  intro hp
  obtain ⟨c, hcl, m1, m2⟩ := h hp
  obtain ⟨e1, e2, e3⟩ := commitN_same s.log n
  refine ⟨⟨?_, ?_, c.snap_le_applied, c.applied_le_commit, c.committed_le_latest, c.latest_le_last, ?_,
    c.removeLTE_le, c.snapRes_le⟩, hcl, m1, m2⟩
  · show s.lastLogIndex = (s.log.commitN n).last
    unfold NLog.last; rw [e1, e2]; exact c.last_eq
  · show (s.log.commitN n).prev ≤ s.snapIndex
    rw [e1]; exact c.prev_le_snap
  · exact segsOK_of_same c.segs e1 e2 e3

/-- replacing the leader struct: the compaction bound must stay at or below the snapshot index -/
theorem inv_ldr {s : Node} {l : Leader} (h : Inv s₀ b s) (hl : s.panicked = none → l.removeLTE ≤ s.snapIndex) :
    Inv s₀ b (s.withLdr l) := by
  intro hp
  obtain ⟨c, hcl, m1, m2⟩ := h hp
  exact ⟨⟨c.last_eq, c.prev_le_snap, c.snap_le_applied, c.applied_le_commit, c.committed_le_latest,
    c.latest_le_last, c.segs, hl hp, c.snapRes_le⟩, hcl, m1, m2⟩

theorem config?_index {e : Entry} {c : Config} (h : e.config? = some c) : c.index = e.index := by
  unfold Entry.config? at h
  split at h
  · cases hc : e.cfg with
    | none => rw [hc] at h; cases h
    | some x => rw [hc] at h; injection h with h; rw [← h]
  · cases h

/-- `Raft.changeConfig`: the new configuration's index is at or above the latest one and within the log -/
theorem inv_changeConfigR {s : Node} (cfg : Config) (h : Inv s₀ b s)
    (hg : s.panicked = none → s.configs.latest.index ≤ cfg.index ∧ cfg.index ≤ s.lastLogIndex) :
    Inv s₀ b (s.changeConfigR cfg) := by
  unfold Node.changeConfigR
  dsimp only
  have key : ∀ x : Node, Irr s x →
      Inv s₀ b { x with configs := { committed := x.configs.latest, latest := cfg } } := by
    intro x hx hp
    have hp' : x.panicked = none := hp
    obtain ⟨c, hcl, m1, m2⟩ := hx.inv h hp'
    obtain ⟨e1, _, _, _, _, e6, _⟩ := obs_eq hx.1
    obtain ⟨g1, g2⟩ := hg (hx.2 hp')
    refine ⟨⟨c.last_eq, c.prev_le_snap, c.snap_le_applied, c.applied_le_commit, ?_, ?_, c.segs,
      c.removeLTE_le, c.snapRes_le⟩, hcl, m1, m2⟩
    · show x.configs.latest.index ≤ cfg.index
      rw [e6]; exact g1
    · show cfg.index ≤ x.lastLogIndex
      rw [e1]; exact g2
  split
  · exact key _ (irr_setLeader s 0)
  · exact key _ (Irr.refl s)

theorem inv_commitConfig {s : Node} (h : Inv s₀ b s) : Inv s₀ b s.commitConfig := by
  unfold Node.commitConfig
  dsimp only
  have key : ∀ x : Node, Irr s x →
      Inv s₀ b { x with configs := { x.configs with committed := x.configs.latest } } := by
    intro x hx hp
    have hp' : x.panicked = none := hp
    obtain ⟨c, hcl, m1, m2⟩ := hx.inv h hp'
    exact ⟨⟨c.last_eq, c.prev_le_snap, c.snap_le_applied, c.applied_le_commit, Nat.le_refl _,
      c.latest_le_last, c.segs, c.removeLTE_le, c.snapRes_le⟩, hcl, m1, m2⟩
  split
  · exact key _ (irr_setLeader s 0)
  · exact key _ (Irr.refl s)

theorem inv_revertConfig {s : Node} (h : Inv s₀ b s)
    (hg : s.panicked = none → s.configs.committed.index ≤ s.lastLogIndex) : Inv s₀ b s.revertConfig := by
  intro hp
  have hp' : s.panicked = none := hp
  obtain ⟨c, hcl, m1, m2⟩ := h hp'
  exact ⟨⟨c.last_eq, c.prev_le_snap, c.snap_le_applied, c.applied_le_commit, Nat.le_refl _,
    hg hp', c.segs, c.removeLTE_le, c.snapRes_le⟩, hcl, m1, m2⟩

theorem irr_afterConfigCommit (s : Node) : Irr s s.afterConfigCommit := by
  unfold Node.afterConfigCommit Node.closeIfRemoved Node.stepDownIfNotVoter
  repeat' split
  all_goals first
    | exact Irr.refl _
    | exact irr_doClose _ _
    | exact irr_setLeader _ _
    | exact (irr_setLeader _ _).trans (irr_doClose _ _)
    | exact ((irr_setRole _ _).trans (irr_setLeader _ _)).trans (irr_doClose _ _)
    | exact (irr_setRole _ _).trans (irr_setLeader _ _)

/-- moving the commit index: not below the applied index; `b'` says whether it stays within the log -/
theorem inv_withCommitIndex {s : Node} {b' : Bool} (i : Nat) (h : Inv s₀ b s)
    (hg : s.panicked = none → s.fsm.index ≤ i ∧ (b' = true → i ≤ s.lastLogIndex)) :
    Inv s₀ b' (s.withCommitIndex i) := by
  intro hp
  have hp' : s.panicked = none := hp
  obtain ⟨c, _, m1, m2⟩ := h hp'
  obtain ⟨g1, g2⟩ := hg hp'
  exact ⟨⟨c.last_eq, c.prev_le_snap, c.snap_le_applied, g1, c.committed_le_latest,
    c.latest_le_last, c.segs, c.removeLTE_le, c.snapRes_le⟩, g2, m1, m2⟩

theorem inv_setCommitIndexR {s : Node} {b' : Bool} (i : Nat) (h : Inv s₀ b s)
    (hg : s.panicked = none → s.fsm.index ≤ i ∧ (b' = true → i ≤ s.lastLogIndex)) :
    Inv s₀ b' (s.setCommitIndexR i).1 := by
  unfold Node.setCommitIndexR
  split
  · exact (irr_afterConfigCommit _).inv (inv_commitConfig (inv_withCommitIndex i h hg))
  · exact inv_withCommitIndex i h hg

theorem setCommitIndexR_panicked (s : Node) (i : Nat) : (s.setCommitIndexR i).1.panicked = s.panicked := by
  unfold Node.setCommitIndexR
  split
  · show (s.withCommitIndex i).commitConfig.stepDownIfNotVoter.closeIfRemoved.panicked = _
    unfold Node.closeIfRemoved Node.stepDownIfNotVoter Node.commitConfig Node.doClose
    dsimp only
    repeat' split
    all_goals rfl
  · rfl

/-! ## the FSM goroutine: `fsmApply` either panics or leaves `fsm.index = commitIndex ≤ log.last` -/

/-- a panic is never cleared by the handlers (only `begin` does) -/
theorem sticky_closed (s₀ : Node) : Closed (fun s => s.panicked = none → s₀.panicked = none) where
  panic := fun s site _ hp => absurd hp (panic_panicked_ne s site)
  reply := fun s t r h hp => h ((irr_reply s t r).2 hp)
  point := fun _ _ h hp => h hp
  ldr := fun _ _ h hp => h hp
  append := fun _ _ _ h hp => h hp
  commitN := fun _ _ h hp => h hp
  fsm := fun _ _ h hp => h hp
  changeConfigR := fun s c h hp => h (by rw [← (changeConfigR_fields s c).2.2.2.2.2.1]; exact hp)
  setCommitIndexR := fun s i h _ hp => h (by rw [← setCommitIndexR_panicked s i]; exact hp)
  popOrder := fun _ h hp => h hp

/-- what `fsmApply` does not touch -/
def obsF (s : Node) : Nat × NLog × Nat × Nat × Configs × Nat × Option SnapRes :=
  (s.lastLogIndex, s.log, s.snapIndex, s.commitIndex, s.configs, s.ldr.removeLTE, s.snapResult)

theorem fsmFrame_obsF : FsmFrame obsF :=
  ⟨fun s site => by unfold Node.panic; split <;> rfl, fun s t r => by unfold Node.reply; split <;> rfl,
   fun _ _ => rfl⟩

/-- the state `fsmApply` asserts on -/
def fsmMid (s : Node) (items : List QItem) : Node :=
  (s.fsmApplyLogTo ((match items with | [] => s.commitIndex + 1 | q :: _ => q.index) - 1)).fsmApplyItems items

theorem fsmApply_unfold (s : Node) (items : List QItem) :
    s.fsmApply items =
      if s.commitIndex > s.log.last then s.panic "logpanic.ViewAt"
      else if s.log.prev > s.commitIndex then s.panic "fsm.nilView"
      else (fsmMid s items).assert ((fsmMid s items).fsm.index == (fsmMid s items).commitIndex) "fsm.assertCommit" := rfl

theorem fsmApply_ok (s : Node) (items : List QItem) (hp : (s.fsmApply items).panicked = none) :
    s.panicked = none ∧ s.commitIndex ≤ s.log.last ∧ (s.fsmApply items).fsm.index = s.commitIndex ∧
    obsF (s.fsmApply items) = obsF s := by
  have hst := (sticky_closed s).fsmApply_inv s items (fun h => h) hp
  have hf := fsmFrame_obsF.fsmApply_eq s items
  refine ⟨hst, ?_, ?_, hf⟩
  · rw [fsmApply_unfold] at hp
    split at hp
    · exact absurd hp (panic_panicked_ne _ _)
    · omega
  · rw [fsmApply_unfold] at hp ⊢
    split at hp
    · exact absurd hp (panic_panicked_ne _ _)
    · rename_i h1
      rw [if_neg h1]
      split at hp
      · exact absurd hp (panic_panicked_ne _ _)
      · rename_i h2
        rw [if_neg h2]
        have hb := assert_true hp
        have hc : (fsmMid s items).commitIndex = s.commitIndex := by
          unfold fsmMid
          rw [fsmFrame_commitIndex.fsmApplyItems_eq, fsmFrame_commitIndex.fsmApplyLogTo_eq]
        obtain ⟨_, _, _, e4, _⟩ := obs_eq (irr_assert (fsmMid s items)
          ((fsmMid s items).fsm.index == (fsmMid s items).commitIndex) "fsm.assertCommit").1
        rw [e4, ← hc]
        simpa using hb

theorem inv_fsmApply {s : Node} (items : List QItem) (h : Inv s₀ b s) : Inv s₀ true (s.fsmApply items) := by
  intro hp
  obtain ⟨hs, hle, hfi, hf⟩ := fsmApply_ok s items hp
  obtain ⟨c, _, m1, m2⟩ := h hs
  simp only [obsF, Prod.mk.injEq] at hf
  obtain ⟨e1, e2, e3, e5, e6, e7, e8⟩ := hf
  have hsa := c.snap_le_applied
  have hac := c.applied_le_commit
  refine ⟨⟨by rw [e1, e2]; exact c.last_eq, by rw [e2, e3]; exact c.prev_le_snap, by rw [e3, hfi]; omega,
    by rw [hfi, e5]; exact Nat.le_refl _, by rw [e6]; exact c.committed_le_latest,
    by rw [e6, e1]; exact c.latest_le_last, by rw [e2]; exact c.segs, by rw [e7, e3]; exact c.removeLTE_le,
    by rw [e8, e3]; exact c.snapRes_le⟩, fun _ => ?_, by rw [hfi]; omega, by rw [e3]; exact m2⟩
  rw [e5, e1, c.last_eq]; exact hle

theorem inv_fsmApply' {s : Node} (items : List QItem) (h : Inv s₀ b s) : Inv s₀ b (s.fsmApply items) :=
  (inv_fsmApply items h).weaken

theorem inv_applyCommitted {s : Node} (h : Inv s₀ b s) : Inv s₀ true s.applyCommitted := inv_fsmApply [] h

theorem inv_applyCommittedL {s : Node} (h : Inv s₀ b s) : Inv s₀ true s.applyCommittedL := by
  unfold Node.applyCommittedL
  exact inv_fsmApply _ (inv_ldr_same h rfl)


/-! ## the mutually recursive leader block -/

theorem inv_setRepl {s : Node} (r : Repl) (h : Inv s₀ b s) : Inv s₀ b (s.setRepl r) := by
  unfold Node.setRepl; exact inv_ldr_same h rfl

theorem inv_addReplication {s : Node} (n : CNode) (h : Inv s₀ b s) : Inv s₀ b (s.addReplication n) := by
  unfold Node.addReplication
  apply inv_setRepl
  split
  · exact inv_assert _ _ h
  · exact inv_panic _ _

theorem inv_notifyFlr {s : Node} (h : Inv s₀ b s) : Inv s₀ b s.notifyFlr := by
  unfold Node.notifyFlr; split
  · exact h
  · split
    · exact h
    · exact inv_panic _ _

theorem inv_beginFinishedRounds {s : Node} (h : Inv s₀ b s) : Inv s₀ b s.beginFinishedRounds := by
  unfold Node.beginFinishedRounds; exact inv_ldr_same h rfl

theorem foldl_inv {β : Type} (f : Node → β → Node) (hf : ∀ s x, Inv s₀ b s → Inv s₀ b (f s x))
    (xs : List β) (s : Node) (hs : Inv s₀ b s) : Inv s₀ b (xs.foldl f s) := by
  induction xs generalizing s with
  | nil => exact hs
  | cons x xs ih => exact ih _ (hf _ _ hs)

/-- The leader block preserves the invariant, by induction on the recursion budget.
`changeConfigL` needs the new configuration to be the entry just appended; `setCommitIndexL` may leave the
commit index beyond the log (flag `false`), the `applyCommittedL` after it (in `onMajorityCommit`) repairs
that or panics. -/
theorem block (s₀ : Node) : ∀ fuel : Nat, ∀ b : Bool,
    (∀ s bt, Inv s₀ b s → Inv s₀ b (storeEntry fuel s bt)) ∧
    (∀ s bt, Inv s₀ b s → Inv s₀ b (storeItems fuel s bt)) ∧
    (∀ s c, Inv s₀ b s → (s.panicked = none → s.configs.latest.index ≤ c.index ∧ c.index ≤ s.lastLogIndex) →
      Inv s₀ b (changeConfigL fuel s c)) ∧
    (∀ s t c, Inv s₀ b s → Inv s₀ b (doChangeConfig fuel s t c)) ∧
    (∀ s t c, Inv s₀ b s → Inv s₀ b (checkConfigActions fuel s t c)) ∧
    (∀ s t c id, Inv s₀ b s → Inv s₀ b (checkConfigAction fuel s t c id)) ∧
    (∀ s i, Inv s₀ b s → i > s.commitIndex → Inv s₀ false (setCommitIndexL fuel s i)) ∧
    (∀ s, Inv s₀ b s → Inv s₀ b (onMajorityCommit fuel s)) := by
  intro fuel
  induction fuel with
  | zero =>
    intro b
    refine ⟨?_, ?_, ?_, ?_, ?_, ?_, ?_, ?_⟩ <;> intros <;> (try unfold storeItems) <;>
      (try unfold storeEntry) <;> (try unfold changeConfigL) <;> (try unfold doChangeConfig) <;>
      (try unfold checkConfigActions) <;> (try unfold checkConfigAction) <;>
      (try unfold setCommitIndexL) <;> (try unfold onMajorityCommit) <;>
      (try split) <;> first | assumption | exact inv_panic _ _
  | succ n ih =>
    intro b
    obtain ⟨ihSE, ihSI, ihCL, ihDC, ihCAs, ihCA, ihSC, ihMC⟩ := ih b
    obtain ⟨_, _, _, _, fCAs, _, _, _⟩ := ih false
    refine ⟨?_, ?_, ?_, ?_, ?_, ?_, ?_, ?_⟩
    · -- storeEntry
      intro s bt hs
      unfold storeEntry; dsimp only
      have h1 : Inv s₀ b (storeItems n s bt) := ihSI _ _ hs
      have h2 : Inv s₀ b (storeItems n s bt).applyCommittedL := (inv_applyCommittedL h1).weaken
      repeat' split
      all_goals first
        | exact ihMC _ (inv_notifyFlr (inv_beginFinishedRounds h2))
        | exact ihMC _ (inv_notifyFlr (inv_beginFinishedRounds h1))
        | exact inv_notifyFlr (inv_beginFinishedRounds h2)
        | exact inv_notifyFlr (inv_beginFinishedRounds h1)
        | exact h2
        | exact h1
    · -- storeItems
      intro s bt hs
      cases bt with
      | nil => unfold storeItems; exact hs
      | cons q qs =>
        unfold storeItems; dsimp only
        apply ihSI
        split
        · exact inv_reply _ _ hs
        · split
          · split
            · exact inv_reply _ _ hs
            · exact inv_reply _ _ hs
          · have h1 : Inv s₀ b (s.withLdr { s.ldr with queue := s.ldr.queue ++ [{ q with index := s.lastLogIndex + 1, term := s.term, cfg := q.cfg.map Config.payload }] }) :=
              inv_ldr_same hs rfl
            split
            · split
              · split
                · rename_i cfg hcfg
                  refine ihCL _ _ (inv_appendEntry _ h1) (fun hp => ?_)
                  have hidx := config?_index hcfg
                  have hll := (inv_appendEntry (s₀ := s₀) (b := b) _ h1 hp).1.latest_le_last
                  exact ⟨by rw [hidx]; exact hll, by rw [hidx]; exact Nat.le_refl _⟩
                · exact inv_panic _ _
              · exact inv_appendEntry _ h1
            · exact h1
    · -- changeConfigL
      intro s c hs hg
      unfold changeConfigL; dsimp only
      apply ihCAs
      apply foldl_inv
      · intro s x hs
        split
        · exact hs
        · split
          · exact inv_addReplication _ hs
          · exact inv_setRepl _ hs
      · exact inv_ldr_same (inv_changeConfigR c (inv_ldr_same hs rfl) (fun hp => hg hp)) rfl
    · -- doChangeConfig
      intro s t c hs
      unfold doChangeConfig; exact ihSE _ _ hs
    · -- checkConfigActions
      intro s t c hs
      unfold checkConfigActions; dsimp only
      apply foldl_inv
      · intro s x hs
        split
        · exact ihCA _ _ _ _ hs
        · exact hs
      · apply inv_popOrder
        split
        · split
          · exact ihDC _ _ _ hs
          · split
            · exact ihDC _ _ _ hs
            · exact inv_panic _ _
        · exact hs
    · -- checkConfigAction
      intro s t c id hs
      unfold checkConfigAction; dsimp only
      have h1 := fun r => inv_setRepl (s₀ := s₀) (b := b) (s := s) r hs
      repeat' split
      all_goals first | exact hs | exact h1 _ | exact ihDC _ _ _ (h1 _)
    · -- setCommitIndexL
      intro s i hs hi
      unfold setCommitIndexL
      extract_lets s1 ready r s2 s3
      have h1 : Inv s₀ b s1 := inv_commitLog i hs
      have h2 : Inv s₀ false s2 := inv_setCommitIndexR i h1 (fun hp => by
        have hc := (h1 hp).1.applied_le_commit
        have e : s1.commitIndex = s.commitIndex := rfl
        exact ⟨by omega, fun e => Bool.noConfusion e⟩)
      have h3 : Inv s₀ false s3 := by
        unfold s3; split
        · exact fCAs _ _ _ h2
        · exact h2
      split
      · split
        · exact inv_ldr_same (foldl_inv _ (fun s t hs => inv_reply _ _ hs) _ _ h3) rfl
        · exact fCAs _ _ _ h3
      · exact h3
    · -- onMajorityCommit
      intro s hs
      unfold onMajorityCommit; dsimp only
      have hc : ∀ site, (s.panic site).commitIndex = s.commitIndex := by
        intro site; unfold Node.panic; split <;> rfl
      split
      · split
        · rename_i hgt
          exact inv_notifyFlr (inv_applyCommittedL (ihSC _ _ hs hgt.1)).weaken
        · exact hs
      · split
        · rename_i hgt
          exact inv_notifyFlr (inv_applyCommittedL
            (ihSC _ _ (inv_panic (s₀ := s₀) (b := b) s _) (by rw [hc] at hgt; rw [hc]; exact hgt.1))).weaken
        · exact inv_panic _ _

theorem inv_storeEntry (f : Nat) {s : Node} (bt) (hs : Inv s₀ b s) : Inv s₀ b (storeEntry f s bt) :=
  (block s₀ f b).1 s bt hs
theorem inv_doChangeConfig (f : Nat) {s : Node} (t c) (hs : Inv s₀ b s) : Inv s₀ b (doChangeConfig f s t c) :=
  (block s₀ f b).2.2.2.1 s t c hs
theorem inv_checkConfigActions (f : Nat) {s : Node} (t c) (hs : Inv s₀ b s) : Inv s₀ b (checkConfigActions f s t c) :=
  (block s₀ f b).2.2.2.2.1 s t c hs
theorem inv_checkConfigAction (f : Nat) {s : Node} (t c id) (hs : Inv s₀ b s) :
    Inv s₀ b (checkConfigAction f s t c id) :=
  (block s₀ f b).2.2.2.2.2.1 s t c id hs
theorem inv_onMajorityCommit (f : Nat) {s : Node} (hs : Inv s₀ b s) : Inv s₀ b (onMajorityCommit f s) :=
  (block s₀ f b).2.2.2.2.2.2.2 s hs


/-! ## backward-step automation (the analogue of `inv_step` of Lemmas/StepInv.lean) -/

theorem inv_checkQuorum {s : Node} (hs : Inv s₀ b s) : Inv s₀ b s.checkQuorum := by
  unfold Node.checkQuorum; dsimp only
  repeat' split
  all_goals first
    | exact hs
    | exact inv_panic _ _
    | exact inv_setLeader _ (inv_setRole _ hs)
    | exact inv_setLeader _ (inv_setRole _ (inv_panic _ _))

theorem inv_transferReply {s : Node} (r : String) (hs : Inv s₀ b s) : Inv s₀ b (s.transferReply r) := by
  unfold Node.transferReply; exact inv_ldr_same (inv_reply _ _ hs) rfl

theorem inv_tryTransfer {s : Node} (hs : Inv s₀ b s) : Inv s₀ b s.tryTransfer := by
  unfold Node.tryTransfer; dsimp only
  have hp := inv_popOrder hs
  repeat' split
  all_goals first
    | exact hs
    | exact hp
    | exact inv_panic _ _
    | exact inv_ldr_same hs rfl
    | exact inv_ldr_same hp rfl
    | exact inv_ldr_same (inv_panic (s₀ := s₀) (b := b) _ _) rfl

theorem inv_onTransfer {s : Node} (t g : Nat) (hs : Inv s₀ b s) : Inv s₀ b (s.onTransfer t g) := by
  unfold Node.onTransfer; dsimp only
  split
  · exact inv_reply _ _ hs
  · exact inv_tryTransfer (inv_ldr_same hs rfl)

theorem inv_replyTransfer {s : Node} (r : String) (hs : Inv s₀ b s) : Inv s₀ b (s.replyTransfer r) := by
  unfold Node.replyTransfer; exact inv_checkConfigActions _ _ _ (inv_transferReply _ hs)

theorem inv_onTimeoutNowResult {s : Node} (src : Nat) (e : Bool) (r : Nat) (hs : Inv s₀ b s) :
    Inv s₀ b (s.onTimeoutNowResult src e r) := by
  unfold Node.onTimeoutNowResult
  extract_lets l0 t0 s1 s2 l1 t1
  have h0 : Inv s₀ b s1 := inv_ldr_same hs rfl
  have h2 : Inv s₀ b s2 := by
    unfold s2
    split
    · split
      · exact inv_setRepl _ h0
      · exact h0
    · exact inv_panic _ _
  split
  · split
    · exact inv_tryTransfer h2
    · exact h2
  · split
    · split
      · exact inv_replyTransfer _ h0
      · exact inv_tryTransfer h0
    · exact inv_ldr_same h0 rfl

theorem inv_leaderInit {s : Node} (hs : Inv s₀ b s) : Inv s₀ b s.leaderInit := by
  unfold Node.leaderInit; dsimp only
  apply inv_storeEntry
  apply inv_checkConfigActions
  apply foldl_inv
  · intro s x hs
    split
    · exact hs
    · exact inv_addReplication _ hs
  · exact inv_ldr (inv_assert _ _ hs) (fun hp => (inv_assert (s₀ := s₀) (b := b) _ _ hs hp).1.prev_le_snap)

theorem inv_leaderRelease {s : Node} (hs : Inv s₀ b s) : Inv s₀ b s.leaderRelease := by
  unfold Node.leaderRelease Node.leaderReleaseRest; dsimp only
  refine inv_ldr_same ?_ rfl
  apply foldl_inv _ (fun s t hs => inv_reply _ _ hs)
  apply foldl_inv _ (fun s t hs => inv_reply _ _ hs)
  repeat' split
  all_goals first
    | exact hs
    | exact inv_setLeader _ hs
    | exact inv_transferReply _ hs
    | exact inv_setLeader _ (inv_transferReply _ hs)

theorem inv_startElection {s : Node} (hs : Inv s₀ b s) : Inv s₀ b s.startElection := by
  unfold Node.startElection
  extract_lets s1 s2 s3 s4
  have h4 : Inv s₀ b s4 := inv_votesNeeded _ (inv_setVotedFor _ _ (inv_votesNeeded _ (inv_assert _ _ hs)))
  split
  · exact inv_setLeader _ (inv_setRole _ h4)
  · exact h4

theorem inv_onVoteResult {s : Node} (e : Bool) (t r : Nat) (hs : Inv s₀ b s) : Inv s₀ b (s.onVoteResult e t r) := by
  unfold Node.onVoteResult; dsimp only
  repeat' split
  all_goals first
    | exact hs
    | exact inv_setTerm _ (inv_setRole _ hs)
    | exact inv_setLeader _ (inv_setRole _ (inv_votesNeeded _ hs))
    | exact inv_votesNeeded _ hs

theorem inv_followerTimeout {s : Node} (hs : Inv s₀ b s) : Inv s₀ b s.followerTimeout := by
  unfold Node.followerTimeout; dsimp only
  split
  · exact inv_setRole _ (inv_setLeader _ hs)
  · exact inv_setLeader _ hs

theorem inv_releaseRole {s : Node} (r : Role) (hs : Inv s₀ b s) : Inv s₀ b (s.releaseRole r) := by
  unfold Node.releaseRole
  split
  · exact hs
  · exact inv_candTransfer _ hs
  · exact inv_leaderRelease hs

theorem inv_initRole {s : Node} (hs : Inv s₀ b s) : Inv s₀ b s.initRole := by
  unfold Node.initRole
  split
  · exact hs
  · exact inv_startElection hs
  · exact inv_leaderInit hs

theorem inv_settle (f : Nat) {s : Node} (c : Role) (hs : Inv s₀ b s) : Inv s₀ b (settle f s c) := by
  induction f generalizing s c with
  | zero => exact hs
  | succ n ih =>
    unfold settle
    split
    · exact hs
    · exact ih _ (inv_initRole (inv_releaseRole _ hs))

/-- One backward step on a goal `Inv s₀ b (…)`. -/
syntax "ord_step" : tactic
macro_rules
  | `(tactic| ord_step) => `(tactic| first
      | with_reducible assumption
      | with_reducible exact inv_panic _ _
      | with_reducible apply inv_ret
      | with_reducible apply inv_reply
      | with_reducible apply inv_point
      | with_reducible apply inv_assert
      | with_reducible apply inv_setRole
      | with_reducible apply inv_setLeader
      | with_reducible apply inv_setTerm
      | with_reducible apply inv_setVotedFor
      | with_reducible apply inv_doClose
      | with_reducible apply inv_votesNeeded
      | with_reducible apply inv_candTransfer
      | with_reducible apply inv_snapPending
      | with_reducible apply inv_rpcReply
      | with_reducible apply inv_popOrder
      | with_reducible apply inv_setRepl
      | with_reducible apply inv_notifyFlr
      | with_reducible apply inv_commitLog
      | with_reducible apply inv_appendEntry
      | with_reducible apply inv_fsmApply'
      | with_reducible apply inv_commitConfig
      | with_reducible apply inv_checkQuorum
      | with_reducible apply inv_tryTransfer
      | with_reducible apply inv_onTransfer
      | with_reducible apply inv_replyTransfer
      | with_reducible apply inv_transferReply
      | with_reducible apply inv_onTimeoutNowResult
      | with_reducible apply inv_startElection
      | with_reducible apply inv_onVoteResult
      | with_reducible apply inv_followerTimeout
      | with_reducible apply inv_storeEntry
      | with_reducible apply inv_doChangeConfig
      | with_reducible apply inv_checkConfigActions
      | with_reducible apply inv_checkConfigAction
      | with_reducible apply inv_onMajorityCommit
      | with_reducible apply inv_releaseRole
      | (with_reducible refine inv_ldr_same ?_ rfl)
      | split)

syntax "ord_auto" : tactic
macro_rules
  | `(tactic| ord_auto) => `(tactic| repeat' ord_step)

/-! ## handlers that need no hypothesis on the request -/

theorem inv_onVoteRequest {s : Node} (q : VoteReq) (hs : Inv s₀ b s) : Inv s₀ b (s.onVoteRequest q) := by
  unfold Node.onVoteRequest
  dsimp only
  ord_auto

theorem inv_onTimeoutNow {s : Node} (hs : Inv s₀ b s) : Inv s₀ b s.onTimeoutNow := by
  unfold Node.onTimeoutNow
  ord_auto

theorem inv_onTakeSnapshot {s : Node} (t th : Nat) (hs : Inv s₀ b s) : Inv s₀ b (s.onTakeSnapshot t th) := by
  unfold Node.onTakeSnapshot
  ord_auto

theorem inv_rejectEntries {s : Node} (bt : List QItem) (hs : Inv s₀ b s) : Inv s₀ b (s.rejectEntries bt) := by
  induction bt generalizing s with
  | nil => exact hs
  | cons q qs ih =>
    unfold Node.rejectEntries
    dsimp only
    repeat' (first | ord_step | apply ih)

theorem inv_onWaitForStable {s : Node} (t : Nat) (hs : Inv s₀ b s) : Inv s₀ b (s.onWaitForStable t) := by
  unfold Node.onWaitForStable
  ord_auto

theorem inv_rpcDone {s : Node} (a c : Bool) (hs : Inv s₀ b s) : Inv s₀ b (s.rpcDone a c) := by
  unfold Node.rpcDone
  ord_auto

theorem inv_onChangeConfig {s : Node} (t : Nat) (c : Config) (hs : Inv s₀ b s) : Inv s₀ b (s.onChangeConfig t c) := by
  unfold Node.onChangeConfig
  dsimp only
  ord_auto


/-! ## snapshots and compaction -/

theorem inv_snapResult {s : Node} (v : Option SnapRes) (h : Inv s₀ b s)
    (hg : s.panicked = none → ∀ rs, v = some rs → rs.index ≤ s.snapIndex) : Inv s₀ b (s.withSnapResult v) := by
  intro hp
  obtain ⟨c, hcl, m1, m2⟩ := h hp
  exact ⟨⟨c.last_eq, c.prev_le_snap, c.snap_le_applied, c.applied_le_commit, c.committed_le_latest,
    c.latest_le_last, c.segs, c.removeLTE_le, hg hp⟩, hcl, m1, m2⟩

/-- `snapshotSink.done`: the new snapshot index is between the old one and the applied index -/
theorem inv_publishSnapshot {s : Node} (f : SnapFile) (h : Inv s₀ b s)
    (hg : s.panicked = none → s.snapIndex ≤ f.index ∧ f.index ≤ s.fsm.index) : Inv s₀ b (s.publishSnapshot f) := by
  intro hp
  have hp' : s.panicked = none := hp
  obtain ⟨c, hcl, m1, m2⟩ := h hp'
  obtain ⟨g1, g2⟩ := hg hp'
  refine ⟨⟨c.last_eq, ?_, ?_, c.applied_le_commit, c.committed_le_latest,
    c.latest_le_last, c.segs, ?_, ?_⟩, hcl, m1, ?_⟩
  · show s.log.prev ≤ f.index
    have := c.prev_le_snap; omega
  · show f.index ≤ s.fsm.index
    exact g2
  · show s.ldr.removeLTE ≤ f.index
    have := c.removeLTE_le; omega
  · intro rs hrs
    show rs.index ≤ f.index
    have := c.snapRes_le rs hrs; omega
  · show s₀.snapIndex ≤ f.index
    omega

theorem inv_snapRun {s : Node} (h : Inv s₀ b s) : Inv s₀ b s.snapRun := by
  unfold Node.snapRun
  split
  · exact h
  · dsimp only
    have h0 := inv_snapPending (s₀ := s₀) (b := b) none h
    split
    · exact inv_snapResult _ h0 (fun _ rs hrs => by injection hrs with hrs; rw [← hrs]; exact Nat.zero_le _)
    · split
      · exact inv_snapResult _ h0 (fun _ rs hrs => by injection hrs with hrs; rw [← hrs]; exact Nat.zero_le _)
      · refine inv_snapResult _ (inv_publishSnapshot _ h0 (fun hp => ?_)) (fun _ rs hrs => ?_)
        · exact ⟨(h0 hp).1.snap_le_applied, Nat.le_refl _⟩
        · injection hrs with hrs; rw [← hrs]; exact Nat.le_refl _

/-- `Raft.compactLog` at or below the snapshot index -/
theorem inv_compactLog {s : Node} (i : Nat) (h : Inv s₀ b s) (hg : s.panicked = none → i ≤ s.snapIndex) :
    Inv s₀ b (s.compactLog i) := by
  unfold Node.compactLog
  apply inv_point
  intro hp
  have hp' : s.panicked = none := hp
  obtain ⟨c, hcl, m1, m2⟩ := h hp'
  obtain ⟨_, _, _, hor, hl, _, hk⟩ := C09.removeLTE_whole_segments s.log i c.segs
  have hi := hg hp'
  refine ⟨⟨?_, ?_, c.snap_le_applied, c.applied_le_commit, c.committed_le_latest,
    c.latest_le_last, hk, c.removeLTE_le, c.snapRes_le⟩, hcl, m1, m2⟩
  · show s.lastLogIndex = (s.log.removeLTE i).last
    rw [hl]; exact c.last_eq
  · show (s.log.removeLTE i).prev ≤ s.snapIndex
    have := c.prev_le_snap
    rcases hor with e | e <;> omega

theorem canLTE_le_of {l : NLog} (hok : C09.SegsOK l) {i n : Nat} (hp : l.prev ≤ n) (hi : i ≤ n) : l.canLTE i ≤ n := by
  rcases (C09.canLTE_bounds l i hok).2.2.2.1 with e | e <;> omega

theorem inv_onSnapshotTaken {s : Node} (h : Inv s₀ b s) : Inv s₀ b s.onSnapshotTaken := by
  cases hr : s.snapResult with
  | none => unfold Node.onSnapshotTaken; rw [hr]; exact h
  | some rs =>
    unfold Node.onSnapshotTaken
    rw [hr]
    dsimp -zeta only
    extract_lets s0 repls nowC0 canC0 nowC canC s1 src s2
    have h0 : Inv s₀ b s0 := inv_snapResult none h (fun _ rs hrs => by cases hrs)
    have hrs : s0.panicked = none → rs.index ≤ s0.snapIndex := fun hp => (h hp).1.snapRes_le rs hr
    split
    · exact inv_reply _ _ h0
    · apply inv_reply
      unfold s2
      split
      · have hb0 : nowC0 ≤ rs.index := C09.foldl_le_init _ (fun m r => by split <;> omega) _ _
        have hc0 : canC0 ≤ rs.index := C09.foldl_le_init _ (fun m r => by split <;> omega) _ _
        have hnow : s0.panicked = none → nowC ≤ s0.snapIndex := fun hp =>
          canLTE_le_of (h0 hp).1.segs (h0 hp).1.prev_le_snap (by have := hrs hp; omega)
        have hcan : s0.panicked = none → canC ≤ s0.snapIndex := fun hp =>
          canLTE_le_of (h0 hp).1.segs (h0 hp).1.prev_le_snap (by have := hrs hp; omega)
        have hs1 : Inv s₀ b s1 := by
          unfold s1; split
          · exact inv_compactLog _ h0 hnow
          · exact h0
        have e1 : s1.snapIndex = s0.snapIndex := by unfold s1; split <;> rfl
        have e2 : s1.panicked = s0.panicked := by unfold s1; split <;> rfl
        split
        · exact inv_notifyFlr (inv_ldr hs1 (fun hp => by rw [e1]; exact hcan (by rw [← e2]; exact hp)))
        · split
          · exact inv_notifyFlr (inv_ldr hs1 (fun hp => (hs1 hp).1.prev_le_snap))
          · exact hs1
      · exact h0

theorem inv_checkLogCompact {s : Node} (h : Inv s₀ b s) : Inv s₀ b s.checkLogCompact := by
  unfold Node.checkLogCompact
  split
  · exact h
  · exact inv_compactLog _ h (fun hp => (h hp).1.removeLTE_le)

theorem inv_replUpdLoop {s : Node} (f : UpdFlags) (us : List ReplUpdate) (hs : Inv s₀ b s) :
    Inv s₀ b (replUpdLoop s f us).1 := by
  induction us generalizing s f with
  | nil => exact hs
  | cons u us ih =>
    unfold replUpdLoop
    dsimp only
    repeat' (first | ord_step | apply ih)

theorem inv_checkReplUpdates {s : Node} (us : List ReplUpdate) (hs : Inv s₀ b s) : Inv s₀ b (s.checkReplUpdates us) := by
  unfold Node.checkReplUpdates
  dsimp only
  have hL : Inv s₀ b (replUpdLoop s {} us).1 := inv_replUpdLoop _ _ hs
  have hC : ∀ x, Inv s₀ b x → Inv s₀ b x.checkLogCompact := fun x hx => inv_checkLogCompact hx
  repeat' (first | ord_step | apply hC)

theorem inv_shutdown {s : Node} (hs : Inv s₀ b s) : Inv s₀ b s.shutdown := by
  unfold Node.shutdown
  dsimp only
  have h1 : ∀ x, Inv s₀ b x → Inv s₀ b x.snapRun := fun x hx => inv_snapRun hx
  have h2 : ∀ x, Inv s₀ b x → Inv s₀ b x.onSnapshotTaken := fun x hx => inv_onSnapshotTaken hx
  repeat' (first | ord_step | apply h1 | apply h2)

/-! ## bootstrap -/

theorem inv_withLast {s : Node} (i t : Nat) (h : Inv s₀ b s) (hg : s.panicked = none → s.lastLogIndex = i) :
    Inv s₀ b (s.withLast i t) := by
  intro hp
  have hp' : s.panicked = none := hp
  obtain ⟨c, hcl, m1, m2⟩ := h hp'
  have e := hg hp'
  refine ⟨⟨?_, c.prev_le_snap, c.snap_le_applied, c.applied_le_commit, c.committed_le_latest,
    ?_, c.segs, c.removeLTE_le, c.snapRes_le⟩, ?_, m1, m2⟩
  · show i = s.log.last
    rw [← e]; exact c.last_eq
  · show s.configs.latest.index ≤ i
    rw [← e]; exact c.latest_le_last
  · intro hb
    show s.commitIndex ≤ i
    rw [← e]; exact hcl hb

theorem inv_bootstrap {s : Node} (t : Nat) (cfg : Config) (hs : Inv s₀ b s) : Inv s₀ b (s.bootstrap t cfg) := by
  unfold Node.bootstrap
  dsimp only
  repeat' split
  all_goals first
    | exact inv_reply _ _ hs
    | skip
  apply inv_setRole
  apply inv_reply
  have hpre : Inv s₀ b (((s.appendEntry ({ cfg with index := 1, term := 1 } : Config).toEntry).commitLog 1).setTerm 1) :=
    inv_setTerm _ (inv_commitLog _ (inv_appendEntry _ hs))
  have hidx : (((s.appendEntry ({ cfg with index := 1, term := 1 } : Config).toEntry).commitLog 1).setTerm 1).lastLogIndex = 1 := by
    rw [(obs_eq (irr_setTerm _ 1).1).1]; rfl
  have hl : Inv s₀ b ((((s.appendEntry ({ cfg with index := 1, term := 1 } : Config).toEntry).commitLog 1).setTerm 1).withLast 1 1) :=
    inv_withLast 1 1 hpre (fun _ => hidx)
  exact inv_changeConfigR _ hl (fun hp => ⟨(hl hp).1.latest_le_last, Nat.le_refl _⟩)


/-! ## the follower's append-entries handler -/

/-- the entries are consecutive and start right after index `i` -/
def chainB : Nat → List Entry → Bool
  | _, [] => true
  | i, e :: es => e.index == i + 1 && chainB e.index es

theorem chainB_cons {i : Nat} {e : Entry} {es : List Entry} (h : chainB i (e :: es) = true) :
    e.index = i + 1 ∧ chainB e.index es = true := by
  simpa [chainB] using h

theorem chainB_gt : ∀ (es : List Entry) (i : Nat), chainB i es = true → ∀ e ∈ es, i < e.index := by
  intro es
  induction es with
  | nil => intro i _ e he; cases he
  | cons x xs ih =>
    intro i h e he
    obtain ⟨h1, h2⟩ := chainB_cons h
    rcases List.mem_cons.mp he with e1 | e1
    · rw [e1]; omega
    · have := ih x.index h2 e e1; omega

/-- What a correct leader guarantees about an append request, as far as the orderings are concerned:
the entries are consecutive after `prevLogIndex`, and an entry that *conflicts* with the log (an index the
log holds, above the snapshot, with another term) lies above the commit index and above the index of
`configs.committed`. -/
def AppendOk (s : Node) (q : AppendReq) : Prop :=
  chainB q.prevLogIndex q.entries = true ∧
  ∀ ne ∈ q.entries, ne.index ≤ s.lastLogIndex → s.snapIndex < ne.index → s.entryTerm? ne.index ≠ some ne.term →
    s.commitIndex < ne.index ∧ s.configs.committed.index < ne.index

instance (s : Node) (q : AppendReq) : Decidable (AppendOk s q) := by unfold AppendOk; infer_instance

/-- the state after `removeGTE i` (and possibly `revertConfig`) -/
theorem coreW_of_truncate {s x : Node} (c : CoreW s) (i : Nat) (hlog : x.log = s.log.removeGTE i)
    (hlast : x.lastLogIndex = i - 1) (hsnap : x.snapIndex = s.snapIndex) (hfsm : x.fsm.index = s.fsm.index)
    (hcommit : x.commitIndex = s.commitIndex) (hldr : x.ldr.removeLTE = s.ldr.removeLTE)
    (hres : x.snapResult = s.snapResult) (h1 : s.snapIndex < i) (h2 : i ≤ s.lastLogIndex)
    (h3 : x.configs.committed.index ≤ x.configs.latest.index) (h4 : x.configs.latest.index ≤ i - 1) : CoreW x := by
  have hp := c.prev_le_snap
  have hl := c.last_eq
  refine ⟨?_, ?_, by rw [hsnap, hfsm]; exact c.snap_le_applied, by rw [hfsm, hcommit]; exact c.applied_le_commit,
    h3, by rw [hlast]; exact h4, ?_, by rw [hldr, hsnap]; exact c.removeLTE_le, by rw [hres, hsnap]; exact c.snapRes_le⟩
  · rw [hlast, hlog, last_removeGTE _ _ (by omega) (by omega)]
  · rw [hlog, hsnap]; exact hp
  · rw [hlog]; exact segsOK_removeGTE _ _ c.segs (by omega) (by omega)

/-- "delete the conflicting entry and all that follow it": the entry must lie above the snapshot, the commit
index and the committed configuration -/
theorem inv_resolveConflict {s : Node} (ne : Entry) (pt : Nat) (h : Inv s₀ true s)
    (hg : s.panicked = none → ne.index ≤ s.lastLogIndex →
      s.snapIndex < ne.index ∧ s.commitIndex < ne.index ∧ s.configs.committed.index < ne.index) :
    Inv s₀ true (s.resolveConflict ne pt) := by
  unfold Node.resolveConflict
  split
  · rename_i hle
    split
    · exact inv_panic _ _
    · dsimp only
      split
      · intro hp
        have hp' : s.panicked = none := hp
        obtain ⟨c, _, m1, m2⟩ := h hp'
        obtain ⟨g1, g2, g3⟩ := hg hp' hle
        refine ⟨coreW_of_truncate (x := (s.removeGTE ne.index pt).revertConfig) c ne.index rfl rfl rfl rfl rfl rfl rfl
          g1 hle (Nat.le_refl _) ?_, fun _ => ?_, m1, m2⟩
        · show s.configs.committed.index ≤ ne.index - 1
          omega
        · show s.commitIndex ≤ ne.index - 1
          omega
      · rename_i hlat
        intro hp
        have hp' : s.panicked = none := hp
        obtain ⟨c, _, m1, m2⟩ := h hp'
        obtain ⟨g1, g2, g3⟩ := hg hp' hle
        have hlat' : ¬ ne.index ≤ s.configs.latest.index := hlat
        refine ⟨coreW_of_truncate (x := s.removeGTE ne.index pt) c ne.index rfl rfl rfl rfl rfl rfl rfl
          g1 hle c.committed_le_latest ?_, fun _ => ?_, m1, m2⟩
        · show s.configs.latest.index ≤ ne.index - 1
          omega
        · show s.commitIndex ≤ ne.index - 1
          omega
  · exact h

/-- the loop of `onAppendEntriesRequest` over consecutive entries -/
theorem inv_appendLoop (es : List Entry) : ∀ (st : AppLoop), Inv s₀ true st.s → chainB st.index es = true →
    (st.s.panicked = none → st.index ≤ st.s.lastLogIndex) →
    (st.s.panicked = none → ∀ ne ∈ es, ne.index ≤ st.s.lastLogIndex → st.s.snapIndex < ne.index →
      st.s.entryTerm? ne.index ≠ some ne.term →
      st.s.commitIndex < ne.index ∧ st.s.configs.committed.index < ne.index) →
    Inv s₀ true (appendLoop st es).s ∧
    ((appendLoop st es).s.panicked = none → (appendLoop st es).index ≤ (appendLoop st es).s.lastLogIndex) := by
  induction es with
  | nil => intro st hs _ hidx _; unfold appendLoop; exact ⟨hs, hidx⟩
  | cons ne rest ih =>
    intro st hs hch hidx hJ
    obtain ⟨hc1, hc2⟩ := chainB_cons hch
    have hrest : ∀ x ∈ rest, ne.index < x.index := chainB_gt rest ne.index hc2
    unfold appendLoop
    dsimp only
    split
    · exact ⟨hs, hidx⟩
    · split
      · rename_i hsn
        refine ih _ hs hc2 (fun hp => ?_) (fun hp x hx => hJ hp x (List.mem_cons_of_mem _ hx))
        obtain ⟨c, hcl, _, _⟩ := hs hp
        have h1 := c.snap_le_applied
        have h2 := c.applied_le_commit
        have h3 := hcl rfl
        show ne.index ≤ st.s.lastLogIndex
        omega
      · rename_i hsn
        split
        · rename_i hpres
          refine ih _ hs hc2 (fun _ => ?_) (fun hp x hx => hJ hp x (List.mem_cons_of_mem _ hx))
          simp only [Bool.and_eq_true, decide_eq_true_eq] at hpres
          exact hpres.1
        · rename_i hpres
          have h2 : Inv s₀ true ((st.s.resolveConflict ne st.term).appendEntry ne) := by
            refine inv_appendEntry ne (inv_resolveConflict ne st.term hs (fun hp hle => ?_))
            have hne : st.s.entryTerm? ne.index ≠ some ne.term := by
              intro he
              apply hpres
              simp only [Bool.and_eq_true, decide_eq_true_eq, beq_iff_eq]
              exact ⟨hle, he⟩
            have := hJ hp ne (List.mem_cons_self ..) hle (by omega) hne
            exact ⟨by omega, this.1, this.2⟩
          have e2 : ((st.s.resolveConflict ne st.term).appendEntry ne).lastLogIndex = ne.index := rfl
          split
          · split
            · rename_i cfg hcfg
              have hci := config?_index hcfg
              have e3 := (changeConfigR_fields ((st.s.resolveConflict ne st.term).appendEntry ne) cfg).2.1
              refine ih _ (inv_changeConfigR cfg h2 (fun hp => ?_)) hc2 (fun _ => ?_) (fun _ x hx hle => ?_)
              · have := (h2 hp).1.latest_le_last
                rw [e2] at this
                exact ⟨by rw [hci]; exact this, by rw [hci, e2]; exact Nat.le_refl _⟩
              · show ne.index ≤ _
                rw [e3, e2]; exact Nat.le_refl _
              · have := hrest x hx
                rw [e3, e2] at hle
                omega
            · exact ⟨h2, fun _ => Nat.le_of_eq e2.symm⟩
          · refine ih _ h2 hc2 (fun _ => Nat.le_of_eq e2.symm) (fun _ x hx hle => ?_)
            have := hrest x hx
            have hle' : x.index ≤ ne.index := hle
            omega

/-- what the pre-loop part of the handler may have changed: nothing of log / snapshot, and the commit
index and the committed configuration only up to `p` (= `prevLogIndex`) -/
def Pre (p : Nat) (s x : Node) : Prop :=
  x.log = s.log ∧ x.lastLogIndex = s.lastLogIndex ∧ x.snapIndex = s.snapIndex ∧
  x.commitIndex ≤ max s.commitIndex p ∧ x.configs.committed.index ≤ max s.configs.committed.index p

theorem Pre.of_irr {p : Nat} {s x : Node} (h : Irr s x) : Pre p s x := by
  obtain ⟨e1, e2, e3, _, e5, e6, _⟩ := obs_eq h.1
  exact ⟨e2, e1, e3, by rw [e5]; exact Nat.le_max_left _ _, by rw [e6]; exact Nat.le_max_left _ _⟩

theorem Pre.trans {p : Nat} {a b c : Node} (h1 : Pre p a b) (h2 : Pre p b c) : Pre p a c := by
  obtain ⟨a1, a2, a3, a4, a5⟩ := h1
  obtain ⟨b1, b2, b3, b4, b5⟩ := h2
  exact ⟨b1.trans a1, b2.trans a2, b3.trans a3, by omega, by omega⟩

theorem setCommitIndexR_pre (s : Node) (i : Nat) : Pre i s (s.setCommitIndexR i).1 := by
  unfold Node.setCommitIndexR
  split
  · rename_i hc
    obtain ⟨e1, e2, e3, _, e5, e6, _⟩ := obs_eq (irr_afterConfigCommit (s.withCommitIndex i).commitConfig).1
    obtain ⟨c1, c2, c3, _, c5, _, _, c8, _⟩ := commitConfig_other (s.withCommitIndex i)
    show Pre i s (s.withCommitIndex i).commitConfig.afterConfigCommit
    refine ⟨by rw [e2, c2]; rfl, by rw [e1, c3]; rfl, by rw [e3, c5]; rfl, ?_, ?_⟩
    · rw [e5, c8]; exact Nat.le_max_right _ _
    · rw [e6, c1]
      show s.configs.latest.index ≤ _
      have := hc.2
      omega
  · exact ⟨rfl, rfl, rfl, Nat.le_max_right _ _, Nat.le_max_left _ _⟩

theorem applyCommitted_pre (p : Nat) (s : Node) : Pre p s s.applyCommitted := by
  have hf := fsmFrame_obsF.applyCommitted_eq s
  simp only [obsF, Prod.mk.injEq] at hf
  obtain ⟨e1, e2, e3, e5, e6, _⟩ := hf
  exact ⟨e2, e1, e3, by rw [e5]; exact Nat.le_max_left _ _, by rw [e6]; exact Nat.le_max_left _ _⟩

theorem appendCheck_pre (s : Node) (q : AppendReq) : Pre q.prevLogIndex s (s.appendCheck q) := by
  unfold Node.appendCheck
  split
  · split
    · exact Pre.of_irr (irr_ret _ _)
    · extract_lets s1 plt
      have hI : Irr s s1 := by
        unfold s1; split
        · exact Irr.refl _
        · split
          · exact Irr.refl _
          · exact irr_panic _ _
      split
      · exact Pre.of_irr (hI.trans (irr_ret _ _))
      · split
        · exact (Pre.of_irr hI).trans (((setCommitIndexR_pre s1 q.prevLogIndex).trans
            (applyCommitted_pre _ _)).trans (Pre.of_irr (irr_ret _ _)))
        · exact Pre.of_irr (hI.trans (irr_ret _ _))
  · exact Pre.of_irr (irr_ret _ _)

theorem appendCheck_result (s : Node) (q : AppendReq) (h : (s.appendCheck q).result = 0) :
    q.prevLogIndex ≤ s.snapIndex ∨ q.prevLogIndex ≤ s.lastLogIndex := by
  unfold Node.appendCheck at h
  split at h
  · split at h
    · cases h
    · right; omega
  · left; omega

theorem inv_appendCheck {s : Node} (q : AppendReq) (h : Inv s₀ true s) : Inv s₀ true (s.appendCheck q) := by
  unfold Node.appendCheck
  split
  · split
    · exact inv_ret _ h
    · rename_i hnl
      extract_lets s1 plt
      have hI : Irr s s1 := by
        unfold s1; split
        · exact Irr.refl _
        · split
          · exact Irr.refl _
          · exact irr_panic _ _
      have h1 : Inv s₀ true s1 := hI.inv h
      split
      · exact inv_ret _ h1
      · split
        · rename_i hcc
          refine inv_ret _ (inv_applyCommitted (inv_setCommitIndexR (b' := true) _ h1 (fun hp => ?_)))
          obtain ⟨e1, _, _, _, _, _⟩ := obs_eq hI.1
          have := (h1 hp).1.applied_le_commit
          simp only [Node.canCommit, Bool.and_eq_true, decide_eq_true_eq] at hcc
          exact ⟨by omega, fun _ => by rw [e1]; omega⟩
        · exact inv_ret _ h1
  · exact inv_ret _ h

theorem inv_onAppendEntries {s : Node} (q : AppendReq) (h : Inv s₀ true s) (hok' : q.term < s.term ∨ AppendOk s q) :
    Inv s₀ true (s.onAppendEntries q) := by
  unfold Node.onAppendEntries
  split
  · exact inv_ret _ h
  · rename_i hterm
    have hok : AppendOk s q := by
      rcases hok' with h1 | h1
      · exact absurd h1 hterm
      · exact h1
    extract_lets s1 s2 s3 st s4 s4c s5
    have hI2 : Irr s s2 := by
      refine Irr.trans ?_ ((irr_setRole _ _).trans (irr_setLeader _ _))
      unfold s1; split
      · exact (irr_setTerm _ _).trans (irr_setRole _ _)
      · exact Irr.refl _
    have h3 : Inv s₀ true s3 := inv_appendCheck q (hI2.inv h)
    have hP : Pre q.prevLogIndex s s3 := (Pre.of_irr hI2).trans (appendCheck_pre s2 q)
    split
    · exact h3
    · rename_i hres
      have hres' : s3.result = 0 := by
        cases hr : s3.result with
        | zero => rfl
        | succ n => exact absurd (by rw [hr]; exact Nat.succ_ne_zero n) hres
      obtain ⟨p1, p2, p3, p4, p5⟩ := hP
      have hL := inv_appendLoop (s₀ := s₀) q.entries { s := s3, index := q.prevLogIndex, term := q.prevLogTerm }
        h3 hok.1 (fun hp => by
          obtain ⟨c, hcl, _, _⟩ := h3 hp
          have := c.snap_le_applied; have := c.applied_le_commit; have := hcl rfl
          obtain ⟨e1, _, e3, _⟩ := obs_eq (Irr.trans hI2 (Irr.refl s2)).1
          have hr := appendCheck_result s2 q hres'
          show q.prevLogIndex ≤ s3.lastLogIndex
          rw [p2]; rw [p3] at *; rw [p2] at *
          rw [e1, e3] at hr
          omega)
        (fun _ ne hne hle hsn hterm => by
          have hgt := chainB_gt _ _ hok.1 ne hne
          have hterm' : s.entryTerm? ne.index ≠ some ne.term := by
            unfold Node.entryTerm? at hterm ⊢
            rw [← p1]; exact hterm
          have := hok.2 ne hne (by rw [← p2]; exact hle) (by rw [← p3]; exact hsn) hterm'
          exact ⟨by show s3.commitIndex < ne.index; omega, by show s3.configs.committed.index < ne.index; omega⟩)
      have h4 : Inv s₀ true s4 := hL.1
      apply inv_ret
      unfold s5
      split
      · split
        · rename_i hcc
          refine inv_applyCommitted (inv_setCommitIndexR (b' := true) _ (inv_commitLog _ h4) (fun hp => ?_))
          have hidx : st.index ≤ s4.lastLogIndex := hL.2 hp
          have : s4c.fsm.index ≤ s4c.commitIndex :=
            (inv_commitLog (s₀ := s₀) (b := true) s4.lastLogIndex h4 hp).1.applied_le_commit
          simp only [Node.canCommit, Bool.and_eq_true, decide_eq_true_eq] at hcc
          exact ⟨by omega, fun _ => hidx⟩
        · exact inv_commitLog _ h4
      · exact h4


/-! ## install-snapshot -/

/-- the label of an installed snapshot is a configuration the snapshot covers -/
def InstallOk (q : InstallReq) : Prop := q.lastConfig.index ≤ q.lastIndex

instance (q : InstallReq) : Decidable (InstallOk q) := by unfold InstallOk; infer_instance

theorem irr_installPre (s : Node) (q : InstallReq) : Irr s (installPre s q) := by
  unfold installPre
  refine Irr.trans ?_ ((irr_setRole _ _).trans (irr_setLeader _ _))
  split
  · exact (irr_setTerm _ _).trans (irr_setRole _ _)
  · exact Irr.refl _

theorem discardTail_more (p : Node) (c : Config) :
    (C09.discardTail p c).ldr = p.ldr ∧ (C09.discardTail p c).snapResult = p.snapResult := by
  unfold C09.discardTail
  rw [commitConfig_eq, changeConfigR_eq, fsmRestore_eq]
  exact ⟨rfl, rfl⟩

/-- `fsmRestore` without a panic: the meta file of `snaps.index` was found -/
theorem fsmRestore_ok (x : Node) (hp : x.fsmRestore.panicked = none) :
    x.panicked = none ∧ x.fsmRestore.fsm.index = x.snapIndex := by
  by_cases h0 : x.snapIndex = 0
  · unfold Node.fsmRestore at hp; rw [if_pos h0] at hp; exact absurd hp (panic_panicked_ne _ _)
  · cases hf : x.snapsDisk.find? (·.index == x.snapIndex) with
    | none =>
      unfold Node.fsmRestore at hp; rw [if_neg h0, hf] at hp; exact absurd hp (panic_panicked_ne _ _)
    | some g =>
      obtain ⟨a, b⟩ := fsmRestore_fsm x g h0 hf
      refine ⟨by rw [← b]; exact hp, ?_⟩
      rw [a]
      have := List.find?_some hf
      simpa using this

theorem inv_onInstallSnap {s : Node} (q : InstallReq) (h : Inv s₀ true s)
    (hok' : q.term < s.term ∨ q.lastIndex ≤ s.commitIndex ∨ InstallOk q) :
    Inv s₀ true (s.onInstallSnap q) := by
  rw [onInstallSnap_eq]
  have hpre : Inv s₀ true (installPre s q) := (irr_installPre s q).inv h
  split
  · exact inv_ret _ h
  · rename_i hterm
    split
    · exact inv_ret _ hpre
    · rename_i hahead
      have hok : InstallOk q := by
        rcases hok' with h1 | h1 | h1
        · exact absurd h1 hterm
        · rw [(obs_eq (irr_installPre s q).1).2.2.2.2.1] at hahead
          exact absurd h1 hahead
        · exact h1
      split
      · exact inv_ret _ hpre
      · show Inv s₀ true (C09.discardTail ((installPre s q).publishSnapshot (C09.fileOf q)) q.lastConfig)
        intro hp
        obtain ⟨f1, f2, _, f4, _, f6, f7, _, _, f10, f11, _⟩ :=
          C09.discardTail_fields ((installPre s q).publishSnapshot (C09.fileOf q)) q.lastConfig
        obtain ⟨g1, g2⟩ := discardTail_more ((installPre s q).publishSnapshot (C09.fileOf q)) q.lastConfig
        rw [f11] at hp
        obtain ⟨hpp, hfi⟩ := fsmRestore_ok _ hp
        obtain ⟨d1, _, d3, _⟩ := C09.discardPre_fields (installPre s q) (C09.fileOf q)
        have hpp' : (installPre s q).panicked = none := by rw [← d1]; exact hpp
        have hfi' : ((installPre s q).publishSnapshot (C09.fileOf q)).clearLog.fsmRestore.fsm.index = q.lastIndex := by
          rw [hfi, d3]; rfl
        obtain ⟨c, hcl, m1, m2⟩ := hpre hpp'
        have hsnap : ((installPre s q).publishSnapshot (C09.fileOf q)).snapIndex = q.lastIndex := rfl
        have hldr : ((installPre s q).publishSnapshot (C09.fileOf q)).ldr = (installPre s q).ldr := rfl
        have hres : ((installPre s q).publishSnapshot (C09.fileOf q)).snapResult = (installPre s q).snapResult := rfl
        have a1 := c.snap_le_applied
        have a2 := c.applied_le_commit
        have a3 := c.removeLTE_le
        unfold InstallOk at hok
        refine ⟨⟨?_, ?_, ?_, ?_, ?_, ?_, ?_, ?_, ?_⟩, fun _ => ?_, ?_, ?_⟩
        · rw [f2, f1, hsnap]; rfl
        · rw [f1, f4, hsnap]; exact Nat.le_refl _
        · rw [f4, f10, hfi', hsnap]; exact Nat.le_refl _
        · rw [f10, f6, hfi', hsnap]; exact Nat.le_refl _
        · rw [f7]; exact Nat.le_refl _
        · rw [f7, f2, hsnap]; exact hok
        · rw [f1]; exact segsOK_reset _
        · rw [g1, hldr, f4, hsnap]; omega
        · intro rs hrs
          rw [g2, hres] at hrs
          have := c.snapRes_le rs hrs
          rw [f4, hsnap]; omega
        · rw [f6, f2]; exact Nat.le_refl _
        · rw [f10, hfi']; omega
        · rw [f4, hsnap]; omega

/-! ## every operation -/

/-- **What an incoming operation must satisfy** for the orderings to survive it. Only two operations need
anything, and only when the handler does not discard them by itself (stale term; an install request not ahead of
the commit index): an append request must carry consecutive entries and must not conflict with the log at or
below the commit index / the committed configuration (`AppendOk`), and the label of an installed snapshot must
not lie beyond the snapshot (`InstallOk`). -/
def ReqOk (s : Node) : Op → Prop
  | .append q => q.term < s.term ∨ AppendOk s q
  | .install q => q.term < s.term ∨ q.lastIndex ≤ s.commitIndex ∨ InstallOk q
  | _ => True

instance (s : Node) (op : Op) : Decidable (ReqOk s op) := by
  cases op <;> unfold ReqOk <;> infer_instance

theorem inv_handle {s : Node} (op : Op) (hs : Inv s₀ true s) (hr : ReqOk s op) : Inv s₀ true (s.handle op) := by
  cases op <;> unfold Node.handle <;> dsimp only
  case vote q => exact inv_rpcDone _ _ (inv_onVoteRequest _ hs)
  case append q => exact inv_rpcDone _ _ (inv_onAppendEntries _ hs hr)
  case install q => exact inv_rpcDone _ _ (inv_onInstallSnap _ hs hr)
  case timeoutNow => exact inv_rpcDone _ _ (inv_onTimeoutNow hs)
  case identity a b c => exact inv_rpcReply _ hs
  case disconnected n => ord_auto
  case timeout => ord_auto
  case newEntries bt => split; exact inv_storeEntry _ _ hs; exact inv_rejectEntries _ hs
  case changeConfig t c => split; exact inv_onChangeConfig _ _ hs; exact inv_bootstrap _ _ hs
  case takeSnapshot t th => exact inv_onTakeSnapshot _ _ hs
  case snapRun => exact inv_snapRun hs
  case snapTaken => exact inv_onSnapshotTaken hs
  case waitStable t => split; exact inv_onWaitForStable _ hs; exact inv_reply _ _ hs
  case transfer t g => ord_auto
  case voteResult e t r => ord_auto
  case replUpdates us => split; exact inv_checkReplUpdates _ hs; exact hs
  case transferTimeout => ord_auto
  case timeoutNowResult a b c => ord_auto
  case newTermTimeout => ord_auto
  case shutdown => exact inv_shutdown hs

theorem inv_begin {s : Node} (ra : List Nat) (ord : List (List Nat)) (ho : Ordered s) : Inv s true (s.begin ra ord) :=
  fun _ => ⟨ho.toCoreW.congr rfl, fun _ => ho.commit_le_last, Nat.le_refl _, Nat.le_refl _⟩

/-- **Composition**: one step from an ordered state, for an acceptable operation, keeps the invariant
relative to the state the step started from. -/
theorem inv_step {s : Node} (op : Op) (ra : List Nat) (ord : List (List Nat)) (ho : Ordered s) (hr : ReqOk s op) :
    Inv s true (s.step op ra ord) := by
  unfold Node.step
  dsimp only
  have hr' : ReqOk (s.begin ra ord) op := by cases op <;> exact hr
  have h1 := inv_handle op (inv_begin ra ord ho) hr'
  split
  · exact h1
  · exact inv_settle _ _ h1


end Order
end Raft
