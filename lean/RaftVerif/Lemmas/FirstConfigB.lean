/-
"Entry 1 of the log is a configuration, every snapshot file is labelled with a real configuration — in memory and at every
crash point" as an invariant of `Node.step` (instance of the two-level framework of Lemmas/FirstConfigA.lean).

* `First es`  : every entry of `es` with index 1 decodes as a configuration;
* `DiskF d`   : `First d.log.entries` and every snapshot file of `d` carries a real configuration (`config.index ≥ 1`);
* `GS Q s`    : `First s.log.entries`, `Q s`, `LabelsPos s.snapsDisk`, and `DiskF` of every crash point recorded so far
                (`s.trace`); `G Q s`: the same while the step has not panicked;
* `L = G QL`  : `QL s` = the log is not empty (`1 ≤ lastLogIndex`) — what holds INSIDE the leader handlers: a leader
                appends at `lastLogIndex + 1 ≥ 2` (the assertion of `storage.appendEntry`), never at index 1;
* `J = G QJ`  : `QJ s` = a node that is not a follower has `1 ≤ lastLogIndex`, and so has a node that is a voter of its
                latest configuration — what holds between handlers;
* `AS = GS True` : what an append request keeps UNCONDITIONALLY (panic or not) when its entry with index 1, if any, is a
                configuration.
The handlers that write a follower's log: `Raft.bootstrap` appends the configuration at index 1; `onInstallSnapRequest` (the
received label must be a real configuration, `PI`) resets the log; `onAppendEntriesRequest` — only the stale case is an
instance of the framework (`PA`), the general case is `append_step_as` below; the node ends as a follower. The snapshot
goroutine labels its file with the FSM's configuration, which must be a real one (`PS`).
-/
import RaftVerif.Lemmas.FirstConfigA
import RaftVerif.Lemmas.FsmConfigB
import RaftVerif.Lemmas.LogRel
import RaftVerif.Lemmas.Order
import RaftVerif.Props.C02

namespace Raft
namespace FirstCfg
open Node FsmCfg

/-- every entry with index 1 decodes as a configuration -/
def First (es : List Entry) : Prop := ∀ e ∈ es, e.index = 1 → e.config?.isSome = true

instance (es : List Entry) : Decidable (First es) := by unfold First; infer_instance

/-- a disk content: entry 1 of the log, if held, is a configuration; every snapshot file carries a real configuration -/
def DiskF (d : Durable) : Prop := First d.log.entries ∧ LabelsPos d.snaps

/-- every crash point recorded so far -/
def TR (s : Node) : Prop := ∀ p ∈ s.trace, DiskF p.2

structure GS (Q : Node → Prop) (s : Node) : Prop where
  first : First s.log.entries
  q : Q s
  labels : LabelsPos s.snapsDisk
  tr : TR s

def G (Q : Node → Prop) (s : Node) : Prop := s.panicked = none → GS Q s

def QL (s : Node) : Prop := 1 ≤ s.lastLogIndex
def QJ (s : Node) : Prop :=
  (s.role ≠ .follower → 1 ≤ s.lastLogIndex) ∧ (s.configs.latest.isVoter s.nid = true → 1 ≤ s.lastLogIndex)

abbrev L : Node → Prop := G QL
abbrev J : Node → Prop := G QJ
abbrev AS : Node → Prop := GS (fun _ => True)

/-- what `QL`, `QJ` look at -/
def obsQ (s : Node) : Nat × Role × Config × Nat := (s.lastLogIndex, s.role, s.configs.latest, s.nid)

/-- `Q` depends on `obsQ` only -/
def QC (Q : Node → Prop) : Prop := ∀ s s' : Node, obsQ s' = obsQ s → Q s → Q s'

theorem qc_QL : QC QL := by
  intro s s' e h
  simp only [obsQ, Prod.mk.injEq] at e
  unfold QL; rw [e.1]; exact h

theorem qc_QJ : QC QJ := by
  intro s s' e h
  simp only [obsQ, Prod.mk.injEq] at e
  obtain ⟨e1, e2, e3, e4⟩ := e
  unfold QJ; rw [e1, e2, e3, e4]; exact h

theorem qc_true : QC (fun _ => True) := fun _ _ _ _ => trivial

/-! ### `First` -/

theorem First.sub {es es' : List Entry} (h : First es) (hs : ∀ e ∈ es', e ∈ es) : First es' :=
  fun e he => h e (hs e he)

theorem First.append {es : List Entry} (h : First es) {e : Entry} (he : e.index = 1 → e.config?.isSome = true) :
    First (es ++ [e]) := by
  intro x hx
  rcases List.mem_append.mp hx with hx | hx
  · exact h x hx
  · rw [List.mem_singleton.mp hx]; exact he

theorem first_nil : First [] := fun e he => by cases he

/-! ### `GS`: the state-level lemmas (no condition on `panicked`) -/

variable {Q Q' : Node → Prop}

theorem GS.congr {s s' : Node} (h : GS Q s) (e1 : s'.log.entries = s.log.entries) (e2 : s'.snapsDisk = s.snapsDisk)
    (e3 : s'.trace = s.trace) (hq : Q' s') : GS Q' s' :=
  ⟨by rw [e1]; exact h.first, hq, by rw [e2]; exact h.labels, by unfold TR; rw [e3]; exact h.tr⟩

theorem GS.sub {s s' : Node} (h : GS Q s) (hl : ∀ e ∈ s'.log.entries, e ∈ s.log.entries)
    (e2 : s'.snapsDisk = s.snapsDisk) (e3 : s'.trace = s.trace) (hq : Q' s') : GS Q' s' :=
  ⟨h.first.sub hl, hq, by rw [e2]; exact h.labels, by unfold TR; rw [e3]; exact h.tr⟩

theorem GS.disk {s : Node} (h : GS Q s) : DiskF s.durable :=
  ⟨h.first.sub (fun e he => List.mem_of_mem_take (show e ∈ s.log.entries.take _ from he)), h.labels⟩

theorem GS.point {s : Node} (h : GS Q s) (n : String) (hq : Q' (s.point n)) : GS Q' (s.point n) := by
  refine ⟨h.first, hq, h.labels, ?_⟩
  intro p hp
  have hp' : p ∈ s.trace ++ [(n, s.durable)] := hp
  rcases List.mem_append.mp hp' with hp' | hp'
  · exact h.tr p hp'
  · rw [List.mem_singleton.mp hp']; exact h.disk

theorem GS.storeTermVote {s : Node} (h : GS Q s) (t c : Nat) (hq : Q' (s.storeTermVote t c)) :
    GS Q' (s.storeTermVote t c) := by
  revert hq
  unfold Node.storeTermVote
  dsimp only
  split
  · intro hq; exact h.congr rfl rfl rfl hq
  · intro hq
    have h1 : GS (fun _ => True) { s with durTerm := t, durVote := c } := h.congr rfl rfl rfl trivial
    have h2 := h1.point (Q' := fun _ => True) "value.set" trivial
    exact h2.congr rfl rfl rfl hq

theorem GS.snaps {s : Node} (h : GS Q s) (d : List SnapFile) (hd : LabelsPos d) (hq : Q' { s with snapsDisk := d }) :
    GS Q' { s with snapsDisk := d } := ⟨h.first, hq, hd, h.tr⟩

theorem labelsPos_insert {d : List SnapFile} (h : LabelsPos d) (f : SnapFile) (hf : 0 < f.config.index) :
    LabelsPos (insertSnap f d) := by
  intro g hg
  rcases FsmCfg.mem_insertSnap hg with e | e
  · rw [e]; exact hf
  · exact h g e

theorem GS.publish {s : Node} (h : GS Q s) (f : SnapFile) (hf : 0 < f.config.index) (hq : Q' (s.publishSnapshot f)) :
    GS Q' (s.publishSnapshot f) := by
  unfold Node.publishSnapshot at hq ⊢
  extract_lets s1 s2 at hq ⊢
  have h0 := h.snaps (Q' := fun _ => True) (insertSnap f s.snapsDisk) (labelsPos_insert h.labels f hf) trivial
  have h1 : GS (fun _ => True) s1 := h0.point "snap.publish" trivial
  have h2 : GS (fun _ => True) s2 := h1.congr rfl rfl rfl trivial
  have h3 := h2.snaps (Q' := fun _ => True) (s2.snapsDisk.take s2.retain)
    (fun g hg => h2.labels g (List.mem_of_mem_take hg)) trivial
  exact h3.point "snap.retain" hq

/-! ### `G`: while the step has not panicked -/

theorem g_panic (s : Node) (site : String) : G Q (s.panic site) := fun hp => absurd hp (panic_panicked_ne s site)

/-- what `G Q` looks at -/
def obsG (s : Node) : List Entry × List SnapFile × List (String × Durable) × (Nat × Role × Config × Nat) :=
  (s.log.entries, s.snapsDisk, s.trace, obsQ s)

theorem G.irr (hQ : QC Q) {s s' : Node} (h : G Q s) (e : obsG s' = obsG s)
    (hp : s'.panicked = none → s.panicked = none) : G Q s' := by
  intro hp'
  simp only [obsG, Prod.mk.injEq] at e
  obtain ⟨e1, e2, e3, e4⟩ := e
  have := h (hp hp')
  exact this.congr e1 e2 e3 (hQ _ _ e4 this.q)

/-- log entries, last index, snapshot files, crash points: what `L` looks at -/
def obsL (s : Node) : List Entry × Nat × List SnapFile × List (String × Durable) :=
  (s.log.entries, s.lastLogIndex, s.snapsDisk, s.trace)

theorem L.irr {s s' : Node} (h : L s) (e : obsL s' = obsL s) (hp : s'.panicked = none → s.panicked = none) : L s' := by
  intro hp'
  simp only [obsL, Prod.mk.injEq] at e
  obtain ⟨e1, e2, e3, e4⟩ := e
  have := h (hp hp')
  exact this.congr e1 e3 e4 (by show 1 ≤ s'.lastLogIndex; rw [e2]; exact this.q)

theorem obsL_of_core {s s' : Node} (e : LogRel.Core s' = LogRel.Core s) : obsL s' = obsL s := by
  unfold LogRel.Core at e
  simp only [Prod.mk.injEq] at e
  obtain ⟨e1, e2, _, _, e5, _, _, e8⟩ := e
  unfold obsL; rw [e1, e2, e5, e8]

theorem G.point (hQ : QC Q) {s : Node} (h : G Q s) (n : String) : G Q (s.point n) := by
  intro hp
  have := h hp
  exact this.point n (hQ s _ rfl this.q)

theorem obsQ_storeTermVote (s : Node) (t c : Nat) : obsQ (s.storeTermVote t c) = obsQ s := by
  unfold Node.storeTermVote Node.point; dsimp only; split <;> rfl

theorem G.storeTermVote (hQ : QC Q) {s : Node} (h : G Q s) (t c : Nat) : G Q (s.storeTermVote t c) := by
  intro hp
  have := h ((Order.irr_storeTermVote s t c).2 hp)
  exact this.storeTermVote t c (hQ _ _ (obsQ_storeTermVote s t c) this.q)

theorem G.setTerm (hQ : QC Q) {s : Node} (h : G Q s) (t : Nat) : G Q (s.setTerm t) := by
  unfold Node.setTerm
  repeat' split
  all_goals first | exact h.storeTermVote hQ _ _ | exact g_panic _ _ | exact h

theorem G.setVotedFor (hQ : QC Q) {s : Node} (h : G Q s) (t c : Nat) : G Q (s.setVotedFor t c) := by
  unfold Node.setVotedFor
  repeat' split
  all_goals first | exact h.storeTermVote hQ _ _ | exact g_panic _ _ | exact h

theorem G.sub (hQ : QC Q) {s s' : Node} (h : G Q s) (hl : ∀ e ∈ s'.log.entries, e ∈ s.log.entries)
    (e2 : s'.snapsDisk = s.snapsDisk) (e3 : s'.trace = s.trace) (e4 : obsQ s' = obsQ s)
    (hp : s'.panicked = none → s.panicked = none) : G Q s' := by
  intro hp'
  have := h (hp hp')
  exact this.sub hl e2 e3 (hQ _ _ e4 this.q)

theorem G.publish (hQ : QC Q) {s : Node} (h : G Q s) (f : SnapFile) (hf : 0 < f.config.index) :
    G Q (s.publishSnapshot f) := by
  intro hp
  have hp0 : s.panicked = none := hp
  have := h hp0
  exact this.publish f hf (hQ s _ rfl this.q)

theorem obsG_reply (s : Node) (t : Nat) (r : String) : obsG (s.reply t r) = obsG s := by
  unfold Node.reply; split <;> rfl

theorem obsG_doClose (s : Node) (r : String) : obsG (s.doClose r) = obsG s := by
  unfold Node.doClose; split <;> rfl

theorem fsmFrame_obsL : FsmFrame obsL :=
  ⟨fun s site => by unfold Node.panic; split <;> rfl, fun s t r => by unfold Node.reply; split <;> rfl,
   fun _ _ => rfl⟩

/-! ### the leader level -/

theorem gs_appendEntry {s : Node} (e : Entry) (h : GS Q s) (he : e.index = 1 → e.config?.isSome = true)
    (hq : Q' (s.appendEntry e)) : GS Q' (s.appendEntry e) := by
  obtain ⟨⟨roll, e1⟩, _⟩ := appendEntry_fields s e
  have c := LogRel.core_assert s (e.index == s.lastLogIndex + 1) "assert.appendEntry"
  have o := obsL_of_core c
  simp only [obsL, Prod.mk.injEq] at o
  refine ⟨?_, hq, ?_, ?_⟩
  · rw [e1, (LogRel.append_parts s.log e roll).2]
    exact h.first.append he
  · show LabelsPos (s.assert _ _).snapsDisk
    rw [o.2.2.1]; exact h.labels
  · show ∀ p ∈ (s.assert _ _).trace, _
    rw [o.2.2.2]; exact h.tr

theorem appendEntry_ok {s : Node} {e : Entry} (hp : (s.appendEntry e).panicked = none) :
    e.index = s.lastLogIndex + 1 ∧ s.panicked = none := by
  have hp1 : (s.assert (e.index == s.lastLogIndex + 1) "assert.appendEntry").panicked = none := hp
  have hb : (e.index == s.lastLogIndex + 1) = true := Order.assert_true hp1
  exact ⟨by simpa using hb, (Order.irr_assert s _ _).2 hp1⟩

theorem l_appendEntry {s : Node} (e : Entry) (h : L s) : L (s.appendEntry e) := by
  intro hp
  obtain ⟨he, hp0⟩ := appendEntry_ok hp
  have := h hp0
  have hl : 1 ≤ s.lastLogIndex := this.q
  exact gs_appendEntry e this (fun h1 => by omega) (by show 1 ≤ e.index; omega)

theorem l_closed : FClosed L where
  panic := fun s site _ => g_panic s site
  reply := fun s t r h => h.irr (obsL_of_core (LogRel.core_reply s t r)) (Order.irr_reply s t r).2
  point := fun _ n h => h.point qc_QL n
  ldr := fun _ _ h => h.irr rfl id
  appendEntry := fun _ e h => l_appendEntry e h
  commitN := fun s n h => h.irr (by unfold obsL; dsimp only; rw [(Order.commitN_same s.log n).2.1]) id
  fsmLog := fun s n h => h.irr (fsmFrame_obsL.fsmApplyLogTo_eq s n)
    (fun hp => (Order.sticky_closed s).fsmApplyLogTo_inv s n (fun x => x) hp)
  fsmItems := fun s qs h => h.irr (fsmFrame_obsL.fsmApplyItems_eq s qs)
    (fun hp => (Order.sticky_closed s).fsmApplyItems_inv s qs (fun x => x) hp)
  changeConfigR := fun s c h => h.irr (obsL_of_core (LogRel.core_changeConfigR s c))
    (fun hp => by rw [← (changeConfigR_fields s c).2.2.2.2.2.1]; exact hp)
  setCommitIndexR := fun s i h _ => h.irr (obsL_of_core (LogRel.core_setCommitIndexR s i))
    (fun hp => by rw [← Order.setCommitIndexR_panicked s i]; exact hp)
  popOrder := fun _ h => h.irr rfl id

/-! ### the handlers that write a follower's log, and the snapshot goroutine -/

theorem toEntry_config (c : Config) : c.toEntry.config?.isSome = true := by
  unfold Config.toEntry Entry.config?
  simp

theorem l_of_j_append {s : Node} (e : Entry) (h : J s) (he : e.config?.isSome = true) : L (s.appendEntry e) := by
  intro hp
  obtain ⟨hi, hp0⟩ := appendEntry_ok hp
  exact gs_appendEntry e (h hp0) (fun _ => he) (by show 1 ≤ e.index; omega)

theorem j_of_l {s : Node} (h : L s) : J s := fun hp =>
  let g := h hp; ⟨g.first, ⟨fun _ => g.q, fun _ => g.q⟩, g.labels, g.tr⟩

theorem j_bootstrap (s : Node) (t : Nat) (c : Config) (h : J s) : J (s.bootstrap t c) := by
  have hr : ∀ x r, J x → J (x.reply t r) := fun x r hx => hx.irr qc_QJ (obsG_reply x t r) (Order.irr_reply x t r).2
  unfold Node.bootstrap
  split
  · exact hr _ _ h
  · split
    · exact hr _ _ h
    · split
      · exact hr _ _ h
      · split
        · exact hr _ _ h
        · split
          · exact hr _ _ h
          · extract_lets c1 s1 s2 s3 s4 s5 s6
            have h1 : L s1 := l_of_j_append _ h (toEntry_config c1)
            have h2 : L s2 := l_closed.commitLog_inv _ _ h1
            have h3 : L s3 := h2.setTerm qc_QL 1
            have h4 : L s4 := fun hp => (h3 hp).congr rfl rfl rfl (Nat.le_refl 1)
            have h5 : L s5 := l_closed.changeConfigR _ _ h4
            have h6 : L s6 := l_closed.reply _ _ _ h5
            exact j_of_l (h6.irr rfl id)

theorem fsmRestore_frame (s : Node) :
    obsL s.fsmRestore = obsL s ∧ (s.fsmRestore.panicked = none → s.panicked = none) := by
  unfold Node.fsmRestore Node.withFsm
  repeat' split
  all_goals first
    | exact ⟨rfl, id⟩
    | exact ⟨obsL_of_core (LogRel.core_panic _ _), fun hp => absurd hp (panic_panicked_ne _ _)⟩

/-- what is asked of an install request: stale, or labelled with a real configuration -/
def PI (s : Node) (q : InstallReq) : Prop := q.term < s.term ∨ 0 < q.lastConfig.index

theorem j_roleF {s : Node} (h : J s) : J (s.setRole .follower) := fun hp =>
  let g := h hp; ⟨g.first, ⟨fun hne => absurd rfl hne, g.q.2⟩, g.labels, g.tr⟩

theorem j_install (s : Node) (q : InstallReq) (h : J s) (hq : PI s q) : J (s.onInstallSnap q) := by
  unfold Node.onInstallSnap
  split
  · exact h.irr qc_QJ rfl id
  · rename_i hnst
    have hlab : 0 < q.lastConfig.index := hq.resolve_left hnst
    extract_lets s1 s2 s3 s4 s5 s6 s7
    have h1 : J s1 := by
      unfold s1; split
      · exact j_roleF (h.setTerm qc_QJ q.term)
      · exact h
    have h2 : J s2 := (j_roleF h1).irr qc_QJ rfl id
    split
    · exact h2.irr qc_QJ rfl id
    · rename_i hgt
      have hpos : 1 ≤ q.lastIndex := by
        have : ¬ q.lastIndex ≤ s2.commitIndex := hgt
        omega
      split
      · exact h2.irr qc_QJ rfl id
      · have h3 : J s3 := h2.publish qc_QJ _ hlab
        have h4 : L s4 := by
          intro hp
          have g := h3 hp
          have hpos' : 1 ≤ s3.snapIndex := hpos
          show GS QL (Node.clearLog s3)
          unfold Node.clearLog
          refine GS.point (Q := QL) ?_ "clearLog" hpos'
          exact ⟨first_nil, hpos', g.labels, g.tr⟩
        have h5 : L s5 := h4.irr (fsmRestore_frame s4).1 (fsmRestore_frame s4).2
        have h6 : L s6 := h5.irr rfl id
        have h7 : L s7 := l_closed.changeConfigR _ _ h6
        have h8 : L s7.commitConfig := h7.irr (obsL_of_core (LogRel.core_commitConfig s7))
          (fun hp => by rw [← (commitConfig_other s7).2.2.2.2.2.2.2.2.2.2]; exact hp)
        exact j_of_l (h8.irr rfl id)

/-- what is asked of a state in which the snapshot goroutine runs: a state machine beyond the snapshot holds a real
configuration -/
def PS (s : Node) : Prop := s.fsm.index ≠ s.snapIndex → 0 < s.fsm.config.index

theorem j_publish_result (s : Node) (f : SnapFile) (h : J s) (hf : 0 < f.config.index) (r : Option SnapRes) :
    J ((s.publishSnapshot f).withSnapResult r) := by
  have h2 : J (s.publishSnapshot f) := h.publish qc_QJ f hf
  exact fun hp => (h2 hp).congr rfl rfl rfl (qc_QJ _ _ rfl (h2 hp).q)

theorem j_snapRun (s : Node) (h : J s) (hps : PS s) : J s.snapRun := by
  unfold Node.snapRun
  split
  · exact h
  · rename_i rq hrq
    dsimp only
    split
    · exact h.irr qc_QJ rfl id
    · split
      · exact h.irr qc_QJ rfl id
      · rename_i hne hmin
        have hcfg : 0 < s.fsm.config.index := hps hne
        have h1 : J (s.withSnapPending none) := h.irr qc_QJ rfl id
        have hcfg' : (s.withSnapPending none).fsm.config.index > 0 := hcfg
        rw [if_pos hcfg']
        exact j_publish_result _ _ h1 hcfg' _

/-- what the framework asks of an append request: only the stale ones go through it -/
def PA (s : Node) (q : AppendReq) : Prop := q.term < s.term

theorem g_closed : TwoClosed PA PI PS L J where
  toFClosed := l_closed
  down := fun _ h => j_of_l h
  up := fun _ h hr hp => let g := h hp; ⟨g.first, g.q.1 hr, g.labels, g.tr⟩
  lRole := fun _ _ h => h.irr rfl id
  lLeader := fun _ _ h => h.irr rfl id
  lTerm := fun _ t h => h.setTerm qc_QL t
  lRemoveLTE := fun s i h => h.sub qc_QL (fun e he => List.mem_of_mem_drop (show e ∈ s.log.entries.drop _ from he))
    rfl rfl rfl id
  jpanic := fun s site _ => g_panic s site
  jreply := fun s t r h => h.irr qc_QJ (obsG_reply s t r) (Order.irr_reply s t r).2
  jpoint := fun _ n h => h.point qc_QJ n
  jldr := fun _ _ h => h.irr qc_QJ rfl id
  jrpcReply := fun _ _ h => h.irr qc_QJ rfl id
  jret := fun _ _ h => h.irr qc_QJ rfl id
  jLeader := fun _ _ h => h.irr qc_QJ rfl id
  jdoClose := fun s r h => h.irr qc_QJ (obsG_doClose s r) (Order.irr_doClose s r).2
  jTerm := fun _ t h => h.setTerm qc_QJ t
  jVotedFor := fun _ t c h => h.setVotedFor qc_QJ t c
  jvotesNeeded := fun _ _ h => h.irr qc_QJ rfl id
  jcandTransfer := fun _ _ h => h.irr qc_QJ rfl id
  jRemoveLTE := fun s i h => h.sub qc_QJ (fun e he => List.mem_of_mem_drop (show e ∈ s.log.entries.drop _ from he))
    rfl rfl rfl id
  jsnapPending := fun _ _ h => h.irr qc_QJ rfl id
  jsnapResult := fun _ _ h => h.irr qc_QJ rfl id
  jsnapRun := fun s h hps => j_snapRun s h hps
  jRoleF := fun _ h => j_roleF h
  jRoleC := fun _ h hv hp => let g := h hp; ⟨g.first, ⟨fun _ => g.q.2 hv, g.q.2⟩, g.labels, g.tr⟩
  jbootstrap := fun s t c h => j_bootstrap s t c h
  jappend := fun s q h hq => by rw [C04.stale_append_refused s q hq]; exact h.irr qc_QJ rfl id
  jinstall := fun s q h hq => j_install s q h hq

/-- **`J` after every step** other than an append request that is not stale, from a state satisfying `First`, `QJ`,
`LabelsPos` (the crash points recorded are those of this step) -/
theorem j_step (s : Node) (op : Op) (ra : List Nat) (ord : List (List Nat)) (hf : First s.log.entries) (hq : QJ s)
    (hl : LabelsPos s.snapsDisk) (hop : TwoOpOk PA PI PS (s.begin ra ord) op) : J (s.step op ra ord) :=
  g_closed.step_j s op ra ord (fun _ => ⟨hf, hq, hl, fun p hp => by cases hp⟩) hop

/-! ### an append request that is not stale -/

theorem as_core {s s' : Node} (h : AS s) (e : LogRel.Core s' = LogRel.Core s) : AS s' := by
  have o := obsL_of_core e
  simp only [obsL, Prod.mk.injEq] at o
  exact h.congr o.1 o.2.2.1 o.2.2.2 trivial

theorem as_resolveConflict {s : Node} (h : AS s) (ne : Entry) (pt : Nat) : AS (s.resolveConflict ne pt) := by
  unfold Node.resolveConflict
  split
  · split
    · exact as_core h (LogRel.core_panic _ _)
    · dsimp only
      have h1 : AS (s.removeGTE ne.index pt) := by
        unfold Node.removeGTE
        have h0 : AS { s with log := s.log.removeGTE ne.index, lastLogIndex := ne.index - 1, lastLogTerm := pt } :=
          h.sub (fun e he => List.mem_of_mem_take (show e ∈ s.log.entries.take _ from he)) rfl rfl trivial
        exact h0.point "removeGTE" trivial
      split
      · exact h1.congr rfl rfl rfl trivial
      · exact h1
  · exact h

theorem as_appendLoop (es : List Entry) : ∀ (st : AppLoop), AS st.s → First es → AS (appendLoop st es).s := by
  induction es with
  | nil => intro st h _; exact h
  | cons ne rest ih =>
    intro st h hes
    have hrest : First rest := hes.sub (fun e he => List.mem_cons_of_mem _ he)
    have hne : ne.index = 1 → ne.config?.isSome = true := hes ne (List.mem_cons_self ..)
    unfold appendLoop
    split
    · exact h
    · dsimp only
      split
      · exact ih _ h hrest
      · split
        · exact ih _ h hrest
        · have h1 : AS ((st.s.resolveConflict ne st.term).appendEntry ne) :=
            gs_appendEntry ne (as_resolveConflict h ne st.term) hne trivial
          split
          · split
            · exact ih _ (as_core h1 (LogRel.core_changeConfigR _ _)) hrest
            · exact h1
          · exact ih _ h1 hrest

theorem as_commitLog {s : Node} (h : AS s) (n : Nat) : AS (s.commitLog n) := by
  unfold Node.commitLog
  have h0 : AS { s with log := s.log.commitN n } :=
    h.congr (Order.commitN_same s.log n).2.1 rfl rfl trivial
  exact h0.point "commitLog" trivial

theorem as_obsL {s s' : Node} (h : AS s) (e : obsL s' = obsL s) : AS s' := by
  simp only [obsL, Prod.mk.injEq] at e
  exact h.congr e.1 e.2.2.1 e.2.2.2 trivial

theorem as_commitApply {s : Node} (h : AS s) (i : Nat) : AS (s.setCommitIndexR i).1.applyCommitted :=
  as_obsL (as_core h (LogRel.core_setCommitIndexR s i)) (fsmFrame_obsL.applyCommitted_eq _)

theorem as_onAppendEntries (s : Node) (q : AppendReq) (h : AS s) (hq : First q.entries) : AS (s.onAppendEntries q) := by
  unfold Node.onAppendEntries
  split
  · exact h.congr rfl rfl rfl trivial
  · extract_lets s1 s2 s3 st s4 s6 s5
    have h1 : AS s1 := by
      unfold s1; split
      · have : AS (s.setTerm q.term) := by
          unfold Node.setTerm
          repeat' split
          all_goals first
            | exact h.storeTermVote _ _ trivial
            | exact as_core h (LogRel.core_panic _ _)
            | exact h
        exact this.congr rfl rfl rfl trivial
      · exact h
    have h2 : AS s2 := h1.congr rfl rfl rfl trivial
    have h3 : AS s3 := as_core h2 (congrArg Prod.fst (CommitRel.appendCheck_fobs s2 q).1)
    split
    · exact h3
    · have h4 : AS s4 := as_appendLoop q.entries _ h3 hq
      have h5 : AS s5 := by
        unfold s5
        split
        · have h6 : AS s6 := as_commitLog h4 _
          split
          · exact as_commitApply h6 _
          · exact h6
        · exact h4
      exact h5.congr rfl rfl rfl trivial

/-- **a step handling an append request that is not stale**: the node ends as a follower; entry 1 of its log is a
configuration, in memory and at every crash point of the step, if it was before and the request's entry with index 1, if
any, is one; the snapshot files are untouched -/
theorem append_step_as (s : Node) (q : AppendReq) (ra : List Nat) (ord : List (List Nat))
    (hq : ¬ q.term < s.term) (hf : First s.log.entries) (hl : LabelsPos s.snapsDisk) (he : First q.entries) :
    AS (s.step (.append q) ra ord) ∧ (s.step (.append q) ra ord).role = .follower := by
  refine ⟨?_, LogRel.append_step_role s q ra ord hq⟩
  have hpost : s.step (.append q) ra ord =
      settle 6 ((s.begin ra ord).handle (.append q)) (s.begin ra ord).role := rfl
  have hrole : ((s.begin ra ord).handle (.append q)).role = .follower := by
    show (((s.begin ra ord).onAppendEntries q).rpcDone false true).role = _
    rw [(SameKey.rpcDone _ _ _).role]
    exact LogRel.onAppendEntries_role _ q hq
  have hc := (LogRel.settle_follower ((s.begin ra ord).handle (.append q)) (s.begin ra ord).role hrole).2
  rw [hpost]
  refine as_core ?_ hc
  show AS (((s.begin ra ord).onAppendEntries q).rpcDone false true)
  have h0 : AS (s.begin ra ord) := ⟨hf, trivial, hl, fun p hp => by cases hp⟩
  have h1 := as_onAppendEntries _ q h0 he
  unfold Node.rpcDone
  split
  · exact as_core (h1.congr rfl rfl rfl trivial) (LogRel.core_panic _ _)
  · exact h1.congr rfl rfl rfl trivial

end FirstCfg
end Raft
