/-
Helper lemmas for Props/C10Sys.lean and Props/C16Sys.lean (restart after a crash at any point; leadership
transfer — on the cluster system `Raft.Commit` with the assumptions of `SysInv.ReachableG`).

Part 1 — the cluster id: `cid` is never written by a step, is the same in every crash image of a step and is what a
restarted node carries (`crashDisk_cid`, `step_cid`, `restart_cid`) — the analogue of `Election.crashDisk_nid`.
Part 2 — a restart from any crash image of an enabled step never fails (`crash_restart_some`): every configuration
entry on disk decodes (`crashDisk_cfgGood`: the log on disk is a path of the tree of created entries, whose
configuration entries are bootstrap entries), so `openStorage`'s scan for the configurations succeeds.
Part 3 — a guarded variant of the composition lemmas of Lemmas/Inv.lean / Lemmas/SysInv.lean (`TClosed`, `TStep`: the
primitive `withLdr` only for leader records with THE SAME transfer record) for the leader block and the handlers that do
not deal with the transfer (`PlainOp`), for the operations of the `_partial` model; `replCore`: `checkReplUpdates`
without its final `tryTransfer`.
Part 4 — what the handler of a leader does to the transfer record (`HEnd`, `handle_end`: it keeps it, ends with
`tryTransfer`, or answers the task with an error through `replyTransfer`); `tryTransfer`, `replyTransfer`,
`leader.init`, `leader.release` and the role transitions (`settle_left_noResp`); completions only accumulate within a
step (`RepMem`, an instance of `SysInv.SStep`), `reply_unique`; the fields a step that stores nothing leaves alone
(`core`), `checkConfigActions` and `storeEntry` while a transfer is in progress.
-/
import RaftVerif.Props.C19Sys
import RaftVerif.Props.C06Sys

namespace Raft
namespace SysMore
open Node LogRel CommitRel Commit C02Sys NoPanic SysInv
open Election (setNode setNode_same setNode_other FixedV)

/-! ## Part 1: the cluster id -/

/-- the cluster id, also at every crash point of the step -/
def CidInv (c : Nat) (s : Node) : Prop := s.cid = c ∧ ∀ p ∈ s.trace, p.2.cid = c

theorem cid_congr {c : Nat} {s s' : Node} (h : CidInv c s) (e1 : s'.cid = s.cid) (e2 : s'.trace = s.trace) :
    CidInv c s' := by
  unfold CidInv at *; rw [e1, e2]; exact h

theorem cid_point {c : Nat} (s : Node) (name : String) (h : CidInv c s) : CidInv c (s.point name) := by
  refine ⟨h.1, fun p hp => ?_⟩
  simp only [Node.point, List.mem_append, List.mem_singleton] at hp
  rcases hp with hp | hp
  · exact h.2 p hp
  · subst hp; exact h.1

theorem cid_storeTermVote {c : Nat} (s : Node) (t v : Nat) (h : CidInv c s) : CidInv c (s.storeTermVote t v) := by
  unfold Node.storeTermVote
  split
  · exact cid_congr h rfl rfl
  · exact cid_congr (cid_point _ "value.set" (cid_congr (s' := { s with durTerm := t, durVote := v }) h rfl rfl)) rfl rfl

theorem cid_panic {c : Nat} (s : Node) (site : String) (h : CidInv c s) : CidInv c (s.panic site) := by
  refine cid_congr h ?_ ?_ <;> (unfold Node.panic; split <;> rfl)

theorem cid_setVotedFor {c : Nat} (s : Node) (t v : Nat) (h : CidInv c s) : CidInv c (s.setVotedFor t v) := by
  unfold Node.setVotedFor
  split
  · split
    · exact cid_storeTermVote _ _ _ h
    · exact cid_panic _ _ h
  · exact h

theorem cid_closed (c : Nat) : StepClosed (CidInv c) where
  panic := fun s site h => cid_panic s site h
  reply := fun s t r h => by
    refine cid_congr h ?_ ?_ <;> (unfold Node.reply; split <;> rfl)
  point := fun s name h => cid_point s name h
  ldr := fun s l h => cid_congr h rfl rfl
  append := fun s e r h => cid_congr h rfl rfl
  commitN := fun s k h => cid_congr h rfl rfl
  fsm := fun s f h => cid_congr h rfl rfl
  changeConfigR := fun s c h => by
    refine cid_congr h ?_ ?_ <;> (unfold Node.changeConfigR; dsimp only; split <;> rfl)
  setCommitIndexR := fun s i h _ => by
    refine cid_congr h ?_ ?_ <;>
      (unfold Node.setCommitIndexR Node.afterConfigCommit Node.closeIfRemoved Node.stepDownIfNotVoter Node.commitConfig Node.doClose; dsimp only; repeat' split) <;> rfl
  popOrder := fun s h => cid_congr h rfl rfl
  begin := fun s ra ord h => ⟨h.1, by simp [Node.begin]⟩
  rpcReply := fun s r h => cid_congr h rfl rfl
  ret := fun s r h => cid_congr h rfl rfl
  setRole := fun s r h => cid_congr h rfl rfl
  setLeader := fun s l h => cid_congr h rfl rfl
  doClose := fun s r h => by
    refine cid_congr h ?_ ?_ <;> (unfold Node.doClose; split <;> rfl)
  setTerm := fun s t h => by
    unfold Node.setTerm
    split
    · split
      · exact cid_storeTermVote _ _ _ h
      · exact cid_panic _ _ h
    · exact h
  voteNewTerm := fun s t v h _ => cid_setVotedFor s t v h
  voteGrant := fun s v h _ => cid_setVotedFor s _ v h
  votesNeeded := fun s v h => cid_congr h rfl rfl
  candTransfer := fun s v h => cid_congr h rfl rfl
  removeGTE := fun s i pt h => cid_congr h rfl rfl
  removeLTE := fun s i h => cid_congr h rfl rfl
  clearLog := fun s h => cid_congr h rfl rfl
  revertConfig := fun s h => cid_congr h rfl rfl
  commitConfig := fun s h => by
    refine cid_congr h ?_ ?_ <;> (unfold Node.commitConfig; dsimp only; split <;> rfl)
  publishSnapshot := fun s f h => by
    unfold Node.publishSnapshot
    extract_lets s1 s2
    have h1 : CidInv c s1 := cid_point _ _ (cid_congr h rfl rfl)
    have h2 : CidInv c s2 := cid_congr h1 rfl rfl
    exact cid_point _ _ (cid_congr h2 rfl rfl)
  installCommit := fun s h _ => cid_congr h rfl rfl
  snapPending := fun s v h => cid_congr h rfl rfl
  snapResult := fun s v h => cid_congr h rfl rfl
  bootstrapLast := fun s i t h => cid_congr h rfl rfl

theorem step_cidInv (s : Node) (op : Op) (ra : List Nat) (ord : List (List Nat)) :
    CidInv s.cid (s.step op ra ord) := by
  have h0 : CidInv s.cid (s.begin ra ord) := ⟨rfl, by simp [Node.begin]⟩
  have h1 := (cid_closed s.cid).handle_inv _ op h0
  unfold Node.step
  dsimp only
  split
  · exact h1
  · exact (cid_closed s.cid).settle_inv _ _ _ h1

/-- a step never writes the cluster id -/
theorem step_cid (s : Node) (op : Op) (ra : List Nat) (ord : List (List Nat)) : (s.step op ra ord).cid = s.cid :=
  (step_cidInv s op ra ord).1

/-- whatever is on disk when the process dies carries the node's cluster id -/
theorem crashDisk_cid (s : Node) (op : Op) (ra : List Nat) (ord : List (List Nat)) (k : Nat) :
    (C05.crashDisk s op ra ord k).cid = s.cid := by
  have h := step_cidInv s op ra ord
  cases k with
  | zero => rfl
  | succ k =>
    simp only [C05.crashDisk]
    split
    · rename_i p hp
      exact h.2 p (List.mem_of_getElem? hp)
    · exact h.1

/-- a restarted node carries the cluster id found on disk -/
theorem restart_cid (d : Durable) (r : Nat) (sor : Bool) (n : Node) (h : restart d r sor = some n) :
    n.cid = d.cid := by
  obtain ⟨_, _, _, hn⟩ := C10.restart_some d r sor n h
  rw [hn]
  split
  · rw [fsmRestore_eq]; rfl
  · rfl

/-! ## Part 2: a restart from a crash image of an enabled step does not fail -/

section crash
variable {V : List Nat} {x : Commit.Sys} {i : Nat} {op : Op} {ra : List Nat} {ord : List (List Nat)} {src : Nat}

/-- **every configuration entry on disk, at any moment the process may die, is a bootstrap entry that decodes**
(`SysInv.CfgGoodE`). `hopen`: the node is open, or it dies between two steps (`k = 0`). -/
theorem crashDisk_cfgGood (sc : SC V x i op ra ord src) (hR : Commit.ReachableV V x) (hG : GInv x)
    (heG : EnabledG x i op) (k : Nat) (hopen : (x.node i).closed = "" ∨ k = 0) :
    ∀ e ∈ (C05.crashDisk (x.node i) op ra ord k).log.entries, CfgGoodE e := by
  rcases hopen with ho | hk
  · have hG' := sc_ginv sc hR ho hG heG
    have hp := DurableRel.SC.disk_path sc k
    intro e he
    obtain ⟨c, hc, hce⟩ := C04Sys.chain_mem hp.1 e he
    rw [← hce]; exact hG'.tree c hc
  · subst hk
    intro e he
    have hm : e ∈ (x.node i).log.entries := by
      have hd := durable_entries (nwf sc.inv i)
      have he' : e ∈ (x.node i).log.durable.entries := he
      rw [hd] at he'
      exact List.mem_of_mem_take he'
    exact log_cfg sc.inv hG i e hm

/-- `openStorage` does not fail on a crash image -/
theorem crashDisk_restartFails (sc : SC V x i op ra ord src) (hR : Commit.ReachableV V x) (hG : GInv x)
    (heG : EnabledG x i op) (k : Nat) (hopen : (x.node i).closed = "" ∨ k = 0) :
    restartFails (C05.crashDisk (x.node i) op ra ord k) = false := by
  have im := sc.img k
  have hcfg := crashDisk_cfgGood sc hR hG heG k hopen
  have hwf : C10.DurWF (C05.crashDisk (x.node i) op ra ord k) := by
    unfold C10.DurWF; rw [im.prev]; exact Nat.zero_le _
  have hok : C10.NoDecodeErr (C10.window (C10.logOf (C05.crashDisk (x.node i) op ra ord k))
      (C10.snapOf (C05.crashDisk (x.node i) op ra ord k)).index
      (C10.logOf (C05.crashDisk (x.node i) op ra ord k)).last) := by
    intro e he ht
    have hm := C15NoPanic.logOf_entries _ e (C15NoPanic.window_sub _ _ _ e he)
    obtain ⟨_, b⟩ := hcfg e hm ht
    obtain ⟨c, hc, _⟩ := (b 0).get
    unfold Entry.config?
    rw [if_pos ht, hc]; rfl
  exact (C10.restart_configs _ 1 true hwf hok).1

/-- **a restart from any crash image of an enabled step succeeds**, for a node that has a cluster id (`cid ≠ 0`:
`storage.SetIdentity` was called — `Raft.New` refuses to start otherwise) -/
theorem crash_restart_some (sc : SC V x i op ra ord src) (hR : Commit.ReachableV V x) (hG : GInv x)
    (heG : EnabledG x i op) (k : Nat) (hopen : (x.node i).closed = "" ∨ k = 0) (hcid : (x.node i).cid ≠ 0)
    (retain : Nat) (sor : Bool) :
    ∃ n, Node.restart (C05.crashDisk (x.node i) op ra ord k) retain sor = some n := by
  have hf := crashDisk_restartFails sc hR hG heG k hopen
  obtain ⟨n, hn, _⟩ := C10.restart_ok_contiguous (C05.crashDisk (x.node i) op ra ord k) retain sor
    (by rw [crashDisk_cid]; exact hcid)
    (by rw [Election.crashDisk_nid, (sc.inv.rp.el.ids i).1]; exact sc.en.rp.id) hf
  exact ⟨n, hn⟩

end crash

/-! ## Part 3: a guarded closure for facts about the leader's transfer record

`Node.Closed` / `SysInv.SClosed` ask for closure under `withLdr l` for an ARBITRARY leader record `l`, so they cannot
carry a fact about `ldr.transfer`. `TClosed` / `TStep` are the same composition lemmas with the primitive `ldr` stated
for the real call sites of the leader block and of the handlers that do not deal with the transfer: the new record has
THE SAME transfer record. (The handlers of `transfer.go` — `onTransfer`, `tryTransfer`, `replyTransfer`,
`onTimeoutNowResult`, `leader.init` / `leader.release` — write it; they are described case by case in Part 4.) -/

/-- `leader.checkReplUpdates` up to (not including) its final `tryTransfer`: the state and the flags -/
def replCore (s : Node) (us : List ReplUpdate) : Node × UpdFlags :=
  let r := replUpdLoop s {} us
  let s := r.1
  let f := r.2
  if f.stop then (s, f)
  else
    let s := if f.matchU then onMajorityCommit (fuelFor 0) s else s
    let s := if f.noContactU then s.checkQuorum else s
    let s := if f.removeLTEU ∧ s.ldr.removeLTE > s.log.prev then s.checkLogCompact else s
    (s, f)

theorem checkReplUpdates_eq (s : Node) (us : List ReplUpdate) :
    s.checkReplUpdates us =
      if (replCore s us).2.stop then (replCore s us).1
      else if ((replCore s us).2.matchU ∨ (replCore s us).2.noContactU) ∧ (replCore s us).1.ldr.transfer.active ∧
          !(replCore s us).1.ldr.transfer.targetChosen then (replCore s us).1.tryTransfer
      else (replCore s us).1 := by
  unfold Node.checkReplUpdates replCore
  dsimp only
  split <;> rfl

/-- the operations whose handler never writes the transfer record (run by any node), for the `_partial` model -/
def PlainOp : Op → Prop
  | .transfer _ _ => False
  | .replUpdates _ => False
  | .transferTimeout => False
  | .timeoutNowResult _ _ _ => False
  | .newTermTimeout => False
  | _ => True

structure TClosed (Inv : Node → Prop) : Prop where
  panic : ∀ s site, Inv s → Inv (s.panic site)
  reply : ∀ s t r, Inv s → Inv (s.reply t r)
  point : ∀ s n, Inv s → Inv (s.point n)
  /-- the leader record is replaced by one with THE SAME transfer record -/
  ldr : ∀ (s : Node) l, Inv s → l.transfer = s.ldr.transfer → Inv (s.withLdr l)
  /-- the real `storage.appendEntry`, with its own assertion and roll-over decision -/
  appendEntry : ∀ (s : Node) e, Inv s → Inv (s.appendEntry e)
  commitN : ∀ (s : Node) n, Inv s → Inv { s with log := s.log.commitN n }
  fsm : ∀ (s : Node) f, Inv s → Inv (s.withFsm f)
  changeConfigR : ∀ (s : Node) c, Inv s → Inv (s.changeConfigR c)
  /-- the commit index only ever moves forward: every call site has checked `i > commitIndex` -/
  setCommitIndexR : ∀ (s : Node) i, Inv s → i > s.commitIndex → Inv (s.setCommitIndexR i).1
  popOrder : ∀ (s : Node), Inv s → Inv s.popOrder

namespace TClosed

variable {Inv : Node → Prop} (h : TClosed Inv)
include h

theorem assert_inv (s : Node) (b : Bool) (site : String) (hs : Inv s) : Inv (s.assert b site) := by
  unfold Node.assert; split <;> simp_all [h.panic]

theorem appendEntry_inv (s : Node) (e : Entry) (hs : Inv s) : Inv (s.appendEntry e) := h.appendEntry _ _ hs

theorem commitLog_inv (s : Node) (n : Nat) (hs : Inv s) : Inv (s.commitLog n) := by
  unfold Node.commitLog; exact h.point _ _ (h.commitN _ _ hs)

theorem setRepl_inv (s : Node) (r : Repl) (hs : Inv s) : Inv (s.setRepl r) := by
  unfold Node.setRepl; exact h.ldr _ _ hs rfl

theorem addReplication_inv (s : Node) (n : CNode) (hs : Inv s) : Inv (s.addReplication n) := by
  unfold Node.addReplication
  apply h.setRepl_inv
  split
  · exact h.assert_inv _ _ _ hs
  · exact h.panic _ _ (h.assert_inv _ _ _ hs)

theorem notifyFlr_inv (s : Node) (hs : Inv s) : Inv s.notifyFlr := by
  unfold Node.notifyFlr; split
  · exact hs
  · split
    · exact hs
    · exact h.panic _ _ hs

theorem beginFinishedRounds_inv (s : Node) (hs : Inv s) : Inv s.beginFinishedRounds := by
  unfold Node.beginFinishedRounds; exact h.ldr _ _ hs rfl

theorem fsmApplyLogTo_inv (s : Node) (n : Nat) (hs : Inv s) : Inv (s.fsmApplyLogTo n) := by
  unfold Node.fsmApplyLogTo
  split
  · exact hs
  · split
    · exact h.panic _ _ hs
    · extract_lets es ups lastTerm cfg s1
      have h1 : Inv s1 := by unfold s1; split; exact h.panic _ _ hs; exact hs
      split
      · exact h.panic _ _ hs
      · exact h.fsm _ _ h1

theorem fsmApplyItems_inv (s : Node) (qs : List QItem) (hs : Inv s) : Inv (s.fsmApplyItems qs) := by
  induction qs generalizing s with
  | nil => exact hs
  | cons q qs ih =>
    unfold Node.fsmApplyItems
    dsimp only
    apply ih
    apply h.reply
    have h1 : Inv (s.assert (q.index == s.fsm.index + 1) "fsm.assertNext") := h.assert_inv s _ _ hs
    repeat' split
    all_goals first
      | exact h.fsm _ _ (h.fsm _ _ (h.fsm _ _ h1))
      | exact h.fsm _ _ (h.fsm _ _ h1)
      | exact h.fsm _ _ h1
      | exact h1

theorem fsmApply_inv (s : Node) (qs : List QItem) (hs : Inv s) : Inv (s.fsmApply qs) := by
  unfold Node.fsmApply
  split
  · exact h.panic _ _ hs
  · split
    · exact h.panic _ _ hs
    · dsimp only
      exact h.assert_inv _ _ _ (h.fsmApplyItems_inv _ _ (h.fsmApplyLogTo_inv _ _ hs))

theorem applyCommittedL_inv (s : Node) (hs : Inv s) : Inv s.applyCommittedL := by
  unfold Node.applyCommittedL; exact h.fsmApply_inv _ _ (h.ldr _ _ hs rfl)

omit h in
theorem foldl_inv {β : Type} (f : Node → β → Node) (hf : ∀ s x, Inv s → Inv (f s x))
    (xs : List β) (s : Node) (hs : Inv s) : Inv (xs.foldl f s) := by
  induction xs generalizing s with
  | nil => exact hs
  | cons x xs ih => exact ih _ (hf _ _ hs)

/-- The leader block preserves every closed invariant, by induction on the recursion budget. -/
theorem block : ∀ fuel : Nat,
    (∀ s b, Inv s → Inv (storeEntry fuel s b)) ∧
    (∀ s b, Inv s → Inv (storeItems fuel s b)) ∧
    (∀ s c, Inv s → Inv (changeConfigL fuel s c)) ∧
    (∀ s t c, Inv s → Inv (doChangeConfig fuel s t c)) ∧
    (∀ s t c, Inv s → Inv (checkConfigActions fuel s t c)) ∧
    (∀ s t c id, Inv s → Inv (checkConfigAction fuel s t c id)) ∧
    (∀ s i, Inv s → i > s.commitIndex → Inv (setCommitIndexL fuel s i)) ∧
    (∀ s, Inv s → Inv (onMajorityCommit fuel s)) := by
  intro fuel
  induction fuel with
  | zero =>
    refine ⟨?_, ?_, ?_, ?_, ?_, ?_, ?_, ?_⟩ <;> intros <;> (try unfold storeItems) <;>
      (try unfold storeEntry) <;> (try unfold changeConfigL) <;> (try unfold doChangeConfig) <;>
      (try unfold checkConfigActions) <;> (try unfold checkConfigAction) <;>
      (try unfold setCommitIndexL) <;> (try unfold onMajorityCommit) <;>
      (try split) <;> first | assumption | (apply h.panic; assumption)
  | succ n ih =>
    obtain ⟨ihSE, ihSI, ihCL, ihDC, ihCAs, ihCA, ihSC, ihMC⟩ := ih
    refine ⟨?_, ?_, ?_, ?_, ?_, ?_, ?_, ?_⟩
    · -- storeEntry
      intro s b hs
      unfold storeEntry; dsimp only
      have h1 : Inv (storeItems n s b) := ihSI _ _ hs
      have h2 := h.applyCommittedL_inv _ h1
      repeat' split
      all_goals first
        | exact ihMC _ (h.notifyFlr_inv _ (h.beginFinishedRounds_inv _ h2))
        | exact ihMC _ (h.notifyFlr_inv _ (h.beginFinishedRounds_inv _ h1))
        | exact h.notifyFlr_inv _ (h.beginFinishedRounds_inv _ h2)
        | exact h.notifyFlr_inv _ (h.beginFinishedRounds_inv _ h1)
        | exact h2
        | exact h1
    · -- storeItems
      intro s b hs
      cases b with
      | nil => unfold storeItems; exact hs
      | cons q qs =>
        unfold storeItems; dsimp only
        apply ihSI
        split
        · exact h.reply _ _ _ hs
        · split
          · split
            · exact h.reply _ _ _ hs
            · exact h.reply _ _ _ hs
          · have h1 := h.ldr s { s.ldr with queue := s.ldr.queue ++ [{ q with index := s.lastLogIndex + 1, term := s.term, cfg := q.cfg.map Config.payload }] } hs rfl
            split
            · split
              · split
                · exact ihCL _ _ (h.appendEntry_inv _ _ h1)
                · exact h.panic _ _ (h.appendEntry_inv _ _ h1)
              · exact h.appendEntry_inv _ _ h1
            · exact h1
    · -- changeConfigL
      intro s c hs
      unfold changeConfigL; dsimp only
      apply ihCAs
      apply foldl_inv
      · intro s x hs
        split
        · exact hs
        · split
          · exact h.addReplication_inv _ _ hs
          · exact h.setRepl_inv _ _ hs
      · exact h.ldr _ _ (h.changeConfigR _ _ (h.ldr _ _ hs rfl)) rfl
    · -- doChangeConfig
      intro s t c hs
      unfold doChangeConfig; exact ihSE _ _ hs
    · -- checkConfigActions
      intro s t c hs
      unfold checkConfigActions; dsimp only
      apply foldl_inv
      · intro s x hs
        split
        · exact ihCA _ _ _ _ hs
        · exact hs
      · apply h.popOrder
        split
        · split
          · exact ihDC _ _ _ hs
          · split
            · exact ihDC _ _ _ hs
            · exact h.panic _ _ hs
        · exact hs
    · -- checkConfigAction
      intro s t c id hs
      unfold checkConfigAction; dsimp only
      have h1 := fun r => h.setRepl_inv s r hs
      repeat' split
      all_goals first | exact hs | exact h1 _ | exact ihDC _ _ _ (h1 _)
    · -- setCommitIndexL
      intro s i hs hi
      unfold setCommitIndexL
      extract_lets s1 ready r s2 s3
      have h2 : Inv s2 := h.setCommitIndexR _ i (h.commitLog_inv _ i hs) hi
      have h3 : Inv s3 := by
        unfold s3; split
        · exact ihCAs _ _ _ h2
        · exact h2
      split
      · split
        · exact h.ldr _ _ (foldl_inv _ (fun s t hs => h.reply _ _ _ hs) _ _ h3) rfl
        · exact ihCAs _ _ _ h3
      · exact h3
    · -- onMajorityCommit
      intro s hs
      unfold onMajorityCommit; dsimp only
      have h1 := h.panic s "nil.majorityMatchIndex" hs
      have hc : ∀ site, (s.panic site).commitIndex = s.commitIndex := by
        intro site; unfold Node.panic; split <;> rfl
      split
      · split
        · rename_i hgt
          exact h.notifyFlr_inv _ (h.applyCommittedL_inv _ (ihSC _ _ hs hgt.1))
        · exact hs
      · split
        · rename_i hgt
          exact h.notifyFlr_inv _ (h.applyCommittedL_inv _ (ihSC _ _ h1 (by rw [hc] at hgt; rw [hc]; exact hgt.1)))
        · exact h1

end TClosed

structure TStep (Inv : Node → Prop) : Prop extends TClosed Inv where
  rpcReply : ∀ (s : Node) r, Inv s → Inv (s.withRpcReply r)
  ret : ∀ (s : Node) r, Inv s → Inv (s.ret r)
  setRole : ∀ (s : Node) r, Inv s → Inv (s.setRole r)
  setLeader : ∀ (s : Node) l, Inv s → Inv (s.setLeader l)
  setTerm : ∀ (s : Node) t, Inv s → Inv (s.setTerm t)
  /-- `setVotedFor` entering a higher term (vote requests, the self vote of `startElection`) -/
  voteNewTerm : ∀ (s : Node) t c, Inv s → t > s.term → Inv (s.setVotedFor t c)
  /-- `setVotedFor` granting the vote in the current term while no vote was cast yet -/
  voteGrant : ∀ (s : Node) c, Inv s → s.votedFor = 0 → Inv (s.setVotedFor s.term c)
  votesNeeded : ∀ (s : Node) v, Inv s → Inv (s.withVotesNeeded v)
  candTransfer : ∀ (s : Node) v, Inv s → Inv (s.withCandTransfer v)
  /-- `storage.removeGTE`: every call site has found the entry `i` in the log -/
  removeGTE : ∀ (s : Node) i pt, Inv s → s.log.prev < i → i ≤ s.log.last →
    Inv { s with log := s.log.removeGTE i, lastLogIndex := i - 1, lastLogTerm := pt }
  removeLTE : ∀ (s : Node) i, Inv s → Inv { s with log := s.log.removeLTE i }
  revertConfig : ∀ (s : Node), Inv s → Inv s.revertConfig
  snapPending : ∀ (s : Node) v, Inv s → Inv (s.withSnapPending v)

namespace TStep

variable {Inv : Node → Prop} (h : TStep Inv)
include h

theorem storeEntry_inv (f : Nat) (s : Node) (b) (hs : Inv s) : Inv (storeEntry f s b) := (h.toTClosed.block f).1 s b hs
theorem doChangeConfig_inv (f : Nat) (s : Node) (t c) (hs : Inv s) : Inv (doChangeConfig f s t c) :=
  (h.toTClosed.block f).2.2.2.1 s t c hs
theorem checkConfigActions_inv (f : Nat) (s : Node) (t c) (hs : Inv s) : Inv (checkConfigActions f s t c) :=
  (h.toTClosed.block f).2.2.2.2.1 s t c hs
theorem checkConfigAction_inv (f : Nat) (s : Node) (t c id) (hs : Inv s) : Inv (checkConfigAction f s t c id) :=
  (h.toTClosed.block f).2.2.2.2.2.1 s t c id hs
theorem onMajorityCommit_inv (f : Nat) (s : Node) (hs : Inv s) : Inv (onMajorityCommit f s) :=
  (h.toTClosed.block f).2.2.2.2.2.2.2 s hs

theorem removeGTE_inv (s : Node) (i pt : Nat) (hs : Inv s) (h1 : s.log.prev < i) (h2 : i ≤ s.log.last) :
    Inv (s.removeGTE i pt) := by
  unfold Node.removeGTE; exact h.point _ _ (h.removeGTE _ _ _ hs h1 h2)

theorem compactLog_inv (s : Node) (i : Nat) (hs : Inv s) : Inv (s.compactLog i) := by
  unfold Node.compactLog; exact h.point _ _ (h.removeLTE _ _ hs)

theorem applyCommitted_inv (s : Node) (hs : Inv s) : Inv s.applyCommitted := by
  unfold Node.applyCommitted; exact h.toTClosed.fsmApply_inv _ _ hs

theorem checkQuorum_inv (s : Node) (hs : Inv s) : Inv s.checkQuorum := by
  unfold Node.checkQuorum; dsimp only
  repeat' split
  all_goals first
    | exact hs
    | exact h.panic _ _ hs
    | exact h.setLeader _ _ (h.setRole _ _ hs)
    | exact h.setLeader _ _ (h.setRole _ _ (h.panic _ _ hs))

theorem startElection_inv (s : Node) (hs : Inv s) : Inv s.startElection := by
  unfold Node.startElection
  extract_lets s1 s2 s3 s4
  have h4 : Inv s4 := h.votesNeeded _ _ (h.voteNewTerm _ _ _ (h.votesNeeded _ _ (h.toTClosed.assert_inv _ _ _ hs)) (Nat.lt_succ_self _))
  split
  · exact h.setLeader _ _ (h.setRole _ _ h4)
  · exact h4

theorem onVoteResult_inv (s : Node) (e : Bool) (t r : Nat) (hs : Inv s) : Inv (s.onVoteResult e t r) := by
  unfold Node.onVoteResult; dsimp only
  repeat' split
  all_goals first
    | exact hs
    | exact h.setTerm _ _ (h.setRole _ _ hs)
    | exact h.setLeader _ _ (h.setRole _ _ (h.votesNeeded _ _ hs))
    | exact h.votesNeeded _ _ hs

theorem followerTimeout_inv (s : Node) (hs : Inv s) : Inv s.followerTimeout := by
  unfold Node.followerTimeout; dsimp only
  split
  · exact h.setRole _ _ (h.setLeader _ _ hs)
  · exact h.setLeader _ _ hs


omit h in
theorem setVotedFor_same (s : Node) : s.setVotedFor s.term s.votedFor = s := by
  unfold Node.setVotedFor; simp

theorem onVoteRequest_inv (s : Node) (q : VoteReq) (hs : Inv s) : Inv (s.onVoteRequest q) := by
  unfold Node.onVoteRequest
  split
  · exact h.ret _ _ hs
  · split
    · exact h.ret _ _ hs
    · rename_i hlt
      have hge : q.term ≥ s.term := Nat.le_of_not_lt hlt
      extract_lets vf tm s1
      have h1 : Inv s1 := by unfold s1; split; exact h.setRole _ _ hs; exact hs
      have hterm : s1.term = s.term := by unfold s1; split <;> rfl
      have hvote : s1.votedFor = s.votedFor := by unfold s1; split <;> rfl
      by_cases hgt : q.term > s.term
      · have e1 : vf = 0 := by unfold vf; simp [hgt]
        have e2 : tm = q.term := by unfold tm; simp [hgt]
        have hn := fun c => h.voteNewTerm s1 q.term c h1 (by omega)
        simp only [e1, e2]
        repeat' split
        all_goals first | exact h.ret _ _ (hn _) | exact absurd rfl ‹_›
      · have e1 : vf = s1.votedFor := by unfold vf; simp [hgt, hvote]
        have e2 : tm = s1.term := by unfold tm; simp [hgt, hterm]
        simp only [e1, e2]
        split
        · rw [setVotedFor_same]; exact h.ret _ _ h1
        · rename_i hv
          have hv' : s1.votedFor = 0 := by simpa using hv
          split
          · rw [setVotedFor_same]; exact h.ret _ _ h1
          · exact h.ret _ _ (h.voteGrant _ _ h1 hv')

end TStep

/-- One backward step for goals `Inv (…)`: close by assumption, peel one primitive (syntactic match),
or split a conditional. -/
syntax "tinv_step " term : tactic
macro_rules
  | `(tactic| tinv_step $h) => `(tactic| first
      | assumption
      | rfl
      | with_reducible apply TStep.ret $h
      | with_reducible apply TStep.compactLog_inv $h
      | with_reducible apply TStep.applyCommitted_inv $h
      | with_reducible apply TStep.checkQuorum_inv $h
      | with_reducible apply TStep.startElection_inv $h
      | with_reducible apply TStep.onVoteResult_inv $h
      | with_reducible apply TStep.followerTimeout_inv $h
      | with_reducible apply TStep.storeEntry_inv $h
      | with_reducible apply TStep.doChangeConfig_inv $h
      | with_reducible apply TStep.checkConfigActions_inv $h
      | with_reducible apply TStep.checkConfigAction_inv $h
      | with_reducible apply TStep.onMajorityCommit_inv $h
      | with_reducible apply TStep.onVoteRequest_inv $h
      | with_reducible apply TClosed.appendEntry_inv (TStep.toTClosed $h)
      | with_reducible apply TClosed.commitLog_inv (TStep.toTClosed $h)
      | with_reducible apply TClosed.assert_inv (TStep.toTClosed $h)
      | with_reducible apply TClosed.fsmApply_inv (TStep.toTClosed $h)
      | with_reducible apply TClosed.setRepl_inv (TStep.toTClosed $h)
      | with_reducible apply TClosed.notifyFlr_inv (TStep.toTClosed $h)
      | with_reducible apply TClosed.panic (TStep.toTClosed $h)
      | with_reducible apply TClosed.reply (TStep.toTClosed $h)
      | with_reducible apply TClosed.point (TStep.toTClosed $h)
      | with_reducible apply TClosed.changeConfigR (TStep.toTClosed $h)
      | with_reducible apply TClosed.setCommitIndexR (TStep.toTClosed $h)
      | with_reducible apply TClosed.ldr (TStep.toTClosed $h)
      | with_reducible apply TClosed.fsm (TStep.toTClosed $h)
      | with_reducible apply TStep.setRole $h
      | with_reducible apply TStep.setLeader $h
      | with_reducible apply TStep.setTerm $h
      | with_reducible apply TStep.revertConfig $h
      | with_reducible apply TStep.snapPending $h
      | with_reducible apply TStep.candTransfer $h
      | with_reducible apply TStep.votesNeeded $h
      | with_reducible apply TStep.rpcReply $h
      | split)

syntax "tinv_auto " term : tactic
macro_rules
  | `(tactic| tinv_auto $h) => `(tactic| repeat' (tinv_step $h))

namespace TStep
variable {Inv : Node → Prop} (h : TStep Inv)
include h

theorem resolveConflict_inv (s : Node) (ne : Entry) (pt : Nat) (hs : Inv s) : Inv (s.resolveConflict ne pt) := by
  unfold Node.resolveConflict
  split
  · split
    · exact h.panic _ _ hs
    · rename_i t ht
      have hg : s.log.prev < ne.index ∧ ne.index ≤ s.log.last := by
        unfold Node.entryTerm? NLog.get? at ht
        split at ht
        · rename_i hlt
          cases hx : s.log.entries[ne.index - s.log.prev - 1]? with
          | none => rw [hx] at ht; cases ht
          | some e =>
            have := (List.getElem?_eq_some_iff.mp hx).1
            unfold NLog.last
            exact ⟨hlt, by omega⟩
        · cases ht
      have h1 := h.removeGTE_inv s ne.index pt hs hg.1 hg.2
      dsimp only
      split
      · exact h.revertConfig _ h1
      · exact h1
  · exact hs

theorem appendLoop_inv (st : AppLoop) (es : List Entry) (hs : Inv st.s) : Inv (appendLoop st es).s := by
  induction es generalizing st with
  | nil => exact hs
  | cons ne rest ih =>
    unfold appendLoop
    dsimp only
    have hR : ∀ x a b, Inv x → Inv (x.resolveConflict a b) := fun x a b hx => h.resolveConflict_inv x a b hx
    repeat' (first | tinv_step h | apply hR)
    all_goals (first | (apply ih; dsimp only; repeat' (first | tinv_step h | apply hR)) | skip)

theorem appendCheck_inv (s : Node) (q : AppendReq) (hs : Inv s) : Inv (s.appendCheck q) := by
  unfold Node.appendCheck
  dsimp only
  tinv_auto h
  all_goals (simp only [Node.canCommit, Bool.and_eq_true, decide_eq_true_eq] at *; omega)

theorem onAppendEntries_inv (s : Node) (q : AppendReq) (hs : Inv s) : Inv (s.onAppendEntries q) := by
  unfold Node.onAppendEntries
  dsimp only
  have hA : ∀ x, Inv x → Inv (x.appendCheck q) := fun x hx => h.appendCheck_inv x q hx
  have hL : ∀ st, Inv st.s → Inv (appendLoop st q.entries).s := fun st hst => h.appendLoop_inv st _ hst
  repeat' (first | tinv_step h | (apply hA) | (apply hL; dsimp only))
  all_goals (simp only [Node.canCommit, Bool.and_eq_true, decide_eq_true_eq] at *; omega)

theorem onTimeoutNow_inv (s : Node) (hs : Inv s) : Inv s.onTimeoutNow := by
  unfold Node.onTimeoutNow
  tinv_auto h

theorem onTakeSnapshot_inv (s : Node) (t th : Nat) (hs : Inv s) : Inv (s.onTakeSnapshot t th) := by
  unfold Node.onTakeSnapshot
  tinv_auto h

theorem replUpdLoop_inv (s : Node) (f : UpdFlags) (us : List ReplUpdate) (hs : Inv s) :
    Inv (replUpdLoop s f us).1 := by
  induction us generalizing s f with
  | nil => exact hs
  | cons u us ih =>
    unfold replUpdLoop
    dsimp only
    repeat' (first | tinv_step h | apply ih)

theorem checkLogCompact_inv (s : Node) (hs : Inv s) : Inv s.checkLogCompact := by
  unfold Node.checkLogCompact
  tinv_auto h

/-- `leader.checkReplUpdates` up to (not including) the final `tryTransfer` -/
theorem replCore_inv (s : Node) (us : List ReplUpdate) (hs : Inv s) : Inv (replCore s us).1 := by
  unfold replCore
  dsimp only
  have hL : Inv (replUpdLoop s {} us).1 := h.replUpdLoop_inv _ _ _ hs
  have hC : ∀ x, Inv x → Inv x.checkLogCompact := fun x hx => h.checkLogCompact_inv x hx
  repeat' (first | tinv_step h | apply hC)

theorem rejectEntries_inv (s : Node) (b : List QItem) (hs : Inv s) : Inv (s.rejectEntries b) := by
  induction b generalizing s with
  | nil => exact hs
  | cons q qs ih =>
    unfold Node.rejectEntries
    dsimp only
    repeat' (first | tinv_step h | apply ih)

theorem onWaitForStable_inv (s : Node) (t : Nat) (hs : Inv s) : Inv (s.onWaitForStable t) := by
  unfold Node.onWaitForStable
  tinv_auto h

theorem rpcDone_inv (s : Node) (a b : Bool) (hs : Inv s) : Inv (s.rpcDone a b) := by
  unfold Node.rpcDone
  tinv_auto h

/-- every case of `handle` that does not deal with the transfer, for the operations of the `_partial` model -/
theorem handle_inv (s : Node) (op : Op) (hok : OpOK2 op) (hpl : PlainOp op) (hs : Inv s) : Inv (s.handle op) := by
  obtain ⟨hok1, _, hok3⟩ := hok
  cases op <;> unfold Node.handle <;> dsimp only
  case vote q => exact h.rpcDone_inv _ _ _ (h.onVoteRequest_inv _ _ hs)
  case append q => exact h.rpcDone_inv _ _ _ (h.onAppendEntries_inv _ _ hs)
  case install q => exact absurd hok1 (by simp [OpOK])
  case timeoutNow => exact h.rpcDone_inv _ _ _ (h.onTimeoutNow_inv _ hs)
  case identity a b c => exact h.rpcReply _ _ hs
  case disconnected n => tinv_auto h
  case timeout => tinv_auto h
  case newEntries b => split; exact h.storeEntry_inv _ _ _ hs; exact h.rejectEntries_inv _ _ hs
  case changeConfig => exact absurd rfl (hok3 _ _)
  case takeSnapshot t th => exact h.onTakeSnapshot_inv _ _ _ hs
  case snapRun => exact absurd hok1 (by simp [OpOK])
  case snapTaken => exact absurd hok1 (by simp [OpOK])
  case waitStable t => split; exact h.onWaitForStable_inv _ _ hs; exact h.reply _ _ _ hs
  case transfer t g => exact hpl.elim
  case voteResult e t r => tinv_auto h
  case replUpdates us => exact hpl.elim
  case transferTimeout => exact hpl.elim
  case timeoutNowResult a b c => exact hpl.elim
  case newTermTimeout => exact hpl.elim
  case shutdown => exact absurd hok1 (by simp [OpOK])

end TStep

/-! ## Part 4: what the handler of a leader does to the transfer record -/

/-- the transfer record is the one of `b` -/
def TEq (b s : Node) : Prop := s.ldr.transfer = b.ldr.transfer

theorem teq_congr {b s s' : Node} (h : TEq b s) (e : s'.ldr = s.ldr) : TEq b s' := by
  unfold TEq at *; rw [e]; exact h

theorem ldr_panic (s : Node) (site : String) : (s.panic site).ldr = s.ldr := by
  unfold Node.panic; split <;> rfl

theorem ldr_reply (s : Node) (t : Nat) (r : String) : (s.reply t r).ldr = s.ldr := by
  unfold Node.reply; split <;> rfl

theorem ldr_storeTermVote (s : Node) (t c : Nat) : (s.storeTermVote t c).ldr = s.ldr := by
  unfold Node.storeTermVote Node.point; dsimp only; split <;> rfl

theorem ldr_setTerm (s : Node) (t : Nat) : (s.setTerm t).ldr = s.ldr := by
  unfold Node.setTerm
  split
  · split
    · exact ldr_storeTermVote _ _ _
    · exact ldr_panic _ _
  · rfl

theorem ldr_setVotedFor (s : Node) (t c : Nat) : (s.setVotedFor t c).ldr = s.ldr := by
  unfold Node.setVotedFor
  split
  · split
    · exact ldr_storeTermVote _ _ _
    · exact ldr_panic _ _
  · rfl

/-- `TEq b` is closed in the sense of Part 3 -/
theorem teq_step (b : Node) : TStep (TEq b) where
  panic := fun s site h => teq_congr h (ldr_panic s site)
  reply := fun s t r h => teq_congr h (ldr_reply s t r)
  point := fun s n h => teq_congr h rfl
  ldr := fun s l h hg => by unfold TEq at *; show l.transfer = _; rw [hg]; exact h
  appendEntry := fun s e h => by
    refine teq_congr h ?_
    unfold Node.appendEntry Node.assert
    dsimp only
    split
    · rfl
    · exact ldr_panic _ _
  commitN := fun s n h => teq_congr h rfl
  fsm := fun s f h => teq_congr h rfl
  changeConfigR := fun s c h => by
    refine teq_congr h ?_; unfold Node.changeConfigR; dsimp only; split <;> rfl
  setCommitIndexR := fun s i h _ => by
    refine teq_congr h ?_
    unfold Node.setCommitIndexR Node.afterConfigCommit Node.closeIfRemoved Node.stepDownIfNotVoter Node.commitConfig
      Node.doClose
    dsimp only
    repeat' split
    all_goals rfl
  popOrder := fun s h => teq_congr h rfl
  rpcReply := fun s r h => teq_congr h rfl
  ret := fun s r h => teq_congr h rfl
  setRole := fun s r h => teq_congr h rfl
  setLeader := fun s l h => teq_congr h rfl
  setTerm := fun s t h => teq_congr h (ldr_setTerm s t)
  voteNewTerm := fun s t c h _ => teq_congr h (ldr_setVotedFor s t c)
  voteGrant := fun s c h _ => teq_congr h (ldr_setVotedFor s _ c)
  votesNeeded := fun s v h => teq_congr h rfl
  candTransfer := fun s v h => teq_congr h rfl
  removeGTE := fun s i pt h _ _ => teq_congr h rfl
  removeLTE := fun s i h => teq_congr h rfl
  revertConfig := fun s h => teq_congr h rfl
  snapPending := fun s v h => teq_congr h rfl

/-- **the leader block never writes the transfer record** -/
theorem block_transfer (f : Nat) (s : Node) :
    (∀ b, (storeEntry f s b).ldr.transfer = s.ldr.transfer) ∧
    (∀ t c, (doChangeConfig f s t c).ldr.transfer = s.ldr.transfer) ∧
    (∀ t c, (checkConfigActions f s t c).ldr.transfer = s.ldr.transfer) ∧
    (onMajorityCommit f s).ldr.transfer = s.ldr.transfer :=
  ⟨fun b => (teq_step s).storeEntry_inv f s b rfl, fun t c => (teq_step s).doChangeConfig_inv f s t c rfl,
    fun t c => (teq_step s).checkConfigActions_inv f s t c rfl, (teq_step s).onMajorityCommit_inv f s rfl⟩

/-! ### `tryTransfer`, `replyTransfer`, `leader.init`, `leader.release` -/

/-- `tryTransfer` only sets the flag `respPending`, and only when it designates a target -/
theorem tryTransfer_ldr (c : Node) :
    c.tryTransfer.ldr = (if c.tryTransferTarget.1 ≠ 0
      then { c.ldr with transfer := { c.ldr.transfer with respPending := true } } else c.ldr) := by
  unfold Node.tryTransfer Node.withLdr Node.popOrder Node.panic
  dsimp only
  (repeat' split) <;> rfl

/-- … and touches nothing else the choice of the target depends on -/
theorem tryTransfer_fields (c : Node) :
    c.tryTransfer.configs = c.configs ∧ c.tryTransfer.nid = c.nid ∧ c.tryTransfer.lastLogIndex = c.lastLogIndex ∧
    c.tryTransfer.role = c.role ∧ c.tryTransfer.term = c.term ∧ c.tryTransfer.replies = c.replies := by
  unfold Node.tryTransfer Node.withLdr Node.panic Node.popOrder
  dsimp only
  refine ⟨?_, ?_, ?_, ?_, ?_, ?_⟩ <;> (repeat' split) <;> rfl

theorem tryTransfer_repls (c : Node) : c.tryTransfer.ldr.repls = c.ldr.repls := by
  rw [tryTransfer_ldr]; split <;> rfl

theorem tryTransfer_transfer (c : Node) :
    c.tryTransfer.ldr.transfer.task = c.ldr.transfer.task ∧ c.tryTransfer.ldr.transfer.term = c.ldr.transfer.term ∧
    c.tryTransfer.ldr.transfer.active = c.ldr.transfer.active ∧
    (c.tryTransferTarget.1 = 0 → c.tryTransfer.ldr.transfer = c.ldr.transfer) := by
  rw [tryTransfer_ldr]
  split
  · exact ⟨rfl, rfl, rfl, fun h0 => absurd h0 ‹_›⟩
  · exact ⟨rfl, rfl, rfl, fun _ => rfl⟩

/-- after `replyTransfer` no transfer is in progress -/
theorem replyTransfer_transfer (c : Node) (r : String) : (c.replyTransfer r).ldr.transfer = {} := by
  unfold Node.replyTransfer
  dsimp only
  rw [(block_transfer _ _).2.2.1]
  rfl

/-- a node that has run `leader.init` has no transfer in progress -/
theorem leaderInit_transfer (s : Node) : s.leaderInit.ldr.transfer = {} := by
  unfold Node.leaderInit
  dsimp only
  rw [(block_transfer _ _).1, (block_transfer _ _).2.2.1]
  have key : ∀ (ns : List CNode) (x : Node),
      (ns.foldl (fun s n => if n.id = s.nid then s else s.addReplication n) x).ldr.transfer = x.ldr.transfer := by
    intro ns x
    refine TClosed.foldl_inv (Inv := TEq x) _ (fun s n hs => ?_) ns x rfl
    split
    · exact hs
    · exact (teq_step x).toTClosed.addReplication_inv _ _ hs
  rw [key]
  rfl

/-- a node that has run `leader.release` has no transfer in progress -/
theorem leaderRelease_transfer (s : Node) : s.leaderRelease.ldr.transfer = {} := by
  unfold Node.leaderRelease Node.leaderReleaseRest
  rfl

/-- `respPending` is clear -/
def NoResp (s : Node) : Prop := s.ldr.transfer.respPending = false

theorem startElection_ldr (s : Node) : s.startElection.ldr = s.ldr := by
  unfold Node.startElection
  extract_lets s1 s2 s3 s4
  have e1 : s1.ldr = s.ldr := by
    unfold s1 Node.assert; split
    · rfl
    · exact ldr_panic _ _
  have e4 : s4.ldr = s.ldr := by
    show (s2.setVotedFor (s2.term + 1) s2.nid).ldr = _
    rw [ldr_setVotedFor]; exact e1
  split
  · exact e4
  · exact e4

/-- the role transitions keep `respPending` clear -/
theorem settle_noResp (f : Nat) (s : Node) (cur : Role) (h : NoResp s) : NoResp (settle f s cur) := by
  induction f generalizing s cur with
  | zero => exact h
  | succ n ih =>
    unfold settle
    split
    · exact h
    · apply ih
      have h1 : NoResp (s.releaseRole cur) := by
        unfold Node.releaseRole
        split
        · exact h
        · exact h
        · unfold NoResp; rw [leaderRelease_transfer]
      unfold Node.initRole
      split
      · exact h1
      · unfold NoResp; rw [startElection_ldr]; exact h1
      · unfold NoResp; rw [leaderInit_transfer]

/-- a leader whose handler left the leader role ends the step without a pending `timeoutNow` request -/
theorem settle_left_noResp (f : Nat) (s : Node) (hr : s.role ≠ .leader) : NoResp (settle (f + 1) s .leader) := by
  unfold settle
  rw [if_neg hr]
  apply settle_noResp
  have h1 : NoResp (s.releaseRole .leader) := by
    unfold Node.releaseRole NoResp; dsimp only; rw [leaderRelease_transfer]
  unfold Node.initRole
  split
  · exact h1
  · unfold NoResp; rw [startElection_ldr]; exact h1
  · unfold NoResp; rw [leaderInit_transfer]

/-! ### the cases -/

/-- the transfer in progress is the same one (its `respPending` flag may have been cleared, its `newTermTimer`
flag may differ) -/
structure TSame (b h : Node) : Prop where
  task : h.ldr.transfer.task = b.ldr.transfer.task
  term : h.ldr.transfer.term = b.ldr.transfer.term
  active : h.ldr.transfer.active = b.ldr.transfer.active
  resp : h.ldr.transfer.respPending = true → b.ldr.transfer.respPending = true

theorem TSame.of_eq {b h : Node} (e : h.ldr.transfer = b.ldr.transfer) : TSame b h :=
  ⟨by rw [e], by rw [e], by rw [e], by rw [e]; exact id⟩

theorem TSame.refl (b : Node) : TSame b b := TSame.of_eq rfl

/-- **how the handler `h` of a leader `b` ends, as far as the transfer is concerned**: the transfer record is kept;
or the handler ends with a call `c.tryTransfer`; or it ends with `c.replyTransfer r`, answering the transfer task with
an error `r` (`timeout:transferLeadership` when the transfer timer fires, `error` when the target refused the
`timeoutNow` request). -/
inductive HEnd (b h : Node) : Prop
  | keep : TSame b h → HEnd b h
  | tryT (c : Node) : (c.ldr.transfer.respPending = true → b.ldr.transfer.respPending = true) →
      (b.ldr.transfer.active = true → TSame b c) → h = c.tryTransfer → HEnd b h
  | answered (c : Node) (r : String) : r ≠ "ok" → c.ldr.transfer.task = b.ldr.transfer.task →
      b.replies <+: c.replies → h = c.replyTransfer r → HEnd b h

/-- `validateTransfer` refuses a request while a transfer is in progress -/
theorem validateTransfer_active (s : Node) (g : Nat) (h : s.ldr.transfer.active = true) : s.validateTransfer g ≠ "" := by
  rw [(C16.validate_transfer_classes s g).1 h]; decide

/-- **every case of `handle`, run by a leader, for the operations of the `_partial` model** -/
theorem handle_end (b : Node) (op : Op) (hok : OpOK2 op) (hl : b.role = .leader) : HEnd b (b.handle op) := by
  by_cases hpl : PlainOp op
  · exact .keep (TSame.of_eq ((teq_step b).handle_inv b op hok hpl rfl))
  · cases op <;> first | exact absurd trivial hpl | skip
    case transfer t g =>
      unfold Node.handle
      dsimp only
      rw [if_pos hl]
      unfold Node.onTransfer
      dsimp only
      split
      · exact .keep (TSame.of_eq (by rw [ldr_reply]))
      · rename_i hv
        refine .tryT (b.withLdr { b.ldr with transfer :=
          { b.ldr.transfer with term := b.term, task := t, target := g, active := true } }) (fun h => h)
          (fun ha => absurd ?_ hv) rfl
        exact validateTransfer_active b g ha
    case replUpdates us =>
      unfold Node.handle
      dsimp only
      rw [if_pos hl, checkReplUpdates_eq]
      have hc : TEq b (replCore b us).1 := (teq_step b).replCore_inv b us rfl
      split
      · exact .keep (TSame.of_eq hc)
      · split
        · exact .tryT _ (by rw [hc]; exact id) (fun _ => TSame.of_eq hc) rfl
        · exact .keep (TSame.of_eq hc)
    case transferTimeout =>
      unfold Node.handle
      dsimp only
      split
      · exact .answered b _ (by decide) rfl (List.prefix_refl _) rfl
      · exact .keep (TSame.refl b)
    case timeoutNowResult src err r =>
      unfold Node.handle
      dsimp only
      split
      · unfold Node.onTimeoutNowResult
        extract_lets l0 t0 s1 s2 l1 t1
        have h1 : TSame b s1 := ⟨rfl, rfl, rfl, fun h => by cases h⟩
        have r1 : s1.ldr.transfer.respPending = true → b.ldr.transfer.respPending = true := fun h => by cases h
        have e2 : s2.ldr.transfer = s1.ldr.transfer := by
          unfold s2
          split
          · split
            · rfl
            · rfl
          · rw [ldr_panic]
        have h2 : TSame b s2 := ⟨by rw [e2]; exact h1.task, by rw [e2]; exact h1.term, by rw [e2]; exact h1.active,
          by rw [e2]; exact r1⟩
        split
        · split
          · exact .tryT s2 h2.resp (fun _ => h2) rfl
          · exact .keep h2
        · split
          · split
            · exact .answered s1 "error" (by decide) rfl (List.prefix_refl _) rfl
            · exact .tryT s1 r1 (fun _ => h1) rfl
          · exact .keep ⟨rfl, rfl, rfl, fun h => by cases h⟩
      · exact .keep (TSame.refl b)
    case newTermTimeout =>
      unfold Node.handle
      dsimp only
      split
      · exact .tryT (b.withLdr { b.ldr with transfer := { b.ldr.transfer with newTermTimer := false } })
          (fun h => h) (fun _ => ⟨rfl, rfl, rfl, fun h => h⟩) rfl
      · exact .keep (TSame.refl b)

/-! ### replies only accumulate -/

/-- the completion `x` has been recorded -/
def RepMem (x : Reply) (s : Node) : Prop := x ∈ s.replies

theorem repMem_congr {x : Reply} {s s' : Node} (h : RepMem x s) (e : s'.replies = s.replies) : RepMem x s' := by
  unfold RepMem at *; rw [e]; exact h

theorem replies_panic (s : Node) (site : String) : (s.panic site).replies = s.replies := by
  unfold Node.panic; split <;> rfl

theorem replies_storeTermVote (s : Node) (t c : Nat) : (s.storeTermVote t c).replies = s.replies := by
  unfold Node.storeTermVote Node.point; dsimp only; split <;> rfl

theorem replies_setTerm (s : Node) (t : Nat) : (s.setTerm t).replies = s.replies := by
  unfold Node.setTerm
  split
  · split
    · exact replies_storeTermVote _ _ _
    · exact replies_panic _ _
  · rfl

theorem replies_setVotedFor (s : Node) (t c : Nat) : (s.setVotedFor t c).replies = s.replies := by
  unfold Node.setVotedFor
  split
  · split
    · exact replies_storeTermVote _ _ _
    · exact replies_panic _ _
  · rfl

/-- within a step (after `Node.begin`) a recorded completion stays recorded -/
theorem repMem_step (x : Reply) : SStep (RepMem x) where
  panic := fun s site h => repMem_congr h (replies_panic s site)
  reply := fun s t r h => by
    unfold RepMem Node.reply at *
    split
    · exact h
    · exact List.mem_append_left _ h
  point := fun s n h => repMem_congr h rfl
  ldr := fun s l h => repMem_congr h rfl
  appendEntry := fun s e h => by
    refine repMem_congr h ?_
    unfold Node.appendEntry Node.assert
    dsimp only
    split
    · rfl
    · exact replies_panic _ _
  commitN := fun s n h => repMem_congr h rfl
  fsm := fun s f h => repMem_congr h rfl
  changeConfigR := fun s c h => by
    refine repMem_congr h ?_; unfold Node.changeConfigR; dsimp only; split <;> rfl
  setCommitIndexR := fun s i h _ => by
    refine repMem_congr h ?_
    unfold Node.setCommitIndexR Node.afterConfigCommit Node.closeIfRemoved Node.stepDownIfNotVoter Node.commitConfig
      Node.doClose
    dsimp only
    repeat' split
    all_goals rfl
  popOrder := fun s h => repMem_congr h rfl
  rpcReply := fun s r h => repMem_congr h rfl
  ret := fun s r h => repMem_congr h rfl
  setRole := fun s r h => repMem_congr h rfl
  setLeader := fun s l h => repMem_congr h rfl
  setTerm := fun s t h => repMem_congr h (replies_setTerm s t)
  voteNewTerm := fun s t c h _ => repMem_congr h (replies_setVotedFor s t c)
  voteGrant := fun s c h _ => repMem_congr h (replies_setVotedFor s _ c)
  votesNeeded := fun s v h => repMem_congr h rfl
  candTransfer := fun s v h => repMem_congr h rfl
  removeGTE := fun s i pt h _ _ => repMem_congr h rfl
  removeLTE := fun s i h => repMem_congr h rfl
  revertConfig := fun s h => repMem_congr h rfl
  snapPending := fun s v h => repMem_congr h rfl

/-- the answer `transfer.reply` records -/
theorem transferReply_mem (c : Node) (r : String) (h0 : c.ldr.transfer.task ≠ 0) :
    RepMem { task := c.ldr.transfer.task, result := r } (c.transferReply r) := by
  unfold RepMem Node.transferReply Node.withLdr Node.reply
  dsimp only
  rw [if_neg h0]
  exact List.mem_append_right _ (List.mem_singleton.mpr rfl)

/-- two recorded completions of one non-zero task, when no task is answered twice, are the same completion -/
theorem reply_unique : ∀ (l : List Reply), ((l.map (·.task)).filter (· ≠ 0)).Nodup → ∀ a ∈ l, ∀ b ∈ l,
    a.task = b.task → a.task ≠ 0 → a = b := by
  intro l
  induction l with
  | nil => intro _ a ha; cases ha
  | cons x xs ih =>
    intro hn a ha b hb hab h0
    have hmem : ∀ y ∈ xs, y.task ≠ 0 → y.task ∈ (xs.map (·.task)).filter (· ≠ 0) := fun y hy hy0 =>
      List.mem_filter.mpr ⟨List.mem_map.mpr ⟨y, hy, rfl⟩, by simpa using hy0⟩
    by_cases hx : x.task ≠ 0
    · have hn' : (x.task :: (xs.map (·.task)).filter (· ≠ 0)).Nodup := by
        have : ((x :: xs).map (·.task)).filter (· ≠ 0) = x.task :: (xs.map (·.task)).filter (· ≠ 0) := by
          rw [List.map_cons, List.filter_cons, if_pos (by simpa using hx)]
        rw [← this]; exact hn
      obtain ⟨hnx, hnxs⟩ := List.nodup_cons.mp hn'
      rcases List.mem_cons.mp ha with ha | ha
      · rcases List.mem_cons.mp hb with hb | hb
        · rw [ha, hb]
        · exact absurd (by rw [← ha, hab]; exact hmem b hb (by rw [← hab]; exact h0)) hnx
      · rcases List.mem_cons.mp hb with hb | hb
        · exact absurd (by rw [← hb, ← hab]; exact hmem a ha h0) hnx
        · exact ih hnxs a ha b hb hab h0
    · have hx0 : x.task = 0 := by simpa using hx
      have hn' : ((xs.map (·.task)).filter (· ≠ 0)).Nodup := by
        have : ((x :: xs).map (·.task)).filter (· ≠ 0) = (xs.map (·.task)).filter (· ≠ 0) := by
          rw [List.map_cons, List.filter_cons, if_neg (by simpa using hx0)]
        rw [← this]; exact hn
      rcases List.mem_cons.mp ha with ha | ha
      · rw [ha] at h0; exact absurd hx0 h0
      · rcases List.mem_cons.mp hb with hb | hb
        · rw [hab, hb] at h0; exact absurd hx0 h0
        · exact ih hn' a ha b hb hab h0

/-! ### "nothing was stored" -/

/-- the fields a step that stores nothing leaves as they are: the log, the last index and term, the
configurations, the commit index, role and term, and the transfer record -/
def core (s : Node) : NLog × Nat × Nat × Configs × Nat × Role × Nat × Transfer :=
  (s.log, s.lastLogIndex, s.lastLogTerm, s.configs, s.commitIndex, s.role, s.term, s.ldr.transfer)

theorem core_eq {s s' : Node} (h : core s' = core s) :
    s'.log = s.log ∧ s'.lastLogIndex = s.lastLogIndex ∧ s'.lastLogTerm = s.lastLogTerm ∧ s'.configs = s.configs ∧
    s'.commitIndex = s.commitIndex ∧ s'.role = s.role ∧ s'.term = s.term ∧ s'.ldr.transfer = s.ldr.transfer := by
  unfold core at h
  simp only [Prod.mk.injEq] at h
  exact h

theorem core_panic (s : Node) (site : String) : core (s.panic site) = core s := by
  unfold Node.panic; split <;> rfl

theorem core_reply (s : Node) (t : Nat) (r : String) : core (s.reply t r) = core s := by
  unfold Node.reply; split <;> rfl

theorem coreFsmFrame : FsmFrame core := ⟨core_panic, core_reply, fun _ _ => rfl⟩

theorem core_applyCommittedL (s : Node) : core s.applyCommittedL = core s := by
  unfold Node.applyCommittedL
  dsimp only
  rw [coreFsmFrame.fsmApply_eq]
  rfl

theorem core_setRepl (s : Node) (r : Repl) : core (s.setRepl r) = core s := rfl

theorem canChangeConfig_core {s s' : Node} (h : core s' = core s) (h0 : s.ldr.transfer.active = true) :
    s'.canChangeConfig = false := by
  obtain ⟨_, _, _, _, _, _, _, e⟩ := core_eq h
  exact C16.no_config_change_during_transfer s' (by rw [e]; exact h0)

/-- while a transfer is in progress `checkConfigAction` starts no change: only the round bookkeeping moves -/
theorem core_checkConfigAction (f : Nat) (s : Node) (t : Nat) (c : Config) (id : Nat)
    (h0 : s.ldr.transfer.active = true) : core (checkConfigAction f s t c id) = core s := by
  cases f with
  | zero => unfold checkConfigAction; exact core_panic _ _
  | succ n =>
    unfold checkConfigAction
    dsimp only
    split
    · rfl
    · split
      · rfl
      · split
        · rfl
        · have hc : (s.setRepl (roundStep s.lastLogIndex (c.get id).nextAction ‹Repl›).1).canChangeConfig = false :=
            canChangeConfig_core (core_setRepl _ _) h0
          rw [hc]
          rfl

/-- … and neither does `checkConfigActions` -/
theorem core_checkConfigActions (f : Nat) (s : Node) (t : Nat) (c : Config)
    (h0 : s.ldr.transfer.active = true) : core (checkConfigActions f s t c) = core s := by
  cases f with
  | zero => unfold checkConfigActions; exact core_panic _ _
  | succ n =>
    unfold checkConfigActions
    dsimp only
    have hc : s.canChangeConfig = false := C16.no_config_change_during_transfer s h0
    rw [hc]
    simp only [Bool.false_eq_true, false_and, if_false]
    have key : ∀ (ids : List Nat) (x : Node), core x = core s →
        core (ids.foldl (fun s id => match s.findRepl? id with
          | some _ => checkConfigAction n s t c id
          | none => s) x) = core s := by
      intro ids
      induction ids with
      | nil => intro x hx; exact hx
      | cons id ids ih =>
        intro x hx
        rw [List.foldl_cons]
        apply ih
        have hx0 : x.ldr.transfer.active = true := by rw [(core_eq hx).2.2.2.2.2.2.2]; exact h0
        split
        · rw [core_checkConfigAction n x t c id hx0]; exact hx
        · exact hx
    exact key _ _ rfl

/-- a batch handed to `storeEntry` while a transfer is in progress is rejected item by item; nothing is stored -/
theorem core_storeEntry_transfer (f : Nat) (s : Node) (b : List QItem) (h0 : s.ldr.transfer.active = true)
    (hf : f ≥ b.length) :
    core (storeEntry (f + 1) s b) = core s ∧
    ∀ q ∈ b, q.task ≠ 0 →
      RepMem { task := q.task, result := "inProgress:transferLeadership" } (storeEntry (f + 1) s b) := by
  unfold storeEntry
  dsimp only
  rw [C07.definite_rejection_transfer f s b h0 hf]
  have hmem : ∀ q ∈ b, q.task ≠ 0 → RepMem { task := q.task, result := "inProgress:transferLeadership" }
      (s.addReplies (b.flatMap (fun q => mkReply? q.task "inProgress:transferLeadership"))) := by
    intro q hq hq0
    exact List.mem_append_right _
      (mem_flatMap_mkReply? (fun q : QItem => q.task) (fun _ => "inProgress:transferLeadership") b q hq hq0)
  have hcore : core (s.addReplies (b.flatMap (fun q => mkReply? q.task "inProgress:transferLeadership"))) = core s := rfl
  have hA : ∀ (y : Reply) (x : Node), RepMem y x → RepMem y x.applyCommittedL :=
    fun y x hx => (repMem_step y).toSClosed.applyCommittedL_inv x hx
  split
  · split
    · rw [if_neg (by rw [(core_eq ((core_applyCommittedL _).trans hcore)).2.1]; exact Nat.lt_irrefl _)]
      exact ⟨(core_applyCommittedL _).trans hcore, fun q hq hq0 => hA _ _ (hmem q hq hq0)⟩
    · rw [if_neg (by rw [(core_eq hcore).2.1]; exact Nat.lt_irrefl _)]
      exact ⟨hcore, hmem⟩
  · rw [if_neg (by rw [(core_eq hcore).2.1]; exact Nat.lt_irrefl _)]
    exact ⟨hcore, hmem⟩

end SysMore
end Raft
