/-
The segment list at every crash point of a step of the model WITH membership changes: `SysInv.crashDisk_segsOK`
(Lemmas/SysInv.lean) covers the operations of `CommitRel.OpOK2` (no `ChangeConfig`); here the `ChangeConfig` request is
added — handled by a leader (`leader.onChangeConfig`: replies, `checkConfigActions`, `doChangeConfig`, all inside the
guarded closure `SysInv.SClosed.block`) or answered by a bootstrapped node that is not leader.
-/
import RaftVerif.Lemmas.SysInv

namespace Raft
namespace MemberSeg
open Node LogRel CommitRel SysInv

namespace SStepX
variable {Inv : Node → Prop} (h : SStep Inv)
include h

theorem onChangeConfig_inv (s : Node) (t : Nat) (c : Config) (hs : Inv s) : Inv (s.onChangeConfig t c) := by
  have rep : ∀ r, Inv (s.reply t r) := fun r => h.reply _ _ _ hs
  unfold Node.onChangeConfig
  split
  · exact rep _
  · split
    · exact rep _
    · split
      · exact rep _
      · split
        · exact rep _
        · split
          · exact rep _
          · split
            · exact rep _
            · split
              · exact rep _
              · extract_lets lastIndex x1
                have h1 : Inv x1 := h.checkConfigActions_inv _ _ _ _ hs
                split
                · exact h.doChangeConfig_inv _ _ _ _ h1
                · exact h1

/-- every case of `handle`, for the operations of the model with membership changes, on a bootstrapped node -/
theorem handle_inv (s : Node) (op : Op) (hok : OpOK op) (hcf : CfgRel.OpOk op)
    (hboot : s.configs.isBootstrapped = true) (hs : Inv s) : Inv (s.handle op) := by
  by_cases hc : ∃ t c, op = .changeConfig t c
  · obtain ⟨t, c, rfl⟩ := hc
    unfold Node.handle
    dsimp only
    split
    · exact onChangeConfig_inv h _ _ _ hs
    · unfold Node.bootstrap
      rw [if_pos hboot]
      exact h.reply _ _ _ hs
  · refine h.handle_inv s op ⟨hok, fun b hb => ?_, fun t c e => hc ⟨t, c, e⟩⟩ hs
    subst hb
    exact hcf

theorem step_inv (s : Node) (op : Op) (ra : List Nat) (ord : List (List Nat)) (hok : OpOK op) (hcf : CfgRel.OpOk op)
    (hboot : s.configs.isBootstrapped = true) (hs : Inv (s.begin ra ord)) : Inv (s.step op ra ord) := by
  unfold Node.step
  dsimp only
  have h1 := handle_inv h (s.begin ra ord) op hok hcf hboot hs
  split
  · exact h1
  · exact h.settle_inv _ _ _ h1

end SStepX

/-- **the segment list at every moment a process may die**, for the operations of the model with membership changes
(`LogRel.OpOK`, `CfgRel.OpOk`; `ChangeConfig` included) on a bootstrapped node: as `SysInv.crashDisk_segsOK`. -/
theorem crashDisk_segsOK (s : Node) (op : Op) (ra : List Nat) (ord : List (List Nat)) (k : Nat) (hok : OpOK op)
    (hcf : CfgRel.OpOk op) (hboot : s.configs.isBootstrapped = true)
    (h1 : C09.SegsOK s.log) (h2 : C06.LogWF s.log) (h3 : s.lastLogIndex = s.log.last)
    (hp : k ≠ 0 → (s.step op ra ord).panicked = none) : C09.SegsOK (C05.crashDisk s op ra ord k).log := by
  rcases k with _ | k
  · exact segsOK_durable _ h1 h2
  · have h0 : SegInv (s.begin ra ord) := fun _ => ⟨h1, h2, h3, fun p hp' => by cases hp'⟩
    obtain ⟨a, b, _, d⟩ := SStepX.step_inv segStep s op ra ord hok hcf hboot h0 (hp (Nat.succ_ne_zero k))
    rcases C04Sys.crashDisk_cases s op ra ord (k + 1) with e | ⟨p, hp', e⟩ | e
    · rw [e]; exact segsOK_durable _ h1 h2
    · rw [e]; exact d p hp'
    · rw [e]; exact segsOK_durable _ a b

end MemberSeg
end Raft

#print axioms Raft.MemberSeg.crashDisk_segsOK
