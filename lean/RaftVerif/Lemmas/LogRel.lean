/-
Node-level two-state facts about the log, for the cluster-level log-matching proof (Sys/Replication.lean,
Props/C04Sys.lean).

Setting: no snapshot is ever taken or installed and the log is never compacted (`NWF`: snapshot index 0, no
snapshot file, `log.prev = 0`, entry number k has index k+1, `lastLogIndex`/`lastLogTerm` describe the last
entry). Under `NWF`

* `Chain T o es` — the entries `es` form a path in the ledger `T` of created entries (each entry is recorded
  in `T` together with the term of its predecessor);
* `LClosed` — a guarded variant of `Closed` (Lemmas/Inv.lean): the `append` primitive is only used for an
  entry with index `lastLogIndex + 1` and the node's current term; `LClosed.block` is the corresponding lemma
  for the mutually recursive leader block; `HI b` is the instance "relative to `b`: same term, the log is the
  log of `b` plus entries of that term, every new crash point holds a prefix of the current log";
* `leader_step` — for every operation other than an append request (and the excluded snapshot operations):
  the log after `Node.step` is the log before plus entries of ONE term `te`, and if any entry was added the
  node was leader of `te` before the step, or counted the last missing vote in this step, or elected itself
  with a quorum of one in this step (`Story`); every crash point of the step holds a prefix of the old or of
  the new log;
* `follower_step` — for an append request whose entries form a path in `T` attached at `prevLogIndex` with
  term `prevLogTerm`: the log after the step (and at every crash point) is again a path in `T`;
* `restart_nwf` — what a restart reads back.
-/
import RaftVerif.Lemmas.RoleRel
import RaftVerif.Lemmas.LocalA
import RaftVerif.Props.C05
import RaftVerif.Props.C04

namespace Raft
namespace LogRel
open Node

/-! ## the ledger of created entries and paths in it -/

/-- A created entry: the entry, the term of its predecessor (0 for index 1), and the node that created it
(0: the entry was in the initial logs). -/
structure CEntry where
  e : Entry
  pt : Nat
  cr : Nat
  deriving DecidableEq, Repr

/-- `es` is a path in `T`: every entry is recorded in `T` with the term of the entry before it; for the first
entry the predecessor term must be `pt` if `o = some pt` and is unconstrained if `o = none`. -/
def Chain (T : List CEntry) : Option Nat → List Entry → Prop
  | _, [] => True
  | o, e :: es => (∃ c ∈ T, c.e = e ∧ (∀ pt, o = some pt → c.pt = pt)) ∧ Chain T (some e.term) es

/-- term of the last entry (0 for the empty list) -/
def lastTerm (es : List Entry) : Nat := (es.getLast?.map (·.term)).getD 0

/-- the predecessor term seen by an entry appended after `es` (which itself is attached to `o`) -/
def endO (o : Option Nat) (es : List Entry) : Option Nat :=
  match es.getLast? with
  | some e => some e.term
  | none => o

/-- term of the entry with index `i` in a contiguous list starting at index 1 (0 for index 0 or beyond) -/
def termAt (es : List Entry) (i : Nat) : Nat := if i = 0 then 0 else ((es[i - 1]?).map (·.term)).getD 0

theorem Chain.mono {T T' : List CEntry} (h : ∀ c ∈ T, c ∈ T') : ∀ {o : Option Nat} {es : List Entry},
    Chain T o es → Chain T' o es := by
  intro o es
  induction es generalizing o with
  | nil => intro _; trivial
  | cons e es ih =>
    intro hc
    obtain ⟨⟨c, hm, h1, h2⟩, h3⟩ := hc
    exact ⟨⟨c, h _ hm, h1, h2⟩, ih h3⟩

theorem Chain.weaken {T : List CEntry} {o : Option Nat} {es : List Entry} (h : Chain T o es) :
    Chain T none es := by
  cases es with
  | nil => trivial
  | cons e es =>
    obtain ⟨⟨c, hm, h1, _⟩, h3⟩ := h
    exact ⟨⟨c, hm, h1, fun pt hp => by cases hp⟩, h3⟩

theorem endO_append_singleton (o : Option Nat) (es : List Entry) (e : Entry) :
    endO o (es ++ [e]) = some e.term := by
  unfold endO; simp

theorem endO_nil (o : Option Nat) : endO o [] = o := rfl

theorem endO_cons (o : Option Nat) (e : Entry) (es : List Entry) : endO o (e :: es) = endO (some e.term) es := by
  unfold endO
  cases es with
  | nil => simp
  | cons x xs =>
    rw [List.getLast?_cons_cons]
    cases h : (x :: xs).getLast? with
    | none => simp at h
    | some y => rfl

theorem chain_append {T : List CEntry} : ∀ {o : Option Nat} {a b : List Entry},
    Chain T o (a ++ b) ↔ Chain T o a ∧ Chain T (endO o a) b := by
  intro o a
  induction a generalizing o with
  | nil => intro b; simp [Chain, endO_nil]
  | cons e es ih =>
    intro b
    rw [List.cons_append, endO_cons]
    constructor
    · intro h
      obtain ⟨h1, h2⟩ := h
      obtain ⟨h3, h4⟩ := ih.mp h2
      exact ⟨⟨h1, h3⟩, h4⟩
    · intro h
      obtain ⟨⟨h1, h3⟩, h4⟩ := h
      exact ⟨h1, ih.mpr ⟨h3, h4⟩⟩

theorem Chain.prefix {T : List CEntry} {o : Option Nat} {l es : List Entry} (h : Chain T o es) (hp : l <+: es) :
    Chain T o l := by
  obtain ⟨r, hr⟩ := hp
  rw [← hr] at h
  exact (chain_append.mp h).1

theorem Chain.take {T : List CEntry} {o : Option Nat} {es : List Entry} (h : Chain T o es) (n : Nat) :
    Chain T o (es.take n) := h.prefix (List.take_prefix n es)

theorem lastTerm_append_singleton (es : List Entry) (e : Entry) : lastTerm (es ++ [e]) = e.term := by
  unfold lastTerm; simp

theorem lastTerm_nil : lastTerm [] = 0 := rfl

theorem endO_none_eq (es : List Entry) (h : es ≠ []) : endO none es = some (lastTerm es) := by
  unfold endO lastTerm
  cases hl : es.getLast? with
  | none => exact absurd (List.getLast?_eq_none_iff.mp hl) h
  | some e => simp

/-- term at the last index is the last term -/
theorem termAt_length (es : List Entry) : termAt es es.length = lastTerm es := by
  unfold termAt lastTerm
  split
  · rename_i h
    have : es = [] := List.eq_nil_of_length_eq_zero h
    subst this; rfl
  · rw [List.getLast?_eq_getElem?]

theorem termAt_take (es : List Entry) (n i : Nat) (h : i ≤ n) : termAt (es.take n) i = termAt es i := by
  unfold termAt
  split
  · rfl
  · rw [List.getElem?_take_of_lt (by omega)]

theorem termAt_append_left (es r : List Entry) (i : Nat) (h : i ≤ es.length) : termAt (es ++ r) i = termAt es i := by
  unfold termAt
  split
  · rfl
  · rw [List.getElem?_append_left (by omega)]

/-- the last term of the first `n` entries is the term at index `n` -/
theorem lastTerm_take (es : List Entry) (n : Nat) (h : n ≤ es.length) : lastTerm (es.take n) = termAt es n := by
  have hl : (es.take n).length = n := by rw [List.length_take]; omega
  have := termAt_length (es.take n)
  rw [hl] at this
  rw [← this, termAt_take es n n (Nat.le_refl _)]

/-- the predecessor term seen after the first `n ≥ 1` entries -/
theorem endO_take (o : Option Nat) (es : List Entry) (n : Nat) (h1 : 1 ≤ n) (h : n ≤ es.length) :
    endO o (es.take n) = some (termAt es n) := by
  have hne : es.take n ≠ [] := by
    intro he
    have := congrArg List.length he
    simp only [List.length_take, List.length_nil] at this
    omega
  have : endO o (es.take n) = endO none (es.take n) := by
    unfold endO
    cases hl : (es.take n).getLast? with
    | none => exact absurd (List.getLast?_eq_none_iff.mp hl) hne
    | some e => rfl
  rw [this, endO_none_eq _ hne, lastTerm_take es n h]

/-! ## well-formed node states (no snapshot, no compaction) -/

/-- No snapshot was taken, the log starts at index 1, entry number k has index k+1 and the cached
coordinates of the last entry are right. -/
structure NWF (s : Node) : Prop where
  snapIndex : s.snapIndex = 0
  snaps : s.snapsDisk = []
  prev : s.log.prev = 0
  contig : ∀ k (h : k < s.log.entries.length), s.log.entries[k].index = k + 1
  last : s.lastLogIndex = s.log.entries.length
  lastT : s.lastLogTerm = lastTerm s.log.entries

theorem nwf_congr {s s' : Node} (h : NWF s) (e1 : s'.log = s.log) (e2 : s'.lastLogIndex = s.lastLogIndex)
    (e3 : s'.lastLogTerm = s.lastLogTerm) (e4 : s'.snapIndex = s.snapIndex) (e5 : s'.snapsDisk = s.snapsDisk) :
    NWF s' := by
  obtain ⟨a, b, c, d, e, f⟩ := h
  refine ⟨by rw [e4]; exact a, by rw [e5]; exact b, by rw [e1]; exact c, ?_, by rw [e2, e1]; exact e,
    by rw [e3, e1]; exact f⟩
  rw [e1]; exact d

/-- `Log.Get(i)` in a well-formed state -/
theorem NWF.get? {s : Node} (h : NWF s) (i : Nat) : s.log.get? i = if 0 < i then s.log.entries[i - 1]? else none := by
  unfold NLog.get?
  rw [h.prev]
  split
  · rw [Nat.sub_zero]
  · rfl

theorem NWF.entryTerm {s : Node} (h : NWF s) (i : Nat) (h1 : 1 ≤ i) (h2 : i ≤ s.log.entries.length) :
    s.entryTerm? i = some (termAt s.log.entries i) := by
  unfold Node.entryTerm?
  rw [h.get?, if_pos (by omega)]
  unfold termAt
  rw [if_neg (by omega)]
  have : i - 1 < s.log.entries.length := by omega
  rw [List.getElem?_eq_getElem this]
  rfl

theorem contig_append {es : List Entry} (hc : ∀ k (h : k < es.length), es[k].index = k + 1) (e : Entry)
    (he : e.index = es.length + 1) : ∀ k (h : k < (es ++ [e]).length), (es ++ [e])[k].index = k + 1 := by
  intro k h
  by_cases hk : k < es.length
  · rw [List.getElem_append_left hk]; exact hc k hk
  · have : k = es.length := by simp at h; omega
    subst this
    simp [he]

theorem contig_take {es : List Entry} (hc : ∀ k (h : k < es.length), es[k].index = k + 1) (n : Nat) :
    ∀ k (h : k < (es.take n).length), (es.take n)[k].index = k + 1 := by
  intro k h
  rw [List.getElem_take]
  exact hc k (by rw [List.length_take] at h; omega)

theorem contig_prefix {l es : List Entry} (hc : ∀ k (h : k < es.length), es[k].index = k + 1) (hp : l <+: es) :
    ∀ k (h : k < l.length), l[k].index = k + 1 := by
  obtain ⟨r, hr⟩ := hp
  intro k h
  have := hc k (by rw [← hr, List.length_append]; omega)
  simp only [← hr] at this
  rw [List.getElem_append_left h] at this
  exact this

/-! ## guarded closure for the leader handlers -/

/-- Like `Closed` (Lemmas/Inv.lean), but `append` is only required for the entry the leader code actually
appends: index `lastLogIndex + 1`, term = the node's current term. -/
structure LClosed (Inv : Node → Prop) : Prop where
  panic : ∀ s site, Inv s → Inv (s.panic site)
  reply : ∀ s t r, Inv s → Inv (s.reply t r)
  point : ∀ s n, Inv s → Inv (s.point n)
  ldr : ∀ (s : Node) l, Inv s → Inv (s.withLdr l)
  append : ∀ (s : Node) e roll, Inv s → e.index = s.lastLogIndex + 1 → e.term = s.term →
    Inv { s with log := s.log.append e roll, lastLogIndex := e.index, lastLogTerm := e.term }
  commitN : ∀ (s : Node) n, Inv s → Inv { s with log := s.log.commitN n }
  fsm : ∀ (s : Node) f, Inv s → Inv (s.withFsm f)
  changeConfigR : ∀ (s : Node) c, Inv s → Inv (s.changeConfigR c)
  setCommitIndexR : ∀ (s : Node) i, Inv s → i > s.commitIndex → Inv (s.setCommitIndexR i).1
  popOrder : ∀ (s : Node), Inv s → Inv s.popOrder

theorem assert_term (s : Node) (b : Bool) (site : String) : (s.assert b site).term = s.term :=
  (SameKey.assert s b site).term

namespace LClosed

variable {Inv : Node → Prop} (h : LClosed Inv)
include h

theorem assert_inv (s : Node) (b : Bool) (site : String) (hs : Inv s) : Inv (s.assert b site) := by
  unfold Node.assert; split
  · exact hs
  · exact h.panic _ _ hs

theorem appendEntry_inv (s : Node) (e : Entry) (hs : Inv s) (hi : e.index = s.lastLogIndex + 1)
    (ht : e.term = s.term) : Inv (s.appendEntry e) := by
  unfold Node.appendEntry
  refine h.append _ _ _ (h.assert_inv _ _ _ hs) ?_ ?_
  · rw [(assert_fields s _ _).2.1]; exact hi
  · rw [assert_term]; exact ht

theorem commitLog_inv (s : Node) (n : Nat) (hs : Inv s) : Inv (s.commitLog n) := by
  unfold Node.commitLog; exact h.point _ _ (h.commitN _ _ hs)

theorem setRepl_inv (s : Node) (r : Repl) (hs : Inv s) : Inv (s.setRepl r) := by
  unfold Node.setRepl; exact h.ldr _ _ hs

theorem addReplication_inv (s : Node) (n : CNode) (hs : Inv s) : Inv (s.addReplication n) := by
  unfold Node.addReplication
  apply h.setRepl_inv
  split
  · exact h.assert_inv _ _ _ hs
  · exact h.panic _ _ (h.assert_inv _ _ _ hs)

theorem notifyFlr_inv (s : Node) (hs : Inv s) : Inv s.notifyFlr := by
  unfold Node.notifyFlr; split
  · exact hs
  · split
    · exact hs
    · exact h.panic _ _ hs

theorem beginFinishedRounds_inv (s : Node) (hs : Inv s) : Inv s.beginFinishedRounds := by
  unfold Node.beginFinishedRounds; exact h.ldr _ _ hs

theorem fsmApplyLogTo_inv (s : Node) (n : Nat) (hs : Inv s) : Inv (s.fsmApplyLogTo n) := by
  unfold Node.fsmApplyLogTo
  split
  · exact hs
  · split
    · exact h.panic _ _ hs
    · extract_lets es ups lastTerm cfg s1
      have h1 : Inv s1 := by unfold s1; split; exact h.panic _ _ hs; exact hs
      split
      · exact h.panic _ _ hs
      · exact h.fsm _ _ h1

theorem fsmApplyItems_inv (s : Node) (qs : List QItem) (hs : Inv s) : Inv (s.fsmApplyItems qs) := by
  induction qs generalizing s with
  | nil => exact hs
  | cons q qs ih =>
    unfold Node.fsmApplyItems
    dsimp only
    apply ih
    apply h.reply
    have h1 : Inv (s.assert (q.index == s.fsm.index + 1) "fsm.assertNext") := h.assert_inv s _ _ hs
    repeat' split
    all_goals first
      | exact h.fsm _ _ (h.fsm _ _ (h.fsm _ _ h1))
      | exact h.fsm _ _ (h.fsm _ _ h1)
      | exact h.fsm _ _ h1
      | exact h1

theorem fsmApply_inv (s : Node) (qs : List QItem) (hs : Inv s) : Inv (s.fsmApply qs) := by
  unfold Node.fsmApply
  split
  · exact h.panic _ _ hs
  · split
    · exact h.panic _ _ hs
    · dsimp only
      exact h.assert_inv _ _ _ (h.fsmApplyItems_inv _ _ (h.fsmApplyLogTo_inv _ _ hs))

theorem applyCommittedL_inv (s : Node) (hs : Inv s) : Inv s.applyCommittedL := by
  unfold Node.applyCommittedL; exact h.fsmApply_inv _ _ (h.ldr _ _ hs)

/-- The leader block preserves every guarded-closed invariant, by induction on the recursion budget. -/
theorem block : ∀ fuel : Nat,
    (∀ s b, Inv s → Inv (storeEntry fuel s b)) ∧
    (∀ s b, Inv s → Inv (storeItems fuel s b)) ∧
    (∀ s c, Inv s → Inv (changeConfigL fuel s c)) ∧
    (∀ s t c, Inv s → Inv (doChangeConfig fuel s t c)) ∧
    (∀ s t c, Inv s → Inv (checkConfigActions fuel s t c)) ∧
    (∀ s t c id, Inv s → Inv (checkConfigAction fuel s t c id)) ∧
    (∀ s i, Inv s → i > s.commitIndex → Inv (setCommitIndexL fuel s i)) ∧
    (∀ s, Inv s → Inv (onMajorityCommit fuel s)) := by
  intro fuel
  induction fuel with
  | zero =>
    refine ⟨?_, ?_, ?_, ?_, ?_, ?_, ?_, ?_⟩ <;> intros <;> (try unfold storeItems) <;>
      (try unfold storeEntry) <;> (try unfold changeConfigL) <;> (try unfold doChangeConfig) <;>
      (try unfold checkConfigActions) <;> (try unfold checkConfigAction) <;>
      (try unfold setCommitIndexL) <;> (try unfold onMajorityCommit) <;>
      (try split) <;> first | assumption | (apply h.panic; assumption)
  | succ n ih =>
    obtain ⟨ihSE, ihSI, ihCL, ihDC, ihCAs, ihCA, ihSC, ihMC⟩ := ih
    refine ⟨?_, ?_, ?_, ?_, ?_, ?_, ?_, ?_⟩
    · -- storeEntry
      intro s b hs
      unfold storeEntry; dsimp only
      have h1 : Inv (storeItems n s b) := ihSI _ _ hs
      have h2 := h.applyCommittedL_inv _ h1
      repeat' split
      all_goals first
        | exact ihMC _ (h.notifyFlr_inv _ (h.beginFinishedRounds_inv _ h2))
        | exact ihMC _ (h.notifyFlr_inv _ (h.beginFinishedRounds_inv _ h1))
        | exact h.notifyFlr_inv _ (h.beginFinishedRounds_inv _ h2)
        | exact h.notifyFlr_inv _ (h.beginFinishedRounds_inv _ h1)
        | exact h2
        | exact h1
    · -- storeItems
      intro s b hs
      cases b with
      | nil => unfold storeItems; exact hs
      | cons q qs =>
        unfold storeItems; dsimp only
        apply ihSI
        split
        · exact h.reply _ _ _ hs
        · split
          · split
            · exact h.reply _ _ _ hs
            · exact h.reply _ _ _ hs
          · have h1 := h.ldr s { s.ldr with queue := s.ldr.queue ++ [{ q with index := s.lastLogIndex + 1, term := s.term, cfg := q.cfg.map Config.payload }] } hs
            have ha := h.appendEntry_inv _
              (QItem.toEntry { q with index := s.lastLogIndex + 1, term := s.term, cfg := q.cfg.map Config.payload })
              h1 rfl rfl
            split
            · split
              · split
                · exact ihCL _ _ ha
                · exact h.panic _ _ ha
              · exact ha
            · exact h1
    · -- changeConfigL
      intro s c hs
      unfold changeConfigL; dsimp only
      apply ihCAs
      apply Closed.foldl_inv
      · intro s x hs
        split
        · exact hs
        · split
          · exact h.addReplication_inv _ _ hs
          · exact h.setRepl_inv _ _ hs
      · exact h.ldr _ _ (h.changeConfigR _ _ (h.ldr _ _ hs))
    · -- doChangeConfig
      intro s t c hs
      unfold doChangeConfig; exact ihSE _ _ hs
    · -- checkConfigActions
      intro s t c hs
      unfold checkConfigActions; dsimp only
      apply Closed.foldl_inv
      · intro s x hs
        split
        · exact ihCA _ _ _ _ hs
        · exact hs
      · apply h.popOrder
        split
        · split
          · exact ihDC _ _ _ hs
          · split
            · exact ihDC _ _ _ hs
            · exact h.panic _ _ hs
        · exact hs
    · -- checkConfigAction
      intro s t c id hs
      unfold checkConfigAction; dsimp only
      have h1 := fun r => h.setRepl_inv s r hs
      repeat' split
      all_goals first | exact hs | exact h1 _ | exact ihDC _ _ _ (h1 _)
    · -- setCommitIndexL
      intro s i hs hi
      unfold setCommitIndexL
      extract_lets s1 ready r s2 s3
      have h2 : Inv s2 := h.setCommitIndexR _ i (h.commitLog_inv _ i hs) hi
      have h3 : Inv s3 := by
        unfold s3; split
        · exact ihCAs _ _ _ h2
        · exact h2
      split
      · split
        · exact h.ldr _ _ (Closed.foldl_inv _ (fun s t hs => h.reply _ _ _ hs) _ _ h3)
        · exact ihCAs _ _ _ h3
      · exact h3
    · -- onMajorityCommit
      intro s hs
      unfold onMajorityCommit; dsimp only
      have h1 := h.panic s "nil.majorityMatchIndex" hs
      have hc : ∀ site, (s.panic site).commitIndex = s.commitIndex := by
        intro site; unfold Node.panic; split <;> rfl
      split
      · split
        · rename_i hgt
          exact h.notifyFlr_inv _ (h.applyCommittedL_inv _ (ihSC _ _ hs hgt.1))
        · exact hs
      · split
        · rename_i hgt
          exact h.notifyFlr_inv _ (h.applyCommittedL_inv _ (ihSC _ _ h1 (by rw [hc] at hgt; rw [hc]; exact hgt.1)))
        · exact h1

theorem storeEntry_l (f : Nat) (s : Node) (b) (hs : Inv s) : Inv (storeEntry f s b) := (h.block f).1 s b hs
theorem doChangeConfig_l (f : Nat) (s : Node) (t c) (hs : Inv s) : Inv (doChangeConfig f s t c) :=
  (h.block f).2.2.2.1 s t c hs
theorem checkConfigActions_l (f : Nat) (s : Node) (t c) (hs : Inv s) : Inv (checkConfigActions f s t c) :=
  (h.block f).2.2.2.2.1 s t c hs
theorem checkConfigAction_l (f : Nat) (s : Node) (t c id) (hs : Inv s) : Inv (checkConfigAction f s t c id) :=
  (h.block f).2.2.2.2.2.1 s t c id hs
theorem onMajorityCommit_l (f : Nat) (s : Node) (hs : Inv s) : Inv (onMajorityCommit f s) :=
  (h.block f).2.2.2.2.2.2.2 s hs

theorem transferReply_l (s : Node) (r : String) (hs : Inv s) : Inv (s.transferReply r) := by
  unfold Node.transferReply; exact h.ldr _ _ (h.reply _ _ _ hs)

theorem tryTransfer_l (s : Node) (hs : Inv s) : Inv s.tryTransfer := by
  unfold Node.tryTransfer; dsimp only
  have hp := h.popOrder s hs
  repeat' split
  all_goals first
    | exact hs
    | exact hp
    | exact h.panic _ _ hs
    | exact h.panic _ _ hp
    | exact h.ldr _ _ hs
    | exact h.ldr _ _ hp
    | exact h.ldr _ _ (h.panic _ _ hs)
    | exact h.ldr _ _ (h.panic _ _ hp)

theorem onTransfer_l (s : Node) (t g : Nat) (hs : Inv s) : Inv (s.onTransfer t g) := by
  unfold Node.onTransfer; dsimp only
  split
  · exact h.reply _ _ _ hs
  · exact h.tryTransfer_l _ (h.ldr _ _ hs)

theorem replyTransfer_l (s : Node) (r : String) (hs : Inv s) : Inv (s.replyTransfer r) := by
  unfold Node.replyTransfer; exact h.checkConfigActions_l _ _ _ _ (h.transferReply_l _ _ hs)

theorem onTimeoutNowResult_l (s : Node) (src : Nat) (e : Bool) (r : Nat) (hs : Inv s) :
    Inv (s.onTimeoutNowResult src e r) := by
  unfold Node.onTimeoutNowResult
  extract_lets l0 t0 s1 s2 l1 t1
  have h0 : Inv s1 := h.ldr _ _ hs
  have h2 : Inv s2 := by
    unfold s2
    split
    · split
      · exact h.setRepl_inv _ _ h0
      · exact h0
    · exact h.panic _ _ h0
  split
  · split
    · exact h.tryTransfer_l _ h2
    · exact h2
  · split
    · split
      · exact h.replyTransfer_l _ _ h0
      · exact h.tryTransfer_l _ h0
    · exact h.ldr _ _ h0

theorem onChangeConfig_l (s : Node) (t : Nat) (c : Config) (hs : Inv s) : Inv (s.onChangeConfig t c) := by
  unfold Node.onChangeConfig
  dsimp only
  repeat' split
  all_goals first
    | exact h.reply _ _ _ hs
    | exact h.doChangeConfig_l _ _ _ _ (h.checkConfigActions_l _ _ _ _ hs)
    | exact h.checkConfigActions_l _ _ _ _ hs

theorem onWaitForStable_l (s : Node) (t : Nat) (hs : Inv s) : Inv (s.onWaitForStable t) := by
  unfold Node.onWaitForStable
  split
  · exact h.reply _ _ _ hs
  · exact h.ldr _ _ hs

end LClosed

namespace LClosed
variable {Inv : Node → Prop} (h : LClosed Inv)
include h

theorem leaderInit_l (s : Node) (hs : Inv s) : Inv s.leaderInit := by
  unfold Node.leaderInit; dsimp only
  apply h.storeEntry_l
  apply h.checkConfigActions_l
  apply Closed.foldl_inv
  · intro s x hs
    split
    · exact hs
    · exact h.addReplication_inv _ _ hs
  · exact h.ldr _ _ (h.assert_inv _ _ _ hs)

end LClosed

/-! ## the instance: relative to `b`, same term, the log grew by entries of that term -/

/-- the fields the log invariants look at -/
def Core (s : Node) : NLog × Nat × Nat × Nat × List SnapFile × Nat × Nat × List (String × Durable) :=
  (s.log, s.lastLogIndex, s.lastLogTerm, s.snapIndex, s.snapsDisk, s.term, s.durTerm, s.trace)

/-- a disk content recorded at a crash point: no snapshot, the log starts at 1 and holds a prefix of `es`,
the durable term is `t` -/
def PtNew (t : Nat) (es : List Entry) (d : Durable) : Prop :=
  d.snaps = [] ∧ d.log.prev = 0 ∧ d.log.entries <+: es ∧ d.term = t

/-- Relative to `b` (the state a leader handler starts from): well-formed, same term in memory and on
disk, the log is the log of `b` plus entries of that term, and every crash point recorded since holds a
prefix of the current log. -/
structure HI (b s : Node) : Prop where
  nwf : NWF s
  term : s.term = b.term
  dur : s.durTerm = b.durTerm
  ext : ∃ es, s.log.entries = b.log.entries ++ es ∧ ∀ e ∈ es, e.term = b.term
  tr : ∀ p ∈ s.trace, p ∈ b.trace ∨ PtNew b.durTerm s.log.entries p.2

theorem hi_congr {b s s' : Node} (h : HI b s) (e : Core s' = Core s) : HI b s' := by
  unfold Core at e
  simp only [Prod.mk.injEq] at e
  obtain ⟨e1, e2, e3, e4, e5, e6, e7, e8⟩ := e
  obtain ⟨a, b', c, d, f⟩ := h
  refine ⟨nwf_congr a e1 e2 e3 e4 e5, by rw [e6]; exact b', by rw [e7]; exact c, by rw [e1]; exact d, ?_⟩
  rw [e8, e1]; exact f

theorem hi_refl (b : Node) (h : NWF b) : HI b b :=
  ⟨h, rfl, rfl, ⟨[], by simp, fun e he => by cases he⟩, fun p hp => Or.inl hp⟩

theorem core_panic (s : Node) (site : String) : Core (s.panic site) = Core s := by
  unfold Node.panic; split <;> rfl

theorem core_reply (s : Node) (t : Nat) (r : String) : Core (s.reply t r) = Core s := by
  unfold Node.reply; split <;> rfl

theorem core_changeConfigR (s : Node) (c : Config) : Core (s.changeConfigR c) = Core s := by
  unfold Node.changeConfigR; dsimp only; split <;> rfl

theorem core_commitConfig (s : Node) : Core s.commitConfig = Core s := by
  unfold Node.commitConfig; dsimp only; split <;> rfl

theorem core_stepDown (s : Node) : Core s.stepDownIfNotVoter = Core s := by
  unfold Node.stepDownIfNotVoter; split <;> rfl

theorem core_doClose (s : Node) (r : String) : Core (s.doClose r) = Core s := by
  unfold Node.doClose; split <;> rfl

theorem core_closeIfRemoved (s : Node) : Core s.closeIfRemoved = Core s := by
  unfold Node.closeIfRemoved; split
  · exact core_doClose _ _
  · rfl

theorem core_setCommitIndexR (s : Node) (i : Nat) : Core (s.setCommitIndexR i).1 = Core s := by
  unfold Node.setCommitIndexR
  split
  · show Core (s.withCommitIndex i).commitConfig.stepDownIfNotVoter.closeIfRemoved = _
    rw [core_closeIfRemoved, core_stepDown, core_commitConfig]; rfl
  · rfl

theorem append_parts (l : NLog) (e : Entry) (roll : Bool) :
    (l.append e roll).prev = l.prev ∧ (l.append e roll).entries = l.entries ++ [e] := by
  unfold NLog.append; split <;> exact ⟨rfl, rfl⟩

theorem commitN_parts (l : NLog) (n : Nat) :
    (l.commitN n).prev = l.prev ∧ (l.commitN n).entries = l.entries := by
  unfold NLog.commitN; split <;> exact ⟨rfl, rfl⟩

theorem hi_point {b s : Node} (n : String) (h : HI b s) : HI b (s.point n) := by
  obtain ⟨a, b', c, d, f⟩ := h
  refine ⟨nwf_congr a rfl rfl rfl rfl rfl, b', c, d, ?_⟩
  intro p hp
  simp only [Node.point, List.mem_append, List.mem_singleton] at hp
  rcases hp with hp | hp
  · exact f p hp
  · subst hp
    right
    exact ⟨a.snaps, a.prev, List.take_prefix _ _, c⟩

theorem hi_closed (b : Node) : LClosed (HI b) where
  panic := fun s site h => hi_congr h (core_panic s site)
  reply := fun s t r h => hi_congr h (core_reply s t r)
  point := fun s n h => hi_point n h
  ldr := fun s l h => hi_congr h rfl
  append := fun s e roll h hi ht => by
    obtain ⟨a, b', c, ⟨es, d1, d2⟩, f⟩ := h
    obtain ⟨p1, p2⟩ := append_parts s.log e roll
    have hi' : e.index = s.log.entries.length + 1 := by rw [hi, a.last]
    refine ⟨⟨a.snapIndex, a.snaps, ?_, ?_, ?_, ?_⟩, b', c, ⟨es ++ [e], ?_, ?_⟩, ?_⟩
    · show (s.log.append e roll).prev = 0
      rw [p1]; exact a.prev
    · show ∀ k (hk : k < (s.log.append e roll).entries.length), (s.log.append e roll).entries[k].index = k + 1
      rw [p2]; exact contig_append a.contig e hi'
    · show e.index = (s.log.append e roll).entries.length
      rw [p2, List.length_append, hi']; rfl
    · show e.term = lastTerm (s.log.append e roll).entries
      rw [p2, lastTerm_append_singleton]
    · show (s.log.append e roll).entries = _
      rw [p2, d1, List.append_assoc]
    · intro x hx
      rcases List.mem_append.mp hx with hx | hx
      · exact d2 x hx
      · rw [List.mem_singleton.mp hx, ht, b']
    · intro p hp
      rcases f p hp with hp' | ⟨q1, q2, q3, q4⟩
      · exact Or.inl hp'
      · right
        refine ⟨q1, q2, ?_, q4⟩
        show _ <+: (s.log.append e roll).entries
        rw [p2]
        exact List.IsPrefix.trans q3 (List.prefix_append _ _)
  commitN := fun s n h => by
    obtain ⟨a, b', c, d, f⟩ := h
    obtain ⟨p1, p2⟩ := commitN_parts s.log n
    refine ⟨⟨a.snapIndex, a.snaps, ?_, ?_, ?_, ?_⟩, b', c, ?_, ?_⟩
    · show (s.log.commitN n).prev = 0
      rw [p1]; exact a.prev
    · show ∀ k (hk : k < (s.log.commitN n).entries.length), (s.log.commitN n).entries[k].index = k + 1
      rw [p2]; exact a.contig
    · show s.lastLogIndex = (s.log.commitN n).entries.length
      rw [p2]; exact a.last
    · show s.lastLogTerm = lastTerm (s.log.commitN n).entries
      rw [p2]; exact a.lastT
    · show ∃ es, (s.log.commitN n).entries = _ ∧ _
      rw [p2]; exact d
    · show ∀ p ∈ s.trace, p ∈ b.trace ∨ PtNew b.durTerm (s.log.commitN n).entries p.2
      rw [p2]; exact f
  fsm := fun s f h => hi_congr h rfl
  changeConfigR := fun s c h => hi_congr h (core_changeConfigR s c)
  setCommitIndexR := fun s i h _ => hi_congr h (core_setCommitIndexR s i)
  popOrder := fun s h => hi_congr h rfl

/-! ## handlers that do not touch the log -/

/-- the log-related fields -/
def LCore (s : Node) : NLog × Nat × Nat × Nat × List SnapFile :=
  (s.log, s.lastLogIndex, s.lastLogTerm, s.snapIndex, s.snapsDisk)

/-- Relative to `b`: log, cached last coordinates and snapshot data are those of `b`; every crash point
recorded since holds the durable part of that log. -/
structure SL (b s : Node) : Prop where
  core : LCore s = LCore b
  tr : ∀ p ∈ s.trace, p ∈ b.trace ∨ (p.2.log = b.log.durable ∧ p.2.snaps = b.snapsDisk)

theorem sl_refl (b : Node) : SL b b := ⟨rfl, fun _ hp => Or.inl hp⟩

theorem sl_congr {b s s' : Node} (h : SL b s) (e : LCore s' = LCore s) (et : s'.trace = s.trace) : SL b s' :=
  ⟨e.trans h.core, by rw [et]; exact h.tr⟩

theorem sl_trans {a b c : Node} (h1 : SL a b) (h2 : SL b c) : SL a c := by
  refine ⟨h2.core.trans h1.core, fun p hp => ?_⟩
  have e := h1.core
  unfold LCore at e
  simp only [Prod.mk.injEq] at e
  rcases h2.tr p hp with hp' | ⟨q1, q2⟩
  · exact h1.tr p hp'
  · right; rw [q1, q2, e.1, e.2.2.2.2]; exact ⟨rfl, rfl⟩

theorem sl_point {b s : Node} (n : String) (h : SL b s) : SL b (s.point n) := by
  refine ⟨h.core, fun p hp => ?_⟩
  simp only [Node.point, List.mem_append, List.mem_singleton] at hp
  have e := h.core
  unfold LCore at e
  simp only [Prod.mk.injEq] at e
  rcases hp with hp | hp
  · exact h.tr p hp
  · subst hp
    right
    show s.log.durable = _ ∧ s.snapsDisk = _
    rw [e.1, e.2.2.2.2]; exact ⟨rfl, rfl⟩

theorem sl_panic {b s : Node} (site : String) (h : SL b s) : SL b (s.panic site) := by
  refine sl_congr h ?_ ?_ <;> (unfold Node.panic; split <;> rfl)

theorem sl_reply {b s : Node} (t : Nat) (r : String) (h : SL b s) : SL b (s.reply t r) := by
  refine sl_congr h ?_ ?_ <;> (unfold Node.reply; split <;> rfl)

theorem sl_assert {b s : Node} (c : Bool) (site : String) (h : SL b s) : SL b (s.assert c site) := by
  unfold Node.assert; split
  · exact h
  · exact sl_panic _ h

theorem sl_setRole {b s : Node} (r : Role) (h : SL b s) : SL b (s.setRole r) := sl_congr h rfl rfl
theorem sl_setLeader {b s : Node} (l : Nat) (h : SL b s) : SL b (s.setLeader l) := sl_congr h rfl rfl
theorem sl_ret {b s : Node} (r : Nat) (h : SL b s) : SL b (s.ret r) := sl_congr h rfl rfl
theorem sl_rpcReply {b s : Node} (r : Option RpcReply) (h : SL b s) : SL b (s.withRpcReply r) := sl_congr h rfl rfl
theorem sl_votesNeeded {b s : Node} (v : Int) (h : SL b s) : SL b (s.withVotesNeeded v) := sl_congr h rfl rfl
theorem sl_candTransfer {b s : Node} (v : Bool) (h : SL b s) : SL b (s.withCandTransfer v) := sl_congr h rfl rfl
theorem sl_ldr {b s : Node} (l : Leader) (h : SL b s) : SL b (s.withLdr l) := sl_congr h rfl rfl
theorem sl_snapPending {b s : Node} (v : Option SnapReq) (h : SL b s) : SL b (s.withSnapPending v) := sl_congr h rfl rfl
theorem sl_popOrder {b s : Node} (h : SL b s) : SL b s.popOrder := sl_congr h rfl rfl

theorem sl_storeTermVote {b s : Node} (t c : Nat) (h : SL b s) : SL b (s.storeTermVote t c) := by
  unfold Node.storeTermVote
  split
  · exact sl_congr h rfl rfl
  · exact sl_congr (sl_point "value.set" (sl_congr (s' := { s with durTerm := t, durVote := c }) h rfl rfl)) rfl rfl

theorem sl_setTerm {b s : Node} (t : Nat) (h : SL b s) : SL b (s.setTerm t) := by
  unfold Node.setTerm
  split
  · split
    · exact sl_storeTermVote _ _ h
    · exact sl_panic _ h
  · exact h

theorem sl_setVotedFor {b s : Node} (t c : Nat) (h : SL b s) : SL b (s.setVotedFor t c) := by
  unfold Node.setVotedFor
  split
  · split
    · exact sl_storeTermVote _ _ h
    · exact sl_panic _ h
  · exact h

/-- One backward step for goals `SL b (…)`. -/
syntax "sl_step" : tactic
macro_rules
  | `(tactic| sl_step) => `(tactic| first
      | assumption
      | with_reducible apply sl_ret
      | with_reducible apply sl_panic
      | with_reducible apply sl_reply
      | with_reducible apply sl_assert
      | with_reducible apply sl_setRole
      | with_reducible apply sl_setLeader
      | with_reducible apply sl_rpcReply
      | with_reducible apply sl_votesNeeded
      | with_reducible apply sl_candTransfer
      | with_reducible apply sl_ldr
      | with_reducible apply sl_snapPending
      | with_reducible apply sl_popOrder
      | with_reducible apply sl_setTerm
      | with_reducible apply sl_setVotedFor
      | with_reducible apply sl_point
      | split)

syntax "sl_auto" : tactic
macro_rules
  | `(tactic| sl_auto) => `(tactic| repeat' sl_step)

theorem sl_onVoteRequest {b s : Node} (q : VoteReq) (h : SL b s) : SL b (s.onVoteRequest q) := by
  unfold Node.onVoteRequest
  dsimp only
  sl_auto

theorem sl_rpcDone {b s : Node} (x y : Bool) (h : SL b s) : SL b (s.rpcDone x y) := by
  unfold Node.rpcDone
  sl_auto

theorem sl_onTimeoutNow {b s : Node} (h : SL b s) : SL b s.onTimeoutNow := by
  unfold Node.onTimeoutNow
  sl_auto

theorem sl_followerTimeout {b s : Node} (h : SL b s) : SL b s.followerTimeout := by
  unfold Node.followerTimeout
  dsimp only
  sl_auto

theorem sl_startElection {b s : Node} (h : SL b s) : SL b s.startElection := by
  unfold Node.startElection
  dsimp only
  sl_auto

theorem sl_checkQuorum {b s : Node} (h : SL b s) : SL b s.checkQuorum := by
  unfold Node.checkQuorum
  dsimp only
  sl_auto

theorem sl_onTakeSnapshot {b s : Node} (t th : Nat) (h : SL b s) : SL b (s.onTakeSnapshot t th) := by
  unfold Node.onTakeSnapshot
  sl_auto

theorem sl_onVoteResult {b s : Node} (e : Bool) (t r : Nat) (h : SL b s) : SL b (s.onVoteResult e t r) := by
  unfold Node.onVoteResult
  dsimp only
  sl_auto

theorem sl_rejectEntries {b s : Node} (batch : List QItem) (h : SL b s) : SL b (s.rejectEntries batch) := by
  induction batch generalizing s with
  | nil => exact h
  | cons q qs ih =>
    unfold Node.rejectEntries
    dsimp only
    apply ih
    sl_auto

/-! ## releasing a role touches none of the fields -/

theorem core_transferReply (s : Node) (r : String) : Core (s.transferReply r) = Core s := by
  unfold Node.transferReply
  exact (core_reply _ _ _)

theorem core_foldl {β : Type} (f : Node → β → Node) (hf : ∀ s x, Core (f s x) = Core s) (xs : List β) (s : Node) :
    Core (xs.foldl f s) = Core s := by
  induction xs generalizing s with
  | nil => rfl
  | cons x xs ih => exact (ih _).trans (hf s x)

theorem core_leaderReleaseRest (s : Node) : Core s.leaderReleaseRest = Core s := by
  unfold Node.leaderReleaseRest
  extract_lets s1 err s2 s3
  have h1 : Core s1 = Core s := by unfold s1; split <;> rfl
  have h2 : Core s2 = Core s1 := core_foldl _ (fun s t => core_reply s _ _) _ _
  have h3 : Core s3 = Core s2 := core_foldl _ (fun s t => core_reply s _ _) _ _
  exact (h3.trans h2).trans h1

theorem core_leaderRelease (s : Node) : Core s.leaderRelease = Core s := by
  unfold Node.leaderRelease
  rw [core_leaderReleaseRest]
  split
  · exact core_transferReply _ _
  · rfl

theorem core_releaseRole (s : Node) (r : Role) : Core (s.releaseRole r) = Core s := by
  unfold Node.releaseRole
  split
  · rfl
  · rfl
  · exact core_leaderRelease s

/-! ## the weaker relation that survives a step down to a higher term -/

/-- Like `HI` without the term: the log is the log of `b` plus entries of `b`'s term, every crash point
recorded since holds a prefix of the current log. -/
structure HJ (b s : Node) : Prop where
  nwf : NWF s
  ext : ∃ es, s.log.entries = b.log.entries ++ es ∧ ∀ e ∈ es, e.term = b.term
  tr : ∀ p ∈ s.trace, p ∈ b.trace ∨ (p.2.snaps = [] ∧ p.2.log.prev = 0 ∧ p.2.log.entries <+: s.log.entries)

theorem HI.toHJ {b s : Node} (h : HI b s) : HJ b s :=
  ⟨h.nwf, h.ext, fun p hp => (h.tr p hp).imp id (fun ⟨a, b', c, _⟩ => ⟨a, b', c⟩)⟩

theorem hj_congr {b s s' : Node} (h : HJ b s) (e : LCore s' = LCore s) (et : s'.trace = s.trace) : HJ b s' := by
  unfold LCore at e
  simp only [Prod.mk.injEq] at e
  obtain ⟨e1, e2, e3, e4, e5⟩ := e
  obtain ⟨a, d, f⟩ := h
  refine ⟨nwf_congr a e1 e2 e3 e4 e5, by rw [e1]; exact d, ?_⟩
  rw [et, e1]; exact f

theorem hj_point {b s : Node} (n : String) (h : HJ b s) : HJ b (s.point n) := by
  obtain ⟨a, d, f⟩ := h
  refine ⟨nwf_congr a rfl rfl rfl rfl rfl, d, ?_⟩
  intro p hp
  simp only [Node.point, List.mem_append, List.mem_singleton] at hp
  rcases hp with hp | hp
  · exact f p hp
  · subst hp
    right
    exact ⟨a.snaps, a.prev, List.take_prefix _ _⟩

theorem hj_panic {b s : Node} (site : String) (h : HJ b s) : HJ b (s.panic site) := by
  refine hj_congr h ?_ ?_ <;> (unfold Node.panic; split <;> rfl)

theorem hj_storeTermVote {b s : Node} (t c : Nat) (h : HJ b s) : HJ b (s.storeTermVote t c) := by
  unfold Node.storeTermVote
  split
  · exact hj_congr h rfl rfl
  · exact hj_congr (hj_point "value.set" (hj_congr (s' := { s with durTerm := t, durVote := c }) h rfl rfl)) rfl rfl

theorem hj_setTerm {b s : Node} (t : Nat) (h : HJ b s) : HJ b (s.setTerm t) := by
  unfold Node.setTerm
  split
  · split
    · exact hj_storeTermVote _ _ h
    · exact hj_panic _ h
  · exact h

theorem hj_of_sl {b s : Node} (hb : NWF b) (h : SL b s) : HJ b s := by
  have e := h.core
  unfold LCore at e
  simp only [Prod.mk.injEq] at e
  obtain ⟨e1, e2, e3, e4, e5⟩ := e
  refine ⟨nwf_congr hb e1 e2 e3 e4 e5, ⟨[], by rw [e1]; simp, fun e he => by cases he⟩, fun p hp => ?_⟩
  rcases h.tr p hp with hp' | ⟨q1, q2⟩
  · exact Or.inl hp'
  · right
    rw [q1, q2, e1]
    exact ⟨hb.snaps, hb.prev, List.take_prefix _ _⟩

/-! ## `leader.checkReplUpdates` -/

theorem hi_checkQuorum {b s : Node} (h : HI b s) : HI b s.checkQuorum := by
  unfold Node.checkQuorum
  dsimp only
  have hp := hi_congr h (core_panic s "nil.checkQuorum")
  repeat' split
  all_goals first
    | exact h
    | exact hp
    | exact hi_congr h rfl
    | exact hi_congr hp rfl

/-- no update of the batch reports a compaction (`removeLTE`) -/
def NoCompact (us : List ReplUpdate) : Prop := ∀ u ∈ us, ∀ v, u.upd ≠ .removeLTE v

theorem replUpdLoop_hi {b : Node} (us : List ReplUpdate) (hus : NoCompact us) :
    ∀ (s : Node) (f : UpdFlags), HI b s → f.removeLTEU = false →
    (replUpdLoop s f us).2.removeLTEU = false ∧
    (((replUpdLoop s f us).2.stop = f.stop ∧ HI b (replUpdLoop s f us).1) ∨
     ((replUpdLoop s f us).2.stop = true ∧ HJ b (replUpdLoop s f us).1)) := by
  induction us with
  | nil => intro s f hs hf; exact ⟨hf, Or.inl ⟨rfl, hs⟩⟩
  | cons u us ih =>
    intro s f hs hf
    have hus' : NoCompact us := fun x hx => hus x (List.mem_cons_of_mem _ hx)
    have hu := hus u (List.mem_cons_self ..)
    have L := hi_closed b
    unfold replUpdLoop
    split
    · exact ih hus' s f hs hf
    · split
      · exact ih hus' s f hs hf
      · rename_i st hst
        split
        · rename_i v hv
          dsimp only
          have h1 : HI b (s.setRepl { st with matchIndex := v }) := L.setRepl_inv _ _ hs
          have := ih hus' (if ¬ st.node.voter = true ∧ st.node.action ≠ actNone
              then checkConfigAction (fuelFor 0) (s.setRepl { st with matchIndex := v }) 0
                (s.setRepl { st with matchIndex := v }).configs.latest st.id
              else s.setRepl { st with matchIndex := v }) { f with matchU := true }
            (by split; exact L.checkConfigAction_l _ _ _ _ _ h1; exact h1) hf
          simpa using this
        · rename_i v hv
          exact absurd hv (hu v)
        · rename_i v hv
          exact ih hus' _ { f with noContactU := true } (L.setRepl_inv _ _ hs) hf
        · rename_i v hv
          refine ⟨hf, Or.inr ⟨rfl, ?_⟩⟩
          exact hj_setTerm v (hj_congr hs.toHJ rfl rfl)

theorem checkReplUpdates_hj {b s : Node} (us : List ReplUpdate) (hus : NoCompact us) (hs : HI b s) :
    HJ b (s.checkReplUpdates us) := by
  have L := hi_closed b
  unfold Node.checkReplUpdates
  extract_lets r s1 f s2 s3 s4
  obtain ⟨k1, k2⟩ := replUpdLoop_hi (b := b) us hus s {} hs rfl
  split
  · rcases k2 with ⟨_, k⟩ | ⟨_, k⟩
    · exact k.toHJ
    · exact k
  · rename_i hstop
    rcases k2 with ⟨_, k⟩ | ⟨k0, _⟩
    · have h2 : HI b s2 := by unfold s2; split; exact L.onMajorityCommit_l _ _ k; exact k
      have h3 : HI b s3 := by unfold s3; split; exact hi_checkQuorum h2; exact h2
      have h4 : HI b s4 := by
        unfold s4
        rw [if_neg]
        · exact h3
        · intro hc
          have : f.removeLTEU = true := hc.1
          have k1' : f.removeLTEU = false := k1
          rw [k1'] at this; cases this
      split
      · exact (L.tryTransfer_l _ h4).toHJ
      · exact h4.toHJ
    · exact absurd k0 hstop

/-! ## every handler except append requests and the snapshot operations -/

/-- The operations covered: everything except installing, taking and publishing snapshots (which also
excludes `shutdown`, because `Raft.release` completes a pending snapshot) and replication updates that report
a compaction. (Append requests are covered by `follower_step`.) -/
def OpOK : Op → Prop
  | .install _ => False
  | .snapRun => False
  | .snapTaken => False
  | .shutdown => False
  | .replUpdates us => NoCompact us
  | _ => True

/-- What a handler did to the log: nothing (`same`), or — in a leader — it appended entries of the term the
handler started with, and did not promote the node (`ldr`). -/
inductive HRes (b h : Node) : Prop
  | same : SL b h → HRes b h
  | ldr : b.role = .leader → HJ b h → Down b h → HRes b h

theorem handle_res (b : Node) (op : Op) (hn : NWF b) (hboot : b.configs.isBootstrapped = true)
    (hok : OpOK op) (happ : ∀ q, op ≠ .append q) : HRes b (b.handle op) := by
  have L := hi_closed b
  have G := down_closed b
  have H0 := hi_refl b hn
  have D0 := Down.refl b
  have S0 := sl_refl b
  cases op <;> unfold Node.handle <;> dsimp only
  case vote q => exact .same (sl_rpcDone _ _ (sl_onVoteRequest _ S0))
  case append q => exact absurd rfl (happ q)
  case install q => exact absurd hok (by simp [OpOK])
  case timeoutNow => exact .same (sl_rpcDone _ _ (sl_onTimeoutNow S0))
  case identity a c d => exact .same (sl_rpcReply _ S0)
  case disconnected n =>
    split
    · exact .same (sl_setLeader _ S0)
    · exact .same S0
  case timeout =>
    split
    · exact .same (sl_followerTimeout S0)
    · exact .same (sl_startElection S0)
    · exact .same (sl_checkQuorum S0)
  case newEntries batch =>
    split
    · rename_i hr
      exact .ldr hr (L.storeEntry_l _ _ _ H0).toHJ (G.storeEntry_g _ _ _ D0)
    · exact .same (sl_rejectEntries _ S0)
  case changeConfig t c =>
    split
    · rename_i hr
      exact .ldr hr (L.onChangeConfig_l _ _ _ H0).toHJ (G.onChangeConfig_g _ _ _ D0)
    · unfold Node.bootstrap
      rw [if_pos hboot]
      exact .same (sl_reply _ _ S0)
  case takeSnapshot t th => exact .same (sl_onTakeSnapshot _ _ S0)
  case snapRun => exact absurd hok (by simp [OpOK])
  case snapTaken => exact absurd hok (by simp [OpOK])
  case waitStable t =>
    split
    · rename_i hr
      exact .ldr hr (L.onWaitForStable_l _ _ H0).toHJ (G.onWaitForStable_g _ _ D0)
    · exact .same (sl_reply _ _ S0)
  case transfer t g =>
    split
    · rename_i hr
      exact .ldr hr (L.onTransfer_l _ _ _ H0).toHJ (G.onTransfer_g _ _ _ D0)
    · exact .same (sl_reply _ _ S0)
  case voteResult e t r =>
    split
    · exact .same (sl_onVoteResult _ _ _ S0)
    · exact .same S0
  case replUpdates us =>
    split
    · rename_i hr
      exact .ldr hr (checkReplUpdates_hj us hok H0) (G.checkReplUpdates_g _ _ D0)
    · exact .same S0
  case transferTimeout =>
    split
    · rename_i hr
      exact .ldr hr.1 (L.replyTransfer_l _ _ H0).toHJ (G.replyTransfer_g _ _ D0)
    · exact .same S0
  case timeoutNowResult a c d =>
    split
    · rename_i hr
      exact .ldr hr.1 (L.onTimeoutNowResult_l _ _ _ _ H0).toHJ (G.onTimeoutNowResult_g _ _ _ _ D0)
    · exact .same S0
  case newTermTimeout =>
    split
    · rename_i hr
      exact .ldr hr.1 (L.tryTransfer_l _ (L.ldr _ _ H0)).toHJ (G.tryTransfer_g _ (G.ldr _ _ D0))
    · exact .same S0
  case shutdown => exact absurd hok (by simp [OpOK])

/-! ## the role transitions after a handler, as equations -/

/-- after `leader.init` the loop is done, or the node found itself removed and is released to follower -/
theorem settle_after_init (m : Nat) (x : Node) (hx : x.role = .leader) :
    (x.leaderInit.role = .leader ∧ settle (m + 1) x.leaderInit .leader = x.leaderInit) ∨
    (x.leaderInit.role = .follower ∧ settle (m + 1) x.leaderInit .leader = x.leaderInit.releaseRole .leader) := by
  have hd : Down x x.leaderInit := (down_closed x).leaderInit_g x (Down.refl x)
  unfold settle
  split
  · rename_i hr
    exact Or.inl ⟨hr, rfl⟩
  · rename_i hr
    have hfol : x.leaderInit.role = .follower := by
      rcases hd.2.2 with ⟨a, _, _⟩ | a
      · rw [hx] at a; exact absurd a hr
      · exact a
    dsimp only
    have k := SameKey.releaseRole x.leaderInit .leader
    have hrr : (x.leaderInit.releaseRole .leader).role = .follower := by rw [k.role]; exact hfol
    have hinit : (x.leaderInit.releaseRole .leader).initRole = x.leaderInit.releaseRole .leader := by
      unfold Node.initRole; rw [hrr]
    rw [hinit, hrr]
    have := settle_same m (x.leaderInit.releaseRole .leader)
    rw [hrr] at this
    rw [this]
    exact Or.inr ⟨hfol, rfl⟩

/-- The shapes of the role transitions that follow a handler whose result `h` has a role different from
the one (`cur`) whose `init` ran last. -/
inductive SettleShape (h : Node) (cur : Role) (post : Node) : Prop
  | follower : h.role = .follower → post = h.releaseRole cur → SettleShape h cur post
  | leader (x : Node) : h.role = .leader → x = h.releaseRole cur →
      ((x.leaderInit.role = .leader ∧ post = x.leaderInit) ∨
       (x.leaderInit.role = .follower ∧ post = x.leaderInit.releaseRole .leader)) → SettleShape h cur post
  | cand : h.role = .candidate → post = (h.releaseRole cur).startElection → post.role = .candidate →
      SettleShape h cur post
  | candLeader (x : Node) : h.role = .candidate → (h.releaseRole cur).startElection.role = .leader →
      x = (h.releaseRole cur).startElection.releaseRole .candidate →
      ((x.leaderInit.role = .leader ∧ post = x.leaderInit) ∨
       (x.leaderInit.role = .follower ∧ post = x.leaderInit.releaseRole .leader)) → SettleShape h cur post

theorem settle_shape (n : Nat) (h : Node) (cur : Role) (hne : h.role ≠ cur) :
    SettleShape h cur (settle (n + 3) h cur) := by
  unfold settle
  rw [if_neg hne]
  dsimp only
  have k := SameKey.releaseRole h cur
  generalize hh1 : h.releaseRole cur = h1 at k ⊢
  cases hr : h.role with
  | follower =>
    have hr1 : h1.role = .follower := by rw [k.role]; exact hr
    have hinit : h1.initRole = h1 := by unfold Node.initRole; rw [hr1]
    rw [hinit, hr1]
    have := settle_same (n + 2) h1
    rw [hr1] at this
    rw [this]
    exact .follower hr hh1.symm
  | leader =>
    have hr1 : h1.role = .leader := by rw [k.role]; exact hr
    have hinit : h1.initRole = h1.leaderInit := by unfold Node.initRole; rw [hr1]
    rw [hinit, hr1]
    refine .leader h1 hr hh1.symm ?_
    rcases settle_after_init (n + 1) h1 hr1 with ⟨a, e⟩ | ⟨a, e⟩
    · exact Or.inl ⟨a, e⟩
    · exact Or.inr ⟨a, e⟩
  | candidate =>
    have hr1 : h1.role = .candidate := by rw [k.role]; exact hr
    have hinit : h1.initRole = h1.startElection := by unfold Node.initRole; rw [hr1]
    rw [hinit, hr1]
    obtain ⟨_, _, _, _, _, e6⟩ := startElection_spec h1
    unfold settle
    rcases e6 with ⟨q0, e6⟩ | ⟨q0, e6⟩
    · rw [if_neg (by rw [e6]; decide)]
      dsimp only
      have k2 := SameKey.releaseRole h1.startElection .candidate
      generalize hh2 : h1.startElection.releaseRole .candidate = h2 at k2 ⊢
      have hr2 : h2.role = .leader := by rw [k2.role]; exact e6
      have hinit2 : h2.initRole = h2.leaderInit := by unfold Node.initRole; rw [hr2]
      rw [hinit2, hr2]
      refine .candLeader h2 hr (by rw [hh1]; exact e6) (by rw [hh1]; exact hh2.symm) ?_
      rcases settle_after_init n h2 hr2 with ⟨a, e⟩ | ⟨a, e⟩
      · exact Or.inl ⟨a, e⟩
      · exact Or.inr ⟨a, e⟩
    · rw [e6, hr1, if_pos rfl]
      exact .cand hr (by rw [hh1]) (by rw [e6, hr1])

/-! ## one step that is not an append request -/

/-- Why a node appended entries of term `te` to its own log in a step: it was leader of `te` before the
step, or it was candidate of `te` and counted the last missing vote in this step, or it moved to the higher
term `te` in this step and won at once because the quorum of its latest configuration is one (it was
candidate already, or it is a voter of that configuration). -/
def Story (pre : Node) (op : Op) (te : Nat) : Prop :=
  (pre.role = .leader ∧ te = pre.term) ∨
  (Counts pre op ∧ pre.votesNeeded - 1 = 0 ∧ te = pre.term) ∨
  (te > pre.term ∧ pre.configs.latest.quorum = 1 ∧
    (pre.role = .candidate ∨ pre.configs.latest.isVoter pre.nid = true))

/-- a disk content at a crash point of the step: no snapshot, the log starts at 1 and holds a prefix of the
log before the step, or a prefix of the log after the step and then the durable term is at least `te` -/
def PtOK (pre post : Node) (te : Nat) (d : Durable) : Prop :=
  d.snaps = [] ∧ d.log.prev = 0 ∧
  (d.log.entries <+: pre.log.entries ∨ (d.log.entries <+: post.log.entries ∧ te ≤ d.term))

/-- The log after the step is the log before plus entries of one term `te ≤` the new term; if there are
any, `Story` tells why and the node is not a candidate afterwards; every crash point is `PtOK`. -/
structure LStep (pre : Node) (op : Op) (post : Node) : Prop where
  nwf : NWF post
  ext : ∃ es te, post.log.entries = pre.log.entries ++ es ∧ (∀ e ∈ es, e.term = te) ∧ te ≤ post.term ∧
      (es ≠ [] → Story pre op te ∧ post.role ≠ .candidate) ∧ ∀ p ∈ post.trace, PtOK pre post te p.2

theorem sl_core {b s s' : Node} (h : SL b s) (e : Core s' = Core s) : SL b s' := by
  unfold Core at e
  simp only [Prod.mk.injEq] at e
  obtain ⟨e1, e2, e3, e4, e5, _, _, e8⟩ := e
  refine sl_congr h ?_ e8
  unfold LCore; rw [e1, e2, e3, e4, e5]

theorem hj_core {b s s' : Node} (h : HJ b s) (e : Core s' = Core s) : HJ b s' := by
  unfold Core at e
  simp only [Prod.mk.injEq] at e
  obtain ⟨e1, e2, e3, e4, e5, _, _, e8⟩ := e
  refine hj_congr h ?_ e8
  unfold LCore; rw [e1, e2, e3, e4, e5]

theorem core_term {s s' : Node} (e : Core s' = Core s) : s'.term = s.term := by
  unfold Core at e
  simp only [Prod.mk.injEq] at e
  exact e.2.2.2.2.2.1

theorem lstep_sl {b post : Node} (op : Op) (hn : NWF b) (htr : b.trace = []) (hsl : SL b post)
    (hterm : b.term ≤ post.term) : LStep b op post := by
  have hj := hj_of_sl hn hsl
  have e := hsl.core
  unfold LCore at e
  simp only [Prod.mk.injEq] at e
  refine ⟨hj.nwf, [], b.term, (by rw [e.1]; simp), (fun e he => by cases he), hterm, fun h => absurd rfl h, ?_⟩
  intro p hp
  rcases hsl.tr p hp with hp' | ⟨q1, q2⟩
  · rw [htr] at hp'; cases hp'
  · refine ⟨by rw [q2]; exact hn.snaps, by rw [q1]; exact hn.prev, Or.inl ?_⟩
    rw [q1]; exact List.take_prefix _ _

theorem lstep_hj {b post : Node} (op : Op) (htr : b.trace = []) (hj : HJ b post) (hr : b.role = .leader)
    (hnc : post.role ≠ .candidate) (hdur : ∀ p ∈ post.trace, b.term ≤ p.2.term) (hterm : b.term ≤ post.term) :
    LStep b op post := by
  obtain ⟨es, h1, h2⟩ := hj.ext
  refine ⟨hj.nwf, es, b.term, h1, h2, hterm, fun _ => ⟨Or.inl ⟨hr, rfl⟩, hnc⟩, ?_⟩
  intro p hp
  rcases hj.tr p hp with hp' | ⟨q1, q2, q3⟩
  · rw [htr] at hp'; cases hp'
  · exact ⟨q1, q2, Or.inr ⟨q3, hdur p hp⟩⟩

theorem lstep_init {b x post : Node} (op : Op) (hn : NWF b) (htr : b.trace = []) (hsl : SL b x)
    (hwf : C05.VoteWF x) (hstory : Story b op x.term)
    (hpost : (x.leaderInit.role = .leader ∧ post = x.leaderInit) ∨
       (x.leaderInit.role = .follower ∧ post = x.leaderInit.releaseRole .leader)) : LStep b op post := by
  have hnx := (hj_of_sl hn hsl).nwf
  have hi : HI x x.leaderInit := (hi_closed x).leaderInit_l x (hi_refl x hnx)
  have hcore : Core post = Core x.leaderInit ∧ post.role ≠ .candidate := by
    rcases hpost with ⟨r, e⟩ | ⟨r, e⟩
    · rw [e]; exact ⟨rfl, by rw [r]; decide⟩
    · rw [e]
      exact ⟨core_releaseRole _ _, by rw [(SameKey.releaseRole _ _).role, r]; decide⟩
  obtain ⟨hcore, hnc⟩ := hcore
  have hi' : HI x post := hi_congr hi hcore
  obtain ⟨es, h1, h2⟩ := hi'.ext
  have e := hsl.core
  unfold LCore at e
  simp only [Prod.mk.injEq] at e
  refine ⟨hi'.nwf, es, x.term, by rw [h1, e.1], h2, by rw [hi'.term]; exact Nat.le_refl _,
    fun _ => ⟨hstory, hnc⟩, ?_⟩
  intro p hp
  rcases hi'.tr p hp with hp' | ⟨q1, q2, q3, q4⟩
  · rcases hsl.tr p hp' with hp'' | ⟨r1, r2⟩
    · rw [htr] at hp''; cases hp''
    · refine ⟨by rw [r2]; exact hn.snaps, by rw [r1]; exact hn.prev, Or.inl ?_⟩
      rw [r1]; exact List.take_prefix _ _
  · exact ⟨q1, q2, Or.inr ⟨q3, by rw [q4, hwf.1]; exact Nat.le_refl _⟩⟩

theorem lstep_settle (b : Node) (op : Op) (hn : NWF b)
    (hboot : b.configs.isBootstrapped = true) (htr : b.trace = []) (h : Node)
    (hres : HRes b h) (hrel : HRel b op h) (hnid : h.nid = b.nid) (hI : C05.Inv b h) (post : Node)
    (hpost : post = settle 6 h b.role) (hterm : b.term ≤ post.term)
    (hdur : ∀ p ∈ post.trace, b.term ≤ p.2.term) : LStep b op post := by
  have C := C05.closed b
  by_cases hrole : h.role = b.role
  · have e : settle 6 h b.role = h := by unfold settle; rw [if_pos hrole]
    rw [e] at hpost
    subst hpost
    cases hres with
    | same hsl => exact lstep_sl op hn htr hsl hterm
    | ldr hr hj hd => exact lstep_hj op htr hj hr (by rw [hrole, hr]; decide) hdur hterm
  · have shape := settle_shape 3 h b.role hrole
    rw [← hpost] at shape
    have k := SameKey.releaseRole h b.role
    have kc := core_releaseRole h b.role
    cases hres with
    | ldr hr hj hd =>
      have hf : h.role = .follower := by
        rcases hd.2.2 with ⟨a, _, _⟩ | a
        · exact absurd a hrole
        · exact a
      cases shape with
      | follower _ e =>
        subst e
        exact lstep_hj op htr (hj_core hj kc) hr (by rw [k.role, hf]; decide) hdur hterm
      | leader x r _ _ => rw [hf] at r; cases r
      | cand r _ _ => rw [hf] at r; cases r
      | candLeader x r _ _ _ => rw [hf] at r; cases r
    | same hsl =>
      cases shape with
      | follower _ e =>
        subst e
        exact lstep_sl op hn htr (sl_core hsl kc) hterm
      | cand _ e _ =>
        subst e
        exact lstep_sl op hn htr (sl_startElection (sl_core hsl kc)) hterm
      | leader x r ex hp =>
        subst ex
        refine lstep_init op hn htr (sl_core hsl kc) (C.releaseRole_inv _ _ hI).2.1 ?_ hp
        have hxt : (h.releaseRole b.role).term = h.term := k.term
        rw [hxt]
        cases hrel with
        | same _ a _ _ => exact absurd a hrole
        | follower a => rw [a] at r; cases r
        | pending _ a _ _ _ => rw [a] at r; cases r
        | counted c t _ rr =>
          rcases rr with ⟨r0, _⟩ | ⟨_, r1⟩
          · exact Or.inr (Or.inl ⟨c, r0, t⟩)
          · rw [r1] at r; cases r
        | reelect c e =>
          subst e
          obtain ⟨_, e2, _, _, _, e6⟩ := startElection_spec b
          rcases e6 with ⟨q0, _⟩ | ⟨_, r1⟩
          · exact Or.inr (Or.inr ⟨by rw [e2]; exact Nat.lt_succ_self _, by omega, Or.inl c⟩)
          · exact absurd r1 hrole
      | candLeader x r rl ex hp =>
        subst ex
        have I1 : C05.Inv b (h.releaseRole b.role) := C.releaseRole_inv _ _ hI
        have I2 : C05.Inv b (h.releaseRole b.role).startElection := C.startElection_inv _ I1
        have I3 := C.releaseRole_inv _ .candidate I2
        refine lstep_init op hn htr
          (sl_core (sl_startElection (sl_core hsl kc)) (core_releaseRole _ _)) I3.2.1 ?_ hp
        have hxt : ((h.releaseRole b.role).startElection.releaseRole .candidate).term =
            (h.releaseRole b.role).startElection.term := (SameKey.releaseRole _ _).term
        obtain ⟨_, e2, _, _, _, e6⟩ := startElection_spec (h.releaseRole b.role)
        rw [hxt, e2, k.term]
        have hq : (h.releaseRole b.role).configs.latest.quorum = 1 := by
          rcases e6 with ⟨q0, _⟩ | ⟨_, r1⟩
          · omega
          · rw [r1, k.role, r] at rl; cases rl
        rw [k.configs] at hq
        cases hrel with
        | same _ a _ _ => exact absurd a hrole
        | follower a => rw [a] at r; cases r
        | pending nb a tle cf vt =>
          have hcf := cf hboot
          rw [hcf] at hq vt
          rw [hnid] at vt
          exact Or.inr (Or.inr ⟨Nat.lt_succ_of_le tle, hq, Or.inr vt⟩)
        | counted c _ _ rr =>
          rcases rr with ⟨_, r1⟩ | ⟨_, r1⟩
          · rw [r1] at r; cases r
          · exact absurd (r1.trans c.1.symm) hrole
        | reelect c e =>
          subst e
          exact absurd (r.trans c.symm) hrole

/-- **One step of a node that is not an append request** (and none of the excluded snapshot operations),
from a well-formed, bootstrapped state: see `LStep`. -/
theorem leader_step (pre : Node) (op : Op) (ra : List Nat) (ord : List (List Nat)) (hn : NWF pre)
    (hwf : C05.VoteWF pre) (hboot : pre.configs.isBootstrapped = true) (hok : OpOK op)
    (happ : ∀ q, op ≠ .append q) (hc : pre.role = .candidate → pre.term ≠ 0) :
    LStep pre op (pre.step op ra ord) := by
  obtain ⟨hvs, _, hdur⟩ := C05.step_vote_stable pre op ra ord hwf
  have hnb : NWF (pre.begin ra ord) := nwf_congr hn rfl rfl rfl rfl rfl
  have hwfb : C05.VoteWF (pre.begin ra ord) := hwf
  have hpost : pre.step op ra ord = settle 6 ((pre.begin ra ord).handle op) (pre.begin ra ord).role := by
    unfold Node.step
    cases op <;> first | rfl | exact hok.elim
  obtain ⟨hnid, hrel⟩ := handle_rel (pre.begin ra ord) op hc
  have hres := handle_res (pre.begin ra ord) op hnb hboot hok happ
  have hI := (C05.closed (pre.begin ra ord)).handle_inv _ op (C05.inv_refl _ hwfb)
  have key := lstep_settle (pre.begin ra ord) op hnb hboot rfl _ hres hrel hnid hI _ hpost hvs.1
    (fun p hp => (hdur p hp).1)
  exact ⟨key.nwf, key.ext⟩

/-! ## an append request -/

/-- entry number k has index k+1 -/
def Contig (es : List Entry) : Prop := ∀ k (h : k < es.length), es[k].index = k + 1

/-- a disk content that restarts into a well-formed node whose log is a path in `T` -/
def DiskOK (T : List CEntry) (d : Durable) : Prop :=
  d.snaps = [] ∧ d.log.prev = 0 ∧ Chain T none d.log.entries ∧ Contig d.log.entries

/-- An append request is a slice of the tree `T`: its entries have the indexes `prevLogIndex+1, …` and form
a path in `T` whose first entry is recorded with predecessor term `prevLogTerm` (unless `prevLogIndex = 0`:
the entry with index 1 has no predecessor). -/
structure ReqOK (T : List CEntry) (q : AppendReq) : Prop where
  chain : Chain T (if q.prevLogIndex = 0 then none else some q.prevLogTerm) q.entries
  idx : ∀ k (h : k < q.entries.length), q.entries[k].index = q.prevLogIndex + k + 1

/-- the node is well formed, its log is a path in `T`, and so is the log on disk at every crash point -/
structure FI (T : List CEntry) (s : Node) : Prop where
  nwf : NWF s
  chain : Chain T none s.log.entries
  tr : ∀ p ∈ s.trace, DiskOK T p.2

theorem fi_congr {T : List CEntry} {s s' : Node} (h : FI T s) (e : LCore s' = LCore s) (et : s'.trace = s.trace) :
    FI T s' := by
  unfold LCore at e
  simp only [Prod.mk.injEq] at e
  obtain ⟨e1, e2, e3, e4, e5⟩ := e
  exact ⟨nwf_congr h.nwf e1 e2 e3 e4 e5, by rw [e1]; exact h.chain, by rw [et]; exact h.tr⟩

theorem fi_core {T : List CEntry} {s s' : Node} (h : FI T s) (e : Core s' = Core s) : FI T s' := by
  unfold Core at e
  simp only [Prod.mk.injEq] at e
  obtain ⟨e1, e2, e3, e4, e5, _, _, e8⟩ := e
  refine fi_congr h ?_ e8
  unfold LCore; rw [e1, e2, e3, e4, e5]

theorem diskOK_durable {T : List CEntry} {s : Node} (hn : NWF s) (hc : Chain T none s.log.entries) :
    DiskOK T s.durable :=
  ⟨hn.snaps, hn.prev, hc.take _, contig_take hn.contig _⟩

theorem fi_point {T : List CEntry} {s : Node} (n : String) (h : FI T s) : FI T (s.point n) := by
  refine ⟨nwf_congr h.nwf rfl rfl rfl rfl rfl, h.chain, fun p hp => ?_⟩
  simp only [Node.point, List.mem_append, List.mem_singleton] at hp
  rcases hp with hp | hp
  · exact h.tr p hp
  · subst hp
    exact diskOK_durable h.nwf h.chain

theorem fi_panic {T : List CEntry} {s : Node} (site : String) (h : FI T s) : FI T (s.panic site) :=
  fi_core h (core_panic s site)

theorem fi_storeTermVote {T : List CEntry} {s : Node} (t c : Nat) (h : FI T s) : FI T (s.storeTermVote t c) := by
  unfold Node.storeTermVote
  split
  · exact fi_congr h rfl rfl
  · exact fi_congr (fi_point "value.set" (fi_congr (s' := { s with durTerm := t, durVote := c }) h rfl rfl)) rfl rfl

theorem fi_setTerm {T : List CEntry} {s : Node} (t : Nat) (h : FI T s) : FI T (s.setTerm t) := by
  unfold Node.setTerm
  split
  · split
    · exact fi_storeTermVote _ _ h
    · exact fi_panic _ h
  · exact h

theorem fi_commitLog {T : List CEntry} {s : Node} (n : Nat) (h : FI T s) : FI T (s.commitLog n) := by
  unfold Node.commitLog
  apply fi_point
  obtain ⟨p1, p2⟩ := commitN_parts s.log n
  obtain ⟨a, c, f⟩ := h
  refine ⟨⟨a.snapIndex, a.snaps, ?_, ?_, ?_, ?_⟩, ?_, f⟩
  · show (s.log.commitN n).prev = 0
    rw [p1]; exact a.prev
  · show ∀ k (hk : k < (s.log.commitN n).entries.length), (s.log.commitN n).entries[k].index = k + 1
    rw [p2]; exact a.contig
  · show s.lastLogIndex = (s.log.commitN n).entries.length
    rw [p2]; exact a.last
  · show s.lastLogTerm = lastTerm (s.log.commitN n).entries
    rw [p2]; exact a.lastT
  · show Chain T none (s.log.commitN n).entries
    rw [p2]; exact c

/-- `fsmApply` touches neither the log fields nor the crash points -/
theorem fsmFrame_lcore : FsmFrame (fun s : Node => (LCore s, s.trace)) where
  panic := fun s site => by unfold Node.panic; split <;> rfl
  reply := fun s t r => by unfold Node.reply; split <;> rfl
  fsm := fun _ _ => rfl

theorem fi_applyCommitted {T : List CEntry} {s : Node} (h : FI T s) : FI T s.applyCommitted := by
  have e := fsmFrame_lcore.applyCommitted_eq s
  simp only [Prod.mk.injEq] at e
  exact fi_congr h e.1 e.2

theorem fi_commitApply {T : List CEntry} {s : Node} (i : Nat) (h : FI T s) :
    FI T (s.setCommitIndexR i).1.applyCommitted :=
  fi_applyCommitted (fi_core h (core_setCommitIndexR s i))

/-- the coordinates `(i, t)`: `i` is inside the log and, unless it is 0, the entry at `i` has term `t` -/
def Anchor (s : Node) (i t : Nat) : Prop :=
  i ≤ s.log.entries.length ∧ (1 ≤ i → termAt s.log.entries i = t)

theorem lcore_of_core {s s' : Node} (e : Core s' = Core s) : LCore s' = LCore s ∧ s'.trace = s.trace := by
  unfold Core at e
  simp only [Prod.mk.injEq] at e
  obtain ⟨e1, e2, e3, e4, e5, _, _, e8⟩ := e
  refine ⟨?_, e8⟩
  unfold LCore; rw [e1, e2, e3, e4, e5]

theorem ret_ne (x : Node) (r : Nat) (hr : r ≠ 0) (P : Prop) : (x.ret r).result = 0 → P :=
  fun h => absurd h hr

/-- the consistency check: nothing log-related changes, and a request that passes it is anchored in the
log at `(prevLogIndex, prevLogTerm)` -/
theorem appendCheck_spec (s : Node) (q : AppendReq) (hn : NWF s) :
    (LCore (s.appendCheck q) = LCore s ∧ (s.appendCheck q).trace = s.trace) ∧
    ((s.appendCheck q).result = 0 → Anchor s q.prevLogIndex q.prevLogTerm) := by
  unfold Node.appendCheck
  split
  · rename_i hsn
    split
    · exact ⟨⟨rfl, rfl⟩, ret_ne _ _ (by decide) _⟩
    · rename_i hle
      extract_lets s1 plt
      have e1 : Core s1 = Core s := by
        unfold s1
        split
        · rfl
        · split
          · rfl
          · exact core_panic _ _
      have l1 := lcore_of_core e1
      have hplt : plt = termAt s.log.entries q.prevLogIndex := by
        have f := e1
        unfold Core at f
        simp only [Prod.mk.injEq] at f
        obtain ⟨f1, f2, f3, _⟩ := f
        unfold plt
        rw [f2, f3]
        split
        · rename_i heq
          rw [heq, hn.last, hn.lastT, termAt_length]
        · have : s1.entryTerm? q.prevLogIndex = s.entryTerm? q.prevLogIndex := by
            unfold Node.entryTerm?; rw [f1]
          rw [this, hn.entryTerm q.prevLogIndex (by omega) (by rw [← hn.last]; omega)]
          rfl
      split
      · exact ⟨l1, ret_ne _ _ (by decide) _⟩
      · rename_i hterm
        have hpt : q.prevLogTerm = plt := Classical.byContradiction (fun hne => hterm hne)
        have anch : Anchor s q.prevLogIndex q.prevLogTerm :=
          ⟨by rw [← hn.last]; omega, fun _ => by rw [hpt, hplt]⟩
        split
        · refine ⟨?_, fun _ => anch⟩
          have e := fsmFrame_lcore.applyCommitted_eq (s1.setCommitIndexR q.prevLogIndex).1
          simp only [Prod.mk.injEq] at e
          have l2 := lcore_of_core (core_setCommitIndexR s1 q.prevLogIndex)
          exact ⟨(e.1.trans l2.1).trans l1.1, (e.2.trans l2.2).trans l1.2⟩
        · exact ⟨l1, fun _ => anch⟩
  · rename_i hsn
    refine ⟨⟨rfl, rfl⟩, fun _ => ⟨?_, fun h1 => ?_⟩⟩
    · rw [hn.snapIndex] at hsn; omega
    · rw [hn.snapIndex] at hsn; omega

theorem core_assert (s : Node) (b : Bool) (site : String) : Core (s.assert b site) = Core s := by
  unfold Node.assert; split
  · rfl
  · exact core_panic _ _

/-- the state between `resolveConflict` and `appendEntry`: the log was cut back to its first `n` entries -/
structure Trunc (T : List CEntry) (s : Node) (n : Nat) (r : Node) : Prop where
  prev : r.log.prev = 0
  entries : r.log.entries = s.log.entries.take n
  last : r.lastLogIndex = n
  snapIndex : r.snapIndex = 0
  snaps : r.snapsDisk = []
  tr : ∀ p ∈ r.trace, DiskOK T p.2

theorem resolveConflict_trunc {T : List CEntry} (s : Node) (ne : Entry) (pt n : Nat) (hfi : FI T s)
    (hidx : ne.index = n + 1) (hn : n ≤ s.log.entries.length) : Trunc T s n (s.resolveConflict ne pt) := by
  have hw := hfi.nwf
  unfold Node.resolveConflict
  split
  · rename_i hle
    rw [hw.last] at hle
    rw [hw.entryTerm ne.index (by omega) hle]
    dsimp only
    have key : Trunc T s n (s.removeGTE ne.index pt) := by
      unfold Node.removeGTE
      have he : (s.log.removeGTE ne.index).entries = s.log.entries.take n := by
        unfold NLog.removeGTE
        dsimp only
        rw [hw.prev, hidx]
        congr 1
      refine ⟨hw.prev, he, by show ne.index - 1 = n; omega, hw.snapIndex, hw.snaps, fun p hp => ?_⟩
      simp only [Node.point, List.mem_append, List.mem_singleton] at hp
      rcases hp with hp | hp
      · exact hfi.tr p hp
      · subst hp
        refine ⟨hw.snaps, hw.prev, ?_, ?_⟩
        · show Chain T none ((s.log.removeGTE ne.index).entries.take _)
          rw [he]; exact (hfi.chain.take _).take _
        · show Contig ((s.log.removeGTE ne.index).entries.take _)
          rw [he]; exact contig_take (contig_take hw.contig _) _
    split
    · exact ⟨key.prev, key.entries, key.last, key.snapIndex, key.snaps, key.tr⟩
    · exact key
  · rename_i hle
    rw [hw.last] at hle
    have : n = s.log.entries.length := by omega
    refine ⟨hw.prev, ?_, by rw [hw.last, this], hw.snapIndex, hw.snaps, hfi.tr⟩
    rw [this, List.take_length]

/-- **conflict resolution + append of one request entry**: the log becomes its first `n` entries plus the
new entry, and stays a path in `T` when the entry is recorded in `T` with the term found at `n`. -/
theorem conflict_append {T : List CEntry} (s : Node) (ne : Entry) (pt n : Nat) (hfi : FI T s)
    (hidx : ne.index = n + 1) (hanch : Anchor s n pt) (hin : ∃ c ∈ T, c.e = ne ∧ (1 ≤ n → c.pt = pt)) :
    FI T ((s.resolveConflict ne pt).appendEntry ne) ∧
    ((s.resolveConflict ne pt).appendEntry ne).log.entries = s.log.entries.take n ++ [ne] := by
  have tr := resolveConflict_trunc (T := T) s ne pt n hfi hidx hanch.1
  generalize s.resolveConflict ne pt = r at tr
  unfold Node.appendEntry
  extract_lets a roll
  have ea : Core a = Core r := core_assert _ _ _
  unfold Core at ea
  simp only [Prod.mk.injEq] at ea
  obtain ⟨a1, a2, _, a4, a5, _, _, a8⟩ := ea
  obtain ⟨p1, p2⟩ := append_parts a.log ne roll
  have hlen : (s.log.entries.take n).length = n := by rw [List.length_take]; have := hanch.1; omega
  have hent : (a.log.append ne roll).entries = s.log.entries.take n ++ [ne] := by
    rw [p2, a1, tr.entries]
  have hchain : Chain T none (s.log.entries.take n ++ [ne]) := by
    rw [chain_append]
    refine ⟨hfi.chain.take n, ?_⟩
    obtain ⟨c, hc, hce, hcp⟩ := hin
    refine ⟨⟨c, hc, hce, fun pt' hpt' => ?_⟩, trivial⟩
    by_cases h0 : n = 0
    · subst h0
      simp [endO] at hpt'
    · rw [endO_take none s.log.entries n (by omega) hanch.1, hanch.2 (by omega)] at hpt'
      injection hpt' with hpt'
      rw [hcp (by omega), hpt']
  refine ⟨⟨⟨?_, ?_, ?_, ?_, ?_, ?_⟩, ?_, ?_⟩, hent⟩
  · show a.snapIndex = 0
    rw [a4]; exact tr.snapIndex
  · show a.snapsDisk = []
    rw [a5]; exact tr.snaps
  · show (a.log.append ne roll).prev = 0
    rw [p1, a1]; exact tr.prev
  · show ∀ k (hk : k < (a.log.append ne roll).entries.length), (a.log.append ne roll).entries[k].index = k + 1
    rw [hent]
    exact contig_append (contig_take hfi.nwf.contig n) ne (by rw [hlen]; exact hidx)
  · show ne.index = (a.log.append ne roll).entries.length
    rw [hent, List.length_append, hlen, hidx]; rfl
  · show ne.term = lastTerm (a.log.append ne roll).entries
    rw [hent, lastTerm_append_singleton]
  · show Chain T none (a.log.append ne roll).entries
    rw [hent]; exact hchain
  · show ∀ p ∈ a.trace, DiskOK T p.2
    rw [a8]; exact tr.tr

theorem anchor_congr {s s' : Node} {i t : Nat} (h : Anchor s i t) (e : s'.log = s.log) : Anchor s' i t := by
  unfold Anchor at *; rw [e]; exact h

/-- **the entry loop of `onAppendEntriesRequest`** keeps the log a path in `T` when the remaining entries
are a path in `T` attached at the current coordinates, which are anchored in the log -/
theorem appendLoop_fi {T : List CEntry} (es : List Entry) : ∀ (st : AppLoop), FI T st.s →
    Anchor st.s st.index st.term → Chain T (if st.index = 0 then none else some st.term) es →
    (∀ k (h : k < es.length), es[k].index = st.index + k + 1) → FI T (appendLoop st es).s := by
  induction es with
  | nil => intro st hfi _ _ _; exact hfi
  | cons ne rest ih =>
    intro st hfi hanch hch hidx
    have hne : ne.index = st.index + 1 := hidx 0 (by simp)
    obtain ⟨⟨c, hcT, hce, hcp⟩, hrest⟩ := hch
    have hidx' : ∀ k (h : k < rest.length), rest[k].index = ne.index + k + 1 := by
      intro k hk
      have := hidx (k + 1) (by simp; omega)
      simp only [List.getElem_cons_succ] at this
      rw [this, hne]; omega
    have hw := hfi.nwf
    have hrest' : Chain T (if ne.index = 0 then none else some ne.term) rest := by
      rw [if_neg (by omega)]; exact hrest
    unfold appendLoop
    split
    · exact hfi
    · dsimp only
      split
      · rename_i hsn
        rw [hw.snapIndex] at hsn; omega
      · split
        · rename_i hpres
          simp only [Bool.and_eq_true, decide_eq_true_eq, beq_iff_eq] at hpres
          obtain ⟨hle, hterm⟩ := hpres
          rw [hw.last] at hle
          rw [hw.entryTerm ne.index (by omega) hle] at hterm
          injection hterm with hterm
          exact ih ⟨st.s, ne.index, ne.term, st.syncLog, st.err⟩ hfi ⟨hle, fun _ => hterm⟩ hrest' hidx'
        · obtain ⟨hfi', hent⟩ := conflict_append (T := T) st.s ne st.term st.index hfi hne hanch
            ⟨c, hcT, hce, fun h1 => hcp _ (by rw [if_neg (by omega)])⟩
          have hlen : (st.s.log.entries.take st.index ++ [ne]).length = ne.index := by
            rw [List.length_append, List.length_take, hne]
            have := hanch.1
            simp; omega
          have hanch' : Anchor ((st.s.resolveConflict ne st.term).appendEntry ne) ne.index ne.term := by
            unfold Anchor
            rw [hent]
            refine ⟨by rw [hlen]; exact Nat.le_refl _, fun _ => ?_⟩
            rw [← hlen, termAt_length, lastTerm_append_singleton]
          split
          · split
            · rename_i cfg _
              exact ih ⟨((st.s.resolveConflict ne st.term).appendEntry ne).changeConfigR cfg, ne.index, ne.term,
                true, st.err⟩ (fi_core hfi' (core_changeConfigR _ _))
                (anchor_congr hanch' (changeConfigR_fields _ _).1) hrest' hidx'
            · exact hfi'
          · exact ih ⟨(st.s.resolveConflict ne st.term).appendEntry ne, ne.index, ne.term, true, st.err⟩
              hfi' hanch' hrest' hidx'

theorem lcore_log {s s' : Node} (e : LCore s' = LCore s) : s'.log = s.log := by
  unfold LCore at e
  simp only [Prod.mk.injEq] at e
  exact e.1

/-- **`onAppendEntriesRequest`**: a stale request changes nothing; any other request that is a slice of `T`
leaves the log (and the disk at every crash point) a path in `T`. -/
theorem onAppendEntries_fi {T : List CEntry} (s : Node) (q : AppendReq) (hfi : FI T s)
    (hq : q.term < s.term ∨ ReqOK T q) : FI T (s.onAppendEntries q) := by
  unfold Node.onAppendEntries
  split
  · exact fi_congr hfi rfl rfl
  · rename_i hstale
    have req : ReqOK T q := hq.resolve_left hstale
    extract_lets s1 s2 s3 st s4 s6 s5
    have h1 : FI T s1 := by
      unfold s1; split
      · exact fi_congr (fi_setTerm _ hfi) rfl rfl
      · exact hfi
    have h2 : FI T s2 := fi_congr h1 rfl rfl
    obtain ⟨⟨c1, c2⟩, canch⟩ := appendCheck_spec s2 q h2.nwf
    have h3 : FI T s3 := fi_congr h2 c1 c2
    split
    · exact h3
    · rename_i hres
      have hres0 : s3.result = 0 := Classical.byContradiction (fun hne => hres hne)
      have anch : Anchor s3 q.prevLogIndex q.prevLogTerm := anchor_congr (canch hres0) (lcore_log c1)
      have h4 : FI T s4 :=
        appendLoop_fi q.entries { s := s3, index := q.prevLogIndex, term := q.prevLogTerm } h3 anch req.chain req.idx
      have h5 : FI T s5 := by
        unfold s5
        split
        · have h6 : FI T s6 := fi_commitLog _ h4
          split
          · exact fi_commitApply _ h6
          · exact h6
        · exact h4
      exact fi_congr h5 rfl rfl

theorem fi_rpcDone {T : List CEntry} {s : Node} (x y : Bool) (h : FI T s) : FI T (s.rpcDone x y) := by
  unfold Node.rpcDone
  split
  · exact fi_panic _ (fi_congr h rfl rfl)
  · exact fi_congr h rfl rfl

/-- **One step handling an append request**, from a well-formed state whose log is a path in `T`: if the
request is stale (lower term) or a slice of `T` (`ReqOK`), the state after the step is well formed, its log is
a path in `T`, and so is the log on disk at every crash point of the step. -/
theorem follower_step {T : List CEntry} (pre : Node) (q : AppendReq) (ra : List Nat) (ord : List (List Nat))
    (hn : NWF pre) (hch : Chain T none pre.log.entries) (hq : q.term < pre.term ∨ ReqOK T q) :
    FI T (pre.step (.append q) ra ord) := by
  have hb : FI T (pre.begin ra ord) :=
    ⟨nwf_congr hn rfl rfl rfl rfl rfl, hch, fun p hp => by simp [Node.begin] at hp⟩
  have hh : FI T ((pre.begin ra ord).handle (.append q)) := by
    unfold Node.handle
    exact fi_rpcDone _ _ (onAppendEntries_fi _ q hb hq)
  have hd : Down (pre.begin ra ord) ((pre.begin ra ord).handle (.append q)) := by
    have G := down_closed (pre.begin ra ord)
    unfold Node.handle
    exact G.rpcDone_g _ _ _ (G.onAppendEntries_g _ _ (Down.refl _))
  have hpost : pre.step (.append q) ra ord =
      settle 6 ((pre.begin ra ord).handle (.append q)) (pre.begin ra ord).role := rfl
  rw [hpost]
  generalize (pre.begin ra ord).handle (.append q) = h at hh hd
  by_cases hrole : h.role = (pre.begin ra ord).role
  · have e : settle 6 h (pre.begin ra ord).role = h := by unfold settle; rw [if_pos hrole]
    rw [e]; exact hh
  · have hf : h.role = .follower := by
      rcases hd.2.2 with ⟨a, _, _⟩ | a
      · exact absurd a hrole
      · exact a
    cases settle_shape 3 h (pre.begin ra ord).role hrole with
    | follower _ e => rw [e]; exact fi_core hh (core_releaseRole _ _)
    | leader x r _ _ => rw [hf] at r; cases r
    | cand r _ _ => rw [hf] at r; cases r
    | candLeader x r _ _ _ => rw [hf] at r; cases r

/-! ## the role after an append request -/

theorem roleF_closed : GClosed (fun s : Node => s.role = .follower) where
  panic := fun s site h => (SameKey.panic s site).role.trans h
  reply := fun s t r h => (SameKey.reply s t r).role.trans h
  point := fun _ _ h => h
  ldr := fun _ _ h => h
  append := fun _ _ _ h => h
  commitN := fun _ _ h => h
  fsm := fun _ _ h => h
  changeConfigR := fun s c h => (changeConfigR_key s c).2.1.trans h
  setCommitIndexR := fun s i h _ => by
    rcases (setCommitIndexR_key s i).2.2.2 with e | e
    · exact e.trans h
    · exact e
  popOrder := fun _ h => h
  rpcReply := fun _ _ h => h
  ret := fun _ _ h => h
  setLeader := fun _ _ h => h
  doClose := fun s r h => by
    show (s.doClose r).role = _
    unfold Node.doClose; split <;> exact h
  candTransfer := fun _ _ h => h
  removeGTE := fun _ _ _ h => h
  removeLTE := fun _ _ h => h
  clearLog := fun _ h => h
  revertConfig := fun _ h => h
  commitConfig := fun s h => by
    show s.commitConfig.role = _
    unfold Node.commitConfig; dsimp only; split <;> exact h
  publishSnapshot := fun _ _ h => h
  installCommit := fun _ h _ => h
  snapPending := fun _ _ h => h
  snapResult := fun _ _ h => h
  toFollower := fun _ _ => rfl
  setTermF := fun s t h _ => (setTerm_key s t).2.1.trans h
  termThenFollower := fun _ _ _ => rfl
  voteF := fun s t c h _ => (setVotedFor_key s t c).2.1.trans h
  voteGrant := fun s c h _ => (setVotedFor_key s s.term c).2.1.trans h

/-- a request that is not stale leaves the node a follower -/
theorem onAppendEntries_role (s : Node) (q : AppendReq) (hq : ¬ q.term < s.term) :
    (s.onAppendEntries q).role = .follower := by
  have G := roleF_closed
  unfold Node.onAppendEntries
  rw [if_neg hq]
  extract_lets s1 s2 s3 st s4 s6 s5
  have h2 : s2.role = .follower := rfl
  have h3 : s3.role = .follower := G.appendCheck_g s2 q h2
  split
  · exact h3
  · have h4 : s4.role = .follower := G.appendLoop_g { s := s3, index := q.prevLogIndex, term := q.prevLogTerm } q.entries h3
    have h5 : s5.role = .follower := by
      unfold s5
      split
      · have h6 : s6.role = .follower := h4
        split
        · have := (setCommitIndexR_key s6 st.index).2.2.2
          have h7 : (s6.setCommitIndexR st.index).1.role = .follower := by
            rcases this with e | e
            · exact e.trans h6
            · exact e
          exact G.applyCommitted_g _ h7
        · exact h6
      · exact h4
    exact h5

theorem settle_follower (h : Node) (cur : Role) (hf : h.role = .follower) :
    (settle 6 h cur).role = .follower ∧ Core (settle 6 h cur) = Core h := by
  by_cases hrole : h.role = cur
  · have e : settle 6 h cur = h := by unfold settle; rw [if_pos hrole]
    rw [e]; exact ⟨hf, rfl⟩
  · cases settle_shape 3 h cur hrole with
    | follower _ e => rw [e]; exact ⟨(SameKey.releaseRole _ _).role.trans hf, core_releaseRole _ _⟩
    | leader x r _ _ => rw [hf] at r; cases r
    | cand r _ _ => rw [hf] at r; cases r
    | candLeader x r _ _ _ => rw [hf] at r; cases r

/-- a step handling an append request that is not stale ends in the follower role -/
theorem append_step_role (pre : Node) (q : AppendReq) (ra : List Nat) (ord : List (List Nat))
    (hq : ¬ q.term < pre.term) : (pre.step (.append q) ra ord).role = .follower := by
  have hpost : pre.step (.append q) ra ord =
      settle 6 ((pre.begin ra ord).handle (.append q)) (pre.begin ra ord).role := rfl
  rw [hpost]
  refine (settle_follower _ _ ?_).1
  show (((pre.begin ra ord).onAppendEntries q).rpcDone false true).role = _
  rw [(SameKey.rpcDone _ _ _).role]
  exact onAppendEntries_role _ q hq

/-- a step handling a stale append request changes nothing log-related, nor the role -/
theorem append_step_stale (pre : Node) (q : AppendReq) (ra : List Nat) (ord : List (List Nat))
    (hq : q.term < pre.term) :
    LCore (pre.step (.append q) ra ord) = LCore pre ∧ (pre.step (.append q) ra ord).role = pre.role := by
  have hpost : pre.step (.append q) ra ord =
      settle 6 ((pre.begin ra ord).handle (.append q)) (pre.begin ra ord).role := rfl
  have hh : (pre.begin ra ord).handle (.append q) = ((pre.begin ra ord).ret rStaleTerm).rpcDone false true := by
    show ((pre.begin ra ord).onAppendEntries q).rpcDone false true = _
    rw [C04.stale_append_refused (pre.begin ra ord) q hq]
  have hsl : SL (pre.begin ra ord) ((pre.begin ra ord).handle (.append q)) := by
    rw [hh]; exact sl_rpcDone _ _ (sl_ret _ (sl_refl _))
  have hr : ((pre.begin ra ord).handle (.append q)).role = (pre.begin ra ord).role := by
    rw [hh, (SameKey.rpcDone _ _ _).role]; rfl
  have e : settle 6 ((pre.begin ra ord).handle (.append q)) (pre.begin ra ord).role =
      (pre.begin ra ord).handle (.append q) := by unfold settle; rw [if_pos hr]
  rw [hpost, e]
  exact ⟨hsl.core, hr⟩

/-! ## restart -/

theorem restartNode_nosnap (d : Durable) (retain : Nat) (sor : Bool) (hs : d.snaps = []) (hp : d.log.prev = 0) :
    (restartNode d retain sor).snapIndex = 0 ∧ (restartNode d retain sor).snapsDisk = [] ∧
    (restartNode d retain sor).log.prev = 0 ∧ (restartNode d retain sor).log.entries = d.log.entries ∧
    (restartNode d retain sor).lastLogIndex = d.log.entries.length ∧
    (restartNode d retain sor).lastLogTerm = lastTerm d.log.entries ∧
    (restartNode d retain sor).role = .follower ∧ (restartNode d retain sor).trace = [] := by
  unfold Node.restartNode
  extract_lets snap log lastIdx lastT sc latest committed
  have e0 : snap = {} := by unfold snap; rw [hs]; rfl
  have e1 : log = d.log := by
    have hst : staleLog d = false := by
      unfold staleLog
      rw [hs]
      show (decide (d.log.last < 0) || (decide (d.log.prev < 0) && _)) = false
      simp
    unfold log; rw [hst]; rfl
  refine ⟨by show snap.index = 0; rw [e0], hs, by show log.prev = 0; rw [e1]; exact hp,
    by show log.entries = _; rw [e1], ?_, ?_, rfl, rfl⟩
  · show lastIdx = _
    unfold lastIdx
    rw [e1, e0]
    unfold NLog.count NLog.last
    rw [hp]
    split
    · omega
    · show 0 = _; omega
  · show lastT = _
    unfold lastT lastTerm
    rw [e1, e0]
    unfold NLog.count
    split
    · rfl
    · rename_i h
      have : d.log.entries = [] := by
        cases hl : d.log.entries with
        | nil => rfl
        | cons a b => rw [hl] at h; simp at h
      rw [this]; rfl

/-- **restart without snapshots**: the node comes back as a follower holding exactly the entries found on
disk, well formed when those are contiguous from index 1. -/
theorem restart_nwf (d : Durable) (retain : Nat) (sor : Bool) (n : Node)
    (h : Node.restart d retain sor = some n) (hs : d.snaps = []) (hp : d.log.prev = 0)
    (hc : Contig d.log.entries) :
    NWF n ∧ n.log.entries = d.log.entries ∧ n.role = .follower ∧ n.trace = [] := by
  obtain ⟨r1, r2, r3, r4, r5, r6, r7, r8⟩ := restartNode_nosnap d retain sor hs hp
  unfold Node.restart at h
  split at h
  · cases h
  · split at h
    · cases h
    · injection h with h
      rw [if_neg (by rw [r1]; omega)] at h
      subst h
      exact ⟨⟨r1, r2, r3, by rw [r4]; exact hc, r5.trans (by rw [r4]), r6.trans (by rw [r4])⟩, r4, r7, r8⟩

end LogRel
end Raft

#print axioms Raft.LogRel.leader_step
#print axioms Raft.LogRel.follower_step
#print axioms Raft.LogRel.restart_nwf
