/-
Delayed compaction, part G1 — a GUARDED closure framework for the mutually recursive leader block.

`Node.Closed` (Lemmas/Inv.lean) asks of a predicate that it survives ANY replacement of the leader record
(`ldr : ∀ s l, Inv s → Inv (s.withLdr l)`), so it cannot say anything about `ldr.removeLTE` or the replication statuses.
`Node.ClosedG` asks instead for the two updates of the leader record the leader block actually performs:
* `ldrK`   — a new record with the SAME compaction bound and the SAME replication table (queue, transfer, waiting tasks,
             cached node and voter count);
* `replsG` — a new replication table in which every status either holds the leader's bound (`addReplication`) or has the
             id and the `removeLTE` of a status of the old table (`setRepl` of a modified status, the removal of
             replications, the bookkeeping of rounds).
`ClosedG.block`: such a predicate is preserved by the whole block, any budget — the proof of `Closed.block` with the
guards discharged at every update of the leader record.
-/
import RaftVerif.Lemmas.LeaderCache

namespace Raft
namespace Node

/-- a predicate preserved by the primitives of the leader block, the leader record being updated under guards -/
structure ClosedG (Inv : Node → Prop) : Prop where
  panic : ∀ s site, Inv s → Inv (s.panic site)
  reply : ∀ s t r, Inv s → Inv (s.reply t r)
  point : ∀ s n, Inv s → Inv (s.point n)
  ldrK : ∀ (s : Node) l, Inv s → l.removeLTE = s.ldr.removeLTE → l.repls = s.ldr.repls → Inv (s.withLdr l)
  replsG : ∀ (s : Node) rs, Inv s →
    (∀ r ∈ rs, r.removeLTE = s.ldr.removeLTE ∨ ∃ r1 ∈ s.ldr.repls, r1.id = r.id ∧ r1.removeLTE = r.removeLTE) →
    Inv (s.withLdr { s.ldr with repls := rs })
  append : ∀ (s : Node) e roll, Inv s →
    Inv { s with log := s.log.append e roll, lastLogIndex := e.index, lastLogTerm := e.term }
  commitN : ∀ (s : Node) n, Inv s → Inv { s with log := s.log.commitN n }
  fsm : ∀ (s : Node) f, Inv s → Inv (s.withFsm f)
  changeConfigR : ∀ (s : Node) c, Inv s → Inv (s.changeConfigR c)
  /-- the commit index only ever moves forward: every call site has checked `i > commitIndex` -/
  setCommitIndexR : ∀ (s : Node) i, Inv s → i > s.commitIndex → Inv (s.setCommitIndexR i).1
  popOrder : ∀ (s : Node), Inv s → Inv s.popOrder

namespace ClosedG

variable {Inv : Node → Prop} (h : ClosedG Inv)
include h

theorem assert_inv (s : Node) (b : Bool) (site : String) (hs : Inv s) : Inv (s.assert b site) := by
  unfold Node.assert; split <;> simp_all [h.panic]

theorem appendEntry_inv (s : Node) (e : Entry) (hs : Inv s) : Inv (s.appendEntry e) := by
  unfold Node.appendEntry
  exact h.append _ _ _ (h.assert_inv _ _ _ hs)

theorem commitLog_inv (s : Node) (n : Nat) (hs : Inv s) : Inv (s.commitLog n) := by
  unfold Node.commitLog; exact h.point _ _ (h.commitN _ _ hs)

omit h in
/-- members of `insertRepl r l`: `r`, or members of `l` -/
theorem mem_insertRepl' (r x : Repl) (l : List Repl) (hx : x ∈ insertRepl r l) : x = r ∨ x ∈ l := by
  induction l with
  | nil => simp [insertRepl] at hx; exact Or.inl hx
  | cons m ms ih =>
    unfold insertRepl at hx
    split at hx
    · rcases List.mem_cons.mp hx with e | e
      · exact Or.inl e
      · exact Or.inr e
    · split at hx
      · rcases List.mem_cons.mp hx with e | e
        · exact Or.inl e
        · exact Or.inr (List.mem_cons_of_mem _ e)
      · rcases List.mem_cons.mp hx with e | e
        · exact Or.inr (by rw [e]; exact List.mem_cons_self ..)
        · rcases ih e with e' | e'
          · exact Or.inl e'
          · exact Or.inr (List.mem_cons_of_mem _ e')

/-- `setRepl` of a status that holds the bound, or that has the id and the `removeLTE` of a status of the table -/
theorem setRepl_inv (s : Node) (r : Repl) (hs : Inv s)
    (hr : r.removeLTE = s.ldr.removeLTE ∨ ∃ r1 ∈ s.ldr.repls, r1.id = r.id ∧ r1.removeLTE = r.removeLTE) :
    Inv (s.setRepl r) := by
  unfold Node.setRepl
  refine h.replsG _ _ hs (fun x hx => ?_)
  rcases mem_insertRepl' r x _ hx with e | e
  · rw [e]; exact hr
  · exact Or.inr ⟨x, e, rfl, rfl⟩

/-- `setRepl` of a modified copy of a status the table holds -/
theorem setRepl_keep (s : Node) (r st : Repl) (hs : Inv s) (hst : st ∈ s.ldr.repls) (hid : r.id = st.id)
    (hrm : r.removeLTE = st.removeLTE) : Inv (s.setRepl r) :=
  h.setRepl_inv s r hs (Or.inr ⟨st, hst, hid.symm, hrm.symm⟩)

theorem addReplication_inv (s : Node) (n : CNode) (hs : Inv s) : Inv (s.addReplication n) := by
  unfold Node.addReplication
  dsimp only
  apply h.setRepl_inv
  · split
    · exact h.assert_inv _ _ _ hs
    · exact h.panic _ _ (h.assert_inv _ _ _ hs)
  · exact Or.inl rfl

theorem notifyFlr_inv (s : Node) (hs : Inv s) : Inv s.notifyFlr := by
  unfold Node.notifyFlr; split
  · exact hs
  · split
    · exact hs
    · exact h.panic _ _ hs

theorem beginFinishedRounds_inv (s : Node) (hs : Inv s) : Inv s.beginFinishedRounds := by
  unfold Node.beginFinishedRounds
  refine h.replsG _ _ hs (fun x hx => ?_)
  obtain ⟨r, hr, e⟩ := List.mem_map.mp hx
  refine Or.inr ⟨r, hr, ?_, ?_⟩
  · rw [← e]; split
    · split <;> rfl
    · rfl
  · rw [← e]; split
    · split <;> rfl
    · rfl

theorem fsmApplyLogTo_inv (s : Node) (n : Nat) (hs : Inv s) : Inv (s.fsmApplyLogTo n) := by
  unfold Node.fsmApplyLogTo
  split
  · exact hs
  · split
    · exact h.panic _ _ hs
    · extract_lets es ups lastTerm cfg s1
      have h1 : Inv s1 := by unfold s1; split; exact h.panic _ _ hs; exact hs
      split
      · exact h.panic _ _ hs
      · exact h.fsm _ _ h1

theorem fsmApplyItems_inv (s : Node) (qs : List QItem) (hs : Inv s) : Inv (s.fsmApplyItems qs) := by
  induction qs generalizing s with
  | nil => exact hs
  | cons q qs ih =>
    unfold Node.fsmApplyItems
    dsimp only
    apply ih
    apply h.reply
    have h1 : Inv (s.assert (q.index == s.fsm.index + 1) "fsm.assertNext") := h.assert_inv s _ _ hs
    repeat' split
    all_goals first
      | exact h.fsm _ _ (h.fsm _ _ (h.fsm _ _ h1))
      | exact h.fsm _ _ (h.fsm _ _ h1)
      | exact h.fsm _ _ h1
      | exact h1

theorem fsmApply_inv (s : Node) (qs : List QItem) (hs : Inv s) : Inv (s.fsmApply qs) := by
  unfold Node.fsmApply
  split
  · exact h.panic _ _ hs
  · split
    · exact h.panic _ _ hs
    · dsimp only
      exact h.assert_inv _ _ _ (h.fsmApplyItems_inv _ _ (h.fsmApplyLogTo_inv _ _ hs))

theorem applyCommittedL_inv (s : Node) (hs : Inv s) : Inv s.applyCommittedL := by
  unfold Node.applyCommittedL; exact h.fsmApply_inv _ _ (h.ldrK _ _ hs rfl rfl)

omit h in
theorem foldl_inv {β : Type} (f : Node → β → Node) (hf : ∀ s x, Inv s → Inv (f s x))
    (xs : List β) (s : Node) (hs : Inv s) : Inv (xs.foldl f s) := by
  induction xs generalizing s with
  | nil => exact hs
  | cons x xs ih => exact ih _ (hf _ _ hs)

/-- The leader block preserves every closed invariant, by induction on the recursion budget. -/
theorem block : ∀ fuel : Nat,
    (∀ s b, Inv s → Inv (storeEntry fuel s b)) ∧
    (∀ s b, Inv s → Inv (storeItems fuel s b)) ∧
    (∀ s c, Inv s → Inv (changeConfigL fuel s c)) ∧
    (∀ s t c, Inv s → Inv (doChangeConfig fuel s t c)) ∧
    (∀ s t c, Inv s → Inv (checkConfigActions fuel s t c)) ∧
    (∀ s t c id, Inv s → Inv (checkConfigAction fuel s t c id)) ∧
    (∀ s i, Inv s → i > s.commitIndex → Inv (setCommitIndexL fuel s i)) ∧
    (∀ s, Inv s → Inv (onMajorityCommit fuel s)) := by
  intro fuel
  induction fuel with
  | zero =>
    refine ⟨?_, ?_, ?_, ?_, ?_, ?_, ?_, ?_⟩ <;> intros <;> (try unfold storeItems) <;>
      (try unfold storeEntry) <;> (try unfold changeConfigL) <;> (try unfold doChangeConfig) <;>
      (try unfold checkConfigActions) <;> (try unfold checkConfigAction) <;>
      (try unfold setCommitIndexL) <;> (try unfold onMajorityCommit) <;>
      (try split) <;> first | assumption | (apply h.panic; assumption)
  | succ n ih =>
    obtain ⟨ihSE, ihSI, ihCL, ihDC, ihCAs, ihCA, ihSC, ihMC⟩ := ih
    refine ⟨?_, ?_, ?_, ?_, ?_, ?_, ?_, ?_⟩
    · -- storeEntry
      intro s b hs
      unfold storeEntry; dsimp only
      have h1 : Inv (storeItems n s b) := ihSI _ _ hs
      have h2 := h.applyCommittedL_inv _ h1
      repeat' split
      all_goals first
        | exact ihMC _ (h.notifyFlr_inv _ (h.beginFinishedRounds_inv _ h2))
        | exact ihMC _ (h.notifyFlr_inv _ (h.beginFinishedRounds_inv _ h1))
        | exact h.notifyFlr_inv _ (h.beginFinishedRounds_inv _ h2)
        | exact h.notifyFlr_inv _ (h.beginFinishedRounds_inv _ h1)
        | exact h2
        | exact h1
    · -- storeItems
      intro s b hs
      cases b with
      | nil => unfold storeItems; exact hs
      | cons q qs =>
        unfold storeItems; dsimp only
        apply ihSI
        split
        · exact h.reply _ _ _ hs
        · split
          · split
            · exact h.reply _ _ _ hs
            · exact h.reply _ _ _ hs
          · have h1 := h.ldrK s { s.ldr with queue := s.ldr.queue ++ [{ q with index := s.lastLogIndex + 1, term := s.term, cfg := q.cfg.map Config.payload }] } hs rfl rfl
            split
            · split
              · split
                · exact ihCL _ _ (h.appendEntry_inv _ _ h1)
                · exact h.panic _ _ (h.appendEntry_inv _ _ h1)
              · exact h.appendEntry_inv _ _ h1
            · exact h1
    · -- changeConfigL
      intro s c hs
      unfold changeConfigL; dsimp only
      apply ihCAs
      apply foldl_inv
      · intro s x hs
        split
        · exact hs
        · split
          · exact h.addReplication_inv _ _ hs
          · rename_i r hf
            exact h.setRepl_keep _ _ r hs (LC.find_mem hf).1 rfl rfl
      · refine h.replsG _ _ (h.changeConfigR _ _ (h.ldrK _ _ hs rfl rfl)) (fun x hx => ?_)
        exact Or.inr ⟨x, (List.mem_filter.mp hx).1, rfl, rfl⟩
    · -- doChangeConfig
      intro s t c hs
      unfold doChangeConfig; exact ihSE _ _ hs
    · -- checkConfigActions
      intro s t c hs
      unfold checkConfigActions; dsimp only
      apply foldl_inv
      · intro s x hs
        split
        · exact ihCA _ _ _ _ hs
        · exact hs
      · apply h.popOrder
        split
        · split
          · exact ihDC _ _ _ hs
          · split
            · exact ihDC _ _ _ hs
            · exact h.panic _ _ hs
        · exact hs
    · -- checkConfigAction
      intro s t c id hs
      unfold checkConfigAction; dsimp only
      split
      · exact hs
      · rename_i st hf
        have hst := (LC.find_mem hf).1
        have hk : ∀ l a, (roundStep l a st).1.id = st.id ∧ (roundStep l a st).1.removeLTE = st.removeLTE := by
          intro l a
          unfold roundStep startRound finishRound
          dsimp only
          repeat' split
          all_goals exact ⟨rfl, rfl⟩
        have h1 : ∀ l a, Inv (s.setRepl (roundStep l a st).1) :=
          fun l a => h.setRepl_keep s _ st hs hst (hk l a).1 (hk l a).2
        repeat' split
        all_goals first | exact hs | exact h1 _ _ | exact ihDC _ _ _ (h1 _ _)
    · -- setCommitIndexL
      intro s i hs hi
      unfold setCommitIndexL
      extract_lets s1 ready r s2 s3
      have h2 : Inv s2 := h.setCommitIndexR _ i (h.commitLog_inv _ i hs) hi
      have h3 : Inv s3 := by
        unfold s3; split
        · exact ihCAs _ _ _ h2
        · exact h2
      split
      · split
        · exact h.ldrK _ _ (foldl_inv _ (fun s t hs => h.reply _ _ _ hs) _ _ h3) rfl rfl
        · exact ihCAs _ _ _ h3
      · exact h3
    · -- onMajorityCommit
      intro s hs
      unfold onMajorityCommit; dsimp only
      have h1 := h.panic s "nil.majorityMatchIndex" hs
      have hc : ∀ site, (s.panic site).commitIndex = s.commitIndex := by
        intro site; unfold Node.panic; split <;> rfl
      split
      · split
        · rename_i hgt
          exact h.notifyFlr_inv _ (h.applyCommittedL_inv _ (ihSC _ _ hs hgt.1))
        · exact hs
      · split
        · rename_i hgt
          exact h.notifyFlr_inv _ (h.applyCommittedL_inv _ (ihSC _ _ h1 (by rw [hc] at hgt; rw [hc]; exact hgt.1)))
        · exact h1

end ClosedG
end Node
end Raft
