/-
Node-level lemma `ack_majority_commits` for the possibility proof (Props/C17Sys.lean): a leader that is told, in one
`replUpdates` batch, that the other members of a majority `M` of the voters have reached its last log index `N`
commits `N` and applies it.
-/
import RaftVerif.Lemmas.ProgressNode

namespace Raft
namespace Progress
open Node LogRel CommitRel

/-! ### the replication table -/

theorem find_insertRepl (r : Repl) (id : Nat) : ∀ (l : List Repl),
    (insertRepl r l).find? (·.id == id) = if r.id = id then some r else l.find? (·.id == id)
  | [] => by
    unfold insertRepl
    by_cases h : r.id = id
    · rw [if_pos h]; simp [List.find?, h]
    · rw [if_neg h]
      have : (r.id == id) = false := by simpa using h
      simp [List.find?, this]
  | m :: ms => by
    unfold insertRepl
    by_cases h : r.id = id
    · rw [if_pos h]
      split
      · simp [List.find?, h]
      · split
        · simp [List.find?, h]
        · rename_i h1 h2
          have hm : ¬ m.id = id := by omega
          rw [List.find?_cons_of_neg (by simpa using hm), find_insertRepl r id ms, if_pos h]
    · rw [if_neg h]
      split
      · rw [List.find?_cons_of_neg (by simpa using h)]
      · split
        · rename_i h1 h2
          have hm : ¬ m.id = id := by omega
          rw [List.find?_cons_of_neg (by simpa using h), List.find?_cons_of_neg (by simpa using hm)]
        · by_cases hm : m.id = id
          · rw [List.find?_cons_of_pos (by simpa using hm), List.find?_cons_of_pos (by simpa using hm)]
          · rw [List.find?_cons_of_neg (by simpa using hm), List.find?_cons_of_neg (by simpa using hm),
              find_insertRepl r id ms, if_neg h]

/-- the match-index report of replication `j` -/
def mkMatch (N j : Nat) : ReplUpdate := { id := j, removed := false, upd := .matchIndex N }

/-- the node with another replication table -/
def withRepls (s : Node) (R : List Repl) : Node := s.withLdr { s.ldr with repls := R }

theorem withRepls_self (s : Node) : withRepls s s.ldr.repls = s := rfl

theorem withRepls_setRepl (s : Node) (R : List Repl) (r : Repl) :
    (withRepls s R).setRepl r = withRepls s (insertRepl r R) := rfl

/-- **the loop of `checkReplUpdates` over match-index reports `N` for the ids `js`**, each of which has a
replication whose cached node carries no action: only the replication table changes — the same ids are present,
those in `js` have match index `N`; the flag `matchU` is raised. -/
theorem replUpdLoop_match (N : Nat) : ∀ (js : List Nat) (s : Node) (R : List Repl) (f : UpdFlags),
    (∀ j ∈ js, ∃ r, R.find? (·.id == j) = some r) → (∀ r ∈ R, r.node.action = actNone) →
    ∃ R', replUpdLoop (withRepls s R) f (js.map (mkMatch N)) =
        (withRepls s R', { f with matchU := f.matchU || !js.isEmpty }) ∧
      (∀ id, (R'.find? (·.id == id)).isSome = (R.find? (·.id == id)).isSome) ∧
      (∀ j ∈ js, ∀ r, R'.find? (·.id == j) = some r → r.matchIndex = N) ∧
      (∀ id r, R'.find? (·.id == id) = some r → r.matchIndex = N ∨ R.find? (·.id == id) = some r) ∧
      (∀ r ∈ R', r.node.action = actNone)
  | [], s, R, f, _, hact => by
    refine ⟨R, ?_, fun _ => rfl, fun j hj => absurd hj List.not_mem_nil, fun id r h => Or.inr h, hact⟩
    show (withRepls s R, f) = _
    cases f; simp
  | j :: js, s, R, f, hjs, hact => by
    obtain ⟨st, hst⟩ := hjs j (List.mem_cons_self ..)
    have hid : st.id = j := by simpa using List.find?_some hst
    have hmem : st ∈ R := List.mem_of_find?_eq_some hst
    have hact' : ∀ r ∈ insertRepl { st with matchIndex := N } R, r.node.action = actNone := by
      intro r hr
      rcases mem_insertRepl hr with e | e
      · rw [e]; exact hact st hmem
      · exact hact r e
    have hfind : ∀ id, (insertRepl { st with matchIndex := N } R).find? (·.id == id) =
        if st.id = id then some { st with matchIndex := N } else R.find? (·.id == id) :=
      fun id => find_insertRepl { st with matchIndex := N } id R
    have hjs' : ∀ j' ∈ js, ∃ r, (insertRepl { st with matchIndex := N } R).find? (·.id == j') = some r := by
      intro j' hj'
      rw [hfind]
      split
      · exact ⟨_, rfl⟩
      · exact hjs j' (List.mem_cons_of_mem _ hj')
    obtain ⟨R', e, a1, a2, a3, a4⟩ := replUpdLoop_match N js s (insertRepl { st with matchIndex := N } R)
      { f with matchU := true } hjs' hact'
    refine ⟨R', ?_, ?_, ?_, ?_, a4⟩
    · show replUpdLoop (withRepls s R) f (mkMatch N j :: js.map (mkMatch N)) = _
      unfold replUpdLoop
      rw [if_neg (by intro h; cases h)]
      have hf : (withRepls s R).findRepl? (mkMatch N j).id = some st := hst
      rw [hf]
      dsimp only [mkMatch]
      rw [if_neg (by
        intro h
        exact h.2 (hact st hmem))]
      rw [withRepls_setRepl, e]
      simp
    · intro id
      rw [a1, hfind]
      split
      · rename_i h; rw [← h, hid, hst]; rfl
      · rfl
    · intro j' hj' r hr
      rcases List.mem_cons.mp hj' with e' | e'
      · rcases a3 j' r hr with h | h
        · exact h
        · rw [hfind, if_pos (by rw [hid, e'])] at h
          injection h with h; rw [← h]
      · exact a2 j' e' r hr
    · intro id r hr
      rcases a3 id r hr with h | h
      · exact Or.inl h
      · rw [hfind] at h
        split at h
        · injection h with h; left; rw [← h]
        · exact Or.inr h

/-! ### counting a majority -/

theorem count_sub (g : CNode → Nat) (N : Nat) : ∀ (L : List CNode) (M : List Nat), (L.map (·.id)).Nodup → M.Nodup →
    (∀ v ∈ M, v ∈ L.map (·.id)) → (∀ n ∈ L, n.id ∈ M → g n ≥ N) →
    M.length ≤ (L.map g).countP (fun m => decide (m ≥ N))
  | [], M, _, _, hsub, _ => by
    cases M with
    | nil => exact Nat.zero_le _
    | cons v M => exact absurd (hsub v (List.mem_cons_self ..)) List.not_mem_nil
  | n :: L, M, hL, hM, hsub, hg => by
    rw [List.map_cons, List.nodup_cons] at hL
    by_cases hn : n.id ∈ M
    · have hM' : (M.erase n.id).Nodup := hM.erase _
      have hlen : (M.erase n.id).length = M.length - 1 := List.length_erase_of_mem hn
      have hpos : 0 < M.length := List.length_pos_of_mem hn
      have hsub' : ∀ v ∈ M.erase n.id, v ∈ L.map (·.id) := by
        intro v hv
        have hvM : v ∈ M := List.mem_of_mem_erase hv
        have hne : v ≠ n.id := fun e => by
          rw [e] at hv
          exact (List.Nodup.not_mem_erase hM) hv
        rcases List.mem_cons.mp (hsub v hvM) with e | e
        · exact absurd e hne
        · exact e
      have ih := count_sub g N L (M.erase n.id) hL.2 hM' hsub'
        (fun m hm hmM => hg m (List.mem_cons_of_mem _ hm) (List.mem_of_mem_erase hmM))
      rw [List.map_cons, List.countP_cons_of_pos (by simpa using hg n (List.mem_cons_self ..) hn)]
      omega
    · have hsub' : ∀ v ∈ M, v ∈ L.map (·.id) := by
        intro v hv
        rcases List.mem_cons.mp (hsub v hv) with e | e
        · rw [e] at hv; exact absurd hv hn
        · exact e
      have ih := count_sub g N L M hL.2 hM hsub' (fun m hm hmM => hg m (List.mem_cons_of_mem _ hm) hmM)
      rw [List.map_cons, List.countP_cons]
      exact Nat.le_trans ih (Nat.le_add_right _ _)

/-- **ack_majority_commits, the selection**: when the members of a majority `M` of the voters other than the leader
itself have match index `≥ N` in the table and the leader's log reaches `N`, `majorityMatchIndex` selects an index
`≥ N`. -/
theorem majority_after_acks (s : Node) (R' : List Repl) (M : List Nat) (N : Nat)
    (hM : M.Nodup) (hMV : ∀ v ∈ M, v ∈ s.configs.latest.voters) (hnd : s.configs.latest.voters.Nodup)
    (hmaj : 2 * M.length > s.configs.latest.voters.length) (hself : s.lastLogIndex ≥ N)
    (hothers : ∀ j ∈ M, j ≠ s.nid → ∃ r, R'.find? (·.id == j) = some r ∧ r.matchIndex ≥ N)
    (h2 : ¬ (s.ldr.numVoters = 1 ∧ s.ldr.node.voter = true)) :
    (withRepls s R').majorityMatchIndex.1 ≥ N := by
  apply C17.majority_commits (withRepls s R') N h2
  have hlen : (withRepls s R').voterMatches.length = s.configs.latest.voters.length := by
    rw [C06.voterMatches_length, voters_length]; rfl
  rw [hlen]
  have hc := count_sub (fun n => if n.id = s.nid then s.lastLogIndex
      else (((withRepls s R').findRepl? n.id).map (·.matchIndex)).getD 0) N
    (s.configs.latest.nodes.filter (·.voter)) M hnd hM hMV (fun n _ hnM => by
      show (if n.id = s.nid then s.lastLogIndex
        else (((withRepls s R').findRepl? n.id).map (·.matchIndex)).getD 0) ≥ N
      split
      · exact hself
      · rename_i hne
        obtain ⟨r, hr, hm⟩ := hothers n.id hnM hne
        have : (withRepls s R').findRepl? n.id = some r := hr
        rw [this]; exact hm)
  have : (withRepls s R').voterMatches.countP (fun m => decide (m ≥ N)) ≥ M.length := hc
  omega

/-- … and it reports no missing replication -/
theorem majority_ok (s : Node) (R' : List Repl)
    (hall : ∀ n ∈ s.configs.latest.nodes, n.id ≠ s.nid → (R'.find? (·.id == n.id)).isSome = true)
    (hne : s.configs.latest.nodes ≠ []) (h2 : ¬ (s.ldr.numVoters = 1 ∧ s.ldr.node.voter = true)) :
    (withRepls s R').majorityMatchIndex.2 = true := by
  unfold Node.majorityMatchIndex
  rw [if_neg (show ¬ ((withRepls s R').ldr.numVoters = 1 ∧ (withRepls s R').ldr.node.voter = true) from h2)]
  dsimp only
  have h1 : ((s.configs.latest.nodes.filter (·.voter)).any
      (fun n => n.id != s.nid && ((withRepls s R').findRepl? n.id).isNone)) = false := by
    rw [List.any_eq_false]
    intro n hn
    have hn' := (List.mem_filter.mp hn).1
    by_cases e : n.id = s.nid
    · simp [e]
    · have := hall n hn' e
      have hf : ((withRepls s R').findRepl? n.id).isSome = true := this
      simp [Option.isNone_iff_eq_none, Option.isSome_iff_ne_none.mp hf]
  have h3 : decide ((withRepls s R').configs.latest.nodes.length > 0) = true := by
    have : (withRepls s R').configs.latest.nodes.length > 0 := List.length_pos_iff.mpr hne
    exact decide_eq_true this
  show (!(List.any _ _) && decide _) = true
  rw [h3]
  have : ((withRepls s R').configs.latest.nodes.filter (·.voter)).any
      (fun n => n.id != (withRepls s R').nid && ((withRepls s R').findRepl? n.id).isNone) = false := h1
  rw [this]; rfl

/-! ### the commit -/

/-- `leader.setCommitIndex` of an open leader that is a voter of its stable latest configuration: afterwards the
commit index is at least `i`; role, term, latest configuration, `closed` stay -/
theorem setCommitIndexL_ki {C : Config} {n t lb : Nat} (hC : C.isVoter n = true) (hS : C.isStable = true)
    (f : Nat) (s : Node) (i : Nat) (hs : KI C n t lb s) : KI C n t i (setCommitIndexL (f + 1) s i) := by
  have L := ki_closed C AF n t i hC
  unfold setCommitIndexL
  extract_lets s1 ready r s2 s3
  have h2 : KI C n t i s2 := by
    have hv : (s.commitLog i).configs.latest.isVoter (s.commitLog i).nid = true := by
      show s.configs.latest.isVoter s.nid = true
      rw [hs.1, hs.2.2.1]; exact hC
    obtain ⟨a, b, c, d⟩ := setCommitIndexR_open (s.commitLog i) i (has_of_isVoter _ _ hv)
    obtain ⟨_, _, r', _⟩ := setCommitIndexR_voter (s.commitLog i) i hv
    exact ⟨a.trans hs.1, b.trans hs.2.1, c.trans hs.2.2.1, by show i ≤ (s1.setCommitIndexR i).1.commitIndex; rw [d]; exact Nat.le_refl _,
      r'.trans hs.2.2.2.2.1, (setCommitIndexR_key (s.commitLog i) i).2.1.trans hs.2.2.2.2.2⟩
  have h3 : KI C n t i s3 := by
    unfold s3
    split
    · rw [h2.1]; exact L.checkConfigActions_m hS _ _ _ h2
    · exact h2
  split
  · split
    · have key : ∀ (ts : List Nat) (x : Node), KI C n t i x →
          KI C n t i (ts.foldl (fun s t => s.reply t s!"config:{s.configs.latest.index}") x) := by
        intro ts
        induction ts with
        | nil => intro x hx; exact hx
        | cons a as ih => intro x hx; exact ih _ (L.reply _ _ _ hx)
      exact L.ldrSame_m _ _ (key _ _ h3) rfl rfl rfl rfl
    · rw [h3.1]; exact L.checkConfigActions_m hS _ _ _ h3
  · exact h3

/-- what the step in which a leader `s` learns that a majority has reached its last log index `N` leaves -/
structure Committed (N : Nat) (s s' : Node) : Prop where
  role : s'.role = .leader
  term : s'.term = s.term
  nid : s'.nid = s.nid
  cfg : s'.configs.latest = s.configs.latest
  closed : s'.closed = ""
  commit : N ≤ s'.commitIndex
  applied : s'.fsm.index = s'.commitIndex

theorem keep_notifyFlr (s : Node) : Keep s s.notifyFlr ∧ s.notifyFlr.role = s.role ∧ s.notifyFlr.term = s.term := by
  unfold Node.notifyFlr
  split
  · exact ⟨Keep.refl s, rfl, rfl⟩
  · split
    · exact ⟨Keep.refl s, rfl, rfl⟩
    · exact ⟨keep_panic s _, (SameKey.panic s _).role, (SameKey.panic s _).term⟩

theorem keep_tryTransfer (s : Node) : Keep s s.tryTransfer ∧ s.tryTransfer.role = s.role ∧ s.tryTransfer.term = s.term := by
  unfold Node.tryTransfer
  extract_lets r s1 s2
  have k1 : Keep s s1 ∧ s1.role = s.role ∧ s1.term = s.term := by
    unfold s1; split
    · exact ⟨keep_popOrder s, rfl, rfl⟩
    · exact ⟨Keep.refl s, rfl, rfl⟩
  have k2 : Keep s s2 ∧ s2.role = s.role ∧ s2.term = s.term := by
    unfold s2; split
    · exact ⟨k1.1.trans (keep_panic _ _), (SameKey.panic s1 _).role.trans k1.2.1,
        (SameKey.panic s1 _).term.trans k1.2.2⟩
    · exact k1
  split
  · exact ⟨k2.1.trans (keep_withLdr _ _), k2.2.1, k2.2.2⟩
  · exact k2

/-- **ack_majority_commits**: a leader `s` (an open voter of its stable latest configuration `C`, at least two
voters, current caches, commit index below its last log index `N`, `startIndex ≤ N`) is told in one batch of
replication updates that every OTHER member of a majority `M` of the voters has match index `N`; the step does not
fail. Then it commits: `commitIndex ≥ N`, the state machine has applied everything up to the commit index, it is
still the leader of the same term, open, with the same latest configuration. -/
theorem ack_majority_commits (s : Node) (ra : List Nat) (ord : List (List Nat)) (M : List Nat) (N : Nat)
    (hr : s.role = .leader) (ho : s.closed = "") (hN : s.lastLogIndex = N) (hci : s.commitIndex < N)
    (hstart : s.ldr.startIndex ≤ N) (hcache : C06Cache.CacheOK s) (hst : s.configs.latest.isStable = true)
    (hv : s.configs.latest.isVoter s.nid = true) (hnd : s.configs.latest.voters.Nodup)
    (h2 : 2 ≤ s.configs.latest.numVoters) (hM : M.Nodup) (hMV : ∀ v ∈ M, v ∈ s.configs.latest.voters)
    (hmaj : 2 * M.length > s.configs.latest.voters.length) (hMne : ∃ j ∈ M, j ≠ s.nid)
    (hp : (s.step (.replUpdates ((M.filter (· != s.nid)).map (mkMatch N))) ra ord).panicked = none) :
    Committed N s (s.step (.replUpdates ((M.filter (· != s.nid)).map (mkMatch N))) ra ord) := by
  -- the replications of the other members
  have hrepl : ∀ j ∈ M, j ≠ s.nid → ∃ r, s.ldr.repls.find? (·.id == j) = some r := by
    intro j hj hne
    have hjv := hMV j hj
    unfold Config.voters at hjv
    obtain ⟨nd, hnd', hid⟩ := List.mem_map.mp hjv
    obtain ⟨r, hr', hrid⟩ := hcache.member_repl nd (List.mem_filter.mp hnd').1 (by rw [hid]; exact hne)
    have : (s.ldr.repls.find? (·.id == j)).isSome = true := by
      rw [List.find?_isSome]
      exact ⟨r, hr', by rw [hrid, hid]; simp⟩
    exact Option.isSome_iff_exists.mp this
  have hact : ∀ r ∈ s.ldr.repls, r.node.action = actNone := by
    intro r hr'
    have hm := (hcache.repl_member r hr').2.1
    have := hst
    unfold Config.isStable at this
    have := List.all_eq_true.mp this r.node hm
    simpa using this
  have hfast : ¬ (s.ldr.numVoters = 1 ∧ s.ldr.node.voter = true) := by
    intro h; rw [hcache.numVoters] at h; omega
  have hjs_mem : ∀ j, j ∈ M.filter (· != s.nid) ↔ j ∈ M ∧ j ≠ s.nid := by
    intro j; rw [List.mem_filter]; simp
  generalize hjs : M.filter (· != s.nid) = js at hp hjs_mem ⊢
  have hjs_ne : js ≠ [] := by
    obtain ⟨j, hj, hne⟩ := hMne
    exact List.ne_nil_of_mem ((hjs_mem j).mpr ⟨hj, hne⟩)
  obtain ⟨R', eloop, a1, a2, _, _⟩ := replUpdLoop_match N js (s.begin ra ord) s.ldr.repls {}
    (fun j hj => hrepl j ((hjs_mem j).mp hj).1 ((hjs_mem j).mp hj).2) hact
  have hbR : withRepls (s.begin ra ord) s.ldr.repls = s.begin ra ord := rfl
  rw [hbR] at eloop
  -- the selection
  have hm1 : (withRepls (s.begin ra ord) R').majorityMatchIndex.1 ≥ N := by
    refine majority_after_acks (s.begin ra ord) R' M N hM hMV hnd hmaj
      (by show s.lastLogIndex ≥ N; omega) ?_ hfast
    intro j hj hne
    obtain ⟨r0, hr0⟩ := hrepl j hj hne
    have hsome : (R'.find? (·.id == j)).isSome = true := by rw [a1, hr0]; rfl
    obtain ⟨r, hr'⟩ := Option.isSome_iff_exists.mp hsome
    exact ⟨r, hr', by rw [a2 j ((hjs_mem j).mpr ⟨hj, hne⟩) r hr']; exact Nat.le_refl _⟩
  have hm2 : (withRepls (s.begin ra ord) R').majorityMatchIndex.2 = true := by
    refine majority_ok (s.begin ra ord) R' ?_ ?_ hfast
    · intro nd hnd' hne
      obtain ⟨r, hr', hrid⟩ := hcache.member_repl nd hnd' hne
      rw [a1, List.find?_isSome]
      exact ⟨r, hr', by rw [hrid]; simp⟩
    · intro e
      have : s.configs.latest.numVoters = 0 := by
        unfold Config.numVoters
        rw [show s.configs.latest.nodes = [] from e]; rfl
      omega
  -- the handler
  have hadv := C17.onMajorityCommit_advances 63 (withRepls (s.begin ra ord) R') hm2
    (by show (withRepls (s.begin ra ord) R').majorityMatchIndex.1 > s.commitIndex; omega)
    (by show (withRepls (s.begin ra ord) R').majorityMatchIndex.1 ≥ s.ldr.startIndex; omega)
  have hki0 : KI s.configs.latest s.nid s.term 0 (withRepls (s.begin ra ord) R') :=
    ⟨rfl, ho, rfl, Nat.zero_le _, hr, rfl⟩
  generalize hmdef : (withRepls (s.begin ra ord) R').majorityMatchIndex.1 = m at hm1 hadv
  have hkiX : KI s.configs.latest s.nid s.term m (setCommitIndexL 63 (withRepls (s.begin ra ord) R') m) :=
    setCommitIndexL_ki hv hst 62 _ m hki0
  have L := ki_closed s.configs.latest AF s.nid s.term m hv
  generalize hX : setCommitIndexL 63 (withRepls (s.begin ra ord) R') m = X at hadv hkiX
  have hkiY : KI s.configs.latest s.nid s.term m X.applyCommittedL := L.applyCommittedL_m _ hkiX
  have hhandle : (s.begin ra ord).handle (.replUpdates (js.map (mkMatch N))) =
      (if X.applyCommittedL.notifyFlr.ldr.transfer.active = true ∧
          (!X.applyCommittedL.notifyFlr.ldr.transfer.targetChosen) = true
        then X.applyCommittedL.notifyFlr.tryTransfer else X.applyCommittedL.notifyFlr) := by
    show (if (s.begin ra ord).role = .leader then (s.begin ra ord).checkReplUpdates _ else (s.begin ra ord)) = _
    rw [if_pos (show (s.begin ra ord).role = .leader from hr)]
    unfold Node.checkReplUpdates
    rw [eloop]
    have hne : (!js.isEmpty) = true := by
      cases js with
      | nil => exact absurd rfl hjs_ne
      | cons _ _ => rfl
    simp only [hne, Bool.or_true, Bool.false_eq_true, if_false, if_true, false_and, true_or,
      true_and]
    have : onMajorityCommit (fuelFor 0) (withRepls (s.begin ra ord) R') = X.applyCommittedL.notifyFlr := hadv
    rw [this]
  -- the step
  have hstep := step_eq s (.replUpdates (js.map (mkMatch N))) ra ord (by intro h; cases h)
  rw [hstep, hhandle] at hp ⊢
  obtain ⟨kz, rz, tz⟩ := keep_notifyFlr X.applyCommittedL
  generalize hZ : X.applyCommittedL.notifyFlr = Z at hp kz rz tz ⊢
  have hpY : X.applyCommittedL.panicked = none := by
    have hpZ : Z.panicked = none := by
      have h1 := SnapRelU.settle_sticky 6 _ _ hp
      split at h1
      · exact SnapRelP.npk (k := fun x => x.tryTransfer) (fun π x => SnapRelP.P_tryTransfer x) h1
      · exact h1
    rw [← hZ] at hpZ
    exact SnapRelP.npk (k := fun x => x.notifyFlr) (fun π x => SnapRelP.P_notifyFlr x) hpZ
  obtain ⟨ap1, ap2⟩ := C03.apply_never_beyond_commit _ _ hpY
  have ap1' : X.applyCommittedL.fsm.index = X.applyCommittedL.commitIndex := ap1.trans ap2.symm
  have hfin : ∀ H, Keep Z H → H.role = Z.role → H.term = Z.term → settle 6 H s.role = H ∧ Committed N s H := by
    intro H kH rH tH
    have hrole : H.role = .leader := by rw [rH, rz]; exact hkiY.2.2.2.2.1
    refine ⟨by unfold settle; rw [if_pos (by rw [hrole, hr])], hrole, ?_, ?_, ?_, ?_, ?_, ?_⟩
    · rw [tH, tz]; exact hkiY.2.2.2.2.2
    · rw [kH.nid, kz.nid]; exact hkiY.2.2.1
    · rw [kH.configs, kz.configs]; exact hkiY.1
    · rw [kH.closed, kz.closed]; exact hkiY.2.1
    · rw [kH.commitIndex, kz.commitIndex]
      have := hkiY.2.2.2.1
      omega
    · rw [kH.fsm, kz.fsm, kH.commitIndex, kz.commitIndex]; exact ap1'
  split
  · obtain ⟨kt, rt, tt⟩ := keep_tryTransfer Z
    obtain ⟨e, c⟩ := hfin _ kt rt tt
    rw [e]; exact c
  · obtain ⟨e, c⟩ := hfin Z (Keep.refl Z) rfl rfl
    rw [e]; exact c

end Progress
end Raft
