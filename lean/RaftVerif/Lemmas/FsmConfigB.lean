/-
"Above a snapshot the state machine holds a configuration" as an invariant of `Node.step` (instance of the framework
of Lemmas/FsmConfigA.lean).

* `PosIdx log`      : every entry of the log has a positive index (a consequence of `C03.LogContig`);
* `LabelsPos disk`  : every snapshot file on disk is labelled with a real configuration (`config.index ≥ 1`);
* `Above s`         : if the node has a snapshot (`snapIndex ≥ 1`) the state machine is at or beyond it and HOLDS a
                      configuration (`fsm.config.index ≥ 1`);
* `K s`             : while the step has not panicked, the three of them.
`K` is preserved by every primitive: the FSM goroutine replaces its configuration only by a configuration decoded from
a log entry (index of the entry, positive) or by the label of a file on disk; a received snapshot file must carry a real
configuration (`PF`); the snapshot goroutine labels its file with the FSM's configuration when the FSM holds one — which
it does above a snapshot, and (`PS`) is assumed of a state without snapshot.
-/
import RaftVerif.Lemmas.FsmConfigA
import RaftVerif.Lemmas.TrackCrashB

namespace Raft
namespace FsmCfg
open Node Track

/-- every entry of the log has a positive index -/
def PosIdx (l : NLog) : Prop := ∀ e ∈ l.entries, 0 < e.index

/-- every snapshot file on disk is labelled with a real configuration -/
def LabelsPos (d : List SnapFile) : Prop := ∀ f ∈ d, 0 < f.config.index

/-- **above a snapshot the state machine holds a configuration** -/
def Above (s : Node) : Prop := 1 ≤ s.snapIndex → s.snapIndex ≤ s.fsm.index ∧ 0 < s.fsm.config.index

instance (s : Node) : Decidable (Above s) := by unfold Above; infer_instance
instance (d : List SnapFile) : Decidable (LabelsPos d) := by unfold LabelsPos; infer_instance
instance (l : NLog) : Decidable (PosIdx l) := by unfold PosIdx; infer_instance

def KS (s : Node) : Prop := PosIdx s.log ∧ LabelsPos s.snapsDisk ∧ Above s

/-- the invariant carried through a step -/
def K (s : Node) : Prop := s.panicked = none → KS s

/-- a received snapshot file carries a real configuration -/
def PF (f : SnapFile) : Prop := 0 < f.config.index

/-- what is asked of a state in which the snapshot goroutine runs: without a snapshot so far, a state machine that has
applied something holds a configuration -/
def PS (s : Node) : Prop := s.snapIndex = 0 → 1 ≤ s.fsm.index → 0 < s.fsm.config.index

/-- what `K` looks at -/
def obsK (s : Node) : NLog × List SnapFile × Nat × Fsm := (s.log, s.snapsDisk, s.snapIndex, s.fsm)

theorem obsK_eq {s s' : Node} (h : obsK s' = obsK s) :
    s'.log = s.log ∧ s'.snapsDisk = s.snapsDisk ∧ s'.snapIndex = s.snapIndex ∧ s'.fsm = s.fsm := by
  simp only [obsK, Prod.mk.injEq] at h
  exact h

theorem obsK_of_T {s s' : Node} (h : obsT s' = obsT s) : obsK s' = obsK s := by
  obtain ⟨_, e2, e3, _, e5, e6, _⟩ := obsT_eq h
  unfold obsK; rw [e2, e3, e5, e6]

theorem KS.congr {s s' : Node} (h : KS s) (e : obsK s' = obsK s) : KS s' := by
  obtain ⟨e1, e2, e3, e4⟩ := obsK_eq e
  obtain ⟨a, b, c⟩ := h
  refine ⟨by rw [e1]; exact a, by rw [e2]; exact b, ?_⟩
  unfold Above; rw [e3, e4]; exact c

theorem K.irr {s s' : Node} (h : K s) (e : obsK s' = obsK s) (hp : s'.panicked = none → s.panicked = none) : K s' :=
  fun hp' => (h (hp hp')).congr e

theorem k_panic (s : Node) (site : String) : K (s.panic site) := fun hp => absurd hp (panic_panicked_ne s site)

theorem k_assert {s : Node} (b : Bool) (site : String) (h : K s) : K (s.assert b site) :=
  h.irr (obsK_of_T (obsT_assert s b site)) (Order.irr_assert s b site).2

/-! ### the log primitives -/

theorem posIdx_take {l : List Entry} (h : ∀ e ∈ l, 0 < e.index) (n : Nat) : ∀ e ∈ l.take n, 0 < e.index :=
  fun e he => h e (List.mem_of_mem_take he)

theorem posIdx_drop {l : List Entry} (h : ∀ e ∈ l, 0 < e.index) (n : Nat) : ∀ e ∈ l.drop n, 0 < e.index :=
  fun e he => h e (List.mem_of_mem_drop he)

/-- the log changed to one whose entries are entries of the old one -/
theorem K.of_sub {s s' : Node} (h : K s) (hl : ∀ e ∈ s'.log.entries, e ∈ s.log.entries)
    (e2 : s'.snapsDisk = s.snapsDisk) (e3 : s'.snapIndex = s.snapIndex) (e4 : s'.fsm = s.fsm)
    (hp : s'.panicked = none → s.panicked = none) : K s' := by
  intro hp'
  obtain ⟨a, b, c⟩ := h (hp hp')
  refine ⟨fun e he => a e (hl e he), by rw [e2]; exact b, ?_⟩
  unfold Above; rw [e3, e4]; exact c

theorem k_appendEntry {s : Node} (e : Entry) (h : K s) : K (s.appendEntry e) := by
  unfold Node.appendEntry
  extract_lets s1 roll
  intro hp
  have hp1 : s1.panicked = none := hp
  have hb : (e.index == s.lastLogIndex + 1) = true := Order.assert_true hp1
  have h1 : K s1 := k_assert _ _ h
  obtain ⟨a, b, c⟩ := h1 hp1
  refine ⟨?_, b, c⟩
  intro x hx
  have hx' : x ∈ (s1.log.append e roll).entries := hx
  rw [(LogRel.append_parts s1.log e roll).2] at hx'
  rcases List.mem_append.mp hx' with hx' | hx'
  · exact a x hx'
  · rw [List.mem_singleton.mp hx']
    have : e.index = s.lastLogIndex + 1 := by simpa using hb
    omega

theorem k_commitN {s : Node} (n : Nat) (h : K s) : K { s with log := s.log.commitN n } :=
  h.of_sub (fun e he => by
    have : e ∈ (s.log.commitN n).entries := he
    rw [(Order.commitN_same s.log n).2.1] at this; exact this) rfl rfl rfl id

/-! ### the FSM goroutine -/

theorem cfg_pos_of_mem {l : List Entry} (h : ∀ e ∈ l, 0 < e.index) {c : Config}
    (hc : c ∈ l.filterMap Entry.config?) : 0 < c.index := by
  obtain ⟨e, he, hcfg⟩ := List.mem_filterMap.mp hc
  rw [Order.config?_index hcfg]; exact h e he

theorem k_fsmLog {s : Node} (n : Nat) (h : K s) : K (s.fsmApplyLogTo n) := by
  intro hp
  have hp0 : s.panicked = none := (Order.sticky_closed s).fsmApplyLogTo_inv s n (fun x => x) hp
  obtain ⟨a, b, c⟩ := h hp0
  obtain ⟨hr, hc⟩ := fsmApplyLogTo_cases s n
  obtain ⟨_, e2, e3, _, e5, _⟩ := rest_eq hr
  refine ⟨by rw [e5]; exact a, by rw [e2]; exact b, ?_⟩
  unfold Above
  rw [e3]
  rcases hc with hc | ⟨h1, _, _, h4, _, h6⟩
  · rw [hc]; exact c
  · intro hsi
    obtain ⟨c1, c2⟩ := c hsi
    refine ⟨by rw [h4]; omega, ?_⟩
    rw [h6]
    cases hg : ((C12.applyRange s n).filterMap Entry.config?).getLast? with
    | none => exact c2
    | some cfg =>
      have hm : cfg ∈ (C12.applyRange s n).filterMap Entry.config? := List.mem_of_getLast? hg
      exact cfg_pos_of_mem (l := C12.applyRange s n)
        (posIdx_take (posIdx_drop a _) _) hm

theorem k_itemStep {s : Node} (q : QItem) (h : K s) : K (C12.itemStep s q) := by
  intro hp
  obtain ⟨h1, h2, _, h4⟩ := itemStep_spec s q
  obtain ⟨hp0, hidx⟩ := h4 hp
  obtain ⟨a, b, c⟩ := h hp0
  have hr : rest (C12.itemStep s q) = rest s := fsmFrame_rest.fsmApplyItems_eq s [q]
  obtain ⟨_, e2, e3, _, e5, _⟩ := rest_eq hr
  refine ⟨by rw [e5]; exact a, by rw [e2]; exact b, ?_⟩
  unfold Above
  rw [e3]
  intro hsi
  obtain ⟨c1, c2⟩ := c hsi
  refine ⟨?_, ?_⟩
  · rw [h2]; split <;> omega
  · rw [h1]
    cases hg : q.toEntry.config? with
    | none => exact c2
    | some cfg =>
      have : cfg.index = q.toEntry.index := Order.config?_index hg
      have hq : q.toEntry.index = q.index := rfl
      show 0 < cfg.index
      omega

theorem k_fsmItems (qs : List QItem) : ∀ {s : Node}, K s → K (s.fsmApplyItems qs) := by
  induction qs with
  | nil => intro s h; exact h
  | cons q qs ih =>
    intro s h
    rw [C12.fsmApplyItems_cons]
    exact ih (k_itemStep q h)

/-! ### snapshots -/

theorem mem_insertSnap {f g : SnapFile} : ∀ {l : List SnapFile}, g ∈ insertSnap f l → g = f ∨ g ∈ l := by
  intro l
  induction l with
  | nil => intro h; exact Or.inl (List.mem_singleton.mp h)
  | cons x xs ih =>
    intro h
    unfold insertSnap at h
    split at h
    · rcases List.mem_cons.mp h with h | h
      · exact Or.inl h
      · exact Or.inr h
    · split at h
      · rcases List.mem_cons.mp h with h | h
        · exact Or.inl h
        · exact Or.inr (List.mem_cons_of_mem _ h)
      · rcases List.mem_cons.mp h with h | h
        · exact Or.inr (by rw [h]; exact List.mem_cons_self ..)
        · rcases ih h with h | h
          · exact Or.inl h
          · exact Or.inr (List.mem_cons_of_mem _ h)

theorem labelsPos_publish {d : List SnapFile} (h : LabelsPos d) (f : SnapFile) (hf : 0 < f.config.index) (r : Nat) :
    LabelsPos ((insertSnap f d).take r) := by
  intro g hg
  rcases mem_insertSnap (List.mem_of_mem_take hg) with e | e
  · rw [e]; exact hf
  · exact h g e

theorem publish_fields (s : Node) (f : SnapFile) :
    (s.publishSnapshot f).log = s.log ∧ (s.publishSnapshot f).snapsDisk = (insertSnap f s.snapsDisk).take s.retain ∧
    (s.publishSnapshot f).snapIndex = f.index ∧ (s.publishSnapshot f).fsm = s.fsm ∧
    (s.publishSnapshot f).panicked = s.panicked := ⟨rfl, rfl, rfl, rfl, rfl⟩

/-- the core of `onInstallSnapRequest` -/
theorem k_installCore {s : Node} (f : SnapFile) (h : K s) (hf : PF f) :
    K ((s.publishSnapshot f).clearLog.fsmRestore) := by
  generalize hy : (s.publishSnapshot f).clearLog = y
  have y1 : y.log.entries = [] := by rw [← hy]; rfl
  have y2 : y.snapsDisk = (insertSnap f s.snapsDisk).take s.retain := by rw [← hy]; rfl
  have y3 : y.snapIndex = f.index := by rw [← hy]; rfl
  have y5 : y.panicked = s.panicked := by rw [← hy]; rfl
  intro hp
  rw [fsmRestore_eq] at hp ⊢
  have hp' : (if y.snapIndex = 0 then y.panic "fsm.restoreNoSnapshot" else
      match y.snapsDisk.find? (·.index == y.snapIndex) with
      | some _ => y
      | none => y.panic "fsm.restoreOpen").panicked = none := by
    revert hp
    simp only [panic_eq]
    repeat' split
    all_goals (intro hp; first | exact hp | simp_all)
  by_cases h0 : y.snapIndex = 0
  · rw [if_pos h0] at hp'; exact absurd hp' (panic_panicked_ne _ _)
  · rw [if_neg h0] at hp'
    cases hfind : y.snapsDisk.find? (·.index == y.snapIndex) with
    | none => rw [hfind] at hp'; exact absurd hp' (panic_panicked_ne _ _)
    | some g =>
      rw [hfind] at hp'
      have hp0 : s.panicked = none := by rw [← y5]; exact hp'
      obtain ⟨_, b, _⟩ := h hp0
      have hlab : LabelsPos y.snapsDisk := by rw [y2]; exact labelsPos_publish b f hf _
      have hg : g ∈ y.snapsDisk := List.mem_of_find?_eq_some hfind
      have hgi : g.index = y.snapIndex := by
        have := List.find?_some hfind
        simpa using this
      refine ⟨?_, hlab, ?_⟩
      · intro e he
        have : e ∈ y.log.entries := he
        rw [y1] at this; cases this
      · unfold Above
        dsimp only
        rw [if_neg h0]
        intro _
        exact ⟨by show y.snapIndex ≤ g.index; omega, hlab g hg⟩

/-- the snapshot goroutine -/
theorem k_snapRun {s : Node} (h : K s) (hps : PS s) : K s.snapRun := by
  unfold Node.snapRun
  split
  · exact h
  · rename_i rq hrq
    dsimp only
    split
    · exact h
    · split
      · exact h
      · rename_i hne hmin
        intro hp
        have hp0 : s.panicked = none := hp
        obtain ⟨a, b, c⟩ := h hp0
        -- the FSM holds a configuration
        have hne' : s.fsm.index ≠ s.snapIndex := hne
        have hcfg : 0 < s.fsm.config.index := by
          by_cases hs : 1 ≤ s.snapIndex
          · exact (c hs).2
          · have h0 : s.snapIndex = 0 := by omega
            exact hps h0 (by omega)
        refine ⟨a, ?_, ?_⟩
        · refine labelsPos_publish b _ ?_ _
          show 0 < (if s.fsm.config.index > 0 then s.fsm.config else rq.config).index
          rw [if_pos hcfg]; exact hcfg
        · intro _
          exact ⟨Nat.le_refl _, hcfg⟩

/-! ### the instance -/

theorem k_closed : FStepClosed PF PS K where
  panic := fun s site _ => k_panic s site
  reply := fun s t r h => h.irr (obsK_of_T (obsT_reply s t r)) (Order.irr_reply s t r).2
  point := fun _ _ h => h.irr rfl id
  ldr := fun _ _ h => h.irr rfl id
  appendEntry := fun _ e h => k_appendEntry e h
  commitN := fun _ n h => k_commitN n h
  fsmLog := fun _ n h => k_fsmLog n h
  fsmItems := fun _ qs h => k_fsmItems qs h
  changeConfigR := fun s c h => h.irr (by rw [changeConfigR_eq]; rfl)
    (fun hp => by rw [← (Node.changeConfigR_fields s c).2.2.2.2.2.1]; exact hp)
  setCommitIndexR := fun s i h _ => h.irr (obsK_of_T (by
      unfold Node.setCommitIndexR
      split
      · rw [obsT_afterConfigCommit, commitConfig_eq]; rfl
      · rfl)) (fun hp => by rw [← Order.setCommitIndexR_panicked s i]; exact hp)
  popOrder := fun _ h => h.irr rfl id
  rpcReply := fun _ _ h => h.irr rfl id
  ret := fun _ _ h => h.irr rfl id
  setRole := fun _ _ h => h.irr rfl id
  setLeader := fun _ _ h => h.irr rfl id
  doClose := fun s r h => h.irr (obsK_of_T (obsT_doClose s r)) (Order.irr_doClose s r).2
  setTerm := fun s t h => h.irr (obsK_of_T (obsT_setTerm s t)) (Order.irr_setTerm s t).2
  voteNewTerm := fun s t c h _ => h.irr (obsK_of_T (obsT_setVotedFor s t c)) (Order.irr_setVotedFor s t c).2
  voteGrant := fun s c h _ => h.irr (obsK_of_T (obsT_setVotedFor s _ c)) (Order.irr_setVotedFor s _ c).2
  votesNeeded := fun _ _ h => h.irr rfl id
  candTransfer := fun _ _ h => h.irr rfl id
  removeGTE := fun s i _ h => h.of_sub (fun e he => List.mem_of_mem_take (show e ∈ s.log.entries.take _ from he))
    rfl rfl rfl id
  removeLTE := fun s i h => h.of_sub (fun e he => List.mem_of_mem_drop (show e ∈ s.log.entries.drop _ from he))
    rfl rfl rfl id
  clearLog := fun s h => h.of_sub (fun e he => by cases (show e ∈ ([] : List Entry) from he)) rfl rfl rfl id
  revertConfig := fun _ h => h.irr rfl id
  commitConfig := fun s h => h.irr (by rw [commitConfig_eq]; rfl)
    (fun hp => by rw [← (commitConfig_other s).2.2.2.2.2.2.2.2.2.2]; exact hp)
  installCore := fun _ f h hf => k_installCore f h hf
  snapRun := fun _ h hps => k_snapRun h hps
  installCommit := fun _ h _ => h.irr rfl id
  snapPending := fun _ _ h => h.irr rfl id
  snapResult := fun _ _ h => h.irr rfl id
  bootstrapLast := fun _ _ _ h => h.irr rfl id

/-- **`K` after every step** that starts in a state satisfying `KS` -/
theorem k_step (s : Node) (op : Op) (ra : List Nat) (ord : List (List Nat)) (h : KS s)
    (hop : FOpOk PF PS (s.begin ra ord) op) : K (s.step op ra ord) :=
  k_closed.step_inv s op ra ord (fun _ => h.congr rfl) hop

end FsmCfg
end Raft
