/-
Un-compaction (stage 2 of the cluster system with snapshots: the log may be compacted).

`U β s` puts the compacted prefix `β` back in front of the log of `s` (the log starts at index 1 again) and forgets
the compaction bounds kept in the leader record; the same at every crash point. The handlers of the operations that
neither compact the log nor install a snapshot commute with `U β` — provided the handler does not fail an assertion
on `s` (on a compacted log `fsmApply` / `ViewAt` / `mustGetEntry` fail where they would not on the full log):
`(f s).panicked = none → f (U β s) = U β (f s)`.
-/
import RaftVerif.Lemmas.SnapRelP
import Lean

namespace Raft
namespace SnapRelU
open Node SnapRelP

/-- `b` cut or padded to length `p` -/
def pad (b : List Entry) (p : Nat) : List Entry := b.take p ++ List.replicate (p - b.length) default

theorem pad_length (b : List Entry) (p : Nat) : (pad b p).length = p := by
  unfold pad
  rw [List.length_append, List.length_take, List.length_replicate]
  omega

theorem pad_eq (b : List Entry) : pad b b.length = b := by
  unfold pad
  rw [List.take_length, Nat.sub_self]
  simp

/-- the segment boundaries of the un-compacted log: one more segment `(0, prev]` in front (unless `prev = 0`) -/
def uncSegs (l : NLog) : List Nat := if l.prev = 0 then l.segs else l.prev :: l.segs

/-- the log with the compacted prefix `b` put back: it starts at index 1 again -/
def uncLog (b : List Entry) (l : NLog) : NLog :=
  { prev := 0, entries := pad b l.prev ++ l.entries, flushed := l.flushed, segs := uncSegs l }

/-- a disk image with the compacted prefix put back -/
def uncD (b : List Entry) (d : Durable) : Durable :=
  { d with log := { prev := 0, entries := (pad b d.log.prev ++ d.log.entries).take d.log.flushed,
                    flushed := d.log.flushed, segs := uncSegs d.log } }

def uncP (b : List Entry) (p : String × Durable) : String × Durable := (p.1, uncD b p.2)

/-- a replication status without its compaction bound -/
def zrr (r : Repl) : Repl := { r with removeLTE := 0 }

/-- the leader record without the compaction bounds -/
def zr (l : Leader) : Leader := { l with removeLTE := 0, repls := l.repls.map zrr }

/-- **the node with its log un-compacted**: the prefix `b` is put back (the log starts at index 1), the compaction
bounds of the leader record are forgotten; the same at every crash point of the current step -/
def U (b : List Entry) (s : Node) : Node :=
  { s with log := uncLog b s.log, ldr := zr s.ldr, trace := s.trace.map (uncP b) }

variable {β : List Entry}

theorem uncLog_last (l : NLog) : (uncLog β l).last = l.last := by
  unfold uncLog NLog.last
  dsimp only
  rw [List.length_append, pad_length]; omega

theorem uncLog_lastSegPrev (l : NLog) : (uncLog β l).lastSegPrev = l.lastSegPrev := by
  unfold uncLog NLog.lastSegPrev uncSegs
  dsimp only
  by_cases hp : l.prev = 0
  · rw [if_pos hp, hp]
  · rw [if_neg hp]
    cases h : l.segs with
    | nil => rfl
    | cons a as =>
      rw [List.getLast?_cons_cons]
      cases h2 : (a :: as).getLast? with
      | none => simp at h2
      | some x => rfl

theorem uncSegs_append (l : NLog) (e : Entry) : uncSegs (l.append e true) = uncSegs l ++ [l.last] := by
  unfold uncSegs NLog.append
  simp only [↓reduceIte]
  split <;> rfl

theorem uncSegs_append_false (l : NLog) (e : Entry) : uncSegs (l.append e false) = uncSegs l := rfl

theorem uncLog_append (l : NLog) (e : Entry) (roll : Bool) : (uncLog β l).append e roll = uncLog β (l.append e roll) := by
  unfold NLog.append
  rw [uncLog_last]
  split
  · rename_i h
    have := uncSegs_append l e
    simp only [NLog.append, ↓reduceIte] at this
    unfold uncLog; simp only [List.append_assoc, this]
  · unfold uncLog; simp only [List.append_assoc]; rfl

theorem uncLog_commitN (l : NLog) (n : Nat) : (uncLog β l).commitN n = uncLog β (l.commitN n) := by
  unfold NLog.commitN
  rw [uncLog_lastSegPrev, uncLog_last]
  split <;> rfl

theorem take_pad (p : List Entry) (es : List Entry) (fl : Nat) :
    (p ++ es.take (fl - p.length)).take fl = (p ++ es).take fl := by
  rw [List.take_append, List.take_append, List.take_take]
  congr 1
  congr 1
  omega

theorem U_durable (s : Node) : (U β s).durable = uncD β s.durable := by
  unfold Node.durable U uncD uncLog NLog.durable
  dsimp only
  congr 1
  congr 1
  have := take_pad (pad β s.log.prev) s.log.entries s.log.flushed
  rw [pad_length] at this
  rw [Nat.sub_zero]
  exact this.symm


/-! ### projections -/

@[uproj] theorem U_cid (s : Node) : (U β s).cid = s.cid := rfl
@[uproj] theorem U_nid (s : Node) : (U β s).nid = s.nid := rfl
@[uproj] theorem U_retain (s : Node) : (U β s).retain = s.retain := rfl
@[uproj] theorem U_shutdownOnRemove (s : Node) : (U β s).shutdownOnRemove = s.shutdownOnRemove := rfl
@[uproj] theorem U_term (s : Node) : (U β s).term = s.term := rfl
@[uproj] theorem U_votedFor (s : Node) : (U β s).votedFor = s.votedFor := rfl
@[uproj] theorem U_durTerm (s : Node) : (U β s).durTerm = s.durTerm := rfl
@[uproj] theorem U_durVote (s : Node) : (U β s).durVote = s.durVote := rfl
theorem U_log (s : Node) : (U β s).log = uncLog β s.log := rfl
@[usimp] theorem U_log_last (s : Node) : (U β s).log.last = s.log.last := uncLog_last s.log
@[usimp] theorem U_log_lastSegPrev (s : Node) : (U β s).log.lastSegPrev = s.log.lastSegPrev := uncLog_lastSegPrev s.log
@[uproj] theorem U_lastLogIndex (s : Node) : (U β s).lastLogIndex = s.lastLogIndex := rfl
@[uproj] theorem U_lastLogTerm (s : Node) : (U β s).lastLogTerm = s.lastLogTerm := rfl
@[uproj] theorem U_configs (s : Node) : (U β s).configs = s.configs := rfl
@[uproj] theorem U_role (s : Node) : (U β s).role = s.role := rfl
@[uproj] theorem U_leader (s : Node) : (U β s).leader = s.leader := rfl
@[uproj] theorem U_commitIndex (s : Node) : (U β s).commitIndex = s.commitIndex := rfl
@[uproj] theorem U_fsm (s : Node) : (U β s).fsm = s.fsm := rfl
@[uproj] theorem U_votesNeeded (s : Node) : (U β s).votesNeeded = s.votesNeeded := rfl
@[uproj] theorem U_candTransfer (s : Node) : (U β s).candTransfer = s.candTransfer := rfl
theorem U_ldr (s : Node) : (U β s).ldr = zr s.ldr := rfl
@[uproj] theorem U_ldr_node (s : Node) : (U β s).ldr.node = s.ldr.node := rfl
@[uproj] theorem U_ldr_numVoters (s : Node) : (U β s).ldr.numVoters = s.ldr.numVoters := rfl
@[uproj] theorem U_ldr_startIndex (s : Node) : (U β s).ldr.startIndex = s.ldr.startIndex := rfl
@[uproj] theorem U_ldr_queue (s : Node) : (U β s).ldr.queue = s.ldr.queue := rfl
@[uproj] theorem U_ldr_transfer (s : Node) : (U β s).ldr.transfer = s.ldr.transfer := rfl
@[uproj] theorem U_ldr_waitStable (s : Node) : (U β s).ldr.waitStable = s.ldr.waitStable := rfl
@[uproj] theorem U_snapPending (s : Node) : (U β s).snapPending = s.snapPending := rfl
@[uproj] theorem U_snapResult (s : Node) : (U β s).snapResult = s.snapResult := rfl
@[uproj] theorem U_closed (s : Node) : (U β s).closed = s.closed := rfl
@[uproj] theorem U_rollAt (s : Node) : (U β s).rollAt = s.rollAt := rfl
@[uproj] theorem U_orders (s : Node) : (U β s).orders = s.orders := rfl
@[uproj] theorem U_replies (s : Node) : (U β s).replies = s.replies := rfl
@[uproj] theorem U_rpcReply (s : Node) : (U β s).rpcReply = s.rpcReply := rfl
@[uproj] theorem U_result (s : Node) : (U β s).result = s.result := rfl
@[uproj] theorem U_panicked (s : Node) : (U β s).panicked = s.panicked := rfl

@[uproj] theorem U_trace (s : Node) : (U β s).trace = s.trace.map (uncP β) := rfl
@[uproj] theorem U_snapIndex (s : Node) : (U β s).snapIndex = s.snapIndex := rfl
@[uproj] theorem U_snapTerm (s : Node) : (U β s).snapTerm = s.snapTerm := rfl
@[uproj] theorem U_snapsDisk (s : Node) : (U β s).snapsDisk = s.snapsDisk := rfl

@[uproj] theorem zr_node (l : Leader) : (zr l).node = l.node := rfl
@[uproj] theorem zr_numVoters (l : Leader) : (zr l).numVoters = l.numVoters := rfl
@[uproj] theorem zr_startIndex (l : Leader) : (zr l).startIndex = l.startIndex := rfl
@[uproj] theorem zr_queue (l : Leader) : (zr l).queue = l.queue := rfl
@[uproj] theorem zr_transfer (l : Leader) : (zr l).transfer = l.transfer := rfl
@[uproj] theorem zr_waitStable (l : Leader) : (zr l).waitStable = l.waitStable := rfl
@[uproj] theorem zr_removeLTE (l : Leader) : (zr l).removeLTE = 0 := rfl
@[uproj] theorem zr_repls (l : Leader) : (zr l).repls = l.repls.map zrr := rfl
@[uproj] theorem zrr_id (r : Repl) : (zrr r).id = r.id := rfl
@[uproj] theorem zrr_matchIndex (r : Repl) : (zrr r).matchIndex = r.matchIndex := rfl
@[uproj] theorem zrr_noContact (r : Repl) : (zrr r).noContact = r.noContact := rfl
@[uproj] theorem zrr_node (r : Repl) : (zrr r).node = r.node := rfl
@[uproj] theorem zrr_round (r : Repl) : (zrr r).round = r.round := rfl
@[uproj] theorem zrr_removeLTE (r : Repl) : (zrr r).removeLTE = 0 := rfl
@[uproj] theorem uncLog_prev (l : NLog) : (uncLog β l).prev = 0 := rfl
@[uproj] theorem uncLog_flushed (l : NLog) : (uncLog β l).flushed = l.flushed := rfl

/-! ### observations (functions of the state that do not return a state) -/

@[uproj] theorem U_validateTransfer (s : Node) (t : Nat) : (U β s).validateTransfer t = s.validateTransfer t := rfl
@[uproj] theorem U_releaseResult (s : Node) : (U β s).releaseResult = s.releaseResult := rfl
@[uproj] theorem U_notLeader (s : Node) (x : Bool) : (U β s).notLeader x = s.notLeader x := rfl
@[uproj] theorem U_canStartElection (s : Node) : (U β s).canStartElection = s.canStartElection := rfl
@[uproj] theorem U_isClosed (s : Node) : (U β s).isClosed = s.isClosed := rfl
@[uproj] theorem U_mkReply (s : Node) (x y : Bool) : (U β s).mkReply x y = s.mkReply x y := rfl
@[uproj] theorem U_canCommit (s : Node) (q : AppendReq) (i t : Nat) : (U β s).canCommit q i t = s.canCommit q i t := rfl
@[uproj] theorem U_canChangeConfig (s : Node) : (U β s).canChangeConfig = s.canChangeConfig := rfl

/-! ### primitive state updates -/

@[usimp] theorem U_point (s : Node) (n : String) : (U β s).point n = U β (s.point n) := by
  show ({ U β s with trace := (U β s).trace ++ [(n, (U β s).durable)] } : Node) = _
  rw [U_durable]
  unfold U Node.point
  simp only [List.map_append, List.map_cons, List.map_nil, uncP]

@[usimp] theorem U_panic (s : Node) (site : String) : (U β s).panic site = U β (s.panic site) := by
  unfold Node.panic
  show (if s.panicked.isNone = true then _ else _) = _
  split <;> rfl

@[usimp] theorem U_assert (s : Node) (x : Bool) (site : String) : (U β s).assert x site = U β (s.assert x site) := by
  unfold Node.assert; split
  · rfl
  · exact U_panic s site

@[usimp] theorem U_reply (s : Node) (t : Nat) (r : String) : (U β s).reply t r = U β (s.reply t r) := by
  unfold Node.reply; split <;> rfl

@[usimp] theorem U_setRole (s : Node) (r : Role) : (U β s).setRole r = U β (s.setRole r) := rfl
@[usimp] theorem U_popOrder (s : Node) : (U β s).popOrder = U β s.popOrder := rfl
@[usimp] theorem U_withFsm (s : Node) (f : Fsm) : (U β s).withFsm f = U β (s.withFsm f) := rfl
@[usimp] theorem U_withVotesNeeded (s : Node) (v : Int) : (U β s).withVotesNeeded v = U β (s.withVotesNeeded v) := rfl
@[usimp] theorem U_withCandTransfer (s : Node) (v : Bool) : (U β s).withCandTransfer v = U β (s.withCandTransfer v) := rfl
@[usimp] theorem U_withSnapPending (s : Node) (v : Option SnapReq) : (U β s).withSnapPending v = U β (s.withSnapPending v) := rfl
@[usimp] theorem U_withSnapResult (s : Node) (v : Option SnapRes) : (U β s).withSnapResult v = U β (s.withSnapResult v) := rfl
@[usimp] theorem U_withRpcReply (s : Node) (v : Option RpcReply) : (U β s).withRpcReply v = U β (s.withRpcReply v) := rfl
@[usimp] theorem U_withCommitIndex (s : Node) (i : Nat) : (U β s).withCommitIndex i = U β (s.withCommitIndex i) := rfl
@[usimp] theorem U_withLast (s : Node) (i t : Nat) : (U β s).withLast i t = U β (s.withLast i t) := rfl
@[usimp] theorem U_ret (s : Node) (r : Nat) : (U β s).ret r = U β (s.ret r) := rfl
@[usimp] theorem U_setLeader (s : Node) (l : Nat) : (U β s).setLeader l = U β (s.setLeader l) := rfl

/-- an update of the leader record that keeps the replication table and the compaction bound -/
@[usimp] theorem U_withLdr_keep (s : Node) (nd : CNode) (nv si : Nat) (q : List QItem) (tr : Transfer) (ws : List Nat) :
    (U β s).withLdr ⟨nd, nv, si, q, (U β s).ldr.repls, tr, ws, (U β s).ldr.removeLTE⟩ =
      U β (s.withLdr ⟨nd, nv, si, q, s.ldr.repls, tr, ws, s.ldr.removeLTE⟩) := rfl

/-- pull `U` out of a conditional -/
@[usimp] theorem ite_U (c : Prop) {inst : Decidable c} (x y : Node) :
    @ite Node c inst (U β x) (U β y) = U β (@ite Node c inst x y) := by
  split <;> rfl


/-! ### tactics -/

theorem eq_P_of {y : Node} {site : String} (h : y.panicked = some site) : y = P site y := by
  cases y
  simp only [P] at h ⊢
  simp only [h]

open Lean Elab Tactic Meta in
/-- fail (by an exception, not by a logged error) if a goal is left -/
elab "fail_if_goals" : tactic => do
  unless (← getGoals).isEmpty do throwError "goals left"

open Lean Elab Tactic Meta in
/-- `npk_core hp`: the goal is `Y.panicked = none` for a sub-computation `Y` of the computation whose result has no
failure recorded (`hp : (… Y …).panicked = none`): a recorded failure persists (Lemmas/SnapRelP.lean) -/
elab "npk_core " hp:ident : tactic => withMainContext do
  let g ← getMainGoal
  let t ← instantiateMVars (← g.getType)
  match t.eq? with
  | some (_, lhs, _) =>
    if lhs.isApp then
      let Y := lhs.appArg!
      let ys ← Term.exprToSyntax Y
      evalTactic (← `(tactic| (
        generalize hY : $ys = y at $hp:ident ⊢
        refine Option.eq_none_iff_forall_ne_some.mpr (fun site hy => ?_)
        rw [eq_P_of hy] at $hp:ident
        repeat' (first
          | (cases $hp:ident; fail_if_goals)
          | (simp only [psimp, pproj] at $hp:ident)
          | (split at $hp:ident))
        fail_if_goals)))
    else throwError "npk_core: not a projection application"
  | none => throwError "npk_core: not an equation"

syntax "npk_tac " ident : tactic
macro_rules
  | `(tactic| npk_tac $hp) => `(tactic| first | assumption | (npk_core $hp; fail_if_goals))

syntax "unorm " ident ("[" Lean.Parser.Tactic.simpLemma,* "]")? : tactic
macro_rules
  | `(tactic| unorm $hp) =>
    `(tactic| repeat (first | dsimp +instances only [uproj] | simp (discharger := npk_tac $hp) only [usimp]))
  | `(tactic| unorm $hp [$ls,*]) =>
    `(tactic| repeat (first | dsimp +instances only [uproj] | simp (discharger := npk_tac $hp) only [usimp, $ls,*]))

/-- prove `f (U β s) = U β (f s)` after unfolding `f` (in the goal and in `hp : (f s).panicked = none`) -/
syntax "ucomm " ident ("[" Lean.Parser.Tactic.simpLemma,* "]")? : tactic
macro_rules
  | `(tactic| ucomm $hp) =>
    `(tactic| (unorm $hp <;> repeat' (first | rfl | contradiction | (exfalso; simp_all; done) |
        (split <;> (try simp only [*, ↓reduceIte, Bool.false_eq_true, Bool.true_eq_false, if_false, if_true, not_true_eq_false, not_false_eq_true] at $hp:ident ⊢) <;> (try unorm $hp)))))
  | `(tactic| ucomm $hp [$ls,*]) =>
    `(tactic| (unorm $hp [$ls,*] <;> repeat' (first | rfl | contradiction | (exfalso; simp_all; done) |
        (split <;> (try simp only [*, ↓reduceIte, Bool.false_eq_true, Bool.true_eq_false, if_false, if_true, not_true_eq_false, not_false_eq_true] at $hp:ident ⊢) <;> (try unorm $hp [$ls,*])))))

/-! ### storage primitives -/

theorem U_storeTermVote_aux (s : Node) (t c : Nat) :
    s.storeTermVote t c =
      { (if t = s.durTerm ∧ c = s.durVote then s else ({ s with durTerm := t, durVote := c } : Node).point "value.set")
        with term := t, votedFor := c } := rfl

@[usimp] theorem U_storeTermVote (s : Node) (t c : Nat) : (U β s).storeTermVote t c = U β (s.storeTermVote t c) := by
  rw [U_storeTermVote_aux, U_storeTermVote_aux]
  by_cases h : t = s.durTerm ∧ c = s.durVote
  · rw [if_pos h, if_pos (show t = (U β s).durTerm ∧ c = (U β s).durVote from h)]; rfl
  · rw [if_neg h, if_neg (show ¬ (t = (U β s).durTerm ∧ c = (U β s).durVote) from h)]
    show ({ (U β { s with durTerm := t, durVote := c }).point "value.set" with term := t, votedFor := c } : Node) = _
    rw [U_point]; rfl

@[usimp] theorem U_setTerm (s : Node) (t : Nat) : (U β s).setTerm t = U β (s.setTerm t) := by
  unfold Node.setTerm
  have hp : True := trivial
  ucomm hp


@[usimp] theorem U_setVotedFor (s : Node) (t c : Nat) : (U β s).setVotedFor t c = U β (s.setVotedFor t c) := by
  unfold Node.setVotedFor
  have hp : True := trivial
  ucomm hp

/-- `storage.appendEntry` after the assertion -/
def appendRaw (s : Node) (e : Entry) : Node :=
  { s with log := s.log.append e (s.rollAt.contains (e.index - 1) && s.log.lastSegPrev != e.index - 1),
           lastLogIndex := e.index, lastLogTerm := e.term }

theorem appendEntry_eq (s : Node) (e : Entry) :
    s.appendEntry e = appendRaw (s.assert (e.index == s.lastLogIndex + 1) "assert.appendEntry") e := rfl

theorem U_appendRaw (s : Node) (e : Entry) : appendRaw (U β s) e = U β (appendRaw s e) := by
  unfold appendRaw
  show ({ U β s with log := (uncLog β s.log).append e (s.rollAt.contains (e.index - 1) &&
      (uncLog β s.log).lastSegPrev != e.index - 1), lastLogIndex := e.index, lastLogTerm := e.term } : Node) = _
  rw [uncLog_append, uncLog_lastSegPrev]
  rfl

@[usimp] theorem U_appendEntry (s : Node) (e : Entry) : (U β s).appendEntry e = U β (s.appendEntry e) := by
  rw [appendEntry_eq, appendEntry_eq]
  show appendRaw ((U β s).assert (e.index == s.lastLogIndex + 1) "assert.appendEntry") e = _
  rw [U_assert, U_appendRaw]

@[usimp] theorem U_commitLog (s : Node) (n : Nat) : (U β s).commitLog n = U β (s.commitLog n) := by
  unfold Node.commitLog
  show ({ U β s with log := (uncLog β s.log).commitN n } : Node).point _ = _
  rw [uncLog_commitN]
  show (U β { s with log := s.log.commitN n }).point _ = _
  rw [U_point]

@[usimp] theorem U_doClose (s : Node) (r : String) : (U β s).doClose r = U β (s.doClose r) := by
  unfold Node.doClose
  have hp : True := trivial
  ucomm hp

/-! ### configuration bookkeeping -/

@[usimp] theorem U_changeConfigR (s : Node) (c : Config) : (U β s).changeConfigR c = U β (s.changeConfigR c) := by
  unfold Node.changeConfigR
  have hp : True := trivial
  ucomm hp

@[usimp] theorem U_commitConfig (s : Node) : (U β s).commitConfig = U β s.commitConfig := by
  unfold Node.commitConfig
  have hp : True := trivial
  ucomm hp

@[usimp] theorem U_revertConfig (s : Node) : (U β s).revertConfig = U β s.revertConfig := rfl

@[usimp] theorem U_stepDownIfNotVoter (s : Node) : (U β s).stepDownIfNotVoter = U β s.stepDownIfNotVoter := by
  unfold Node.stepDownIfNotVoter
  have hp : True := trivial
  ucomm hp

@[usimp] theorem U_closeIfRemoved (s : Node) : (U β s).closeIfRemoved = U β s.closeIfRemoved := by
  unfold Node.closeIfRemoved
  have hp : True := trivial
  ucomm hp

@[usimp] theorem U_afterConfigCommit (s : Node) : (U β s).afterConfigCommit = U β s.afterConfigCommit := by
  unfold Node.afterConfigCommit
  have hp : True := trivial
  ucomm hp

@[usimp] theorem U_setCommitIndexR_1 (s : Node) (i : Nat) : ((U β s).setCommitIndexR i).1 = U β (s.setCommitIndexR i).1 := by
  unfold Node.setCommitIndexR
  have hp : True := trivial
  ucomm hp

@[usimp] theorem U_setCommitIndexR_2 (s : Node) (i : Nat) : ((U β s).setCommitIndexR i).2 = (s.setCommitIndexR i).2 := by
  unfold Node.setCommitIndexR
  dsimp +instances only [uproj]
  split <;> rfl

/-! ### the FSM goroutine: the log view is read from the compacted log — conditional on not failing -/

theorem panic_ne_none (s : Node) (site : String) : (s.panic site).panicked ≠ none := by
  unfold Node.panic
  split
  · simp
  · rename_i h; intro e; rw [e] at h; exact h rfl

theorem drop_pad (p es : List Entry) (k : Nat) (h : p.length ≤ k) : (p ++ es).drop k = es.drop (k - p.length) := by
  rw [List.drop_append]
  have : p.drop k = [] := List.drop_eq_nil_of_le h
  rw [this, List.nil_append]

@[usimp] theorem U_fsmApplyLogTo (s : Node) (n : Nat) (hp : (s.fsmApplyLogTo n).panicked = none) :
    (U β s).fsmApplyLogTo n = U β (s.fsmApplyLogTo n) := by
  unfold Node.fsmApplyLogTo at hp ⊢
  by_cases h1 : n ≤ s.fsm.index
  · rw [if_pos h1]; rw [if_pos (show n ≤ (U β s).fsm.index from h1)]
  · rw [if_neg h1] at hp ⊢
    rw [if_neg (show ¬ n ≤ (U β s).fsm.index from h1)]
    by_cases h2 : s.fsm.index < s.log.prev
    · rw [if_pos h2] at hp
      exact absurd hp (panic_ne_none _ _)
    · rw [if_neg h2] at hp ⊢
      rw [if_neg (show ¬ (U β s).fsm.index < (U β s).log.prev from Nat.not_lt_zero _)]
      have he : (U β s).log.entries.drop ((U β s).fsm.index - (U β s).log.prev) =
          s.log.entries.drop (s.fsm.index - s.log.prev) := by
        show (pad β s.log.prev ++ s.log.entries).drop (s.fsm.index - 0) = _
        rw [Nat.sub_zero, drop_pad _ _ _ (by rw [pad_length]; omega), pad_length]
      dsimp only
      rw [he]
      have hq : True := trivial
      ucomm hq


@[usimp] theorem U_fsmApplyItems (s : Node) (qs : List QItem) : (U β s).fsmApplyItems qs = U β (s.fsmApplyItems qs) := by
  induction qs generalizing s with
  | nil => rfl
  | cons q qs ih =>
    unfold Node.fsmApplyItems
    have hp : True := trivial
    ucomm hp [ih]

@[usimp] theorem U_fsmApply (s : Node) (qs : List QItem) (hp : (s.fsmApply qs).panicked = none) :
    (U β s).fsmApply qs = U β (s.fsmApply qs) := by
  unfold Node.fsmApply at hp ⊢
  by_cases h1 : s.commitIndex > s.log.last
  · rw [if_pos h1] at hp; exact absurd hp (panic_ne_none _ _)
  · rw [if_neg h1] at hp ⊢
    rw [if_neg (show ¬ (U β s).commitIndex > (U β s).log.last from by rw [U_log_last]; exact h1)]
    by_cases h2 : s.log.prev > s.commitIndex
    · rw [if_pos h2] at hp; exact absurd hp (panic_ne_none _ _)
    · rw [if_neg h2] at hp ⊢
      rw [if_neg (show ¬ (U β s).log.prev > (U β s).commitIndex from Nat.not_lt_zero _)]
      dsimp only at hp ⊢
      ucomm hp


@[usimp] theorem U_applyCommitted (s : Node) (hp : s.applyCommitted.panicked = none) :
    (U β s).applyCommitted = U β s.applyCommitted := by
  unfold Node.applyCommitted at hp ⊢
  exact U_fsmApply s [] hp

/-! ### the replication table -/

theorem find_map_zrr (l : List Repl) (id : Nat) :
    (l.map zrr).find? (fun r => r.id == id) = (l.find? (fun r => r.id == id)).map zrr := by
  induction l with
  | nil => rfl
  | cons a as ih =>
    rw [List.map_cons, List.find?_cons, List.find?_cons]
    show (match (a.id == id) with | true => some (zrr a) | false => _) = _
    cases h : (a.id == id) with
    | true => rfl
    | false => exact ih

theorem insertRepl_map_zrr (r : Repl) (l : List Repl) :
    insertRepl (zrr r) (l.map zrr) = (insertRepl r l).map zrr := by
  induction l with
  | nil => rfl
  | cons a as ih =>
    show insertRepl (zrr r) (zrr a :: as.map zrr) = _
    unfold insertRepl
    show (if r.id < a.id then _ else if r.id = a.id then _ else _) = _
    split
    · rfl
    · split
      · rfl
      · rw [ih]; rfl

theorem U_findRepl? (s : Node) (id : Nat) : (U β s).findRepl? id = (s.findRepl? id).map zrr :=
  find_map_zrr s.ldr.repls id

theorem U_setRepl (s : Node) (r : Repl) : (U β s).setRepl (zrr r) = U β (s.setRepl r) := by
  unfold Node.setRepl
  show ({ U β s with ldr := { (zr s.ldr) with repls := insertRepl (zrr r) (s.ldr.repls.map zrr) } } : Node) = _
  rw [insertRepl_map_zrr]
  rfl

/-- what `beginFinishedRounds` does to one replication status -/
def bfr (lli : Nat) (r : Repl) : Repl :=
  match r.round with
  | some rd => if rd.finished
      then { r with round := some { rd with ordinal := rd.ordinal + 1, lastIndex := lli,
                                            finished := false, aged := false } }
      else r
  | none => r

theorem beginFinishedRounds_eq (s : Node) :
    s.beginFinishedRounds = s.withLdr { s.ldr with repls := s.ldr.repls.map (bfr s.lastLogIndex) } := rfl

theorem bfr_zrr (lli : Nat) (r : Repl) : bfr lli (zrr r) = zrr (bfr lli r) := by
  unfold bfr
  show (match r.round with | some rd => _ | none => _) = _
  cases r.round with
  | none => rfl
  | some rd =>
    dsimp only
    split <;> rfl

/-- the two `match … with | some | none` shapes the handlers use on the result of `findRepl?` -/
theorem match_sn_zrr {α : Sort _} (o : Option Repl) (f : Repl → α) (g : Unit → α) :
    Node.checkConfigActions.match_1 (fun _ => α) (o.map zrr) f g =
      Node.checkConfigActions.match_1 (fun _ => α) o (fun r => f (zrr r)) g := by
  cases o <;> rfl

theorem match_ns_zrr {α : Sort _} (o : Option Repl) (g : Unit → α) (f : Repl → α) :
    Node.changeConfigL.match_1 (fun _ => α) (o.map zrr) g f =
      Node.changeConfigL.match_1 (fun _ => α) o g (fun r => f (zrr r)) := by
  cases o <;> rfl

/-- storing a replication status that was looked up in the un-compacted node and updated -/
theorem U_setRepl_lit (s : Node) (r : Repl) (i m : Nat) (nc : Bool) (nd : CNode) (rd : Option Round) :
    (U β s).setRepl ⟨i, m, nc, nd, rd, (zrr r).removeLTE⟩ = U β (s.setRepl ⟨i, m, nc, nd, rd, r.removeLTE⟩) :=
  U_setRepl s ⟨i, m, nc, nd, rd, r.removeLTE⟩

@[usimp] theorem U_beginFinishedRounds (s : Node) : (U β s).beginFinishedRounds = U β s.beginFinishedRounds := by
  rw [beginFinishedRounds_eq, beginFinishedRounds_eq]
  have hm : (s.ldr.repls.map zrr).map (bfr s.lastLogIndex) = (s.ldr.repls.map (bfr s.lastLogIndex)).map zrr := by
    rw [List.map_map, List.map_map]
    exact List.map_congr_left (fun r _ => bfr_zrr _ r)
  show ({ U β s with ldr := { (zr s.ldr) with repls := (s.ldr.repls.map zrr).map (bfr s.lastLogIndex) } } : Node) = _
  rw [hm]
  rfl

/-- `addReplication`, unless the view of the log for the new replication cannot be built -/
@[usimp] theorem U_addReplication (s : Node) (n : CNode) (hp : (s.addReplication n).panicked = none) :
    (U β s).addReplication n = U β (s.addReplication n) := by
  unfold Node.addReplication at hp ⊢
  dsimp only at hp ⊢
  generalize hs1 : s.assert (n.id != s.nid) "assert.addReplication" = s1 at hp
  have e1 : (U β s).assert (n.id != (U β s).nid) "assert.addReplication" = U β s1 := by rw [← hs1]; exact U_assert s _ _
  rw [e1]
  by_cases hv : s1.log.viewOk s1.ldr.removeLTE s1.lastLogIndex = true
  · rw [if_pos hv] at hp ⊢
    have hv' : (U β s1).log.viewOk (U β s1).ldr.removeLTE (U β s1).lastLogIndex = true := by
      unfold NLog.viewOk at hv ⊢
      show (!(decide (0 > s1.lastLogIndex) || decide (0 < 0))) = true
      simp
    rw [if_pos hv']
    exact U_setRepl s1 { id := n.id, node := n, removeLTE := s1.ldr.removeLTE }
  · rw [if_neg hv] at hp
    have : ((s1.panic "nilView").setRepl { id := n.id, node := n, removeLTE := (s1.panic "nilView").ldr.removeLTE }).panicked =
        (s1.panic "nilView").panicked := rfl
    rw [this] at hp
    exact absurd hp (panic_ne_none _ _)

@[usimp] theorem U_notifyFlr (s : Node) (hp : s.notifyFlr.panicked = none) : (U β s).notifyFlr = U β s.notifyFlr := by
  unfold Node.notifyFlr at hp ⊢
  have he : (U β s).ldr.repls.isEmpty = s.ldr.repls.isEmpty := by
    show (s.ldr.repls.map zrr).isEmpty = _
    cases s.ldr.repls <;> rfl
  rw [he]
  by_cases h0 : s.ldr.repls.isEmpty = true
  · rw [if_pos h0, if_pos h0]
  · rw [if_neg h0] at hp ⊢
    rw [if_neg h0]
    by_cases hv : s.log.viewOk s.ldr.removeLTE s.lastLogIndex = true
    · rw [if_pos hv]
      have hv' : (U β s).log.viewOk (U β s).ldr.removeLTE (U β s).lastLogIndex = true := by
        unfold NLog.viewOk
        show (!(decide (0 > s.lastLogIndex) || decide (0 < 0))) = true
        simp
      rw [if_pos hv']
    · rw [if_neg hv] at hp
      exact absurd hp (panic_ne_none _ _)


/-! ### observations of the replication table -/

theorem map_id_zrr (l : List Repl) : (l.map zrr).map (fun r => r.id) = l.map (fun r => r.id) := by
  rw [List.map_map]; rfl

@[usimp] theorem U_replOrder (s : Node) : (U β s).replOrder = s.replOrder := by
  unfold Node.replOrder
  have e : (U β s).ldr.repls.map (fun r => r.id) = s.ldr.repls.map (fun r => r.id) := map_id_zrr s.ldr.repls
  dsimp only
  rw [e]
  rfl

@[usimp] theorem U_findRepl_isNone (s : Node) (id : Nat) : ((U β s).findRepl? id).isNone = (s.findRepl? id).isNone := by
  rw [U_findRepl?]; cases s.findRepl? id <;> rfl

@[usimp] theorem U_findRepl_matchIndex (s : Node) (id : Nat) :
    ((U β s).findRepl? id).map (fun r => r.matchIndex) = (s.findRepl? id).map (fun r => r.matchIndex) := by
  rw [U_findRepl?]; cases s.findRepl? id <;> rfl

@[usimp] theorem U_voterMatches (s : Node) : (U β s).voterMatches = s.voterMatches := by
  unfold Node.voterMatches
  dsimp +instances only [uproj]
  apply List.map_congr_left
  intro n _
  split
  · rfl
  · rw [U_findRepl_matchIndex]

@[usimp] theorem U_majorityMatchIndex (s : Node) : (U β s).majorityMatchIndex = s.majorityMatchIndex := by
  unfold Node.majorityMatchIndex
  dsimp +instances only [uproj]
  simp only [U_voterMatches, U_findRepl_isNone]

@[usimp] theorem U_transferReady (s : Node) (id : Nat) : (U β s).transferReady id = s.transferReady id := by
  unfold Node.transferReady
  rw [U_findRepl?]
  cases s.findRepl? id <;> rfl

@[usimp] theorem U_tryTransferTarget (s : Node) : (U β s).tryTransferTarget = s.tryTransferTarget := by
  unfold Node.tryTransferTarget
  dsimp +instances only [uproj]
  rw [U_replOrder]
  have ht : (U β s).transferReady = s.transferReady := funext (U_transferReady s)
  rw [ht, U_findRepl?]
  cases s.findRepl? s.ldr.transfer.target <;> rfl

@[usimp] theorem U_applyCommittedL (s : Node) (hp : s.applyCommittedL.panicked = none) :
    (U β s).applyCommittedL = U β s.applyCommittedL := by
  unfold Node.applyCommittedL at hp ⊢
  dsimp only at hp ⊢
  ucomm hp

/-! ### the mutually recursive leader block -/

theorem foldl_sticky {α : Type} (f : Node → α → Node) (hst : ∀ s x, (f s x).panicked = none → s.panicked = none)
    (xs : List α) : ∀ s, (xs.foldl f s).panicked = none → s.panicked = none := by
  induction xs with
  | nil => intro s h; exact h
  | cons x xs ih => intro s h; exact hst s x (ih _ h)

theorem foldl_U {α : Type} (f : Node → α → Node)
    (hf : ∀ s x, (f s x).panicked = none → f (U β s) x = U β (f s x))
    (hst : ∀ s x, (f s x).panicked = none → s.panicked = none)
    (xs : List α) : ∀ s, (xs.foldl f s).panicked = none → xs.foldl f (U β s) = U β (xs.foldl f s) := by
  induction xs with
  | nil => intro s _; rfl
  | cons x xs ih =>
    intro s h
    have h1 := foldl_sticky f hst xs _ h
    simp only [List.foldl_cons]
    rw [hf s x h1]
    exact ih _ h

theorem foldl_U' {α : Type} (f : Node → α → Node) (hf : ∀ s x, f (U β s) x = U β (f s x)) (xs : List α) (s : Node) :
    xs.foldl f (U β s) = U β (xs.foldl f s) := by
  induction xs generalizing s with
  | nil => rfl
  | cons x xs ih => simp only [List.foldl_cons, hf, ih]

theorem startRound_zrr (lli action : Nat) (st : Repl) : startRound lli action (zrr st) = zrr (startRound lli action st) := by
  unfold startRound
  split
  · rfl
  · show (match st.round with | none => _ | some _ => _) = _
    cases st.round <;> rfl

theorem finishRound_zrr (lli : Nat) (st : Repl) (rd : Round) :
    finishRound lli (zrr st) rd = (zrr (finishRound lli st rd).1, (finishRound lli st rd).2) := by
  unfold finishRound
  simp only [show (zrr st).matchIndex = st.matchIndex from rfl]
  repeat' split
  all_goals rfl

theorem roundStep_zrr (lli action : Nat) (st : Repl) :
    roundStep lli action (zrr st) = (zrr (roundStep lli action st).1, (roundStep lli action st).2) := by
  unfold roundStep
  dsimp only
  rw [startRound_zrr]
  show (match (startRound lli action st).round with | none => _ | some rd => _) = _
  cases h : (startRound lli action st).round with
  | none => rfl
  | some rd => exact finishRound_zrr lli _ rd

theorem actionConfig_zrr (idx : Nat) (config : Config) (n : CNode) (action : Nat) (st : Repl) :
    actionConfig idx config n action (zrr st) = actionConfig idx config n action st := rfl

theorem filter_map_zrr (l : List Repl) (p : Nat → Bool) :
    (l.map zrr).filter (fun r => p r.id) = (l.filter (fun r => p r.id)).map zrr := by
  rw [List.filter_map]; rfl

theorem block_U : ∀ fuel : Nat,
    (∀ s b, (storeEntry fuel s b).panicked = none → storeEntry fuel (U β s) b = U β (storeEntry fuel s b)) ∧
    (∀ s b, (storeItems fuel s b).panicked = none → storeItems fuel (U β s) b = U β (storeItems fuel s b)) ∧
    (∀ s c, (changeConfigL fuel s c).panicked = none → changeConfigL fuel (U β s) c = U β (changeConfigL fuel s c)) ∧
    (∀ s t c, (doChangeConfig fuel s t c).panicked = none →
      doChangeConfig fuel (U β s) t c = U β (doChangeConfig fuel s t c)) ∧
    (∀ s t c, (checkConfigActions fuel s t c).panicked = none →
      checkConfigActions fuel (U β s) t c = U β (checkConfigActions fuel s t c)) ∧
    (∀ s t c id, (checkConfigAction fuel s t c id).panicked = none →
      checkConfigAction fuel (U β s) t c id = U β (checkConfigAction fuel s t c id)) ∧
    (∀ s i, (setCommitIndexL fuel s i).panicked = none → setCommitIndexL fuel (U β s) i = U β (setCommitIndexL fuel s i)) ∧
    (∀ s, (onMajorityCommit fuel s).panicked = none → onMajorityCommit fuel (U β s) = U β (onMajorityCommit fuel s)) := by
  intro fuel
  induction fuel with
  | zero =>
    refine ⟨?_, ?_, ?_, ?_, ?_, ?_, ?_, ?_⟩
    · intro s b hp; unfold storeEntry at hp ⊢; ucomm hp
    · intro s b hp; cases b with
      | nil => unfold storeItems; rfl
      | cons q qs => unfold storeItems at hp ⊢; ucomm hp
    · intro s c hp; unfold changeConfigL at hp ⊢; ucomm hp
    · intro s t c hp; unfold doChangeConfig at hp ⊢; ucomm hp
    · intro s t c hp; unfold checkConfigActions at hp ⊢; ucomm hp
    · intro s t c id hp; unfold checkConfigAction at hp ⊢; ucomm hp
    · intro s i hp; unfold setCommitIndexL at hp ⊢; ucomm hp
    · intro s hp; unfold onMajorityCommit at hp ⊢; ucomm hp
  | succ n ih =>
    obtain ⟨ihSE, ihSI, ihCL, ihDC, ihCAs, ihCA, ihSC, ihMC⟩ := ih
    refine ⟨?_, ?_, ?_, ?_, ?_, ?_, ?_, ?_⟩
    · intro s b hp
      unfold storeEntry at hp ⊢
      ucomm hp [ihSI, ihMC]
    · intro s b hp
      cases b with
      | nil => unfold storeItems; rfl
      | cons q qs =>
        unfold storeItems at hp ⊢
        ucomm hp [ihSI, ihCL]
    · -- changeConfigL
      intro s c hp
      unfold changeConfigL at hp ⊢
      dsimp only at hp ⊢
      -- the state before the replications are added / refreshed
      have e1 : (((U β s).withLdr { (U β s).ldr with node := c.get (U β s).nid, numVoters := c.numVoters }).changeConfigR c) =
          U β ((s.withLdr { s.ldr with node := c.get s.nid, numVoters := c.numVoters }).changeConfigR c) := by
        have hq : True := trivial
        ucomm hq
      rw [e1]
      generalize hs1 : (s.withLdr { s.ldr with node := c.get s.nid, numVoters := c.numVoters }).changeConfigR c = s1 at hp
      have e2 : (U β s1).withLdr { (U β s1).ldr with repls := (U β s1).ldr.repls.filter (fun r => c.has r.id) } =
          U β (s1.withLdr { s1.ldr with repls := s1.ldr.repls.filter (fun r => c.has r.id) }) := by
        show ({ U β s1 with ldr := { (zr s1.ldr) with repls := (s1.ldr.repls.map zrr).filter (fun r => c.has r.id) } } : Node) = _
        rw [filter_map_zrr s1.ldr.repls (fun i => c.has i)]
        rfl
      rw [e2]
      generalize hs2 : s1.withLdr { s1.ldr with repls := s1.ldr.repls.filter (fun r => c.has r.id) } = s2 at hp
      -- the fold
      have hp2 := npk (k := fun x => checkConfigActions n x 0 x.configs.latest) (fun π x => by pcomm) hp
      rw [foldl_U (β := β) _ ?_ ?_ c.nodes s2 hp2]
      · exact (ihCAs _ 0 _ hp)
      · intro x nd hx
        by_cases hid : nd.id = x.nid
        · rw [if_pos hid, if_pos (show nd.id = (U β x).nid from hid)]
        · rw [if_neg hid] at hx ⊢
          rw [if_neg (show ¬ nd.id = (U β x).nid from hid), U_findRepl?]
          cases hf : x.findRepl? nd.id with
          | none =>
            rw [hf] at hx
            exact U_addReplication x nd hx
          | some r => exact U_setRepl x { r with node := nd }
      · intro x nd hx
        by_cases hid : nd.id = x.nid
        · rw [if_pos hid] at hx; exact hx
        · rw [if_neg hid] at hx
          cases hf : x.findRepl? nd.id with
          | none =>
            rw [hf] at hx
            exact npk (k := fun s => s.addReplication nd) (fun π s => P_addReplication s nd) hx
          | some r => rw [hf] at hx; exact hx
    · intro s t c hp; unfold doChangeConfig at hp ⊢; ucomm hp [ihSE]
    · -- checkConfigActions
      intro s t c hp
      unfold checkConfigActions at hp ⊢
      dsimp only at hp ⊢
      -- the fold over the replications
      have hfold : ∀ (F : Node → Nat → Node),
          (∀ y id, (F y id).panicked = none → F (U β y) id = U β (F y id)) →
          (∀ y id, (F y id).panicked = none → y.panicked = none) →
          ∀ x : Node, (x.replOrder.foldl F x.popOrder).panicked = none →
          (U β x).replOrder.foldl F (U β x).popOrder = U β (x.replOrder.foldl F x.popOrder) := by
        intro F h1 h2 x hx
        rw [U_replOrder, U_popOrder]
        exact foldl_U (β := β) F h1 h2 _ _ hx
      have hF1 : ∀ (cf : Config) (y : Node) (id : Nat),
          (match y.findRepl? id with | some _ => checkConfigAction n y t cf id | none => y).panicked = none →
          (match (U β y).findRepl? id with | some _ => checkConfigAction n (U β y) t cf id | none => U β y) =
            U β (match y.findRepl? id with | some _ => checkConfigAction n y t cf id | none => y) := by
        intro cf y id hy
        rw [U_findRepl?]
        cases hf : y.findRepl? id with
        | none => rfl
        | some st =>
          rw [hf] at hy
          exact ihCA y _ _ id hy
      have hF2 : ∀ (cf : Config) (y : Node) (id : Nat),
          (match y.findRepl? id with | some _ => checkConfigAction n y t cf id | none => y).panicked = none →
          y.panicked = none := by
        intro cf y id hy
        cases hf : y.findRepl? id with
        | none => rw [hf] at hy; exact hy
        | some st =>
          rw [hf] at hy
          exact npk (k := fun z => checkConfigAction n z t cf id) (fun π z => P_checkConfigAction n z t cf id) hy
      have hF3 : ∀ (cf : Config) (x : Node),
          (x.replOrder.foldl (fun y id => match y.findRepl? id with | some _ => checkConfigAction n y t cf id | none => y)
            x.popOrder).panicked = none → x.panicked = none := by
        intro cf x hx
        have := foldl_sticky _ (hF2 cf) _ _ hx
        exact this
      dsimp +instances only [uproj]
      by_cases h1 : s.canChangeConfig = true ∧ (c.get s.nid).action ≠ actNone
      · simp only [if_pos h1] at hp ⊢
        by_cases h2 : (c.get s.nid).action = actDemote
        · simp only [if_pos h2] at hp ⊢
          rw [ihDC s t _ (hF3 _ _ hp)]
          exact hfold _ (hF1 _) (hF2 _) _ hp
        · simp only [if_neg h2] at hp ⊢
          by_cases h3 : (c.get s.nid).action = actRemove ∨ (c.get s.nid).action = actForceRemove
          · simp only [if_pos h3] at hp ⊢
            rw [ihDC s t _ (hF3 _ _ hp)]
            exact hfold _ (hF1 _) (hF2 _) _ hp
          · simp only [if_neg h3] at hp ⊢
            rw [U_panic]
            exact hfold _ (hF1 _) (hF2 _) _ hp
      · simp only [if_neg h1] at hp ⊢
        exact hfold _ (hF1 _) (hF2 _) _ hp
    · -- checkConfigAction
      intro s t c id hp
      unfold checkConfigAction at hp ⊢
      rw [U_findRepl?]
      cases hf : s.findRepl? id with
      | none => rfl
      | some st =>
        rw [hf] at hp
        dsimp only [Option.map] at hp ⊢
        rw [roundStep_zrr]
        dsimp only at hp ⊢
        by_cases ha : (c.get id).nextAction = actNone
        · rw [if_pos ha, if_pos ha]
        · rw [if_neg ha] at hp ⊢
          rw [if_neg ha, U_setRepl]
          simp only [actionConfig_zrr]
          ucomm hp [ihDC]
    · intro s i hp
      unfold setCommitIndexL at hp ⊢
      ucomm hp [ihCAs]
      all_goals (
        rw [foldl_U' (β := β) _ (fun s t => by have hq : True := trivial; unorm hq)]
        try (have hq : True := trivial; unorm hq)
        try rfl)
    · intro s hp
      unfold onMajorityCommit at hp ⊢
      dsimp only at hp ⊢
      rw [U_majorityMatchIndex]
      by_cases hm : s.majorityMatchIndex.2 = true
      · simp only [if_pos hm] at hp ⊢
        dsimp +instances only [uproj]
        by_cases hc : s.majorityMatchIndex.1 > s.commitIndex ∧ s.majorityMatchIndex.1 ≥ s.ldr.startIndex
        · simp only [if_pos hc] at hp ⊢
          have h1 : (setCommitIndexL n s s.majorityMatchIndex.1).applyCommittedL.panicked = none :=
            npk (k := fun x => x.notifyFlr) (fun π x => P_notifyFlr x) hp
          have h2 : (setCommitIndexL n s s.majorityMatchIndex.1).panicked = none :=
            npk (k := fun x => x.applyCommittedL) (fun π x => P_applyCommittedL x) h1
          rw [ihSC s _ h2, U_applyCommittedL _ h1, U_notifyFlr _ hp]
        · simp only [if_neg hc]
      · simp only [if_neg hm] at hp
        have := npk (k := fun x => if s.majorityMatchIndex.1 > x.commitIndex ∧ s.majorityMatchIndex.1 ≥ x.ldr.startIndex
            then ((setCommitIndexL n x s.majorityMatchIndex.1).applyCommittedL).notifyFlr else x)
          (fun π x => by pcomm) hp
        exact absurd this (panic_ne_none _ _)


@[usimp] theorem U_storeEntry (f : Nat) (s : Node) (bt : List QItem) (hp : (storeEntry f s bt).panicked = none) :
    storeEntry f (U β s) bt = U β (storeEntry f s bt) := (block_U f).1 s bt hp
@[usimp] theorem U_doChangeConfig (f : Nat) (s : Node) (t : Nat) (c : Config) (hp : (doChangeConfig f s t c).panicked = none) :
    doChangeConfig f (U β s) t c = U β (doChangeConfig f s t c) := (block_U f).2.2.2.1 s t c hp
@[usimp] theorem U_checkConfigActions (f : Nat) (s : Node) (t : Nat) (c : Config)
    (hp : (checkConfigActions f s t c).panicked = none) :
    checkConfigActions f (U β s) t c = U β (checkConfigActions f s t c) := (block_U f).2.2.2.2.1 s t c hp
@[usimp] theorem U_checkConfigAction (f : Nat) (s : Node) (t : Nat) (c : Config) (id : Nat)
    (hp : (checkConfigAction f s t c id).panicked = none) :
    checkConfigAction f (U β s) t c id = U β (checkConfigAction f s t c id) := (block_U f).2.2.2.2.2.1 s t c id hp
@[usimp] theorem U_onMajorityCommit (f : Nat) (s : Node) (hp : (onMajorityCommit f s).panicked = none) :
    onMajorityCommit f (U β s) = U β (onMajorityCommit f s) := (block_U f).2.2.2.2.2.2.2 s hp

end SnapRelU
end Raft
