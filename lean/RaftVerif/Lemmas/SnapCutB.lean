/-
The stale reset on the cluster system with snapshots, compaction and installation (Sys/Snap3.lean): a crash in an
operation of stage 2 after which `openStorage` RESETS the log of the restarted node to the newest snapshot file on its
disk (`Node.staleLog`) — the case excluded by the premise `staleLog = false` of `Snap3.Trans.crash`.

* `restart_stale_fields` — what the restart yields: the log `NLog.reset F` (`F` the index of the newest file), last log
  index / term, snapshot index / term, commit index those of the file, the state machine restored from it;
* `stale_is_short` — in a state that satisfies the invariant, a log on a crash disk is stale ONLY because it ends below
  the newest file (the other reason — another term at the file's index — is excluded: the file names an entry of the
  virtual log, and the disk agrees with the virtual log on what the commit index covers);
* `crash3_stale` — the invariant of stage 1 holds for the cluster of the virtual nodes after such a crash: the virtual
  log of the restarted node is the COMMITTED PREFIX `(x.vlog i).take F` the file stands for (`SnapCut.sinv_crash_stale`).
-/
import RaftVerif.Lemmas.SnapCutA
import RaftVerif.Lemmas.SnapInst3h

namespace Raft
namespace SnapCut
open Node Election LogRel Replication CommitRel Commit C02Sys C03Sys SnapRel SnapRelU SnapSim Snap Snap2 SnapInv SnapInv2
open SnapInst SnapInstU Snap3 SnapFrame SnapInst3

/-- **the node restarted from a disk whose log is stale**: the log is reset to the newest snapshot file -/
theorem restart_stale_fields (d : Durable) (r : Nat) (sor : Bool) (n : Node) (hn : Node.restart d r sor = some n)
    (hst : staleLog d = true) :
    n.log = NLog.reset (headSnap d).index ∧ n.lastLogIndex = (headSnap d).index ∧ n.lastLogTerm = (headSnap d).term ∧
    n.snapIndex = (headSnap d).index ∧ n.snapTerm = (headSnap d).term ∧ n.commitIndex = (headSnap d).index ∧
    n.fsm = { index := (headSnap d).index, term := (headSnap d).term, applied := (headSnap d).data,
              config := (headSnap d).config } ∧
    n.snapsDisk = d.snaps ∧ n.role = .follower ∧ n.term = d.term ∧ n.votedFor = d.vote ∧ n.nid = d.nid ∧
    n.retain = r ∧ n.snapResult = none ∧ n.trace = [] ∧ C05.VoteWF n := by
  have hpos : (C10.snapOf d).index > 0 := stale_pos d hst
  have hlo : C10.logOf d = NLog.reset (C10.snapOf d).index := by
    rcases C10.logOf_cases d with ⟨_, e⟩ | ⟨h, e⟩
    · exact e
    · unfold C10.logOf; rw [hst]; rfl
  obtain ⟨f1, f2, f3, f4, f5, f6, f7⟩ := C10.restart_fsm d r sor n hn
  rw [if_pos hpos] at f1
  obtain ⟨e1, e2, e3, e4, _⟩ := C10.restartNode_fields d r sor
  obtain ⟨t1, t2⟩ := restartNode_lastLogTerm d r sor
  obtain ⟨_, _, _, hne⟩ := C10.restart_some d r sor n hn
  rw [e1, if_pos hpos] at hne
  obtain ⟨_, _, o3, _, o5, _, _, _, _, _, _⟩ := fsmRestore_other (restartNode d r sor)
  obtain ⟨v1, v2, v3, v4⟩ := C10.restart_term_vote d r sor n hn
  obtain ⟨_, w2, w3, w4⟩ := restart_snapTerm d r sor n hn
  obtain ⟨s1, s2, s3, _⟩ := restart_shape d r sor n hn
  obtain ⟨r1, r2⟩ := restart_role d r sor n hn
  have hcount : ¬ (C10.logOf d).count > 0 := by rw [hlo]; simp [NLog.reset, NLog.count]
  refine ⟨?_, ?_, ?_, f3, ?_, f1.2, f1.1, f7, r1, v1, v2, r2, w4, s2, s3, ⟨v3, v4⟩⟩
  · rw [f4, e3, hlo]; rfl
  · rw [f5, e4, if_neg hcount]; rfl
  · rw [hne]
    show (restartNode d r sor).fsmRestore.lastLogTerm = _
    rw [o3, t1, if_neg hcount]; rfl
  · rw [hne]
    show (restartNode d r sor).fsmRestore.snapTerm = _
    rw [o5, e2]; rfl

section
variable {V : List Nat}

/-- what a crash in an operation of stage 2 other than `.snapTaken` leaves on disk (the facts `crash3_nc` starts from) -/
theorem crash3_disk {x : Snap3.Sys} (hI3 : Inv3 V x) (hS : Side3 V x) {i : Nat} {op : Op} {ra : List Nat}
    {ord : List (List Nat)} {src : Nat} (k : Nat) (en : Snap.Enabled x.s2.cs i op src)
    (hp : ((x.node i).step op ra ord).panicked = none) (hne : op ≠ .snapTaken)
    (hnc : NoCut (x.node i) op) (htt : TermTracked (x.node i) op) :
    C05.crashDisk (x.vnode i) op ra ord k = uncD (x.s2.base i) (C05.crashDisk (x.node i) op ra ord k) ∧
    ((C05.crashDisk (x.node i) op ra ord k).log.prev = (x.node i).log.prev ∧
      (C05.crashDisk (x.node i) op ra ord k).log.prev + (C05.crashDisk (x.node i) op ra ord k).log.entries.length ≤
        (C05.crashDisk (x.node i) op ra ord k).log.flushed) ∧
    (x.node i).snapIndex ≤ (headSnap (C05.crashDisk (x.node i) op ra ord k)).index ∧
    (∀ g ∈ (C05.crashDisk (x.node i) op ra ord k).snaps, termAt (x.vlog i) g.index = g.term) ∧
    FilesOK (x.vlog i) (x.node i).commitIndex (C05.crashDisk (x.node i) op ra ord k).snaps := by
  have hI := hI3.sinv
  have hP := hI3.prev
  have hfl : (x.node i).log.prev ≤ (x.node i).log.flushed :=
    prev_le_flushed (x.s2.base i) (hS.segs i) (vnode_lwf3 hI i)
  have hU := vstep_comm hI hP hS en hp hne hnc
  have hdisk : C05.crashDisk (x.vnode i) op ra ord k = uncD (x.s2.base i) (C05.crashDisk (x.node i) op ra ord k) :=
    crashDisk_U _ op ra ord hU k
  have hd : (C05.crashDisk (x.node i) op ra ord k).log.prev = (x.node i).log.prev ∧
      (C05.crashDisk (x.node i) op ra ord k).log.prev + (C05.crashDisk (x.node i) op ra ord k).log.entries.length ≤
        (C05.crashDisk (x.node i) op ra ord k).log.flushed := by
    have hpre : (x.node i).durable.log.prev = (x.node i).log.prev ∧
        (x.node i).durable.log.prev + (x.node i).durable.log.entries.length ≤ (x.node i).durable.log.flushed :=
      ⟨rfl, durable_len _ hfl⟩
    by_cases hr : op = .snapRun
    · subst hr
      have hc := C04Sys.crashDisk_cases (x.node i) .snapRun ra ord k
      rw [snapRun_step_eq] at hc
      obtain ⟨f1, f2⟩ := snapRun_frame ((x.node i).begin ra ord)
      rcases hc with e | ⟨p, hpt, e⟩ | e
      · rw [e]; exact hpre
      · rw [e]
        rcases f2 p hpt with a | a
        · cases a
        · rw [a]; exact hpre
      · rw [e]
        have : ((x.node i).begin ra ord).snapRun.durable.log = (x.node i).durable.log := by
          show ((x.node i).begin ra ord).snapRun.log.durable = _
          rw [f1]; rfl
        rw [this]; exact hpre
    · have hnc' : StepClosedNC.NCOp op := by
        have h1 := en.ok2.1
        cases op <;> first | trivial | exact h1.elim | exact absurd rfl hne | exact absurd rfl hr | exact h1
      have fr := step_frame (x.node i) op ra ord hnc' (hP i).le hfl
      rcases C04Sys.crashDisk_cases (x.node i) op ra ord k with e | ⟨p, hpt, e⟩ | e
      · rw [e]; exact hpre
      · rw [e]
        have := fr.2.2.2.2 p hpt
        exact ⟨this.1, this.2.2⟩
      · rw [e]
        exact ⟨fr.1, durable_len _ (by rw [fr.1]; exact fr.2.1)⟩
  have fbi : FB (E σ0 (x.vnode i)) := hI.fsm i
  have hf : FsmOK 0 (x.vnode i) := ⟨fbi.fsm.le, fbi.fsm.len, fbi.fsm.applied, fbi.fsm.mono⟩
  have hcs := crash_snaps (x.vnode i) op ra ord k en.ok2.1 (hI.snap i) hf
  rw [hdisk] at hcs
  exact ⟨hdisk, hd, hcs.2, crash_files_term hI3 (i := i) (op := op) (ra := ra) (ord := ord) k en.ok2.1 htt, hcs.1⟩

/-- **a stale log on a crash disk ends below the newest snapshot file.** Let the disk `d` of node `i` start where the
log of `i` starts and be completely flushed, let its snapshot files carry the terms of the virtual log of `i` and lie
within the commit index, and let the un-compacted disk agree with the virtual log on what the commit index covers. Then
`staleLog d` holds only if the log on `d` ends below the newest file. -/
theorem stale_is_short {vl β : List Entry} {ci : Nat} {d : Durable}
    (hlen : d.log.prev + d.log.entries.length ≤ d.log.flushed)
    (hft : ∀ g ∈ d.snaps, termAt vl g.index = g.term)
    (hfo : FilesOK vl ci d.snaps)
    (hkeep : ∀ K, K ≤ ci → K ≤ (uncD β d).log.entries.length →
      (uncD β d).log.entries.take K = vl.take K)
    (hst : staleLog d = true) : d.log.last < (headSnap d).index := by
  have hpos := stale_pos d hst
  have hm : headSnap d ∈ d.snaps := headSnap_mem d hpos
  apply Classical.byContradiction
  intro hns
  have hge : (headSnap d).index ≤ d.log.last := Nat.le_of_not_lt hns
  unfold staleLog at hst
  simp only [Bool.or_eq_true, Bool.and_eq_true, decide_eq_true_eq, bne_iff_ne, ne_eq] at hst
  rcases hst with h | ⟨h1, h2⟩
  · exact hns h
  · apply h2
    have h1' : d.log.prev < (headSnap d).index := h1
    have hent : (uncD β d).log.entries = pad β d.log.prev ++ d.log.entries := by
      rw [uncD_eq d hlen]; rfl
    have hl : (uncD β d).log.entries.length = d.log.last := by
      rw [hent, List.length_append, pad_length]; rfl
    have hF := (hfo.files _ hm).2.1
    have hk := hkeep (headSnap d).index hF (by rw [hl]; exact hge)
    rw [hent] at hk
    have hg : d.log.get? (headSnap d).index = (pad β d.log.prev ++ d.log.entries)[(headSnap d).index - 1]? := by
      rw [← uncLog_get? (β := β) d.log _ h1']
      unfold NLog.get?
      show (if 0 < (headSnap d).index then
        (pad β d.log.prev ++ d.log.entries)[(headSnap d).index - 0 - 1]? else none) = _
      rw [if_pos hpos, Nat.sub_zero]
    have hidx : (pad β d.log.prev ++ d.log.entries)[(headSnap d).index - 1]? =
        vl[(headSnap d).index - 1]? := by
      have := congrArg (fun l => l[(headSnap d).index - 1]?) hk
      simp only [List.getElem?_take] at this
      rw [if_pos (by omega), if_pos (by omega)] at this
      exact this
    have ht := hft _ hm
    unfold termAt at ht
    rw [if_neg (by omega)] at ht
    have hlt : (headSnap d).index - 1 < vl.length := by
      have := (hfo.files _ hm).2.2
      have hh : (headSnap d).index - 1 < (pad β d.log.prev ++ d.log.entries).length := by
        rw [List.length_append, pad_length]
        have : d.log.last = d.log.prev + d.log.entries.length := rfl
        omega
      rw [List.getElem?_eq_getElem hh] at hidx
      cases hc : vl[(headSnap d).index - 1]? with
      | none => rw [hc] at hidx; cases hidx
      | some e => exact (List.getElem?_eq_some_iff.mp hc).1
    rw [List.getElem?_eq_getElem hlt] at ht hidx
    show (d.log.get? (headSnap d).index).map (·.term) = some (headSnap d).term
    rw [hg, hidx]
    simp only [Option.map_some, Option.getD_some] at ht ⊢
    rw [ht]

/-- the node restarted with a reset log, un-compacted with the committed prefix the newest file stands for, is the
`StaleN` of the virtual node and the un-compacted disk -/
theorem staleN_of_restart {s : Node} {β : List Entry} {d : Durable} {r : Nat} {sor : Bool} {n : Node}
    (hr : 1 ≤ r) (hn : Node.restart d r sor = some n) (hst : staleLog d = true)
    (hft : ∀ g ∈ d.snaps, termAt s.log.entries g.index = g.term)
    (hlen : (headSnap d).index ≤ s.log.entries.length) :
    StaleN s (uncD β d) (U (s.log.entries.take (headSnap d).index) n) ∧
    (U (s.log.entries.take (headSnap d).index) n).log.entries = s.log.entries.take (headSnap d).index := by
  obtain ⟨a1, a2, a3, a4, a5, a6, a7, a8, a9, a10, a11, a12, a13, a14, a15, a16⟩ := restart_stale_fields d r sor n hn hst
  have hpos := stale_pos d hst
  have hm : headSnap d ∈ d.snaps := headSnap_mem d hpos
  have hPl : (s.log.entries.take (headSnap d).index).length = (headSnap d).index := by
    rw [List.length_take]; omega
  have hent : (U (s.log.entries.take (headSnap d).index) n).log.entries = s.log.entries.take (headSnap d).index := by
    show (uncLog _ n.log).entries = _
    rw [a1]; exact uncLog_reset_entries _ _ hPl
  refine ⟨⟨a12, a10, a11, a16, a9, hent, rfl, ?_, ?_, a2, ?_, a4, a8, a6, a7, by rw [show (U _ n).retain = n.retain from rfl, a13]; exact hr⟩, hent⟩
  · show n.log.flushed = _
    rw [a1]; rfl
  · show C06.LogWF (uncLog _ n.log)
    rw [a1]; exact uncLog_reset_lwf _ _
  · show n.lastLogTerm = lastTerm (U _ n).log.entries
    rw [hent, a3, lastTerm_take _ _ hlen]
    exact (hft _ hm).symm

/-- **a crash at any storage point of an operation of stage 2 other than `.snapTaken` after which `openStorage` resets
the log, and the restart.** The invariant of stage 1 holds for the cluster of the virtual nodes, in which the virtual log
of the restarted node is the committed prefix `(x.vlog i).take F` the newest snapshot file on its disk stands for; the
log of the restarted node is `NLog.reset F`. -/
theorem crash3_stale (hV : V.Nodup) {x : Snap3.Sys} (hI3 : Inv3 V x) (hS : Side3 V x) {i : Nat} {op : Op} {ra : List Nat}
    {ord : List (List Nat)} {src k retain : Nat} {sor : Bool} {n : Node} (en : Snap.Enabled x.s2.cs i op src)
    (hret : 1 ≤ retain) (hp : ((x.node i).step op ra ord).panicked = none) (hne : op ≠ .snapTaken)
    (hnc : NoCut (x.node i) op) (htt : TermTracked (x.node i) op)
    (hst : staleLog (C05.crashDisk (x.node i) op ra ord k) = true)
    (hn : Node.restart (C05.crashDisk (x.node i) op ra ord k) retain sor = some n) :
    SInv V (view (crashS x.s2 i op n)) ∧ PrevOK n ∧
    FilesOK (x.vlog i) (x.node i).commitIndex (C05.crashDisk (x.node i) op ra ord k).snaps ∧
    (∀ g ∈ (C05.crashDisk (x.node i) op ra ord k).snaps, termAt (x.vlog i) g.index = g.term) ∧
    n.log = NLog.reset (headSnap (C05.crashDisk (x.node i) op ra ord k)).index ∧
    (crashS x.s2 i op n).vlog i = (x.vlog i).take (headSnap (C05.crashDisk (x.node i) op ra ord k)).index := by
  have hI := hI3.sinv
  obtain ⟨hdisk, hd, hsn, hft, hfo⟩ := crash3_disk hI3 hS k en hp hne hnc htt
  have hSv : SideS V (view x.s2) := sideS_view3 hS
  have hlogv : op = .snapTaken → (((view x.s2).node i).step op ra ord).log = ((view x.s2).node i).log :=
    fun h => absurd h hne
  have hkeep : ∀ K, K ≤ (x.node i).commitIndex →
      K ≤ (uncD (x.s2.base i) (C05.crashDisk (x.node i) op ra ord k)).log.entries.length →
      (uncD (x.s2.base i) (C05.crashDisk (x.node i) op ra ord k)).log.entries.take K = (x.vlog i).take K := by
    intro K h1 h2
    have := crash_keep_snap hV hI hSv ra ord k (enabled_view en) hlogv K h1
      (by show K ≤ (C05.crashDisk (x.vnode i) op ra ord k).log.entries.length; rw [hdisk]; exact h2)
    have this' : (C05.crashDisk (x.vnode i) op ra ord k).log.entries.take K = (x.vlog i).take K := this
    rw [hdisk] at this'
    exact this'
  have hshort := stale_is_short hd.2 hft hfo hkeep hst
  obtain ⟨hcid, hnid, _, _⟩ := C10.restart_some _ _ _ _ hn
  have hFlen : (headSnap (C05.crashDisk (x.node i) op ra ord k)).index ≤ (x.vlog i).length := by
    have hm := headSnap_mem _ (stale_pos _ hst)
    obtain ⟨g1, g2, _⟩ := hfo.files _ hm
    exact (hI.cinv.cmt.cc i _ g1 g2).1
  obtain ⟨hN, hent⟩ : StaleN (x.vnode i) (uncD (x.s2.base i) (C05.crashDisk (x.node i) op ra ord k))
        (U ((x.vlog i).take (headSnap (C05.crashDisk (x.node i) op ra ord k)).index) n) ∧
      (U ((x.vlog i).take (headSnap (C05.crashDisk (x.node i) op ra ord k)).index) n).log.entries =
        (x.vlog i).take (headSnap (C05.crashDisk (x.node i) op ra ord k)).index :=
    staleN_of_restart (s := x.vnode i) (β := x.s2.base i) hret hn hst hft hFlen
  obtain ⟨a1, _, _, a4, _, _, _, _, _, _, _, _, _, a14, _, _⟩ := restart_stale_fields _ retain sor n hn hst
  have hdec : ∀ e ∈ (U ((x.vlog i).take (headSnap (C05.crashDisk (x.node i) op ra ord k)).index) n).log.entries,
      e.typ = etConfig → e.cfg.isSome = true := by
    intro e he
    rw [hent] at he
    exact hS.dec i e (List.mem_of_mem_take he)
  have key := sinv_crash_stale hV hI hSv (i := i) (op := op) (ra := ra) (ord := ord) (src := src) (k := k)
    (retain := retain) (sor := sor) (N := U ((x.vlog i).take (headSnap (C05.crashDisk (x.node i) op ra ord k)).index) n)
    (enabled_view en) hlogv
    (by show (C05.crashDisk (x.vnode i) op ra ord k).cid ≠ 0; rw [hdisk]; exact hcid)
    (by show (C05.crashDisk (x.vnode i) op ra ord k).nid ≠ 0; rw [hdisk]; exact hnid)
    (by show (C05.crashDisk (x.vnode i) op ra ord k).log.prev = 0; rw [hdisk]; rfl)
    (by
      show (C05.crashDisk (x.vnode i) op ra ord k).log.entries.length <
        (headOf (C05.crashDisk (x.vnode i) op ra ord k).snaps).index
      rw [hdisk, uncD_eq _ hd.2]
      show (pad _ _ ++ _).length < (headSnap (C05.crashDisk (x.node i) op ra ord k)).index
      rw [List.length_append, pad_length]
      exact hshort)
    (by
      show StaleN (x.vnode i) (C05.crashDisk (x.vnode i) op ra ord k) _
      rw [hdisk]; exact hN)
    hdec
  have hPn : U (newBase x.s2 i n.log.prev) n =
      U ((x.vlog i).take (headSnap (C05.crashDisk (x.node i) op ra ord k)).index) n := by
    rw [a1]; rfl
  refine ⟨?_, ⟨by rw [a1, a4]; exact Nat.le_refl _, fun rs hrs => by rw [a14] at hrs; cases hrs⟩, hfo, hft, a1, ?_⟩
  · rw [view_crashS x.s2 i op n _ hPn]
    exact key
  · show ((crashS x.s2 i op n).vnode i).log.entries = _
    rw [view_crashS_node, if_pos rfl, hPn]
    exact hent

end

end SnapCut
end Raft
