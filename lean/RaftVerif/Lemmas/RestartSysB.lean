/-
C10 on the cluster-level systems WITH snapshots (Sys/Snap3.lean, Sys/Snap4.lean), part B:
* `Restarted s d n`      — what C10 promises of the node `n` restarted from the crash image `d` of a step of `s` (per node);
  `restarted_of_crash`   — it holds at every crash point of every acceptable step of a `CrashInv` node;
* `Run4`, `trans4_mono`, `run4_mono` — runs of `Raft.Snap4`; the ledgers only grow;
* `CrashOf x i n y`      — `y` is the state after node `i` of `x` died (in an operation of stage 2 or in the install
  handler) and restarted as `n`: a transition of `Raft.Snap4`;
* `grant_honoured3`, `ack_held3` — in every reachable state every granted vote is honoured by its voter and every
  acknowledged entry of the acknowledgement's term is durably in the voter's VIRTUAL log, and in its real log above
  `log.prev` (at or below: covered by the snapshot) — unless overwritten by a later leader (`Unsafe`).
-/
import RaftVerif.Lemmas.RestartSysA

namespace Raft
namespace RestartSys
open Node Election LogRel Replication CommitRel Commit C02Sys C03Sys SnapRel SnapRelU SnapSim Snap Snap2 SnapInv SnapInv2
open SnapInst SnapInstU Snap3 SnapInst3 Snap4 SnapInst4 TrackCrash

/-! ### per node -/

/-- **what C10 promises of the node `n` restarted from the disk `d` left by a crash of `s`** -/
structure Restarted (s : Node) (d : Durable) (n : Node) : Prop where
  /-- snapshot label / configuration tracking, `fsm.term`, `snapTerm` are those of the log -/
  tracks : C12Track.Tracks n
  /-- `log.prev ≤ snapIndex ≤ applied ≤ commitIndex ≤ lastLogIndex = log.last`, configurations within the log -/
  ordered : Order.Ordered n
  /-- the hypotheses of the crash theorem hold again: the node may crash again at any point -/
  again : C12Crash.CrashInv n
  /-- `configs.latest` is the newest configuration entry of the log, else the snapshot's label -/
  latestNewest : C19Latest.LatestIsNewest n
  /-- the configurations are derived from the log on disk above the snapshot, else the snapshot's label -/
  cfgLatest : n.configs.latest = ((C10.configsAbove d)[0]?).getD (C10.snapOf d).config
  cfgCommitted : n.configs.committed = ((C10.configsAbove d)[1]?).getD (C10.snapOf d).config
  /-- the log is contiguous with the snapshot -/
  contiguous : n.log.prev ≤ n.snapIndex ∧ n.snapIndex ≤ n.lastLogIndex ∧ n.lastLogIndex = n.log.last
  /-- … and agrees with it -/
  snapAgrees : n.log.prev < n.snapIndex → (n.log.get? n.snapIndex).map (·.term) = some n.snapTerm
  /-- a follower with the ids it had -/
  ident : n.role = .follower ∧ n.nid = s.nid ∧ n.cid = s.cid
  /-- term and vote are the durable pair, a legal successor of the pair the step started from -/
  vote : n.term = d.term ∧ n.votedFor = d.vote ∧ C05.VoteWF n ∧ C05.VoteStep s n
  /-- everything in the log is flushed; the snapshot files are those on disk; nothing failed -/
  flushed : n.log.flushed = n.log.last
  files : n.snapsDisk = d.snaps
  noPanic : n.panicked = none

/-- **at every crash point of every acceptable step of a node satisfying `CrashInv` (memory = disk for term and vote) the
restart succeeds and yields a `Restarted` node** -/
theorem restarted_of_crash (s : Node) (op : Op) (ra : List Nat) (ord : List (List Nat)) (k r : Nat) (sor : Bool)
    (hi : C12Crash.CrashInv s) (hwf : C05.VoteWF s) (hr : Order.ReqOk s op) (hd : ReqDec s op) (hfb : SnapFbOp s op)
    (hp : (s.step op ra ord).panicked = none) (hret : 1 ≤ r) :
    ∃ n, Node.restart (C05.crashDisk s op ra ord k) r sor = some n ∧ Restarted s (C05.crashDisk s op ra ord k) n := by
  obtain ⟨n, hn, ht, ho, c1, c2, hL, hci⟩ :=
    C12Crash.tracks_after_crash_at_any_point_partial s op ra ord k r sor hi hr hd hfb hp hret
  obtain ⟨r1, r2, r3⟩ := C05.restart_reads_durable _ _ _ _ hn
  obtain ⟨f1, f2⟩ := Election.restart_role_nid _ _ _ _ hn
  obtain ⟨_, hnp, _, hlog, _, _, hdisk⟩ := C10.restart_fsm _ r sor n hn
  have e3 := (C10.restartNode_fields (C05.crashDisk s op ra ord k) r sor).2.2.1
  have hvs : C05.VoteStep s n := by
    have := Election.crashDisk_durStep s op ra ord k hwf
    unfold C05.VoteStep; rw [r1, r2]; exact this
  refine ⟨n, hn, ht, ho, hci, hL, c1, c2, ⟨ho.prev_le_snap, ?_, ho.last_eq⟩, ht.snapOk.termLog,
    ⟨f1, by rw [f2, Election.crashDisk_nid], by rw [SysMore.restart_cid _ _ _ _ hn, SysMore.crashDisk_cid]⟩,
    ⟨r1, r2, r3, hvs⟩, by rw [hlog, e3]; rfl, hdisk, hnp⟩
  have := ho.snap_le_applied; have := ho.applied_le_commit; have := ho.commit_le_last
  omega

section
variable {V : List Nat}

/-! ### runs of `Raft.Snap4`; the ledgers only grow -/

/-- runs of `Raft.Snap4` in which `Side4 V` holds in every state -/
inductive Run4 (V : List Nat) (x : Snap3.Sys) : Snap3.Sys → Prop
  | refl : Run4 V x x
  | next (y z : Snap3.Sys) : Run4 V x y → Snap4.Trans y z → Side4 V z → Run4 V x z

theorem run4_reachable {x y : Snap3.Sys} (hx : Reachable4 V x) (h : Run4 V x y) : Reachable4 V y := by
  induction h with
  | refl => exact hx
  | next y z _ ht hs ih => exact .next y z ih ht hs

/-- what a state remembers of an earlier one: granted votes, acknowledgements, committed and created entries, snapshot
files, install requests -/
structure Keeps (x y : Snap3.Sys) : Prop where
  grants : ∀ g ∈ x.s2.cs.rp.el.grants, g ∈ y.s2.cs.rp.el.grants
  won : ∀ e ∈ x.s2.cs.rp.el.won, e ∈ y.s2.cs.rp.el.won
  acks : ∀ a ∈ x.s2.cs.acks, a ∈ y.s2.cs.acks
  committed : ∀ m ∈ x.s2.cs.committed, m ∈ y.s2.cs.committed
  tree : ∀ c ∈ x.s2.cs.T, c ∈ y.s2.cs.T
  snaps : ∀ p ∈ x.s2.snaps, p ∈ y.s2.snaps
  sentSnaps : ∀ m ∈ x.sentSnaps, m ∈ y.sentSnaps

theorem Keeps.rfl' (x : Snap3.Sys) : Keeps x x :=
  ⟨fun _ h => h, fun _ h => h, fun _ h => h, fun _ h => h, fun _ h => h, fun _ h => h, fun _ h => h⟩

theorem Keeps.trans {x y z : Snap3.Sys} (a : Keeps x y) (b : Keeps y z) : Keeps x z :=
  ⟨fun e h => b.grants e (a.grants e h), fun e h => b.won e (a.won e h), fun e h => b.acks e (a.acks e h),
    fun e h => b.committed e (a.committed e h), fun e h => b.tree e (a.tree e h), fun e h => b.snaps e (a.snaps e h),
    fun e h => b.sentSnaps e (a.sentSnaps e h)⟩

/-- the ledgers only grow along a transition … -/
theorem trans4_mono {x y : Snap3.Sys} (h : Snap4.Trans x y) : Keeps x y := by
  cases h with
  | step i op ra ord src en hp =>
    exact ⟨fun g hg => List.mem_append_right _ (List.mem_append_right _ hg), fun e he => List.mem_append_right _ he,
      fun a ha => List.mem_append_right _ (List.mem_append_right _ ha), fun m hm => List.mem_append_right _ hm,
      fun c hc => List.mem_append_right _ hc, fun p hp' => List.mem_append_right _ hp', fun m hm => hm⟩
  | crash i op ra ord src k retain sor n en hret hp hnc hst hn =>
    exact ⟨fun g hg => hg, fun e he => he, fun a ha => ha, fun m hm => hm, fun c hc => List.mem_append_right _ hc,
      fun p hp' => List.mem_append_right _ hp', fun m hm => hm⟩
  | send i q hi hl hr hc =>
    exact ⟨fun _ h => h, fun _ h => h, fun _ h => h, fun _ h => h, fun _ h => h, fun _ h => h, fun _ h => h⟩
  | sendSnap i q hi hl hr =>
    exact ⟨fun _ h => h, fun _ h => h, fun _ h => h, fun _ h => h, fun _ h => h, fun _ h => h,
      fun m hm => List.mem_cons_of_mem _ hm⟩
  | install i m ra ord hi hm hp =>
    exact ⟨fun _ h => h, fun _ h => h, fun _ h => h, fun _ h => h, fun _ h => h,
      fun p hp' => List.mem_append_right _ hp', fun _ h => h⟩
  | crashInstall i m ra ord k retain sor n hi hm hret hp hold hn =>
    exact ⟨fun _ h => h, fun _ h => h, fun _ h => h, fun _ h => h, fun _ h => h,
      fun p hp' => List.mem_append_right _ hp', fun _ h => h⟩

/-- … and along a run -/
theorem run4_mono {x y : Snap3.Sys} (h : Run4 V x y) : Keeps x y := by
  induction h with
  | refl => exact Keeps.rfl' x
  | next y z _ ht _ ih => exact ih.trans (trans4_mono ht)

/-! ### the crash transitions of `Raft.Snap4` -/

/-- **`y` is the state after node `i` of `x` died and restarted as `n`**: in an enabled operation of stage 2 at the crash
point `k` (premises of `Snap4.Trans.crash`: the completed step would not panic, `NoCut`, the log on disk is not stale), or
at the crash point `k` of the install handler (premises of `Snap4.Trans.crashInstall`) -/
inductive CrashOf (x : Snap3.Sys) (i : Nat) (n : Node) : Snap3.Sys → Prop
  | op (op : Op) (ra : List Nat) (ord : List (List Nat)) (src k retain : Nat) (sor : Bool) :
      Snap.Enabled x.s2.cs i op src → 1 ≤ retain →
      ((x.node i).step op ra ord).panicked = none → NoCut (x.node i) op →
      staleLog (C05.crashDisk (x.node i) op ra ord k) = false →
      Node.restart (C05.crashDisk (x.node i) op ra ord k) retain sor = some n →
      CrashOf x i n { x with s2 := crashS x.s2 i op n }
  | install (m : SnapMsg) (ra : List Nat) (ord : List (List Nat)) (k retain : Nat) (sor : Bool) :
      i ≠ 0 → (m.q.term < (x.node i).term ∨ m ∈ x.sentSnaps) → 1 ≤ retain →
      ((x.node i).step (.install m.q) ra ord).panicked = none →
      ((C05.crashDisk (x.node i) (.install m.q) ra ord k).snaps = (x.node i).snapsDisk →
        staleLog (C05.crashDisk (x.node i) (.install m.q) ra ord k) = false) →
      Node.restart (C05.crashDisk (x.node i) (.install m.q) ra ord k) retain sor = some n →
      CrashOf x i n (crashInstS x i m (C05.crashDisk (x.node i) (.install m.q) ra ord k) n)

theorem CrashOf.trans {x y : Snap3.Sys} {i : Nat} {n : Node} (h : CrashOf x i n y) : Snap4.Trans x y := by
  cases h with
  | op op ra ord src k retain sor en hret hp hnc hst hn => exact .crash i op ra ord src k retain sor n en hret hp hnc hst hn
  | install m ra ord k retain sor hi hm hret hp hold hn => exact .crashInstall i m ra ord k retain sor n hi hm hret hp hold hn

theorem CrashOf.node_i {x y : Snap3.Sys} {i : Nat} {n : Node} (h : CrashOf x i n y) : y.node i = n := by
  cases h with
  | op op ra ord src k retain sor en hret hp hnc hst hn => exact crashS_node_i x.s2 i op n
  | install m ra ord k retain sor hi hm hret hp hold hn => unfold crashInstS; exact replS_node_i x i n _

theorem CrashOf.node_j {x y : Snap3.Sys} {i : Nat} {n : Node} (h : CrashOf x i n y) {j : Nat} (hj : j ≠ i) :
    y.node j = x.node j := by
  cases h with
  | op op ra ord src k retain sor en hret hp hnc hst hn => exact crashS_node_j x.s2 i op n hj
  | install m ra ord k retain sor hi hm hret hp hold hn => unfold crashInstS; exact replS_node_j x i n _ hj

/-! ### what every reachable state says about granted votes and acknowledged entries -/

/-- every granted vote is honoured by its voter -/
theorem grant_honoured3 (hV : V.Nodup) {x : Snap3.Sys} (h : Reachable3 V x) (g : C01.Grant)
    (hg : g ∈ x.s2.cs.rp.el.grants) : C01Sys.HonouredBy (x.node g.voter) g :=
  (inv3_reachable hV h).1.sinv.cinv.rp.el.honoured g hg

/-- memory = disk for term and vote, on every node -/
theorem voteWF3 (hV : V.Nodup) {x : Snap3.Sys} (h : Reachable3 V x) (i : Nat) : C05.VoteWF (x.node i) :=
  ((inv3_reachable hV h).1.sinv.cinv.rp.el.ids i).2

/-- **every acknowledged entry of the acknowledgement's term is durably held** — in the voter's virtual log within the
flushed part; in its real log if above `log.prev`; at or below `log.prev` it is covered by the voter's snapshot — unless
an entry of a later term, not above the voter's term, does not extend it -/
theorem ack_held3 (hV : V.Nodup) {x : Snap3.Sys} (h : Reachable3 V x) (a : Ack) (ha : a ∈ x.s2.cs.acks)
    (b : Nat × Nat) (hb : b.2 = a.term) (hanc : Anc x.s2.cs.T b a.key) :
    (b.1 ≤ (x.node a.voter).log.flushed ∧ Holds (x.vlog a.voter) b.1 b.2 ∧
      ((x.node a.voter).log.prev < b.1 → ∃ e, (x.node a.voter).log.get? b.1 = some e ∧ e.term = b.2) ∧
      (b.1 ≤ (x.node a.voter).log.prev → b.1 ≤ (x.node a.voter).snapIndex)) ∨
    Unsafe x.s2.cs.T b (x.node a.voter).term := by
  have hI := (inv3_reachable hV h).1
  rcases hI.sinv.cinv.ack.stable a ha b hb hanc with hd | hu
  · left
    obtain ⟨d1, d2⟩ := hd
    have d2' : Holds (x.vlog a.voter) b.1 b.2 := d2
    refine ⟨d1, d2', fun hlt => ?_, fun hle => Nat.le_trans hle (hI.prev a.voter).le⟩
    obtain ⟨h1, h2, h3⟩ := d2'
    have hk : b.1 - 1 < (x.vlog a.voter).length := by omega
    refine ⟨(x.vlog a.voter)[b.1 - 1], ?_, ?_⟩
    · rw [← U_get? (β := x.s2.base a.voter) (x.node a.voter) b.1 hlt]
      show (x.vnode a.voter).log.get? b.1 = _
      unfold NLog.get?
      rw [if_pos (show (x.vnode a.voter).log.prev < b.1 from h1)]
      show (x.vlog a.voter)[b.1 - 0 - 1]? = _
      rw [Nat.sub_zero]
      exact List.getElem?_eq_getElem hk
    · unfold termAt at h3
      rw [if_neg (by omega), List.getElem?_eq_getElem hk] at h3
      exact h3
  · exact Or.inr hu

end

end RestartSys
end Raft
