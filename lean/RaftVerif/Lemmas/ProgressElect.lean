/-
The election part of the possibility proof (Props/C17Sys.lean), on the cluster-level system: enabling conditions of
the operations the constructed run uses, and the phases
  A  every node of the live majority `M` is made a follower (a stale leader by a `newTerm` report of one of its
     replications, a candidate by a vote response carrying a newer term) and then times out once;
  B  the node `w` with the most up-to-date log catches up with the highest term and times out (again);
  C  every other node of `M` grants its vote to `w`;
  D  `w` counts votes until it is leader.
-/
import RaftVerif.Lemmas.ProgressSys

namespace Raft
namespace Progress
open Node LogRel CommitRel Commit C02Sys NoPanic SysInv
open Replication (ReadFrom)
open Election (FixedV setNode setNode_same setNode_other)

/-! ### bookkeeping of runs -/

/-- length of the run, who acts, and how many election timeouts each node uses -/
structure RunOK (M : List Nat) (ls : List Lbl) (len : Nat) (tmo : Nat → Nat) : Prop where
  len : ls.length ≤ len
  actors : ∀ l ∈ ls, l.actor ∈ M
  timeouts : ∀ i, (ls.filter (Lbl.isTimeoutOf i)).length ≤ tmo i

theorem RunOK.nil (M : List Nat) : RunOK M [] 0 (fun _ => 0) :=
  ⟨Nat.le_refl _, fun _ h => absurd h List.not_mem_nil, fun _ => Nat.le_refl _⟩

theorem RunOK.append {M : List Nat} {l1 l2 : List Lbl} {n1 n2 : Nat} {t1 t2 : Nat → Nat} (h1 : RunOK M l1 n1 t1)
    (h2 : RunOK M l2 n2 t2) : RunOK M (l1 ++ l2) (n1 + n2) (fun i => t1 i + t2 i) := by
  refine ⟨?_, ?_, fun i => ?_⟩
  · rw [List.length_append]; exact Nat.add_le_add h1.len h2.len
  · intro l hl
    rcases List.mem_append.mp hl with h | h
    · exact h1.actors l h
    · exact h2.actors l h
  · rw [List.filter_append, List.length_append]
    exact Nat.add_le_add (h1.timeouts i) (h2.timeouts i)

theorem RunOK.mono {M : List Nat} {ls : List Lbl} {n n' : Nat} {t t' : Nat → Nat} (h : RunOK M ls n t)
    (hn : n ≤ n') (ht : ∀ i, t i ≤ t' i) : RunOK M ls n' t' :=
  ⟨Nat.le_trans h.len hn, h.actors, fun i => Nat.le_trans (h.timeouts i) (ht i)⟩

/-- a run of at most `n` labels in which only node `i` acts, with at most `k` election timeouts -/
theorem RunOK.single {M : List Nat} {ls : List Lbl} {i n k : Nat} (hi : i ∈ M) (hl : ls.length ≤ n)
    (ha : ∀ l ∈ ls, l.actor = i) (ht : (ls.filter Lbl.isTimeout).length ≤ k) :
    RunOK M ls n (fun j => if j = i then k else 0) := by
  refine ⟨hl, fun l h => by rw [ha l h]; exact hi, fun j => ?_⟩
  by_cases hj : j = i
  · rw [if_pos hj]
    rw [← List.countP_eq_length_filter] at ht ⊢
    refine Nat.le_trans (List.countP_mono_left ?_) ht
    intro l _ hl'
    cases l with
    | step a op _ _ _ => cases op <;> first | rfl | cases hl'
    | send _ _ => cases hl'
  · rw [if_neg hj]
    apply Nat.le_of_eq
    rw [List.length_eq_zero_iff, List.filter_eq_nil_iff]
    intro l hl' ht'
    have ha' := ha l hl'
    cases l with
    | step a op _ _ _ =>
      cases op <;> first | cases ht' | skip
      have e : a = j := by simpa [Lbl.isTimeoutOf] using ht'
      have e' : a = i := ha'
      exact hj (by rw [← e, e'])
    | send _ _ => cases ht'

/-! ### enabling conditions -/

section enabled
variable {y : Commit.Sys} {i : Nat}

theorem enabledG_other (op : Op) (h1 : ∀ us, op ≠ .replUpdates us) (h2 : ∀ a b c, op ≠ .timeoutNowResult a b c) :
    EnabledG y i op :=
  ⟨fun us h => absurd h (h1 us), fun a b c h => absurd h (h2 a b c)⟩

/-- the parts of `Commit.Enabled` that only concern other kinds of operations -/
theorem enabled_intro {op : Op} {src : Nat} (hi : i ≠ 0) (hv : ∀ q, op ≠ .vote q) (ha : ∀ q, op ≠ .append q)
    (hn : ∀ b, op ≠ .newEntries b) (hc : ∀ t c, op ≠ .changeConfig t c)
    (hreal : Counts (y.node i) op → Election.RealReply y.rp.el i src) (hok : OpOK op)
    (hupd : ∀ us, op = .replUpdates us → ∀ u ∈ us, ∀ v, u.upd = .matchIndex v →
      v = 0 ∨ ∃ a ∈ y.acks, a.voter = u.id ∧ a.term = (y.node i).term ∧ v ≤ a.index) :
    Commit.Enabled y i op src :=
  ⟨⟨hi, fun q h => absurd h (hv q), hreal, hok, fun q h => absurd h (ha q)⟩,
   ⟨hok, fun b h => absurd h (hn b), hc⟩, fun q h => absurd h (hv q), fun q h => absurd h (ha q), hupd⟩

theorem enabled_timeout (hi : i ≠ 0) : Commit.Enabled y i .timeout 0 ∧ EnabledG y i .timeout := by
  refine ⟨enabled_intro hi (fun _ h => by cases h) (fun _ h => by cases h) (fun _ h => by cases h)
    (fun _ _ h => by cases h) ?_ trivial (fun _ h => by cases h),
    enabledG_other _ (fun _ h => by cases h) (fun _ _ _ h => by cases h)⟩
  rintro ⟨_, _, _, h⟩; cases h

/-- a vote response carrying a term above the candidate's is not counted: nothing is asked of it -/
theorem enabled_voteResult_newer (hi : i ≠ 0) (tm res : Nat) (ht : tm > (y.node i).term) :
    Commit.Enabled y i (.voteResult false tm res) 0 ∧ EnabledG y i (.voteResult false tm res) := by
  refine ⟨enabled_intro hi (fun _ h => by cases h) (fun _ h => by cases h) (fun _ h => by cases h)
    (fun _ _ h => by cases h) ?_ trivial (fun _ h => by cases h),
    enabledG_other _ (fun _ h => by cases h) (fun _ _ _ h => by cases h)⟩
  rintro ⟨_, tm', hle, h⟩
  injection h with _ h2 _
  omega

/-- the `newTerm` report with the leader's own term -/
theorem enabled_newTerm (hi : i ≠ 0) (j : Nat) :
    Commit.Enabled y i (.replUpdates [{ id := j, removed := false, upd := .newTerm (y.node i).term }]) 0 ∧
    EnabledG y i (.replUpdates [{ id := j, removed := false, upd := .newTerm (y.node i).term }]) := by
  refine ⟨enabled_intro hi (fun _ h => by cases h) (fun _ h => by cases h) (fun _ h => by cases h)
    (fun _ _ h => by cases h) ?_ ?_ ?_, ⟨?_, fun _ _ _ h => by cases h⟩⟩
  · rintro ⟨_, _, _, h⟩; cases h
  · intro u hu v hv
    rw [List.mem_singleton.mp hu] at hv; cases hv
  · intro us h u hu v hv
    injection h with h; subst h
    rw [List.mem_singleton.mp hu] at hv; cases hv
  · intro us h _ u hu _ v hv
    injection h with h; subst h
    rw [List.mem_singleton.mp hu] at hv
    injection hv with hv
    rw [← hv]; exact Nat.le_refl _

end enabled

/-! ### facts about the voter set -/

theorem numVoters_eq {V : List Nat} {x : Commit.Sys} {i : Nat} (f : Facts V x i) :
    (x.node i).configs.latest.numVoters = V.length := by
  rw [← voters_length, f.voters]

theorem quorum_ne_one {V : List Nat} {x : Commit.Sys} {i : Nat} (f : Facts V x i) (h2 : 2 ≤ V.length) :
    (x.node i).configs.latest.quorum ≠ 1 := by
  unfold Config.quorum
  rw [numVoters_eq f]
  omega

/-! ### phase A: one node becomes a follower and times out -/

section phaseA
variable {V : List Nat} {y : Commit.Sys}

/-- what a sub-run that only lets node `i` act leaves of the rest of the cluster, and of node `i` -/
structure OnlyNode (y z : Commit.Sys) (i : Nat) : Prop where
  others : ∀ j, j ≠ i → z.node j = y.node j
  keep : Keep (y.node i) (z.node i)

/-- **phase A for one node**: from any reachable state, an open voter `i` is brought — by at most two operations of
its own, exactly one of them an election timeout — to: candidate of a higher term, no leader known, nothing else
changed anywhere. (A follower just times out; a candidate first receives a vote response with a newer term; a
leader first receives the `newTerm` report of one of its replications.) -/
theorem normalize_node (hV : V.Nodup) (h2 : 2 ≤ V.length) (hy : ReachableG V y) (i : Nat) (hi0 : i ≠ 0)
    (ho : (y.node i).closed = "") (hvi : (y.node i).configs.latest.isVoter i = true) :
    ∃ ls z, Exec V y ls z ∧ ls.length ≤ 2 ∧ (∀ l ∈ ls, l.actor = i) ∧ (ls.filter Lbl.isTimeout).length ≤ 1 ∧
      OnlyNode y z i ∧ (z.node i).role = .candidate ∧ (z.node i).leader = 0 ∧
      (y.node i).term < (z.node i).term := by
  -- the timeout of a follower
  have follower : ∀ {u : Commit.Sys}, ReachableG V u → (u.node i).closed = "" → (u.node i).role = .follower →
      (u.node i).configs.latest.isVoter i = true →
      Exec V u [.step i .timeout [] [] 0] (stepC u i .timeout [] [] 0) ∧
      OnlyNode u (stepC u i .timeout [] [] 0) i ∧ ((stepC u i .timeout [] [] 0).node i).role = .candidate ∧
      ((stepC u i .timeout [] [] 0).node i).leader = 0 ∧
      (u.node i).term < ((stepC u i .timeout [] [] 0).node i).term := by
    intro u hu hou hru hvu
    have f := facts hV hu i
    obtain ⟨he, heG⟩ := enabled_timeout (y := u) hi0
    have hex := exec_step hV hu [] [] he heG hou (fun q h => by cases h)
    obtain ⟨a, b, c, d, e, k⟩ := timeout_makes_candidate (u.node i) [] [] hru f.boot
      (by rw [f.nid]; exact hvu) (quorum_ne_one f h2)
    refine ⟨hex, ⟨fun j hj => stepC_node_j i _ _ _ _ hj, ?_⟩, ?_, ?_, ?_⟩
    · rw [stepC_node_i]; exact k
    · rw [stepC_node_i]; exact a
    · rw [stepC_node_i]; exact d
    · rw [stepC_node_i, b]; exact Nat.lt_succ_self _
  cases hr : (y.node i).role with
  | follower =>
    obtain ⟨hex, on, a, b, c⟩ := follower hy ho hr hvi
    exact ⟨_, _, hex, (by show 1 ≤ 2; omega), fun l hl => by rw [List.mem_singleton.mp hl]; rfl,
      (by show 1 ≤ 1; omega), on, a, b, c⟩
  | candidate =>
    -- a vote response carrying a newer term
    have f := facts hV hy i
    obtain ⟨he, heG⟩ := enabled_voteResult_newer (y := y) hi0 ((y.node i).term + 1) rStaleTerm (Nat.lt_succ_self _)
    have hex1 := exec_step hV hy [] [] he heG ho (fun q h => by cases h)
    obtain ⟨a, b, c, d, k⟩ := voteResult_newer_term_steps_down (y.node i) [] [] ((y.node i).term + 1) rStaleTerm hr
      (Nat.lt_succ_self _)
    have hu := Exec.reachable hV hy hex1
    have eu := stepC_node_i (y := y) i (.voteResult false ((y.node i).term + 1) rStaleTerm) [] [] 0
    obtain ⟨hex2, on, a', b', c'⟩ := follower hu (by rw [eu, k.closed]; exact ho) (by rw [eu]; exact a)
      (by rw [eu, k.configs]; exact hvi)
    refine ⟨_, _, hex1.trans hex2, (by show 2 ≤ 2; omega), ?_, (by show 1 ≤ 1; omega), ⟨fun j hj => ?_, ?_⟩, a', b', ?_⟩
    · intro l hl
      rcases List.mem_append.mp hl with h | h <;> (rw [List.mem_singleton.mp h]; rfl)
    · rw [on.others j hj, stepC_node_j i _ _ _ _ hj]
    · have := on.keep
      rw [eu] at this
      exact k.trans this
    · rw [eu, b] at c'; omega
  | leader =>
    -- the `newTerm` report of a replication
    have f := facts hV hy i
    have hcache := f.good.leaderCacheOpen ho hr
    -- another voter, and its replication
    obtain ⟨j, hj⟩ : ∃ j, (y.node i).findRepl? j ≠ none := by
      have hA := f.good.glob.cfgL.2
      have hne : (y.node i).configs.latest.nodes ≠ [] := by
        intro e
        have := numVoters_eq f
        unfold Config.numVoters at this
        rw [e] at this
        have : V.length = 0 := this.symm
        omega
      obtain ⟨a, ha, b, hb, hab, _, _⟩ := (hA hne).2 rfl
      have : ∃ nd ∈ (y.node i).configs.latest.nodes, nd.id ≠ (y.node i).nid := by
        by_cases e : a.id = (y.node i).nid
        · exact ⟨b, hb, fun e' => hab (e.trans e'.symm)⟩
        · exact ⟨a, ha, e⟩
      obtain ⟨nd, hnd, hne'⟩ := this
      obtain ⟨r, hr', hrid⟩ := hcache.member_repl nd hnd hne'
      refine ⟨nd.id, ?_⟩
      unfold Node.findRepl?
      intro e
      have := List.find?_eq_none.mp e r hr'
      simp [hrid] at this
    obtain ⟨he, heG⟩ := enabled_newTerm (y := y) hi0 j
    have hex1 := exec_step hV hy [] [] he heG ho (fun q h => by cases h)
    obtain ⟨a, b, c, d, k⟩ := newTerm_report_steps_down (y.node i) [] [] j hr hj
    have hu := Exec.reachable hV hy hex1
    have eu := stepC_node_i (y := y) i
      (.replUpdates [{ id := j, removed := false, upd := .newTerm (y.node i).term }]) [] [] 0
    obtain ⟨hex2, on, a', b', c'⟩ := follower hu (by rw [eu, k.closed]; exact ho) (by rw [eu]; exact a)
      (by rw [eu, k.configs]; exact hvi)
    refine ⟨_, _, hex1.trans hex2, (by show 2 ≤ 2; omega), ?_, (by show 1 ≤ 1; omega), ⟨fun j' hj' => ?_, ?_⟩, a', b', ?_⟩
    · intro l hl
      rcases List.mem_append.mp hl with h | h <;> (rw [List.mem_singleton.mp h]; rfl)
    · rw [on.others j' hj', stepC_node_j i _ _ _ _ hj']
    · have := on.keep
      rw [eu] at this
      exact k.trans this
    · rw [eu, b] at c'; exact c'

/-- what phase A establishes for node `i`, relative to the start state `x` -/
structure ReadyA (x z : Commit.Sys) (i : Nat) : Prop where
  keep : Keep (x.node i) (z.node i)
  role : (z.node i).role = .candidate
  leader : (z.node i).leader = 0
  term : (x.node i).term < (z.node i).term

/-- **phase A**: every node of the list `L` of open voters is brought to "candidate of a higher term, no leader
known" by at most two operations of its own, one of them an election timeout; nothing else changes. -/
theorem phaseA (hV : V.Nodup) (h2 : 2 ≤ V.length) {x : Commit.Sys} (hx : ReachableG V x) (M : List Nat) :
    ∀ (L : List Nat), L.Nodup → (∀ i ∈ L, i ∈ M ∧ i ≠ 0 ∧ i ∈ V ∧ (x.node i).closed = "" ∧
        (x.node i).configs.latest.isVoter i = true) →
      ∃ ls z, Exec V x ls z ∧ RunOK M ls (2 * L.length) (fun j => if j ∈ L then 1 else 0) ∧
        (∀ j, j ∉ L → z.node j = x.node j) ∧ ∀ i ∈ L, ReadyA x z i
  | [], _, _ => ⟨[], x, .nil x, ⟨Nat.le_refl _, fun l h => absurd h List.not_mem_nil, fun _ => Nat.zero_le _⟩,
      fun _ _ => rfl, fun i h => absurd h List.not_mem_nil⟩
  | i :: L, hL, hall => by
    obtain ⟨hiL, hL'⟩ := List.nodup_cons.mp hL
    obtain ⟨ls1, z1, ex1, ok1, oth1, rd1⟩ := phaseA hV h2 hx M L hL'
      (fun j hj => hall j (List.mem_cons_of_mem _ hj))
    obtain ⟨hiM, hi0, hiV, hio, hiv⟩ := hall i (List.mem_cons_self ..)
    have hz1 := Exec.reachable hV hx ex1
    have ei : z1.node i = x.node i := oth1 i hiL
    obtain ⟨ls2, z2, ex2, len2, act2, tmo2, on2, r2, l2, t2⟩ := normalize_node hV h2 hz1 i hi0
      (by rw [ei]; exact hio) (by rw [ei]; exact hiv)
    refine ⟨ls1 ++ ls2, z2, ex1.trans ex2, ?_, ?_, ?_⟩
    · refine (ok1.append (RunOK.single hiM len2 act2 tmo2)).mono ?_ ?_
      · rw [List.length_cons]; omega
      · intro j
        by_cases hj : j = i
        · subst hj
          show (if j ∈ L then 1 else 0) + (if j = j then 1 else 0) ≤ (if j ∈ j :: L then 1 else 0)
          rw [if_neg hiL, if_pos rfl, if_pos (List.mem_cons_self ..)]
          omega
        · show (if j ∈ L then 1 else 0) + (if j = i then 1 else 0) ≤ (if j ∈ i :: L then 1 else 0)
          rw [if_neg hj]
          by_cases hjL : j ∈ L
          · rw [if_pos hjL, if_pos (List.mem_cons_of_mem _ hjL)]; omega
          · rw [if_neg hjL]; omega
    · intro j hj
      have hji : j ≠ i := fun e => hj (by rw [e]; exact List.mem_cons_self ..)
      rw [on2.others j hji]
      exact oth1 j (fun h => hj (List.mem_cons_of_mem _ h))
    · intro j hj
      rcases List.mem_cons.mp hj with e | e
      · subst e
        have k := on2.keep
        rw [ei] at k t2
        exact ⟨k, r2, l2, t2⟩
      · have hji : j ≠ i := fun e' => hiL (by rw [← e']; exact e)
        obtain ⟨a, b, c, d⟩ := rd1 j e
        rw [← on2.others j hji] at a b c d
        exact ⟨a, b, c, d⟩

end phaseA

/-! ### phase B: the chosen node catches up with the highest term and times out -/

section phaseB
variable {V : List Nat} {y : Commit.Sys}

theorem stepC_camps (i : Nat) (op : Op) (ra : List Nat) (ord : List (List Nat)) (src : Nat) :
    (stepC y i op ra ord src).camps = campOf i (y.node i) ((y.node i).step op ra ord) ++ y.camps := rfl

theorem stepC_counted (i : Nat) (op : Op) (ra : List Nat) (ord : List (List Nat)) (src : Nat) :
    (stepC y i op ra ord src).rp.el.counted = Election.countedBy i (y.node i) op src ++ y.rp.el.counted := rfl

/-- **phase B**: the candidate `w` (no leader known), whose term is at most `T0`, is brought to: candidate of term
`T0 + 1` with its own vote, campaign recorded with the coordinates of its last log entry, no vote counted yet — by
an election timeout, preceded, if its term is below `T0`, by a vote response carrying `T0`. -/
theorem phaseB (hV : V.Nodup) (h2 : 2 ≤ V.length) (hy : ReachableG V y) (w T0 : Nat) (hw0 : w ≠ 0)
    (ho : (y.node w).closed = "") (hr : (y.node w).role = .candidate) (hl : (y.node w).leader = 0)
    (hvw : (y.node w).configs.latest.isVoter w = true) (hT0 : (y.node w).term ≤ T0) :
    ∃ ls z, Exec V y ls z ∧ ls.length ≤ 2 ∧ (∀ l ∈ ls, l.actor = w) ∧ (ls.filter Lbl.isTimeout).length ≤ 1 ∧
      OnlyNode y z w ∧ (z.node w).role = .candidate ∧ (z.node w).leader = 0 ∧ (z.node w).term = T0 + 1 ∧
      (z.node w).votedFor = w ∧
      ({ cand := w, term := T0 + 1, lastIndex := (y.node w).lastLogIndex, lastTerm := (y.node w).lastLogTerm }
        : Camp) ∈ z.camps ∧
      (∀ k ∈ y.camps, k ∈ z.camps) ∧
      (∀ v, (w, T0 + 1, v) ∉ z.rp.el.counted) := by
  obtain ⟨hI, hS⟩ := inv_reachable hV (reachableG_V hy)
  have hcount0 : ∀ v, (w, T0 + 1, v) ∉ y.rp.el.counted := by
    intro v hv
    have := hI.rp.el.countedTerm _ hv
    have e : y.rp.el.node w = y.node w := rfl
    simp only at this
    rw [e] at this
    omega
  -- the timeout, from a state where `w`'s term is `T0`
  have final : ∀ {u : Commit.Sys}, ReachableG V u → (u.node w).closed = "" → (u.node w).leader = 0 →
      (u.node w).role ≠ .leader → (u.node w).term = T0 → (∀ v, (w, T0 + 1, v) ∉ u.rp.el.counted) →
      (u.node w).configs.latest.isVoter w = true →
      Exec V u [.step w .timeout [] [] 0] (stepC u w .timeout [] [] 0) ∧
      OnlyNode u (stepC u w .timeout [] [] 0) w ∧ ((stepC u w .timeout [] [] 0).node w).role = .candidate ∧
      ((stepC u w .timeout [] [] 0).node w).leader = 0 ∧ ((stepC u w .timeout [] [] 0).node w).term = T0 + 1 ∧
      ((stepC u w .timeout [] [] 0).node w).votedFor = w ∧
      ({ cand := w, term := T0 + 1, lastIndex := (u.node w).lastLogIndex, lastTerm := (u.node w).lastLogTerm }
        : Camp) ∈ (stepC u w .timeout [] [] 0).camps ∧
      (∀ k ∈ u.camps, k ∈ (stepC u w .timeout [] [] 0).camps) ∧
      (∀ v, (w, T0 + 1, v) ∉ (stepC u w .timeout [] [] 0).rp.el.counted) := by
    intro u hu hou hlu hru htu hcu hvu
    have f := facts hV hu w
    obtain ⟨he, heG⟩ := enabled_timeout (y := u) hw0
    have hex := exec_step hV hu [] [] he heG hou (fun q h => by cases h)
    have hq := quorum_ne_one f h2
    have key : ((u.node w).step .timeout [] []).role = .candidate ∧
        ((u.node w).step .timeout [] []).term = (u.node w).term + 1 ∧
        ((u.node w).step .timeout [] []).votedFor = (u.node w).nid ∧
        ((u.node w).step .timeout [] []).leader = 0 ∧ Keep (u.node w) ((u.node w).step .timeout [] []) := by
      cases hrole : (u.node w).role with
      | follower =>
        have hvt : (u.node w).configs.latest.isVoter (u.node w).nid = true := by rw [f.nid]; exact hvu
        obtain ⟨a, b, c, d, _, k⟩ := timeout_makes_candidate (u.node w) [] [] hrole f.boot hvt hq
        exact ⟨a, b, c, d, k⟩
      | candidate =>
        obtain ⟨a, b, c, d, _, k⟩ := timeout_candidate_again (u.node w) [] [] hrole hq
        exact ⟨a, b, c, d.trans hlu, k⟩
      | leader => exact absurd hrole hru
    obtain ⟨a, b, c, d, k⟩ := key
    have ei := stepC_node_i (y := u) w .timeout [] [] 0
    refine ⟨hex, ⟨fun j hj => stepC_node_j w _ _ _ _ hj, by rw [ei]; exact k⟩, by rw [ei]; exact a,
      by rw [ei]; exact d, by rw [ei, b, htu], by rw [ei, c, f.nid], ?_, ?_, ?_⟩
    · rw [stepC_camps]
      apply List.mem_append_left
      unfold campOf
      rw [if_pos ⟨by rw [b]; exact Nat.lt_succ_self _, by rw [c, f.nid]⟩, b, htu]
      exact List.mem_singleton.mpr rfl
    · intro k' hk'; rw [stepC_camps]; exact List.mem_append_right _ hk'
    · intro v hv
      rw [stepC_counted] at hv
      exact hcu v hv
  rcases Nat.lt_or_ge (y.node w).term T0 with hlt | hge
  · -- a vote response carrying `T0`
    obtain ⟨he, heG⟩ := enabled_voteResult_newer (y := y) hw0 T0 rStaleTerm hlt
    have hex1 := exec_step hV hy [] [] he heG ho (fun q h => by cases h)
    obtain ⟨a, b, c, d, k⟩ := voteResult_newer_term_steps_down (y.node w) [] [] T0 rStaleTerm hr hlt
    have hu := Exec.reachable hV hy hex1
    have eu := stepC_node_i (y := y) w (.voteResult false T0 rStaleTerm) [] [] 0
    have hcu : ∀ v, (w, T0 + 1, v) ∉ (stepC y w (.voteResult false T0 rStaleTerm) [] [] 0).rp.el.counted := by
      intro v hv
      rw [stepC_counted] at hv
      have e0 : Election.countedBy w (y.node w) (.voteResult false T0 rStaleTerm) 0 = [] := by
        unfold Election.countedBy
        dsimp only
        rw [if_neg (by intro h; exact absurd h.2.2 (by decide))]
      rw [e0] at hv
      exact hcount0 v hv
    obtain ⟨hex2, on, r', l', t', v', cmp, cmono, cnt⟩ := final hu (by rw [eu, k.closed]; exact ho)
      (by rw [eu, d]; exact hl) (by rw [eu, a]; exact fun e => by cases e) (by rw [eu]; exact b) hcu
      (by rw [eu, k.configs]; exact hvw)
    refine ⟨_, _, hex1.trans hex2, (by show 2 ≤ 2; omega), ?_, (by show 1 ≤ 1; omega), ⟨fun j hj => ?_, ?_⟩,
      r', l', t', v', ?_, ?_, cnt⟩
    · intro l hl'
      rcases List.mem_append.mp hl' with h | h <;> (rw [List.mem_singleton.mp h]; rfl)
    · rw [on.others j hj, stepC_node_j w _ _ _ _ hj]
    · have := on.keep
      rw [eu] at this
      exact k.trans this
    · rw [eu, k.lastLogIndex, k.lastLogTerm] at cmp; exact cmp
    · intro k' hk'
      exact cmono k' (by rw [stepC_camps]; exact List.mem_append_right _ hk')
  · obtain ⟨hex, on, r', l', t', v', cmp, cmono, cnt⟩ := final hy ho hl (by rw [hr]; exact fun e => by cases e)
      (by omega) hcount0 hvw
    exact ⟨_, _, hex, (by show 1 ≤ 2; omega), fun l hl' => by rw [List.mem_singleton.mp hl']; rfl,
      (by show 1 ≤ 1; omega), on, r', l', t', v', cmp, cmono, cnt⟩

end phaseB

/-! ### phase C: the other nodes grant their votes -/

section phaseC
variable {V : List Nat} {y : Commit.Sys}

theorem stepC_grants (i : Nat) (op : Op) (ra : List Nat) (ord : List (List Nat)) (src : Nat) :
    (stepC y i op ra ord src).rp.el.grants = Election.voteGrant i op ((y.node i).step op ra ord) ++
      (Election.selfGrant i (y.node i) ((y.node i).step op ra ord) ++ y.rp.el.grants) := rfl

/-- a vote request of a recorded campaign may be delivered -/
theorem enabled_vote {i : Nat} (hi : i ≠ 0) (q : VoteReq) (hs : q.src ≠ 0)
    (hc : ({ cand := q.src, term := q.term, lastIndex := q.lastLogIndex, lastTerm := q.lastLogTerm } : Camp) ∈ y.camps) :
    Commit.Enabled y i (.vote q) 0 ∧ EnabledG y i (.vote q) := by
  have h1 : ∀ q', Op.vote q = .vote q' → q'.src ≠ 0 := by
    intro q' h; injection h with h; rw [← h]; exact hs
  have h2 : Counts (y.node i) (.vote q) → Election.RealReply y.rp.el i 0 := by
    rintro ⟨_, _, _, h⟩; cases h
  have h3 : ∀ q', Op.vote q = .vote q' → q'.term < (y.node i).term ∨
      ({ cand := q'.src, term := q'.term, lastIndex := q'.lastLogIndex, lastTerm := q'.lastLogTerm } : Camp) ∈ y.camps := by
    intro q' h; injection h with h; rw [← h]; exact Or.inr hc
  exact ⟨⟨⟨hi, h1, h2, trivial, (fun _ h => by cases h)⟩,
    ⟨trivial, (fun _ h => by cases h), (fun _ _ h => by cases h)⟩, h3, (fun _ h => by cases h),
    (fun _ h => by cases h)⟩,
    enabledG_other _ (fun _ h => by cases h) (fun _ _ _ h => by cases h)⟩

/-- what phase C establishes for node `j` -/
structure VotedC (y z : Commit.Sys) (w T j : Nat) : Prop where
  keep : Keep (y.node j) (z.node j)
  role : (z.node j).role = .follower
  term : (z.node j).term = T
  grant : ({ voter := j, term := T, cand := w } : C01.Grant) ∈ z.rp.el.grants

/-- **phase C**: every node of `js` (open, no leader known, term below `T`, log not more up to date than the
campaign's coordinates `(li, lt)`) receives the vote request of the recorded campaign `(w, T, li, lt)` and grants
its vote; nothing else changes, nothing is counted. -/
theorem phaseC (hV : V.Nodup) (hy : ReachableG V y) (w T li lt : Nat) (hw0 : w ≠ 0)
    (hcamp : ({ cand := w, term := T, lastIndex := li, lastTerm := lt } : Camp) ∈ y.camps) :
    ∀ (js : List Nat), js.Nodup →
      (∀ j ∈ js, j ≠ 0 ∧ (y.node j).closed = "" ∧ (y.node j).leader = 0 ∧ (y.node j).term < T ∧
        ¬ ((y.node j).lastLogTerm > lt ∨ ((y.node j).lastLogTerm = lt ∧ (y.node j).lastLogIndex > li))) →
      ∃ ls z, Exec V y ls z ∧ ls.length ≤ js.length ∧ (∀ l ∈ ls, l.actor ∈ js) ∧ ls.filter Lbl.isTimeout = [] ∧
        (∀ i, i ∉ js → z.node i = y.node i) ∧ (∀ j ∈ js, VotedC y z w T j) ∧
        (∀ k ∈ y.camps, k ∈ z.camps) ∧ z.rp.el.counted = y.rp.el.counted ∧
        (∀ g ∈ y.rp.el.grants, g ∈ z.rp.el.grants)
  | [], _, _ => ⟨[], y, .nil y, Nat.le_refl _, fun l h => absurd h List.not_mem_nil, rfl, fun _ _ => rfl,
      fun j h => absurd h List.not_mem_nil, fun _ h => h, rfl, fun _ h => h⟩
  | j :: js, hjs, hall => by
    obtain ⟨hjn, hjs'⟩ := List.nodup_cons.mp hjs
    obtain ⟨ls1, z1, ex1, len1, act1, tm1, oth1, vt1, cm1, cn1, gr1⟩ := phaseC hV hy w T li lt hw0 hcamp js hjs'
      (fun i hi => hall i (List.mem_cons_of_mem _ hi))
    obtain ⟨hj0, hjo, hjl, hjt, hjup⟩ := hall j (List.mem_cons_self ..)
    have hz1 := Exec.reachable hV hy ex1
    have ej : z1.node j = y.node j := oth1 j hjn
    obtain ⟨he, heG⟩ := enabled_vote (y := z1) hj0
      { term := T, src := w, lastLogIndex := li, lastLogTerm := lt, transfer := false } hw0 (cm1 _ hcamp)
    have hex := exec_step hV hz1 [] [] he heG (by rw [ej]; exact hjo) (fun q h => by cases h)
    obtain ⟨a, b, c, d, k⟩ := vote_granted_when_uptodate (z1.node j) [] []
      { term := T, src := w, lastLogIndex := li, lastLogTerm := lt, transfer := false }
      (by rw [ej]; exact hjl) (by rw [ej]; exact hjt) (by rw [ej]; exact hjup)
    have ei := stepC_node_i (y := z1) j
      (.vote { term := T, src := w, lastLogIndex := li, lastLogTerm := lt, transfer := false }) [] [] 0
    have hg : ({ voter := j, term := T, cand := w } : C01.Grant) ∈
        (stepC z1 j (.vote { term := T, src := w, lastLogIndex := li, lastLogTerm := lt, transfer := false })
          [] [] 0).rp.el.grants := by
      rw [stepC_grants]
      apply List.mem_append_left
      unfold Election.voteGrant C05.grantOf
      dsimp only
      rw [if_pos a]
      exact List.mem_singleton.mpr rfl
    refine ⟨ls1 ++ [_], _, ex1.trans hex, ?_, ?_, ?_, ?_, ?_, ?_, ?_, ?_⟩
    · rw [List.length_append, List.length_cons]; exact Nat.succ_le_succ len1
    · intro l hl
      rcases List.mem_append.mp hl with h | h
      · exact List.mem_cons_of_mem _ (act1 l h)
      · rw [List.mem_singleton.mp h]; exact List.mem_cons_self ..
    · rw [List.filter_append, tm1]; rfl
    · intro i hi
      have hij : i ≠ j := fun e => hi (by rw [e]; exact List.mem_cons_self ..)
      rw [stepC_node_j j _ _ _ _ hij]
      exact oth1 i (fun h => hi (List.mem_cons_of_mem _ h))
    · intro i hi
      rcases List.mem_cons.mp hi with e | e
      · subst e
        refine ⟨?_, ?_, ?_, hg⟩
        · rw [ei, ← ej]; exact k
        · rw [ei]; exact b
        · rw [ei]; exact c
      · have hij : i ≠ j := fun e' => hjn (by rw [← e']; exact e)
        obtain ⟨k', r', t', g'⟩ := vt1 i e
        refine ⟨?_, ?_, ?_, ?_⟩
        · rw [stepC_node_j j _ _ _ _ hij]; exact k'
        · rw [stepC_node_j j _ _ _ _ hij]; exact r'
        · rw [stepC_node_j j _ _ _ _ hij]; exact t'
        · rw [stepC_grants]; exact List.mem_append_right _ (List.mem_append_right _ g')
    · intro k' hk'
      rw [stepC_camps]; exact List.mem_append_right _ (cm1 k' hk')
    · rw [stepC_counted]; exact cn1
    · intro g hg'
      rw [stepC_grants]; exact List.mem_append_right _ (List.mem_append_right _ (gr1 g hg'))

end phaseC

/-! ### phase D: the candidate counts votes until it is leader -/

section phaseD
variable {V : List Nat} {y : Commit.Sys}

theorem Elected.of_keep {a b c : Node} (k : Keep a b) (ht : b.term = a.term) (hv : b.votedFor = a.votedFor)
    (h : Elected b c) : Elected a c := by
  obtain ⟨r, t, v, n, cf, cl, ci, nw, es, e1, e2, e3⟩ := h
  exact ⟨r, t.trans ht, v.trans hv, n.trans k.nid, by rw [cf, k.configs], cl, ci.trans k.commitIndex, nw,
    es, e1, by rw [e2, k.log], fun e he => by rw [e3 e he, ht]⟩

/-- a granted vote of the current election that was not counted yet may be delivered to the candidate -/
theorem enabled_voteResult_real {w j T : Nat} (hw0 : w ≠ 0) (hT : (y.node w).term = T) (hjw : j ≠ w)
    (hv : (y.node w).configs.latest.isVoter j = true)
    (hg : ({ voter := j, term := T, cand := w } : C01.Grant) ∈ y.rp.el.grants)
    (hc : (w, T, j) ∉ y.rp.el.counted) :
    Commit.Enabled y w (.voteResult false T rSuccess) j ∧ EnabledG y w (.voteResult false T rSuccess) := by
  have h2 : Counts (y.node w) (.voteResult false T rSuccess) → Election.RealReply y.rp.el w j := by
    intro _
    have e : y.rp.el.node w = y.node w := rfl
    exact ⟨hjw, by rw [e]; exact hv, by rw [e, hT]; exact hg, by rw [e, hT]; exact hc⟩
  exact ⟨⟨⟨hw0, (fun _ h => by cases h), h2, trivial, (fun _ h => by cases h)⟩,
    ⟨trivial, (fun _ h => by cases h), (fun _ _ h => by cases h)⟩, (fun _ h => by cases h),
    (fun _ h => by cases h), (fun _ h => by cases h)⟩,
    enabledG_other _ (fun _ h => by cases h) (fun _ _ _ h => by cases h)⟩

/-- **phase D**: the candidate `w` of term `T`, which still needs `k + 1` votes and has at least that many granted,
uncounted votes of other voters (`rem`) waiting, counts `k + 1` of them and is leader (`Elected`); nothing else
changes. -/
theorem phaseD (hV : V.Nodup) (h2 : 2 ≤ V.length) (w T : Nat) (hw0 : w ≠ 0) :
    ∀ (k : Nat) (u : Commit.Sys) (rem : List Nat), ReachableG V u → (u.node w).role = .candidate →
      (u.node w).term = T → (u.node w).closed = "" → (u.node w).votesNeeded = ((k + 1 : Nat) : Int) →
      rem.Nodup → k + 1 ≤ rem.length →
      (∀ j ∈ rem, j ≠ w ∧ (u.node w).configs.latest.isVoter j = true ∧
        ({ voter := j, term := T, cand := w } : C01.Grant) ∈ u.rp.el.grants ∧ (w, T, j) ∉ u.rp.el.counted) →
      ∃ ls z, Exec V u ls z ∧ ls.length = k + 1 ∧ (∀ l ∈ ls, l.actor = w) ∧ ls.filter Lbl.isTimeout = [] ∧
        (∀ i, i ≠ w → z.node i = u.node i) ∧ Elected (u.node w) (z.node w)
  | k, u, [], _, _, _, _, _, _, hlen, _ => absurd hlen (by simp)
  | k, u, j :: rem, hu, hr, hT, ho, hvn, hnd, hlen, hall => by
    obtain ⟨hjn, hnd'⟩ := List.nodup_cons.mp hnd
    obtain ⟨hjw, hjv, hjg, hjc⟩ := hall j (List.mem_cons_self ..)
    have f := facts hV hu w
    obtain ⟨he, heG⟩ := enabled_voteResult_real (y := u) hw0 hT hjw hjv hjg hjc
    have hex := exec_step hV hu [] [] he heG ho (fun q h => by cases h)
    have ei := stepC_node_i (y := u) w (.voteResult false T rSuccess) [] [] j
    cases k with
    | zero =>
      have hel := majority_of_grants_makes_leader (u.node w) [] [] T hr (by rw [hT]; exact Nat.le_refl _)
        (by rw [hvn]; rfl) f.nwf f.lwf f.wf f.stable (by rw [f.nid]; exact f.good.glob.cand hr |> fun h => by rw [f.nid] at h; exact h)
        (by rw [f.voters]; exact hV) (by rw [numVoters_eq f]; exact h2) ho
      refine ⟨_, _, hex, rfl, fun l hl => by rw [List.mem_singleton.mp hl]; rfl, rfl,
        fun i hi => stepC_node_j w _ _ _ _ hi, ?_⟩
      rw [ei]; exact hel
    | succ k =>
      obtain ⟨a, b, c, d, e, kp⟩ := voteResult_counts (u.node w) [] [] T hr (by rw [hT]; exact Nat.le_refl _)
        (by rw [hvn]; omega)
      have hu' := Exec.reachable hV hu hex
      have hcnt : (stepC u w (.voteResult false T rSuccess) [] [] j).rp.el.counted = (w, T, j) :: u.rp.el.counted := by
        rw [stepC_counted, Election.countedBy_counts w (u.node w) _ j ⟨hr, T, by rw [hT]; exact Nat.le_refl _, rfl⟩, hT]
        rfl
      obtain ⟨ls2, z, ex2, len2, act2, tm2, oth2, el2⟩ := phaseD hV h2 w T hw0 k
        (stepC u w (.voteResult false T rSuccess) [] [] j) rem hu' (by rw [ei]; exact a) (by rw [ei, b]; exact hT)
        (by rw [ei, kp.closed]; exact ho) (by rw [ei, e, hvn]; omega) hnd'
        (by rw [List.length_cons] at hlen; omega)
        (fun j' hj' => by
          obtain ⟨h1, h2', h3, h4⟩ := hall j' (List.mem_cons_of_mem _ hj')
          refine ⟨h1, by rw [ei, kp.configs]; exact h2', ?_, ?_⟩
          · rw [stepC_grants]; exact List.mem_append_right _ (List.mem_append_right _ h3)
          · rw [hcnt]
            intro hm
            rcases List.mem_cons.mp hm with e' | e'
            · injection e' with _ e'
              injection e' with _ e'
              exact hjn (by rw [← e']; exact hj')
            · exact h4 e')
      refine ⟨[Lbl.step w (.voteResult false T rSuccess) [] [] j] ++ ls2, z, hex.trans ex2,
        by rw [List.length_append, len2]; show 1 + (k + 1) = _; omega, ?_, ?_, ?_, ?_⟩
      · intro l hl
        rcases List.mem_append.mp hl with h | h
        · rw [List.mem_singleton.mp h]; rfl
        · exact act2 l h
      · rw [List.filter_append, tm2]; rfl
      · intro i hi
        rw [oth2 i hi, stepC_node_j w _ _ _ _ hi]
      · rw [ei] at el2
        exact Elected.of_keep kp b c el2

end phaseD

end Progress
end Raft
