/-
The invariant of the cluster system with installation of snapshots (Sys/Snap3.lean), part d: a node that INSTALLED a
snapshot — by the completed handler, or by a restart from a disk that holds the received snapshot file — replaces the
old one (`SnapInst.sinv_replace`).
-/
import RaftVerif.Lemmas.SnapInst3c

namespace Raft
namespace SnapInst3
open Node Election LogRel Replication CommitRel Commit C02Sys C03Sys SnapRel SnapRelU SnapSim Snap Snap2 SnapInv SnapInv2
open SnapInst SnapInstU Snap3 SnapFrame

/-! ### the node after an installation -/

/-- **the node `post` holds the snapshot of the install request `q` and nothing else**: what the completed discard branch
of `onInstallSnapRequest` leaves of the node `s`, and what a restart from a disk with the received file yields -/
structure Installed (s : Node) (q : InstallReq) (post : Node) : Prop where
  log : post.log = NLog.reset q.lastIndex
  lastI : post.lastLogIndex = q.lastIndex
  lastT : post.lastLogTerm = q.lastTerm
  snapI : post.snapIndex = q.lastIndex
  snapT : post.snapTerm = q.lastTerm
  commit : post.commitIndex = q.lastIndex
  fsm : post.fsm = { index := q.lastIndex, term := q.lastTerm, applied := q.data, config := q.lastConfig }
  files : post.snapsDisk = insertSnap (C09.fileOf q) s.snapsDisk ∨
    post.snapsDisk = (insertSnap (C09.fileOf q) s.snapsDisk).take s.retain
  role : post.role = .follower
  nid : post.nid = s.nid
  tv : (post.term = s.term ∧ post.votedFor = s.votedFor) ∨ (s.term < post.term ∧ post.votedFor = 0)
  termGe : q.term ≤ post.term
  vwf : C05.VoteWF post
  retain : 1 ≤ post.retain
  res : ∀ rs, post.snapResult = some rs → rs.index ≤ q.lastIndex
  trace : ∀ pt ∈ post.trace, pt.2.log.prev = q.lastIndex ∨ pt.2.log.prev = s.log.prev

theorem iobs_eq {a b : Node} (h : iobs a = iobs b) :
    (a.log = b.log ∧ a.lastLogIndex = b.lastLogIndex ∧ a.lastLogTerm = b.lastLogTerm ∧ a.snapIndex = b.snapIndex ∧
      a.snapTerm = b.snapTerm ∧ a.snapsDisk = b.snapsDisk) ∧
    (a.term = b.term ∧ a.votedFor = b.votedFor ∧ a.durTerm = b.durTerm ∧ a.durVote = b.durVote) ∧
    (a.commitIndex = b.commitIndex ∧ a.fsm = b.fsm ∧ a.configs = b.configs) ∧
    (a.trace = b.trace ∧ a.cid = b.cid ∧ a.nid = b.nid ∧ a.retain = b.retain) ∧
    (a.role = b.role ∧ a.panicked = b.panicked) ∧ (a.snapPending = b.snapPending ∧ a.snapResult = b.snapResult) := by
  unfold iobs at h
  simp only [Prod.mk.injEq] at h
  obtain ⟨⟨h1, h2, h3, h4, h5, h6⟩, ⟨h7, h8, h9, h10⟩, ⟨h11, h12, h13⟩, ⟨h14, h15, h16, h17, _⟩, ⟨h18, h19, _, _⟩,
    ⟨h20, h21, _, _⟩⟩ := h
  exact ⟨⟨h1, h2, h3, h4, h5, h6⟩, ⟨h7, h8, h9, h10⟩, ⟨h11, h12, h13⟩, ⟨h14, h15, h16, h17⟩, ⟨h18, h19⟩, ⟨h20, h21⟩⟩

/-- the completed `.install` step and the handler agree on everything but the reply and what a role release touches -/
theorem install_step_eqs (s : Node) (q : InstallReq) (ra : List Nat) (ord : List (List Nat)) :
    ((s.step (.install q) ra ord).log = ((s.begin ra ord).onInstallSnap q).log ∧
      (s.step (.install q) ra ord).lastLogIndex = ((s.begin ra ord).onInstallSnap q).lastLogIndex ∧
      (s.step (.install q) ra ord).lastLogTerm = ((s.begin ra ord).onInstallSnap q).lastLogTerm ∧
      (s.step (.install q) ra ord).snapIndex = ((s.begin ra ord).onInstallSnap q).snapIndex ∧
      (s.step (.install q) ra ord).snapTerm = ((s.begin ra ord).onInstallSnap q).snapTerm ∧
      (s.step (.install q) ra ord).snapsDisk = ((s.begin ra ord).onInstallSnap q).snapsDisk) ∧
    ((s.step (.install q) ra ord).term = ((s.begin ra ord).onInstallSnap q).term ∧
      (s.step (.install q) ra ord).votedFor = ((s.begin ra ord).onInstallSnap q).votedFor ∧
      (s.step (.install q) ra ord).durTerm = ((s.begin ra ord).onInstallSnap q).durTerm ∧
      (s.step (.install q) ra ord).durVote = ((s.begin ra ord).onInstallSnap q).durVote) ∧
    ((s.step (.install q) ra ord).commitIndex = ((s.begin ra ord).onInstallSnap q).commitIndex ∧
      (s.step (.install q) ra ord).fsm = ((s.begin ra ord).onInstallSnap q).fsm ∧
      (s.step (.install q) ra ord).configs = ((s.begin ra ord).onInstallSnap q).configs) ∧
    ((s.step (.install q) ra ord).trace = ((s.begin ra ord).onInstallSnap q).trace ∧
      (s.step (.install q) ra ord).cid = ((s.begin ra ord).onInstallSnap q).cid ∧
      (s.step (.install q) ra ord).nid = ((s.begin ra ord).onInstallSnap q).nid ∧
      (s.step (.install q) ra ord).retain = ((s.begin ra ord).onInstallSnap q).retain) ∧
    ((s.step (.install q) ra ord).role = ((s.begin ra ord).onInstallSnap q).role ∧
      (s.step (.install q) ra ord).panicked = ((s.begin ra ord).onInstallSnap q).panicked) ∧
    ((s.step (.install q) ra ord).snapPending = ((s.begin ra ord).onInstallSnap q).snapPending ∧
      (s.step (.install q) ra ord).snapResult = ((s.begin ra ord).onInstallSnap q).snapResult) := by
  have h := iobs_eq (install_step_iobs s q ra ord)
  exact h

theorem publishSnapshot_more (p : Node) (f : SnapFile) :
    (p.publishSnapshot f).snapResult = p.snapResult ∧ (p.publishSnapshot f).retain = p.retain := ⟨rfl, rfl⟩

theorem installPre_tv (s : Node) (q : InstallReq) :
    (¬ s.term < q.term ∧ (installPre s q).term = s.term ∧ (installPre s q).votedFor = s.votedFor) ∨
    (s.term < q.term ∧ (installPre s q).term = q.term ∧ (installPre s q).votedFor = 0) := by
  unfold installPre
  by_cases h : q.term > s.term
  · rw [if_pos h]
    right
    show s.term < q.term ∧ (s.setTerm q.term).term = _ ∧ (s.setTerm q.term).votedFor = _
    unfold Node.setTerm
    rw [if_pos (by omega), if_pos h]
    exact ⟨h, rfl, rfl⟩
  · rw [if_neg h]; exact Or.inl ⟨h, rfl, rfl⟩

theorem discardTail_tv (p : Node) (c : Config) :
    (C09.discardTail p c).term = p.term ∧ (C09.discardTail p c).votedFor = p.votedFor ∧
    (C09.discardTail p c).retain = p.retain ∧ (C09.discardTail p c).snapResult = p.snapResult := by
  unfold C09.discardTail
  rw [commitConfig_eq, changeConfigR_eq, fsmRestore_eq]
  exact ⟨rfl, rfl, rfl, rfl⟩

theorem snapsWF_of (s : Node) (hs : SnapOK s) : C09.SnapsWF s := by
  refine ⟨hs.files.sorted, fun g hg => ?_, by rw [hs.head]; exact hs.files.head_le⟩
  rw [hs.head]
  unfold headOf
  rw [hg]; rfl

/-- **the completed installation**: the state after the step is `Installed` -/
theorem installed_of_step (s : Node) (q : InstallReq) (ra : List Nat) (ord : List (List Nat)) (hi : Installs s q)
    (hwf : C09.SnapsWF s) (hr : 1 ≤ s.retain) (hvw : C05.VoteWF s)
    (hres : ∀ rs, s.snapResult = some rs → rs.index ≤ s.snapIndex) (hsc : s.snapIndex ≤ s.commitIndex) :
    Installed s q (s.step (.install q) ra ord) := by
  obtain ⟨hterm, hahead, hk⟩ := hi
  obtain ⟨⟨a1, a2, a3, a4, a5, a6⟩, ⟨b1, b2, _, _⟩, ⟨c1, c2, _⟩, ⟨d1, _, d3, d4⟩, ⟨e1, _⟩, ⟨_, f2⟩⟩ :=
    install_step_eqs s q ra ord
  have hb1 : ¬ q.term < (s.begin ra ord).term := hterm
  have hb2 : (s.begin ra ord).commitIndex < q.lastIndex := hahead
  have hb3 : C09.keepsLog (s.begin ra ord) q = false := hk
  have hbw : C09.SnapsWF (s.begin ra ord) := ⟨hwf.sorted, hwf.head, hwf.le_commit⟩
  obtain ⟨g1, g2, g3, g4, g5, g6, _, _, g9, _⟩ := C09.install_snapshot_discard (s.begin ra ord) q hb1 hb2 hb3
  obtain ⟨k1, _, _⟩ := C09.install_discard_restore_ok (s.begin ra ord) q hb1 hb2 hb3 hr hbw
  have hshape := C09.install_discard_shape (s.begin ra ord) q hb1 hb2 hb3
  obtain ⟨t1, t2, t3, t4⟩ := discardTail_tv ((installPre (s.begin ra ord) q).publishSnapshot (C09.fileOf q)) q.lastConfig
  rw [← hshape] at t1 t2 t3 t4
  have sd := sameData_installPre (s.begin ra ord) q
  have htr := C10.install_discard_script (s.begin ra ord) q hb1 hb2 hb3
  have hvs := C05.step_vote_stable s (.install q) ra ord hvw
  refine ⟨a1.trans g1, a2.trans g2, a3.trans g3, a4.trans g4, a5.trans g5, c1.trans g6, c2.trans k1, Or.inr (a6.trans g9),
    ?_, ?_, ?_, ?_, hvs.2.1, ?_, ?_, ?_⟩
  · rw [e1]; exact install_role _ q hb1
  · rw [d3, hshape, (discardTail_dur _ _).2.2.2]
    exact sd.nid
  · rw [b1, b2]
    show (((s.begin ra ord).onInstallSnap q).term = s.term ∧ ((s.begin ra ord).onInstallSnap q).votedFor = s.votedFor) ∨
      (s.term < ((s.begin ra ord).onInstallSnap q).term ∧ ((s.begin ra ord).onInstallSnap q).votedFor = 0)
    rw [t1, t2]
    rcases installPre_tv (s.begin ra ord) q with ⟨_, h1, h2⟩ | ⟨h0, h1, h2⟩
    · exact Or.inl ⟨h1, h2⟩
    · right
      have h0' : s.term < q.term := h0
      exact ⟨by show s.term < (installPre (s.begin ra ord) q).term; rw [h1]; exact h0', h2⟩
  · rw [b1]
    show q.term ≤ ((s.begin ra ord).onInstallSnap q).term
    rw [t1]
    rcases installPre_tv (s.begin ra ord) q with ⟨h0, h1, _⟩ | ⟨_, h1, _⟩
    · show q.term ≤ (installPre (s.begin ra ord) q).term
      rw [h1]
      have : ¬ s.term < q.term := h0
      have h3 : (s.begin ra ord).term = s.term := rfl
      omega
    · show q.term ≤ (installPre (s.begin ra ord) q).term
      rw [h1]; exact Nat.le_refl _
  · rw [d4]
    show 1 ≤ ((s.begin ra ord).onInstallSnap q).retain
    rw [t3, (publishSnapshot_more _ _).2, sd.retain]
    exact hr
  · intro rs hrs
    rw [f2] at hrs
    have hrs' : ((s.begin ra ord).onInstallSnap q).snapResult = some rs := hrs
    rw [t4, (publishSnapshot_more _ _).1, sd.snapResult] at hrs'
    have := hres rs hrs'
    omega
  · intro pt hpt
    rw [d1] at hpt
    have hpt' : pt ∈ ((s.begin ra ord).onInstallSnap q).trace := hpt
    rw [htr] at hpt'
    have hpl : (installPre (s.begin ra ord) q).durable.log.prev = s.log.prev := by
      show (installPre (s.begin ra ord) q).log.prev = s.log.prev
      rw [sd.log]; rfl
    simp only [List.mem_append, List.mem_cons, List.not_mem_nil, or_false] at hpt'
    rcases hpt' with (h | h) | h | h | h
    · cases h
    · right
      unfold C10.preTrace at h
      split at h
      · simp only [List.mem_cons, List.not_mem_nil, or_false] at h
        rw [h]; rfl
      · cases h
    · right; rw [h]; exact hpl
    · right; rw [h]; exact hpl
    · left; rw [h]; rfl

/-- **the restart from a disk that holds the received file**: the restarted node is `Installed` -/
theorem installed_of_restart (s : Node) (q : InstallReq) (hi : Installs s q) (hprev : s.log.prev ≤ s.commitIndex)
    (hr : 1 ≤ s.retain) (hh : ∀ g, s.snapsDisk.head? = some g → g.index ≤ q.lastIndex) (hvw : C05.VoteWF s)
    (d : Durable) (hdn : d.nid = s.nid) (hlog : d.log = s.durable.log ∨ d.log = NLog.reset q.lastIndex)
    (hsn : d.snaps = insertSnap (C09.fileOf q) s.snapsDisk ∨
      d.snaps = (insertSnap (C09.fileOf q) s.snapsDisk).take s.retain)
    (htv : (s.term < q.term ∧ d.term = q.term ∧ d.vote = 0) ∨ (¬ s.term < q.term ∧ d.term = s.durTerm ∧ d.vote = s.durVote))
    (r : Nat) (hr' : 1 ≤ r) (sor : Bool) (n : Node) (hn : Node.restart d r sor = some n) : Installed s q n := by
  obtain ⟨a1, a2, a3, a4, a5, a6, a7, _, a9, a10, a11, a12, _⟩ :=
    install_crash_restart_installed s q hi hprev hr hh d hlog hsn r sor n hn
  obtain ⟨v1, v2, v3, v4⟩ := C10.restart_term_vote d r sor n hn
  obtain ⟨_, _, _, w4⟩ := restart_snapTerm d r sor n hn
  obtain ⟨_, _, _, hne⟩ := C10.restart_some d r sor n hn
  have hnid : n.nid = d.nid := by
    rw [hne]
    split
    · show (restartNode d r sor).fsmRestore.nid = _
      rw [fsmRestore_eq]; rfl
    · rfl
  obtain ⟨s1, s2, s3, _⟩ := restart_shape d r sor n hn
  refine ⟨a1, a2, a3, a4, a5, a6, a7, by rw [a9]; exact hsn, a10, ?_, ?_, ?_, ⟨v3, v4⟩, by rw [w4]; exact hr', ?_, ?_⟩
  · rw [hnid]; exact hdn
  · rw [a11, a12]
    rcases htv with ⟨h0, h1, h2⟩ | ⟨h0, h1, h2⟩
    · right; rw [h1, h2]; exact ⟨h0, rfl⟩
    · left; rw [h1, h2]; exact ⟨hvw.1, hvw.2⟩
  · rw [a11]
    rcases htv with ⟨_, h1, _⟩ | ⟨h0, h1, _⟩
    · rw [h1]; exact Nat.le_refl _
    · rw [h1, hvw.1]
      have := hi.1
      omega
  · intro rs hrs; rw [s2] at hrs; cases hrs
  · intro pt hpt; rw [s3] at hpt; cases hpt

end SnapInst3
end Raft
