/-
Delayed compaction (`leader.checkLogCompact`), part B — what the step with a batch of updates leaves alone, and the
un-compacted node after the compaction.

* `StepClosedNC.updPre_inv`, `stepNC_inv` — a predicate closed under the primitives of the operations that do not
  compact (Lemmas/StepInvNC.lean) holds in the state in which `checkReplUpdates` decides about the compaction and after
  the step without the compaction, whatever the batch contains.
* `TK c k e0` — the first index of the log (`c`), the snapshot index (`k`), the entries up to the snapshot index and a
  weak well-formedness of the segment list (`WSegs`: it starts at the first index and lies within the log) are kept by
  those primitives; `wsegs_compact` — what `RemoveLTE` does to a log with such a segment list.
* `updFin_removeLTE` — what follows the compaction decision keeps the leader's compaction bound.
* `snapStep_relog` — the un-compacted node with a compacted log is the un-compacted node before, flushed and with its
  segments regrouped (`SnapInv.SnapStep`).
-/
import RaftVerif.Lemmas.SnapDelayA
import RaftVerif.Lemmas.SnapInv2

namespace Raft
namespace Node
namespace StepClosedNC
open SnapDelay

variable {Inv : Node → Prop} (h : StepClosedNC Inv)
include h

theorem updPre_inv (s : Node) (us : List ReplUpdate) (hs : Inv s) : Inv (updPre s us) := by
  unfold updPre
  dsimp only
  have h1 : Inv (replUpdLoop s {} us).1 := h.replUpdLoop_inv _ _ _ hs
  have h2 : Inv (if (replUpdLoop s {} us).2.matchU = true then onMajorityCommit (fuelFor 0) (replUpdLoop s {} us).1
      else (replUpdLoop s {} us).1) := by
    split
    · exact h.onMajorityCommit_inv _ _ h1
    · exact h1
  split
  · exact h.checkQuorum_inv _ h2
  · exact h2

theorem updFin_inv (f : UpdFlags) (a : Node) (hs : Inv a) : Inv (updFin f a) := by
  unfold updFin updTail
  apply h.settle_inv
  split
  · exact h.tryTransfer_inv _ hs
  · exact hs

theorem stepNC_inv (s : Node) (us : List ReplUpdate) (ra : List Nat) (ord : List (List Nat)) (hs : Inv s) :
    Inv (stepNC s us ra ord) := by
  unfold stepNC
  have hb := h.begin s ra ord hs
  split
  · split
    · exact h.settle_inv _ _ _ (h.replUpdLoop_inv _ _ _ hb)
    · exact h.updFin_inv _ _ (h.updPre_inv _ _ hb)
  · exact hb

end StepClosedNC
end Node

namespace SnapDelay
open Node SnapRelP SnapRelU SnapSim SnapInv SnapInv2

/-! ### the entries up to the snapshot index and the segment list -/

/-- the segment list starts at the first index of the log and lies within the log -/
structure WSegs (l : NLog) : Prop where
  head : l.segs.head? = some l.prev
  bnd : ∀ x ∈ l.segs, l.prev ≤ x ∧ x ≤ l.last

theorem wsegs_of_segsOK {l : NLog} (h : C09.SegsOK l) : WSegs l := by
  refine ⟨h.head, fun x hx => ⟨?_, h.le_last x hx⟩⟩
  have hh := h.head
  cases hs : l.segs with
  | nil => rw [hs] at hh; cases hh
  | cons a t =>
    rw [hs] at hh hx
    have ha : a = l.prev := by simpa using hh
    rcases List.mem_cons.mp hx with e | e
    · omega
    · have := (List.pairwise_cons.mp (hs ▸ h.sorted)).1 x e
      omega

/-- the first index of the log is `c`, the snapshot index `k`, the entries up to the snapshot index are `e0`, the
segment list is weakly well formed -/
def TK (c k : Nat) (e0 : List Entry) (s : Node) : Prop :=
  s.log.prev = c ∧ s.snapIndex = k ∧ s.log.entries.take (k - c) = e0 ∧ k - c ≤ s.log.entries.length ∧ WSegs s.log

variable {c k : Nat} {e0 : List Entry}

theorem TK_congr {s s' : Node} (h : TK c k e0 s) (e1 : s'.log = s.log) (e2 : s'.snapIndex = s.snapIndex) :
    TK c k e0 s' := by
  unfold TK
  rw [e1, e2]; exact h

theorem TK_panic (s : Node) (site : String) (h : TK c k e0 s) : TK c k e0 (s.panic site) := by
  unfold Node.panic; split
  · exact TK_congr h rfl rfl
  · exact h

theorem TK_point (s : Node) (n : String) (h : TK c k e0 s) : TK c k e0 (s.point n) := TK_congr h rfl rfl

theorem TK_storeTermVote (s : Node) (t v : Nat) (h : TK c k e0 s) : TK c k e0 (s.storeTermVote t v) := by
  unfold Node.storeTermVote
  dsimp only
  split
  · exact TK_congr h rfl rfl
  · exact TK_congr h rfl rfl

theorem TK_setVotedFor (s : Node) (t v : Nat) (h : TK c k e0 s) : TK c k e0 (s.setVotedFor t v) := by
  unfold Node.setVotedFor
  repeat' split
  all_goals first | exact h | exact TK_storeTermVote _ _ _ h | exact TK_panic _ _ h

theorem wsegs_append {l : NLog} (e : Entry) (roll : Bool) (h : WSegs l) : WSegs (l.append e roll) := by
  have hlast : l.last ≤ (l.append e roll).last := by
    unfold NLog.append NLog.last
    split <;> (dsimp only; rw [List.length_append]; omega)
  have hprev : (l.append e roll).prev = l.prev := by unfold NLog.append; split <;> rfl
  cases roll with
  | false =>
    refine ⟨?_, fun x hx => ?_⟩
    · rw [hprev]; exact h.head
    · rw [hprev]
      have := h.bnd x hx
      exact ⟨this.1, Nat.le_trans this.2 hlast⟩
  | true =>
    have hsegs : (l.append e true).segs = l.segs ++ [l.last] := rfl
    refine ⟨?_, fun x hx => ?_⟩
    · rw [hprev, hsegs]
      have hh := h.head
      cases hs : l.segs with
      | nil => rw [hs] at hh; cases hh
      | cons a t => rw [hs] at hh; exact hh
    · rw [hprev]
      rw [hsegs] at hx
      rcases List.mem_append.mp hx with a | a
      · have := h.bnd x a
        exact ⟨this.1, Nat.le_trans this.2 hlast⟩
      · have : x = l.last := List.mem_singleton.mp a
        rw [this]
        exact ⟨by unfold NLog.last; omega, hlast⟩

theorem wsegs_commitN {l : NLog} (n : Nat) (h : WSegs l) : WSegs (l.commitN n) := by
  unfold NLog.commitN
  split
  · exact ⟨h.head, h.bnd⟩
  · exact h

theorem wsegs_removeGTE {l : NLog} (i k : Nat) (h : WSegs l) (hk : l.prev ≤ k) (hi : k < i) :
    WSegs (l.removeGTE i) := by
  have hprev : (l.removeGTE i).prev = l.prev := rfl
  have hlast : (l.removeGTE i).last = l.prev + min (i - 1 - l.prev) l.entries.length := by
    unfold NLog.last NLog.removeGTE
    dsimp only
    rw [List.length_take]
  have hsegs : (l.removeGTE i).segs =
      if (l.segs.filter (· < i - 1)).isEmpty then [i - 1] else l.segs.filter (· < i - 1) := rfl
  obtain ⟨hh, hb⟩ := h
  cases hs : l.segs with
  | nil => rw [hs] at hh; cases hh
  | cons a t =>
    rw [hs] at hh hb
    have ha : a = l.prev := by simpa using hh
    by_cases hlt : l.prev < i - 1
    · -- the head is kept
      have hf : (a :: t).filter (· < i - 1) = a :: t.filter (· < i - 1) := by
        rw [List.filter_cons, if_pos (by rw [ha]; simpa using hlt)]
      refine ⟨?_, fun x hx => ?_⟩
      · rw [hsegs, hs, hf]
        show (some a : Option Nat) = some (l.removeGTE i).prev
        rw [ha, hprev]
      · rw [hsegs, hs, hf] at hx
        have hx' : x ∈ (a :: t).filter (· < i - 1) := by rw [hf]; exact hx
        obtain ⟨hm, hlt'⟩ := List.mem_filter.mp hx'
        have hlt'' : x < i - 1 := by simpa using hlt'
        have := hb x hm
        rw [hprev, hlast]
        unfold NLog.last at this
        exact ⟨this.1, by omega⟩
    · -- the log starts at `i - 1`: nothing is kept
      have he : l.prev = i - 1 := by omega
      have hf : (a :: t).filter (· < i - 1) = [] := by
        apply List.filter_eq_nil_iff.mpr
        intro x hx
        have := (hb x hx).1
        simp only [decide_eq_true_eq]
        omega
      refine ⟨?_, fun x hx => ?_⟩
      · rw [hsegs, hs, hf]
        show (some (i - 1) : Option Nat) = some (l.removeGTE i).prev
        rw [hprev, he]
      · rw [hsegs, hs, hf] at hx
        have : x = i - 1 := List.mem_singleton.mp hx
        rw [hprev, hlast, this, ← he]
        exact ⟨Nat.le_refl _, Nat.le_add_right _ _⟩

theorem TK_closed (c k : Nat) (hck : c ≤ k) (e0 : List Entry) : StepClosedNC (TK c k e0) where
  panic := fun s site h => TK_panic s site h
  reply := fun s t r h => by unfold Node.reply; split <;> first | exact h | exact TK_congr h rfl rfl
  point := fun s name h => TK_point s name h
  ldr := fun s l h => TK_congr h rfl rfl
  append := fun s e roll h => by
    obtain ⟨h1, h2, h3, h4, h5⟩ := h
    have hprev : (s.log.append e roll).prev = s.log.prev := by unfold NLog.append; split <;> rfl
    have hent : (s.log.append e roll).entries = s.log.entries ++ [e] := by unfold NLog.append; split <;> rfl
    refine ⟨by show (s.log.append e roll).prev = c; rw [hprev]; exact h1, h2, ?_, ?_, wsegs_append e roll h5⟩
    · show (s.log.append e roll).entries.take (k - c) = e0
      rw [hent, List.take_append_of_le_length h4]; exact h3
    · show k - c ≤ (s.log.append e roll).entries.length
      rw [hent, List.length_append]; omega
  commitN := fun s n h => by
    obtain ⟨h1, h2, h3, h4, h5⟩ := h
    have hprev : (s.log.commitN n).prev = s.log.prev := by unfold NLog.commitN; split <;> rfl
    have hent : (s.log.commitN n).entries = s.log.entries := by unfold NLog.commitN; split <;> rfl
    refine ⟨by show (s.log.commitN n).prev = c; rw [hprev]; exact h1, h2, ?_, ?_, wsegs_commitN n h5⟩
    · show (s.log.commitN n).entries.take (k - c) = e0
      rw [hent]; exact h3
    · show k - c ≤ (s.log.commitN n).entries.length
      rw [hent]; exact h4
  fsm := fun s f h => TK_congr h rfl rfl
  changeConfigR := fun s cf h => by unfold Node.changeConfigR; dsimp only; split <;> exact TK_congr h rfl rfl
  setCommitIndexR := fun s i h _ => by
    unfold Node.setCommitIndexR Node.afterConfigCommit Node.closeIfRemoved Node.stepDownIfNotVoter Node.commitConfig
      Node.doClose
    dsimp only
    repeat' split
    all_goals exact TK_congr h rfl rfl
  popOrder := fun s h => TK_congr h rfl rfl
  begin := fun s ra ord h => TK_congr h rfl rfl
  rpcReply := fun s r h => TK_congr h rfl rfl
  ret := fun s r h => TK_congr h rfl rfl
  setRole := fun s r h => TK_congr h rfl rfl
  setLeader := fun s l h => TK_congr h rfl rfl
  doClose := fun s r h => by unfold Node.doClose; split <;> first | exact h | exact TK_congr h rfl rfl
  setTerm := fun s t h => by
    unfold Node.setTerm
    repeat' split
    all_goals first | exact h | exact TK_storeTermVote _ _ _ h | exact TK_panic _ _ h
  voteNewTerm := fun s t cd h _ => TK_setVotedFor s t cd h
  voteGrant := fun s cd h _ => TK_setVotedFor s _ cd h
  votesNeeded := fun s v h => TK_congr h rfl rfl
  candTransfer := fun s v h => TK_congr h rfl rfl
  removeGTE := fun s i pt h hi => by
    obtain ⟨h1, h2, h3, h4, h5⟩ := h
    have hi' : k < i := by rw [← h2]; exact hi
    refine ⟨h1, h2, ?_, ?_, wsegs_removeGTE i k h5 (by rw [h1]; exact hck) hi'⟩
    · show (s.log.entries.take (i - 1 - s.log.prev)).take (k - c) = e0
      rw [List.take_take, h1, Nat.min_eq_left (by omega)]
      exact h3
    · show k - c ≤ (s.log.entries.take (i - 1 - s.log.prev)).length
      rw [List.length_take, h1]
      omega
  revertConfig := fun s h => TK_congr h rfl rfl
  commitConfig := fun s h => by unfold Node.commitConfig; dsimp only; split <;> exact TK_congr h rfl rfl
  snapPending := fun s v h => TK_congr h rfl rfl
  bootstrapLast := fun s i t h => TK_congr h rfl rfl

/-! ### what `RemoveLTE` does to a log with a weakly well-formed segment list -/

theorem wsegs_compact {l : NLog} (R : Nat) (h : WSegs l) :
    l.prev ≤ (l.removeLTE R).prev ∧ (l.removeLTE R).prev ≤ l.last ∧
    ((l.removeLTE R).prev = l.prev ∨ (l.removeLTE R).prev ≤ R) ∧
    (l.removeLTE R).entries = l.entries.drop ((l.removeLTE R).prev - l.prev) ∧
    (l.removeLTE R).flushed = l.last ∧ (l.removeLTE R).last = l.last := by
  obtain ⟨hh, hb⟩ := h
  cases hs : l.segs with
  | nil => rw [hs] at hh; cases hh
  | cons a t =>
    rw [hs] at hh hb
    have ha : a = l.prev := by simpa using hh
    obtain ⟨x, tl, e, suf, hx⟩ := dropLTE_cons_cases R a t
    have hc : (l.removeLTE R).prev = x := by
      rw [C09.removeLTE_prev]; unfold NLog.canLTE; rw [hs, e]; rfl
    have hmem : x ∈ a :: t := suf.subset (List.mem_cons_self ..)
    have hbx := hb x hmem
    have hlast : (l.removeLTE R).last = l.last := by
      unfold NLog.last at hbx ⊢
      rw [hc, C09.removeLTE_entries, List.length_drop]
      have : l.canLTE R = x := hc
      rw [this]
      omega
    refine ⟨by rw [hc]; exact hbx.1, by rw [hc]; exact hbx.2, ?_, rfl, rfl, hlast⟩
    rw [hc]
    rcases hx with hx | hx
    · left; omega
    · right; exact hx

/-! ### what follows the compaction decision keeps the leader's compaction bound -/

theorem removeLTE_reply (s : Node) (t : Nat) (r : String) : (s.reply t r).ldr = s.ldr := by
  unfold Node.reply; split <;> rfl

theorem ldr_foldl_replyT (err : String) (xs : List Nat) :
    ∀ (a : Node), (xs.foldl (fun s t => s.reply t err) a).ldr = a.ldr := by
  induction xs with
  | nil => intro a; rfl
  | cons x xs ih => intro a; rw [List.foldl_cons, ih, removeLTE_reply]

theorem ldr_foldl_replyQ (err : String) (xs : List QItem) :
    ∀ (a : Node), (xs.foldl (fun s q => s.reply q.task err) a).ldr = a.ldr := by
  induction xs with
  | nil => intro a; rfl
  | cons x xs ih => intro a; rw [List.foldl_cons, ih, removeLTE_reply]

theorem removeLTE_tryTransfer (s : Node) : s.tryTransfer.ldr.removeLTE = s.ldr.removeLTE := by
  unfold Node.tryTransfer Node.panic
  dsimp only
  repeat' split
  all_goals rfl

theorem removeLTE_leaderReleaseRest (x : Node) : x.leaderReleaseRest.ldr.removeLTE = x.ldr.removeLTE := by
  unfold Node.leaderReleaseRest
  extract_lets s1 err s2 s3
  show s3.ldr.removeLTE = x.ldr.removeLTE
  have e3 : s3.ldr = s2.ldr := ldr_foldl_replyT err _ s2
  have e2 : s2.ldr = s1.ldr := ldr_foldl_replyQ err _ s1
  have e1 : s1.ldr = x.ldr := by unfold s1; split <;> rfl
  rw [e3, e2, e1]

theorem removeLTE_leaderRelease (s : Node) : s.leaderRelease.ldr.removeLTE = s.ldr.removeLTE := by
  unfold Node.leaderRelease
  rw [removeLTE_leaderReleaseRest]
  split
  · unfold Node.transferReply
    show ((s.reply s.ldr.transfer.task s.releaseResult).ldr).removeLTE = _
    rw [removeLTE_reply]
  · rfl

theorem updFin_removeLTE (f : UpdFlags) (a : Node) (h : a.role ≠ .candidate) :
    (updFin f a).ldr.removeLTE = a.ldr.removeLTE := by
  unfold updFin
  have h1 : (updTail f a).role ≠ .candidate := by rw [role_updTail]; exact h
  have h2 : (updTail f a).ldr.removeLTE = a.ldr.removeLTE := by
    unfold updTail
    split
    · exact removeLTE_tryTransfer a
    · rfl
  rw [settle_leader _ h1]
  split
  · exact h2
  · rw [removeLTE_leaderRelease, h2]

/-! ### the un-compacted node after the compaction -/

/-- the un-compacted node with another log that un-compacts to the same entries, flushed further: a step that only
flushes / regroups the log (`SnapInv.SnapStep`) -/
theorem snapStep_relog (β β' : List Entry) (z : Node) (L : NLog) (T : List (String × Durable))
    (hent : (uncLog β' L).entries = (uncLog β z.log).entries) (hfl : z.log.flushed ≤ L.flushed)
    (hwf : C06.LogWF (uncLog β' L)) (hok : SnapOK (U β z)) :
    SnapStep (U β z) (U β' (relog z L T)) := by
  refine ⟨⟨rfl, rfl, rfl, rfl, rfl, hent, rfl, hfl, fun _ => hwf, rfl, rfl, rfl, rfl, rfl, rfl⟩, rfl, ?_,
    Nat.le_refl _, fun g hg => Or.inl hg⟩
  refine ⟨hok.retain, ?_, hok.head, hok.le⟩
  show FilesOK (uncLog β' L).entries z.commitIndex z.snapsDisk
  rw [hent]
  exact hok.files

/-- the compacted-away prefix after a compaction: the first entries of the un-compacted log -/
theorem take_unc_congr (β : List Entry) (l l' : NLog) (p n : Nat) (hp : l'.prev = l.prev) (hpn : p ≤ l.prev + n)
    (ht : l'.entries.take n = l.entries.take n) :
    (uncLog β l').entries.take p = (uncLog β l).entries.take p := by
  show (pad β l'.prev ++ l'.entries).take p = (pad β l.prev ++ l.entries).take p
  rw [hp, List.take_append, List.take_append, pad_length]
  congr 1
  have e1 : l'.entries.take (p - l.prev) = (l'.entries.take n).take (p - l.prev) := by
    rw [List.take_take, Nat.min_eq_left (by omega)]
  have e2 : l.entries.take (p - l.prev) = (l.entries.take n).take (p - l.prev) := by
    rw [List.take_take, Nat.min_eq_left (by omega)]
  rw [e1, e2, ht]

end SnapDelay
end Raft
