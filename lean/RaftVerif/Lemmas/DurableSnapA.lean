/-
Durability of committed entries on the cluster systems WITH snapshots (`Raft.Snap3` / `Raft.Snap4`) — helper lemmas for
Props/C06Snap.lean, part A: the notions and the per-state argument.

* `Covers l snaps ref k`  — the log `l` together with the snapshot files `snaps` DURABLY COVERS the first `k` entries of
                             the reference sequence `ref`: every index `l.prev < k' ≤ k` is answered by `l.get?` with the
                             very entry `ref` holds there, and what `l` no longer holds (`≤ l.prev`) is at or below the
                             index of the newest snapshot file;
* `KeepsS y v ref k`      — node `v` of state `y` covers them with its DURABLE log (`Node.durable`: the flushed part)
                             and the snapshot files on its disk; its virtual log agrees with `ref` up to `k`;
* `cover_state`           — from the invariant `Inv3`: whoever acknowledged a ledger entry `m` in `m`'s term covers every
                             prefix of every root path through an ancestor of `m`;
* `CrashAt y v d n y'`    — `RestartSys.CrashOf` with the disk image `d` the process left exposed;
* `cover_restart`         — what the restarted node covers, the disk image it restarted from covers
                             (`Covers (C10.logOf d) d.snaps`: `C10.logOf d` is the log `openStorage` works with — `d.log`
                             unless it is stale, i.e. in the F18 window under a newly published snapshot).
-/
import RaftVerif.Props.C10Sys2
import RaftVerif.Props.C06Sys

namespace Raft
namespace DurableSnap
open Node Election LogRel Replication CommitRel Commit C02Sys C03Sys SnapRel SnapRelU SnapSim Snap Snap2 SnapInv SnapInv2
open SnapInst Snap3 SnapInst3 Snap4 SnapInst4 RestartSys DurableRel

/-! ### the notions -/

/-- **the log `l` and the snapshot files `snaps` cover the first `k` entries of `ref`**: `Log.Get(k')` returns the very
entry `ref` holds at `k'` for every `l.prev < k' ≤ k`, and the indexes the log no longer holds (`≤ l.prev`) are at or
below the index of the newest snapshot file -/
structure Covers (l : NLog) (snaps : List SnapFile) (ref : List Entry) (k : Nat) : Prop where
  log : ∀ k', l.prev < k' → k' ≤ k → l.get? k' = ref[k' - 1]? ∧ (ref[k' - 1]?).isSome = true
  snap : l.prev ≤ (headOf snaps).index

/-- the two cases of the statement of C06: the entry at `k` is in the log (with everything between `l.prev` and `k`), or
the newest snapshot file has an index `≥ k` -/
theorem Covers.cases {l : NLog} {snaps : List SnapFile} {ref : List Entry} {k : Nat} (h : Covers l snaps ref k) :
    (l.prev < k ∧ ∃ e, l.get? k = some e ∧ ref[k - 1]? = some e) ∨ k ≤ (headOf snaps).index := by
  by_cases hk : l.prev < k
  · left
    obtain ⟨h1, h2⟩ := h.log k hk (Nat.le_refl _)
    cases he : ref[k - 1]? with
    | none => rw [he] at h2; cases h2
    | some e => exact ⟨hk, e, by rw [h1, he], rfl⟩
  · right
    exact Nat.le_trans (Nat.le_of_not_lt hk) h.snap

theorem Covers.mono {l : NLog} {snaps : List SnapFile} {ref : List Entry} {k k' : Nat} (h : Covers l snaps ref k)
    (hk : k' ≤ k) : Covers l snaps ref k' :=
  ⟨fun j h1 h2 => h.log j h1 (Nat.le_trans h2 hk), h.snap⟩

/-- what the durable image covers, the log covers -/
theorem Covers.of_durable {l : NLog} {snaps : List SnapFile} {ref : List Entry} {k : Nat}
    (h : Covers l.durable snaps ref k) : Covers l snaps ref k := by
  refine ⟨fun k' h1 h2 => ?_, h.snap⟩
  obtain ⟨a, b⟩ := h.log k' h1 h2
  refine ⟨?_, b⟩
  cases he : ref[k' - 1]? with
  | none => rw [he] at b; cases b
  | some e =>
    rw [he] at a
    exact SnapInst.durable_get? l k' e a

/-- `Covers` only looks at `prev` and `entries` of the log -/
theorem Covers.congr {l l' : NLog} {snaps : List SnapFile} {ref : List Entry} {k : Nat} (h : Covers l snaps ref k)
    (hp : l'.prev = l.prev) (he : l'.entries = l.entries) : Covers l' snaps ref k := by
  refine ⟨fun k' h1 h2 => ?_, by rw [hp]; exact h.snap⟩
  rw [hp] at h1
  have := h.log k' h1 h2
  unfold NLog.get? at this ⊢
  rw [hp, he]
  exact this

/-- below `flushed` the durable image answers what the log answers -/
theorem durable_get_flushed (l : NLog) (k : Nat) (h1 : l.prev < k) (h2 : k ≤ l.flushed) : l.durable.get? k = l.get? k := by
  unfold NLog.get?
  have hp : l.durable.prev = l.prev := rfl
  have he : l.durable.entries = l.entries.take (l.flushed - l.prev) := rfl
  rw [hp, if_pos h1, if_pos h1, he, List.getElem?_take, if_pos (by omega)]

/-- **node `v` of state `y` keeps the first `k` entries of `ref` durably**: its log is flushed up to `k` at least, its
VIRTUAL log (compacted-away / installed prefix put back) agrees with `ref` at every index `1 ≤ k' ≤ k`, and its disk —
the flushed part of the log and the snapshot files — covers them -/
structure KeepsS (y : Snap3.Sys) (v : Nat) (ref : List Entry) (k : Nat) : Prop where
  flushed : k ≤ (y.node v).log.flushed
  virt : ∀ k', 1 ≤ k' → k' ≤ k → (y.vlog v)[k' - 1]? = ref[k' - 1]?
  disk : Covers (y.node v).durable.log (y.node v).durable.snaps ref k

theorem KeepsS.mono {y : Snap3.Sys} {v : Nat} {ref : List Entry} {k k' : Nat} (h : KeepsS y v ref k) (hk : k' ≤ k) :
    KeepsS y v ref k' :=
  ⟨Nat.le_trans hk h.flushed, fun j h1 h2 => h.virt j h1 (Nat.le_trans h2 hk), h.disk.mono hk⟩

/-! ### the per-state argument -/

section state
variable {V : List Nat} {y : Snap3.Sys}

/-- **whoever acknowledged a ledger entry `m` in `m`'s term keeps every root path through an ancestor of `m`** -/
theorem cover_state (hI : Inv3 V y) {m : Nat × Nat} (hm : m ∈ y.s2.cs.committed) {a : Ack} (ha : a ∈ y.s2.cs.acks)
    (hat : a.term = m.2) (hanc : Anc y.s2.cs.T m a.key) {ref : List Entry} (hp : Path y.s2.cs.T ref) {k τ : Nat}
    (hh : Holds ref k τ) (hkm : Anc y.s2.cs.T (k, τ) m) : KeepsS y a.voter ref k := by
  have hc : CInv V (eview (view3 y).cs) := hI.sinv.cinv
  have hd : DurHolds ((eview (view3 y).cs).node a.voter) m := acker_durHolds hc hm ha hat hanc
  have hfl : m.1 ≤ (y.node a.voter).log.flushed := hd.1
  have hmv : Holds (y.vlog a.voter) m.1 m.2 := hd.2
  have hkv : Holds (y.vlog a.voter) k τ := log_holds_anc hc a.voter hkm hmv
  have hle : k ≤ m.1 := hkm.1
  have hpv : Path y.s2.cs.T (y.vlog a.voter) := log_path hc a.voter
  have agree : ∀ k', 1 ≤ k' → k' ≤ k → (y.vlog a.voter)[k' - 1]? = ref[k' - 1]? :=
    fun k' h1 h2 => path_agree (uniq hc) hpv hp hkv hh k' h1 h2
  have so : SnapOK (y.vnode a.voter) := hI.sinv.snap a.voter
  refine ⟨Nat.le_trans hle hfl, agree, fun k' h1 h2 => ?_, ?_⟩
  · have h1' : (y.node a.voter).log.prev < k' := h1
    have e1 : (y.node a.voter).durable.log.get? k' = (y.node a.voter).log.get? k' :=
      durable_get_flushed _ k' h1' (by omega)
    rw [e1, C09Sys3.get_virtual3 y a.voter k' h1', C09Sys3.vget3 y a.voter k' (by omega), agree k' (by omega) h2]
    refine ⟨rfl, ?_⟩
    have : k' - 1 < ref.length := by have := hh.2.1; omega
    rw [List.getElem?_eq_getElem this]; rfl
  · show (y.node a.voter).log.prev ≤ (headOf (y.node a.voter).snapsDisk).index
    have : (y.node a.voter).snapIndex = (headOf (y.node a.voter).snapsDisk).index := so.head
    rw [← this]
    exact (hI.prev a.voter).le

/-- the acknowledging majority of a ledger entry keeps every root path through an ancestor of it -/
theorem cover_quorum (hI : Inv3 V y) {m : Nat × Nat} (hm : m ∈ y.s2.cs.committed) {Q : List Nat}
    (hQ : AckQuorum V (eview (view3 y).cs) m Q) {ref : List Entry} (hp : Path y.s2.cs.T ref) {k τ : Nat}
    (hh : Holds ref k τ) (hkm : Anc y.s2.cs.T (k, τ) m) {v : Nat} (hv : v ∈ Q) : KeepsS y v ref k := by
  obtain ⟨a, ha, a1, a2, a3⟩ := hQ.2.2.2 v hv
  have := cover_state hI hm ha a2 a3 hp hh hkm
  rwa [a1] at this

/-- what lies within a node's commit index: its virtual log holds it, it is an ancestor of a ledger entry, and that
entry has an acknowledging majority -/
theorem committed_quorum (hI : Inv3 V y) {j k : Nat} (hk : 1 ≤ k) (hkc : k ≤ (y.node j).commitIndex) :
    Path y.s2.cs.T (y.vlog j) ∧ Holds (y.vlog j) k (termAt (y.vlog j) k) ∧
    ∃ m ∈ y.s2.cs.committed, m.2 ≤ (y.node j).term ∧ Anc y.s2.cs.T (k, termAt (y.vlog j) k) m ∧
      ∃ Q, AckQuorum V (eview (view3 y).cs) m Q := by
  have hc : CInv V (eview (view3 y).cs) := hI.sinv.cinv
  obtain ⟨h1, m, hm, h2, h3⟩ := covered_committed hc (j := j) hk hkc
  exact ⟨log_path hc j, h1, m, hm, h2, h3, ackQuorum_exists hc hm⟩

end state

/-! ### crashes -/

/-- **`y'` is the state after node `i` of `x` died leaving the disk `d` and restarted from it as `n`** — `RestartSys.CrashOf`
with the disk image exposed: a crash at the point `k` of an enabled operation of stage 2 (premises of `Snap4.Trans.crash`:
the completed step would not panic, `Snap3.NoCut`, the log on disk is not stale) or at the point `k` of the install handler
(premises of `Snap4.Trans.crashInstall`) -/
inductive CrashAt (x : Snap3.Sys) (i : Nat) : Durable → Node → Snap3.Sys → Prop
  | op (n : Node) (op : Op) (ra : List Nat) (ord : List (List Nat)) (src k retain : Nat) (sor : Bool) :
      Snap.Enabled x.s2.cs i op src → 1 ≤ retain →
      ((x.node i).step op ra ord).panicked = none → NoCut (x.node i) op →
      staleLog (C05.crashDisk (x.node i) op ra ord k) = false →
      Node.restart (C05.crashDisk (x.node i) op ra ord k) retain sor = some n →
      CrashAt x i (C05.crashDisk (x.node i) op ra ord k) n { x with s2 := crashS x.s2 i op n }
  | install (n : Node) (m : SnapMsg) (ra : List Nat) (ord : List (List Nat)) (k retain : Nat) (sor : Bool) :
      i ≠ 0 → (m.q.term < (x.node i).term ∨ m ∈ x.sentSnaps) → 1 ≤ retain →
      ((x.node i).step (.install m.q) ra ord).panicked = none →
      ((C05.crashDisk (x.node i) (.install m.q) ra ord k).snaps = (x.node i).snapsDisk →
        staleLog (C05.crashDisk (x.node i) (.install m.q) ra ord k) = false) →
      Node.restart (C05.crashDisk (x.node i) (.install m.q) ra ord k) retain sor = some n →
      CrashAt x i (C05.crashDisk (x.node i) (.install m.q) ra ord k) n
        (crashInstS x i m (C05.crashDisk (x.node i) (.install m.q) ra ord k) n)

theorem CrashAt.crashOf {x y : Snap3.Sys} {i : Nat} {d : Durable} {n : Node} (h : CrashAt x i d n y) :
    CrashOf x i n y ∧ ∃ retain sor, Node.restart d retain sor = some n := by
  cases h with
  | op n' o ra ord src k retain sor en hret hp hnc hst hn =>
    exact ⟨.op o ra ord src k retain sor en hret hp hnc hst hn, retain, sor, hn⟩
  | install n' m ra ord k retain sor hi hm hret hp hold hn =>
    exact ⟨.install m ra ord k retain sor hi hm hret hp hold hn, retain, sor, hn⟩

/-- the log and the snapshot files of a restarted node are those `openStorage` found -/
theorem restart_log_files (d : Durable) (r : Nat) (sor : Bool) (n : Node) (h : Node.restart d r sor = some n) :
    n.log.prev = (C10.logOf d).prev ∧ n.log.entries = (C10.logOf d).entries ∧ n.log.flushed = (C10.logOf d).last ∧
    n.snapsDisk = d.snaps := by
  obtain ⟨_, _, _, hl, _, _, hs⟩ := C10.restart_fsm d r sor n h
  have e := (C10.restartNode_fields d r sor).2.2.1
  rw [e] at hl
  rw [hl]
  exact ⟨rfl, rfl, rfl, hs⟩

/-- **what the restarted node covers, the disk it restarted from covers** — with the log `openStorage` works with -/
theorem cover_restart {d : Durable} {r : Nat} {sor : Bool} {n : Node} (h : Node.restart d r sor = some n)
    {ref : List Entry} {k : Nat} (hc : Covers n.log n.snapsDisk ref k) : Covers (C10.logOf d) d.snaps ref k := by
  obtain ⟨a, b, _, c⟩ := restart_log_files d r sor n h
  rw [c] at hc
  exact hc.congr a.symm b.symm

/-- … and if that log is not stale, it is the log on disk -/
theorem logOf_not_stale (d : Durable) (h : staleLog d = false) : C10.logOf d = d.log := by
  unfold C10.logOf
  rw [h]; rfl

/-- if the log on disk is stale, the newest snapshot file alone covers what the restarted node covers -/
theorem cover_stale {d : Durable} (h : staleLog d = true) {ref : List Entry} {k : Nat}
    (hc : Covers (C10.logOf d) d.snaps ref k) : k ≤ (headOf d.snaps).index := by
  have e : C10.logOf d = NLog.reset (C10.snapOf d).index := by
    unfold C10.logOf
    rw [h]; rfl
  rcases hc.cases with ⟨_, e', he, _⟩ | h'
  · rw [e] at he
    unfold NLog.get? NLog.reset at he
    dsimp only at he
    split at he
    · simp at he
    · cases he
  · exact h'

end DurableSnap
end Raft
