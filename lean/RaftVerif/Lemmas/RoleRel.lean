/-
Role transitions of one node over `Node.step`, for EVERY operation: who can become candidate or leader,
and how `term`, `votedFor`, `votesNeeded` move when that happens (`role_step`).

`StepClosed` (Lemmas/StepInv.lean) has unconditional `setRole`/`withVotesNeeded`/`setTerm` fields, so facts
that depend on the role are not instances of it. This file provides

* `GClosed Inv` — a guarded variant: the role may only be set to `follower`, the term/vote may only change
  while the role is `follower` (or together with the step down), `votesNeeded` is never written. Every
  handler that contains no promotion (everything except `followerTimeout`, `onTimeoutNow`, `bootstrap`,
  `startElection`, `onVoteResult`) preserves a `GClosed` predicate;
* `Down b` — the instance: relative to `b`, the node identity is unchanged, the term did not decrease and
  either (role, term, votesNeeded) are those of `b` or the node is now a follower;
* the five promoting handlers, by hand; `handle_rel` (every case of `handle`), `settle_rel` (the role
  transitions after the handler) and the composition `role_step`.
-/
import RaftVerif.Lemmas.StepInv
import RaftVerif.Lemmas.Frame

namespace Raft
namespace Node

/-- Guarded closure: like `StepClosed`, but the role is only ever lowered to follower, the term and the
vote only change in a follower (or together with the step down), and `votesNeeded` is not written. -/
structure GClosed (Inv : Node → Prop) : Prop extends Closed Inv where
  rpcReply : ∀ (s : Node) r, Inv s → Inv (s.withRpcReply r)
  ret : ∀ (s : Node) r, Inv s → Inv (s.ret r)
  setLeader : ∀ (s : Node) l, Inv s → Inv (s.setLeader l)
  doClose : ∀ (s : Node) r, Inv s → Inv (s.doClose r)
  candTransfer : ∀ (s : Node) v, Inv s → Inv (s.withCandTransfer v)
  removeGTE : ∀ (s : Node) i pt, Inv s →
    Inv { s with log := s.log.removeGTE i, lastLogIndex := i - 1, lastLogTerm := pt }
  removeLTE : ∀ (s : Node) i, Inv s → Inv { s with log := s.log.removeLTE i }
  clearLog : ∀ (s : Node), Inv s →
    Inv { s with log := NLog.reset s.snapIndex, lastLogIndex := s.snapIndex, lastLogTerm := s.snapTerm }
  revertConfig : ∀ (s : Node), Inv s → Inv s.revertConfig
  commitConfig : ∀ (s : Node), Inv s → Inv s.commitConfig
  publishSnapshot : ∀ (s : Node) f, Inv s → Inv (s.publishSnapshot f)
  installCommit : ∀ (s : Node), Inv s → s.snapIndex > s.commitIndex → Inv (s.withCommitIndex s.snapIndex)
  snapPending : ∀ (s : Node) v, Inv s → Inv (s.withSnapPending v)
  snapResult : ∀ (s : Node) v, Inv s → Inv (s.withSnapResult v)
  /-- step down -/
  toFollower : ∀ (s : Node), Inv s → Inv (s.setRole .follower)
  /-- `setTerm` in a follower -/
  setTermF : ∀ (s : Node) t, Inv s → s.role = .follower → Inv (s.setTerm t)
  /-- `setTerm` immediately followed by the step down (append entries / install snapshot) -/
  termThenFollower : ∀ (s : Node) t, Inv s → Inv ((s.setTerm t).setRole .follower)
  /-- `setVotedFor` in a follower -/
  voteF : ∀ (s : Node) t c, Inv s → s.role = .follower → Inv (s.setVotedFor t c)
  /-- `setVotedFor` granting the vote in the current term while no vote was cast yet -/
  voteGrant : ∀ (s : Node) c, Inv s → s.votedFor = 0 → Inv (s.setVotedFor s.term c)

namespace GClosed

variable {Inv : Node → Prop} (h : GClosed Inv)
include h

theorem storeEntry_g (f : Nat) (s : Node) (b) (hs : Inv s) : Inv (storeEntry f s b) := (h.toClosed.block f).1 s b hs
theorem doChangeConfig_g (f : Nat) (s : Node) (t c) (hs : Inv s) : Inv (doChangeConfig f s t c) :=
  (h.toClosed.block f).2.2.2.1 s t c hs
theorem checkConfigActions_g (f : Nat) (s : Node) (t c) (hs : Inv s) : Inv (checkConfigActions f s t c) :=
  (h.toClosed.block f).2.2.2.2.1 s t c hs
theorem checkConfigAction_g (f : Nat) (s : Node) (t c id) (hs : Inv s) : Inv (checkConfigAction f s t c id) :=
  (h.toClosed.block f).2.2.2.2.2.1 s t c id hs
theorem onMajorityCommit_g (f : Nat) (s : Node) (hs : Inv s) : Inv (onMajorityCommit f s) :=
  (h.toClosed.block f).2.2.2.2.2.2.2 s hs

theorem removeGTE_g (s : Node) (i pt : Nat) (hs : Inv s) : Inv (s.removeGTE i pt) := by
  unfold Node.removeGTE; exact h.point _ _ (h.removeGTE _ _ _ hs)

theorem compactLog_g (s : Node) (i : Nat) (hs : Inv s) : Inv (s.compactLog i) := by
  unfold Node.compactLog; exact h.point _ _ (h.removeLTE _ _ hs)

theorem clearLog_g (s : Node) (hs : Inv s) : Inv s.clearLog := by
  unfold Node.clearLog; exact h.point _ _ (h.clearLog _ hs)

theorem applyCommitted_g (s : Node) (hs : Inv s) : Inv s.applyCommitted := by
  unfold Node.applyCommitted; exact h.toClosed.fsmApply_inv _ _ hs

theorem checkQuorum_g (s : Node) (hs : Inv s) : Inv s.checkQuorum := by
  unfold Node.checkQuorum; dsimp only
  repeat' split
  all_goals first
    | exact hs
    | exact h.panic _ _ hs
    | exact h.setLeader _ _ (h.toFollower _ hs)
    | exact h.setLeader _ _ (h.toFollower _ (h.panic _ _ hs))

theorem transferReply_g (s : Node) (r : String) (hs : Inv s) : Inv (s.transferReply r) := by
  unfold Node.transferReply; exact h.ldr _ _ (h.reply _ _ _ hs)

theorem tryTransfer_g (s : Node) (hs : Inv s) : Inv s.tryTransfer := by
  unfold Node.tryTransfer; dsimp only
  have hp := h.popOrder s hs
  repeat' split
  all_goals first
    | exact hs
    | exact hp
    | exact h.panic _ _ hs
    | exact h.panic _ _ hp
    | exact h.ldr _ _ hs
    | exact h.ldr _ _ hp
    | exact h.ldr _ _ (h.panic _ _ hs)
    | exact h.ldr _ _ (h.panic _ _ hp)

theorem onTransfer_g (s : Node) (t g : Nat) (hs : Inv s) : Inv (s.onTransfer t g) := by
  unfold Node.onTransfer; dsimp only
  split
  · exact h.reply _ _ _ hs
  · exact h.tryTransfer_g _ (h.ldr _ _ hs)

theorem replyTransfer_g (s : Node) (r : String) (hs : Inv s) : Inv (s.replyTransfer r) := by
  unfold Node.replyTransfer; exact h.checkConfigActions_g _ _ _ _ (h.transferReply_g _ _ hs)

theorem onTimeoutNowResult_g (s : Node) (src : Nat) (e : Bool) (r : Nat) (hs : Inv s) :
    Inv (s.onTimeoutNowResult src e r) := by
  unfold Node.onTimeoutNowResult
  extract_lets l0 t0 s1 s2 l1 t1
  have h0 : Inv s1 := h.ldr _ _ hs
  have h2 : Inv s2 := by
    unfold s2
    split
    · split
      · exact h.toClosed.setRepl_inv _ _ h0
      · exact h0
    · exact h.panic _ _ h0
  split
  · split
    · exact h.tryTransfer_g _ h2
    · exact h2
  · split
    · split
      · exact h.replyTransfer_g _ _ h0
      · exact h.tryTransfer_g _ h0
    · exact h.ldr _ _ h0

theorem leaderInit_g (s : Node) (hs : Inv s) : Inv s.leaderInit := by
  unfold Node.leaderInit; dsimp only
  apply h.storeEntry_g
  apply h.checkConfigActions_g
  apply Closed.foldl_inv
  · intro s x hs
    split
    · exact hs
    · exact h.toClosed.addReplication_inv _ _ hs
  · exact h.ldr _ _ (h.toClosed.assert_inv _ _ _ hs)

theorem leaderRelease_g (s : Node) (hs : Inv s) : Inv s.leaderRelease := by
  unfold Node.leaderRelease Node.leaderReleaseRest; dsimp only
  apply h.ldr
  apply Closed.foldl_inv _ (fun s t hs => h.reply _ _ _ hs)
  apply Closed.foldl_inv _ (fun s t hs => h.reply _ _ _ hs)
  repeat' split
  all_goals first
    | exact hs
    | exact h.setLeader _ _ hs
    | exact h.transferReply_g _ _ hs
    | exact h.setLeader _ _ (h.transferReply_g _ _ hs)

theorem releaseRole_g (s : Node) (r : Role) (hs : Inv s) : Inv (s.releaseRole r) := by
  unfold Node.releaseRole
  split
  · exact hs
  · exact h.candTransfer _ _ hs
  · exact h.leaderRelease_g _ hs

omit h in
theorem setRole_follower_role (s : Node) : (s.setRole .follower).role = .follower := rfl

theorem onVoteRequest_g (s : Node) (q : VoteReq) (hs : Inv s) : Inv (s.onVoteRequest q) := by
  unfold Node.onVoteRequest
  split
  · exact h.ret _ _ hs
  · split
    · exact h.ret _ _ hs
    · rename_i hlt
      have hge : q.term ≥ s.term := Nat.le_of_not_lt hlt
      extract_lets vf tm s1
      by_cases hgt : q.term > s.term
      · have e1 : vf = 0 := by unfold vf; simp [hgt]
        have e2 : tm = q.term := by unfold tm; simp [hgt]
        have e3 : s1 = s.setRole .follower := by unfold s1; simp [hgt]
        have hn := fun c => h.voteF (s.setRole .follower) q.term c (h.toFollower _ hs) rfl
        simp only [e1, e2, e3]
        repeat' split
        all_goals first | exact h.ret _ _ (hn _) | exact absurd rfl ‹_›
      · have e3 : s1 = s := by unfold s1; simp [hgt]
        have e1 : vf = s.votedFor := by unfold vf; simp [hgt]
        have e2 : tm = s.term := by unfold tm; simp [hgt]
        simp only [e1, e2, e3]
        split
        · rw [StepClosed.setVotedFor_same]; exact h.ret _ _ hs
        · rename_i hv
          have hv' : s.votedFor = 0 := by simpa using hv
          split
          · rw [StepClosed.setVotedFor_same]; exact h.ret _ _ hs
          · exact h.ret _ _ (h.voteGrant _ _ hs hv')

end GClosed

/-- One backward step for goals `Inv (…)` under a `GClosed` predicate. -/
syntax "g_step " term : tactic
macro_rules
  | `(tactic| g_step $h) => `(tactic| first
      | assumption
      | with_reducible apply GClosed.ret $h
      | with_reducible apply GClosed.removeGTE_g $h
      | with_reducible apply GClosed.compactLog_g $h
      | with_reducible apply GClosed.clearLog_g $h
      | with_reducible apply GClosed.applyCommitted_g $h
      | with_reducible apply GClosed.checkQuorum_g $h
      | with_reducible apply GClosed.tryTransfer_g $h
      | with_reducible apply GClosed.onTransfer_g $h
      | with_reducible apply GClosed.replyTransfer_g $h
      | with_reducible apply GClosed.transferReply_g $h
      | with_reducible apply GClosed.onTimeoutNowResult_g $h
      | with_reducible apply GClosed.storeEntry_g $h
      | with_reducible apply GClosed.doChangeConfig_g $h
      | with_reducible apply GClosed.checkConfigActions_g $h
      | with_reducible apply GClosed.checkConfigAction_g $h
      | with_reducible apply GClosed.onMajorityCommit_g $h
      | with_reducible apply GClosed.releaseRole_g $h
      | with_reducible apply GClosed.onVoteRequest_g $h
      | with_reducible apply Closed.appendEntry_inv (GClosed.toClosed $h)
      | with_reducible apply Closed.commitLog_inv (GClosed.toClosed $h)
      | with_reducible apply Closed.assert_inv (GClosed.toClosed $h)
      | with_reducible apply Closed.fsmApply_inv (GClosed.toClosed $h)
      | with_reducible apply Closed.setRepl_inv (GClosed.toClosed $h)
      | with_reducible apply Closed.notifyFlr_inv (GClosed.toClosed $h)
      | with_reducible apply Closed.panic (GClosed.toClosed $h)
      | with_reducible apply Closed.reply (GClosed.toClosed $h)
      | with_reducible apply Closed.point (GClosed.toClosed $h)
      | with_reducible apply Closed.changeConfigR (GClosed.toClosed $h)
      | with_reducible apply Closed.setCommitIndexR (GClosed.toClosed $h)
      | with_reducible apply Closed.ldr (GClosed.toClosed $h)
      | with_reducible apply Closed.fsm (GClosed.toClosed $h)
      | with_reducible apply GClosed.termThenFollower $h
      | with_reducible apply GClosed.toFollower $h
      | with_reducible apply GClosed.setLeader $h
      | with_reducible apply GClosed.doClose $h
      | with_reducible apply GClosed.revertConfig $h
      | with_reducible apply GClosed.commitConfig $h
      | with_reducible apply GClosed.publishSnapshot $h
      | with_reducible apply GClosed.installCommit $h
      | with_reducible apply GClosed.snapPending $h
      | with_reducible apply GClosed.snapResult $h
      | with_reducible apply GClosed.candTransfer $h
      | with_reducible apply GClosed.rpcReply $h
      | split)

syntax "g_auto " term : tactic
macro_rules
  | `(tactic| g_auto $h) => `(tactic| repeat' (g_step $h))

namespace GClosed
variable {Inv : Node → Prop} (h : GClosed Inv)
include h

theorem resolveConflict_g (s : Node) (ne : Entry) (pt : Nat) (hs : Inv s) : Inv (s.resolveConflict ne pt) := by
  unfold Node.resolveConflict
  dsimp only
  g_auto h

theorem appendLoop_g (st : AppLoop) (es : List Entry) (hs : Inv st.s) : Inv (appendLoop st es).s := by
  induction es generalizing st with
  | nil => exact hs
  | cons ne rest ih =>
    unfold appendLoop
    dsimp only
    have hR : ∀ x a b, Inv x → Inv (x.resolveConflict a b) := fun x a b hx => h.resolveConflict_g x a b hx
    repeat' (first | g_step h | apply hR)
    all_goals (first | (apply ih; dsimp only; repeat' (first | g_step h | apply hR)) | skip)

theorem appendCheck_g (s : Node) (q : AppendReq) (hs : Inv s) : Inv (s.appendCheck q) := by
  unfold Node.appendCheck
  dsimp only
  g_auto h
  all_goals (simp only [Node.canCommit, Bool.and_eq_true, decide_eq_true_eq] at *; omega)

theorem onAppendEntries_g (s : Node) (q : AppendReq) (hs : Inv s) : Inv (s.onAppendEntries q) := by
  unfold Node.onAppendEntries
  dsimp only
  have hA : ∀ x, Inv x → Inv (x.appendCheck q) := fun x hx => h.appendCheck_g x q hx
  have hL : ∀ st, Inv st.s → Inv (appendLoop st q.entries).s := fun st hst => h.appendLoop_g st _ hst
  repeat' (first | g_step h | (apply hA) | (apply hL; dsimp only))
  all_goals (simp only [Node.canCommit, Bool.and_eq_true, decide_eq_true_eq] at *; omega)

theorem fsmRestore_g (s : Node) (hs : Inv s) : Inv s.fsmRestore := by
  unfold Node.fsmRestore
  g_auto h

theorem onInstallSnap_g (s : Node) (q : InstallReq) (hs : Inv s) : Inv (s.onInstallSnap q) := by
  unfold Node.onInstallSnap
  split
  · exact h.ret _ _ hs
  · extract_lets s1 s2 s3 s4 s5 s6 s7
    have h1 : Inv s1 := by unfold s1; split; exact h.termThenFollower _ _ hs; exact hs
    have h2 : Inv s2 := h.setLeader _ _ (h.toFollower _ h1)
    have h3 : Inv s3 := h.publishSnapshot _ _ h2
    split
    · exact h.ret _ _ h2
    · rename_i hgt
      split
      · exact h.ret _ _ h2
      · exact h.ret _ _ (h.commitConfig _ (h.changeConfigR _ _ (h.installCommit _ (h.fsmRestore_g _ (h.clearLog_g _ h3))
          (StepClosed.install_commit_guard s2 _ hgt))))

theorem onTakeSnapshot_g (s : Node) (t th : Nat) (hs : Inv s) : Inv (s.onTakeSnapshot t th) := by
  unfold Node.onTakeSnapshot
  g_auto h

theorem snapRun_g (s : Node) (hs : Inv s) : Inv s.snapRun := by
  unfold Node.snapRun
  dsimp only
  g_auto h

theorem onSnapshotTaken_g (s : Node) (hs : Inv s) : Inv s.onSnapshotTaken := by
  unfold Node.onSnapshotTaken
  dsimp only
  g_auto h

theorem onChangeConfig_g (s : Node) (t : Nat) (c : Config) (hs : Inv s) : Inv (s.onChangeConfig t c) := by
  unfold Node.onChangeConfig
  dsimp only
  g_auto h

theorem replUpdLoop_g (s : Node) (f : UpdFlags) (us : List ReplUpdate) (hs : Inv s) :
    Inv (replUpdLoop s f us).1 := by
  induction us generalizing s f with
  | nil => exact hs
  | cons u us ih =>
    unfold replUpdLoop
    dsimp only
    have hT : ∀ (x : Node) v, Inv x → Inv (((x.setRole .follower).setLeader 0).setTerm v) :=
      fun x v hx => h.setTermF _ _ (h.setLeader _ _ (h.toFollower _ hx)) rfl
    repeat' (first | apply hT | g_step h | apply ih)

theorem checkLogCompact_g (s : Node) (hs : Inv s) : Inv s.checkLogCompact := by
  unfold Node.checkLogCompact
  g_auto h

theorem checkReplUpdates_g (s : Node) (us : List ReplUpdate) (hs : Inv s) : Inv (s.checkReplUpdates us) := by
  unfold Node.checkReplUpdates
  dsimp only
  have hL : Inv (replUpdLoop s {} us).1 := h.replUpdLoop_g _ _ _ hs
  have hC : ∀ x, Inv x → Inv x.checkLogCompact := fun x hx => h.checkLogCompact_g x hx
  repeat' (first | g_step h | apply hC)

theorem rejectEntries_g (s : Node) (b : List QItem) (hs : Inv s) : Inv (s.rejectEntries b) := by
  induction b generalizing s with
  | nil => exact hs
  | cons q qs ih =>
    unfold Node.rejectEntries
    dsimp only
    repeat' (first | g_step h | apply ih)

theorem onWaitForStable_g (s : Node) (t : Nat) (hs : Inv s) : Inv (s.onWaitForStable t) := by
  unfold Node.onWaitForStable
  g_auto h

theorem rpcDone_g (s : Node) (a b : Bool) (hs : Inv s) : Inv (s.rpcDone a b) := by
  unfold Node.rpcDone
  g_auto h

theorem shutdown_g (s : Node) (hs : Inv s) : Inv s.shutdown := by
  unfold Node.shutdown
  dsimp only
  have h1 : ∀ x, Inv x → Inv x.snapRun := fun x hx => h.snapRun_g x hx
  have h2 : ∀ x, Inv x → Inv x.onSnapshotTaken := fun x hx => h.onSnapshotTaken_g x hx
  repeat' (first | g_step h | apply h1 | apply h2)

end GClosed

/-! ## fields that the bookkeeping primitives leave alone -/

/-- `s'` agrees with `s` on role, term, vote, votesNeeded, identity and configurations. -/
structure SameKey (s s' : Node) : Prop where
  role : s'.role = s.role
  term : s'.term = s.term
  votedFor : s'.votedFor = s.votedFor
  votesNeeded : s'.votesNeeded = s.votesNeeded
  nid : s'.nid = s.nid
  configs : s'.configs = s.configs

namespace SameKey

theorem refl (s : Node) : SameKey s s := ⟨rfl, rfl, rfl, rfl, rfl, rfl⟩

theorem trans {a b c : Node} (h1 : SameKey a b) (h2 : SameKey b c) : SameKey a c :=
  ⟨h2.role.trans h1.role, h2.term.trans h1.term, h2.votedFor.trans h1.votedFor,
   h2.votesNeeded.trans h1.votesNeeded, h2.nid.trans h1.nid, h2.configs.trans h1.configs⟩

theorem panic (s : Node) (site : String) : SameKey s (s.panic site) := by
  unfold Node.panic; split
  · exact ⟨rfl, rfl, rfl, rfl, rfl, rfl⟩
  · exact refl s

theorem reply (s : Node) (t : Nat) (r : String) : SameKey s (s.reply t r) := by
  unfold Node.reply; split
  · exact refl s
  · exact ⟨rfl, rfl, rfl, rfl, rfl, rfl⟩

theorem assert (s : Node) (b : Bool) (site : String) : SameKey s (s.assert b site) := by
  unfold Node.assert; split
  · exact refl s
  · exact panic s site

theorem rpcDone (s : Node) (a b : Bool) : SameKey s (s.rpcDone a b) := by
  have h1 : SameKey s (s.withRpcReply (some (s.mkReply a b))) := ⟨rfl, rfl, rfl, rfl, rfl, rfl⟩
  unfold Node.rpcDone; split
  · exact trans h1 (panic _ _)
  · exact h1

theorem appendEntry (s : Node) (e : Entry) : SameKey s (s.appendEntry e) := by
  unfold Node.appendEntry
  exact trans (assert s _ _) ⟨rfl, rfl, rfl, rfl, rfl, rfl⟩

theorem foldl {β : Type} (f : Node → β → Node) (hf : ∀ s x, SameKey s (f s x)) (xs : List β) (s : Node) :
    SameKey s (xs.foldl f s) := by
  induction xs generalizing s with
  | nil => exact refl s
  | cons x xs ih => exact trans (hf s x) (ih _)

theorem transferReply (s : Node) (r : String) : SameKey s (s.transferReply r) := by
  unfold Node.transferReply
  exact trans (reply _ _ _) ⟨rfl, rfl, rfl, rfl, rfl, rfl⟩

theorem setLeader (s : Node) (l : Nat) : SameKey s (s.setLeader l) := ⟨rfl, rfl, rfl, rfl, rfl, rfl⟩
theorem withLdr (s : Node) (l : Leader) : SameKey s (s.withLdr l) := ⟨rfl, rfl, rfl, rfl, rfl, rfl⟩

theorem leaderReleaseRest (s : Node) : SameKey s s.leaderReleaseRest := by
  unfold Node.leaderReleaseRest
  extract_lets s1 err s2 s3
  have h1 : SameKey s s1 := by unfold s1; split; exact setLeader _ _; exact refl s
  have h2 : SameKey s1 s2 := foldl _ (fun s t => reply s _ _) _ _
  have h3 : SameKey s2 s3 := foldl _ (fun s t => reply s _ _) _ _
  exact trans (trans (trans h1 h2) h3) (withLdr _ _)

theorem leaderRelease (s : Node) : SameKey s s.leaderRelease := by
  unfold Node.leaderRelease
  refine trans ?_ (leaderReleaseRest _)
  split
  · exact transferReply s _
  · exact refl s

theorem releaseRole (s : Node) (r : Role) : SameKey s (s.releaseRole r) := by
  unfold Node.releaseRole
  split
  · exact refl s
  · exact ⟨rfl, rfl, rfl, rfl, rfl, rfl⟩
  · exact leaderRelease s

end SameKey

theorem setTerm_key (s : Node) (t : Nat) :
    (s.setTerm t).nid = s.nid ∧ (s.setTerm t).role = s.role ∧ (s.setTerm t).votesNeeded = s.votesNeeded ∧
    (s.setTerm t).configs = s.configs ∧ s.term ≤ (s.setTerm t).term ∧
    (t ≤ s.term → (s.setTerm t).term = s.term) := by
  unfold Node.setTerm
  split
  · split
    · rename_i h1 h2
      unfold Node.storeTermVote Node.point
      refine ⟨?_, ?_, ?_, ?_, ?_, ?_⟩ <;> (try split) <;> first | rfl | (dsimp only; omega) | (intro; omega)
    · obtain ⟨a, b, c, d, e, f⟩ := SameKey.panic s "assert.setTerm"
      exact ⟨e, a, d, f, by rw [b]; exact Nat.le_refl _, fun _ => b⟩
  · exact ⟨rfl, rfl, rfl, rfl, Nat.le_refl _, fun _ => rfl⟩

theorem setVotedFor_key (s : Node) (t c : Nat) :
    (s.setVotedFor t c).nid = s.nid ∧ (s.setVotedFor t c).role = s.role ∧
    (s.setVotedFor t c).votesNeeded = s.votesNeeded ∧ (s.setVotedFor t c).configs = s.configs ∧
    s.term ≤ (s.setVotedFor t c).term ∧
    (t ≥ s.term → (s.setVotedFor t c).term = t ∧ (s.setVotedFor t c).votedFor = c) := by
  unfold Node.setVotedFor
  split
  · split
    · rename_i h1 h2
      unfold Node.storeTermVote Node.point
      refine ⟨?_, ?_, ?_, ?_, ?_, ?_⟩ <;> (try split) <;>
        first | rfl | (dsimp only; omega) | (intro; exact ⟨rfl, rfl⟩)
    · rename_i h1 h2
      obtain ⟨a, b, c', d, e, f⟩ := SameKey.panic s "assert.setVotedFor"
      exact ⟨e, a, d, f, by rw [b]; exact Nat.le_refl _, fun hge => absurd hge h2⟩
  · rename_i h1
    simp only [not_or, Decidable.not_not] at h1
    exact ⟨rfl, rfl, rfl, rfl, Nat.le_refl _, fun _ => ⟨h1.1.symm, h1.2.symm⟩⟩

theorem setCommitIndexR_key (s : Node) (i : Nat) :
    (s.setCommitIndexR i).1.nid = s.nid ∧ (s.setCommitIndexR i).1.term = s.term ∧
    (s.setCommitIndexR i).1.votesNeeded = s.votesNeeded ∧
    ((s.setCommitIndexR i).1.role = s.role ∨ (s.setCommitIndexR i).1.role = .follower) := by
  unfold Node.setCommitIndexR
  split
  · show (s.withCommitIndex i).commitConfig.stepDownIfNotVoter.closeIfRemoved.nid = _ ∧
      (s.withCommitIndex i).commitConfig.stepDownIfNotVoter.closeIfRemoved.term = _ ∧
      (s.withCommitIndex i).commitConfig.stepDownIfNotVoter.closeIfRemoved.votesNeeded = _ ∧
      ((s.withCommitIndex i).commitConfig.stepDownIfNotVoter.closeIfRemoved.role = _ ∨
       (s.withCommitIndex i).commitConfig.stepDownIfNotVoter.closeIfRemoved.role = _)
    unfold Node.closeIfRemoved Node.stepDownIfNotVoter Node.commitConfig Node.doClose
    dsimp only
    refine ⟨?_, ?_, ?_, ?_⟩
    · repeat' split
      all_goals rfl
    · repeat' split
      all_goals rfl
    · repeat' split
      all_goals rfl
    · repeat' split
      all_goals first | (left; rfl) | (right; rfl)
  · exact ⟨rfl, rfl, rfl, Or.inl rfl⟩

/-! ## `Down b`: nothing was promoted -/

/-- Relative to `b`: same identity, the term did not decrease, and either role, term and `votesNeeded`
are those of `b`, or the node is now a follower. -/
def Down (b s : Node) : Prop :=
  s.nid = b.nid ∧ b.term ≤ s.term ∧
  ((s.role = b.role ∧ s.term = b.term ∧ s.votesNeeded = b.votesNeeded) ∨ s.role = .follower)

theorem Down.refl (b : Node) : Down b b := ⟨rfl, Nat.le_refl _, Or.inl ⟨rfl, rfl, rfl⟩⟩

theorem down_congr {b s s' : Node} (h : Down b s) (e1 : s'.nid = s.nid) (e2 : s'.term = s.term)
    (e3 : s'.role = s.role) (e4 : s'.votesNeeded = s.votesNeeded) : Down b s' := by
  unfold Down at *; rw [e1, e2, e3, e4]; exact h

theorem down_sk {b s s' : Node} (h : Down b s) (k : SameKey s s') : Down b s' :=
  down_congr h k.nid k.term k.role k.votesNeeded

theorem down_closed (b : Node) : GClosed (Down b) where
  panic := fun s site h => down_sk h (SameKey.panic s site)
  reply := fun s t r h => down_sk h (SameKey.reply s t r)
  point := fun s n h => down_congr h rfl rfl rfl rfl
  ldr := fun s l h => down_congr h rfl rfl rfl rfl
  append := fun s e r h => down_congr h rfl rfl rfl rfl
  commitN := fun s n h => down_congr h rfl rfl rfl rfl
  fsm := fun s f h => down_congr h rfl rfl rfl rfl
  changeConfigR := fun s c h => by
    refine down_congr h ?_ ?_ ?_ ?_ <;> (unfold Node.changeConfigR; dsimp only; split <;> rfl)
  setCommitIndexR := fun s i h _ => by
    obtain ⟨e1, e2, e3, e4⟩ := setCommitIndexR_key s i
    obtain ⟨h1, h2, h3⟩ := h
    refine ⟨by rw [e1]; exact h1, by rw [e2]; exact h2, ?_⟩
    rcases e4 with e4 | e4
    · rw [e4, e2, e3]; exact h3
    · right; exact e4
  popOrder := fun s h => down_congr h rfl rfl rfl rfl
  rpcReply := fun s r h => down_congr h rfl rfl rfl rfl
  ret := fun s r h => down_congr h rfl rfl rfl rfl
  setLeader := fun s l h => down_congr h rfl rfl rfl rfl
  doClose := fun s r h => by
    refine down_congr h ?_ ?_ ?_ ?_ <;> (unfold Node.doClose; split <;> rfl)
  candTransfer := fun s v h => down_congr h rfl rfl rfl rfl
  removeGTE := fun s i pt h => down_congr h rfl rfl rfl rfl
  removeLTE := fun s i h => down_congr h rfl rfl rfl rfl
  clearLog := fun s h => down_congr h rfl rfl rfl rfl
  revertConfig := fun s h => down_congr h rfl rfl rfl rfl
  commitConfig := fun s h => by
    refine down_congr h ?_ ?_ ?_ ?_ <;> (unfold Node.commitConfig; dsimp only; split <;> rfl)
  publishSnapshot := fun s f h => down_congr h rfl rfl rfl rfl
  installCommit := fun s h _ => down_congr h rfl rfl rfl rfl
  snapPending := fun s v h => down_congr h rfl rfl rfl rfl
  snapResult := fun s v h => down_congr h rfl rfl rfl rfl
  toFollower := fun s h => ⟨h.1, h.2.1, Or.inr rfl⟩
  setTermF := fun s t h hr => by
    obtain ⟨e1, e2, e3, e4, e5, _⟩ := setTerm_key s t
    exact ⟨by rw [e1]; exact h.1, Nat.le_trans h.2.1 e5, Or.inr (by rw [e2]; exact hr)⟩
  termThenFollower := fun s t h => by
    obtain ⟨e1, e2, e3, e4, e5, _⟩ := setTerm_key s t
    exact ⟨by show (s.setTerm t).nid = _; rw [e1]; exact h.1, Nat.le_trans h.2.1 e5, Or.inr rfl⟩
  voteF := fun s t c h hr => by
    obtain ⟨e1, e2, e3, e4, e5, _⟩ := setVotedFor_key s t c
    exact ⟨by rw [e1]; exact h.1, Nat.le_trans h.2.1 e5, Or.inr (by rw [e2]; exact hr)⟩
  voteGrant := fun s c h _ => by
    obtain ⟨e1, e2, e3, e4, e5, e6⟩ := setVotedFor_key s s.term c
    exact down_congr h e1 (e6 (Nat.le_refl _)).1 e2 e3

/-! ## the promoting handlers -/

/-- `candidate.startElection`: term + 1, vote for itself, `votesNeeded = quorum - 1` of the latest
configuration, leader at once exactly when that is zero. -/
theorem startElection_spec (s : Node) :
    s.startElection.nid = s.nid ∧ s.startElection.term = s.term + 1 ∧ s.startElection.votedFor = s.nid ∧
    s.startElection.configs = s.configs ∧
    s.startElection.votesNeeded = (s.configs.latest.quorum : Int) - 1 ∧
    (((s.configs.latest.quorum : Int) - 1 = 0 ∧ s.startElection.role = .leader) ∨
     ((s.configs.latest.quorum : Int) - 1 ≠ 0 ∧ s.startElection.role = s.role)) := by
  unfold Node.startElection
  extract_lets s1 s2 s3 s4
  have k1 : SameKey s s1 := SameKey.assert s _ _
  have k2 : s2.nid = s.nid ∧ s2.term = s.term ∧ s2.role = s.role ∧ s2.configs = s.configs ∧
      s2.votesNeeded = (s.configs.latest.quorum : Int) := by
    refine ⟨k1.nid, k1.term, k1.role, k1.configs, ?_⟩
    show ((s1.configs.latest.quorum : Nat) : Int) = _
    rw [k1.configs]
  obtain ⟨a1, a2, a3, a4, a5⟩ := k2
  obtain ⟨b1, b2, b3, b4, _, b6⟩ := setVotedFor_key s2 (s2.term + 1) s2.nid
  obtain ⟨b6, b7⟩ := b6 (Nat.le_succ _)
  have c1 : s4.nid = s.nid := by show s3.nid = _; rw [b1, a1]
  have c2 : s4.term = s.term + 1 := by show s3.term = _; rw [b6, a2]
  have c3 : s4.votedFor = s.nid := by show s3.votedFor = _; rw [b7, a1]
  have c4 : s4.configs = s.configs := by show s3.configs = _; rw [b4, a4]
  have c5 : s4.votesNeeded = (s.configs.latest.quorum : Int) - 1 := by
    show s3.votesNeeded - 1 = _; rw [b3, a5]
  have c6 : s4.role = s.role := by show s3.role = _; rw [b2, a3]
  split
  · rename_i h0
    exact ⟨c1, c2, c3, c4, c5, Or.inl ⟨by rw [← c5]; exact h0, rfl⟩⟩
  · rename_i h0
    exact ⟨c1, c2, c3, c4, c5, Or.inr ⟨by rw [← c5]; exact h0, c6⟩⟩

/-- the operation is a vote response that the candidate `s` counts as a granted vote -/
def Counts (s : Node) (op : Op) : Prop :=
  s.role = .candidate ∧ ∃ tm, tm ≤ s.term ∧ op = .voteResult false tm rSuccess

/-- Relation between the state `b` a handler starts from and the state `h` it returns (`handle`, before
the role transitions). -/
inductive HRel (b : Node) (op : Op) (h : Node) : Prop
  /-- role, term and `votesNeeded` unchanged (and the operation was not a counted vote) -/
  | same : ¬ Counts b op → h.role = b.role → h.term = b.term → h.votesNeeded = b.votesNeeded → HRel b op h
  | follower : h.role = .follower → HRel b op h
  /-- the handler asked for an election (`setRole candidate`); `startElection` runs in the role transition.
  The handler checked that the node is a voter of its latest configuration, which it did not change
  (except `bootstrap`, which installs the first configuration). -/
  | pending : b.role ≠ .candidate → h.role = .candidate → b.term ≤ h.term →
      (b.configs.isBootstrapped = true → h.configs.latest = b.configs.latest) →
      h.configs.latest.isVoter h.nid = true → HRel b op h
  /-- a success response was counted -/
  | counted : Counts b op → h.term = b.term → h.votesNeeded = b.votesNeeded - 1 →
      ((b.votesNeeded - 1 = 0 ∧ h.role = .leader) ∨ (b.votesNeeded - 1 ≠ 0 ∧ h.role = .candidate)) → HRel b op h
  /-- election timeout of a candidate: a new election -/
  | reelect : b.role = .candidate → h = b.startElection → HRel b op h

theorem HRel.of_down {b h : Node} {op : Op} (hd : Down b h) (hn : ¬ Counts b op) : HRel b op h := by
  rcases hd.2.2 with ⟨a, b', c⟩ | a
  · exact .same hn a b' c
  · exact .follower a

theorem followerTimeout_rel (b : Node) (op : Op) (hn : ¬ Counts b op) (hr : b.role = .follower) :
    b.followerTimeout.nid = b.nid ∧ HRel b op b.followerTimeout := by
  unfold Node.followerTimeout
  dsimp only
  split
  · rename_i hc
    refine ⟨rfl, ?_⟩
    have hc' : b.configs.isBootstrapped = true ∧ b.configs.latest.isVoter b.nid = true := by
      simpa [Node.canStartElection, Node.setLeader] using hc
    exact .pending (by rw [hr]; decide) rfl (Nat.le_refl _) (fun _ => rfl) hc'.2
  · exact ⟨rfl, .same hn rfl rfl rfl⟩

theorem onTimeoutNow_rel (b : Node) (op : Op) (hn : ¬ Counts b op) :
    (b.onTimeoutNow.rpcDone false).nid = b.nid ∧ HRel b op (b.onTimeoutNow.rpcDone false) := by
  have k := SameKey.rpcDone b.onTimeoutNow false false
  unfold Node.onTimeoutNow at k ⊢
  split at k
  · split
    · exact ⟨k.nid, .same hn k.role k.term k.votesNeeded⟩
    · rename_i h1 h2; exact absurd h1 h2
  · rename_i hv
    split
    · rename_i h2; exact absurd h2 hv
    · have hv' : b.configs.latest.isVoter b.nid = true := by simpa using hv
      refine ⟨k.nid, ?_⟩
      by_cases hc : b.role = .candidate
      · exact .same hn (by rw [k.role]; exact hc.symm) k.term k.votesNeeded
      · refine .pending hc k.role (by rw [k.term]; exact Nat.le_refl _) (fun _ => by rw [k.configs]; rfl) ?_
        rw [k.configs, k.nid]; exact hv'

theorem changeConfigR_key (s : Node) (c : Config) :
    (s.changeConfigR c).nid = s.nid ∧ (s.changeConfigR c).role = s.role ∧ (s.changeConfigR c).term = s.term ∧
    (s.changeConfigR c).votesNeeded = s.votesNeeded ∧ (s.changeConfigR c).configs.latest = c := by
  unfold Node.changeConfigR
  dsimp only
  refine ⟨?_, ?_, ?_, ?_, ?_⟩ <;> first | rfl | (split <;> rfl)

theorem bootstrap_rel (b : Node) (op : Op) (task : Nat) (c : Config) (hn : ¬ Counts b op)
    (hc : b.role = .candidate → b.term ≠ 0) :
    (b.bootstrap task c).nid = b.nid ∧ HRel b op (b.bootstrap task c) := by
  have hrep : ∀ r, (b.reply task r).nid = b.nid ∧ HRel b op (b.reply task r) := fun r =>
    ⟨(SameKey.reply b task r).nid, .same hn (SameKey.reply b task r).role (SameKey.reply b task r).term
      (SameKey.reply b task r).votesNeeded⟩
  unfold Node.bootstrap
  split
  · exact hrep _
  · rename_i hboot
    split
    · exact hrep _
    · split
      · exact hrep _
      · rename_i self hself
        split
        · exact hrep _
        · rename_i hvoter
          split
          · exact hrep _
          · extract_lets c' s1 s2 s3 s4 s5 s6
            have k1 : SameKey b s1 := SameKey.appendEntry b _
            have k2 : SameKey b s2 := SameKey.trans k1 ⟨rfl, rfl, rfl, rfl, rfl, rfl⟩
            obtain ⟨t1, t2, t3, t4, t5, t6⟩ := setTerm_key s2 1
            have e3 : s3.nid = b.nid ∧ s3.role = b.role ∧ s3.votesNeeded = b.votesNeeded ∧ b.term ≤ s3.term ∧
                (1 ≤ b.term → s3.term = b.term) :=
              ⟨t1.trans k2.nid, t2.trans k2.role, t3.trans k2.votesNeeded, by rw [← k2.term]; exact t5,
               fun h1 => (t6 (by rw [k2.term]; exact h1)).trans k2.term⟩
            obtain ⟨u1, u2, u3, u4, u5⟩ := changeConfigR_key s4 c'
            have k6 := SameKey.reply s5 task "ok"
            have f1 : s6.nid = b.nid := by rw [k6.nid, u1]; exact e3.1
            have f2 : s6.role = b.role := by rw [k6.role, u2]; exact e3.2.1
            have f3 : s6.votesNeeded = b.votesNeeded := by rw [k6.votesNeeded, u4]; exact e3.2.2.1
            have f4 : s6.term = s3.term := by rw [k6.term, u3]; rfl
            have f5 : s6.configs.latest = c' := by rw [k6.configs, u5]
            refine ⟨f1, ?_⟩
            by_cases hcand : b.role = .candidate
            · refine .same hn ?_ ?_ f3
              · rw [hcand]; rfl
              · show s6.term = b.term
                rw [f4]; exact e3.2.2.2.2 (Nat.pos_of_ne_zero (hc hcand))
            · refine .pending hcand rfl (by show b.term ≤ s6.term; rw [f4]; exact e3.2.2.2.1)
                (fun hb => absurd hb hboot) ?_
              show s6.configs.latest.isVoter s6.nid = true
              rw [f5, f1]
              have hv : self.voter = true := by simpa using hvoter
              show (match c.find? b.nid with | some n => n.voter | none => false) = true
              rw [hself]; exact hv

/-- `candidate.onVoteResult` in a candidate -/
theorem onVoteResult_rel (b : Node) (err : Bool) (tm res : Nat) (hr : b.role = .candidate) :
    (b.onVoteResult err tm res).nid = b.nid ∧ HRel b (.voteResult err tm res) (b.onVoteResult err tm res) := by
  unfold Node.onVoteResult
  split
  · rename_i he
    refine ⟨rfl, .same ?_ rfl rfl rfl⟩
    rintro ⟨_, tm', _, e⟩
    injection e with e1 _ _
    rw [he] at e1; cases e1
  · rename_i he
    have he' : err = false := by simpa using he
    split
    · obtain ⟨t1, t2, _, _, _, _⟩ := setTerm_key (b.setRole .follower) tm
      exact ⟨t1, .follower t2⟩
    · rename_i hgt
      split
      · rename_i hres
        have hcnt : Counts b (.voteResult err tm res) := ⟨hr, tm, Nat.le_of_not_lt hgt, by rw [he', hres]⟩
        dsimp only
        split
        · rename_i h0
          exact ⟨rfl, .counted hcnt rfl rfl (Or.inl ⟨h0, rfl⟩)⟩
        · rename_i h0
          exact ⟨rfl, .counted hcnt rfl rfl (Or.inr ⟨h0, hr⟩)⟩
      · rename_i hres
        refine ⟨rfl, .same ?_ rfl rfl rfl⟩
        rintro ⟨_, tm', _, e⟩
        injection e with _ _ e3
        exact hres e3

theorem not_counts {b : Node} {op : Op} (h : ∀ e t r, op ≠ .voteResult e t r) : ¬ Counts b op := by
  rintro ⟨_, tm, _, e⟩
  exact h _ _ _ e

/-- **every case of `handle`**: the identity is kept and the handler's result relates to its input by `HRel`. -/
theorem handle_rel (b : Node) (op : Op) (hc : b.role = .candidate → b.term ≠ 0) :
    (b.handle op).nid = b.nid ∧ HRel b op (b.handle op) := by
  have G := down_closed b
  have D0 := Down.refl b
  have fin : ∀ {x : Node} {op : Op}, Down b x → ¬ Counts b op → x.nid = b.nid ∧ HRel b op x :=
    fun hd hn => ⟨hd.1, HRel.of_down hd hn⟩
  cases op <;> unfold Node.handle <;> dsimp only
  case vote q => exact fin (G.rpcDone_g _ _ _ (G.onVoteRequest_g _ _ D0)) (not_counts (by intros; simp))
  case append q => exact fin (G.rpcDone_g _ _ _ (G.onAppendEntries_g _ _ D0)) (not_counts (by intros; simp))
  case install q => exact fin (G.rpcDone_g _ _ _ (G.onInstallSnap_g _ _ D0)) (not_counts (by intros; simp))
  case timeoutNow => exact onTimeoutNow_rel b _ (not_counts (by intros; simp))
  case identity a c d => exact fin (G.rpcReply _ _ D0) (not_counts (by intros; simp))
  case disconnected n =>
    refine fin ?_ (not_counts (by intros; simp))
    g_auto G
  case timeout =>
    have hn : ¬ Counts b .timeout := not_counts (by intros; simp)
    split
    · rename_i hr; exact followerTimeout_rel b _ hn hr
    · rename_i hr; exact ⟨(startElection_spec b).1, .reelect hr rfl⟩
    · exact fin (G.checkQuorum_g _ D0) hn
  case newEntries batch =>
    refine fin ?_ (not_counts (by intros; simp))
    split
    · exact G.storeEntry_g _ _ _ D0
    · exact G.rejectEntries_g _ _ D0
  case changeConfig t c =>
    have hn : ¬ Counts b (.changeConfig t c) := not_counts (by intros; simp)
    split
    · exact fin (G.onChangeConfig_g _ _ _ D0) hn
    · exact bootstrap_rel b _ t c hn hc
  case takeSnapshot t th => exact fin (G.onTakeSnapshot_g _ _ _ D0) (not_counts (by intros; simp))
  case snapRun => exact fin (G.snapRun_g _ D0) (not_counts (by intros; simp))
  case snapTaken => exact fin (G.onSnapshotTaken_g _ D0) (not_counts (by intros; simp))
  case waitStable t =>
    refine fin ?_ (not_counts (by intros; simp))
    split
    · exact G.onWaitForStable_g _ _ D0
    · exact G.reply _ _ _ D0
  case transfer t g =>
    refine fin ?_ (not_counts (by intros; simp))
    g_auto G
  case voteResult e t r =>
    split
    · rename_i hr; exact onVoteResult_rel b e t r hr
    · rename_i hr
      exact ⟨rfl, .same (fun hcn => hr hcn.1) rfl rfl rfl⟩
  case replUpdates us =>
    refine fin ?_ (not_counts (by intros; simp))
    split
    · exact G.checkReplUpdates_g _ _ D0
    · exact D0
  case transferTimeout =>
    refine fin ?_ (not_counts (by intros; simp))
    g_auto G
  case timeoutNowResult a c d =>
    refine fin ?_ (not_counts (by intros; simp))
    g_auto G
  case newTermTimeout =>
    refine fin ?_ (not_counts (by intros; simp))
    g_auto G
  case shutdown => exact fin (G.shutdown_g _ D0) (not_counts (by intros; simp))

/-! ## the role transitions after the handler -/

theorem settle_same (m : Nat) (s : Node) : settle m s s.role = s := by
  cases m with
  | zero => rfl
  | succ m => unfold settle; rw [if_pos rfl]

theorem Frame.leaderInit_eq' {α : Type} {proj : Node → α} (h : Frame proj) (s : Node) :
    proj s.leaderInit = proj s := by
  unfold Node.leaderInit
  dsimp only
  rw [(h.block _).1, (h.block _).2.2.2.2.1, Frame.foldl_eq (proj := proj)]
  · rw [h.ldr, h.assert_eq]
  · intro s x; split <;> simp [h.addReplication_eq]

/-- term and vote are not touched by the leader block -/
theorem termVote_frame : Frame (fun s : Node => (s.term, s.votedFor)) where
  panic := fun s site => by unfold Node.panic; split <;> rfl
  reply := fun s t r => by unfold Node.reply; split <;> rfl
  point := fun _ _ => rfl
  ldr := fun _ _ => rfl
  log := fun _ _ _ _ => rfl
  logOnly := fun _ _ => rfl
  fsm := fun _ _ => rfl
  configs := fun _ _ => rfl
  commitIndex := fun _ _ => rfl
  leader := fun _ _ => rfl
  role := fun _ _ => rfl
  closed := fun _ _ => rfl
  popOrder := fun _ => rfl

/-- `leader.init` followed by the remaining role transitions: the node stays leader with the same term
and vote, or has stepped down to follower (it found itself removed from the voters). -/
theorem settle_leaderInit (m : Nat) (x : Node) (hx : x.role = .leader) :
    ((settle (m + 1) x.leaderInit .leader).role = .leader ∧
      (settle (m + 1) x.leaderInit .leader).term = x.term ∧
      (settle (m + 1) x.leaderInit .leader).votedFor = x.votedFor) ∨
    (settle (m + 1) x.leaderInit .leader).role = .follower := by
  have hd : Down x x.leaderInit := (down_closed x).leaderInit_g x (Down.refl x)
  have hf := termVote_frame.leaderInit_eq' x
  have hf1 : x.leaderInit.term = x.term := congrArg Prod.fst hf
  have hf2 : x.leaderInit.votedFor = x.votedFor := congrArg Prod.snd hf
  unfold settle
  split
  · rename_i hr
    exact Or.inl ⟨hr, hf1, hf2⟩
  · rename_i hr
    have hfol : x.leaderInit.role = .follower := by
      rcases hd.2.2 with ⟨a, _, _⟩ | a
      · rw [hx] at a; exact absurd a hr
      · exact a
    dsimp only
    have k := SameKey.releaseRole x.leaderInit .leader
    have hrr : (x.leaderInit.releaseRole .leader).role = .follower := by rw [k.role]; exact hfol
    have hinit : (x.leaderInit.releaseRole .leader).initRole = x.leaderInit.releaseRole .leader := by
      unfold Node.initRole; rw [hrr]
    rw [hinit, hrr]
    have := settle_same m (x.leaderInit.releaseRole .leader)
    rw [hrr] at this
    rw [this]
    exact Or.inr hrr

/-- **role transitions after a handler** (with the recursion budget of `step`): a node that ends as leader
either was made leader by the handler, or ran `startElection` here with a quorum of one; a node that ends
as candidate ran `startElection` here. -/
theorem settle_rel (n : Nat) (h : Node) (cur : Role) (hne : h.role ≠ cur) :
    ((settle (n + 3) h cur).role = .leader →
      (h.role = .leader ∧ (settle (n + 3) h cur).term = h.term ∧ (settle (n + 3) h cur).votedFor = h.votedFor) ∨
      (h.role = .candidate ∧ (settle (n + 3) h cur).term = h.term + 1 ∧
        (settle (n + 3) h cur).votedFor = h.nid ∧ h.configs.latest.quorum = 1)) ∧
    ((settle (n + 3) h cur).role = .candidate →
      h.role = .candidate ∧ (settle (n + 3) h cur).term = h.term + 1 ∧
      (settle (n + 3) h cur).votedFor = h.nid ∧
      (settle (n + 3) h cur).votesNeeded = (h.configs.latest.quorum : Int) - 1) := by
  unfold settle
  rw [if_neg hne]
  dsimp only
  have k := SameKey.releaseRole h cur
  generalize h.releaseRole cur = h1 at k ⊢
  cases hr : h.role with
  | follower =>
    have hr1 : h1.role = .follower := by rw [k.role]; exact hr
    have hinit : h1.initRole = h1 := by unfold Node.initRole; rw [hr1]
    rw [hinit, hr1]
    have := settle_same (n + 2) h1
    rw [hr1] at this
    rw [this, hr1]
    exact ⟨fun e => (by cases e), fun e => (by cases e)⟩
  | leader =>
    have hr1 : h1.role = .leader := by rw [k.role]; exact hr
    have hinit : h1.initRole = h1.leaderInit := by unfold Node.initRole; rw [hr1]
    rw [hinit, hr1]
    rcases settle_leaderInit (n + 1) h1 hr1 with ⟨a, b, c⟩ | a
    · exact ⟨fun _ => Or.inl ⟨rfl, by rw [b, k.term], by rw [c, k.votedFor]⟩, fun e => (by rw [a] at e; cases e)⟩
    · exact ⟨fun e => (by rw [a] at e; cases e), fun e => (by rw [a] at e; cases e)⟩
  | candidate =>
    have hr1 : h1.role = .candidate := by rw [k.role]; exact hr
    have hinit : h1.initRole = h1.startElection := by unfold Node.initRole; rw [hr1]
    rw [hinit, hr1]
    obtain ⟨e1, e2, e3, e4, e5, e6⟩ := startElection_spec h1
    rw [k.nid] at e1 e3
    rw [k.term] at e2
    rw [k.configs] at e5 e6
    unfold settle
    rcases e6 with ⟨q0, e6⟩ | ⟨q0, e6⟩
    · -- elected at once
      rw [if_neg (by rw [e6]; decide)]
      dsimp only
      have k2 := SameKey.releaseRole h1.startElection .candidate
      generalize h1.startElection.releaseRole .candidate = h2 at k2 ⊢
      have hr2 : h2.role = .leader := by rw [k2.role]; exact e6
      have hinit2 : h2.initRole = h2.leaderInit := by unfold Node.initRole; rw [hr2]
      rw [hinit2, hr2]
      rcases settle_leaderInit n h2 hr2 with ⟨a, b, c⟩ | a
      · refine ⟨fun _ => Or.inr ⟨rfl, by rw [b, k2.term, e2], by rw [c, k2.votedFor, e3], by omega⟩,
          fun e => (by rw [a] at e; cases e)⟩
      · exact ⟨fun e => (by rw [a] at e; cases e), fun e => (by rw [a] at e; cases e)⟩
    · rw [e6, hr1, if_pos rfl]
      exact ⟨fun e => (by rw [e6, hr1] at e; cases e), fun _ => ⟨rfl, e2, e3, e5⟩⟩

/-! ## one step -/

/-- The node started and carried out an election in this step (`candidate.startElection`): it moved to a
higher term with its durable vote cast for itself; `ec` is the configuration whose quorum it asked for —
the latest configuration of the state the step started from (for a node that was not bootstrapped: the
configuration `bootstrap` installed in this very step) — and, unless the node was a candidate already, the
handler checked that the node is a voter of it. -/
structure NewElection (s s' : Node) : Prop where
  term_gt : s'.term > s.term
  vote_self : s'.votedFor = s.nid
  cfg : ∃ ec : Config, (s.configs.isBootstrapped = true → ec = s.configs.latest) ∧
      (s.role = .candidate ∨ ec.isVoter s.nid = true) ∧
      (s'.role = .candidate → s'.votesNeeded = (ec.quorum : Int) - 1) ∧
      (s'.role = .leader → ec.quorum = 1)

/-- How role, term and `votesNeeded` of `s'` (after the step) relate to `s` (before), for operation `op`. -/
structure RoleStep (s : Node) (op : Op) (s' : Node) : Prop where
  nid : s'.nid = s.nid
  /-- a leader after the step was leader of the same term before, or counted the last missing vote in
  this step, or started an election with a quorum of one in this step -/
  leader : s'.role = .leader →
    (s.role = .leader ∧ s'.term = s.term) ∨
    (Counts s op ∧ s.votesNeeded - 1 = 0 ∧ s'.term = s.term) ∨
    NewElection s s'
  /-- a candidate after the step was candidate of the same term before, with `votesNeeded` lowered by
  one exactly if the operation is a counted success response, or started an election in this step -/
  candidate : s'.role = .candidate →
    (s.role = .candidate ∧ s'.term = s.term ∧
      (Counts s op → s'.votesNeeded = s.votesNeeded - 1) ∧ (¬ Counts s op → s'.votesNeeded = s.votesNeeded)) ∨
    NewElection s s'

theorem nid_frameS : FrameS (fun s : Node => s.nid) where
  panic := fun s site => by unfold Node.panic; split <;> rfl
  reply := fun s t r => by unfold Node.reply; split <;> rfl
  point := fun _ _ => rfl
  ldr := fun _ _ => rfl
  log := fun _ _ _ _ => rfl
  logOnly := fun _ _ => rfl
  fsm := fun _ _ => rfl
  configs := fun _ _ => rfl
  commitIndex := fun _ _ => rfl
  leader := fun _ _ => rfl
  role := fun _ _ => rfl
  closed := fun _ _ => rfl
  popOrder := fun _ => rfl
  votesNeeded := fun _ _ => rfl
  candTransfer := fun _ _ => rfl
  setVotedFor := fun s t c => (setVotedFor_key s t c).1

/-- the handler's result is the result of the step (no role transition follows) -/
theorem roleStep_of_hrel {b h : Node} {op : Op} (hn : h.nid = b.nid) (hrel : HRel b op h)
    (hnp : h.role = .candidate → b.role = .candidate) : RoleStep b op h := by
  refine ⟨hn, fun hl => ?_, fun hcd => ?_⟩
  · cases hrel with
    | same _ a b' _ => exact Or.inl ⟨by rw [← a]; exact hl, b'⟩
    | follower a => rw [a] at hl; cases hl
    | pending _ a => rw [a] at hl; cases hl
    | counted c t _ r =>
      rcases r with ⟨r0, _⟩ | ⟨_, r1⟩
      · exact Or.inr (Or.inl ⟨c, r0, t⟩)
      · rw [r1] at hl; cases hl
    | reelect c e =>
      subst e
      obtain ⟨e1, e2, e3, e4, e5, e6⟩ := startElection_spec b
      refine Or.inr (Or.inr ⟨by rw [e2]; exact Nat.lt_succ_self _, e3, b.configs.latest, fun _ => rfl, Or.inl c,
        fun hc' => (by rw [hl] at hc'; cases hc'), fun _ => ?_⟩)
      rcases e6 with ⟨q0, _⟩ | ⟨_, r1⟩
      · omega
      · rw [r1, c] at hl; cases hl
  · cases hrel with
    | same nc a b' v =>
      exact Or.inl ⟨by rw [← a]; exact hcd, b', fun c => absurd c nc, fun _ => v⟩
    | follower a => rw [a] at hcd; cases hcd
    | pending nb _ => exact absurd (hnp hcd) nb
    | counted c t v r =>
      exact Or.inl ⟨c.1, t, fun _ => v, fun nc => absurd c nc⟩
    | reelect c e =>
      subst e
      obtain ⟨e1, e2, e3, e4, e5, e6⟩ := startElection_spec b
      exact Or.inr ⟨by rw [e2]; exact Nat.lt_succ_self _, e3, b.configs.latest, fun _ => rfl, Or.inl c,
        fun _ => e5, fun hl => by rw [hl] at hcd; cases hcd⟩

/-- the handler's result followed by the role transitions of `stateLoop` -/
theorem roleStep_settle {b h : Node} {op : Op} (hn : h.nid = b.nid) (hrel : HRel b op h) :
    RoleStep b op (settle 6 h b.role) := by
  by_cases hne : h.role = b.role
  · have e : settle 6 h b.role = h := by unfold settle; rw [if_pos hne]
    rw [e]
    exact roleStep_of_hrel hn hrel (fun hc => by rw [← hne]; exact hc)
  · obtain ⟨sl, sc⟩ := settle_rel 3 h b.role hne
    have hnid : (settle 6 h b.role).nid = b.nid := by
      rw [nid_frameS.settle_eq (proj := fun s : Node => s.nid)]; exact hn
    refine ⟨hnid, fun hl => ?_, fun hcd => ?_⟩
    · rcases sl hl with ⟨r, t, v⟩ | ⟨r, t, v, q⟩
      · cases hrel with
        | same _ a _ _ => exact absurd a hne
        | follower a => rw [a] at r; cases r
        | pending _ a => rw [a] at r; cases r
        | counted c t' _ r' =>
          rcases r' with ⟨r0, _⟩ | ⟨_, r1⟩
          · exact Or.inr (Or.inl ⟨c, r0, t.trans t'⟩)
          · rw [r1] at r; cases r
        | reelect c e =>
          subst e
          obtain ⟨e1, e2, e3, e4, e5, e6⟩ := startElection_spec b
          refine Or.inr (Or.inr ⟨by rw [t, e2]; exact Nat.lt_succ_self _, v.trans e3, b.configs.latest,
            fun _ => rfl, Or.inl c, fun hc' => (by rw [hl] at hc'; cases hc'), fun _ => ?_⟩)
          rcases e6 with ⟨q0, _⟩ | ⟨_, r1⟩
          · omega
          · rw [r1, c] at r; cases r
      · cases hrel with
        | same _ a _ _ => exact absurd a hne
        | follower a => rw [a] at r; cases r
        | pending nb _ tle cf vt =>
          refine Or.inr (Or.inr ⟨by rw [t]; exact Nat.lt_succ_of_le tle, by rw [v, hn], h.configs.latest, cf,
            Or.inr (by rw [← hn]; exact vt), fun hc' => (by rw [hl] at hc'; cases hc'), fun _ => q⟩)
        | counted c _ _ r' =>
          rcases r' with ⟨_, r1⟩ | ⟨_, r1⟩
          · rw [r1] at r; cases r
          · exact absurd (r1.trans c.1.symm) hne
        | reelect c e =>
          subst e
          exact absurd (r.trans c.symm) hne
    · obtain ⟨r, t, v, w⟩ := sc hcd
      cases hrel with
      | same _ a _ _ => exact absurd a hne
      | follower a => rw [a] at r; cases r
      | pending nb _ tle cf vt =>
        exact Or.inr ⟨by rw [t]; exact Nat.lt_succ_of_le tle, by rw [v, hn], h.configs.latest, cf,
          Or.inr (by rw [← hn]; exact vt), fun _ => w, fun hl => by rw [hl] at hcd; cases hcd⟩
      | counted c _ _ r' =>
        rcases r' with ⟨_, r1⟩ | ⟨_, r1⟩
        · rw [r1] at r; cases r
        · exact absurd (r1.trans c.1.symm) hne
      | reelect c e =>
        subst e
        exact absurd (r.trans c.symm) hne

/-- **Role transitions of one step, for EVERY operation, oracle and input.** Assumes only that a candidate
has a non-zero term (true of every candidate: `startElection` increments the term). -/
theorem role_step (s : Node) (op : Op) (ra : List Nat) (ord : List (List Nat))
    (hc : s.role = .candidate → s.term ≠ 0) : RoleStep s op (s.step op ra ord) := by
  have hb := handle_rel (s.begin ra ord) op hc
  have key : RoleStep (s.begin ra ord) op (s.step op ra ord) := by
    unfold Node.step
    dsimp only
    split
    · -- shutdown: no role transition; the handler never promotes
      have hd : Down (s.begin ra ord) (s.begin ra ord).shutdown :=
        (down_closed _).shutdown_g _ (Down.refl _)
      refine roleStep_of_hrel hd.1 (HRel.of_down hd (not_counts (by intros; simp))) (fun hcd => ?_)
      have hcd' : (s.begin ra ord).shutdown.role = .candidate := hcd
      rcases hd.2.2 with ⟨a, _, _⟩ | a
      · rw [← a]; exact hcd'
      · rw [a] at hcd'; cases hcd'
    · exact roleStep_settle hb.1 hb.2
  -- `begin` only clears ghost outputs and installs the oracles
  have hne : ∀ x, NewElection (s.begin ra ord) x → NewElection s x := fun x ⟨a, b, c⟩ => ⟨a, b, c⟩
  refine ⟨key.nid, fun hl => ?_, fun hcd => ?_⟩
  · rcases key.leader hl with a | a | a
    · exact Or.inl a
    · exact Or.inr (Or.inl a)
    · exact Or.inr (Or.inr (hne _ a))
  · rcases key.candidate hcd with a | a
    · exact Or.inl a
    · exact Or.inr (hne _ a)

end Node
end Raft
