/-
Helper lemmas shared by Props/C09, C10, C12: what the small primitives (`panic`, `reply`, `setTerm`,
`publishSnapshot`, `fsmRestore`, …) leave untouched, the common prefix of `onInstallSnap`, and the
list lemmas about `dropLTE` / `insertSnap`.
-/
import RaftVerif.Lemmas.StepInv

namespace Raft

/-! ### `dropLTE` -/

theorem dropLTE_nil (i : Nat) : NLog.dropLTE i [] = [] := by
  simp [NLog.dropLTE]

theorem dropLTE_single (i a : Nat) : NLog.dropLTE i [a] = [a] := by
  simp [NLog.dropLTE]

theorem dropLTE_cons2 (i a b : Nat) (rest : List Nat) :
    NLog.dropLTE i (a :: b :: rest) =
      if a < b ∧ b ≤ i then NLog.dropLTE i (b :: rest) else a :: b :: rest := by
  simp [NLog.dropLTE]

/-- `dropLTE` of a non-empty list is a non-empty suffix whose head is the old head or is `≤ i`. -/
theorem dropLTE_cons_cases (i a : Nat) (rest : List Nat) :
    ∃ h tl, NLog.dropLTE i (a :: rest) = h :: tl ∧ (h :: tl) <:+ (a :: rest) ∧ (h = a ∨ h ≤ i) := by
  induction rest generalizing a with
  | nil => exact ⟨a, [], dropLTE_single i a, List.suffix_refl _, Or.inl rfl⟩
  | cons b rest ih =>
    rw [dropLTE_cons2]
    split
    · rename_i hc
      obtain ⟨h, tl, e, suf, hh⟩ := ih b
      refine ⟨h, tl, e, List.IsSuffix.trans suf (List.suffix_cons _ _), Or.inr ?_⟩
      rcases hh with hh | hh
      · omega
      · exact hh
    · exact ⟨a, b :: rest, rfl, List.suffix_refl _, Or.inl rfl⟩

/-- the segment after the new head starts above `i` (nothing more could have been dropped) -/
theorem dropLTE_next_gt (i : Nat) (l : List Nat) (hs : l.Pairwise (· < ·)) :
    ∀ h b tl, NLog.dropLTE i l = h :: b :: tl → i < b := by
  induction l with
  | nil => intro h b tl e; rw [dropLTE_nil] at e; cases e
  | cons a rest ih =>
    cases rest with
    | nil => intro h b tl e; rw [dropLTE_single] at e; cases e
    | cons c rest =>
      intro h b tl e
      rw [dropLTE_cons2] at e
      split at e
      · exact ih (List.Pairwise.of_cons hs) h b tl e
      · rename_i hc
        have hac : a < c := (List.pairwise_cons.mp hs).1 c (List.mem_cons_self ..)
        injection e with e1 e2
        injection e2 with e2 e3
        omega

/-! ### `insertSnap` -/

theorem mem_insertSnap (f : SnapFile) (l : List SnapFile) : f ∈ Node.insertSnap f l := by
  induction l with
  | nil => simp [Node.insertSnap]
  | cons g gs ih =>
    unfold Node.insertSnap
    split
    · exact List.mem_cons_self ..
    · split
      · exact List.mem_cons_self ..
      · exact List.mem_cons_of_mem _ ih

/-- a file at least as new as the newest one on disk becomes the head of the directory listing -/
theorem insertSnap_head (f : SnapFile) (l : List SnapFile)
    (h : ∀ g, l.head? = some g → g.index ≤ f.index) :
    ∃ tl, Node.insertSnap f l = f :: tl := by
  cases l with
  | nil => exact ⟨[], rfl⟩
  | cons g gs =>
    have hg := h g rfl
    unfold Node.insertSnap
    split
    · exact ⟨_, rfl⟩
    · split
      · exact ⟨_, rfl⟩
      · omega

/-- an older file goes behind the newest one -/
theorem insertSnap_head_older (f g : SnapFile) (gs : List SnapFile) (h : f.index < g.index) :
    Node.insertSnap f (g :: gs) = g :: Node.insertSnap f gs := by
  conv => lhs; unfold Node.insertSnap
  rw [if_neg (by omega), if_neg (by omega)]

namespace Node

/-! ### small primitives as record updates -/

theorem panic_eq (s : Node) (site : String) :
    s.panic site = { s with panicked := if s.panicked.isNone then some site else s.panicked } := by
  unfold Node.panic; split <;> rfl

theorem reply_eq (s : Node) (t : Nat) (r : String) :
    s.reply t r = { s with replies := if t = 0 then s.replies else s.replies ++ [{ task := t, result := r }] } := by
  unfold Node.reply; split <;> rfl

/-- The data part of a node: everything except `(term, votedFor)` and their disk copy, role, leader,
the rpc result/reply, the crash-point trace and the panic flag. -/
structure SameData (s s' : Node) : Prop where
  cid : s'.cid = s.cid
  nid : s'.nid = s.nid
  retain : s'.retain = s.retain
  log : s'.log = s.log
  lastLogIndex : s'.lastLogIndex = s.lastLogIndex
  lastLogTerm : s'.lastLogTerm = s.lastLogTerm
  snapIndex : s'.snapIndex = s.snapIndex
  snapTerm : s'.snapTerm = s.snapTerm
  snapsDisk : s'.snapsDisk = s.snapsDisk
  configs : s'.configs = s.configs
  commitIndex : s'.commitIndex = s.commitIndex
  fsm : s'.fsm = s.fsm
  ldr : s'.ldr = s.ldr
  snapPending : s'.snapPending = s.snapPending
  snapResult : s'.snapResult = s.snapResult

theorem SameData.refl (s : Node) : SameData s s := by constructor <;> rfl

theorem SameData.trans {a b c : Node} (h1 : SameData a b) (h2 : SameData b c) : SameData a c := by
  constructor
  · rw [h2.cid, h1.cid]
  · rw [h2.nid, h1.nid]
  · rw [h2.retain, h1.retain]
  · rw [h2.log, h1.log]
  · rw [h2.lastLogIndex, h1.lastLogIndex]
  · rw [h2.lastLogTerm, h1.lastLogTerm]
  · rw [h2.snapIndex, h1.snapIndex]
  · rw [h2.snapTerm, h1.snapTerm]
  · rw [h2.snapsDisk, h1.snapsDisk]
  · rw [h2.configs, h1.configs]
  · rw [h2.commitIndex, h1.commitIndex]
  · rw [h2.fsm, h1.fsm]
  · rw [h2.ldr, h1.ldr]
  · rw [h2.snapPending, h1.snapPending]
  · rw [h2.snapResult, h1.snapResult]

theorem sameData_panic (s : Node) (site : String) : SameData s (s.panic site) := by
  rw [panic_eq]; constructor <;> rfl

theorem sameData_setTerm (s : Node) (t : Nat) : SameData s (s.setTerm t) := by
  unfold Node.setTerm Node.storeTermVote Node.point
  simp only [panic_eq]
  constructor <;> (repeat' split) <;> rfl

/-- The common prefix of `onInstallSnapRequest` once the term check passed: adopt the term, become
follower, record the leader. -/
def installPre (s : Node) (q : InstallReq) : Node :=
  ((if q.term > s.term then (s.setTerm q.term).setRole .follower else s).setRole .follower).setLeader q.src

theorem sameData_setRole (s : Node) (r : Role) : SameData s (s.setRole r) := by constructor <;> rfl
theorem sameData_setLeader (s : Node) (l : Nat) : SameData s (s.setLeader l) := by constructor <;> rfl
theorem sameData_ret (s : Node) (r : Nat) : SameData s (s.ret r) := by constructor <;> rfl

theorem sameData_installPre (s : Node) (q : InstallReq) : SameData s (installPre s q) := by
  unfold installPre
  refine SameData.trans (SameData.trans ?_ (sameData_setRole _ _)) (sameData_setLeader _ _)
  split
  · exact SameData.trans (sameData_setTerm s q.term) (sameData_setRole _ _)
  · exact SameData.refl s

/-- `onInstallSnap` in terms of its prefix. -/
theorem onInstallSnap_eq (s : Node) (q : InstallReq) :
    s.onInstallSnap q =
      if q.term < s.term then s.ret rStaleTerm
      else if q.lastIndex ≤ (installPre s q).commitIndex then (installPre s q).ret rSuccess
      else if ((installPre s q).log.contains q.lastIndex &&
                ((installPre s q).entryTerm? q.lastIndex == some q.lastTerm)) = true
      then (installPre s q).ret rSuccess
      else
        let p := (installPre s q).publishSnapshot
          { index := q.lastIndex, term := q.lastTerm, config := q.lastConfig, data := q.data }
        (((p.clearLog.fsmRestore.withCommitIndex p.clearLog.fsmRestore.snapIndex).changeConfigR
                q.lastConfig).commitConfig).ret rSuccess := by
  unfold Node.onInstallSnap installPre
  split
  · rfl
  · rfl

/-! ### `fsmRestore`, `changeConfigR`, `commitConfig` -/

theorem fsmRestore_other (s : Node) :
    s.fsmRestore.log = s.log ∧ s.fsmRestore.lastLogIndex = s.lastLogIndex ∧
    s.fsmRestore.lastLogTerm = s.lastLogTerm ∧ s.fsmRestore.snapIndex = s.snapIndex ∧
    s.fsmRestore.snapTerm = s.snapTerm ∧ s.fsmRestore.snapsDisk = s.snapsDisk ∧
    s.fsmRestore.configs = s.configs ∧ s.fsmRestore.commitIndex = s.commitIndex ∧
    s.fsmRestore.trace = s.trace ∧ s.fsmRestore.term = s.term ∧ s.fsmRestore.votedFor = s.votedFor := by
  unfold Node.fsmRestore
  simp only [panic_eq, Node.withFsm]
  refine ⟨?_, ?_, ?_, ?_, ?_, ?_, ?_, ?_, ?_, ?_, ?_⟩ <;> (repeat' split) <;> rfl

/-- when the meta file of `snaps.index` is on disk, the FSM becomes its content -/
theorem fsmRestore_fsm (s : Node) (f : SnapFile) (h0 : s.snapIndex ≠ 0)
    (hf : s.snapsDisk.find? (·.index == s.snapIndex) = some f) :
    s.fsmRestore.fsm = { index := f.index, term := f.term, applied := f.data, config := f.config } ∧
    s.fsmRestore.panicked = s.panicked := by
  unfold Node.fsmRestore
  rw [if_neg h0, hf]
  exact ⟨rfl, rfl⟩

/-- when it is not, the node panics (`snaps.open` fails) and the FSM keeps its old content -/
theorem fsmRestore_missing (s : Node) (hf : s.snapsDisk.find? (·.index == s.snapIndex) = none) :
    s.fsmRestore.fsm = s.fsm ∧ (s.panicked = none → s.fsmRestore.panicked ≠ none) := by
  unfold Node.fsmRestore
  rw [hf]
  simp only [panic_eq]
  constructor
  · split <;> rfl
  · intro hp; split <;> simp [hp]

theorem changeConfigR_other (s : Node) (c : Config) :
    (s.changeConfigR c).configs = { committed := s.configs.latest, latest := c } ∧
    (s.changeConfigR c).log = s.log ∧ (s.changeConfigR c).lastLogIndex = s.lastLogIndex ∧
    (s.changeConfigR c).lastLogTerm = s.lastLogTerm ∧ (s.changeConfigR c).snapIndex = s.snapIndex ∧
    (s.changeConfigR c).snapTerm = s.snapTerm ∧ (s.changeConfigR c).snapsDisk = s.snapsDisk ∧
    (s.changeConfigR c).commitIndex = s.commitIndex ∧ (s.changeConfigR c).fsm = s.fsm ∧
    (s.changeConfigR c).trace = s.trace ∧ (s.changeConfigR c).panicked = s.panicked := by
  unfold Node.changeConfigR Node.setLeader
  dsimp only
  refine ⟨?_, ?_, ?_, ?_, ?_, ?_, ?_, ?_, ?_, ?_, ?_⟩ <;> (repeat' split) <;> rfl

theorem commitConfig_other (s : Node) :
    s.commitConfig.configs = { committed := s.configs.latest, latest := s.configs.latest } ∧
    s.commitConfig.log = s.log ∧ s.commitConfig.lastLogIndex = s.lastLogIndex ∧
    s.commitConfig.lastLogTerm = s.lastLogTerm ∧ s.commitConfig.snapIndex = s.snapIndex ∧
    s.commitConfig.snapTerm = s.snapTerm ∧ s.commitConfig.snapsDisk = s.snapsDisk ∧
    s.commitConfig.commitIndex = s.commitIndex ∧ s.commitConfig.fsm = s.fsm ∧
    s.commitConfig.trace = s.trace ∧ s.commitConfig.panicked = s.panicked := by
  unfold Node.commitConfig Node.setLeader
  dsimp only
  refine ⟨?_, ?_, ?_, ?_, ?_, ?_, ?_, ?_, ?_, ?_, ?_⟩ <;> (repeat' split) <;> rfl

theorem changeConfigR_eq (s : Node) (c : Config) :
    s.changeConfigR c =
      { s with leader := if s.leader ≠ 0 ∧ (!c.isVoter s.leader) = true then 0 else s.leader,
               configs := { committed := s.configs.latest, latest := c } } := by
  unfold Node.changeConfigR Node.setLeader
  dsimp only
  split <;> rfl

theorem commitConfig_eq (s : Node) :
    s.commitConfig =
      { s with leader := if s.leader ≠ 0 ∧ (!s.configs.latest.isVoter s.leader) = true then 0 else s.leader,
               configs := { committed := s.configs.latest, latest := s.configs.latest } } := by
  unfold Node.commitConfig Node.setLeader
  dsimp only
  split <;> rfl

theorem fsmRestore_eq (s : Node) :
    s.fsmRestore =
      { s with
        fsm := if s.snapIndex = 0 then s.fsm else
          match s.snapsDisk.find? (·.index == s.snapIndex) with
          | some f => { index := f.index, term := f.term, applied := f.data, config := f.config }
          | none => s.fsm
        panicked := if s.snapIndex = 0 then (if s.panicked.isNone then some "fsm.restoreNoSnapshot" else s.panicked) else
          match s.snapsDisk.find? (·.index == s.snapIndex) with
          | some _ => s.panicked
          | none => (if s.panicked.isNone then some "fsm.restoreOpen" else s.panicked) } := by
  unfold Node.fsmRestore
  simp only [panic_eq, Node.withFsm]
  split
  · rfl
  · cases hf : List.find? (fun x => x.index == s.snapIndex) s.snapsDisk <;> rfl

theorem insertSnap_decomp (f : SnapFile) (l : List SnapFile) :
    ∃ rest, insertSnap f l = l.takeWhile (fun g => decide (g.index > f.index)) ++ f :: rest := by
  induction l with
  | nil => exact ⟨[], rfl⟩
  | cons g gs ih =>
    unfold insertSnap
    split
    · rename_i h
      exact ⟨g :: gs, by rw [List.takeWhile_cons_of_neg (by simp; omega)]; rfl⟩
    · split
      · rename_i h1 h2
        exact ⟨gs, by rw [List.takeWhile_cons_of_neg (by simp; omega)]; rfl⟩
      · rename_i h1 h2
        obtain ⟨rest, e⟩ := ih
        exact ⟨rest, by rw [List.takeWhile_cons_of_pos (by simp; omega), e]; rfl⟩

theorem find_take_insertSnap (f : SnapFile) (l : List SnapFile) (r : Nat) :
    ((insertSnap f l).take r).find? (·.index == f.index) =
      if (l.takeWhile (fun g => decide (g.index > f.index))).length < r then some f else none := by
  obtain ⟨rest, e⟩ := insertSnap_decomp f l
  rw [e, List.take_append, List.find?_append]
  have h1 : List.find? (fun x => x.index == f.index)
      (List.take r (List.takeWhile (fun g => decide (g.index > f.index)) l)) = none := by
    rw [List.find?_eq_none]
    intro x hx
    have hx2 := List.all_eq_true.mp (List.all_takeWhile (l := l) (p := fun g => decide (g.index > f.index))) x
      (List.mem_of_mem_take hx)
    simp at hx2 ⊢
    omega
  rw [h1, Option.none_or]
  split
  · rename_i h
    obtain ⟨k, hk⟩ : ∃ k, r - (List.takeWhile (fun g => decide (g.index > f.index)) l).length = k + 1 :=
      ⟨r - (List.takeWhile (fun g => decide (g.index > f.index)) l).length - 1, by omega⟩
    rw [hk, List.take_succ_cons, List.find?_cons_of_pos (by simp)]
  · rename_i h
    have : r - (List.takeWhile (fun g => decide (g.index > f.index)) l).length = 0 := by omega
    rw [this]; rfl

theorem mem_of_mem_insertSnap (f g : SnapFile) (l : List SnapFile) (h : g ∈ insertSnap f l) : g = f ∨ g ∈ l := by
  induction l with
  | nil => simp [insertSnap] at h; exact Or.inl h
  | cons x xs ih =>
    unfold insertSnap at h
    split at h
    · rcases List.mem_cons.mp h with h | h
      · exact Or.inl h
      · exact Or.inr h
    · split at h
      · rcases List.mem_cons.mp h with h | h
        · exact Or.inl h
        · exact Or.inr (List.mem_cons_of_mem _ h)
      · rcases List.mem_cons.mp h with h | h
        · exact Or.inr (h ▸ List.mem_cons_self ..)
        · rcases ih h with h | h
          · exact Or.inl h
          · exact Or.inr (List.mem_cons_of_mem _ h)

/-- `publishSnapshot` as a record update -/
theorem publishSnapshot_fields (s : Node) (f : SnapFile) :
    (s.publishSnapshot f).snapsDisk = (insertSnap f s.snapsDisk).take s.retain ∧
    (s.publishSnapshot f).snapIndex = f.index ∧ (s.publishSnapshot f).snapTerm = f.term ∧
    (s.publishSnapshot f).log = s.log ∧ (s.publishSnapshot f).lastLogIndex = s.lastLogIndex ∧
    (s.publishSnapshot f).lastLogTerm = s.lastLogTerm ∧ (s.publishSnapshot f).commitIndex = s.commitIndex ∧
    (s.publishSnapshot f).fsm = s.fsm ∧ (s.publishSnapshot f).configs = s.configs ∧
    (s.publishSnapshot f).retain = s.retain ∧ (s.publishSnapshot f).panicked = s.panicked :=
  ⟨rfl, rfl, rfl, rfl, rfl, rfl, rfl, rfl, rfl, rfl, rfl⟩

end Node
end Raft
