/-
Delayed compaction, part G5 — the summary: what a step of a leader does to the coupling with the ghost of its replication
goroutines and to the first index of its log (`leader_step_keeps_views`; statement in words: Props/C09Sys4.lean).
-/
import RaftVerif.Lemmas.SnapDelayG4

namespace Raft
namespace SnapDelay
open Node SnapView

/-- `HasId`, decidable -/
def hasIdB (s : Node) (j : Nat) : Bool := s.ldr.repls.any (fun r => r.id == j)

theorem hasIdB_iff (s : Node) (j : Nat) : hasIdB s j = true ↔ HasId s j := by
  unfold hasIdB HasId
  rw [List.any_eq_true]
  constructor
  · rintro ⟨r, hr, e⟩; exact ⟨r, hr, by simpa using e⟩
  · rintro ⟨r, hr, e⟩; exact ⟨r, hr, by simpa using e⟩

/-- the views after a step of the same leadership: the goroutines that existed keep theirs, new ones start at `R` -/
def viewAfter (s : Node) (view : Nat → Nat) (R : Nat) : Nat → Nat := fun j => if hasIdB s j then view j else R

/-- the waiting reports after a step: those of goroutines that exist (a report of a stopped goroutine is ignored:
`status.removed`) -/
def queueAfter (s : Node) (q : List (Nat × Nat)) : List (Nat × Nat) := q.filter (fun e => hasIdB s e.1)

theorem latest_filter_keep (p : Nat × Nat → Bool) (q : List (Nat × Nat)) (j d : Nat)
    (h : ∀ e ∈ q, e.1 = j → p e = true) : latest (q.filter p) j d = latest q j d := by
  induction q generalizing d with
  | nil => rfl
  | cons a q ih =>
    have ih' := fun d => ih d (fun e he => h e (List.mem_cons_of_mem _ he))
    rw [List.filter_cons]
    by_cases hp : p a = true
    · rw [if_pos hp]
      exact ih' _
    · rw [if_neg hp]
      have hne : ¬ a.1 = j := fun e => hp (h a (List.mem_cons_self ..) e)
      show _ = latest q j (if a.1 = j then a.2 else d)
      rw [if_neg hne]
      exact ih' d

theorem latest_filter_drop (p : Nat × Nat → Bool) (q : List (Nat × Nat)) (j d : Nat)
    (h : ∀ e ∈ q, e.1 = j → p e = false) : latest (q.filter p) j d = d := by
  induction q generalizing d with
  | nil => rfl
  | cons a q ih =>
    have ih' := fun d => ih d (fun e he => h e (List.mem_cons_of_mem _ he))
    rw [List.filter_cons]
    by_cases hp : p a = true
    · rw [if_pos hp]
      have hne : ¬ a.1 = j := fun e => by rw [h a (List.mem_cons_self ..) e] at hp; cases hp
      show latest _ j (if a.1 = j then a.2 else d) = d
      rw [if_neg hne]
      exact ih' d
    · rw [if_neg hp]
      exact ih' d

/-- the coupling through a frame, with the reports of stopped goroutines dropped -/
theorem coupled_of_frame' (s x : Node) (q : List (Nat × Nat)) (view : Nat → Nat)
    (hf : GL s.ldr.removeLTE (Inh s) x.ldr) (hre : NoReAdd s x) (hc : Coupled s q view) :
    Coupled x (queueAfter s q) (viewAfter s view s.ldr.removeLTE) := by
  have hc' : Coupled s (queueAfter s q) view := by
    intro r hr
    unfold queueAfter
    rw [latest_filter_keep _ q r.id _ (fun e _ he => by
      show hasIdB s e.1 = true
      rw [he]; exact (hasIdB_iff s r.id).mpr ⟨r, hr, rfl⟩)]
    exact hc r hr
  intro r hr
  have inh : Inh s r.id r.removeLTE →
      latest (queueAfter s q) r.id r.removeLTE = viewAfter s view s.ldr.removeLTE r.id := by
    rintro ⟨r0, h0, e1, e2⟩
    unfold viewAfter
    rw [if_pos ((hasIdB_iff s r.id).mpr ⟨r0, h0, e1⟩), ← e1, ← e2]
    exact hc' r0 h0
  rcases hf.2 r hr with e | e
  · by_cases hid : HasId s r.id
    · exact inh (hre r hr hid)
    · have hb : hasIdB s r.id = false := by
        cases hh : hasIdB s r.id with
        | false => rfl
        | true => exact absurd ((hasIdB_iff s r.id).mp hh) hid
      unfold viewAfter queueAfter
      rw [hb, e]
      simp only [Bool.false_eq_true, if_false]
      exact latest_filter_drop _ q r.id _ (fun x _ hx => by show hasIdB s x.1 = false; rw [hx]; exact hb)
  · exact inh e

/-- an operation a leader handles, other than `shutdown`, `install`, and batches of replication updates that are not the
batch of the waiting reports -/
inductive LOp (q : List (Nat × Nat)) : Op → Prop
  | frame (op : Op) : StepClosedG.FOp op → (∀ m, op ≠ .install m) → LOp q op
  | snapTaken : LOp q .snapTaken
  | reports : LOp q (.replUpdates (rmBatch q))

/-- the first index of the log of an ordered node is not moved by an operation that does not compact -/
theorem step_prev_same (s : Node) (op : Op) (ra : List Nat) (ord : List (List Nat)) (ho : Order.Ordered s)
    (hop : StepClosedNC.NCOp op) : (s.step op ra ord).log.prev = s.log.prev := by
  have hlen : s.snapIndex - s.log.prev ≤ s.log.entries.length := by
    have h1 := ho.snap_le_applied
    have h2 := ho.applied_le_commit
    have h3 := ho.commit_le_last
    have h4 := ho.last_eq
    unfold NLog.last at h4
    omega
  have tk := (TK_closed s.log.prev s.snapIndex ho.prev_le_snap (s.log.entries.take (s.snapIndex - s.log.prev))).step_inv
    s op ra ord hop ⟨rfl, rfl, rfl, hlen, wsegs_of_segsOK ho.segs⟩
  exact tk.1

/-- **What a step of a leader does to the views of its replication goroutines.** -/
theorem leader_step_keeps_views (s : Node) (op : Op) (ra : List Nat) (ord : List (List Nat))
    (q : List (Nat × Nat)) (view : Nat → Nat)
    (ho : Order.Ordered s) (hl : s.role = .leader) (hC : C06Cache.LeaderCache s)
    (hc : Coupled s q view) (hop : LOp q op)
    (hre : StepClosedG.FOp op → NoReAdd (s.begin ra ord) ((s.begin ra ord).handle op))
    (hp : (s.step op ra ord).panicked = none) (hl' : (s.step op ra ord).role = .leader) :
    ∃ q' view',
      Coupled (s.step op ra ord) q' view' ∧
      -- the ghost: a new leadership, or the same goroutines with their views (new ones at the bound)
      ((NewLeadership (s.step op ra ord) ∧ q' = [] ∧ ∀ j, view' j = (s.step op ra ord).ldr.removeLTE) ∨
       ((q' = queueAfter s q ∨ q' = []) ∧ view' = viewAfter s view (s.step op ra ord).ldr.removeLTE)) ∧
      -- the first index of the log
      ((s.step op ra ord).log.prev = s.log.prev ∨
       (∀ r ∈ (s.step op ra ord).ldr.repls, (s.step op ra ord).log.prev ≤ view' r.id) ∨
       (op = .snapTaken ∧ ∀ r ∈ s.ldr.repls, (s.step op ra ord).log.prev ≤ r.matchIndex)) := by
  have hb : (s.begin ra ord).role = .leader := hl
  have hcb : Coupled (s.begin ra ord) q view := hc
  cases hop with
  | frame op hf hni =>
    by_cases hr : ((s.begin ra ord).handle op).role = .leader
    · -- the same leadership
      have e := step_eq_handle s op ra ord (by rw [hr, hb])
      have hfr := handle_status_frame (s.begin ra ord) op hf
      have hcp := coupled_of_frame' (s.begin ra ord) _ q view hfr (hre hf) hcb
      have hR : (s.step op ra ord).ldr.removeLTE = s.ldr.removeLTE := by rw [e]; exact hfr.1
      refine ⟨queueAfter s q, viewAfter s view s.ldr.removeLTE, by rw [e]; exact hcp,
        Or.inr ⟨Or.inl rfl, by rw [hR]⟩, Or.inl ?_⟩
      by_cases hsr : op = .snapRun
      · subst hsr
        rw [SnapSim.snapRun_step_eq, (SnapInv2.snapRun_frame _).1]
        rfl
      · apply step_prev_same s op ra ord ho
        cases op <;> first | trivial | exact hf.elim | exact absurd rfl (hni _) | exact absurd rfl hsr
    · -- a new leadership
      have hn := step_new_leadership s op ra ord hl hr (by intro e; rw [e] at hf; exact hf) hl'
      obtain ⟨c1, c2⟩ := newLeadership_coupled _ hn
      exact ⟨[], fun _ => (s.step op ra ord).ldr.removeLTE, c1, Or.inl ⟨hn, rfl, fun _ => rfl⟩, Or.inr (Or.inl c2)⟩
  | snapTaken =>
    have e := SnapSim.snapTaken_step_eq s ra ord
    obtain ⟨f1, f2⟩ := snapTaken_status_frame (s.begin ra ord) ho.segs
    have hcp : Coupled (s.begin ra ord).onSnapshotTaken q view :=
      snapTaken_keeps_coupled _ q view ho.segs hcb
    refine ⟨queueAfter s q, viewAfter s view (s.step .snapTaken ra ord).ldr.removeLTE, ?_, Or.inr ⟨Or.inl rfl, rfl⟩, ?_⟩
    · rw [e]
      intro r hr
      have hr' : r ∈ s.ldr.repls := by rw [f1] at hr; exact hr
      have hid : hasIdB s r.id = true := (hasIdB_iff s r.id).mpr ⟨r, hr', rfl⟩
      unfold viewAfter queueAfter
      rw [if_pos hid, latest_filter_keep _ q r.id _ (fun x _ hx => by show hasIdB s x.1 = true; rw [hx]; exact hid)]
      exact hcp r hr
    · rw [e]
      rcases f2 with h | h
      · exact Or.inl h
      · exact Or.inr (Or.inr ⟨rfl, h hb⟩)
  | reports =>
    have hs : LC.Sorted (s.begin ra ord).ldr.repls := ((C06Cache.cacheOK_iff s).mp (hC hl)).sortedRepls
    obtain ⟨i1, i2, i3, i4, i5, i6, i7⟩ := replUpdLoop_reports view q (s.begin ra ord) {} hs hcb
    have hpre := updPre_reports view q (s.begin ra ord) hs hcb
    -- the step without the compaction is the state after the loop
    have hz : stepNC s (rmBatch q) ra ord = (replUpdLoop (s.begin ra ord) {} (rmBatch q)).1 := by
      have hst : (replUpdLoop (s.begin ra ord) {} (rmBatch q)).2.stop = false := i3
      rw [stepNC_go s (rmBatch q) ra ord hb hst, hpre]
      unfold updFin updTail
      rw [i1, i2]
      simp only [Bool.false_eq_true, or_self, false_and, if_false]
      rw [settle_succ, if_pos (by rw [i6]; exact hb)]
    have hldr : (s.step (.replUpdates (rmBatch q)) ra ord).ldr = (replUpdLoop (s.begin ra ord) {} (rmBatch q)).1.ldr := by
      rcases step_rm_real s (rmBatch q) ra ord with e | hcm
      · rw [e, hz]
      · rw [hcm.step, ← hz]; rfl
    refine ⟨[], viewAfter s view (s.step (.replUpdates (rmBatch q)) ra ord).ldr.removeLTE, ?_,
      Or.inr ⟨Or.inr rfl, rfl⟩, ?_⟩
    · intro r hr
      rw [hldr] at hr
      obtain ⟨r0, h0, e0⟩ := i7 r hr
      unfold viewAfter
      rw [if_pos ((hasIdB_iff s r.id).mpr ⟨r0, h0, e0⟩)]
      exact i4 r hr
    · rcases reports_only_keeps_views s q view ra ord ho hl hC hc hp with e | hk
      · left
        rw [e]
        have hlen : s.snapIndex - s.log.prev ≤ s.log.entries.length := by
          have h1 := ho.snap_le_applied
          have h2 := ho.applied_le_commit
          have h3 := ho.commit_le_last
          have h4 := ho.last_eq
          unfold NLog.last at h4
          omega
        exact ((TK_closed s.log.prev s.snapIndex ho.prev_le_snap
          (s.log.entries.take (s.snapIndex - s.log.prev))).stepNC_inv s (rmBatch q) ra ord
          ⟨rfl, rfl, rfl, hlen, wsegs_of_segsOK ho.segs⟩).1
      · right; left
        intro r hr
        rw [hldr] at hr
        obtain ⟨r0, h0, e0⟩ := i7 r hr
        unfold viewAfter
        rw [if_pos ((hasIdB_iff s r.id).mpr ⟨r0, h0, e0⟩), ← e0]
        exact hk r0 h0

end SnapDelay
end Raft
