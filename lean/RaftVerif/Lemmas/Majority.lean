/-
The commit rule's arithmetic: the (quorum)-th largest element of the voters' match indexes is
acknowledged by a majority. Core Lean only.
-/
import RaftVerif.Model.Step

namespace Raft

theorem sortedDesc_pairwise (ms : List Nat) : (ms.mergeSort geB).Pairwise (fun a b => geB a b = true) := by
  apply List.pairwise_mergeSort
  · intro a b c h1 h2; simp only [geB, decide_eq_true_eq] at *; omega
  · intro a b; simp only [geB, Bool.or_eq_true, decide_eq_true_eq]; omega

/-- In a list sorted in decreasing order the element at position `k` is reached or exceeded by at least
`k + 1` elements. -/
theorem count_ge_kth_of_sorted (L : List Nat) (hs : L.Pairwise (fun a b => geB a b = true))
    (k : Nat) (hk : k < L.length) : (L.countP (fun m => decide (m ≥ L[k]))) ≥ k + 1 := by
  have hall : ∀ a ∈ L.take (k + 1), (fun m => decide (m ≥ L[k])) a = true := by
    intro a ha
    obtain ⟨i, hi, rfl⟩ := List.mem_iff_getElem.mp ha
    rw [List.getElem_take]
    have hi' : i < k + 1 := by rw [List.length_take] at hi; omega
    simp only [decide_eq_true_eq]
    by_cases e : i = k
    · subst e; exact Nat.le_refl _
    · have := (List.pairwise_iff_getElem.mp hs) i k (by omega) hk (by omega)
      simp only [geB, decide_eq_true_eq] at this
      exact this
  have h1 : (L.take (k + 1)).countP (fun m => decide (m ≥ L[k])) = (L.take (k + 1)).length :=
    List.countP_eq_length.mpr hall
  have h2 : (L.take (k + 1)).countP (fun m => decide (m ≥ L[k])) ≤ L.countP (fun m => decide (m ≥ L[k])) :=
    (List.take_sublist _ _).countP_le
  rw [List.length_take] at h1
  omega

/-- **Quorum arithmetic**: of `n ≥ 1` acknowledged indexes, the one selected by the leader (position
`n/2` of the decreasingly sorted list, i.e. `quorum - 1`) is reached by more than half of them. -/
theorem majority_selected (ms : List Nat) (hne : ms ≠ []) :
    let N := ((ms.mergeSort geB)[ms.length / 2]?).getD 0
    2 * (ms.countP (fun m => decide (m ≥ N))) > ms.length := by
  intro N
  have hlen : (ms.mergeSort geB).length = ms.length := List.length_mergeSort ms
  have hpos : 0 < ms.length := List.length_pos_iff.mpr hne
  have hk : ms.length / 2 < (ms.mergeSort geB).length := by rw [hlen]; omega
  have hN : N = (ms.mergeSort geB)[ms.length / 2] := by
    show ((ms.mergeSort geB)[ms.length / 2]?).getD 0 = _
    rw [List.getElem?_eq_getElem hk]; rfl
  have hc := count_ge_kth_of_sorted _ (sortedDesc_pairwise ms) _ hk
  have hp : (ms.mergeSort geB).countP (fun m => decide (m ≥ N)) = ms.countP (fun m => decide (m ≥ N)) :=
    (List.mergeSort_perm ms geB).countP_eq _
  rw [← hN] at hc
  rw [hp] at hc
  omega

end Raft

namespace Raft

/-- In a list sorted in decreasing order, if the element at position `k` is below `N`, at most `k`
elements reach `N`. -/
theorem count_le_of_kth_lt (L : List Nat) (hs : L.Pairwise (fun a b => geB a b = true))
    (k N : Nat) (hk : k < L.length) (hlt : L[k] < N) : L.countP (fun m => decide (m ≥ N)) ≤ k := by
  have hdrop : ∀ a ∈ L.drop k, ¬ ((fun m => decide (m ≥ N)) a = true) := by
    intro a ha
    obtain ⟨i, hi, rfl⟩ := List.mem_iff_getElem.mp ha
    rw [List.getElem_drop]
    simp only [decide_eq_true_eq, Nat.not_le]
    by_cases e : i = 0
    · subst e; simpa using hlt
    · have hi' : k + i < L.length := by rw [List.length_drop] at hi; omega
      have := (List.pairwise_iff_getElem.mp hs) k (k + i) hk hi' (by omega)
      simp only [geB, decide_eq_true_eq] at this
      omega
  have h0 : (L.drop k).countP (fun m => decide (m ≥ N)) = 0 := List.countP_eq_zero.mpr hdrop
  have hsplit : L.countP (fun m => decide (m ≥ N)) =
      (L.take k).countP (fun m => decide (m ≥ N)) + (L.drop k).countP (fun m => decide (m ≥ N)) := by
    rw [← List.countP_append, List.take_append_drop]
  have hle : (L.take k).countP (fun m => decide (m ≥ N)) ≤ (L.take k).length := List.countP_le_length
  rw [List.length_take] at hle
  omega

/-- **commit is not stuck**: if more than half of the match indexes reach `N`, the index the leader
selects is at least `N`. -/
theorem selected_ge_of_majority (ms : List Nat) (N : Nat)
    (hmaj : 2 * (ms.countP (fun m => decide (m ≥ N))) > ms.length) :
    ((ms.mergeSort geB)[ms.length / 2]?).getD 0 ≥ N := by
  have hlen : (ms.mergeSort geB).length = ms.length := List.length_mergeSort ms
  have hpos : 0 < ms.length := by
    cases ms with
    | nil => simp at hmaj
    | cons a as => simp
  have hk : ms.length / 2 < (ms.mergeSort geB).length := by rw [hlen]; omega
  rw [List.getElem?_eq_getElem hk]
  simp only [Option.getD_some]
  by_cases hc : (ms.mergeSort geB)[ms.length / 2] ≥ N
  · exact hc
  · exfalso
    have := count_le_of_kth_lt _ (sortedDesc_pairwise ms) _ N hk (by omega)
    have hp : (ms.mergeSort geB).countP (fun m => decide (m ≥ N)) = ms.countP (fun m => decide (m ≥ N)) :=
      (List.mergeSort_perm ms geB).countP_eq _
    rw [hp] at this
    omega

end Raft
