/-
The per-node invariants `C12Track.Tracks` and `Order.Ordered` along the runs of the cluster system with installation of
snapshots (Sys/Snap4.lean), part 1: the hypotheses of the per-node theorems are discharged inside the system.
* `appendOk_real`: an append request of the ledger is acceptable at its receiver (`Order.AppendOk`): it conflicts with the
  receiver's log only above the commit index (commit safety of the virtual cluster, `C02Sys.reqok`) — and above the index
  of the committed configuration (side condition `Side4.cfg`);
* `ordered_assemble`: the orderings of a node follow from the cluster invariant `Inv3`, the configuration side conditions
  and `leader.removeLTE ≤ snapIndex`;
* `diskTracks_transport`: a disk whose log agrees with the node's log up to the snapshot index, with the node's snapshot
  files, is a disk from which a restart yields a tracking node.
-/
import RaftVerif.Sys.Snap4
import RaftVerif.Lemmas.SnapInst3h

namespace Raft
namespace SnapInst4
open Node Election LogRel Replication CommitRel Commit C02Sys C03Sys SnapRel SnapRelU SnapSim Snap Snap2 SnapInv SnapInv2
open SnapInst SnapInstU Snap3 SnapInst3 Snap4

section
variable {V : List Nat}

/-- what the real node answers above its snapshot index is what the (erased) virtual node answers -/
theorem entryTerm_real {x : Snap3.Sys} (hI : Inv3 V x) (i k : Nat) (hk : (x.node i).log.prev < k)
    (hle : k ≤ (x.node i).lastLogIndex) : (x.node i).entryTerm? k = some (termAt (x.vlog i) k) := by
  have hn : NWF ((eview (view3 x).cs).node i) := nwf hI.sinv.cinv i
  have hlast : (x.node i).lastLogIndex = ((eview (view3 x).cs).node i).log.entries.length := hn.last
  have := hn.entryTerm k (by omega) (by rw [← hlast]; exact hle)
  have e : ((eview (view3 x).cs).node i).entryTerm? k = (U (x.s2.base i) (x.node i)).entryTerm? k := rfl
  rw [e, U_entryTerm? (x.node i) k hk] at this
  exact this

/-- **an append request of the ledger is acceptable at its receiver** -/
theorem appendOk_real {x : Snap3.Sys} (hI : Inv3 V x) {i : Nat} {q : AppendReq} (hq : q ∈ x.s2.cs.rp.sent)
    (hst : ¬ q.term < (x.node i).term)
    (hcfg : (x.node i).configs.committed.index ≤ (x.node i).commitIndex ∨
      ∀ c ∈ x.s2.cs.T, ∀ d ∈ x.s2.cs.T, c.e.index = d.e.index → c.e.index ≤ (x.node i).configs.committed.index →
        c.e.term = d.e.term) : Order.AppendOk (x.node i) q := by
  have hc := hI.sinv.cinv
  have hq' : q ∈ (eview (view3 x).cs).rp.sent := hq
  have hst' : ¬ q.term < ((eview (view3 x).cs).node i).term := hst
  have hnc := reqok hc (i := i) hq' hst'
  have hn : NWF ((eview (view3 x).cs).node i) := nwf hc i
  have hlast : (x.node i).lastLogIndex = (x.vlog i).length := hn.last
  have hidx := (hc.rp.sent q hq').idx
  refine ⟨chainB_of_idx _ _ hidx, fun ne hne hle hsn hdiff => ?_⟩
  have hp : (x.node i).log.prev < ne.index := by have := (hI.prev i).le; omega
  have het := entryTerm_real hI i ne.index hp hle
  have h1 : 1 ≤ ne.index := by omega
  have hci : (x.node i).commitIndex < ne.index := by
    apply Nat.lt_of_not_le
    intro hle'
    apply hdiff
    rw [het]
    have := hnc ne hne hle'
    have e : ((eview (view3 x).cs).node i).log.entries = x.vlog i := rfl
    rw [e] at this
    rw [this]
  refine ⟨hci, ?_⟩
  rcases hcfg with hcfg | hcfg
  · omega
  · apply Nat.lt_of_not_le
    intro hle'
    apply hdiff
    rw [het]
    have hlen : ne.index ≤ (x.vlog i).length := by rw [← hlast]; exact hle
    obtain ⟨c, hcm, ck⟩ := log_record hc i (k := ne.index) (τ := termAt (x.vlog i) ne.index) ⟨h1, hlen, rfl⟩
    obtain ⟨c', hc', _, c2, _⟩ := hc.sent.anc q hq'
    obtain ⟨_, es, hpth, _, ha⟩ := c2 ne hne
    obtain ⟨d, hd, d1, d2, _⟩ := path_record hpth ha
    unfold key at ck
    simp only [Prod.mk.injEq] at ck
    have := hcfg c hcm d hd (by rw [ck.1, d1]) (by rw [ck.1]; exact hle')
    rw [← ck.2, this, d2]

/-- **every operation of stage 2 delivered in the system is acceptable at its receiver** (`Order.ReqOk`) -/
theorem reqOk_old {x : Snap3.Sys} (hI : Inv3 V x) {i : Nat} {op : Op} {src : Nat} (en : Snap.Enabled x.s2.cs i op src)
    (hcfg : (x.node i).configs.committed.index ≤ (x.node i).commitIndex ∨
      ∀ c ∈ x.s2.cs.T, ∀ d ∈ x.s2.cs.T, c.e.index = d.e.index → c.e.index ≤ (x.node i).configs.committed.index →
        c.e.term = d.e.term) : Order.ReqOk (x.node i) op := by
  cases op with
  | append q =>
    show q.term < (x.node i).term ∨ Order.AppendOk (x.node i) q
    by_cases hst : q.term < (x.node i).term
    · exact Or.inl hst
    · exact Or.inr (appendOk_real hI ((en.append q rfl).resolve_left hst) hst hcfg)
  | install q => exact (en.ok2.1).elim
  | _ => trivial

/-- the log of the real node is well formed with respect to flushing -/
theorem lwf_real {x : Snap3.Sys} (hI : Inv3 V x) (i : Nat) : C06.LogWF (x.node i).log := by
  have := vnode_lwf3 hI.sinv i
  unfold C06.LogWF at this ⊢
  rw [uncLog_lastSegPrev, uncLog_last] at this
  exact this

/-- **the orderings of a node**, from the cluster invariant, the side conditions on configurations and the bound on the
compaction bookkeeping of the leader record -/
theorem ordered_assemble {x : Snap3.Sys} (hI : Inv3 V x) (hS : Side4 V x) (i : Nat)
    (hr : (x.node i).ldr.removeLTE ≤ (x.node i).snapIndex) : Order.Ordered (x.node i) := by
  have hc := hI.sinv.cinv
  have hn : NWF ((eview (view3 x).cs).node i) := nwf hc i
  have so : SnapOK (x.vnode i) := hI.sinv.snap i
  have hlast : (x.node i).lastLogIndex = (x.vlog i).length := hn.last
  have fb : FB ((eview (view3 x).cs).node i) := hI.sinv.fsm i
  refine ⟨⟨by rw [hlast, vlog_length], (hI.prev i).le, so.le, fb.fsm.le, (hS.cfgord i).1, (hS.cfgord i).2,
    hS.side.segs i, hr, (hI.prev i).res⟩, ?_⟩
  by_cases h0 : (x.node i).commitIndex = 0
  · rw [h0]; exact Nat.zero_le _
  · have := (hc.cmt.cc i (x.node i).commitIndex (by omega) (Nat.le_refl _)).1
    rw [hlast]; exact this

/-! ### disks from which a restart yields a tracking node -/

theorem diskTracks_congr_head {d d' : Durable} (h : C12Track.DiskTracks d') (e1 : d.log = d'.log)
    (e2 : d.snaps.head? = d'.snaps.head?) : C12Track.DiskTracks d := by
  have hso : C10.snapOf d = C10.snapOf d' := by unfold C10.snapOf; rw [e2]
  have hst : staleLog d = staleLog d' := by
    unfold staleLog
    show (decide (d.log.last < (C10.snapOf d).index) || (decide (d.log.prev < (C10.snapOf d).index) &&
        ((d.log.get? (C10.snapOf d).index).map (·.term) != some (C10.snapOf d).term))) =
      (decide (d'.log.last < (C10.snapOf d').index) || (decide (d'.log.prev < (C10.snapOf d').index) &&
        ((d'.log.get? (C10.snapOf d').index).map (·.term) != some (C10.snapOf d').term)))
    rw [hso, e1]
  have hlo : C10.logOf d = C10.logOf d' := by unfold C10.logOf; rw [hst, hso, e1]
  exact ⟨by rw [e1]; exact h.contig, by rw [hlo, hso]; exact h.lab, by rw [hlo, hso]; exact h.term,
    by rw [hso]; exact h.zero⟩

/-- **a disk that agrees with a tracking node up to its snapshot index**: the node's snapshot files, a log that starts
where the node's log starts, is index-contiguous, is not stale and holds the node's entries up to the snapshot index -/
theorem diskTracks_transport (s : Node) (ht : C12Track.Tracks s) (d : Durable) (h1 : d.log.prev = s.log.prev)
    (h2 : d.snaps = s.snapsDisk)
    (h3 : d.log.entries.take (s.snapIndex - s.log.prev) = s.log.entries.take (s.snapIndex - s.log.prev))
    (hc : C03.LogContig d.log) (hst : staleLog d = false) : C12Track.DiskTracks d := by
  have hso : C10.snapOf d = (s.snapsDisk.head?).getD {} := by unfold C10.snapOf; rw [h2]
  have hidx : (C10.snapOf d).index = s.snapIndex := by
    rw [hso, ht.snapHead]
    cases s.snapsDisk.head? <;> rfl
  have hcfgl : (C10.snapOf d).config = Track.label s := by rw [hso]; rfl
  have htm : (C10.snapOf d).term = s.snapTerm := by
    rw [hso, ht.snapOk.headTerm]
    cases s.snapsDisk.head? <;> rfl
  have hlo : C10.logOf d = d.log := by
    rcases C10.logOf_cases d with ⟨h', _⟩ | ⟨_, e⟩
    · rw [hst] at h'; cases h'
    · exact e
  refine ⟨hc, ?_, fun hlt => ?_, fun h0 => ?_⟩
  · rw [hlo, hcfgl, hidx]
    unfold Track.newest
    rw [Track.pre_congr h1 h3]
    exact ht.lab
  · rw [hlo, hidx] at hlt
    rw [hlo, hidx, htm]
    rw [Track.get?_congr h1 h3]
    exact ht.snapOk.termLog (by rw [← h1]; exact hlt)
  · rw [hidx] at h0
    rw [htm]; exact ht.snapOk.zero h0

end

end SnapInst4
end Raft
