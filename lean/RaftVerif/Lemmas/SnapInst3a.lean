/-
The invariant of the cluster system with snapshots, compaction and INSTALLATION of snapshots (Sys/Snap3.lean), part a:
the definitions, and the restart from a disk whose log may start exactly at the newest snapshot.

`Inv3 V x`:
* `sinv`  — the invariant of stage 1 (`SnapInv.SInv`: election safety, log matching, leader completeness, commit safety,
            state-machine content, snapshot files fit the log) for the cluster of the VIRTUAL nodes;
* `prev`  — every log starts at or below the node's snapshot index (`SnapInv2.PrevOK`);
* `vterm` — **the snapshot agrees with the log**: every snapshot file on a node's disk carries the term of the entry of
            the node's virtual log at the file's index, and `snapTerm` is the term of the newest file (`VTerm`);
* `msgs`  — every install request on the wire stands for a committed root path of the tree of created entries
            (`MsgOK`): its ghost prefix `pre` is a path of length `lastIndex` whose last entry has term `lastTerm` and is
            committed by a leader of a term `≤` the request's; `data` is the replay of `pre`.
-/
import RaftVerif.Sys.Snap3
import RaftVerif.Lemmas.SnapInv2
import RaftVerif.Lemmas.SnapInstA
import RaftVerif.Lemmas.SnapInstU

namespace Raft
namespace SnapInst3
open Node Election LogRel Replication CommitRel Commit C02Sys C03Sys SnapRel SnapRelU SnapSim Snap Snap2 SnapInv SnapInv2
open SnapInst SnapInstU Snap3

/-- **the snapshot files of node `i` agree with its (virtual) log** -/
structure VTerm (x : Snap3.Sys) (i : Nat) : Prop where
  files : ∀ f ∈ (x.node i).snapsDisk, termAt (x.vlog i) f.index = f.term
  head : (x.node i).snapTerm = (headOf (x.node i).snapsDisk).term

/-- **an install request on the wire stands for a committed prefix** -/
structure MsgOK (z : Commit.Sys) (m : SnapMsg) : Prop where
  len : m.pre.length = m.q.lastIndex
  pos : 1 ≤ m.q.lastIndex
  path : Path z.T m.pre
  lastT : lastTerm m.pre = m.q.lastTerm
  cmt : Cmt z (m.pre.length, lastTerm m.pre) m.q.term
  data : m.q.data = ups m.pre
  termLe : ∀ e ∈ m.pre, e.term ≤ m.q.term
  dec : ∀ e ∈ m.pre, e.typ = etConfig → e.cfg.isSome = true

/-- **the invariant of stage 3** -/
structure Inv3 (V : List Nat) (x : Snap3.Sys) : Prop where
  sinv : SInv V (view3 x)
  prev : ∀ i, PrevOK (x.node i)
  vterm : ∀ i, VTerm x i
  msgs : ∀ m ∈ x.sentSnaps, MsgOK (view3 x).cs m

/-- the ledgers only grow: the request still stands for a committed prefix -/
theorem MsgOK.mono {z z' : Commit.Sys} {m : SnapMsg} (h : MsgOK z m) (hT : ∀ c ∈ z.T, c ∈ z'.T)
    (hC : ∀ c ∈ z.committed, c ∈ z'.committed) : MsgOK z' m := by
  obtain ⟨mm, hm, h1, h2⟩ := h.cmt
  exact ⟨h.len, h.pos, h.path.mono hT, h.lastT, ⟨mm, hC mm hm, h1, h2.mono hT⟩, h.data, h.termLe, h.dec⟩

/-! ### facts about the virtual log -/

theorem vlog_def (x : Snap3.Sys) (i : Nat) : x.vlog i = pad (x.s2.base i) (x.node i).log.prev ++ (x.node i).log.entries :=
  rfl

theorem vlog_length (x : Snap3.Sys) (i : Nat) : (x.vlog i).length = (x.node i).log.last := by
  rw [vlog_def, List.length_append, pad_length]; rfl

/-- the last compacted-away entry is the entry of the virtual log at `log.prev` -/
theorem pad_getLast_term (β : List Entry) (es : List Entry) (p : Nat) (hp : 0 < p) :
    (((pad β p).getLast?).map (·.term)).getD 0 = termAt (pad β p ++ es) p := by
  unfold termAt
  rw [if_neg (by omega), List.getElem?_append_left (by rw [pad_length]; omega)]
  rw [List.getLast?_eq_getElem?, pad_length]

/-! ### restart from a disk whose log may start exactly at the newest snapshot -/

/-- **the restart of the virtual node** (stage 3): from the un-compacted disk the node restarts as the un-compacted
restarted node — when `openStorage` does not reset the log on disk, and, in case the log on disk starts exactly at the
newest snapshot, the last compacted-away entry has that snapshot's term -/
theorem restart_view3 (β : List Entry) (d : Durable) (retain : Nat) (sor : Bool) (n : Node)
    (hn : Node.restart d retain sor = some n) (hps : d.log.prev ≤ (headSnap d).index)
    (hlen : d.log.prev + d.log.entries.length ≤ d.log.flushed) (hst : staleLog d = false)
    (hlt : 0 < d.log.prev → d.log.prev = (headSnap d).index →
      (((pad β d.log.prev).getLast?).map (·.term)).getD 0 = (headSnap d).term) :
    Node.restart (uncD β d) retain sor = some (U β n) ∧ n.log.prev = d.log.prev ∧
    n.snapIndex = (headSnap d).index ∧ n.snapResult = none ∧ n.trace = [] := by
  obtain ⟨s1, s2, s3, s4⟩ := restart_shape d retain sor n hn
  rw [hst] at s4
  have s4 : n.log.prev = d.log.prev := s4
  have hreach := notstale_reaches d hst
  by_cases hA : d.log.prev = 0 ∨ d.log.prev < (headSnap d).index
  · have hnu : staleLog { d with log := uncLog β d.log } = false := by rw [staleLog_U d hA, hst]
    have hne : d.log.entries ≠ [] ∨ d.log.prev = 0 := by
      rcases hA with h | h
      · exact Or.inr h
      · left
        intro he
        have hl : d.log.last = d.log.prev := by unfold NLog.last; rw [he]; rfl
        omega
    rw [uncD_eq d hlen, restart_U d retain sor hne hst hnu hps, hn]
    exact ⟨rfl, s4, s1, s2, s3⟩
  · have hpe : d.log.prev = (headSnap d).index := by omega
    have hpos : 0 < d.log.prev := by omega
    have hterm := hlt hpos hpe
    -- the un-compacted log is not stale: at the snapshot index it holds the last compacted-away entry
    have hnu : staleLog { d with log := uncLog β d.log } = false := by
      unfold staleLog
      show (decide ((uncLog β d.log).last < (headSnap d).index) ||
        (decide ((uncLog β d.log).prev < (headSnap d).index) &&
          (((uncLog β d.log).get? (headSnap d).index).map (·.term) != some (headSnap d).term))) = false
      rw [uncLog_last, uncLog_prev]
      have h1 : decide (d.log.last < (headSnap d).index) = false := by simp; omega
      have hget : ((uncLog β d.log).get? (headSnap d).index).map (·.term) = some (headSnap d).term := by
        unfold NLog.get?
        show (if 0 < (headSnap d).index then (pad β d.log.prev ++ d.log.entries)[(headSnap d).index - 0 - 1]? else none).map
          (·.term) = _
        rw [if_pos (by omega), Nat.sub_zero, ← hpe,
          List.getElem?_append_left (by rw [pad_length]; omega)]
        have hg : (pad β d.log.prev).getLast? = (pad β d.log.prev)[d.log.prev - 1]? := by
          rw [List.getLast?_eq_getElem?, pad_length]
        rw [hg] at hterm
        have hlt' : d.log.prev - 1 < (pad β d.log.prev).length := by rw [pad_length]; omega
        rw [List.getElem?_eq_getElem hlt'] at hterm ⊢
        simp only [Option.map_some, Option.getD_some] at hterm ⊢
        rw [hterm]
      rw [h1, hget]
      simp
    by_cases he : d.log.entries = []
    · rw [uncD_eq d hlen, restart_U_empty d retain sor he hpe hpos hst hnu hterm, hn]
      exact ⟨rfl, s4, s1, s2, s3⟩
    · rw [uncD_eq d hlen, restart_U d retain sor (Or.inl he) hst hnu hps, hn]
      exact ⟨rfl, s4, s1, s2, s3⟩

end SnapInst3
end Raft
