/-
Delayed compaction (`leader.checkLogCompact`), part E — the side condition `Side5.rm` (`ldr.removeLTE ≤ snapIndex` on
every node) of `Raft.Snap5` DISCHARGED inside the system, at the price of two side conditions on CONFIGURATIONS (those of
`Snap4.Side4`, which this fixed-membership model does not track) and of an initial state whose leader records hold no
compaction bound.

`Reachable5c V`: the runs of `Snap5.Trans` in which every state satisfies `Side5c` = `Snap2.Side2` and
* `cfgord` — `configs.committed.index ≤ configs.latest.index ≤ lastLogIndex` on every node;
* `cfg`    — the index of a node's committed configuration is not above its commit index, or the tree of created entries
             never branched at or below that index (e.g. the bootstrap entry (1,1) all nodes start with).
Then (`reachable5c`): every such run is a run of `Reachable5`, and EVERY node of every reachable state is
`Order.Ordered` — in particular `ldr.removeLTE ≤ snapIndex` — by carrying the per-node invariant along the run:
`ordered_assemble2` (the orderings follow from the cluster invariant, the side conditions and the bound),
`C19Order.ordered_step` (its hypothesis `Order.ReqOk` is discharged inside the system: `appendOk_real2`, by commit safety
of the virtual cluster), `SnapInst4.restart_ldr` (a restarted node holds no bound).
-/
import RaftVerif.Lemmas.SnapDelayD
import RaftVerif.Lemmas.SnapInst4b

namespace Raft
namespace SnapDelay
open Node Election LogRel Replication CommitRel Commit C02Sys C03Sys SnapRel SnapRelU SnapSim Snap Snap2 SnapInv SnapInv2

section
variable {V : List Nat}

theorem vlog_length2 (x : Snap2.Sys) (i : Nat) : (x.vlog i).length = (x.node i).log.last := by
  show (pad (x.base i) (x.node i).log.prev ++ (x.node i).log.entries).length = _
  rw [List.length_append, pad_length]; rfl

/-- what the real node answers above its first index is what the (erased) virtual node answers -/
theorem entryTerm_real2 {x : Snap2.Sys} (hI : Inv2 V x) (i k : Nat) (hk : (x.node i).log.prev < k)
    (hle : k ≤ (x.node i).lastLogIndex) : (x.node i).entryTerm? k = some (termAt (x.vlog i) k) := by
  have hn : NWF ((eview (view x).cs).node i) := nwf hI.sinv.cinv i
  have hlast : (x.node i).lastLogIndex = ((eview (view x).cs).node i).log.entries.length := hn.last
  have := hn.entryTerm k (by omega) (by rw [← hlast]; exact hle)
  have e : ((eview (view x).cs).node i).entryTerm? k = (U (x.base i) (x.node i)).entryTerm? k := rfl
  rw [e, U_entryTerm? (x.node i) k hk] at this
  exact this

/-- **an append request of the ledger is acceptable at its receiver** -/
theorem appendOk_real2 {x : Snap2.Sys} (hI : Inv2 V x) {i : Nat} {q : AppendReq} (hq : q ∈ x.cs.rp.sent)
    (hst : ¬ q.term < (x.node i).term)
    (hcfg : (x.node i).configs.committed.index ≤ (x.node i).commitIndex ∨
      ∀ c ∈ x.cs.T, ∀ d ∈ x.cs.T, c.e.index = d.e.index → c.e.index ≤ (x.node i).configs.committed.index →
        c.e.term = d.e.term) : Order.AppendOk (x.node i) q := by
  have hc := hI.sinv.cinv
  have hq' : q ∈ (eview (view x).cs).rp.sent := hq
  have hst' : ¬ q.term < ((eview (view x).cs).node i).term := hst
  have hnc := reqok hc (i := i) hq' hst'
  have hn : NWF ((eview (view x).cs).node i) := nwf hc i
  have hlast : (x.node i).lastLogIndex = (x.vlog i).length := hn.last
  have hidx := (hc.rp.sent q hq').idx
  refine ⟨chainB_of_idx _ _ hidx, fun ne hne hle hsn hdiff => ?_⟩
  have hp : (x.node i).log.prev < ne.index := by have := (hI.prev i).le; omega
  have het := entryTerm_real2 hI i ne.index hp hle
  have h1 : 1 ≤ ne.index := by omega
  have hci : (x.node i).commitIndex < ne.index := by
    apply Nat.lt_of_not_le
    intro hle'
    apply hdiff
    rw [het]
    have := hnc ne hne hle'
    have e : ((eview (view x).cs).node i).log.entries = x.vlog i := rfl
    rw [e] at this
    rw [this]
  refine ⟨hci, ?_⟩
  rcases hcfg with hcfg | hcfg
  · omega
  · apply Nat.lt_of_not_le
    intro hle'
    apply hdiff
    rw [het]
    have hlen : ne.index ≤ (x.vlog i).length := by rw [← hlast]; exact hle
    obtain ⟨c, hcm, ck⟩ := log_record hc i (k := ne.index) (τ := termAt (x.vlog i) ne.index) ⟨h1, hlen, rfl⟩
    obtain ⟨c', hc', _, c2, _⟩ := hc.sent.anc q hq'
    obtain ⟨_, es, hpth, _, ha⟩ := c2 ne hne
    obtain ⟨d, hd, d1, d2, _⟩ := path_record hpth ha
    unfold key at ck
    simp only [Prod.mk.injEq] at ck
    have := hcfg c hcm d hd (by rw [ck.1, d1]) (by rw [ck.1]; exact hle')
    rw [← ck.2, this, d2]

/-- **every operation delivered in `Raft.Snap5` is acceptable at its receiver** (`Order.ReqOk`) -/
theorem reqOk5 {x : Snap2.Sys} (hI : Inv2 V x) {i : Nat} {op : Op} {src : Nat} (en : Snap5.Enabled x.cs i op src)
    (hcfg : (x.node i).configs.committed.index ≤ (x.node i).commitIndex ∨
      ∀ c ∈ x.cs.T, ∀ d ∈ x.cs.T, c.e.index = d.e.index → c.e.index ≤ (x.node i).configs.committed.index →
        c.e.term = d.e.term) : Order.ReqOk (x.node i) op := by
  cases op with
  | append q =>
    show q.term < (x.node i).term ∨ Order.AppendOk (x.node i) q
    by_cases hst : q.term < (x.node i).term
    · exact Or.inl hst
    · exact Or.inr (appendOk_real2 hI ((en.append q rfl).resolve_left hst) hst hcfg)
  | install q => exact (en.ok2.1).elim
  | _ => trivial

/-- Side condition on every state of a run: `Snap2.Side2` and two conditions on configurations. -/
structure Side5c (V : List Nat) (x : Snap2.Sys) : Prop where
  side : Side2 V x
  cfgord : ∀ i, (x.node i).configs.committed.index ≤ (x.node i).configs.latest.index ∧
    (x.node i).configs.latest.index ≤ (x.node i).lastLogIndex
  cfg : ∀ i, (x.node i).configs.committed.index ≤ (x.node i).commitIndex ∨
    ∀ c ∈ x.cs.T, ∀ d ∈ x.cs.T, c.e.index = d.e.index → c.e.index ≤ (x.node i).configs.committed.index →
      c.e.term = d.e.term

/-- **the orderings of a node**, from the cluster invariant, the side conditions on configurations and the bound on the
compaction bookkeeping of the leader record -/
theorem ordered_assemble2 {x : Snap2.Sys} (hI : Inv2 V x) (hS : Side5c V x) (i : Nat)
    (hr : (x.node i).ldr.removeLTE ≤ (x.node i).snapIndex) : Order.Ordered (x.node i) := by
  have hc := hI.sinv.cinv
  have hn : NWF ((eview (view x).cs).node i) := nwf hc i
  have so : SnapOK (x.vnode i) := hI.sinv.snap i
  have hlast : (x.node i).lastLogIndex = (x.vlog i).length := hn.last
  have fb : FB ((eview (view x).cs).node i) := hI.sinv.fsm i
  refine ⟨⟨by rw [hlast, vlog_length2], (hI.prev i).le, so.le, fb.fsm.le, (hS.cfgord i).1, (hS.cfgord i).2,
    hS.side.segs i, hr, (hI.prev i).res⟩, ?_⟩
  by_cases h0 : (x.node i).commitIndex = 0
  · rw [h0]; exact Nat.zero_le _
  · have := (hc.cmt.cc i (x.node i).commitIndex (by omega) (Nat.le_refl _)).1
    rw [hlast]; exact this

/-- Initial states: those of stage 2 whose leader records hold no compaction bound. -/
structure Init5c (x : Snap2.Sys) : Prop where
  init : Snap2.Init x
  rm : ∀ i, (x.node i).ldr.removeLTE = 0

/-- States reachable by runs of `Snap5.Trans` in which `Side5c V` holds in every state. -/
inductive Reachable5c (V : List Nat) : Snap2.Sys → Prop
  | init (x : Snap2.Sys) : Init5c x → Side5c V x → Reachable5c V x
  | next (x y : Snap2.Sys) : Reachable5c V x → Snap5.Trans x y → Side5c V y → Reachable5c V y

/-- the bound after a transition -/
theorem rm_trans {x y : Snap2.Sys} (hI : Inv2 V x) (hS : Side5c V x)
    (hr : ∀ i, (x.node i).ldr.removeLTE ≤ (x.node i).snapIndex) (ht : Snap5.Trans x y) :
    ∀ i, (y.node i).ldr.removeLTE ≤ (y.node i).snapIndex := by
  cases ht with
  | step i op ra ord src en hp =>
    intro j
    by_cases hj : j = i
    · subst hj
      rw [stepS_node_i]
      have ho := ordered_assemble2 hI hS j (hr j)
      exact (C19Order.ordered_step _ op ra ord ho (reqOk5 hI en (hS.cfg j)) hp).removeLTE_le
    · rw [stepS_node_j _ _ _ _ _ _ hj]; exact hr j
  | crash i op ra ord src k retain sor n en hret hp hbc hn =>
    intro j
    by_cases hj : j = i
    · subst hj
      rw [crashS_node_i, SnapInst4.restart_ldr _ retain sor n hn]
      exact Nat.zero_le _
    · rw [crashS_node_j _ _ _ _ hj]; exact hr j
  | send i q hi hl hrd hc => exact hr

/-- **every run with the configuration side conditions is a run of `Raft.Snap5`, and every node of every reachable
state is ordered** -/
theorem reachable5c (hV : V.Nodup) {x : Snap2.Sys} (h : Reachable5c V x) :
    Snap5.Reachable5 V x ∧ Side5c V x ∧ ∀ i, Order.Ordered (x.node i) := by
  have key : Snap5.Reachable5 V x ∧ Side5c V x := by
    induction h with
    | init x hi hs =>
      exact ⟨.init x hi.init ⟨hs.side, fun i => by rw [hi.rm i]; exact Nat.zero_le _⟩, hs⟩
    | next x y _ ht hs ih =>
      obtain ⟨hI, hS5⟩ := inv5_reachable hV ih.1
      exact ⟨.next x y ih.1 ht ⟨hs.side, rm_trans hI.inv2 ih.2 hS5.rm ht⟩, hs⟩
  obtain ⟨hI, hS5⟩ := inv5_reachable hV key.1
  exact ⟨key.1, key.2, fun i => ordered_assemble2 hI.inv2 key.2 i (hS5.rm i)⟩

end

end SnapDelay
end Raft
