import RaftVerif.Lemmas.SegDisk
/-!
Helper lemmas for the `GetN`-through-a-view part of C13 (`view_getN_stable`).  Core Lean only.
-/
namespace Raft.SL

/-- Every segment (identified by prevIndex) of `s` still exists in `s'`. -/
def PrevsPersist (s s' : SegLog) : Prop := ∀ y ∈ s.segs, ∃ x ∈ s'.segs, x.prev = y.prev

theorem prevsPersist_refl (s : SegLog) : PrevsPersist s s := fun y hy => ⟨y, hy, rfl⟩

theorem prevsPersist_trans {a b c : SegLog} (h1 : PrevsPersist a b) (h2 : PrevsPersist b c) :
    PrevsPersist a c := by
  intro y hy
  obtain ⟨x, hx, e⟩ := h1 y hy
  obtain ⟨z, hz, e'⟩ := h2 x hx
  exact ⟨z, hz, by omega⟩

theorem prevsPersist_sync_last (s : SegLog) : PrevsPersist s { s with last := s.last.sync } := by
  intro y hy
  rcases List.mem_cons.1 hy with rfl | hy
  · exact ⟨s.last.sync, by simp [SegLog.segs], by simp⟩
  · exact ⟨y, by simp [SegLog.segs, hy], rfl⟩

theorem prevsPersist_op {s : SegLog} (h : Inv s) {op : Op} (ha : op.appendish = true) :
    PrevsPersist s (s.run [op]) := by
  cases op with
  | append b =>
    simp only [SegLog.run, SegLog.apply]
    unfold SegLog.append
    by_cases hav : s.last.available < (b.length : Int)
    · by_cases hn : s.last.n = 0
      · simp only [hav, hn, if_true]; exact prevsPersist_refl s
      · simp only [hav, hn, if_true, if_false]
        rw [commit_eq h]
        intro y hy
        rcases List.mem_cons.1 hy with rfl | hy
        · exact ⟨s.last.sync, by simp [SegLog.segs], by simp⟩
        · exact ⟨y, by simp [SegLog.segs, hy], rfl⟩
    · simp only [hav, if_false]
      intro y hy
      rcases List.mem_cons.1 hy with rfl | hy
      · exact ⟨s.last.append b, by simp [SegLog.segs], by simp [Seg.append]⟩
      · exact ⟨y, by simp [SegLog.segs, hy], rfl⟩
  | commitN n =>
    simp only [SegLog.run, SegLog.apply]
    rcases commitN_shape h n with e | e <;> rw [e]
    · exact prevsPersist_refl s
    · exact prevsPersist_sync_last s
  | commit =>
    simp only [SegLog.run, SegLog.apply]
    rw [commit_eq h]
    exact prevsPersist_sync_last s
  | removeLTE i => simp [Op.appendish] at ha
  | removeGTE i => simp [Op.appendish] at ha
  | reset j => simp [Op.appendish] at ha
  | closeOpen ss => simp [Op.appendish] at ha

theorem appendish_valid {op : Op} (ha : op.appendish = true) : op.valid := by
  cases op <;> simp [Op.appendish] at ha <;> trivial

theorem prevsPersist_run {s : SegLog} (h : Inv s) (ops : List Op) (ha : ∀ o ∈ ops, o.appendish = true) :
    PrevsPersist s (s.run ops) := by
  induction ops generalizing s with
  | nil => exact prevsPersist_refl s
  | cons op ops ih =>
    have hop := ha op (by simp)
    rw [run_cons]
    exact prevsPersist_trans (prevsPersist_op h hop)
      (ih (op_inv h (appendish_valid hop)) (fun o ho => ha o (List.mem_cons_of_mem _ ho)))

/-- Second half of view validity: the `last` pointer's segment exists, and it is not older than the
`first` pointer's. -/
def ViewOK2 (v : View) (l : SegLog) : Prop :=
  match v.lastPrev with
  | none => True
  | some lp => (∃ x ∈ l.segs, x.prev = lp) ∧ (v.p < v.l → v.firstPrev ≤ lp)

theorem viewOK2_mono {v : View} {s s' : SegLog} (hv : ViewOK2 v s) (hp : PrevsPersist s s') :
    ViewOK2 v s' := by
  unfold ViewOK2 at hv ⊢
  cases hl : v.lastPrev with
  | none => trivial
  | some lp =>
    rw [hl] at hv
    obtain ⟨⟨x, hx, e⟩, h2⟩ := hv
    obtain ⟨z, hz, e'⟩ := hp x hx
    exact ⟨⟨z, hz, by omega⟩, h2⟩

theorem find_first_ge {ss : List Seg} {l : Nat} {seg : Seg} (hd : Desc ss)
    (h : ss.find? (fun s => decide (l > s.prev)) = some seg) :
    seg ∈ ss ∧ l > seg.prev ∧ ∀ y ∈ ss, l > y.prev → y.prev ≤ seg.prev := by
  induction ss with
  | nil => simp at h
  | cons x rest ih =>
    have hdx := List.pairwise_cons.1 hd
    by_cases hx : l > x.prev
    · simp [List.find?, hx] at h
      subst h
      refine ⟨by simp, hx, ?_⟩
      intro y hy _
      rcases List.mem_cons.1 hy with rfl | hy
      · exact Nat.le_refl _
      · have := hdx.1 y hy; omega
    · simp [List.find?, hx] at h
      obtain ⟨i1, i2, i3⟩ := ih hdx.2 h
      refine ⟨List.mem_cons_of_mem _ i1, i2, ?_⟩
      intro y hy hly
      rcases List.mem_cons.1 hy with rfl | hy
      · omega
      · exact i3 y hy hly

theorem viewAt_ok2 {s : SegLog} (h : Inv s) {p l : Nat} {v : View}
    (hv : s.viewAt p l = .ok (some v)) : ViewOK2 v s := by
  obtain ⟨hok, ep, el⟩ := viewAt_ok h hv
  unfold SegLog.viewAt at hv
  by_cases h1 : l > s.lastIndex
  · simp [h1] at hv
  · by_cases h2 : p > l ∨ p < s.prevIndex
    · simp [h1, h2] at hv
    · simp only [h1, h2, if_false] at hv
      cases hw : walkFirst p s.segs with
      | none => simp [hw] at hv
      | some fp =>
        simp only [hw] at hv
        obtain ⟨⟨y, hy, ey⟩, hle⟩ := walkFirst_spec hw
        unfold segmentOf at hv
        simp only [h1, if_false] at hv
        by_cases h3 : l ≤ s.prevIndex
        · simp [h3] at hv
          subst hv
          simp [ViewOK2]
        · simp only [h3, if_false] at hv
          have hf := findSeg_fst l s.segs []
          cases hfs : findSeg l s.segs [] with
          | none =>
            rw [hfs] at hv
            simp at hv
            subst hv
            simp [ViewOK2]
          | some sa =>
            rw [hfs] at hv hf
            simp at hv
            subst hv
            obtain ⟨m1, m2, m3⟩ := find_first_ge (inv_desc h) hf.symm
            simp only [ViewOK2, Option.map]
            refine ⟨⟨sa.1, m1, rfl⟩, ?_⟩
            intro hpl
            have hpl' : p < l := hpl
            have t : y.prev ≤ sa.1.prev := m3 y hy (by omega)
            show fp ≤ sa.1.prev
            omega

/-! ## Shape of the segment list a view sees -/

theorem dropWhile_shape {ss : List Seg} {lp : Nat} (hd : Desc ss) (hm : ∃ x ∈ ss, x.prev = lp) :
    ∃ pre x rest, ss = pre ++ x :: rest ∧ x.prev = lp ∧
      ss.dropWhile (fun s => decide (s.prev > lp)) = x :: rest ∧ ∀ y ∈ pre, y.prev > lp := by
  induction ss with
  | nil => obtain ⟨x, hx, _⟩ := hm; simp at hx
  | cons a rest ih =>
    obtain ⟨x, hx, e⟩ := hm
    have hdx := List.pairwise_cons.1 hd
    by_cases ha : a.prev > lp
    · have hx' : x ∈ rest := by
        rcases List.mem_cons.1 hx with rfl | hx
        · omega
        · exact hx
      obtain ⟨pre, x', rest', e1, e2, e3, e4⟩ := ih hdx.2 ⟨x, hx', e⟩
      refine ⟨a :: pre, x', rest', by rw [e1]; rfl, e2, by simp [List.dropWhile, ha, e3], ?_⟩
      intro y hy
      rcases List.mem_cons.1 hy with rfl | hy
      · exact ha
      · exact e4 y hy
    · have hax : a.prev = lp := by
        rcases List.mem_cons.1 hx with rfl | hx
        · exact e
        · have := hdx.1 x hx; omega
      exact ⟨[], a, rest, rfl, hax, by simp [List.dropWhile, ha], by simp⟩

theorem takeWhile_shape {ss : List Seg} {fp : Nat} (hd : Desc ss) (hm : ∃ x ∈ ss, x.prev = fp) :
    ∃ post', ss = ss.takeWhile (fun s => decide (s.prev ≥ fp)) ++ post' ∧
      ∃ y, y ∈ ss.takeWhile (fun s => decide (s.prev ≥ fp)) ∧ y.prev = fp ∧
        ∀ z ∈ ss.takeWhile (fun s => decide (s.prev ≥ fp)), fp ≤ z.prev := by
  induction ss with
  | nil => obtain ⟨x, hx, _⟩ := hm; simp at hx
  | cons a rest ih =>
    obtain ⟨x, hx, e⟩ := hm
    have hdx := List.pairwise_cons.1 hd
    have ha : a.prev ≥ fp := by
      rcases List.mem_cons.1 hx with rfl | hx
      · omega
      · have := hdx.1 x hx; omega
    by_cases hax : a.prev = fp
    · have hnil : rest.takeWhile (fun s => decide (s.prev ≥ fp)) = [] := by
        cases rest with
        | nil => rfl
        | cons b bs =>
          have hb : ¬ (b.prev ≥ fp) := by have := hdx.1 b (by simp); omega
          simp [List.takeWhile, hb]
      refine ⟨rest, by simp [List.takeWhile, ha, hnil], a, by simp [List.takeWhile, ha], hax, ?_⟩
      intro z hz
      simp [List.takeWhile, ha, hnil] at hz
      subst hz
      omega
    · have hx' : x ∈ rest := by
        rcases List.mem_cons.1 hx with rfl | hx
        · omega
        · exact hx
      obtain ⟨post', e1, y, hy, ey, hz⟩ := ih hdx.2 ⟨x, hx', e⟩
      refine ⟨post', ?_, y, ?_, ey, ?_⟩
      · simp only [List.takeWhile, ha, decide_true, List.cons_append]; rw [← e1]
      · simp only [List.takeWhile, ha, decide_true]; exact List.mem_cons_of_mem _ hy
      · intro z hz'
        simp only [List.takeWhile, ha, decide_true] at hz'
        rcases List.mem_cons.1 hz' with rfl | hz'
        · exact ha
        · exact hz z hz'


theorem chainPrev_mem (p : Nat) (ys : List Seg) (x : Seg) (hx : x.prev = p) :
    ∃ z ∈ x :: ys, z.prev = chainPrev p ys := by
  refine ⟨lastD ys x, lastD_mem ys x, ?_⟩
  rw [lastD_prev, hx]

/-- `GetN` through a valid view = `GetN` on the log itself, for ranges inside the view. -/
theorem view_getN_eq {s : SegLog} (h : Inv s) {v : View} (hv : ViewOK v s) (hv2 : ViewOK2 v s)
    {i n : Nat} (h1 : v.p < i) (hn : 0 < n) (h2 : i + (n - 1) ≤ v.l) :
    flatChunks (v.getN s i n) = (abs s).getN i n := by
  obtain ⟨hm, hfp, hl, hlp⟩ := hv
  unfold ViewOK2 at hv2
  cases hlpv : v.lastPrev with
  | none => rw [hlpv] at hlp; simp at hlp; omega
  | some lp =>
    rw [hlpv] at hlp hv2
    simp only [] at hlp
    obtain ⟨hlpm, hfl⟩ := hv2
    have hfplp : v.firstPrev ≤ lp := hfl (by omega)
    have hd := inv_desc h
    obtain ⟨pre, x, rest, e1, ex, edw, hpre⟩ := dropWhile_shape hd hlpm
    have hdx : Desc (x :: rest) := by
      have := List.pairwise_append.1 (e1 ▸ hd); exact this.2.1
    have hfm : ∃ y ∈ x :: rest, y.prev = v.firstPrev := by
      obtain ⟨y, hy, ey⟩ := hm
      rw [e1] at hy
      rcases List.mem_append.1 hy with hy | hy
      · have := hpre y hy; omega
      · exact ⟨y, hy, ey⟩
    obtain ⟨post', e2, y, hy, ey, hz⟩ := takeWhile_shape hdx hfm
    have hxfp : x.prev ≥ v.firstPrev := by omega
    have etw : (x :: rest).takeWhile (fun s => decide (s.prev ≥ v.firstPrev)) =
        x :: rest.takeWhile (fun s => decide (s.prev ≥ v.firstPrev)) := by
      simp [List.takeWhile, hxfp]
    obtain ⟨ys, hys⟩ : ∃ ys, rest.takeWhile (fun s => decide (s.prev ≥ v.firstPrev)) = ys := ⟨_, rfl⟩
    rw [etw, hys] at e2 hy hz
    have erest : rest = ys ++ post' := by
      have := e2; simp only [List.cons_append, List.cons.injEq, true_and] at this; exact this
    have hsegs : s.segs = pre ++ x :: (ys ++ post') := by rw [e1, erest]
    obtain ⟨w1, w2, w3, w4, w5, w6⟩ := window_sub h hsegs x.n
    -- the oldest segment the view sees is the `first` pointer's
    have hcp : chainPrev x.prev ys = v.firstPrev := by
      obtain ⟨z, hzm, ez⟩ := chainPrev_mem x.prev ys x rfl
      have hge := hz z hzm
      have hle : chainPrev x.prev ys ≤ y.prev := by
        rcases List.mem_cons.1 hy with rfl | hy'
        · exact chainPrev_le w2
        · exact chainPrev_le_mem w2 y hy'
      omega
    -- the `last` pointer's segment still covers `l`
    have hlx : v.l ≤ x.prev + x.n := by
      cases pre with
      | nil =>
        simp only [SegLog.segs, List.nil_append, List.cons.injEq] at hsegs
        rw [← hsegs.1]; simpa [SegLog.lastIndex, Seg.lastIndex] using hl
      | cons p0 pre' =>
        simp only [SegLog.segs, List.cons_append, List.cons.injEq] at hsegs
        have hc := h.2.1
        rw [hsegs.2] at hc
        obtain ⟨_, cx⟩ := chain_append hc
        obtain ⟨c1, _⟩ := cx
        obtain ⟨z, hzm, ez⟩ := chainPrev_mem s.last.prev pre' p0 (by rw [hsegs.1])
        have hzs : z ∈ s.segs := by rw [e1]; exact List.mem_append_left _ hzm
        have := hlp z hzs (by have := hpre z hzm; omega)
        omega
    -- left side
    have hvs : v.segs s.segs = x :: ys := by
      simp only [View.segs, hlpv, edw, etw, hys]
    have hil : i ≤ v.l := by omega
    obtain ⟨seg, nexts, pre'', f1, f2, f3, f4, f5, f6⟩ :=
      findSeg_spec i ys x [] w2 trivial (by omega) (by omega)
    simp only [fwd, List.append_nil] at f5
    have hlen := congrArg List.length f5
    simp only [List.length_append] at hlen
    have hxl : x.entries.length = x.n := rfl
    obtain ⟨chunks, ec, fc⟩ := getNLoop_spec nexts seg i n f2 f3 f4 hn (by
      simp only [List.length_append]; omega)
    have hL : flatChunks (v.getN s i n) =
        .ok (((seg.entries ++ fwd nexts).drop (i - seg.prev - 1)).take n).flatten := by
      unfold View.getN getNIn segmentOf
      rw [hvs, if_neg (by omega), if_neg (by omega), if_neg (by omega)]
      simp only [f1, if_neg (Nat.ne_of_gt hn), ec, flatChunks_ok, fc]
    rw [hL]
    -- right side
    obtain ⟨A, T, eA, epA⟩ := w1
    have htl : List.take x.n x.entries = x.entries := List.take_length
    simp only [htl] at eA epA
    have hLI := abs_lastIndex h
    unfold AbsLog.getN
    rw [hLI, if_neg (by omega), if_neg (by omega), if_neg (by rw [abs_prev]; simp only [abs_prev] at epA; omega)]
    congr 2
    rw [eA, f5]
    have hk : i - (abs s).prev - 1 = (A ++ pre'').length + (i - seg.prev - 1) := by
      simp only [List.length_append]; omega
    have hre : A ++ (pre'' ++ (seg.entries ++ fwd nexts)) ++ T =
        (A ++ pre'') ++ ((seg.entries ++ fwd nexts) ++ T) := by simp
    rw [hre, hk, drop_len_add]
    have hRl : (seg.entries ++ fwd nexts).length = seg.entries.length + (fwd nexts).length :=
      List.length_append
    have hsn : seg.entries.length = seg.n := rfl
    have hb1 : i - seg.prev - 1 ≤ (seg.entries ++ fwd nexts).length := by omega
    have hb2 : n ≤ (List.drop (i - seg.prev - 1) (seg.entries ++ fwd nexts)).length := by
      rw [List.length_drop]; omega
    rw [List.drop_append_of_le_length hb1, List.take_append_of_le_length hb2]

theorem absgetN_extend (a : AbsLog) (extra : List Bytes) {i n : Nat} (hn : 0 < n)
    (hj : i + (n - 1) ≤ a.lastIndex) :
    ({ a with entries := a.entries ++ extra } : AbsLog).getN i n = a.getN i n := by
  unfold AbsLog.getN AbsLog.lastIndex
  simp only [AbsLog.lastIndex] at hj
  simp only [List.length_append]
  have c1 : ¬ ((n = 0 ∧ (i = 0 ∨ i - 1 > a.prev + (a.entries.length + extra.length))) ∨
      (n > 0 ∧ i + (n - 1) > a.prev + (a.entries.length + extra.length))) := by omega
  have c2 : ¬ (i > a.prev + (a.entries.length + extra.length)) := by omega
  have c3 : ¬ ((n = 0 ∧ (i = 0 ∨ i - 1 > a.prev + a.entries.length)) ∨
      (n > 0 ∧ i + (n - 1) > a.prev + a.entries.length)) := by omega
  have c4 : ¬ (i > a.prev + a.entries.length) := by omega
  rw [if_neg c1, if_neg c2, if_neg c3, if_neg c4]
  by_cases h2 : i ≤ a.prev
  · rw [if_pos h2, if_pos h2]
  · rw [if_neg h2, if_neg h2]
    congr 2
    rw [List.drop_append_of_le_length (by omega)]
    rw [List.take_append_of_le_length (by simp only [List.length_drop]; omega)]

end Raft.SL
