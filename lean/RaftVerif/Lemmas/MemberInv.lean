/-
The cluster-level invariant that ties the ledgers of `Member.Sys` (Sys/Member.lean: the transition system WITH
membership changes) to the local rules `MemberCore.Rules` of the single-server-change argument — definitions and the
STATIC part (what follows from the invariant in one state). The dynamic part (every transition preserves it) is in
Lemmas/MemberStep.lean; the theorems are in Props/C02Member.lean.

Part 0 — `MemberCore.member_safety` with the rule `mono` in its STRICT form (`LocalS`): the rule as stated in
`MemberCore.Local` ("`r.l.1 ≤ r'.l.1 → r.m.1 ≤ r'.m.1`") is violated by a leader that commits twice while its log has
the same length; only the strict form (`r.l.1 < r'.l.1 → …`) is true of the code — and it suffices: keep, for every
(term, log length), the commit record with the largest index (`safety_strict`).
-/
import RaftVerif.Props.C04Member
import RaftVerif.Lemmas.MemberCommit
import RaftVerif.Lemmas.MemberFollow

namespace Raft
namespace MemberInv
open Node Election LogRel Replication CommitRel Commit Member MemberCore QuorumRel

/-! ## Part 0: the strict form of the monotonicity rule suffices -/

/-- `MemberCore.Local True` with the rule `mono` in the strict form -/
structure LocalS (d : Data) : Prop where
  rootC : d.isC d.root
  rootA : ∀ a, d.N a → d.A d.root a
  cfgN : ∀ a, d.isC a → d.N a
  vnd : ∀ a, d.isC a → (d.V a).Nodup
  tb : ∀ c e, d.N c → d.N e → c.2 = e.2 → d.cr c = d.cr e → c.1 ≤ e.1 → d.A c e
  init : ∀ c, d.N c → d.cr c = 0 → ∀ r ∈ d.R, c.2 ≤ r.m.2
  recd : ∀ r ∈ d.R, r.m.2 = r.l.2 ∧ d.A r.m r.l ∧ d.cr r.l ≠ 0 ∧
    ∃ D, LastCfg d D r.l ∧ r.Q.Nodup ∧ (∀ v ∈ r.Q, v ∈ d.V D) ∧ 2 * r.Q.length > (d.V D).length ∧
      ∀ v ∈ r.Q, ∃ a, d.acked v r.m.2 a ∧ d.A r.m a
  /-- the commit index of a leader does not decrease while its log GROWS -/
  mono : ∀ r ∈ d.R, ∀ r' ∈ d.R, r.m.2 = r'.m.2 → r.l.1 < r'.l.1 → r.m.1 ≤ r'.m.1
  chain : ∀ c, d.isC c → c ≠ d.root → d.cr c ≠ 0 ∧
    ∃ P r, r ∈ d.R ∧ Prev d P c ∧ AdjLists (d.V P) (d.V c) ∧ r.m.2 = c.2 ∧ r.l.1 < c.1 ∧ d.A P r.m
  creator : ∀ c, d.N c → d.cr c ≠ 0 → ∃ e ∈ d.E, e.cand = d.cr c ∧ e.term = c.2 ∧ d.A e.last c
  elect : ∀ e ∈ d.E, e.last.2 < e.term ∧ d.N e.last ∧
    ∃ D, LastCfg d D e.last ∧ e.Q.Nodup ∧ (∀ v ∈ e.Q, v ∈ d.V D) ∧ 2 * e.Q.length > (d.V D).length ∧
      ∀ v ∈ e.Q, d.granted v e.term e.cand ∧ UpToC d e v

/-- the record `r` is not dominated by a record of the same term and log length -/
def Maximal (R : List Rec) (r : Rec) : Bool :=
  R.all (fun r' => !(r'.m.2 == r.m.2 && r'.l.1 == r.l.1) || decide (r'.m.1 ≤ r.m.1))

theorem maximal_iff (R : List Rec) (r : Rec) :
    Maximal R r = true ↔ ∀ r' ∈ R, r'.m.2 = r.m.2 → r'.l.1 = r.l.1 → r'.m.1 ≤ r.m.1 := by
  unfold Maximal
  simp only [List.all_eq_true, Bool.or_eq_true, Bool.not_eq_true', Bool.and_eq_false_iff, beq_eq_false_iff_ne,
    ne_eq, decide_eq_true_eq]
  constructor
  · intro h r' hr' e1 e2
    rcases h r' hr' with (h1 | h1) | h1
    · exact absurd e1 h1
    · exact absurd e2 h1
    · exact h1
  · intro h r' hr'
    by_cases e1 : r'.m.2 = r.m.2
    · by_cases e2 : r'.l.1 = r.l.1
      · exact Or.inr (h r' hr' e1 e2)
      · exact Or.inl (Or.inr e2)
    · exact Or.inl (Or.inl e1)

/-- every record is dominated by a maximal record of its term and log length -/
theorem exists_maximal (R : List Rec) (hb : ∀ r ∈ R, r.m.1 ≤ r.l.1) :
    ∀ (n : Nat) (r : Rec), r ∈ R → r.l.1 - r.m.1 ≤ n →
      ∃ r' ∈ R, r'.m.2 = r.m.2 ∧ r'.l.1 = r.l.1 ∧ r.m.1 ≤ r'.m.1 ∧ Maximal R r' = true := by
  intro n
  induction n with
  | zero =>
    intro r hr hn
    refine ⟨r, hr, rfl, rfl, Nat.le_refl _, (maximal_iff R r).mpr (fun r' hr' _ e2 => ?_)⟩
    have := hb r' hr'; have := hb r hr; omega
  | succ n ih =>
    intro r hr hn
    by_cases hm : Maximal R r = true
    · exact ⟨r, hr, rfl, rfl, Nat.le_refl _, hm⟩
    · have : ¬ ∀ r' ∈ R, r'.m.2 = r.m.2 → r'.l.1 = r.l.1 → r'.m.1 ≤ r.m.1 := fun h => hm ((maximal_iff R r).mpr h)
      have hex : ∃ r' ∈ R, r'.m.2 = r.m.2 ∧ r'.l.1 = r.l.1 ∧ r.m.1 < r'.m.1 := by
        apply Classical.byContradiction
        intro hno
        apply this
        intro r' hr' e1 e2
        apply Classical.byContradiction
        intro hlt
        exact hno ⟨r', hr', e1, e2, by omega⟩
      obtain ⟨r1, hr1, e1, e2, e3⟩ := hex
      have := hb r1 hr1
      obtain ⟨r2, hr2, f1, f2, f3, f4⟩ := ih r1 hr1 (by omega)
      exact ⟨r2, hr2, f1.trans e1, f2.trans e2, by omega, f4⟩

/-- the ledgers with, for every (term, log length), only the commit record with the largest index -/
def filterD (d : Data) : Data := { d with R := d.R.filter (Maximal d.R) }

theorem filterD_sub {d : Data} : ∀ r ∈ (filterD d).R, r ∈ d.R := fun _ hr => (List.mem_filter.mp hr).1

/-- every record is dominated by a record that is kept -/
theorem filterD_dom {d : Data} (hF : Forest d) (hL : LocalS d) :
    ∀ r ∈ d.R, ∃ r' ∈ (filterD d).R, r'.m.2 = r.m.2 ∧ r'.l = r.l ∧ d.A r.m r'.m := by
  have hb : ∀ r ∈ d.R, r.m.1 ≤ r.l.1 := fun r hr => hF.idx _ _ (hL.recd r hr).2.1
  intro r hr
  obtain ⟨r', hr', e1, e2, e3, e4⟩ := exists_maximal d.R hb _ r hr (Nat.le_refl _)
  obtain ⟨a1, a2, _⟩ := hL.recd r hr
  obtain ⟨b1, b2, _⟩ := hL.recd r' hr'
  have hl : r'.l = r.l := Prod.ext e2 (by rw [← b1, ← a1, e1])
  refine ⟨r', List.mem_filter.mpr ⟨hr', e4⟩, e1, hl, ?_⟩
  rw [hl] at b2
  exact hF.cmp _ _ _ a2 b2 e3

/-- the filtered ledgers obey `MemberCore.Rules` -/
theorem filterD_rules {d : Data} (hF : Forest d) (hL : LocalS d)
    (hg : ∀ v t c c', d.granted v t c → d.granted v t c' → c = c') : Rules (filterD d) :=
  { refl := hF.refl, node := hF.node, trans := hF.trans, cmp := hF.cmp, eqi := hF.eqi, idx := hF.idx, trm := hF.trm
    rootC := hL.rootC, rootA := hL.rootA, cfgN := hL.cfgN, vnd := hL.vnd, tb := hL.tb
    init := fun c hc h0 r hr => hL.init c hc h0 r (filterD_sub r hr)
    recd := fun r hr => hL.recd r (filterD_sub r hr)
    mono := fun r hr r' hr' et hl => by
      rcases Nat.lt_or_ge r.l.1 r'.l.1 with h1 | h1
      · exact hL.mono r (filterD_sub r hr) r' (filterD_sub r' hr') et h1
      · have hm := (maximal_iff d.R r').mp (List.mem_filter.mp hr').2
        exact hm r (filterD_sub r hr) et (by omega)
    chain := fun c hc hne => by
      obtain ⟨h0, P, r, hr, h1, h2, h3, h4, h5⟩ := hL.chain c hc hne
      obtain ⟨r', hr', e1, e2, e3⟩ := filterD_dom hF hL r hr
      exact ⟨h0, P, r', hr', h1, h2, fun _ => e1.trans h3, by rw [e2]; exact h4, hF.trans _ _ _ h5 e3⟩
    creator := hL.creator
    elect := fun e he => by
      obtain ⟨h1, h2, D, h3, h4, h5, h6, h7⟩ := hL.elect e he
      exact ⟨h1, h2, D, h3, h4, h5, h6, fun v hv => ⟨(h7 v hv).1, fun r hr => (h7 v hv).2 r (filterD_sub r hr)⟩⟩
    grantU := hg }

/-- **`MemberCore.member_safety` from the rules with the strict monotonicity rule**: leader completeness (tree form)
and one creator per term. -/
theorem safety_strict {d : Data} (hF : Forest d) (hL : LocalS d)
    (hg : ∀ v t c c', d.granted v t c → d.granted v t c' → c = c') :
    (∀ r ∈ d.R, ∀ c, d.N c → r.m.2 < c.2 → d.A r.m c) ∧
    (∀ c c', d.N c → d.N c' → c.2 = c'.2 → d.cr c ≠ 0 → d.cr c' ≠ 0 → d.cr c = d.cr c') := by
  obtain ⟨lc, es⟩ := member_safety (filterD_rules hF hL hg)
  refine ⟨fun r hr c hc hlt => ?_, es⟩
  obtain ⟨r', hr', e1, _, e3⟩ := filterD_dom hF hL r hr
  exact hF.trans _ _ _ e3 (lc r' hr' c hc (by rw [e1]; exact hlt))

/-! ### two candidates of one term that both hold a majority of grants -/

/-- **the up-to-date check as it holds when a vote is granted** (non-strict): what voter `v` acknowledged below a
committed key before it granted its vote for the term of `e` is extended by the log `e.last` the candidate campaigned
with — unless some entry of a term up to (and including) the election's does not extend it -/
def GrantUp (d : Data) (e : El) (v : Nat) : Prop :=
  ∀ r ∈ d.R, r.m.2 < e.term → ∀ a, d.acked v r.m.2 a → d.A r.m a →
    d.A r.m e.last ∨ ∃ c, d.N c ∧ r.m.2 < c.2 ∧ c.2 ≤ e.term ∧ ¬ d.A r.m c

/-- what is known of a candidate that holds a majority of grants (whether or not it has counted them) -/
structure Cand (d : Data) (e : El) : Prop where
  lt : e.last.2 < e.term
  node : d.N e.last
  maj : ∃ D, LastCfg d D e.last ∧ e.Q.Nodup ∧ (∀ v ∈ e.Q, v ∈ d.V D) ∧ 2 * e.Q.length > (d.V D).length ∧
    ∀ v ∈ e.Q, d.granted v e.term e.cand ∧ GrantUp d e v

/-- in ledgers that obey the rules, the log of such a candidate extends every key committed in a smaller term -/
theorem cand_ext {d : Data} (h : Rules d) {e : El} (hc : Cand d e) :
    ∀ r : Rec, r ∈ d.R → r.m.2 < e.term → d.A r.m e.last := by
  obtain ⟨e1, e2, DL, e3, e4, e5, e6, e7⟩ := hc
  obtain ⟨lc, _⟩ := member_safety h
  obtain ⟨hlc, hes⟩ := safe_below h e.term
  refine lex3_induction (fun r : Rec => r.m.2) (fun r => r.m.1) (fun r => r.l.1)
    (fun r => r ∈ d.R → r.m.2 < e.term → d.A r.m e.last) ?_
  intro r ih hr hw
  apply Classical.byContradiction
  intro hna
  obtain ⟨r1, r2, r3, D, r4, r5, r6, r7, r8⟩ := h.recd r hr
  have hadj : AdjLists (d.V DL) (d.V D) :=
    cfg_overlap h hlc hes hr e3 e1 hw r4 hna
      (fun y hy hyR => ih y hy hyR (by rcases hy with hy | ⟨hy, _⟩ <;> omega))
  obtain ⟨v, hv, hv'⟩ := adjacent_quorums_intersect (d.V DL) (d.V D) e.Q r.Q (h.vnd DL e3.1) (h.vnd D r4.1) e4 r5
    hadj e5 r6 e6 r7
  obtain ⟨a, a1, a2⟩ := r8 v hv'
  rcases (e7 v hv).2 r hr hw a a1 a2 with g | ⟨c, c1, c2, _, c4⟩
  · exact hna g
  · exact c4 (lc r hr c c1 c2)

/-- **two candidates of one term that both hold a majority of grants of the voters of their configurations are the
same node** (ledgers that obey the rules; the grant-time form `GrantUp` of the up-to-date check) -/
theorem cand_unique {d : Data} (h : Rules d) {e e' : El} (hc : Cand d e) (hc' : Cand d e') (ht : e.term = e'.term) :
    e.cand = e'.cand := by
  have x := cand_ext h hc
  have x' := cand_ext h hc'
  -- the ledgers with the two elections added
  let d2 : Data := { d with E := e :: e' :: d.E }
  have toC : ∀ {f : El}, Cand d f → (∀ r : Rec, r ∈ d.R → r.m.2 < f.term → d.A r.m f.last) →
      f.last.2 < f.term ∧ d.N f.last ∧
      ∃ D, LastCfg d2 D f.last ∧ f.Q.Nodup ∧ (∀ v ∈ f.Q, v ∈ d.V D) ∧ 2 * f.Q.length > (d.V D).length ∧
        ∀ v ∈ f.Q, d.granted v f.term f.cand ∧ UpToC d2 f v := by
    intro f hf xf
    obtain ⟨f1, f2, D, f3, f4, f5, f6, f7⟩ := hf
    exact ⟨f1, f2, D, f3, f4, f5, f6, fun v hv => ⟨(f7 v hv).1, fun r hr hlt _ _ _ => Or.inl (xf r hr hlt)⟩⟩
  have h2 : Rules d2 :=
    { refl := h.refl, node := h.node, trans := h.trans, cmp := h.cmp, eqi := h.eqi, idx := h.idx, trm := h.trm
      rootC := h.rootC, rootA := h.rootA, cfgN := h.cfgN, vnd := h.vnd, tb := h.tb, init := h.init, recd := h.recd
      mono := h.mono, chain := h.chain
      creator := fun c hc0 h0 => by
        obtain ⟨e0, he0, r⟩ := h.creator c hc0 h0
        exact ⟨e0, List.mem_cons_of_mem _ (List.mem_cons_of_mem _ he0), r⟩
      elect := fun f hf => by
        rcases List.mem_cons.mp hf with rfl | hf
        · exact toC hc x
        · rcases List.mem_cons.mp hf with rfl | hf
          · exact toC hc' x'
          · exact h.elect f hf
      grantU := h.grantU }
  obtain ⟨hlc, hes⟩ := safe_below h2 e.term
  obtain ⟨_, _, DL, f3, f4, f5, f6, f7⟩ := hc
  obtain ⟨_, _, DL', g3, g4, g5, g6, g7⟩ := hc'
  have hadj := es_overlap h2 hlc hes (e := e) (e' := e') (List.mem_cons_self ..)
    (List.mem_cons_of_mem _ (List.mem_cons_self ..)) rfl ht.symm f3 g3
  obtain ⟨v, hv, hv'⟩ := adjacent_quorums_intersect (d.V DL) (d.V DL') e.Q e'.Q (h.vnd DL f3.1)
    (h.vnd DL' g3.1) f4 g4 hadj f5 g5 f6 g6
  have g1 := (f7 v hv).1
  have g2 := (g7 v hv').1
  rw [← ht] at g2
  exact h.grantU v e.term _ _ g1 g2

/-! ## Part 1: the invariant -/

/-- ghost ledgers of the proof (not part of `Member.Sys`): the bootstrap key, the commit records (one per commit
moment of a leader: `MemberCommit.SEv`), the election records (one per node and term in which it created entries) and
the self acknowledgements of the commit moments of steps that ended in a crash -/
structure Ghost where
  root : K
  R : List Rec
  E : List El
  SA : List Ack

/-- all acknowledgements: the ledger and the ghost self acknowledgements -/
abbrev acksG (x : Member.Sys) (G : Ghost) : List Ack := x.cm.acks ++ G.SA

/-- `cfg` is the configuration of the record under the key `D`, and `D` is the LAST configuration entry at or below
the key `a` in the tree -/
def CfgAt (T : List CEntry) (D : K) (cfg : Config) (a : K) : Prop :=
  (∃ c ∈ T, key c = D ∧ c.e.config? = some cfg) ∧ Anc T D a ∧
  ∀ c ∈ T, c.e.typ = etConfig → Anc T (key c) a → c.e.index ≤ D.1

/-- `P` is the nearest configuration entry strictly below the key `c` -/
def PrevT (T : List CEntry) (P c : K) : Prop :=
  (∃ p ∈ T, key p = P ∧ p.e.typ = etConfig) ∧ Anc T P c ∧ P.1 < c.1 ∧
  ∀ e ∈ T, e.e.typ = etConfig → Anc T (key e) c → e.e.index < c.1 → e.e.index ≤ P.1

/-- an ancestor (in the grown tree) of a key that had a root path in the old tree is a record of the old tree, and an
ancestor there -/
theorem anc_old {T T' : List CEntry} (hsub : ∀ c ∈ T, c ∈ T') (hU' : Uniq T') {a : K}
    (ha : ∃ es, Path T es ∧ Holds es a.1 a.2) {c' : CEntry} (hc' : c' ∈ T') (h : Anc T' (key c') a) :
    c' ∈ T ∧ Anc T (key c') a := by
  obtain ⟨es, p, hes⟩ := ha
  have hh := h.on_path hU' (p.mono hsub) hes
  obtain ⟨c'', hc'', e1, e2, _⟩ := path_record p hh
  have : c'' = c' := hU' c'' (hsub c'' hc'') c' hc' e1 e2
  rw [this] at hc''
  exact ⟨hc'', anc_of_path p hh hes h.1⟩

theorem cfgAt_mono {T T' : List CEntry} (hsub : ∀ c ∈ T, c ∈ T') (hU' : Uniq T') {D : K} {cfg : Config} {a : K}
    (ha : ∃ es, Path T es ∧ Holds es a.1 a.2) (h : CfgAt T D cfg a) : CfgAt T' D cfg a := by
  obtain ⟨⟨c, hc, hk, hcfg⟩, h2, h3⟩ := h
  refine ⟨⟨c, hsub c hc, hk, hcfg⟩, h2.mono hsub, fun c' hc' ht hA => ?_⟩
  obtain ⟨ho, hA'⟩ := anc_old hsub hU' ha hc' hA
  exact h3 c' ho ht hA'

theorem prevT_mono {T T' : List CEntry} (hsub : ∀ c ∈ T, c ∈ T') (hU' : Uniq T') {P a : K}
    (ha : ∃ es, Path T es ∧ Holds es a.1 a.2) (h : PrevT T P a) : PrevT T' P a := by
  obtain ⟨⟨p, hp, hk, ht⟩, h2, h3, h4⟩ := h
  refine ⟨⟨p, hsub p hp, hk, ht⟩, h2.mono hsub, h3, fun e he het hA hlt => ?_⟩
  obtain ⟨ho, hA'⟩ := anc_old hsub hU' ha he hA
  exact h4 e ho het hA' hlt

/-- **the up-to-date check, as established when a candidate counts a vote**: what voter `v` acknowledged in a term
before the campaign `k` is extended by the log the candidate campaigned with — unless an entry of a term strictly in
between does not extend it, or an entry of the campaign's term CREATED BY SOMEBODY ELSE does not extend it (a
candidate has created no entry of its term yet) -/
def UpToM (T : List CEntry) (A : List Ack) (k : Camp) (v : Nat) : Prop :=
  ∀ a ∈ A, a.voter = v → a.term < k.term → ∀ b : K, b.2 = a.term → Anc T b a.key →
    Anc T b k.last ∨ ∃ c ∈ T, b.2 < c.e.term ∧ ¬ Anc T b (key c) ∧
      (c.e.term < k.term ∨ (c.e.term = k.term ∧ c.cr ≠ 0 ∧ c.cr ≠ k.cand))

/-- the tree of created entries -/
structure TreeM (x : Member.Sys) (G : Ghost) : Prop where
  pathc : PathClosed x.cm.T
  tmono : ∀ c ∈ x.cm.T, c.pt ≤ c.e.term
  /-- the entries one node created in one term (and the initial entries of one term) lie on one path -/
  tbI : ∀ c ∈ x.cm.T, ∀ d ∈ x.cm.T, c.e.term = d.e.term → c.cr = d.cr → c.e.index ≤ d.e.index →
    Anc x.cm.T (key c) (key d)
  /-- all entries of one term that were created by nodes were created by one node -/
  cu : ∀ c ∈ x.cm.T, ∀ d ∈ x.cm.T, c.e.term = d.e.term → c.cr ≠ 0 → d.cr ≠ 0 → c.cr = d.cr
  /-- while its creator is leader of its term the entry is in the creator's log -/
  ownLog : ∀ c ∈ x.cm.T, c.cr ≠ 0 → (x.node c.cr).role = .leader → (x.node c.cr).term = c.e.term →
    Holds (x.node c.cr).log.entries c.e.index c.e.term
  /-- the bootstrap configuration entry: initial, below every entry, the only initial configuration entry -/
  rootC : ∃ c ∈ x.cm.T, key c = G.root ∧ c.e.typ = etConfig ∧ c.cr = 0
  rootA : ∀ c ∈ x.cm.T, Anc x.cm.T G.root (key c)
  rootOnly : ∀ c ∈ x.cm.T, c.cr = 0 → c.e.typ = etConfig → key c = G.root
  /-- the entries created by nodes have terms above those of the initial entries -/
  initLt : ∀ c ∈ x.cm.T, ∀ d ∈ x.cm.T, c.cr = 0 → d.cr ≠ 0 → c.e.term < d.e.term

/-- the nodes -/
structure NodeM (x : Member.Sys) : Prop where
  lwf : ∀ i, C06.LogWF (x.node i).log
  termLe : ∀ i, ∀ e ∈ (x.node i).log.entries, e.term ≤ (x.node i).term
  unfl : ∀ i k, (x.node i).log.flushed < k → k ≤ (x.node i).log.entries.length →
    ∃ c ∈ x.cm.T, c.e.index = k ∧ c.e.term = termAt (x.node i).log.entries k ∧ c.cr = i
  camp : ∀ i, (x.node i).role ≠ .follower → ∃ k ∈ x.cm.camps, k.cand = i ∧ k.term = (x.node i).term ∧
    k.lastIndex ≤ (x.node i).log.entries.length ∧
    (1 ≤ k.lastIndex → termAt (x.node i).log.entries k.lastIndex = k.lastTerm) ∧
    ((x.node i).role = .candidate → k.lastIndex = (x.node i).log.entries.length)
  ldr : ∀ i, (x.node i).role = .leader → LeadOK (Commit.Backed x.cm i) (x.node i)
  /-- a leader's committed configuration lies below its start index or at or below its commit index -/
  cc : ∀ i, (x.node i).role = .leader → (x.node i).configs.isCommitted = true →
    (x.node i).configs.latest.index < (x.node i).ldr.startIndex ∨
    (x.node i).configs.latest.index ≤ (x.node i).commitIndex

/-- requests on the wire -/
structure SentM (x : Member.Sys) : Prop where
  won : ∀ q ∈ x.cm.rp.sent, q.src ≠ 0 ∧ (q.src, q.term) ∈ x.el.won ∧ q.term ≤ (x.node q.src).term ∧
    ((x.node q.src).role = .candidate → q.term < (x.node q.src).term)
  term : ∀ q ∈ x.cm.rp.sent, (∀ e ∈ q.entries, e.term ≤ q.term) ∧ q.prevLogTerm ≤ q.term
  anc : ∀ q ∈ x.cm.rp.sent, ∃ c ∈ x.cm.T, c.e.term = q.term ∧ (∀ e ∈ q.entries, Anc x.cm.T (e.index, e.term) (key c)) ∧
    (1 ≤ q.prevLogIndex → Anc x.cm.T (q.prevLogIndex, q.prevLogTerm) (key c))
  /-- the term of a request is above the terms of the initial entries -/
  init : ∀ q ∈ x.cm.rp.sent, ∀ c ∈ x.cm.T, c.cr = 0 → c.e.term < q.term
  /-- what lies at or below the request's commit index is committed by a leader of a term ≤ the request's -/
  cmt : ∀ q ∈ x.cm.rp.sent, (∀ e ∈ q.entries, e.index ≤ q.ldrCommitIndex → Cmt x.cm (e.index, e.term) q.term) ∧
    (1 ≤ q.prevLogIndex → q.prevLogIndex ≤ q.ldrCommitIndex → Cmt x.cm (q.prevLogIndex, q.prevLogTerm) q.term)

/-- acknowledgements (`Commit.AckI` over a list `A` of acknowledgements) -/
structure AckM (x : Member.Sys) (A : List Ack) : Prop where
  wf : ∀ a ∈ A, 1 ≤ a.index ∧ a.term ≤ (x.node a.voter).term ∧ a.eterm ≤ a.term ∧
    ∃ c ∈ x.cm.T, key c = a.key
  src : ∀ a ∈ A,
    (∃ q ∈ x.cm.rp.sent, q.term = a.term ∧ q.src ≠ a.voter ∧ a.index = q.prevLogIndex + q.entries.length ∧
      ((∃ e ∈ q.entries, e.index = a.index ∧ e.term = a.eterm) ∨
        (q.entries = [] ∧ q.prevLogTerm = a.eterm))) ∨
    (a.eterm = a.term ∧ ∃ c ∈ x.cm.T, key c = a.key ∧ c.cr = a.voter ∧ c.cr ≠ 0)
  stable : ∀ a ∈ A, ∀ b : K, b.2 = a.term → Anc x.cm.T b a.key →
    DurHolds (x.node a.voter) b ∨ Unsafe x.cm.T b (x.node a.voter).term

/-- campaigns, votes and elections (`Commit.VoteI` over `A`, with `UpToM`) -/
structure VoteM (x : Member.Sys) (A : List Ack) : Prop where
  campUniq : ∀ k ∈ x.cm.camps, ∀ k' ∈ x.cm.camps, k.cand = k'.cand → k.term = k'.term → k = k'
  campWf : ∀ k ∈ x.cm.camps, k.cand ≠ 0 ∧ k.term ≤ (x.node k.cand).term ∧ k.lastTerm < k.term ∧
    ∃ c ∈ x.cm.T, key c = k.last
  voteCamp : ∀ v, (x.node v).votedFor ≠ 0 → (x.node v).votedFor ≠ v →
    ∃ k ∈ x.cm.camps, k.cand = (x.node v).votedFor ∧ k.term = (x.node v).term
  voteInv : ∀ v, (x.node v).votedFor ≠ 0 → ∀ k ∈ x.cm.camps, k.cand = (x.node v).votedFor →
    k.term = (x.node v).term → ∀ a ∈ A, a.voter = v → a.term < k.term →
    ∀ b : K, b.2 = a.term → Anc x.cm.T b a.key → Anc x.cm.T b k.last ∨ Unsafe x.cm.T b k.term
  grantInv : ∀ g ∈ x.el.grants, ∀ k ∈ x.cm.camps, k.cand = g.cand → k.term = g.term →
    ∀ a ∈ A, a.voter = g.voter → a.term < k.term →
    ∀ b : K, b.2 = a.term → Anc x.cm.T b a.key → Anc x.cm.T b k.last ∨ Unsafe x.cm.T b k.term
  electInv : ∀ k ∈ x.cm.camps, ∀ v, Elector x.cm k.cand k.term v → UpToM x.cm.T A k v
  countedGrant : ∀ e ∈ x.el.counted,
    ({ voter := e.2.2, term := e.2.1, cand := e.1 } : C01.Grant) ∈ x.el.grants
  grantCamp : ∀ g ∈ x.el.grants, ∃ k ∈ x.cm.camps, k.cand = g.cand ∧ k.term = g.term
  /-- a campaign and its configuration are recorded together; the configuration is the last configuration entry of
  the log the candidate campaigned with -/
  campCfg : ∀ k ∈ x.cm.camps, ∃ kc ∈ x.ecfg, kc.cand = k.cand ∧ kc.term = k.term ∧
    ∃ D, CfgAt x.cm.T D kc.cfg k.last
  cfgCamp : ∀ kc ∈ x.ecfg, ∃ k ∈ x.cm.camps, k.cand = kc.cand ∧ k.term = kc.term

/-- what is known of a commit record -/
def RecOK (x : Member.Sys) (A : List Ack) (r : Rec) : Prop :=
  r.m.2 = r.l.2 ∧ Anc x.cm.T r.m r.l ∧ (∃ c ∈ x.cm.T, key c = r.l ∧ c.cr ≠ 0) ∧
  ∃ D cfg, CfgAt x.cm.T D cfg r.l ∧ r.Q.Sublist cfg.voters ∧ 2 * r.Q.length > cfg.voters.length ∧
    ∀ v ∈ r.Q, ∃ a ∈ A, a.voter = v ∧ a.term = r.m.2 ∧ Anc x.cm.T r.m a.key

/-- the commit records -/
structure RecM (x : Member.Sys) (G : Ghost) : Prop where
  recd : ∀ r ∈ G.R, RecOK x (acksG x G) r
  mono : ∀ r ∈ G.R, ∀ r' ∈ G.R, r.m.2 = r'.m.2 → r.l.1 < r'.l.1 → r.m.1 ≤ r'.m.1
  /-- every entry of the ledger `committed` has its record -/
  cover : ∀ m ∈ x.cm.committed, ∃ r ∈ G.R, r.m = m
  /-- a configuration entry created by a node: when it was created the leader had committed, in its own term and with a
  shorter log, a key at or above the previous configuration entry -/
  chain : ∀ c ∈ x.cm.T, c.e.typ = etConfig → c.cr ≠ 0 → ∃ P r, r ∈ G.R ∧ PrevT x.cm.T P (key c) ∧
    r.m.2 = c.e.term ∧ r.l.1 < c.e.index ∧ Anc x.cm.T P r.m
  /-- the standing record of a leader that has committed an entry of its term -/
  lead : ∀ i, (x.node i).role = .leader → (x.node i).ldr.startIndex ≤ (x.node i).commitIndex →
    ∃ r ∈ G.R, r.m = ((x.node i).commitIndex, (x.node i).term) ∧ r.l.1 ≤ (x.node i).log.entries.length
  init : ∀ c ∈ x.cm.T, c.cr = 0 → ∀ r ∈ G.R, c.e.term ≤ r.m.2
  /-- the records of a leader's term lie within its commit index and its log -/
  bound : ∀ i, (x.node i).role = .leader → ∀ r ∈ G.R, r.m.2 = (x.node i).term →
    r.m.1 ≤ (x.node i).commitIndex ∧ r.l.1 ≤ (x.node i).log.entries.length

/-- what is known of an election record -/
def ElOK (x : Member.Sys) (A : List Ack) (e : El) : Prop :=
  ∃ k ∈ x.cm.camps, ∃ kc ∈ x.ecfg, k.cand = e.cand ∧ k.term = e.term ∧ k.last = e.last ∧ kc.cand = e.cand ∧
    kc.term = e.term ∧ (∃ D, CfgAt x.cm.T D kc.cfg k.last) ∧
    e.Q.Nodup ∧ (∀ v ∈ e.Q, v ∈ kc.cfg.voters) ∧ 2 * e.Q.length > kc.cfg.voters.length ∧
    (∀ v ∈ e.Q, ({ voter := v, term := e.term, cand := e.cand } : C01.Grant) ∈ x.el.grants ∧ UpToM x.cm.T A k v) ∧
    ∃ c ∈ x.cm.T, c.cr = e.cand ∧ c.e.term = e.term

/-- the election records -/
structure ElM (x : Member.Sys) (G : Ghost) : Prop where
  creator : ∀ c ∈ x.cm.T, c.cr ≠ 0 → ∃ e ∈ G.E, e.cand = c.cr ∧ e.term = c.e.term ∧ Anc x.cm.T e.last (key c)
  elect : ∀ e ∈ G.E, ElOK x (acksG x G) e

/-- commitment: every node's commit index covers only committed entries (`Commit.CmtI.cc`) -/
structure CmtM (x : Member.Sys) : Prop where
  cc : ∀ i k, 1 ≤ k → k ≤ (x.node i).commitIndex → k ≤ (x.node i).log.entries.length ∧
    Cmt x.cm (k, termAt (x.node i).log.entries k) (x.node i).term

/-- index `k` of node `i`'s log is PROTECTED: it holds the bootstrap configuration entry, or an ancestor of the key of a
commit record of a term not above the node's — no request that is not stale conflicts with the log up to `k`
(`protNoConf`) -/
def ProtG (x : Member.Sys) (G : Ghost) (i k : Nat) : Prop :=
  1 ≤ k ∧ k ≤ (x.node i).log.entries.length ∧
  ((k, termAt (x.node i).log.entries k) = G.root ∨
    ∃ r ∈ G.R, r.m.2 ≤ (x.node i).term ∧ Anc x.cm.T (k, termAt (x.node i).log.entries k) r.m)

/-- configurations and logs: every node's latest configuration is the LAST CONFIGURATION ENTRY OF ITS LOG
(`MemberCommit.CfgLast`); the index of that entry is protected, or the configuration is pending
(`MemberFollow.Pend`: `configs.committed` is the configuration entry before it — then the index of THAT entry is
protected, `MemberStep.pend_prot`); the bootstrap entry is flushed -/
structure CfgM (x : Member.Sys) (G : Ghost) : Prop where
  cl : ∀ i, MemberCommit.CfgLast (x.node i).log.entries (x.node i).configs.latest
  sp : ∀ i, ProtG x G i (x.node i).configs.latest.index ∨
    MemberFollow.Pend (x.node i).log.entries (x.node i).configs
  rootFl : ∀ i, G.root.1 ≤ (x.node i).log.flushed

/-- **the invariant** -/
structure MInv (x : Member.Sys) (G : Ghost) : Prop where
  rp : C04Member.RInv x.cm.rp x.ecfg
  tree : TreeM x G
  node : NodeM x
  sent : SentM x
  ack : AckM x (acksG x G)
  vote : VoteM x (acksG x G)
  recs : RecM x G
  el : ElM x G
  cmt : CmtM x
  cfg : CfgM x G

/-- side conditions on a state, taken as hypotheses of the theorems (see Props/C02Member.lean): every configuration
entry of the tree has a duplicate-free voter list, and a configuration entry created by a node is adjacent to the
previous configuration entry on its path -/
structure SideT (x : Member.Sys) : Prop where
  nodup : ∀ c ∈ x.cm.T, ∀ cfg, c.e.config? = some cfg → cfg.voters.Nodup
  adj : ∀ c ∈ x.cm.T, ∀ p ∈ x.cm.T, c.cr ≠ 0 → PrevT x.cm.T (key p) (key c) → ∀ cfg pcfg, c.e.config? = some cfg →
    p.e.config? = some pcfg → AdjLists pcfg.voters cfg.voters
  dec : ∀ c ∈ x.cm.T, c.e.typ = etConfig → ∃ cfg, c.e.config? = some cfg

/-! ## Part 2: what follows from the invariant in one state -/

/-- the ledgers of a state as `MemberCore.Data` (as `C08Sys.dataOf`, with the ghost ledgers and all acknowledgements) -/
def dataM (x : Member.Sys) (G : Ghost) : Data where
  A := Anc x.cm.T
  N := fun a => ∃ c ∈ x.cm.T, key c = a
  cr := C08Sys.crOf x.cm.T
  isC := fun a => ∃ c ∈ x.cm.T, key c = a ∧ c.e.typ = etConfig
  V := C08Sys.votersAt x.cm.T
  root := G.root
  R := G.R
  E := G.E
  acked := fun v w a => ∃ k ∈ acksG x G, k.voter = v ∧ k.term = w ∧ k.key = a
  granted := fun v t c => ({ voter := v, term := t, cand := c } : C01.Grant) ∈ x.el.grants

theorem votersAt_eq {T : List CEntry} (hU : Uniq T) {c : CEntry} (hc : c ∈ T) :
    C08Sys.votersAt T (key c) = ((c.e.config?).map (·.voters)).getD [] := by
  unfold C08Sys.votersAt
  cases hf : T.find? (fun c' => key c' == key c) with
  | none =>
    have := List.find?_eq_none.mp hf c hc
    simp at this
  | some c' =>
    have hm : c' ∈ T := List.mem_of_find?_eq_some hf
    have hk : key c' = key c := by simpa using List.find?_some hf
    have : c' = c := by
      unfold key at hk
      simp only [Prod.mk.injEq] at hk
      exact hU c' hm c hc hk.1 hk.2
    rw [this]; rfl

theorem votersAt_cfg {T : List CEntry} (hU : Uniq T) {c : CEntry} (hc : c ∈ T) {cfg : Config}
    (h : c.e.config? = some cfg) : C08Sys.votersAt T (key c) = cfg.voters := by
  rw [votersAt_eq hU hc, h]; rfl

section static
variable {x : Member.Sys} {G : Ghost}

theorem uniqM (hI : MInv x G) : Uniq x.cm.T := hI.rp.uniq

theorem forestM (hI : MInv x G) : Forest (dataM x G) :=
  let f := C08Sys.forest_of x G.root G.R G.E (uniqM hI) hI.tree.pathc hI.tree.tmono
  ⟨f.refl, f.node, f.trans, f.cmp, f.eqi, f.idx, f.trm⟩

/-- the record of a key is unique -/
theorem key_injM (hI : MInv x G) {c d : CEntry} (hc : c ∈ x.cm.T) (hd : d ∈ x.cm.T) (h : key c = key d) : c = d := by
  unfold key at h
  simp only [Prod.mk.injEq] at h
  exact uniqM hI c hc d hd h.1 h.2

theorem cfgAt_lastCfg (hI : MInv x G) {D : K} {cfg : Config} {a : K} (h : CfgAt x.cm.T D cfg a) :
    LastCfg (dataM x G) D a ∧ (dataM x G).V D = cfg.voters := by
  obtain ⟨⟨c, hc, hk, hcfg⟩, h2, h3⟩ := h
  refine ⟨⟨⟨c, hc, hk, (MemberCommit.config?_facts hcfg).1⟩, h2, fun E ⟨e, he, hek, het⟩ hA => ?_⟩, ?_⟩
  · have := h3 e he het (by rw [hek]; exact hA)
    rw [← hek]; exact this
  · show C08Sys.votersAt x.cm.T D = _
    rw [← hk]; exact votersAt_cfg (uniqM hI) hc hcfg

/-- **the local rules hold of the ledgers of a state that satisfies the invariant** (and the side conditions on its
configuration entries) -/
theorem localM (hI : MInv x G) (hS : SideT x) : LocalS (dataM x G) := by
  have hU := uniqM hI
  have hF := forestM hI
  have crEq : ∀ {c : CEntry}, c ∈ x.cm.T → (dataM x G).cr (key c) = c.cr := fun hc => C08Sys.crOf_eq hU hc
  refine ⟨?_, ?_, ?_, ?_, ?_, ?_, ?_, hI.recs.mono, ?_, ?_, ?_⟩
  · obtain ⟨c, hc, hk, ht, _⟩ := hI.tree.rootC
    exact ⟨c, hc, hk, ht⟩
  · rintro a ⟨c, hc, rfl⟩; exact hI.tree.rootA c hc
  · rintro a ⟨c, hc, hk, _⟩; exact ⟨c, hc, hk⟩
  · rintro a ⟨c, hc, rfl, ht⟩
    show (C08Sys.votersAt x.cm.T (key c)).Nodup
    obtain ⟨cfg, hcfg⟩ := hS.dec c hc ht
    rw [votersAt_cfg hU hc hcfg]; exact hS.nodup c hc cfg hcfg
  · rintro _ _ ⟨c, hc, rfl⟩ ⟨e, he, rfl⟩ ht hcr hle
    rw [crEq hc, crEq he] at hcr
    exact hI.tree.tbI c hc e he ht hcr hle
  · rintro _ ⟨c, hc, rfl⟩ h0 r hr
    rw [crEq hc] at h0
    exact hI.recs.init c hc h0 r hr
  · intro r hr
    obtain ⟨r1, r2, ⟨c, hc, hk, h0⟩, D, cfg, r4, r5, r6, r7⟩ := hI.recs.recd r hr
    obtain ⟨l1, l2⟩ := cfgAt_lastCfg hI r4
    obtain ⟨⟨cD, hcD, hkD, hcfgD⟩, _, _⟩ := r4
    have hnd : cfg.voters.Nodup := hS.nodup cD hcD cfg hcfgD
    refine ⟨r1, r2, by rw [← hk, crEq hc]; exact h0, D, l1, hnd.sublist r5, fun v hv => by rw [l2]; exact r5.subset hv,
      by rw [l2]; exact r6, fun v hv => ?_⟩
    obtain ⟨a, ha, a1, a2, a3⟩ := r7 v hv
    exact ⟨a.key, ⟨a, ha, a1, a2, rfl⟩, a3⟩
  · rintro _ ⟨c, hc, rfl, ht⟩ hne
    have h0 : c.cr ≠ 0 := fun h0 => hne (hI.tree.rootOnly c hc h0 ht)
    refine ⟨by rw [crEq hc]; exact h0, ?_⟩
    obtain ⟨P, r, hr, hP, r1, r2, r3⟩ := hI.recs.chain c hc ht h0
    obtain ⟨⟨p, hp, hpk, hpt⟩, p2, p3, p4⟩ := hP
    refine ⟨P, r, hr, ⟨⟨p, hp, hpk, hpt⟩, p2, p3, fun E ⟨e, he, hek, het⟩ hA hlt => ?_⟩, ?_, r1, r2, r3⟩
    · rw [← hek] at hA hlt ⊢
      exact p4 e he het hA hlt
    · obtain ⟨cfg, hcfg⟩ := hS.dec c hc ht
      obtain ⟨pcfg, hpcfg⟩ := hS.dec p hp hpt
      show AdjLists (C08Sys.votersAt x.cm.T P) (C08Sys.votersAt x.cm.T (key c))
      rw [← hpk, votersAt_cfg hU hp hpcfg, votersAt_cfg hU hc hcfg]
      exact hS.adj c hc p hp h0 (by rw [hpk]; exact ⟨⟨p, hp, hpk, hpt⟩, p2, p3, p4⟩) cfg pcfg hcfg hpcfg
  · rintro _ ⟨c, hc, rfl⟩ h0
    rw [crEq hc] at h0 ⊢
    exact hI.el.creator c hc h0
  · intro e he
    obtain ⟨k, hk, kc, hkc, k1, k2, k3, k4, k5, ⟨D, hD⟩, q1, q2, q3, q4, c0, hc0, hc0cr, hc0t⟩ := hI.el.elect e he
    obtain ⟨w1, w2, w3, cl, hcl, hclk⟩ := hI.vote.campWf k hk
    obtain ⟨l1, l2⟩ := cfgAt_lastCfg hI hD
    rw [k3] at l1 hclk
    refine ⟨by rw [← k3, ← k2]; exact w3, ⟨cl, hcl, hclk⟩, D, l1, q1, fun v hv => by rw [l2]; exact q2 v hv,
      by rw [l2]; exact q3, fun v hv => ⟨(q4 v hv).1, ?_⟩⟩
    -- the strict form of the up-to-date check
    intro r hr hlt a ⟨a', ha', a1, a2, a3⟩ hA
    rw [← a3] at hA
    rcases (q4 v hv).2 a' ha' a1 (by rw [a2, k2]; exact hlt) r.m a2.symm hA with g | ⟨c, hc, c1, c2, c3⟩
    · left; rw [← k3]; exact g
    · rcases c3 with c3 | ⟨c3, c4, c5⟩
      · exact Or.inr ⟨key c, ⟨c, hc, rfl⟩, c1, by rw [← k2]; exact c3, c2⟩
      · exfalso
        have := hI.tree.cu c hc c0 hc0 (by rw [c3, k2, hc0t]) c4 (by rw [hc0cr, ← k1]; exact w1)
        rw [hc0cr, ← k1] at this
        exact c5 this

theorem grantUM (hI : MInv x G) : ∀ v t c c', (dataM x G).granted v t c → (dataM x G).granted v t c' → c = c' :=
  fun _ _ _ _ h1 h2 => hI.rp.el.unique _ h1 _ h2 rfl rfl

/-- **leader completeness (tree form)** in a state that satisfies the invariant: every entry of the tree whose term is
above that of a commit record extends the committed key -/
theorem lcM (hI : MInv x G) (hS : SideT x) :
    ∀ r ∈ G.R, ∀ c ∈ x.cm.T, r.m.2 < c.e.term → Anc x.cm.T r.m (key c) := by
  obtain ⟨lc, _⟩ := safety_strict (forestM hI) (localM hI hS) (grantUM hI)
  exact fun r hr c hc hlt => lc r hr (key c) ⟨c, hc, rfl⟩ hlt

/-- **election safety of the election records**: two recorded candidates of one term that are both backed by a
majority of grants of the voters of their own configurations are the same node (what `C04Member.rinv_upd` needs) -/
theorem esafeM (hI : MInv x G) (hS : SideT x) : C04Member.ESafe x.el.grants x.ecfg := by
  have hR := filterD_rules (forestM hI) (localM hI hS) (grantUM hI)
  -- a backed record gives a candidate in the sense of `Cand`
  have mk : ∀ kc ∈ x.ecfg, C01.Backed x.el.grants kc.cfg.voters kc.cand kc.term →
      ∃ e : El, e.cand = kc.cand ∧ e.term = kc.term ∧ Cand (filterD (dataM x G)) e := by
    intro kc hkc ⟨Q, q1, q2, q3, q4⟩
    obtain ⟨k, hk, k1, k2⟩ := hI.vote.cfgCamp kc hkc
    obtain ⟨kc', hkc', c1, c2, D, hD⟩ := hI.vote.campCfg k hk
    have he : kc' = kc := hI.rp.el.ecfgUniq kc' hkc' kc hkc (c1.trans k1) (c2.trans k2)
    rw [he] at hD
    obtain ⟨w1, w2, w3, cl, hcl, hclk⟩ := hI.vote.campWf k hk
    obtain ⟨l1, l2⟩ := cfgAt_lastCfg hI hD
    have l2 : C08Sys.votersAt x.cm.T D = kc.cfg.voters := l2
    refine ⟨⟨kc.cand, kc.term, k.last, Q⟩, rfl, rfl, ⟨by show k.lastTerm < kc.term; rw [← k2]; exact w3,
      ⟨cl, hcl, hclk⟩, D, l1, q1, fun v hv => by show v ∈ C08Sys.votersAt x.cm.T D; rw [l2]; exact q2 v hv,
      by show _ > (C08Sys.votersAt x.cm.T D).length; rw [l2]; exact q3, fun v hv => ⟨q4 v hv, ?_⟩⟩⟩
    intro r hr hlt a ⟨a', ha', a1, a2, a3⟩ hA
    rw [← a3] at hA
    have hg := hI.vote.grantInv _ (q4 v hv) k hk k1 k2 a' ha' a1 (by rw [a2, k2]; exact hlt) r.m a2.symm hA
    rcases hg with g | ⟨c, hc, c1', c2', c3'⟩
    · exact Or.inl g
    · exact Or.inr ⟨key c, ⟨c, hc, rfl⟩, c1', by rw [← k2]; exact c2', c3'⟩
  intro k hk k' hk' ht b b'
  obtain ⟨e, e1, e2, ec⟩ := mk k hk b
  obtain ⟨e', e1', e2', ec'⟩ := mk k' hk' b'
  have := cand_unique hR ec ec' (by rw [e2, e2', ht])
  rw [e1, e1'] at this
  exact this

/-! ### derived facts -/

theorem nwfM (hI : MInv x G) (i : Nat) : NWF (x.node i) := (hI.rp.nodes i).1

/-- every log is a root path of the tree -/
theorem log_pathM (hI : MInv x G) (i : Nat) : Path x.cm.T (x.node i).log.entries :=
  ⟨(hI.rp.nodes i).2, (hI.rp.nodes i).1.contig⟩

theorem log_recordM (hI : MInv x G) (i : Nat) {k τ : Nat} (h : Holds (x.node i).log.entries k τ) :
    ∃ c ∈ x.cm.T, key c = (k, τ) := by
  obtain ⟨c, hc, h1, h2, _⟩ := path_record (log_pathM hI i) h
  exact ⟨c, hc, by unfold key; rw [h1, h2]⟩

theorem log_ancM (hI : MInv x G) (i : Nat) {a c : K} (ha : Holds (x.node i).log.entries a.1 a.2)
    (hc : Holds (x.node i).log.entries c.1 c.2) (h : a.1 ≤ c.1) : Anc x.cm.T a c :=
  anc_of_path (log_pathM hI i) ha hc h

theorem log_holds_ancM (hI : MInv x G) (i : Nat) {a c : K} (h : Anc x.cm.T a c)
    (hc : Holds (x.node i).log.entries c.1 c.2) : Holds (x.node i).log.entries a.1 a.2 :=
  h.on_path (uniqM hI) (log_pathM hI i) hc

/-- an entry of the term of a candidate or leader was created by a node -/
theorem cr_ne_zeroM (hI : MInv x G) {i : Nat} (hl : (x.node i).role ≠ .follower)
    {c : CEntry} (hc : c ∈ x.cm.T) (ht : c.e.term = (x.node i).term) : c.cr ≠ 0 := by
  intro h0
  have h : c.e.term < (x.node i).term := (hI.rp.init0 c hc h0 i).2 hl
  omega

/-- entries of the term of a current leader were created by that leader -/
theorem creator_is_leaderM (hI : MInv x G) (hS : SideT x) {i : Nat} (hl : (x.node i).role = .leader)
    {c : CEntry} (hc : c ∈ x.cm.T) (ht : c.e.term = (x.node i).term) : c.cr = i := by
  have h0 := cr_ne_zeroM hI (i := i) (by rw [hl]; decide) hc ht
  obtain ⟨⟨k, hk, k1, k2, k3⟩, _⟩ := hI.rp.own c hc h0
  obtain ⟨k', hk', j1, j2, _, j4⟩ := hI.rp.el.backed i _ (hI.rp.el.recorded i hl)
  have := esafeM hI hS k hk k' hk' (by rw [k2, j2]; exact ht) (by rw [k1, k2]; exact k3) (by rw [j1, j2]; exact j4)
  rw [k1, j1] at this
  exact this

/-- … and are in its log -/
theorem leader_holds_ownM (hI : MInv x G) (hS : SideT x) {i : Nat} (hl : (x.node i).role = .leader)
    {c : CEntry} (hc : c ∈ x.cm.T) (ht : c.e.term = (x.node i).term) :
    Holds (x.node i).log.entries c.e.index c.e.term := by
  have hcr := creator_is_leaderM hI hS hl hc ht
  have := hI.tree.ownLog c hc (cr_ne_zeroM hI (by rw [hl]; decide) hc ht)
  rw [hcr] at this
  exact this hl ht.symm

/-- the leader of a request's term holds the request's coordinates -/
theorem leader_holds_sentM (hI : MInv x G) (hS : SideT x) {i : Nat} (hl : (x.node i).role = .leader)
    {q : AppendReq} (hq : q ∈ x.cm.rp.sent) (ht : q.term = (x.node i).term) :
    (∀ e ∈ q.entries, Holds (x.node i).log.entries e.index e.term) ∧
    (1 ≤ q.prevLogIndex → Holds (x.node i).log.entries q.prevLogIndex q.prevLogTerm) := by
  obtain ⟨c, hc, hct, he, hp⟩ := hI.sent.anc q hq
  have hh := leader_holds_ownM hI hS hl hc (hct.trans ht)
  exact ⟨fun e hem => log_holds_ancM hI i (he e hem) hh, fun h1 => log_holds_ancM hI i (hp h1) hh⟩

/-- **the leader of an acknowledgement's term holds what was acknowledged** -/
theorem ack_on_leaderM (hI : MInv x G) (hS : SideT x) {i : Nat} (hl : (x.node i).role = .leader)
    {a : Ack} (ha : a ∈ acksG x G) (ht : a.term = (x.node i).term) :
    Holds (x.node i).log.entries a.index a.eterm := by
  rcases hI.ack.src a ha with ⟨q, hq, h1, _, h3, h4⟩ | ⟨he, c, hc, hk, _, _⟩
  · obtain ⟨he, hp⟩ := leader_holds_sentM hI hS hl hq (h1.trans ht)
    rcases h4 with ⟨e, hem, e1, e2⟩ | ⟨hnil, e2⟩
    · rw [← e1, ← e2]; exact he e hem
    · have h1' := (hI.ack.wf a ha).1
      rw [hnil, List.length_nil, Nat.add_zero] at h3
      rw [h3, ← e2]; exact hp (by omega)
  · unfold key Ack.key at hk
    simp only [Prod.mk.injEq] at hk
    have hct : c.e.term = (x.node i).term := by rw [hk.2, he]; exact ht
    have := leader_holds_ownM hI hS hl hc hct
    rw [hk.1, hk.2] at this
    exact this

/-- the backing of a leader's match indexes stays within its log -/
theorem backed_leM (hI : MInv x G) (hS : SideT x) {i : Nat} (hl : (x.node i).role = .leader) :
    ∀ j m, Commit.Backed x.cm i j m → m ≤ (x.node i).log.entries.length := by
  rintro j m ⟨a, ha, _, h2, h3⟩
  have := (ack_on_leaderM hI hS hl (List.mem_append_left _ ha) h2).2.1
  omega

/-- the entries of one term lie on one path -/
theorem sameTermM (hI : MInv x G) {c d : CEntry} (hc : c ∈ x.cm.T) (hd : d ∈ x.cm.T) (ht : c.e.term = d.e.term)
    (hle : c.e.index ≤ d.e.index) : Anc x.cm.T (key c) (key d) := by
  by_cases hc0 : c.cr = 0
  · by_cases hd0 : d.cr = 0
    · exact hI.tree.tbI c hc d hd ht (hc0.trans hd0.symm) hle
    · have := hI.tree.initLt c hc d hd hc0 hd0; omega
  · by_cases hd0 : d.cr = 0
    · have := hI.tree.initLt d hd c hc hd0 hc0; omega
    · exact hI.tree.tbI c hc d hd ht (hI.tree.cu c hc d hd ht hc0 hd0) hle

/-- an entry of a term in which `l` was (recorded as) leader was created by `l` -/
theorem creator_of_wonM (hI : MInv x G) (hS : SideT x) {l t : Nat} (hw : (l, t) ∈ x.el.won)
    {c : CEntry} (hc : c ∈ x.cm.T) (h0 : c.cr ≠ 0) (ht : c.e.term = t) : c.cr = l := by
  obtain ⟨⟨k, hk, k1, k2, k3⟩, _⟩ := hI.rp.own c hc h0
  obtain ⟨k', hk', j1, j2, _, j4⟩ := hI.rp.el.backed l t hw
  have := esafeM hI hS k hk k' hk' (by rw [k2, j2]; exact ht) (by rw [k1, k2]; exact k3) (by rw [j1, j2]; exact j4)
  rw [k1, j1] at this
  exact this

/-- **a conflicting request exposes the acknowledged entry**: if a request that is not stale for the
voter carries an entry at or below `b` that differs from what the voter's log (which holds `b`) has there, then an
entry of the request's term does not extend `b` — and that term is above `b`'s. -/
theorem conflict_unsafeM (hI : MInv x G) {v : Nat} {a : Ack} (ha : a ∈ acksG x G)
    (hv : a.voter = v) {b : K} (hb : b.2 = a.term) (hh : Holds (x.node v).log.entries b.1 b.2)
    {q : AppendReq} (hq : q ∈ x.cm.rp.sent) (hns : ¬ q.term < (x.node v).term) {e : Entry} (he : e ∈ q.entries)
    (hle : e.index ≤ b.1) (hne : termAt (x.node v).log.entries e.index ≠ e.term) :
    Unsafe x.cm.T b q.term := by
  obtain ⟨c, hc, c1, c2, _⟩ := hI.sent.anc q hq
  have hec := c2 e he
  have hat : a.term ≤ (x.node v).term := by rw [← hv]; exact (hI.ack.wf a ha).2.1
  -- `b` is not an ancestor of `c`, nor `c` of `b`
  have no1 : ¬ Anc x.cm.T b (key c) := by
    intro hbc
    have := log_holds_ancM hI v (hec.comparable (uniqM hI) hbc hle) hh
    exact hne this.2.2
  by_cases hlt : b.2 < q.term
  · exact ⟨c, hc, by rw [c1]; exact hlt, by rw [c1]; exact Nat.le_refl _, no1⟩
  · exfalso
    have hbt : b.2 = c.e.term := by rw [c1]; omega
    obtain ⟨cb, hcb, hcbk⟩ := log_recordM hI v hh
    have e1 : cb.e.term = c.e.term := by
      have : cb.e.term = b.2 := by unfold key at hcbk; simp only [Prod.mk.injEq] at hcbk; exact hcbk.2
      rw [this, hbt]
    have e2 : cb.e.index = b.1 := by unfold key at hcbk; simp only [Prod.mk.injEq] at hcbk; exact hcbk.1
    have hc0 : c.cr ≠ 0 := fun h0 => by have := hI.sent.init q hq c hc h0; omega
    have hcb0 : cb.cr ≠ 0 := fun h0 => by have := hI.sent.init q hq cb hcb h0; omega
    have hcr := hI.tree.cu cb hcb c hc e1 hcb0 hc0
    by_cases hidx : cb.e.index ≤ c.e.index
    · have := hI.tree.tbI cb hcb c hc e1 hcr hidx
      rw [hcbk] at this
      exact no1 this
    · have := hI.tree.tbI c hc cb hcb e1.symm hcr.symm (by omega)
      rw [hcbk] at this
      have h2 := log_holds_ancM hI v (hec.trans (uniqM hI) this) hh
      exact hne h2.2.2

/-- the last log term of a node is not above its term -/
theorem lastLogTerm_leM (hI : MInv x G) (i : Nat) : (x.node i).lastLogTerm ≤ (x.node i).term := by
  rw [(nwfM hI i).lastT]
  unfold lastTerm
  cases hl : (x.node i).log.entries.getLast? with
  | none => exact Nat.zero_le _
  | some z => exact hI.node.termLe i z (List.mem_of_getLast? hl)

/-- a voter that granted its vote has reached the term of the grant -/
theorem grant_termM (hI : MInv x G) {g : C01.Grant} (hg : g ∈ x.el.grants) : g.term ≤ (x.node g.voter).term := by
  obtain ⟨_, h2⟩ := hI.rp.el.honoured g hg
  rcases h2 with h2 | ⟨h2, _⟩
  · exact Nat.le_of_lt h2
  · exact Nat.le_of_eq h2

/-- an elector has reached the term of the election -/
theorem elector_termM (hI : MInv x G) {k : Camp} (hk : k ∈ x.cm.camps) {v : Nat}
    (he : Elector x.cm k.cand k.term v) : k.term ≤ (x.node v).term := by
  rcases he with e | e
  · rw [e]; exact (hI.vote.campWf k hk).2.1
  · exact grant_termM hI (hI.vote.countedGrant _ e)

/-- **the up-to-date check, on the tree**: a voter whose log holds `b` grants its vote only to a campaign whose
log extends `b` — unless the campaign's last entry is of a later term than the voter's and does not extend `b` -/
theorem uptodate_ancM (hI : MInv x G) {i : Nat} {b : K}
    (hh : Holds (x.node i).log.entries b.1 b.2) {k : Camp} (hk : k ∈ x.cm.camps)
    (hup : ¬ ((x.node i).lastLogTerm > k.lastTerm ∨
      ((x.node i).lastLogTerm = k.lastTerm ∧ (x.node i).lastLogIndex > k.lastIndex))) :
    Anc x.cm.T b k.last ∨ Unsafe x.cm.T b k.term := by
  have hn := nwfM hI i
  have hlen : 1 ≤ (x.node i).log.entries.length := by have := hh.1; have := hh.2.1; omega
  have hv := C02Sys.holds_last hn hlen
  have hbv : Anc x.cm.T b ((x.node i).log.entries.length, (x.node i).lastLogTerm) := log_ancM hI i hh hv hh.2.1
  have hle : b.2 ≤ (x.node i).lastLogTerm := hbv.term_le hI.tree.tmono
  obtain ⟨_, _, w3, ck, hck, hckk⟩ := hI.vote.campWf k hk
  rw [hn.last] at hup
  by_cases heq : (x.node i).lastLogTerm = k.lastTerm
  · left
    have hidx : (x.node i).log.entries.length ≤ k.lastIndex := by
      apply Nat.le_of_not_lt; intro hlt; exact hup (Or.inr ⟨heq, hlt⟩)
    obtain ⟨cv, hcv, hcvk⟩ := log_recordM hI i hv
    have hk1 : ck.e.index = k.lastIndex ∧ ck.e.term = k.lastTerm := by
      unfold key Camp.last at hckk; simp only [Prod.mk.injEq] at hckk; exact hckk
    have hv1 : cv.e.index = (x.node i).log.entries.length ∧ cv.e.term = (x.node i).lastLogTerm := by
      unfold key at hcvk; simp only [Prod.mk.injEq] at hcvk; exact hcvk
    have := sameTermM hI hcv hck (by rw [hv1.2, hk1.2]; exact heq) (by rw [hv1.1, hk1.1]; exact hidx)
    rw [hcvk, hckk] at this
    exact hbv.trans (uniqM hI) this
  · have hgt : (x.node i).lastLogTerm < k.lastTerm := by
      apply Nat.lt_of_le_of_ne
      · apply Nat.le_of_not_lt; intro hlt; exact hup (Or.inl hlt)
      · exact heq
    by_cases hanc : Anc x.cm.T b k.last
    · exact Or.inl hanc
    · right
      have hk1 : ck.e.term = k.lastTerm := by
        unfold key Camp.last at hckk; simp only [Prod.mk.injEq] at hckk; exact hckk.2
      exact ⟨ck, hck, by rw [hk1]; omega, by rw [hk1]; omega, by rw [hckk]; exact hanc⟩

/-- **from a grant to the form `UpToM`, for a node that is still candidate of the term**: an entry of the
campaign's term that does not extend `b` was created by somebody else -/
theorem upTo_of_grantM (hI : MInv x G) {i : Nat}
    (hc : (x.node i).role = .candidate) {k : Camp} (hk : k ∈ x.cm.camps) (hki : k.cand = i)
    (hkt : k.term = (x.node i).term) {v : Nat}
    (hg : ({ voter := v, term := (x.node i).term, cand := i } : C01.Grant) ∈ x.el.grants) :
    UpToM x.cm.T (acksG x G) k v := by
  intro a ha hv hlt b hb hanc
  rcases hI.vote.grantInv _ hg k hk hki hkt a ha hv hlt b hb hanc with r | ⟨c, hcT, c1, c2, c3⟩
  · exact Or.inl r
  · right
    refine ⟨c, hcT, c1, c3, ?_⟩
    by_cases hlt' : c.e.term < k.term
    · exact Or.inl hlt'
    · right
      have hct : c.e.term = (x.node i).term := by omega
      have h0 := cr_ne_zeroM hI (i := i) (by rw [hc]; decide) hcT hct
      refine ⟨by rw [hkt]; exact hct, h0, ?_⟩
      rw [hki]
      intro hci
      obtain ⟨_, _, _, o5⟩ := hI.rp.own c hcT h0
      rw [hci] at o5
      have : c.e.term < (x.node i).term := o5 hc
      omega

/-- the commit index lies within the log -/
theorem ciLeM (hI : MInv x G) (i : Nat) : (x.node i).commitIndex ≤ (x.node i).log.entries.length := by
  by_cases h0 : (x.node i).commitIndex = 0
  · omega
  · exact (hI.cmt.cc i _ (by omega) (Nat.le_refl _)).1

/-- leader completeness for the ledger `committed` -/
theorem lcCommitted (hI : MInv x G) (hS : SideT x) :
    ∀ m ∈ x.cm.committed, ∀ c ∈ x.cm.T, m.2 < c.e.term → Anc x.cm.T m (key c) := by
  intro m hm c hc hlt
  obtain ⟨r, hr, e⟩ := hI.recs.cover m hm
  rw [← e]; exact lcM hI hS r hr c hc (by rw [e]; exact hlt)

/-- **a request that is not stale does not conflict with what the receiver has committed** -/
theorem reqokM (hI : MInv x G) (hS : SideT x) {i : Nat} {q : AppendReq} (hq : q ∈ x.cm.rp.sent)
    (hns : ¬ q.term < (x.node i).term) : NoConf (x.node i) q (x.node i).commitIndex := by
  intro e he hle
  have hidx := (hI.rp.sent q hq).idx
  have h1 : 1 ≤ e.index := by
    obtain ⟨j, hj, rfl⟩ := List.getElem_of_mem he
    rw [hidx j hj]; omega
  obtain ⟨hlen, m, hm, m1, m2⟩ := hI.cmt.cc i e.index h1 hle
  obtain ⟨c, hc, c1, c2, _⟩ := hI.sent.anc q hq
  have hec := c2 e he
  -- `m` and `c` lie on one path, so the two keys with index `e.index` below them coincide
  have fin : ∀ z : K, Anc x.cm.T (e.index, termAt (x.node i).log.entries e.index) z →
      Anc x.cm.T (e.index, e.term) z → termAt (x.node i).log.entries e.index = e.term := by
    intro z h1 h2
    have := (h1.comparable (uniqM hI) h2 (Nat.le_refl _)).eq_of_index rfl
    exact congrArg Prod.snd this
  by_cases hlt : m.2 < q.term
  · have hmc := lcCommitted hI hS m hm c hc (by rw [c1]; exact hlt)
    exact fin (key c) (m2.trans (uniqM hI) hmc) hec
  · have hmt : m.2 = c.e.term := by rw [c1]; omega
    obtain ⟨r, hr, er⟩ := hI.recs.cover m hm
    obtain ⟨_, r2, _⟩ := hI.recs.recd r hr
    obtain ⟨_, es, p, _, hmh⟩ := r2
    obtain ⟨cm, hcm, cm1, cm2, _⟩ := path_record p hmh
    rw [er] at cm1 cm2
    have hcmk : key cm = m := by unfold key; rw [cm1, cm2]
    have e1 : cm.e.term = c.e.term := by rw [cm2, hmt]
    by_cases hidx' : cm.e.index ≤ c.e.index
    · have := sameTermM hI hcm hc e1 hidx'
      rw [hcmk] at this
      exact fin (key c) (m2.trans (uniqM hI) this) hec
    · have := sameTermM hI hc hcm e1.symm (by omega)
      rw [hcmk] at this
      exact fin m m2 (hec.trans (uniqM hI) this)

/-- **a request that is not stale does not conflict with the receiver's log up to a protected index** -/
theorem protNoConf (hI : MInv x G) (hS : SideT x) {i k : Nat} {q : AppendReq} (hq : q ∈ x.cm.rp.sent)
    (hns : ¬ q.term < (x.node i).term) (hp : ProtG x G i k) : NoConf (x.node i) q k := by
  intro e he hle
  obtain ⟨hk1, hk2, hpr⟩ := hp
  have hidx := (hI.rp.sent q hq).idx
  have h1 : 1 ≤ e.index := by
    obtain ⟨j, hj, rfl⟩ := List.getElem_of_mem he
    rw [hidx j hj]; omega
  obtain ⟨c, hc, c1, c2, _⟩ := hI.sent.anc q hq
  have hec := c2 e he
  -- the key the log holds at `e.index` lies below the protected key
  have hbelow : Anc x.cm.T (e.index, termAt (x.node i).log.entries e.index) (k, termAt (x.node i).log.entries k) :=
    log_ancM hI i ⟨h1, by omega, rfl⟩ ⟨hk1, hk2, rfl⟩ hle
  have fin : ∀ z : K, Anc x.cm.T (e.index, termAt (x.node i).log.entries e.index) z →
      Anc x.cm.T (e.index, e.term) z → termAt (x.node i).log.entries e.index = e.term := by
    intro z h1 h2
    have := (h1.comparable (uniqM hI) h2 (Nat.le_refl _)).eq_of_index rfl
    exact congrArg Prod.snd this
  rcases hpr with hroot | ⟨r, hr, r1, r2⟩
  · have := hI.tree.rootA c hc
    rw [← hroot] at this
    exact fin (key c) (hbelow.trans (uniqM hI) this) hec
  · have m2 := hbelow.trans (uniqM hI) r2
    by_cases hlt : r.m.2 < q.term
    · have hmc := lcM hI hS r hr c hc (by rw [c1]; exact hlt)
      exact fin (key c) (m2.trans (uniqM hI) hmc) hec
    · have hmt : r.m.2 = c.e.term := by rw [c1]; omega
      obtain ⟨_, r2', _⟩ := hI.recs.recd r hr
      obtain ⟨_, es, p, _, hmh⟩ := r2'
      obtain ⟨cm, hcm, cm1, cm2, _⟩ := path_record p hmh
      have hcmk : key cm = r.m := by unfold key; rw [cm1, cm2]
      have e1 : cm.e.term = c.e.term := by rw [cm2, hmt]
      by_cases hidx' : cm.e.index ≤ c.e.index
      · have := sameTermM hI hcm hc e1 hidx'
        rw [hcmk] at this
        exact fin (key c) (m2.trans (uniqM hI) this) hec
      · have := sameTermM hI hc hcm e1.symm (by omega)
        rw [hcmk] at this
        exact fin r.m m2 (hec.trans (uniqM hI) this)

end static

end MemberInv
end Raft
