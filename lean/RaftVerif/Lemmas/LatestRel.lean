/-
Lemmas for C19 / C08 (content): "the latest configuration is the newest configuration entry in log ∪ snapshot",
as an inductive invariant of `Node.step`.

* `seg log j m`: the configurations of the log entries with index in `(j, m]`; `pre log m = pre log j ++ seg log j m`
  (`Track.pre`, `Track.newest`: Lemmas/ConfigTrack.lean). With a contiguous log the configurations carry the index of
  their entry, so `newest log L m` is stable between its own index and `m` (`newest_stable`), and every
  configuration at or below `m` has an index at or below that of `newest log L m` (`newest_ge`).
* `LNc log L cs ci m` — the invariant proper, on the components it looks at (log, label `L`, configurations `cs`,
  commit index `ci`, cut-off `m`): `cs.latest = newest log L m`, and `cs.committed` is `cs.latest` or lies strictly
  below it and — while the commit index has not passed `cs.latest.index` — is the newest configuration strictly
  below `cs.latest`. `LN s` is `LNc` at `m = s.log.last`; `Pend s c` describes the state between
  `storage.appendEntry` of a configuration entry and the `Raft.changeConfig` that adopts it.
* `LI s₀ b g s` = `Track.TI s₀ b g s` (orderings + tracking, Lemmas/Order.lean, Lemmas/ConfigTrack.lean) and, while
  the step has not panicked, `LN s`. Every primitive, the leader block, every handler, `settle`, `handle` preserve it
  (`li_stepAll`); `LNc.of_scan`: what `openStorage` finds satisfies it.
* `CI s₀ b g s` = `Track.TI` and `CfgRel.CfgLog` (every entry of type `entryConfig` lies at or below
  `configs.committed.index` or is the entry of `configs.latest`), carried through the follower's append-entries handler
  (`ci_onAppendEntries`) — the case `Lemmas/ConfigRel.lean` leaves open.
-/
import RaftVerif.Lemmas.ConfigTrack
import RaftVerif.Lemmas.ConfigRel

namespace Raft
namespace Latest
open Node Track

/-! ## configurations of a range of the log -/

/-- the configurations of the log entries with index in `(j, m]` (oldest first) -/
def seg (log : NLog) (j m : Nat) : List Config :=
  ((log.entries.take (m - log.prev)).drop (j - log.prev)).filterMap Entry.config?

theorem pre_split (log : NLog) {j m : Nat} (h : j ≤ m) : pre log m = pre log j ++ seg log j m := by
  unfold pre seg
  rw [← List.filterMap_append]
  congr 1
  have e : log.entries.take (j - log.prev) = (log.entries.take (m - log.prev)).take (j - log.prev) := by
    rw [List.take_take]; congr 1; omega
  rw [e, List.take_append_drop]

/-- the configurations up to `m` come from entries in `(prev, m]` -/
theorem pre_index {log : NLog} (hc : C03.LogContig log) {m : Nat} {c : Config} (h : c ∈ pre log m) :
    log.prev < c.index ∧ c.index ≤ m := by
  unfold pre at h
  obtain ⟨e, he, hcfg⟩ := List.mem_filterMap.mp h
  obtain ⟨k, hk, rfl⟩ := List.getElem_of_mem he
  rw [List.length_take] at hk
  rw [Order.config?_index hcfg, List.getElem_take, hc k (by omega)]
  omega

theorem seg_index {log : NLog} (hc : C03.LogContig log) {j m : Nat} {c : Config} (h : c ∈ seg log j m) :
    j < c.index ∧ c.index ≤ m ∧ log.prev < c.index := by
  unfold seg at h
  obtain ⟨e, he, hcfg⟩ := List.mem_filterMap.mp h
  obtain ⟨k, hk, rfl⟩ := List.getElem_of_mem he
  rw [List.length_drop, List.length_take] at hk
  rw [Order.config?_index hcfg, List.getElem_drop, List.getElem_take, hc _ (by omega)]
  omega

/-- beyond the end of the log there is nothing more -/
theorem pre_beyond (log : NLog) {m : Nat} (h : log.last ≤ m) : pre log m = pre log log.last := by
  unfold pre NLog.last at *
  rw [List.take_of_length_le (by omega), List.take_of_length_le (by omega)]

theorem pre_last (log : NLog) : pre log log.last = log.entries.filterMap Entry.config? := by
  unfold pre NLog.last
  rw [List.take_of_length_le (by omega)]

theorem newest_beyond (log : NLog) (L : Config) {m : Nat} (h : log.last ≤ m) : newest log L m = newest log L log.last := by
  unfold newest; rw [pre_beyond log h]

theorem newest_mem {log : NLog} {m : Nat} (L : Config) (hne : pre log m ≠ []) : newest log L m ∈ pre log m := by
  unfold newest
  cases hl : (pre log m).getLast? with
  | none => exact absurd (List.getLast?_eq_none_iff.mp hl) hne
  | some c => exact List.mem_of_getLast? hl

/-- the newest configuration at or below `m` is also the newest at or below every `j` between its index and `m` -/
theorem newest_stable {log : NLog} (hc : C03.LogContig log) (L : Config) {j m : Nat}
    (hj : (newest log L m).index ≤ j) (hjm : j ≤ m) : pre log j = pre log m := by
  have hs := pre_split log hjm
  cases ht : seg log j m with
  | nil => rw [hs, ht, List.append_nil]
  | cons a t =>
    exfalso
    have hne' : seg log j m ≠ [] := by rw [ht]; exact List.cons_ne_nil _ _
    obtain ⟨c, hcl⟩ : ∃ c, (seg log j m).getLast? = some c := by
      cases hg : (seg log j m).getLast? with
      | none => exact absurd (List.getLast?_eq_none_iff.mp hg) hne'
      | some c => exact ⟨c, rfl⟩
    have hn : newest log L m = c := by
      unfold newest
      rw [hs, List.getLast?_append, hcl]; rfl
    have := (seg_index hc (List.mem_of_getLast? hcl)).1
    rw [hn] at hj
    omega

/-- every configuration at or below `m` has an index at or below that of the newest one -/
theorem newest_ge {log : NLog} (hc : C03.LogContig log) (L : Config) {m : Nat} {c : Config} (h : c ∈ pre log m) :
    c.index ≤ (newest log L m).index := by
  have hne : pre log m ≠ [] := List.ne_nil_of_mem h
  have hn := pre_index hc (newest_mem L hne)
  by_cases hle : c.index ≤ (newest log L m).index
  · exact hle
  · exfalso
    have e := newest_stable hc L (Nat.le_refl _) hn.2
    rw [← e] at h
    have := (pre_index hc h).2
    omega

/-- re-labelling with the newest configuration at or below `j` changes nothing at or above `j` -/
theorem newest_relabel (log : NLog) (L : Config) {j m : Nat} (h : j ≤ m) :
    newest log (newest log L j) m = newest log L m := by
  by_cases hn : pre log m = []
  · rw [newest_of_nil _ hn, newest_of_nil _ hn, newest_of_nil _ (pre_nil_of_le log h hn)]
  · exact newest_of_ne _ _ hn

/-- the configurations at or below `m` are those strictly below the newest one, and the newest one -/
theorem pre_dropLast {log : NLog} (hc : C03.LogContig log) {m : Nat} {c : Config}
    (h : (pre log m).getLast? = some c) : pre log m = pre log (c.index - 1) ++ [c] := by
  have hmem : c ∈ pre log m := List.mem_of_getLast? h
  have hne : pre log m ≠ [] := List.ne_nil_of_mem hmem
  obtain ⟨h1, h2⟩ := pre_index hc hmem
  have hn : newest log c m = c := by unfold newest; rw [h]; rfl
  have e := newest_stable hc c (by rw [hn]; exact Nat.le_refl _) h2
  have hs := pre_split log (show c.index - 1 ≤ c.index by omega)
  -- the range `(c.index - 1, c.index]` holds at most one entry
  have hlen : (seg log (c.index - 1) c.index).length ≤ 1 := by
    unfold seg
    refine Nat.le_trans (List.length_filterMap_le _ _) ?_
    rw [List.length_drop, List.length_take]
    omega
  rw [← e, hs] at h ⊢
  match hsg : seg log (c.index - 1) c.index, hlen with
  | [], _ =>
    exfalso
    rw [hsg, List.append_nil] at h
    have := (pre_index hc (List.mem_of_getLast? h)).2
    omega
  | [x], _ =>
    rw [hsg] at h
    rw [List.getLast?_append] at h
    simp only [List.getLast?_singleton, Option.some_or] at h
    injection h with h
    rw [h]
  | _ :: _ :: _, hl => simp at hl

/-! ## the log operations on `pre` -/

theorem pre_append_le (l : NLog) (e : Entry) (roll : Bool) {j : Nat} (h : j ≤ l.last) :
    pre (l.append e roll) j = pre l j := by
  obtain ⟨p1, p2⟩ := C03.append_parts l e roll
  unfold pre
  rw [p1, p2, List.take_append_of_le_length (by unfold NLog.last at h; omega)]

theorem pre_append_last (l : NLog) (e : Entry) (roll : Bool) :
    pre (l.append e roll) (l.append e roll).last = pre l l.last ++ (e.config?).toList := by
  obtain ⟨_, p2⟩ := C03.append_parts l e roll
  rw [pre_last, pre_last, p2, List.filterMap_append]
  cases hcfg : e.config? <;> simp [hcfg]

theorem pre_commitN (l : NLog) (n j : Nat) : pre (l.commitN n) j = pre l j := by
  obtain ⟨e1, e2, _⟩ := Order.commitN_same l n
  unfold pre; rw [e1, e2]

theorem last_commitN (l : NLog) (n : Nat) : (l.commitN n).last = l.last := by
  obtain ⟨e1, e2, _⟩ := Order.commitN_same l n
  unfold NLog.last; rw [e1, e2]

theorem pre_removeGTE (l : NLog) (i j : Nat) : pre (l.removeGTE i) j = pre l (min j (i - 1)) := by
  unfold pre
  show ((l.entries.take (i - 1 - l.prev)).take (j - l.prev)).filterMap _ = _
  rw [List.take_take]
  congr 2
  omega

/-- compaction at or below a self-consistent label does not change the newest configuration at or above it -/
theorem newest_compacted {log log' : NLog} {L : Config} {si m : Nat} (h : Compacted log log') (hsi : log'.prev ≤ si)
    (hl : newest log L si = L) (hm : si ≤ m) : newest log' L m = newest log L m := by
  have hp := h.pre m (by omega)
  by_cases hn : pre log' m = []
  · rw [newest_of_nil _ hn]
    have hn' : pre log' si = [] := pre_nil_of_le log' hm hn
    have hps := h.pre si hsi
    rw [hn', List.append_nil] at hps
    rw [hn, List.append_nil] at hp
    have : newest log L m = newest log L si := by unfold newest; rw [hp, hps]
    rw [this, hl]
  · unfold newest
    rw [hp, List.getLast?_append]
    cases hg : (pre log' m).getLast? with
    | none => exact absurd (List.getLast?_eq_none_iff.mp hg) hn
    | some c => rfl


/-! ## the invariant on its components -/

/-- **The invariant proper**, on the components it looks at. `log`, `L`: the log and the label of the newest
snapshot; `cs`: the node's configurations; `ci`: its commit index; `m`: the cut-off (the last log index, except between
the append of a configuration entry and its adoption).
* `latest`: `cs.latest` is the newest configuration entry at or below `m`, else the label;
* `committed`: `cs.committed` is `cs.latest` itself, or lies strictly below it and — as long as the commit index has
  not passed `cs.latest.index` — is the newest configuration strictly below `cs.latest` (entry, else label): the
  PREVIOUS latest configuration. -/
structure LNc (log : NLog) (L : Config) (cs : Configs) (ci m : Nat) : Prop where
  latest : cs.latest = newest log L m
  committed : cs.committed = cs.latest ∨
    (cs.committed.index < cs.latest.index ∧
      (ci < cs.latest.index → cs.committed = newest log L (cs.latest.index - 1)))

/-- log, label, commit index and cut-off change, but neither the newest configuration at the cut-off nor (while it
matters) the newest one strictly below `cs.latest` does -/
theorem LNc.transfer {log log' : NLog} {L L' : Config} {cs : Configs} {ci ci' m m' : Nat} (h : LNc log L cs ci m)
    (hm : newest log' L' m' = newest log L m)
    (hc : ci' < cs.latest.index → ci < cs.latest.index ∧
      newest log' L' (cs.latest.index - 1) = newest log L (cs.latest.index - 1)) : LNc log' L' cs ci' m' := by
  refine ⟨by rw [hm]; exact h.latest, ?_⟩
  rcases h.committed with h1 | ⟨h1, h2⟩
  · exact Or.inl h1
  · exact Or.inr ⟨h1, fun hlt => by obtain ⟨a, b⟩ := hc hlt; rw [b]; exact h2 a⟩

/-- `Raft.commitConfig` -/
theorem LNc.commit {log : NLog} {L : Config} {cs : Configs} {ci ci' m : Nat} (h : LNc log L cs ci m) :
    LNc log L ⟨cs.latest, cs.latest⟩ ci' m := ⟨h.latest, Or.inl rfl⟩

/-- the state between the append of a configuration entry `c` (at index `m`) and its adoption -/
structure PendC (log : NLog) (L : Config) (cs : Configs) (ci m : Nat) (c : Config) : Prop where
  before : LNc log L cs ci (m - 1)
  pre : pre log m = pre log (m - 1) ++ [c]
  index : c.index = m
  newer : cs.latest.index < c.index

/-- `Raft.changeConfig` adopting the entry just appended -/
theorem PendC.adopt {log : NLog} {L : Config} {cs : Configs} {ci m : Nat} {c : Config} (h : PendC log L cs ci m c) :
    LNc log L ⟨cs.latest, c⟩ ci m := by
  refine ⟨?_, Or.inr ⟨h.newer, fun _ => ?_⟩⟩
  · show c = newest log L m
    unfold newest
    rw [h.pre, List.getLast?_append]
    rfl
  · show cs.latest = newest log L (c.index - 1)
    rw [h.index]; exact h.before.latest

/-- truncation at an index at or below `cs.latest.index` (and above the commit index and `cs.committed.index`) followed
by `Raft.revertConfig`: the previous latest configuration is the newest one again -/
theorem LNc.revert {log log' : NLog} {L : Config} {cs : Configs} {ci m i : Nat} (hc : C03.LogContig log)
    (h : LNc log L cs ci m) (h1 : cs.committed.index < i) (h2 : ci < i) (h3 : i ≤ cs.latest.index)
    (hpre : ∀ j, pre log' j = pre log (min j (i - 1))) : LNc log' L ⟨cs.committed, cs.committed⟩ ci (i - 1) := by
  refine ⟨?_, Or.inl rfl⟩
  show cs.committed = newest log' L (i - 1)
  rcases h.committed with e | ⟨_, e⟩
  · rw [e] at h1; omega
  · have hcm := e (by omega)
    have hn : newest log' L (i - 1) = newest log L (i - 1) := by
      unfold newest; rw [hpre, Nat.min_self]
    rw [hn]
    by_cases hnil : pre log (cs.latest.index - 1) = []
    · rw [hcm, newest_of_nil _ hnil, newest_of_nil _ (pre_nil_of_le log (by omega) hnil)]
    · have hst := newest_stable hc L (j := i - 1) (m := cs.latest.index - 1) (by rw [← hcm]; omega) (by omega)
      rw [hcm]
      unfold newest; rw [hst]

/-- truncation above `cs.latest.index` -/
theorem LNc.truncAbove {log log' : NLog} {L : Config} {cs : Configs} {ci m i : Nat} (hc : C03.LogContig log)
    (h : LNc log L cs ci m) (h3 : cs.latest.index < i) (him : i - 1 ≤ m)
    (hpre : ∀ j, pre log' j = pre log (min j (i - 1))) : LNc log' L cs ci (i - 1) := by
  refine h.transfer ?_ (fun hlt => ⟨hlt, ?_⟩)
  · have hn : newest log' L (i - 1) = newest log L (i - 1) := by
      unfold newest; rw [hpre, Nat.min_self]
    rw [hn]
    by_cases hnil : pre log m = []
    · rw [newest_of_nil _ hnil, newest_of_nil _ (pre_nil_of_le log him hnil)]
    · have hst := newest_stable hc L (j := i - 1) (m := m) (by rw [← h.latest]; omega) him
      unfold newest; rw [hst]
  · unfold newest
    rw [hpre]
    congr 3
    omega

/-- no configuration entry at all: both configurations are the label -/
theorem LNc.fresh {log : NLog} {L : Config} {ci m : Nat} (h : pre log m = []) : LNc log L ⟨L, L⟩ ci m :=
  ⟨(newest_of_nil L h).symm, Or.inl rfl⟩

/-! ## the invariant on a node -/

/-- **The latest configuration is the newest configuration entry the node's log or snapshot contains** (and the
committed one is the latest or the previous latest): `LNc` for the node's log, the label of its newest snapshot
(`Track.label`), its configurations and commit index, at the last log index. Entries at or below the snapshot index
that the log still holds do not matter: the label is the newest configuration at or below the snapshot index
(`Track.Core.lab`), see `LN.above_snapshot`. -/
def LN (s : Node) : Prop := LNc s.log (label s) s.configs s.commitIndex s.log.last

/-- the state between `storage.appendEntry` of a configuration entry `c` and `Raft.changeConfig c` -/
def Pend (s : Node) (c : Config) : Prop := PendC s.log (label s) s.configs s.commitIndex s.log.last c

/-- what `LN` and `Pend` look at -/
def obsL (s : Node) : NLog × List SnapFile × Configs × Nat := (s.log, s.snapsDisk, s.configs, s.commitIndex)

theorem obsL_eq {s s' : Node} (h : obsL s' = obsL s) :
    s'.log = s.log ∧ s'.snapsDisk = s.snapsDisk ∧ s'.configs = s.configs ∧ s'.commitIndex = s.commitIndex := by
  simp only [obsL, Prod.mk.injEq] at h
  exact h

theorem label_of_disk {s s' : Node} (h : s'.snapsDisk = s.snapsDisk) : label s' = label s := by
  unfold label; rw [h]

theorem LN.congr {s s' : Node} (h : LN s) (e : obsL s' = obsL s) : LN s' := by
  obtain ⟨e1, e2, e3, e4⟩ := obsL_eq e
  unfold LN
  rw [e1, label_of_disk e2, e3, e4]
  exact h

theorem Pend.congr {s s' : Node} {c : Config} (h : Pend s c) (e : obsL s' = obsL s) : Pend s' c := by
  obtain ⟨e1, e2, e3, e4⟩ := obsL_eq e
  unfold Pend
  rw [e1, label_of_disk e2, e3, e4]
  exact h

/-- `obsL` is part of what `Order.obs` and `Track.obsT` look at -/
theorem obsL_of {s s' : Node} (h1 : Order.obs s' = Order.obs s) (h2 : obsT s' = obsT s) : obsL s' = obsL s := by
  obtain ⟨_, a2, _, _, a5, a6, _⟩ := Order.obs_eq h1
  obtain ⟨_, b2, _⟩ := obsT_eq h2
  unfold obsL
  rw [a2, b2, a6, a5]

/-- **with a self-consistent label the entries at or below the snapshot index do not matter**: `configs.latest` is
the newest configuration entry ABOVE the snapshot index, and the snapshot's label if there is none. -/
theorem LN.above_snapshot {s : Node} (h : LN s) (hlab : newest s.log (label s) s.snapIndex = label s)
    (hle : s.snapIndex ≤ s.log.last) :
    s.configs.latest = ((seg s.log s.snapIndex s.log.last).getLast?).getD (label s) := by
  rw [h.latest]
  unfold newest
  rw [pre_split s.log hle, List.getLast?_append]
  cases hg : (seg s.log s.snapIndex s.log.last).getLast? with
  | none => exact hlab
  | some c => rfl

/-! ## the invariant of a step -/

/-- The invariant of a step that started in `s₀`: orderings and tracking (`Track.TI`) and, while the step has not
panicked, `LN`. -/
def LI (s₀ : Node) (b g : Bool) (s : Node) : Prop := TI s₀ b g s ∧ (s.panicked = none → LN s)

variable {s₀ : Node} {b g : Bool}

theorem LI.dropQ {s : Node} (h : LI s₀ b g s) : LI s₀ b false s := ⟨h.1.dropQ, h.2⟩
theorem LI.weaken {s : Node} (h : LI s₀ true g s) : LI s₀ b g s := ⟨h.1.weaken, h.2⟩
theorem LI.toFalse {s : Node} (h : LI s₀ b g s) : LI s₀ false g s := ⟨h.1.toFalse, h.2⟩

/-- the tracking part available while not panicked -/
theorem LI.core {s : Node} (h : LI s₀ b g s) (hp : s.panicked = none) : Core s := (h.1.2 hp).1
theorem LI.coreW {s : Node} (h : LI s₀ b g s) (hp : s.panicked = none) : Order.CoreW s := h.1.coreW hp

/-- a state whose `TI` is known and that differs in nothing `LN` looks at -/
theorem LI.of_ti {s s' : Node} {b' g' : Bool} (h : LI s₀ b g s) (ht : TI s₀ b' g' s') (e : obsL s' = obsL s)
    (hp : s'.panicked = none → s.panicked = none) : LI s₀ b' g' s' :=
  ⟨ht, fun hp' => (h.2 (hp hp')).congr e⟩

theorem LI.irr {s s' : Node} (h : LI s₀ b g s) (hi : Order.Irr s s') (e : obsT s' = obsT s) : LI s₀ b g s' :=
  ⟨h.1.irr hi e, fun hp => (h.2 (hi.2 hp)).congr (obsL_of hi.1 e)⟩

/-! ## primitives that touch nothing of the invariant -/

theorem li_panic (s : Node) (site : String) : LI s₀ b g (s.panic site) :=
  ⟨ti_panic s site, fun h => absurd h (panic_panicked_ne s site)⟩

theorem li_assert {s : Node} (bb : Bool) (site : String) (h : LI s₀ b g s) : LI s₀ b g (s.assert bb site) :=
  h.irr (Order.irr_assert s bb site) (obsT_assert s bb site)
theorem li_reply {s : Node} (t : Nat) (r : String) (h : LI s₀ b g s) : LI s₀ b g (s.reply t r) :=
  h.irr (Order.irr_reply s t r) (obsT_reply s t r)
theorem li_point {s : Node} (n : String) (h : LI s₀ b g s) : LI s₀ b g (s.point n) := h.irr (Order.irr_point s n) rfl
theorem li_popOrder {s : Node} (h : LI s₀ b g s) : LI s₀ b g s.popOrder := h.irr (Order.irr_popOrder s) rfl
theorem li_rpcReply {s : Node} (r) (h : LI s₀ b g s) : LI s₀ b g (s.withRpcReply r) := h.irr (Order.irr_rpcReply s r) rfl
theorem li_ret {s : Node} (r : Nat) (h : LI s₀ b g s) : LI s₀ b g (s.ret r) := h.irr (Order.irr_ret s r) rfl
theorem li_setRole {s : Node} (r : Role) (h : LI s₀ b g s) : LI s₀ b g (s.setRole r) := h.irr (Order.irr_setRole s r) rfl
theorem li_setLeader {s : Node} (l : Nat) (h : LI s₀ b g s) : LI s₀ b g (s.setLeader l) := h.irr (Order.irr_setLeader s l) rfl
theorem li_votesNeeded {s : Node} (v : Int) (h : LI s₀ b g s) : LI s₀ b g (s.withVotesNeeded v) :=
  h.irr (Order.irr_votesNeeded s v) rfl
theorem li_candTransfer {s : Node} (v : Bool) (h : LI s₀ b g s) : LI s₀ b g (s.withCandTransfer v) :=
  h.irr (Order.irr_candTransfer s v) rfl
theorem li_snapPending {s : Node} (v) (h : LI s₀ b g s) : LI s₀ b g (s.withSnapPending v) :=
  h.irr (Order.irr_snapPending s v) rfl
theorem li_doClose {s : Node} (r : String) (h : LI s₀ b g s) : LI s₀ b g (s.doClose r) :=
  h.irr (Order.irr_doClose s r) (obsT_doClose s r)
theorem li_setTerm {s : Node} (t : Nat) (h : LI s₀ b g s) : LI s₀ b g (s.setTerm t) :=
  h.irr (Order.irr_setTerm s t) (obsT_setTerm s t)
theorem li_setVotedFor {s : Node} (t c : Nat) (h : LI s₀ b g s) : LI s₀ b g (s.setVotedFor t c) :=
  h.irr (Order.irr_setVotedFor s t c) (obsT_setVotedFor s t c)

/-- replacing the leader struct by one with the same compaction bound and the same queue -/
theorem li_ldr_same {s : Node} {l : Leader} (h : LI s₀ b g s) (hl : l.removeLTE = s.ldr.removeLTE)
    (hq : l.queue = s.ldr.queue) : LI s₀ b g (s.withLdr l) :=
  h.irr (Order.irr_ldr s l hl) (by unfold obsT Node.withLdr; dsimp only; rw [hq])

/-- replacing the leader struct: the compaction bound stays at or below the snapshot index, the queue shrinks -/
theorem li_ldr {s : Node} {l : Leader} (h : LI s₀ b g s) (hl : s.panicked = none → l.removeLTE ≤ s.snapIndex)
    (hq : ∀ q ∈ l.queue, q ∈ s.ldr.queue) : LI s₀ b g (s.withLdr l) :=
  h.of_ti (ti_ldr h.1 hl hq) rfl id

theorem li_snapResult {s : Node} (v : Option SnapRes) (h : LI s₀ b g s)
    (hg : s.panicked = none → ∀ rs, v = some rs → rs.index ≤ s.snapIndex) : LI s₀ b g (s.withSnapResult v) :=
  h.of_ti (ti_snapResult v h.1 hg) rfl id

theorem li_withLast {s : Node} (i t : Nat) (h : LI s₀ b g s) (hg : s.panicked = none → s.lastLogIndex = i) :
    LI s₀ b g (s.withLast i t) :=
  h.of_ti (ti_withLast i t h.1 hg) rfl id


/-! ## configurations and the commit index -/

theorem LN.of_parts {s : Node} {log : NLog} {L : Config} {cs : Configs} {ci : Nat} (e1 : s.log = log)
    (e2 : label s = L) (e3 : s.configs = cs) (e4 : s.commitIndex = ci) (h : LNc log L cs ci log.last) : LN s := by
  unfold LN; rw [e1, e2, e3, e4]; exact h

/-- `Raft.changeConfig` adopting the configuration entry just appended (`Pend`) -/
theorem li_changeConfigR {s : Node} (cfg : Config) (h : TI s₀ b g s)
    (hg : s.panicked = none → s.configs.latest.index ≤ cfg.index ∧ cfg.index ≤ s.lastLogIndex)
    (hpend : s.panicked = none → Pend s cfg) : LI s₀ b g (s.changeConfigR cfg) := by
  refine ⟨ti_changeConfigR cfg h hg, fun hp => ?_⟩
  obtain ⟨c1, c2, _, _, _, _, c7, c8, _, _, c11⟩ := changeConfigR_other s cfg
  rw [c11] at hp
  exact LN.of_parts c2 (label_of_disk c7) c1 c8 (hpend hp).adopt

theorem li_commitConfig {s : Node} (h : LI s₀ b g s) : LI s₀ b g s.commitConfig := by
  refine ⟨ti_commitConfig h.1, fun hp => ?_⟩
  obtain ⟨c1, c2, _, _, _, _, c7, c8, _, _, c11⟩ := commitConfig_other s
  rw [c11] at hp
  exact LN.of_parts c2 (label_of_disk c7) c1 c8 (h.2 hp).commit

/-- moving the commit index forward -/
theorem li_withCommitIndex {s : Node} {b' : Bool} (i : Nat) (h : LI s₀ b g s)
    (hg : s.panicked = none → s.fsm.index ≤ i ∧ (b' = true → i ≤ s.lastLogIndex))
    (hci : s.panicked = none → s.commitIndex ≤ i) : LI s₀ b' g (s.withCommitIndex i) := by
  refine ⟨ti_withCommitIndex i h.1 hg, fun hp => ?_⟩
  have hp' : s.panicked = none := hp
  exact LN.of_parts (s := s.withCommitIndex i) (log := s.log) (L := label s) (cs := s.configs) (ci := i) rfl rfl rfl rfl
    ((h.2 hp').transfer rfl (fun hlt => ⟨by have := hci hp'; omega, rfl⟩))

theorem li_setCommitIndexR {s : Node} {b' : Bool} (i : Nat) (h : LI s₀ b g s)
    (hg : s.panicked = none → s.fsm.index ≤ i ∧ (b' = true → i ≤ s.lastLogIndex))
    (hci : s.panicked = none → s.commitIndex ≤ i) : LI s₀ b' g (s.setCommitIndexR i).1 := by
  unfold Node.setCommitIndexR
  split
  · exact (li_commitConfig (li_withCommitIndex i h hg hci)).irr (Order.irr_afterConfigCommit _)
      (obsT_afterConfigCommit _)
  · exact li_withCommitIndex i h hg hci

/-! ## the log operations -/

theorem appendEntry_obs (s : Node) (e : Entry) :
    ∃ roll, (s.appendEntry e).log = s.log.append e roll ∧ (s.appendEntry e).snapsDisk = s.snapsDisk ∧
      (s.appendEntry e).configs = s.configs ∧ (s.appendEntry e).commitIndex = s.commitIndex := by
  unfold Node.appendEntry
  dsimp only
  obtain ⟨_, a2, _, _, a5, a6, _⟩ :=
    Order.obs_eq (Order.irr_assert s (e.index == s.lastLogIndex + 1) "assert.appendEntry").1
  obtain ⟨_, t2, _⟩ := obsT_eq (obsT_assert s (e.index == s.lastLogIndex + 1) "assert.appendEntry")
  exact ⟨_, by rw [a2], t2, a6, a5⟩

/-- `storage.appendEntry` of an entry that is not a (decodable) configuration entry -/
theorem li_appendEntry {s : Node} {g' : Bool} (e : Entry) (h : LI s₀ b g' s)
    (hq : g = true → s.panicked = none → ∀ q ∈ s.ldr.queue, isLogEntryTyp q.typ = true → s.log.prev < q.index →
      s.log.get? q.index = some q.toEntry ∨ (q.index = e.index ∧ q.toEntry = e))
    (hcfg : e.config? = none) : LI s₀ b g (s.appendEntry e) := by
  refine ⟨ti_appendEntry e h.1 hq, fun hp => ?_⟩
  obtain ⟨he, hp'⟩ := Order.appendEntry_ok hp
  obtain ⟨roll, a1, a2, a3, a4⟩ := appendEntry_obs s e
  have cw := h.coreW hp'
  refine LN.of_parts a1 (label_of_disk a2) a3 a4 ((h.2 hp').transfer ?_ (fun hlt => ⟨hlt, ?_⟩))
  · unfold newest
    rw [pre_append_last, hcfg]
    simp
  · unfold newest
    rw [pre_append_le _ _ _ (by have := cw.latest_le_last; have := cw.last_eq; omega)]

theorem li_appendEntry' {s : Node} (e : Entry) (h : LI s₀ b g s) (hcfg : e.config? = none) :
    LI s₀ b g (s.appendEntry e) :=
  li_appendEntry e h (fun hg hp q hq ht hlt => Or.inl ((h.1.2 hp).2 hg q hq ht hlt)) hcfg

/-- `storage.appendEntry` of a configuration entry: the adoption is pending -/
theorem pend_appendEntry {s : Node} {g' : Bool} (e : Entry) (c : Config) (h : LI s₀ b g' s) (hcfg : e.config? = some c)
    (hp : (s.appendEntry e).panicked = none) : Pend (s.appendEntry e) c := by
  obtain ⟨he, hp'⟩ := Order.appendEntry_ok hp
  obtain ⟨roll, a1, a2, a3, a4⟩ := appendEntry_obs s e
  have cw := h.coreW hp'
  have hlast : (s.log.append e roll).last = s.log.last + 1 := Order.last_append _ _ _
  have hll := cw.latest_le_last
  have hle := cw.last_eq
  unfold Pend
  rw [a1, label_of_disk a2, a3, a4]
  refine ⟨?_, ?_, ?_, ?_⟩
  · rw [hlast, Nat.add_sub_cancel]
    exact (h.2 hp').transfer (by unfold newest; rw [pre_append_le _ _ _ (Nat.le_refl _)])
      (fun hlt => ⟨hlt, by unfold newest; rw [pre_append_le _ _ _ (by omega)]⟩)
  · rw [pre_append_last, hcfg, hlast, Nat.add_sub_cancel, pre_append_le _ _ _ (Nat.le_refl _)]
    rfl
  · rw [Order.config?_index hcfg, he, hlast, hle]
  · rw [Order.config?_index hcfg, he]; omega

theorem li_commitLog {s : Node} (n : Nat) (h : LI s₀ b g s) : LI s₀ b g (s.commitLog n) := by
  refine ⟨ti_commitLog n h.1, fun hp => ?_⟩
  have hp' : s.panicked = none := hp
  refine LN.of_parts (s := s.commitLog n) (log := s.log.commitN n) (L := label s) (cs := s.configs)
    (ci := s.commitIndex) rfl rfl rfl rfl
    ((h.2 hp').transfer ?_ (fun hlt => ⟨hlt, ?_⟩))
  · unfold newest; rw [pre_commitN, last_commitN]
  · unfold newest; rw [pre_commitN]

/-- a pending adoption survives `storage.commitLog` (bootstrap) -/
theorem pend_commitLog {s : Node} {c : Config} (n : Nat) (h : Pend s c) : Pend (s.commitLog n) c := by
  unfold Pend at h ⊢
  show PendC (s.log.commitN n) (label s) s.configs s.commitIndex (s.log.commitN n).last c
  rw [last_commitN]
  refine ⟨h.before.transfer ?_ (fun hlt => ⟨hlt, ?_⟩), ?_, h.index, h.newer⟩
  · unfold newest; rw [pre_commitN]
  · unfold newest; rw [pre_commitN]
  · rw [pre_commitN, pre_commitN]; exact h.pre

/-- `Raft.compactLog` at or below the snapshot index: the label stands in for the dropped configurations -/
theorem li_compactLog {s : Node} (i : Nat) (h : LI s₀ b g s) (hg : s.panicked = none → i ≤ s.snapIndex) :
    LI s₀ b g (s.compactLog i) := by
  refine ⟨ti_compactLog i h.1 hg, fun hp => ?_⟩
  have hp' : s.panicked = none := hp
  have c := h.core hp'
  have cw := h.coreW hp'
  obtain ⟨_, _, _, hor, hl, _, _⟩ := C09.removeLTE_whole_segments s.log i cw.segs
  have hcomp := compacted_removeLTE s.log i cw.segs
  have hi := hg hp'
  have hps : (s.log.removeLTE i).prev ≤ s.snapIndex := by
    have := cw.prev_le_snap
    rcases hor with e | e <;> omega
  have hsa := cw.snap_le_applied
  have hac := cw.applied_le_commit
  have hfl := c.fsmLe
  refine LN.of_parts (s := s.compactLog i) (log := s.log.removeLTE i) (L := label s) (cs := s.configs)
    (ci := s.commitIndex) rfl rfl rfl rfl
    ((h.2 hp').transfer ?_ (fun hlt => ⟨hlt, ?_⟩))
  · rw [hl]; exact newest_compacted hcomp hps c.lab (by omega)
  · exact newest_compacted hcomp hps c.lab (by omega)

/-- "delete the conflicting entry and all that follow it" (+ `revertConfig` when the latest configuration goes) -/
theorem li_resolveConflict {s : Node} (ne : Entry) (pt : Nat) (h : LI s₀ true g s)
    (hg : s.panicked = none → ne.index ≤ s.lastLogIndex →
      s.snapIndex < ne.index ∧ s.commitIndex < ne.index ∧ s.configs.committed.index < ne.index) :
    LI s₀ true false (s.resolveConflict ne pt) := by
  refine ⟨ti_resolveConflict ne pt h.1 hg, fun hp => ?_⟩
  have hp' := resolveConflict_sticky s ne pt hp
  have c := h.core hp'
  have cw := h.coreW hp'
  have hln := h.2 hp'
  unfold Node.resolveConflict
  split
  · rename_i hle
    obtain ⟨g1, g2, g3⟩ := hg hp' hle
    have hprev : s.log.prev < ne.index := by have := cw.prev_le_snap; omega
    have hlast : (s.log.removeGTE ne.index).last = ne.index - 1 :=
      Order.last_removeGTE _ _ hprev (by rw [← cw.last_eq]; exact hle)
    split
    · exact hln.congr (obsL_of (Order.irr_panic _ _).1 (obsT_panic _ _))
    · dsimp only
      split
      · rename_i hlat
        have hlat' : ne.index ≤ s.configs.latest.index := hlat
        refine LN.of_parts (s := (s.removeGTE ne.index pt).revertConfig) (log := s.log.removeGTE ne.index)
          (L := label s) (cs := ⟨s.configs.committed, s.configs.committed⟩) (ci := s.commitIndex) rfl rfl rfl rfl ?_
        rw [hlast]
        exact hln.revert c.contig g3 g2 hlat' (pre_removeGTE s.log ne.index)
      · rename_i hlat
        have hlat' : ¬ ne.index ≤ s.configs.latest.index := hlat
        refine LN.of_parts (s := s.removeGTE ne.index pt) (log := s.log.removeGTE ne.index) (L := label s)
          (cs := s.configs) (ci := s.commitIndex) rfl rfl rfl rfl ?_
        rw [hlast]
        exact hln.truncAbove c.contig (by omega) (by rw [← cw.last_eq]; omega) (pre_removeGTE s.log ne.index)
  · exact hln

/-! ## the FSM goroutine -/

theorem obsL_fsmApply (s : Node) (items : List QItem) : obsL (s.fsmApply items) = obsL s := by
  have h1 := Order.fsmFrame_obsF.fsmApply_eq s items
  have h2 := fsmFrame_rest.fsmApply_eq s items
  simp only [Order.obsF, Prod.mk.injEq] at h1
  obtain ⟨_, a2, _, a4, a5, _⟩ := h1
  obtain ⟨_, b2, _⟩ := rest_eq h2
  unfold obsL; rw [a2, b2, a5, a4]

theorem li_fsmApply {s : Node} (items : List QItem) (h : LI s₀ b g s)
    (hit : s.panicked = none → ∀ q ∈ items, isLogEntryTyp q.typ = true → s.log.prev < q.index →
      s.log.get? q.index = some q.toEntry) :
    LI s₀ true g (s.fsmApply items) :=
  h.of_ti (ti_fsmApply items h.1 hit) (obsL_fsmApply s items) (fun hp => (Order.fsmApply_ok s items hp).1)

theorem li_applyCommitted {s : Node} (h : LI s₀ b g s) : LI s₀ true g s.applyCommitted :=
  li_fsmApply [] h (fun _ q hq => by cases hq)

theorem li_applyCommittedL {s : Node} (h : LI s₀ b true s) : LI s₀ true true s.applyCommittedL := by
  unfold Node.applyCommittedL
  dsimp only
  exact li_fsmApply _ (li_ldr h (fun hp => (h.coreW hp).removeLTE_le) (splitQueue_mem _ _).2)
    (fun hp q hq => (h.1.2 hp).2 rfl q ((splitQueue_mem _ _).1 q hq))


/-! ## the mutually recursive leader block -/

theorem li_setRepl {s : Node} (r : Repl) (h : LI s₀ b g s) : LI s₀ b g (s.setRepl r) := by
  unfold Node.setRepl; exact li_ldr_same h rfl rfl

theorem li_addReplication {s : Node} (n : CNode) (h : LI s₀ b g s) : LI s₀ b g (s.addReplication n) := by
  unfold Node.addReplication
  apply li_setRepl
  split
  · exact li_assert _ _ h
  · exact li_panic _ _

theorem li_notifyFlr {s : Node} (h : LI s₀ b g s) : LI s₀ b g s.notifyFlr := by
  unfold Node.notifyFlr; split
  · exact h
  · split
    · exact h
    · exact li_panic _ _

theorem li_beginFinishedRounds {s : Node} (h : LI s₀ b g s) : LI s₀ b g s.beginFinishedRounds := by
  unfold Node.beginFinishedRounds; exact li_ldr_same h rfl rfl

theorem foldl_li {β : Type} (f : Node → β → Node) (hf : ∀ s x, LI s₀ b g s → LI s₀ b g (f s x))
    (xs : List β) (s : Node) (hs : LI s₀ b g s) : LI s₀ b g (xs.foldl f s) := by
  induction xs generalizing s with
  | nil => exact hs
  | cons x xs ih => exact ih _ (hf _ _ hs)

theorem config?_none_of_typ {e : Entry} (h : ¬ e.typ = etConfig) : e.config? = none := by
  unfold Entry.config?; rw [if_neg h]

/-- queueing an item that is not a log entry (read, barrier) -/
theorem li_push {s : Node} (q' : QItem) (h : LI s₀ b true s) (hq : isLogEntryTyp q'.typ ≠ true) :
    LI s₀ b true (s.withLdr { s.ldr with queue := s.ldr.queue ++ [q'] }) :=
  h.of_ti (ti_push q' h.1 hq) rfl id

/-- queueing an item (the queue is not looked at until the entry is appended) -/
theorem li_pushQ {s : Node} (q' : QItem) (h : LI s₀ b true s) :
    LI s₀ b false (s.withLdr { s.ldr with queue := s.ldr.queue ++ [q'] }) :=
  h.of_ti ⟨Order.inv_ldr_same h.1.1 rfl, fun hp => ⟨(h.1.2 hp).1.congr6 rfl rfl rfl rfl rfl rfl,
    fun e => Bool.noConfusion e⟩⟩ rfl id

/-- queueing a log-entry item that is not a configuration and appending it to the log -/
theorem li_push_append {s : Node} (q' : QItem) (h : LI s₀ b true s) (hcfg : q'.toEntry.config? = none) :
    LI s₀ b true ((s.withLdr { s.ldr with queue := s.ldr.queue ++ [q'] }).appendEntry q'.toEntry) := by
  refine ⟨ti_push_append q' h.1, ?_⟩
  exact (li_appendEntry' (s₀ := s₀) (b := b) q'.toEntry (li_pushQ q' h) hcfg).2

/-- … a configuration item: the adoption is pending -/
theorem pend_push_append {s : Node} (q' : QItem) (c : Config) (h : LI s₀ b true s) (hcfg : q'.toEntry.config? = some c)
    (hp : ((s.withLdr { s.ldr with queue := s.ldr.queue ++ [q'] }).appendEntry q'.toEntry).panicked = none) :
    Pend ((s.withLdr { s.ldr with queue := s.ldr.queue ++ [q'] }).appendEntry q'.toEntry) c :=
  pend_appendEntry q'.toEntry c (li_pushQ q' h) hcfg hp

/-- The leader block preserves the invariant, by induction on the recursion budget; the structure follows
`Track.block`. `changeConfigL` is entered with the adoption of the entry just appended pending. -/
theorem block (s₀ : Node) : ∀ fuel : Nat, ∀ b : Bool,
    (∀ s bt, LI s₀ b true s → LI s₀ b true (storeEntry fuel s bt)) ∧
    (∀ s bt, LI s₀ b true s → LI s₀ b true (storeItems fuel s bt)) ∧
    (∀ s c, TI s₀ b true s → (s.panicked = none → s.configs.latest.index ≤ c.index ∧ c.index ≤ s.lastLogIndex) →
      (s.panicked = none → Pend s c) → LI s₀ b true (changeConfigL fuel s c)) ∧
    (∀ s t c, LI s₀ b true s → LI s₀ b true (doChangeConfig fuel s t c)) ∧
    (∀ s t c, LI s₀ b true s → LI s₀ b true (checkConfigActions fuel s t c)) ∧
    (∀ s t c id, LI s₀ b true s → LI s₀ b true (checkConfigAction fuel s t c id)) ∧
    (∀ s i, LI s₀ b true s → i > s.commitIndex → LI s₀ false true (setCommitIndexL fuel s i)) ∧
    (∀ s, LI s₀ b true s → LI s₀ b true (onMajorityCommit fuel s)) := by
  intro fuel
  induction fuel with
  | zero =>
    intro b
    refine ⟨?_, ?_, ?_, ?_, ?_, ?_, ?_, ?_⟩ <;> intros <;> (try unfold storeItems) <;>
      (try unfold storeEntry) <;> (try unfold changeConfigL) <;> (try unfold doChangeConfig) <;>
      (try unfold checkConfigActions) <;> (try unfold checkConfigAction) <;>
      (try unfold setCommitIndexL) <;> (try unfold onMajorityCommit) <;>
      (try split) <;> first | assumption | exact li_panic _ _
  | succ n ih =>
    intro b
    obtain ⟨ihSE, ihSI, ihCL, ihDC, ihCAs, ihCA, ihSC, ihMC⟩ := ih b
    obtain ⟨_, _, _, _, fCAs, _, _, _⟩ := ih false
    refine ⟨?_, ?_, ?_, ?_, ?_, ?_, ?_, ?_⟩
    · -- storeEntry
      intro s bt hs
      unfold storeEntry; dsimp only
      have h1 : LI s₀ b true (storeItems n s bt) := ihSI _ _ hs
      have h2 : LI s₀ b true (storeItems n s bt).applyCommittedL := (li_applyCommittedL h1).weaken
      repeat' split
      all_goals first
        | exact ihMC _ (li_notifyFlr (li_beginFinishedRounds h2))
        | exact ihMC _ (li_notifyFlr (li_beginFinishedRounds h1))
        | exact li_notifyFlr (li_beginFinishedRounds h2)
        | exact li_notifyFlr (li_beginFinishedRounds h1)
        | exact h2
        | exact h1
    · -- storeItems
      intro s bt hs
      cases bt with
      | nil => unfold storeItems; exact hs
      | cons q qs =>
        unfold storeItems; dsimp only
        apply ihSI
        split
        · exact li_reply _ _ hs
        · split
          · split
            · exact li_reply _ _ hs
            · exact li_reply _ _ hs
          · split
            · split
              · split
                · rename_i cfg hcfg
                  have h2 := ti_push_append (s₀ := s₀) (b := b)
                    { q with index := s.lastLogIndex + 1, term := s.term, cfg := q.cfg.map Config.payload } hs.1
                  refine ihCL _ _ h2 (fun hp => ?_) (fun hp => pend_push_append _ cfg hs hcfg hp)
                  have hidx := Order.config?_index hcfg
                  have hll := (h2.1 hp).1.latest_le_last
                  exact ⟨by rw [hidx]; exact hll, by rw [hidx]; exact Nat.le_refl _⟩
                · exact li_panic _ _
              · rename_i hnc
                exact li_push_append _ hs (config?_none_of_typ hnc)
            · rename_i hnl
              exact li_push _ hs hnl
    · -- changeConfigL
      intro s c hs hg hpend
      unfold changeConfigL; dsimp only
      apply ihCAs
      apply foldl_li
      · intro s x hs
        split
        · exact hs
        · split
          · exact li_addReplication _ hs
          · exact li_setRepl _ hs
      · exact li_ldr_same (li_changeConfigR c (ti_ldr_same hs rfl rfl) (fun hp => hg hp)
          (fun hp => (hpend hp).congr rfl)) rfl rfl
    · -- doChangeConfig
      intro s t c hs
      unfold doChangeConfig; exact ihSE _ _ hs
    · -- checkConfigActions
      intro s t c hs
      unfold checkConfigActions; dsimp only
      apply foldl_li
      · intro s x hs
        split
        · exact ihCA _ _ _ _ hs
        · exact hs
      · apply li_popOrder
        split
        · split
          · exact ihDC _ _ _ hs
          · split
            · exact ihDC _ _ _ hs
            · exact li_panic _ _
        · exact hs
    · -- checkConfigAction
      intro s t c id hs
      unfold checkConfigAction; dsimp only
      have h1 := fun r => li_setRepl (s₀ := s₀) (b := b) (g := true) (s := s) r hs
      repeat' split
      all_goals first | exact hs | exact h1 _ | exact ihDC _ _ _ (h1 _)
    · -- setCommitIndexL
      intro s i hs hi
      unfold setCommitIndexL
      extract_lets s1 ready r s2 s3
      have h1 : LI s₀ b true s1 := li_commitLog i hs
      have h2 : LI s₀ false true s2 := li_setCommitIndexR i h1 (fun hp => by
        have hc := (h1.1.1 hp).1.applied_le_commit
        have e : s1.commitIndex = s.commitIndex := rfl
        exact ⟨by omega, fun e => Bool.noConfusion e⟩) (fun _ => by
        have e : s1.commitIndex = s.commitIndex := rfl
        omega)
      have h3 : LI s₀ false true s3 := by
        unfold s3; split
        · exact fCAs _ _ _ h2
        · exact h2
      split
      · split
        · exact li_ldr_same (foldl_li _ (fun s t hs => li_reply _ _ hs) _ _ h3) rfl rfl
        · exact fCAs _ _ _ h3
      · exact h3
    · -- onMajorityCommit
      intro s hs
      unfold onMajorityCommit; dsimp only
      have hc : ∀ site, (s.panic site).commitIndex = s.commitIndex := by
        intro site; unfold Node.panic; split <;> rfl
      split
      · split
        · rename_i hgt
          exact li_notifyFlr (li_applyCommittedL (ihSC _ _ hs hgt.1)).weaken
        · exact hs
      · split
        · rename_i hgt
          exact li_notifyFlr (li_applyCommittedL
            (ihSC _ _ (li_panic (s₀ := s₀) (b := b) (g := true) s _) (by rw [hc] at hgt; rw [hc]; exact hgt.1))).weaken
        · exact li_panic _ _

theorem li_storeEntry (f : Nat) {s : Node} (bt) (hs : LI s₀ b true s) : LI s₀ b true (storeEntry f s bt) :=
  (block s₀ f b).1 s bt hs
theorem li_doChangeConfig (f : Nat) {s : Node} (t c) (hs : LI s₀ b true s) : LI s₀ b true (doChangeConfig f s t c) :=
  (block s₀ f b).2.2.2.1 s t c hs
theorem li_checkConfigActions (f : Nat) {s : Node} (t c) (hs : LI s₀ b true s) :
    LI s₀ b true (checkConfigActions f s t c) :=
  (block s₀ f b).2.2.2.2.1 s t c hs
theorem li_checkConfigAction (f : Nat) {s : Node} (t c id) (hs : LI s₀ b true s) :
    LI s₀ b true (checkConfigAction f s t c id) :=
  (block s₀ f b).2.2.2.2.2.1 s t c id hs
theorem li_onMajorityCommit (f : Nat) {s : Node} (hs : LI s₀ b true s) : LI s₀ b true (onMajorityCommit f s) :=
  (block s₀ f b).2.2.2.2.2.2.2 s hs


/-! ## handlers outside the block -/

/-- replacing the leader struct: same compaction bound, the queue shrinks (or is emptied) -/
theorem li_ldr_sub {s : Node} {l : Leader} (h : LI s₀ b g s) (hl : l.removeLTE = s.ldr.removeLTE)
    (hq : ∀ q ∈ l.queue, q ∈ s.ldr.queue) : LI s₀ b g (s.withLdr l) :=
  h.of_ti (ti_ldr_sub h.1 hl hq) rfl id

/-- a fresh leader struct (empty queue) -/
theorem li_ldr_fresh {s : Node} {l : Leader} (h : LI s₀ b g s) (hl : s.panicked = none → l.removeLTE ≤ s.snapIndex)
    (hq : l.queue = []) : LI s₀ b true (s.withLdr l) :=
  h.of_ti (ti_ldr_fresh h.1 hl hq) rfl id

theorem li_checkQuorum {s : Node} (hs : LI s₀ b g s) : LI s₀ b g s.checkQuorum := by
  unfold Node.checkQuorum; dsimp only
  repeat' split
  all_goals first
    | exact hs
    | exact li_panic _ _
    | exact li_setLeader _ (li_setRole _ hs)
    | exact li_setLeader _ (li_setRole _ (li_panic _ _))

theorem li_transferReply {s : Node} (r : String) (hs : LI s₀ b g s) : LI s₀ b g (s.transferReply r) := by
  unfold Node.transferReply; exact li_ldr_same (li_reply _ _ hs) rfl rfl

theorem li_tryTransfer {s : Node} (hs : LI s₀ b g s) : LI s₀ b g s.tryTransfer := by
  unfold Node.tryTransfer; dsimp only
  have hp := li_popOrder hs
  repeat' split
  all_goals first
    | exact hs
    | exact hp
    | exact li_panic _ _
    | exact li_ldr_same hs rfl rfl
    | exact li_ldr_same hp rfl rfl
    | exact li_ldr_same (li_panic (s₀ := s₀) (b := b) (g := g) _ _) rfl rfl

theorem li_onTransfer {s : Node} (t tg : Nat) (hs : LI s₀ b g s) : LI s₀ b g (s.onTransfer t tg) := by
  unfold Node.onTransfer; dsimp only
  split
  · exact li_reply _ _ hs
  · exact li_tryTransfer (li_ldr_same hs rfl rfl)

theorem li_replyTransfer {s : Node} (r : String) (hs : LI s₀ b true s) : LI s₀ b true (s.replyTransfer r) := by
  unfold Node.replyTransfer; exact li_checkConfigActions _ _ _ (li_transferReply _ hs)

theorem li_onTimeoutNowResult {s : Node} (src : Nat) (e : Bool) (r : Nat) (hs : LI s₀ b true s) :
    LI s₀ b true (s.onTimeoutNowResult src e r) := by
  unfold Node.onTimeoutNowResult
  extract_lets l0 t0 s1 s2 l1 t1
  have h0 : LI s₀ b true s1 := li_ldr_same hs rfl rfl
  have h2 : LI s₀ b true s2 := by
    unfold s2
    split
    · split
      · exact li_setRepl _ h0
      · exact h0
    · exact li_panic _ _
  split
  · split
    · exact li_tryTransfer h2
    · exact h2
  · split
    · split
      · exact li_replyTransfer _ h0
      · exact li_tryTransfer h0
    · exact li_ldr_same h0 rfl rfl

/-- the no-op entry of a new leader is not a configuration entry -/
theorem li_leaderInit {s : Node} (hs : LI s₀ b g s) : LI s₀ b true s.leaderInit := by
  unfold Node.leaderInit; dsimp only
  apply li_storeEntry
  apply li_checkConfigActions
  apply foldl_li
  · intro s x hs
    split
    · exact hs
    · exact li_addReplication _ hs
  · exact li_ldr_fresh (li_assert _ _ hs)
      (fun hp => (Order.inv_assert (s₀ := s₀) (b := b) _ _ hs.1.1 hp).1.prev_le_snap) rfl

theorem li_leaderRelease {s : Node} (hs : LI s₀ b g s) : LI s₀ b g s.leaderRelease := by
  unfold Node.leaderRelease Node.leaderReleaseRest; dsimp only
  refine li_ldr_sub ?_ rfl (fun q hq => by cases hq)
  apply foldl_li _ (fun s t hs => li_reply _ _ hs)
  apply foldl_li _ (fun s t hs => li_reply _ _ hs)
  repeat' split
  all_goals first
    | exact hs
    | exact li_setLeader _ hs
    | exact li_transferReply _ hs
    | exact li_setLeader _ (li_transferReply _ hs)

theorem li_startElection {s : Node} (hs : LI s₀ b g s) : LI s₀ b g s.startElection := by
  unfold Node.startElection
  extract_lets s1 s2 s3 s4
  have h4 : LI s₀ b g s4 := li_votesNeeded _ (li_setVotedFor _ _ (li_votesNeeded _ (li_assert _ _ hs)))
  split
  · exact li_setLeader _ (li_setRole _ h4)
  · exact h4

theorem li_onVoteResult {s : Node} (e : Bool) (t r : Nat) (hs : LI s₀ b g s) : LI s₀ b g (s.onVoteResult e t r) := by
  unfold Node.onVoteResult; dsimp only
  repeat' split
  all_goals first
    | exact hs
    | exact li_setTerm _ (li_setRole _ hs)
    | exact li_setLeader _ (li_setRole _ (li_votesNeeded _ hs))
    | exact li_votesNeeded _ hs

theorem li_followerTimeout {s : Node} (hs : LI s₀ b g s) : LI s₀ b g s.followerTimeout := by
  unfold Node.followerTimeout; dsimp only
  split
  · exact li_setRole _ (li_setLeader _ hs)
  · exact li_setLeader _ hs

theorem li_releaseRole {s : Node} (r : Role) (hs : LI s₀ b g s) : LI s₀ b g (s.releaseRole r) := by
  unfold Node.releaseRole
  split
  · exact hs
  · exact li_candTransfer _ hs
  · exact li_leaderRelease hs

/-- One backward step on a goal `LI s₀ b g (…)`. -/
syntax "li_step" : tactic
macro_rules
  | `(tactic| li_step) => `(tactic| first
      | with_reducible assumption
      | with_reducible exact li_panic _ _
      | with_reducible apply li_ret
      | with_reducible apply li_reply
      | with_reducible apply li_point
      | with_reducible apply li_assert
      | with_reducible apply li_setRole
      | with_reducible apply li_setLeader
      | with_reducible apply li_setTerm
      | with_reducible apply li_setVotedFor
      | with_reducible apply li_doClose
      | with_reducible apply li_votesNeeded
      | with_reducible apply li_candTransfer
      | with_reducible apply li_snapPending
      | with_reducible apply li_rpcReply
      | with_reducible apply li_popOrder
      | with_reducible apply li_setRepl
      | with_reducible apply li_notifyFlr
      | with_reducible apply li_commitLog
      | with_reducible apply li_commitConfig
      | with_reducible apply li_checkQuorum
      | with_reducible apply li_tryTransfer
      | with_reducible apply li_onTransfer
      | with_reducible apply li_replyTransfer
      | with_reducible apply li_transferReply
      | with_reducible apply li_onTimeoutNowResult
      | with_reducible apply li_startElection
      | with_reducible apply li_onVoteResult
      | with_reducible apply li_followerTimeout
      | with_reducible apply li_storeEntry
      | with_reducible apply li_doChangeConfig
      | with_reducible apply li_checkConfigActions
      | with_reducible apply li_checkConfigAction
      | with_reducible apply li_onMajorityCommit
      | with_reducible apply li_releaseRole
      | (with_reducible refine li_ldr_same ?_ rfl rfl)
      | split)

syntax "li_auto" : tactic
macro_rules
  | `(tactic| li_auto) => `(tactic| repeat' li_step)

theorem li_onVoteRequest {s : Node} (q : VoteReq) (hs : LI s₀ b g s) : LI s₀ b g (s.onVoteRequest q) := by
  unfold Node.onVoteRequest
  dsimp only
  li_auto

theorem li_onTimeoutNow {s : Node} (hs : LI s₀ b g s) : LI s₀ b g s.onTimeoutNow := by
  unfold Node.onTimeoutNow
  li_auto

theorem li_onTakeSnapshot {s : Node} (t th : Nat) (hs : LI s₀ b g s) : LI s₀ b g (s.onTakeSnapshot t th) := by
  unfold Node.onTakeSnapshot
  li_auto

theorem li_rejectEntries {s : Node} (bt : List QItem) (hs : LI s₀ b g s) : LI s₀ b g (s.rejectEntries bt) := by
  induction bt generalizing s with
  | nil => exact hs
  | cons q qs ih =>
    unfold Node.rejectEntries
    dsimp only
    repeat' (first | li_step | apply ih)

theorem li_onWaitForStable {s : Node} (t : Nat) (hs : LI s₀ b g s) : LI s₀ b g (s.onWaitForStable t) := by
  unfold Node.onWaitForStable
  li_auto

theorem li_rpcDone {s : Node} (a c : Bool) (hs : LI s₀ b g s) : LI s₀ b g (s.rpcDone a c) := by
  unfold Node.rpcDone
  li_auto

theorem li_onChangeConfig {s : Node} (t : Nat) (c : Config) (hs : LI s₀ b true s) :
    LI s₀ b true (s.onChangeConfig t c) := by
  unfold Node.onChangeConfig
  dsimp only
  li_auto


/-! ## snapshots and compaction -/

/-- `snapshotSink.done` at the FSM's position, labelled with the FSM's configuration: the new label is the newest
configuration at or below the new snapshot index, so nothing changes at or above it -/
theorem li_publishSnap {s : Node} (f : SnapFile) (h : LI s₀ b g s) (hidx : f.index = s.fsm.index)
    (hterm : f.term = s.fsm.term) (hcfg : 0 < s.fsm.config.index → f.config = s.fsm.config)
    (hpos : s.panicked = none → 0 < s.fsm.config.index) : LI s₀ b g (s.publishSnapshot f) := by
  refine ⟨ti_publishSnap f h.1 hidx hterm hcfg, fun hp => ?_⟩
  have hp' : s.panicked = none := hp
  have c := h.core hp'
  have cw := h.coreW hp'
  have hsa := cw.snap_le_applied
  have hac := cw.applied_le_commit
  have hfl := c.fsmLe
  have hh : ∀ g, s.snapsDisk.head? = some g → g.index ≤ f.index := fun g hg => by
    have := c.headLe g hg; omega
  have el : label (s.publishSnapshot f) = newest s.log (label s) s.fsm.index := by
    rw [label_publish s f c.retain hh, hcfg (hpos hp'), c.fsmOk.cfgPos (hpos hp')]
  refine LN.of_parts (s := s.publishSnapshot f) (log := s.log) (cs := s.configs) (ci := s.commitIndex) rfl el rfl rfl
    ((h.2 hp').transfer (newest_relabel _ _ hfl) (fun hlt => ⟨hlt, newest_relabel _ _ (by omega)⟩))

/-- the fallback of `doTakeSnapshot` ("label the snapshot with the configuration captured at request time when the FSM
reports none") is not taken in this state -/
def NoFallbackS (s : Node) : Prop :=
  ∀ rq, s.snapPending = some rq → s.fsm.index ≠ s.snapIndex → rq.minIndex ≤ s.fsm.index → 0 < s.fsm.config.index

theorem li_snapRun {s : Node} (h : LI s₀ b g s) (hfb : s.panicked = none → NoFallbackS s) : LI s₀ b g s.snapRun := by
  unfold Node.snapRun
  split
  · exact h
  · rename_i rq hrq
    dsimp only
    have h0 := li_snapPending (s₀ := s₀) (b := b) (g := g) none h
    split
    · exact li_snapResult _ h0 (fun _ rs hrs => by injection hrs with hrs; rw [← hrs]; exact Nat.zero_le _)
    · rename_i h1
      split
      · exact li_snapResult _ h0 (fun _ rs hrs => by injection hrs with hrs; rw [← hrs]; exact Nat.zero_le _)
      · rename_i h2
        have h1' : s.fsm.index ≠ s.snapIndex := h1
        have h2' : rq.minIndex ≤ s.fsm.index := Nat.le_of_not_lt h2
        refine li_snapResult _ (li_publishSnap _ h0 rfl rfl (fun hpos => ?_) (fun hp => hfb hp rq hrq h1' h2'))
          (fun _ rs hrs => ?_)
        · show (if _ then _ else _) = _
          rw [if_pos hpos]
        · injection hrs with hrs; rw [← hrs]; exact Nat.le_refl _

theorem li_onSnapshotTaken {s : Node} (h : LI s₀ b g s) : LI s₀ b g s.onSnapshotTaken := by
  cases hr : s.snapResult with
  | none => unfold Node.onSnapshotTaken; rw [hr]; exact h
  | some rs =>
    unfold Node.onSnapshotTaken
    rw [hr]
    dsimp -zeta only
    extract_lets s0 repls nowC0 canC0 nowC canC s1 src s2
    have h0 : LI s₀ b g s0 := li_snapResult none h (fun _ rs hrs => by cases hrs)
    have hrs : s0.panicked = none → rs.index ≤ s0.snapIndex := fun hp => (h.coreW hp).snapRes_le rs hr
    split
    · exact li_reply _ _ h0
    · apply li_reply
      unfold s2
      split
      · have hb0 : nowC0 ≤ rs.index := C09.foldl_le_init _ (fun m r => by split <;> omega) _ _
        have hc0 : canC0 ≤ rs.index := C09.foldl_le_init _ (fun m r => by split <;> omega) _ _
        have hnow : s0.panicked = none → nowC ≤ s0.snapIndex := fun hp =>
          Order.canLTE_le_of (h0.coreW hp).segs (h0.coreW hp).prev_le_snap (by have := hrs hp; omega)
        have hcan : s0.panicked = none → canC ≤ s0.snapIndex := fun hp =>
          Order.canLTE_le_of (h0.coreW hp).segs (h0.coreW hp).prev_le_snap (by have := hrs hp; omega)
        have hs1 : LI s₀ b g s1 := by
          unfold s1; split
          · exact li_compactLog _ h0 hnow
          · exact h0
        have e1 : s1.snapIndex = s0.snapIndex := by unfold s1; split <;> rfl
        have e2 : s1.panicked = s0.panicked := by unfold s1; split <;> rfl
        split
        · exact li_notifyFlr (li_ldr hs1 (fun hp => by rw [e1]; exact hcan (by rw [← e2]; exact hp)) (fun q hq => hq))
        · split
          · exact li_notifyFlr (li_ldr hs1 (fun hp => (hs1.coreW hp).prev_le_snap) (fun q hq => hq))
          · exact hs1
      · exact h0

theorem li_checkLogCompact {s : Node} (h : LI s₀ b g s) : LI s₀ b g s.checkLogCompact := by
  unfold Node.checkLogCompact
  split
  · exact h
  · exact li_compactLog _ h (fun hp => (h.coreW hp).removeLTE_le)

theorem li_replUpdLoop {s : Node} (f : UpdFlags) (us : List ReplUpdate) (hs : LI s₀ b true s) :
    LI s₀ b true (replUpdLoop s f us).1 := by
  induction us generalizing s f with
  | nil => exact hs
  | cons u us ih =>
    unfold replUpdLoop
    dsimp only
    repeat' (first | li_step | apply ih)

theorem li_checkReplUpdates {s : Node} (us : List ReplUpdate) (hs : LI s₀ b true s) :
    LI s₀ b true (s.checkReplUpdates us) := by
  unfold Node.checkReplUpdates
  dsimp only
  have hL : LI s₀ b true (replUpdLoop s {} us).1 := li_replUpdLoop _ _ hs
  have hC : ∀ x, LI s₀ b true x → LI s₀ b true x.checkLogCompact := fun x hx => li_checkLogCompact hx
  repeat' (first | li_step | apply hC)

/-- what `Shutdown` does before the snapshot goroutine is waited for leaves the FSM, the pending request, the
snapshot index and the panic flag alone -/
def keepS (s : Node) : Option SnapReq × Fsm × Nat × Option String := (s.snapPending, s.fsm, s.snapIndex, s.panicked)

theorem keepS_reply (s : Node) (t : Nat) (r : String) : keepS (s.reply t r) = keepS s := by
  unfold Node.reply; split <;> rfl

theorem keepS_leaderRelease (s : Node) : keepS s.leaderRelease = keepS s := by
  unfold Node.leaderRelease Node.leaderReleaseRest
  dsimp only
  have hl : ∀ (x : Node) l, keepS (x.withLdr l) = keepS x := fun _ _ => rfl
  have hd : ∀ (x : Node) l, keepS (x.setLeader l) = keepS x := fun _ _ => rfl
  rw [hl, Frame.foldl_eq (proj := keepS) _ (fun s t => keepS_reply _ _ _),
    Frame.foldl_eq (proj := keepS) _ (fun s t => keepS_reply _ _ _)]
  unfold Node.transferReply
  repeat' split
  all_goals simp only [hl, hd, keepS_reply]

theorem keepS_shutdownPre (s : Node) (r : String) (ro : Role) : keepS ((s.doClose r).releaseRole ro) = keepS s := by
  have hc : keepS (s.doClose r) = keepS s := by unfold Node.doClose; split <;> rfl
  unfold Node.releaseRole
  cases ro with
  | follower => exact hc
  | candidate => exact hc
  | leader => dsimp only; rw [keepS_leaderRelease]; exact hc

theorem li_shutdown {s : Node} (hs : LI s₀ b g s) (hfb : s.panicked = none → NoFallbackS s) : LI s₀ b g s.shutdown := by
  unfold Node.shutdown
  dsimp only
  have hk := keepS_shutdownPre s "serverClosed" (s.doClose "serverClosed").role
  simp only [keepS, Prod.mk.injEq] at hk
  obtain ⟨k1, k2, k3, k4⟩ := hk
  have hx : LI s₀ b g ((s.doClose "serverClosed").releaseRole (s.doClose "serverClosed").role) :=
    li_releaseRole _ (li_doClose _ hs)
  have h1 : LI s₀ b g ((s.doClose "serverClosed").releaseRole (s.doClose "serverClosed").role).snapRun :=
    li_snapRun hx (fun hp rq hrq ha hb => by
      rw [k1] at hrq; rw [k2, k3] at ha; rw [k2] at hb ⊢
      exact hfb (by rw [← k4]; exact hp) rq hrq ha hb)
  have h2 : ∀ x, LI s₀ b g x → LI s₀ b g x.onSnapshotTaken := fun x hx => li_onSnapshotTaken hx
  repeat' (first | li_step | apply h2)

/-! ## bootstrap -/

theorem toEntry_config? (c : Config) : c.toEntry.config? = some c := by
  unfold Entry.config? Config.toEntry Config.payload
  rw [if_pos rfl]
  rfl

theorem li_bootstrap {s : Node} (t : Nat) (cfg : Config) (hs : LI s₀ b g s) : LI s₀ b g (s.bootstrap t cfg) := by
  unfold Node.bootstrap
  dsimp only
  repeat' split
  all_goals first
    | exact li_reply _ _ hs
    | skip
  apply li_setRole
  apply li_reply
  have hpre : TI s₀ b g (((s.appendEntry ({ cfg with index := 1, term := 1 } : Config).toEntry).commitLog 1).setTerm 1) :=
    ti_setTerm _ (ti_commitLog _ (ti_appendEntry' _ hs.1))
  have hidx : (((s.appendEntry ({ cfg with index := 1, term := 1 } : Config).toEntry).commitLog 1).setTerm 1).lastLogIndex = 1 := by
    rw [(Order.obs_eq (Order.irr_setTerm _ 1).1).1]; rfl
  have hl : TI s₀ b g ((((s.appendEntry ({ cfg with index := 1, term := 1 } : Config).toEntry).commitLog 1).setTerm 1).withLast 1 1) :=
    ti_withLast 1 1 hpre (fun _ => hidx)
  refine li_changeConfigR _ hl (fun hp => ⟨(hl.1 hp).1.latest_le_last, Nat.le_refl _⟩) (fun hp => ?_)
  have hp1 : (s.appendEntry ({ cfg with index := 1, term := 1 } : Config).toEntry).panicked = none :=
    (Order.irr_setTerm ((s.appendEntry ({ cfg with index := 1, term := 1 } : Config).toEntry).commitLog 1) 1).2 hp
  have hpend := pend_commitLog 1 (pend_appendEntry _ _ hs (toEntry_config? _) hp1)
  exact (hpend.congr (obsL_of (Order.irr_setTerm _ 1).1 (obsT_setTerm _ 1))).congr rfl


/-! ## the follower's append-entries handler (structure of `Track.ti_appendLoop` …) -/

theorem li_appendLoop (es : List Entry) : ∀ (st : AppLoop), LI s₀ true false st.s → Order.chainB st.index es = true →
    (st.s.panicked = none → st.index ≤ st.s.lastLogIndex) →
    (st.s.panicked = none → ∀ ne ∈ es, ne.index ≤ st.s.lastLogIndex → st.s.snapIndex < ne.index →
      st.s.entryTerm? ne.index ≠ some ne.term →
      st.s.commitIndex < ne.index ∧ st.s.configs.committed.index < ne.index) →
    LI s₀ true false (appendLoop st es).s ∧
    ((appendLoop st es).s.panicked = none → (appendLoop st es).index ≤ (appendLoop st es).s.lastLogIndex) := by
  induction es with
  | nil => intro st hs _ hidx _; unfold appendLoop; exact ⟨hs, hidx⟩
  | cons ne rest ih =>
    intro st hs hch hidx hJ
    obtain ⟨hc1, hc2⟩ := Order.chainB_cons hch
    have hrest : ∀ x ∈ rest, ne.index < x.index := Order.chainB_gt rest ne.index hc2
    unfold appendLoop
    dsimp only
    split
    · exact ⟨hs, hidx⟩
    · split
      · rename_i hsn
        refine ih _ hs hc2 (fun hp => ?_) (fun hp x hx => hJ hp x (List.mem_cons_of_mem _ hx))
        obtain ⟨c, hcl, _, _⟩ := hs.1.1 hp
        have h1 := c.snap_le_applied
        have h2 := c.applied_le_commit
        have h3 := hcl rfl
        show ne.index ≤ st.s.lastLogIndex
        omega
      · rename_i hsn
        split
        · rename_i hpres
          refine ih _ hs hc2 (fun _ => ?_) (fun hp x hx => hJ hp x (List.mem_cons_of_mem _ hx))
          simp only [Bool.and_eq_true, decide_eq_true_eq] at hpres
          exact hpres.1
        · rename_i hpres
          have hRC : LI s₀ true false (st.s.resolveConflict ne st.term) := by
            refine li_resolveConflict ne st.term hs (fun hp hle => ?_)
            have hne : st.s.entryTerm? ne.index ≠ some ne.term := by
              intro he
              apply hpres
              simp only [Bool.and_eq_true, decide_eq_true_eq, beq_iff_eq]
              exact ⟨hle, he⟩
            have := hJ hp ne (List.mem_cons_self ..) hle (by omega) hne
            exact ⟨by omega, this.1, this.2⟩
          have h2 : TI s₀ true false ((st.s.resolveConflict ne st.term).appendEntry ne) := ti_appendEntry' ne hRC.1
          have e2 : ((st.s.resolveConflict ne st.term).appendEntry ne).lastLogIndex = ne.index := rfl
          split
          · rename_i htyp
            split
            · rename_i cfg hcfg
              have hci := Order.config?_index hcfg
              have e3 := (changeConfigR_fields ((st.s.resolveConflict ne st.term).appendEntry ne) cfg).2.1
              refine ih _ (li_changeConfigR cfg h2 (fun hp => ?_) (fun hp => pend_appendEntry ne cfg hRC hcfg hp))
                hc2 (fun _ => ?_) (fun _ x hx hle => ?_)
              · have := (h2.1 hp).1.latest_le_last
                rw [e2] at this
                exact ⟨by rw [hci]; exact this, by rw [hci, e2]; exact Nat.le_refl _⟩
              · show ne.index ≤ _
                rw [e3, e2]; exact Nat.le_refl _
              · have := hrest x hx
                rw [e3, e2] at hle
                omega
            · rename_i hnone
              exact ⟨li_appendEntry' ne hRC hnone, fun _ => Nat.le_of_eq e2.symm⟩
          · rename_i htyp
            refine ih _ (li_appendEntry' ne hRC (config?_none_of_typ htyp)) hc2 (fun _ => Nat.le_of_eq e2.symm)
              (fun _ x hx hle => ?_)
            have := hrest x hx
            have hle' : x.index ≤ ne.index := hle
            omega

theorem li_appendCheck {s : Node} (q : AppendReq) (h : LI s₀ true g s) : LI s₀ true g (s.appendCheck q) := by
  unfold Node.appendCheck
  split
  · split
    · exact li_ret _ h
    · rename_i hnl
      extract_lets s1 plt
      have hI : Order.Irr s s1 := by
        unfold s1; split
        · exact Order.Irr.refl _
        · split
          · exact Order.Irr.refl _
          · exact Order.irr_panic _ _
      have h1 : LI s₀ true g s1 := by
        unfold s1; split
        · exact h
        · split
          · exact h
          · exact li_panic _ _
      split
      · exact li_ret _ h1
      · split
        · rename_i hcc
          simp only [Node.canCommit, Bool.and_eq_true, decide_eq_true_eq] at hcc
          refine li_ret _ (li_applyCommitted (li_setCommitIndexR (b' := true) _ h1 (fun hp => ?_) (fun _ => by omega)))
          obtain ⟨e1, _, _, _, _, _⟩ := Order.obs_eq hI.1
          have := (h1.1.1 hp).1.applied_le_commit
          exact ⟨by omega, fun _ => by rw [e1]; omega⟩
        · exact li_ret _ h1
  · exact li_ret _ h

theorem li_onAppendEntries {s : Node} (q : AppendReq) (h : LI s₀ true g s)
    (hok' : q.term < s.term ∨ Order.AppendOk s q) : LI s₀ true false (s.onAppendEntries q) := by
  unfold Node.onAppendEntries
  split
  · exact li_ret _ h.dropQ
  · rename_i hterm
    have hok : Order.AppendOk s q := by
      rcases hok' with h1 | h1
      · exact absurd h1 hterm
      · exact h1
    extract_lets s1 s2 s3 st s4 s4c s5
    have hI2 : Order.Irr s s2 := by
      refine Order.Irr.trans ?_ ((Order.irr_setRole _ _).trans (Order.irr_setLeader _ _))
      unfold s1; split
      · exact (Order.irr_setTerm _ _).trans (Order.irr_setRole _ _)
      · exact Order.Irr.refl _
    have h2 : LI s₀ true false s2 := by
      unfold s2 s1
      apply li_setLeader; apply li_setRole
      split
      · exact li_setRole _ (li_setTerm _ h.dropQ)
      · exact h.dropQ
    have h3 : LI s₀ true false s3 := li_appendCheck q h2
    have hP : Order.Pre q.prevLogIndex s s3 := (Order.Pre.of_irr hI2).trans (Order.appendCheck_pre s2 q)
    split
    · exact h3
    · rename_i hres
      have hres' : s3.result = 0 := by
        cases hr : s3.result with
        | zero => rfl
        | succ n => exact absurd (by rw [hr]; exact Nat.succ_ne_zero n) hres
      obtain ⟨p1, p2, p3, p4, p5⟩ := hP
      have hL := li_appendLoop (s₀ := s₀) q.entries { s := s3, index := q.prevLogIndex, term := q.prevLogTerm }
        h3 hok.1 (fun hp => by
          obtain ⟨c, hcl, _, _⟩ := h3.1.1 hp
          have := c.snap_le_applied; have := c.applied_le_commit; have := hcl rfl
          obtain ⟨e1, _, e3, _⟩ := Order.obs_eq (Order.Irr.trans hI2 (Order.Irr.refl s2)).1
          have hr := Order.appendCheck_result s2 q hres'
          show q.prevLogIndex ≤ s3.lastLogIndex
          rw [p2]; rw [p3] at *; rw [p2] at *
          rw [e1, e3] at hr
          omega)
        (fun _ ne hne hle hsn hterm => by
          have hgt := Order.chainB_gt _ _ hok.1 ne hne
          have hterm' : s.entryTerm? ne.index ≠ some ne.term := by
            unfold Node.entryTerm? at hterm ⊢
            rw [← p1]; exact hterm
          have := hok.2 ne hne (by rw [← p2]; exact hle) (by rw [← p3]; exact hsn) hterm'
          exact ⟨by show s3.commitIndex < ne.index; omega, by show s3.configs.committed.index < ne.index; omega⟩)
      have h4 : LI s₀ true false s4 := hL.1
      apply li_ret
      unfold s5
      split
      · split
        · rename_i hcc
          simp only [Node.canCommit, Bool.and_eq_true, decide_eq_true_eq] at hcc
          refine li_applyCommitted (li_setCommitIndexR (b' := true) _ (li_commitLog _ h4) (fun hp => ?_)
            (fun _ => by have := hcc.2; exact Nat.le_of_lt this))
          have hidx : st.index ≤ s4.lastLogIndex := hL.2 hp
          have : s4c.fsm.index ≤ s4c.commitIndex :=
            ((li_commitLog (s₀ := s₀) (b := true) (g := false) s4.lastLogIndex h4).1.1 hp).1.applied_le_commit
          exact ⟨by omega, fun _ => hidx⟩
        · exact li_commitLog _ h4
      · exact h4

/-! ## install-snapshot -/

theorem li_installPre {s : Node} (q : InstallReq) (h : LI s₀ b g s) : LI s₀ b g (installPre s q) :=
  h.irr (Order.irr_installPre s q) (obsT_installPre s q)

/-- the discard branch: the log is emptied at the new snapshot, both configurations are its label -/
theorem li_onInstallSnap {s : Node} (q : InstallReq) (h : LI s₀ true g s)
    (hok' : q.term < s.term ∨ q.lastIndex ≤ s.commitIndex ∨ Order.InstallOk q) :
    LI s₀ true false (s.onInstallSnap q) := by
  refine ⟨ti_onInstallSnap q h.1 hok', ?_⟩
  rw [onInstallSnap_eq]
  have hpre : LI s₀ true false (installPre s q) := (li_installPre q h).dropQ
  split
  · exact (li_ret (s₀ := s₀) (b := true) _ h.dropQ).2
  · rename_i hterm
    split
    · exact (li_ret (s₀ := s₀) (b := true) _ hpre).2
    · rename_i hahead
      split
      · exact (li_ret (s₀ := s₀) (b := true) _ hpre).2
      · change (C09.discardTail ((installPre s q).publishSnapshot (C09.fileOf q)) q.lastConfig).panicked = none →
          LN (C09.discardTail ((installPre s q).publishSnapshot (C09.fileOf q)) q.lastConfig)
        intro hp
        obtain ⟨f1, _, _, _, _, f6, f7, f8, _, _, f11, _⟩ :=
          C09.discardTail_fields ((installPre s q).publishSnapshot (C09.fileOf q)) q.lastConfig
        rw [f11] at hp
        obtain ⟨hpp, _⟩ := Order.fsmRestore_ok _ hp
        obtain ⟨d1, _, _, _⟩ := C09.discardPre_fields (installPre s q) (C09.fileOf q)
        have hpp' : (installPre s q).panicked = none := by rw [← d1]; exact hpp
        have c := hpre.core hpp'
        have cw := hpre.coreW hpp'
        have hidx : (C09.fileOf q).index = q.lastIndex := rfl
        have hlt : (installPre s q).commitIndex < q.lastIndex := by omega
        have hh : ∀ g, (installPre s q).snapsDisk.head? = some g → g.index ≤ (C09.fileOf q).index := fun g hg => by
          have := c.headLe g hg
          have := cw.snap_le_applied
          have := cw.applied_le_commit
          rw [hidx]; omega
        obtain ⟨_, k2⟩ := C09.publish_keeps_new_file (installPre s q) (C09.fileOf q) c.retain hh
        have el : label (C09.discardTail ((installPre s q).publishSnapshot (C09.fileOf q)) q.lastConfig) = q.lastConfig := by
          unfold label
          rw [f8, k2]; rfl
        exact LN.of_parts f1 el f7 f6 (LNc.fresh (pre_reset _ _))


/-! ## every operation -/

/-- **The fallback of `doTakeSnapshot` is not taken** by this operation (only `snapRun` — and `Shutdown`, which waits
for a pending snapshot — can take it): when the snapshot goroutine stores a snapshot, the FSM holds a configuration. -/
def NoFallback (s : Node) : Op → Prop
  | .snapRun => NoFallbackS s
  | .shutdown => NoFallbackS s
  | _ => True

/-- a handler run with the queue matching the log (any role) -/
theorem li_handle_true {s : Node} (op : Op) (hs : LI s₀ true true s) (hr : Order.ReqOk s op) (hfb : NoFallback s op) :
    LI s₀ true false (s.handle op) ∧ ((s.handle op).role = .leader → LI s₀ true true (s.handle op)) := by
  have key : ∀ x : Node, LI s₀ true true x → LI s₀ true false x ∧ (x.role = .leader → LI s₀ true true x) :=
    fun x hx => ⟨hx.dropQ, fun _ => hx⟩
  cases op <;> unfold Node.handle <;> dsimp only
  case vote q => exact key _ (li_rpcDone _ _ (li_onVoteRequest _ hs))
  case append q =>
    by_cases hq : q.term < s.term
    · apply key
      apply li_rpcDone
      unfold Node.onAppendEntries
      rw [if_pos hq]
      exact li_ret _ hs
    · refine ⟨li_rpcDone _ _ (li_onAppendEntries _ hs hr), fun hl => ?_⟩
      rw [role_rpcDone] at hl
      exact absurd hl (LC.nl_onAppendEntries s q hq)
  case install q =>
    by_cases hq : q.term < s.term
    · apply key
      apply li_rpcDone
      unfold Node.onInstallSnap
      rw [if_pos hq]
      exact li_ret _ hs
    · refine ⟨li_rpcDone _ _ (li_onInstallSnap _ hs hr), fun hl => ?_⟩
      rw [role_rpcDone] at hl
      exact absurd hl (LC.nl_onInstallSnap s q hq)
  case timeoutNow => exact key _ (li_rpcDone _ _ (li_onTimeoutNow hs))
  case identity a b c => exact key _ (li_rpcReply _ hs)
  case disconnected n => apply key; li_auto
  case timeout => apply key; li_auto
  case newEntries bt => apply key; split; exact li_storeEntry _ _ hs; exact li_rejectEntries _ hs
  case changeConfig t c => apply key; split; exact li_onChangeConfig _ _ hs; exact li_bootstrap _ _ hs
  case takeSnapshot t th => exact key _ (li_onTakeSnapshot _ _ hs)
  case snapRun => exact key _ (li_snapRun hs (fun _ => hfb))
  case snapTaken => exact key _ (li_onSnapshotTaken hs)
  case waitStable t => apply key; split; exact li_onWaitForStable _ hs; exact li_reply _ _ hs
  case transfer t tg => apply key; li_auto
  case voteResult e t r => apply key; li_auto
  case replUpdates us => apply key; split; exact li_checkReplUpdates _ hs; exact hs
  case transferTimeout => apply key; li_auto
  case timeoutNowResult a b c => apply key; li_auto
  case newTermTimeout => apply key; li_auto
  case shutdown => exact key _ (li_shutdown hs (fun _ => hfb))

/-- a handler run by a non-leader: the queue is not looked at -/
theorem li_handle_false {s : Node} (op : Op) (hs : LI s₀ true false s) (hl : s.role ≠ .leader)
    (hr : Order.ReqOk s op) (hfb : NoFallback s op) : LI s₀ true false (s.handle op) := by
  cases op <;> unfold Node.handle <;> dsimp only
  case vote q => exact li_rpcDone _ _ (li_onVoteRequest _ hs)
  case append q => exact li_rpcDone _ _ (li_onAppendEntries _ hs hr)
  case install q => exact li_rpcDone _ _ (li_onInstallSnap _ hs hr)
  case timeoutNow => exact li_rpcDone _ _ (li_onTimeoutNow hs)
  case identity a b c => exact li_rpcReply _ hs
  case disconnected n => li_auto
  case timeout =>
    split
    · exact li_followerTimeout hs
    · exact li_startElection hs
    · rename_i h; exact absurd h hl
  case newEntries bt => rw [if_neg hl]; exact li_rejectEntries _ hs
  case changeConfig t c => rw [if_neg hl]; exact li_bootstrap _ _ hs
  case takeSnapshot t th => exact li_onTakeSnapshot _ _ hs
  case snapRun => exact li_snapRun hs (fun _ => hfb)
  case snapTaken => exact li_onSnapshotTaken hs
  case waitStable t => rw [if_neg hl]; exact li_reply _ _ hs
  case transfer t tg => rw [if_neg hl]; exact li_reply _ _ hs
  case voteResult e t r => li_auto
  case replUpdates us => rw [if_neg hl]; exact hs
  case transferTimeout => rw [if_neg (fun h => hl h.1)]; exact hs
  case timeoutNowResult a b c => rw [if_neg (fun h => hl h.1)]; exact hs
  case newTermTimeout => rw [if_neg (fun h => hl h.1)]; exact hs
  case shutdown => exact li_shutdown hs (fun _ => hfb)

theorem li_initRole {s : Node} (hs : LI s₀ b false s) :
    LI s₀ b false s.initRole ∧ (s.role = .leader → LI s₀ b true s.initRole) := by
  unfold Node.initRole
  split
  · rename_i h; exact ⟨hs, fun e => by rw [h] at e; cases e⟩
  · rename_i h; exact ⟨li_startElection hs, fun e => by rw [h] at e; cases e⟩
  · exact ⟨(li_leaderInit hs).dropQ, fun _ => li_leaderInit hs⟩

/-- the role transitions after a handler -/
theorem li_settle (fuel : Nat) (s : Node) (cur : Role) (hf : LC.need s.role cur ≤ fuel) (h : LI s₀ b false s)
    (hq : cur = .leader → s.role = .leader → LI s₀ b true s) :
    LI s₀ b false (settle fuel s cur) ∧ ((settle fuel s cur).role = .leader → LI s₀ b true (settle fuel s cur)) := by
  induction fuel generalizing s cur with
  | zero =>
    have e : s.role = cur := LC.need_zero (Nat.le_zero.mp hf)
    unfold settle
    exact ⟨h, fun hl => hq (by rw [← e]; exact hl) hl⟩
  | succ n ih =>
    unfold settle
    split
    · rename_i e
      exact ⟨h, fun hl => hq (by rw [← e]; exact hl) hl⟩
    · rename_i hne
      dsimp only
      have hr : (s.releaseRole cur).role = s.role := LC.role_releaseRole s cur
      have h1 : LI s₀ b false (s.releaseRole cur) := li_releaseRole cur h
      obtain ⟨h2, h3⟩ := li_initRole h1
      apply ih
      · -- enough fuel remains
        unfold Node.initRole
        cases hrole : s.role with
        | follower =>
          rw [hr, hrole]; dsimp only; rw [hr, hrole, LC.need_self]; omega
        | candidate =>
          have hneed : LC.need s.role cur = 3 := by unfold LC.need; rw [if_neg hne, hrole]
          rw [hr, hrole]; dsimp only
          rw [hrole] at hneed hf
          rcases LC.role_startElection (s.releaseRole cur) with e | e
          · rw [e, hr, hrole, LC.need_self]; omega
          · rw [e]; unfold LC.need; simp; omega
        | leader =>
          have hneed : LC.need s.role cur = 2 := by unfold LC.need; rw [if_neg hne, hrole]
          rw [hr, hrole]; dsimp only
          rw [hrole] at hneed hf
          have hc := LC.role_leaderInit (s.releaseRole cur) (by rw [hr, hrole]; exact fun x => by cases x)
          cases hrl : (s.releaseRole cur).leaderInit.role with
          | candidate => exact absurd hrl hc
          | leader => rw [LC.need_self]; omega
          | follower => unfold LC.need; simp; omega
      · exact h2
      · intro hl _
        exact h3 hl

/-- `begin` (clearing the ghost outputs) establishes the step invariant from the stable one -/
theorem li_begin {s : Node} (ra : List Nat) (ord : List (List Nat)) (ho : Order.Ordered s) (c : Core s)
    (hq : g = true → QM s) (hl : LN s) : LI s true g (s.begin ra ord) :=
  ⟨ti_begin ra ord ho c hq, fun _ => hl.congr rfl⟩

/-- **Composition**: one step from an ordered, tracking state in which the latest configuration is the newest one,
for an acceptable operation that does not take the snapshot fallback, keeps the invariant relative to the state the
step started from. -/
theorem li_stepAll {s : Node} (op : Op) (ra : List Nat) (ord : List (List Nat)) (ho : Order.Ordered s)
    (c : Core s) (hq : s.role = .leader → QM s) (hl : LN s) (hr : Order.ReqOk s op) (hfb : NoFallback s op) :
    LI s true false (s.step op ra ord) := by
  unfold Node.step
  dsimp only
  have hr' : Order.ReqOk (s.begin ra ord) op := by cases op <;> exact hr
  have hfb' : NoFallback (s.begin ra ord) op := by cases op <;> exact hfb
  have hrole : (s.begin ra ord).role = s.role := rfl
  have hH : LI s true false ((s.begin ra ord).handle op) ∧
      (s.role = .leader → ((s.begin ra ord).handle op).role = .leader → LI s true true ((s.begin ra ord).handle op)) := by
    by_cases hld : s.role = .leader
    · obtain ⟨a1, a2⟩ := li_handle_true op (li_begin ra ord ho c (fun _ => hq hld) hl) hr' hfb'
      exact ⟨a1, fun _ => a2⟩
    · exact ⟨li_handle_false op (li_begin ra ord ho c (fun e => Bool.noConfusion e) hl) (by rw [hrole]; exact hld)
        hr' hfb', fun e => absurd e hld⟩
  split
  · exact hH.1
  · refine (li_settle _ _ _ ?_ hH.1 ?_).1
    · exact Nat.le_trans (LC.need_le _ _) (by decide)
    · intro hc hl'
      exact hH.2 (by rw [← hrole]; exact hc) hl'


/-! ## restart: what `openStorage` finds -/

/-- the newest two configuration entries above the snapshot index `sn` (newest first), each falling back to the
label — what `scanConfigs` returns (`C10.restart_configs`) — satisfy the invariant, when the label is the newest
configuration at or below `sn` and carries an index at or below `sn` -/
theorem LNc.of_scan {log : NLog} {L : Config} {sn ci : Nat} (hc : C03.LogContig log) (hsl : sn ≤ log.last)
    (hlab : newest log L sn = L) (hli : L.index ≤ sn) :
    LNc log L ⟨(((seg log sn log.last).reverse)[1]?).getD L, (((seg log sn log.last).reverse)[0]?).getD L⟩ ci
      log.last := by
  have hs := pre_split log hsl
  cases hR : (seg log sn log.last).reverse with
  | nil =>
    have hS : seg log sn log.last = [] := List.reverse_eq_nil_iff.mp hR
    refine ⟨?_, Or.inl rfl⟩
    show L = newest log L log.last
    unfold newest; rw [hs, hS, List.append_nil]; exact hlab.symm
  | cons c R' =>
    have hS : seg log sn log.last = R'.reverse ++ [c] := List.reverse_eq_cons_iff.mp hR
    have hlast : (pre log log.last).getLast? = some c := by
      rw [hs, hS, ← List.append_assoc, List.getLast?_concat]
    have hd := pre_dropLast hc hlast
    have hpre1 : pre log (c.index - 1) = pre log sn ++ R'.reverse := by
      apply List.append_cancel_right (bs := [c])
      rw [← hd, hs, hS, List.append_assoc]
    have hcmem : c ∈ seg log sn log.last := by rw [hS]; simp
    have hci := seg_index hc hcmem
    refine ⟨?_, Or.inr ⟨?_, fun _ => ?_⟩⟩
    · show c = newest log L log.last
      unfold newest; rw [hlast]; rfl
    · show ((R'[0]?).getD L).index < c.index
      cases R' with
      | nil => show L.index < c.index; omega
      | cons x R'' =>
        show x.index < c.index
        have hx : x ∈ pre log (c.index - 1) := by rw [hpre1]; simp
        have := (pre_index hc hx).2
        omega
    · show (R'[0]?).getD L = newest log L (c.index - 1)
      unfold newest
      rw [hpre1]
      cases R' with
      | nil => rw [List.reverse_nil, List.append_nil]; exact hlab.symm
      | cons x R'' =>
        rw [List.reverse_cons, ← List.append_assoc, List.getLast?_concat]
        rfl


/-! ## `CfgRel.LogInv` through the append-entries handler

`CfgRel.CfgLog x`: every entry of type `entryConfig` in the log lies at or below `configs.committed.index` or is the
entry of `configs.latest`. `Props/C08Step.lean` carries it through every operation but the append request; here is the
follower's handler. The loop stops at an undecodable configuration entry with `err` set (the entry is in the log, not
adopted): `CfgLog` is claimed while `err` is not set — a request answered `unexpectedErr` makes `replyRPC` panic. -/

open CfgRel (CfgLog)

/-- the invariant of a step for `CfgLog` -/
def CI (s₀ : Node) (b g : Bool) (s : Node) : Prop := TI s₀ b g s ∧ (s.panicked = none → CfgLog s)

theorem cfgLog_congr {s s' : Node} (h : CfgLog s) (e1 : s'.log = s.log) (e2 : s'.configs = s.configs) : CfgLog s' := by
  unfold CfgLog at *
  rw [e1, e2]; exact h

theorem CI.irr {s s' : Node} (h : CI s₀ b g s) (hi : Order.Irr s s') (e : obsT s' = obsT s) : CI s₀ b g s' := by
  obtain ⟨_, a2, _, _, _, a6, _⟩ := Order.obs_eq hi.1
  exact ⟨h.1.irr hi e, fun hp => cfgLog_congr (h.2 (hi.2 hp)) a2 a6⟩

theorem CI.dropQ {s : Node} (h : CI s₀ b g s) : CI s₀ b false s := ⟨h.1.dropQ, h.2⟩

theorem ci_panic (s : Node) (site : String) : CI s₀ b g (s.panic site) :=
  ⟨ti_panic s site, fun h => absurd h (panic_panicked_ne s site)⟩
theorem ci_ret {s : Node} (r : Nat) (h : CI s₀ b g s) : CI s₀ b g (s.ret r) := h.irr (Order.irr_ret s r) rfl
theorem ci_setRole {s : Node} (r : Role) (h : CI s₀ b g s) : CI s₀ b g (s.setRole r) := h.irr (Order.irr_setRole s r) rfl
theorem ci_setLeader {s : Node} (l : Nat) (h : CI s₀ b g s) : CI s₀ b g (s.setLeader l) :=
  h.irr (Order.irr_setLeader s l) rfl
theorem ci_setTerm {s : Node} (t : Nat) (h : CI s₀ b g s) : CI s₀ b g (s.setTerm t) :=
  h.irr (Order.irr_setTerm s t) (obsT_setTerm s t)

theorem ci_commitLog {s : Node} (n : Nat) (h : CI s₀ b g s) : CI s₀ b g (s.commitLog n) := by
  refine ⟨ti_commitLog n h.1, fun hp => ?_⟩
  have hp' : s.panicked = none := hp
  have := h.2 hp'
  unfold CfgLog at *
  show ∀ e ∈ (s.log.commitN n).entries, _
  rw [(Order.commitN_same s.log n).2.1]
  exact this

theorem ci_setCommitIndexR {s : Node} {b' : Bool} (i : Nat) (h : CI s₀ b g s)
    (hg : s.panicked = none → s.fsm.index ≤ i ∧ (b' = true → i ≤ s.lastLogIndex)) :
    CI s₀ b' g (s.setCommitIndexR i).1 := by
  refine ⟨ti_setCommitIndexR i h.1 hg, fun hp => ?_⟩
  rw [Order.setCommitIndexR_panicked] at hp
  have hcl := h.2 hp
  have hle := (h.1.coreW hp).committed_le_latest
  unfold Node.setCommitIndexR
  split
  · obtain ⟨_, a2, _, _, _, a6, _⟩ := Order.obs_eq (Order.irr_afterConfigCommit (s.withCommitIndex i).commitConfig).1
    obtain ⟨c1, c2, _⟩ := commitConfig_other (s.withCommitIndex i)
    have e1 : (s.withCommitIndex i).commitConfig.afterConfigCommit.log = s.log := by rw [a2, c2]; rfl
    have e2 : (s.withCommitIndex i).commitConfig.afterConfigCommit.configs = ⟨s.configs.latest, s.configs.latest⟩ := by
      rw [a6, c1]; rfl
    unfold CfgLog at *
    show ∀ e ∈ (s.withCommitIndex i).commitConfig.afterConfigCommit.log.entries, _
    rw [e1, e2]
    intro e he ht
    left
    show e.index ≤ s.configs.latest.index
    rcases hcl e he ht with h' | h' <;> omega
  · exact hcl

theorem ci_applyCommitted {s : Node} (h : CI s₀ b g s) : CI s₀ true g s.applyCommitted := by
  refine ⟨ti_applyCommitted h.1, fun hp => ?_⟩
  obtain ⟨e1, _, e3, _⟩ := obsL_eq (obsL_fsmApply s [])
  exact cfgLog_congr (h.2 (Order.fsmApply_ok s [] hp).1) e1 e3

/-- the entries that survive `removeGTE i` lie below `i` -/
theorem removeGTE_entries_lt {l : NLog} (hc : C03.LogContig l) (i : Nat) {e : Entry}
    (he : e ∈ (l.removeGTE i).entries) : e ∈ l.entries ∧ e.index < i := by
  have he' : e ∈ l.entries.take (i - 1 - l.prev) := he
  refine ⟨List.mem_of_mem_take he', ?_⟩
  obtain ⟨k, hk, rfl⟩ := List.getElem_of_mem he'
  rw [List.length_take] at hk
  rw [List.getElem_take, hc k (by omega)]
  omega

theorem ci_resolveConflict {s : Node} (ne : Entry) (pt : Nat) (h : CI s₀ true g s)
    (hg : s.panicked = none → ne.index ≤ s.lastLogIndex →
      s.snapIndex < ne.index ∧ s.commitIndex < ne.index ∧ s.configs.committed.index < ne.index) :
    CI s₀ true false (s.resolveConflict ne pt) := by
  refine ⟨ti_resolveConflict ne pt h.1 hg, fun hp => ?_⟩
  have hp' := resolveConflict_sticky s ne pt hp
  have c := (h.1.2 hp').1
  have cw := h.1.coreW hp'
  have hcl := h.2 hp'
  unfold Node.resolveConflict
  split
  · rename_i hle
    obtain ⟨g1, g2, g3⟩ := hg hp' hle
    have hprev : s.log.prev < ne.index := by have := cw.prev_le_snap; omega
    split
    · obtain ⟨_, a2, _, _, _, a6, _⟩ := Order.obs_eq (Order.irr_panic s "bug.mustGetEntry").1
      exact cfgLog_congr hcl a2 a6
    · dsimp only
      split
      · rename_i hlat
        have hlat' : ne.index ≤ s.configs.latest.index := hlat
        unfold CfgLog at *
        intro e he ht
        have he' : e ∈ (s.log.removeGTE ne.index).entries := he
        obtain ⟨hm, hlt⟩ := removeGTE_entries_lt c.contig ne.index he'
        left
        show e.index ≤ s.configs.committed.index
        rcases hcl e hm ht with h' | h' <;> omega
      · unfold CfgLog at *
        intro e he ht
        have he' : e ∈ (s.log.removeGTE ne.index).entries := he
        exact hcl e (List.mem_of_mem_take he') ht
  · exact hcl

/-- `storage.appendEntry` of an entry that is not of type `entryConfig` -/
theorem ci_appendEntry {s : Node} (e : Entry) (h : CI s₀ b g s) (ht : ¬ e.typ = etConfig) :
    CI s₀ b g (s.appendEntry e) := by
  refine ⟨ti_appendEntry' e h.1, fun hp => ?_⟩
  obtain ⟨_, hp'⟩ := Order.appendEntry_ok hp
  obtain ⟨roll, a1, _, a3, _⟩ := appendEntry_obs s e
  have hcl := h.2 hp'
  unfold CfgLog at *
  rw [a1, a3, (C03.append_parts s.log e roll).2]
  intro x hx hxt
  rcases List.mem_append.mp hx with h1 | h1
  · exact hcl x h1 hxt
  · rw [List.mem_singleton.mp h1] at hxt; exact absurd hxt ht

/-- `storage.appendEntry` of a configuration entry followed by its adoption -/
theorem ci_append_adopt {s : Node} (e : Entry) (cfg : Config) (h : CI s₀ b g s) (hcfg : e.config? = some cfg) :
    CI s₀ b g ((s.appendEntry e).changeConfigR cfg) := by
  have h2 : TI s₀ b g (s.appendEntry e) := ti_appendEntry' e h.1
  have hci := Order.config?_index hcfg
  have e2 : (s.appendEntry e).lastLogIndex = e.index := rfl
  refine ⟨ti_changeConfigR cfg h2 (fun hp => ?_), fun hp => ?_⟩
  · have := (h2.1 hp).1.latest_le_last
    rw [e2] at this
    exact ⟨by rw [hci]; exact this, by rw [hci, e2]; exact Nat.le_refl _⟩
  · obtain ⟨c1, c2, _, _, _, _, _, _, _, _, c11⟩ := changeConfigR_other (s.appendEntry e) cfg
    rw [c11] at hp
    obtain ⟨_, hp'⟩ := Order.appendEntry_ok hp
    obtain ⟨roll, a1, _, a3, _⟩ := appendEntry_obs s e
    have hcl := h.2 hp'
    have hle := (h.1.coreW hp').committed_le_latest
    unfold CfgLog at *
    rw [c2, c1, a1, a3, (C03.append_parts s.log e roll).2]
    intro x hx hxt
    rcases List.mem_append.mp hx with h1 | h1
    · left
      show x.index ≤ s.configs.latest.index
      rcases hcl x h1 hxt with h' | h' <;> omega
    · right
      rw [List.mem_singleton.mp h1]
      exact hci.symm

/-- the loop state: `CfgLog` holds unless an undecodable configuration entry stopped the loop -/
def CE (s₀ : Node) (st : AppLoop) : Prop :=
  TI s₀ true false st.s ∧ (st.s.panicked = none → st.err = false → CfgLog st.s)

theorem ce_appendLoop (es : List Entry) : ∀ (st : AppLoop), CE s₀ st → Order.chainB st.index es = true →
    (st.s.panicked = none → st.index ≤ st.s.lastLogIndex) →
    (st.s.panicked = none → ∀ ne ∈ es, ne.index ≤ st.s.lastLogIndex → st.s.snapIndex < ne.index →
      st.s.entryTerm? ne.index ≠ some ne.term →
      st.s.commitIndex < ne.index ∧ st.s.configs.committed.index < ne.index) →
    CE s₀ (appendLoop st es) ∧
    ((appendLoop st es).s.panicked = none → (appendLoop st es).index ≤ (appendLoop st es).s.lastLogIndex) := by
  induction es with
  | nil => intro st hs _ hidx _; unfold appendLoop; exact ⟨hs, hidx⟩
  | cons ne rest ih =>
    intro st hs hch hidx hJ
    obtain ⟨hc1, hc2⟩ := Order.chainB_cons hch
    have hrest : ∀ x ∈ rest, ne.index < x.index := Order.chainB_gt rest ne.index hc2
    unfold appendLoop
    dsimp only
    split
    · exact ⟨hs, hidx⟩
    · rename_i herr
      have herr' : st.err = false := by simpa using herr
      have hci : CI s₀ true false st.s := ⟨hs.1, fun hp => hs.2 hp herr'⟩
      split
      · rename_i hsn
        refine ih _ hs hc2 (fun hp => ?_) (fun hp x hx => hJ hp x (List.mem_cons_of_mem _ hx))
        obtain ⟨c, hcl, _, _⟩ := hs.1.1 hp
        have h1 := c.snap_le_applied
        have h2 := c.applied_le_commit
        have h3 := hcl rfl
        show ne.index ≤ st.s.lastLogIndex
        omega
      · rename_i hsn
        split
        · rename_i hpres
          refine ih _ hs hc2 (fun _ => ?_) (fun hp x hx => hJ hp x (List.mem_cons_of_mem _ hx))
          simp only [Bool.and_eq_true, decide_eq_true_eq] at hpres
          exact hpres.1
        · rename_i hpres
          have hRC : CI s₀ true false (st.s.resolveConflict ne st.term) := by
            refine ci_resolveConflict ne st.term hci (fun hp hle => ?_)
            have hne : st.s.entryTerm? ne.index ≠ some ne.term := by
              intro he
              apply hpres
              simp only [Bool.and_eq_true, decide_eq_true_eq, beq_iff_eq]
              exact ⟨hle, he⟩
            have := hJ hp ne (List.mem_cons_self ..) hle (by omega) hne
            exact ⟨by omega, this.1, this.2⟩
          have h2 : TI s₀ true false ((st.s.resolveConflict ne st.term).appendEntry ne) := ti_appendEntry' ne hRC.1
          have e2 : ((st.s.resolveConflict ne st.term).appendEntry ne).lastLogIndex = ne.index := rfl
          split
          · rename_i htyp
            split
            · rename_i cfg hcfg
              have e3 := (changeConfigR_fields ((st.s.resolveConflict ne st.term).appendEntry ne) cfg).2.1
              have hA := ci_append_adopt ne cfg hRC hcfg
              refine ih _ ⟨hA.1, fun hp _ => hA.2 hp⟩ hc2 (fun _ => ?_) (fun _ x hx hle => ?_)
              · show ne.index ≤ _
                rw [e3, e2]; exact Nat.le_refl _
              · have := hrest x hx
                rw [e3, e2] at hle
                omega
            · exact ⟨⟨h2, fun _ he => by cases he⟩, fun _ => Nat.le_of_eq e2.symm⟩
          · rename_i htyp
            have hA := ci_appendEntry ne hRC htyp
            refine ih _ ⟨hA.1, fun hp _ => hA.2 hp⟩ hc2 (fun _ => Nat.le_of_eq e2.symm) (fun _ x hx hle => ?_)
            have := hrest x hx
            have hle' : x.index ≤ ne.index := hle
            omega

theorem ci_appendCheck {s : Node} (q : AppendReq) (h : CI s₀ true g s) : CI s₀ true g (s.appendCheck q) := by
  unfold Node.appendCheck
  split
  · split
    · exact ci_ret _ h
    · rename_i hnl
      extract_lets s1 plt
      have hI : Order.Irr s s1 := by
        unfold s1; split
        · exact Order.Irr.refl _
        · split
          · exact Order.Irr.refl _
          · exact Order.irr_panic _ _
      have h1 : CI s₀ true g s1 := by
        unfold s1; split
        · exact h
        · split
          · exact h
          · exact ci_panic _ _
      split
      · exact ci_ret _ h1
      · split
        · rename_i hcc
          simp only [Node.canCommit, Bool.and_eq_true, decide_eq_true_eq] at hcc
          refine ci_ret _ (ci_applyCommitted (ci_setCommitIndexR (b' := true) _ h1 (fun hp => ?_)))
          obtain ⟨e1, _, _, _, _, _⟩ := Order.obs_eq hI.1
          have := (h1.1.1 hp).1.applied_le_commit
          exact ⟨by omega, fun _ => by rw [e1]; omega⟩
        · exact ci_ret _ h1
  · exact ci_ret _ h

/-- **`CfgLog` through the append-entries handler**: while nothing failed and the request is not answered
`unexpectedErr` (an undecodable configuration entry; `replyRPC` then panics) -/
theorem ci_onAppendEntries {s : Node} (q : AppendReq) (h : CI s₀ true g s)
    (hok' : q.term < s.term ∨ Order.AppendOk s q) :
    TI s₀ true false (s.onAppendEntries q) ∧
    ((s.onAppendEntries q).panicked = none → (s.onAppendEntries q).result ≠ rUnexpectedErr →
      CfgLog (s.onAppendEntries q)) := by
  refine ⟨ti_onAppendEntries q h.1 hok', ?_⟩
  unfold Node.onAppendEntries
  split
  · exact fun hp _ => (ci_ret (s₀ := s₀) _ h.dropQ).2 hp
  · rename_i hterm
    have hok : Order.AppendOk s q := by
      rcases hok' with h1 | h1
      · exact absurd h1 hterm
      · exact h1
    extract_lets s1 s2 s3 st s4 s4c s5
    have hI2 : Order.Irr s s2 := by
      refine Order.Irr.trans ?_ ((Order.irr_setRole _ _).trans (Order.irr_setLeader _ _))
      unfold s1; split
      · exact (Order.irr_setTerm _ _).trans (Order.irr_setRole _ _)
      · exact Order.Irr.refl _
    have h2 : CI s₀ true false s2 := by
      unfold s2 s1
      apply ci_setLeader; apply ci_setRole
      split
      · exact ci_setRole _ (ci_setTerm _ h.dropQ)
      · exact h.dropQ
    have h3 : CI s₀ true false s3 := ci_appendCheck q h2
    have hP : Order.Pre q.prevLogIndex s s3 := (Order.Pre.of_irr hI2).trans (Order.appendCheck_pre s2 q)
    split
    · exact fun hp _ => h3.2 hp
    · rename_i hres
      have hres' : s3.result = 0 := by
        cases hr : s3.result with
        | zero => rfl
        | succ n => exact absurd (by rw [hr]; exact Nat.succ_ne_zero n) hres
      obtain ⟨p1, p2, p3, p4, p5⟩ := hP
      have hL := ce_appendLoop (s₀ := s₀) q.entries { s := s3, index := q.prevLogIndex, term := q.prevLogTerm }
        ⟨h3.1, fun hp _ => h3.2 hp⟩ hok.1 (fun hp => by
          obtain ⟨c, hcl, _, _⟩ := h3.1.1 hp
          have := c.snap_le_applied; have := c.applied_le_commit; have := hcl rfl
          obtain ⟨e1, _, e3, _⟩ := Order.obs_eq (Order.Irr.trans hI2 (Order.Irr.refl s2)).1
          have hr := Order.appendCheck_result s2 q hres'
          show q.prevLogIndex ≤ s3.lastLogIndex
          rw [p2]; rw [p3] at *; rw [p2] at *
          rw [e1, e3] at hr
          omega)
        (fun _ ne hne hle hsn hterm => by
          have hgt := Order.chainB_gt _ _ hok.1 ne hne
          have hterm' : s.entryTerm? ne.index ≠ some ne.term := by
            unfold Node.entryTerm? at hterm ⊢
            rw [← p1]; exact hterm
          have := hok.2 ne hne (by rw [← p2]; exact hle) (by rw [← p3]; exact hsn) hterm'
          exact ⟨by show s3.commitIndex < ne.index; omega, by show s3.configs.committed.index < ne.index; omega⟩)
      intro hp hres2
      -- the request was not answered `unexpectedErr`: the loop did not stop at an undecodable entry
      have herr : st.err = false := by
        cases he : st.err with
        | false => rfl
        | true =>
          exfalso
          apply hres2
          show (if st.err = true then rUnexpectedErr else rSuccess) = rUnexpectedErr
          rw [he]; rfl
      have hp5 : s5.panicked = none := hp
      have h4 : CI s₀ true false s4 := ⟨hL.1.1, fun hp4 => hL.1.2 hp4 herr⟩
      have h5 : CI s₀ true false s5 := by
        unfold s5
        split
        · split
          · rename_i hcc
            simp only [Node.canCommit, Bool.and_eq_true, decide_eq_true_eq] at hcc
            refine ci_applyCommitted (ci_setCommitIndexR (b' := true) _ (ci_commitLog _ h4) (fun hp => ?_))
            have hidx : st.index ≤ s4.lastLogIndex := hL.2 hp
            have : s4c.fsm.index ≤ s4c.commitIndex :=
              ((ci_commitLog (s₀ := s₀) (b := true) (g := false) s4.lastLogIndex h4).1.1 hp).1.applied_le_commit
            exact ⟨by omega, fun _ => hidx⟩
          · exact ci_commitLog _ h4
        · exact h4
      exact (ci_ret (s₀ := s₀) _ h5).2 hp

end Latest
end Raft
