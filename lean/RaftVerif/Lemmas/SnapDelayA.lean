/-
Delayed compaction (`leader.checkLogCompact`), part A — node level.

A batch of replication updates that contains `removeLTE` reports (`ReplUpd.removeLTE`) makes `checkReplUpdates` run
`checkLogCompact`, which compacts the log up to `ldr.removeLTE` when every replication reported an index at or above
it.  Stage 2 of the cluster system (Sys/Snap2.lean) excludes such batches (`LogRel.NoCompact`).  Here:

* `rmF us` — the batch without its compaction reports; `updPre` — the state in which `checkReplUpdates` decides about the
  compaction; `updTail` — what it does afterwards (`tryTransfer`); `checkReplUpdates_eq` — the decomposition.
* `U_replUpdLoop_rm` — on the UN-COMPACTED node (`SnapRelU.U`, which forgets the compaction bounds of the leader record)
  the loop over the batch is the loop over the batch without its compaction reports (the replication table is sorted by
  id: `LC.Cache`).
* `relog` — a node with another log and another list of crash points; what follows the compaction (`tryTransfer`,
  `leader.release` if `checkQuorum` made the node step down) neither reads nor writes them (`updFin_relog`).
* `step_rm_U` — the step of the un-compacted node with the batch `rmF us` is the un-compaction of `updFin` of `updPre`;
  `step_rm_real` — the step of the real node is that state, with the compacted log and one more crash point if
  `checkLogCompact` compacted.
-/
import RaftVerif.Lemmas.SnapRelU4
import RaftVerif.Lemmas.LeaderCache

namespace Raft
namespace SnapDelay
open Node SnapRelP SnapRelU

variable {β : List Entry}

/-! ### the batch without its compaction reports -/

/-- the update is a compaction report -/
def isRm (u : ReplUpdate) : Bool :=
  match u.upd with
  | .removeLTE _ => true
  | _ => false

/-- the batch without its compaction reports -/
def rmF (us : List ReplUpdate) : List ReplUpdate := us.filter (fun u => !isRm u)

theorem isRm_false {u : ReplUpdate} (h : isRm u = false) : ∀ v, u.upd ≠ .removeLTE v := by
  intro v hv
  unfold isRm at h
  rw [hv] at h
  cases h

theorem isRm_true {u : ReplUpdate} (h : isRm u = true) : ∃ v, u.upd = .removeLTE v := by
  unfold isRm at h
  split at h
  · exact ⟨_, by assumption⟩
  · cases h

theorem rmF_noRm (us : List ReplUpdate) : NoRm (rmF us) := by
  intro u hu v
  have := (List.mem_filter.mp hu).2
  exact isRm_false (by simpa using this) v

theorem rmF_mem {us : List ReplUpdate} {u : ReplUpdate} (h : u ∈ rmF us) : u ∈ us := (List.mem_filter.mp h).1

theorem rmF_cons_rm (u : ReplUpdate) (us : List ReplUpdate) (h : isRm u = true) : rmF (u :: us) = rmF us := by
  unfold rmF
  rw [List.filter_cons, if_neg (by rw [h]; decide)]

theorem rmF_cons_keep (u : ReplUpdate) (us : List ReplUpdate) (h : isRm u = false) : rmF (u :: us) = u :: rmF us := by
  unfold rmF
  rw [List.filter_cons, if_pos (by rw [h]; rfl)]

theorem rmF_of_noRm (us : List ReplUpdate) (h : NoRm us) : rmF us = us := by
  unfold rmF
  apply List.filter_eq_self.mpr
  intro u hu
  unfold isRm
  split
  · rename_i v hv; exact absurd hv (h u hu v)
  · rfl

/-! ### a compaction report does not change the un-compacted node -/

/-- replacing a replication by one that differs only in its compaction bound does not change the table of the
un-compacted node -/
theorem map_zrr_insertRepl (r st : Repl) (l : List Repl) (hs : LC.Sorted l) (hst : st ∈ l)
    (hid : r.id = st.id) (hk : zrr r = zrr st) : (insertRepl r l).map zrr = l.map zrr := by
  induction l with
  | nil => cases hst
  | cons m ms ih =>
    have hms : LC.Sorted ms := (List.pairwise_cons.mp hs).2
    have hlt : ∀ y ∈ ms, m.id < y.id := (List.pairwise_cons.mp hs).1
    unfold insertRepl
    split
    · rename_i h1
      exfalso
      rcases List.mem_cons.mp hst with e | h'
      · rw [e] at hid; omega
      · have := hlt st h'; omega
    · split
      · rename_i h1 h2
        rcases List.mem_cons.mp hst with e | h'
        · rw [List.map_cons, List.map_cons, hk, e]
        · have := hlt st h'; omega
      · rename_i h1 h2
        rcases List.mem_cons.mp hst with e | h'
        · rw [e] at hid; exact absurd hid h2
        · rw [List.map_cons, List.map_cons, ih hms h']

theorem U_setRepl_rm (s : Node) (st : Repl) (id v : Nat) (hc : LC.Cache s) (hf : s.findRepl? id = some st) :
    U β (s.setRepl { st with removeLTE := v }) = U β s := by
  have hm := LC.find_mem hf
  have e : (insertRepl { st with removeLTE := v } s.ldr.repls).map zrr = s.ldr.repls.map zrr :=
    map_zrr_insertRepl _ st _ hc.sortedRepls hm.1 rfl rfl
  unfold Node.setRepl
  show ({ s with log := uncLog β s.log,
                 ldr := { zr s.ldr with repls := (insertRepl { st with removeLTE := v } s.ldr.repls).map zrr },
                 trace := s.trace.map (uncP β) } : Node) = _
  rw [e]
  rfl

/-! ### the loop over the batch, on the un-compacted node -/

/-- the flags of the loop over `rmF us` are those of the loop over `us`, except the one that records a compaction
report -/
def FlagsEq (g f : UpdFlags) : Prop := g.matchU = f.matchU ∧ g.noContactU = f.noContactU ∧ g.stop = f.stop

theorem flags_ext {g f : UpdFlags} (h : FlagsEq g f) : g = { f with removeLTEU := g.removeLTEU } := by
  obtain ⟨h1, h2, h3⟩ := h
  cases g; cases f
  simp only at h1 h2 h3
  simp only [h1, h2, h3]

theorem U_replUpdLoop_rm (us : List ReplUpdate) : ∀ (s : Node) (f g : UpdFlags), LC.Cache s → FlagsEq g f →
    (replUpdLoop s f us).1.panicked = none →
    replUpdLoop (U β s) g (rmF us) =
      (U β (replUpdLoop s f us).1, { (replUpdLoop s f us).2 with removeLTEU := g.removeLTEU }) := by
  induction us with
  | nil =>
    intro s f g _ hg _
    show (U β s, g) = (U β s, { f with removeLTEU := g.removeLTEU })
    rw [← flags_ext hg]
  | cons u us ih =>
    intro s f g hc hg hp
    cases hrm : isRm u with
    | true =>
      rw [rmF_cons_rm u us hrm]
      obtain ⟨v, hv⟩ := isRm_true hrm
      unfold replUpdLoop at hp
      conv => rhs; unfold replUpdLoop
      by_cases hr : u.removed = true
      · rw [if_pos hr] at hp ⊢
        exact ih s f g hc hg hp
      · rw [if_neg hr] at hp ⊢
        cases hf : s.findRepl? u.id with
        | none =>
          rw [hf] at hp
          exact ih s f g hc hg hp
        | some st =>
          rw [hf] at hp
          dsimp only at hp ⊢
          rw [hv] at hp ⊢
          dsimp only at hp ⊢
          have hc' : LC.Cache (s.setRepl { st with removeLTE := v }) := LC.csetRepl _ st u.id hc hf rfl
          have := ih (s.setRepl { st with removeLTE := v }) { f with removeLTEU := true } g hc' hg hp
          rw [U_setRepl_rm s st u.id v hc hf] at this
          exact this
    | false =>
      rw [rmF_cons_keep u us hrm]
      have hu := isRm_false hrm
      unfold replUpdLoop at hp ⊢
      by_cases hr : u.removed = true
      · rw [if_pos hr] at hp ⊢
        rw [if_pos hr]
        exact ih s f g hc hg hp
      · rw [if_neg hr] at hp ⊢
        rw [if_neg hr, U_findRepl?]
        cases hf : s.findRepl? u.id with
        | none =>
          rw [hf] at hp
          exact ih s f g hc hg hp
        | some st =>
          rw [hf] at hp
          dsimp only [Option.map] at hp ⊢
          cases hupd : u.upd with
          | matchIndex v =>
            rw [hupd] at hp
            dsimp only at hp ⊢
            have hs := replUpdLoop_sticky us _ _ hp
            have e1 : (U β s).setRepl { zrr st with matchIndex := v } = U β (s.setRepl { st with matchIndex := v }) :=
              U_setRepl s { st with matchIndex := v }
            have hc1 : LC.Cache (s.setRepl { st with matchIndex := v }) := LC.csetRepl _ st u.id hc hf rfl
            have e2 : (if (!(zrr st).node.voter) = true ∧ (zrr st).node.action ≠ actNone then
                  checkConfigAction (fuelFor 0) ((U β s).setRepl { zrr st with matchIndex := v }) 0
                    ((U β s).setRepl { zrr st with matchIndex := v }).configs.latest (zrr st).id
                else (U β s).setRepl { zrr st with matchIndex := v }) =
                U β (if (!st.node.voter) = true ∧ st.node.action ≠ actNone then
                  checkConfigAction (fuelFor 0) (s.setRepl { st with matchIndex := v }) 0
                    (s.setRepl { st with matchIndex := v }).configs.latest st.id
                else s.setRepl { st with matchIndex := v }) := by
              rw [e1]
              by_cases hcc : (!st.node.voter) = true ∧ st.node.action ≠ actNone
              · rw [if_pos hcc] at hs ⊢
                rw [if_pos (show (!(zrr st).node.voter) = true ∧ (zrr st).node.action ≠ actNone from hcc)]
                exact U_checkConfigAction _ _ _ _ _ hs
              · rw [if_neg hcc, if_neg (show ¬ ((!(zrr st).node.voter) = true ∧ (zrr st).node.action ≠ actNone) from hcc)]
            rw [e2]
            have hc2 : LC.Cache (if (!st.node.voter) = true ∧ st.node.action ≠ actNone then
                  checkConfigAction (fuelFor 0) (s.setRepl { st with matchIndex := v }) 0
                    (s.setRepl { st with matchIndex := v }).configs.latest st.id
                else s.setRepl { st with matchIndex := v }) := by
              split
              · exact LC.ccheckConfigAction _ _ _ _ hc1
              · exact hc1
            exact ih _ { f with matchU := true } { g with matchU := true } hc2 ⟨rfl, hg.2.1, hg.2.2⟩ hp
          | removeLTE v => exact absurd hupd (hu v)
          | noContact b =>
            rw [hupd] at hp
            dsimp only at hp ⊢
            have e1 : (U β s).setRepl { zrr st with noContact := b } = U β (s.setRepl { st with noContact := b }) :=
              U_setRepl s { st with noContact := b }
            rw [e1]
            have hc1 : LC.Cache (s.setRepl { st with noContact := b }) := LC.csetRepl _ st u.id hc hf rfl
            exact ih _ { f with noContactU := true } { g with noContactU := true } hc1 ⟨hg.1, rfl, hg.2.2⟩ hp
          | newTerm v =>
            rw [hupd] at hp
            dsimp only at hp ⊢
            show ((((U β s).setRole .follower).setLeader 0).setTerm v, _) = _
            rw [U_setRole, U_setLeader, U_setTerm, hg.1, hg.2.1]

/-! ### the decomposition of `checkReplUpdates` -/

/-- the state in which `checkReplUpdates` decides about the compaction (when the loop did not stop): after the loop,
`onMajorityCommit` and `checkQuorum` -/
def updPre (s : Node) (us : List ReplUpdate) : Node :=
  let r := replUpdLoop s {} us
  let a := if r.2.matchU then onMajorityCommit (fuelFor 0) r.1 else r.1
  if r.2.noContactU then a.checkQuorum else a

/-- the compaction decision of `checkReplUpdates` -/
def updCompact (f : UpdFlags) (a : Node) : Node :=
  if f.removeLTEU ∧ a.ldr.removeLTE > a.log.prev then a.checkLogCompact else a

/-- what `checkReplUpdates` does after the compaction decision -/
def updTail (f : UpdFlags) (s : Node) : Node :=
  if (f.matchU ∨ f.noContactU) ∧ s.ldr.transfer.active ∧ !s.ldr.transfer.targetChosen then s.tryTransfer else s

theorem checkReplUpdates_eq (s : Node) (us : List ReplUpdate) :
    s.checkReplUpdates us =
      if (replUpdLoop s {} us).2.stop then (replUpdLoop s {} us).1
      else updTail (replUpdLoop s {} us).2 (updCompact (replUpdLoop s {} us).2 (updPre s us)) := rfl

/-- `checkReplUpdates` for a batch without compaction reports never looks at the log's first index -/
theorem updCompact_noRm (f : UpdFlags) (a : Node) (h : f.removeLTEU = false) : updCompact f a = a := by
  unfold updCompact
  rw [h]
  simp only [Bool.false_eq_true, false_and, if_false]

/-! ### a node with another log and other crash points -/

/-- the node with another log and another list of crash points -/
def relog (a : Node) (l : NLog) (t : List (String × Durable)) : Node := { a with log := l, trace := t }

theorem relog_self (a : Node) : relog a a.log a.trace = a := rfl

theorem compactLog_relog (a : Node) (R : Nat) :
    a.compactLog R = relog a (a.log.removeLTE R)
      (a.trace ++ [("compactLog", ({ a with log := a.log.removeLTE R } : Node).durable)]) := rfl

theorem reply_relog (a : Node) (l : NLog) (t : List (String × Durable)) (k : Nat) (r : String) :
    (relog a l t).reply k r = relog (a.reply k r) l t := by
  unfold Node.reply; split <;> rfl

theorem panic_relog (a : Node) (l : NLog) (t : List (String × Durable)) (site : String) :
    (relog a l t).panic site = relog (a.panic site) l t := by
  unfold Node.panic
  show (if a.panicked.isNone = true then _ else _) = _
  split <;> rfl

theorem tryTransfer_relog (a : Node) (l : NLog) (t : List (String × Durable)) :
    (relog a l t).tryTransfer = relog a.tryTransfer l t := by
  unfold Node.tryTransfer
  have e : (relog a l t).tryTransferTarget = a.tryTransferTarget := rfl
  rw [e]
  dsimp only
  show (if a.tryTransferTarget.1 ≠ 0 then _ else _) = _
  by_cases h1 : a.ldr.transfer.target = 0
  · rw [if_pos (show (relog a l t).ldr.transfer.target = 0 from h1), if_pos h1]
    by_cases h2 : a.tryTransferTarget.2 = true
    · rw [if_pos h2, if_pos h2, show (relog a l t).popOrder = relog a.popOrder l t from rfl, panic_relog]
      split <;> rfl
    · rw [if_neg h2, if_neg h2]
      split <;> rfl
  · rw [if_neg (show ¬ (relog a l t).ldr.transfer.target = 0 from h1), if_neg h1]
    by_cases h2 : a.tryTransferTarget.2 = true
    · rw [if_pos h2, if_pos h2, panic_relog]
      split <;> rfl
    · rw [if_neg h2, if_neg h2]
      split <;> rfl

theorem updTail_relog (f : UpdFlags) (a : Node) (l : NLog) (t : List (String × Durable)) :
    updTail f (relog a l t) = relog (updTail f a) l t := by
  unfold updTail
  show (if (f.matchU = true ∨ f.noContactU = true) ∧ a.ldr.transfer.active = true ∧ (!a.ldr.transfer.targetChosen) = true
    then _ else _) = _
  split
  · exact tryTransfer_relog a l t
  · rfl

theorem foldl_reply_relog {α : Type} (g : α → Nat) (err : String) (xs : List α) :
    ∀ (a : Node) (l : NLog) (t : List (String × Durable)),
      xs.foldl (fun s q => s.reply (g q) err) (relog a l t) = relog (xs.foldl (fun s q => s.reply (g q) err) a) l t := by
  induction xs with
  | nil => intro a l t; rfl
  | cons x xs ih =>
    intro a l t
    rw [List.foldl_cons, List.foldl_cons, reply_relog, ih]

theorem leaderReleaseRest_relog (a : Node) (l : NLog) (t : List (String × Durable)) :
    (relog a l t).leaderReleaseRest = relog a.leaderReleaseRest l t := by
  unfold Node.leaderReleaseRest
  dsimp only
  show (Node.withLdr _ _) = _
  by_cases h1 : a.leader = a.nid
  · simp only [if_pos (show (relog a l t).leader = (relog a l t).nid from h1), if_pos h1]
    rw [show (relog a l t).setLeader 0 = relog (a.setLeader 0) l t from rfl]
    rw [show (relog (a.setLeader 0) l t).isClosed = (a.setLeader 0).isClosed from rfl,
      show (relog (a.setLeader 0) l t).notLeader true = (a.setLeader 0).notLeader true from rfl,
      show (relog (a.setLeader 0) l t).ldr = (a.setLeader 0).ldr from rfl]
    rw [foldl_reply_relog (fun q : QItem => q.task), foldl_reply_relog (fun q : Nat => q)]
    rfl
  · simp only [if_neg (show ¬ (relog a l t).leader = (relog a l t).nid from h1), if_neg h1]
    rw [show (relog a l t).isClosed = a.isClosed from rfl,
      show (relog a l t).notLeader true = a.notLeader true from rfl,
      show (relog a l t).ldr = a.ldr from rfl]
    rw [foldl_reply_relog (fun q : QItem => q.task), foldl_reply_relog (fun q : Nat => q)]
    rfl

theorem transferReply_relog (a : Node) (l : NLog) (t : List (String × Durable)) (r : String) :
    (relog a l t).transferReply r = relog (a.transferReply r) l t := by
  unfold Node.transferReply Node.reply
  by_cases h : a.ldr.transfer.task = 0
  · simp only [if_pos (show (relog a l t).ldr.transfer.task = 0 from h), if_pos h]; rfl
  · simp only [if_neg (show ¬ (relog a l t).ldr.transfer.task = 0 from h), if_neg h]; rfl

theorem leaderRelease_relog (a : Node) (l : NLog) (t : List (String × Durable)) :
    (relog a l t).leaderRelease = relog a.leaderRelease l t := by
  unfold Node.leaderRelease
  by_cases h : a.ldr.transfer.active = true
  · rw [if_pos (show (relog a l t).ldr.transfer.active = true from h), if_pos h,
      show (relog a l t).releaseResult = a.releaseResult from rfl, transferReply_relog]
    exact leaderReleaseRest_relog _ l t
  · rw [if_neg (show ¬ (relog a l t).ldr.transfer.active = true from h), if_neg h]
    exact leaderReleaseRest_relog a l t

/-! ### the role transitions after `checkReplUpdates` -/

theorem settle_succ (n : Nat) (s : Node) (c : Role) :
    settle (n + 1) s c = if s.role = c then s else settle n (s.releaseRole c).initRole (s.releaseRole c).role := rfl

/-- a leader that is still leader, or stepped down, after its handler: at most `leader.release` runs -/
theorem settle_leader (s : Node) (h : s.role ≠ .candidate) :
    settle 6 s .leader = if s.role = .leader then s else s.leaderRelease := by
  rw [settle_succ]
  split
  · rfl
  · rename_i hl
    have hr : (s.releaseRole .leader).role = s.role := LC.role_releaseRole s .leader
    have hf : s.role = .follower := by
      cases hrole : s.role with
      | follower => rfl
      | candidate => exact absurd hrole h
      | leader => exact absurd hrole hl
    have e1 : (s.releaseRole .leader).initRole = s.releaseRole .leader := by
      unfold Node.initRole
      rw [hr, hf]
    rw [e1, settle_succ, if_pos rfl]
    rfl

/-- `checkReplUpdates` after the compaction decision, and the role transitions -/
def updFin (f : UpdFlags) (a : Node) : Node := settle 6 (updTail f a) .leader

theorem role_tryTransfer (s : Node) : s.tryTransfer.role = s.role := by
  unfold Node.tryTransfer
  dsimp only
  repeat' split
  all_goals first | rfl | exact LC.role_panic _ _

theorem role_updTail (f : UpdFlags) (a : Node) : (updTail f a).role = a.role := by
  unfold updTail
  split
  · exact role_tryTransfer a
  · rfl

theorem updFin_relog (f : UpdFlags) (a : Node) (l : NLog) (t : List (String × Durable)) (h : a.role ≠ .candidate) :
    updFin f (relog a l t) = relog (updFin f a) l t := by
  unfold updFin
  rw [updTail_relog]
  have h1 : (updTail f a).role ≠ .candidate := by rw [role_updTail]; exact h
  rw [settle_leader _ h1, settle_leader (relog (updTail f a) l t) h1]
  show (if (updTail f a).role = .leader then _ else _) = _
  split
  · rfl
  · exact leaderRelease_relog _ l t

theorem updFin_log (f : UpdFlags) (a : Node) (h : a.role ≠ .candidate) :
    (updFin f a).log = a.log ∧ (updFin f a).trace = a.trace := by
  have := updFin_relog f a a.log a.trace h
  rw [relog_self] at this
  constructor
  · rw [this]; rfl
  · rw [this]; rfl

/-! ### the step with a batch of updates -/

theorem step_rm_eq (s : Node) (us : List ReplUpdate) (ra : List Nat) (ord : List (List Nat)) :
    s.step (.replUpdates us) ra ord =
      if (s.begin ra ord).role = .leader then
        if (replUpdLoop (s.begin ra ord) {} us).2.stop then settle 6 (replUpdLoop (s.begin ra ord) {} us).1 .leader
        else updFin (replUpdLoop (s.begin ra ord) {} us).2
          (updCompact (replUpdLoop (s.begin ra ord) {} us).2 (updPre (s.begin ra ord) us))
      else s.begin ra ord := by
  unfold Node.step
  dsimp only
  unfold Node.handle
  dsimp only
  by_cases hl : (s.begin ra ord).role = .leader
  · rw [if_pos hl, if_pos hl, checkReplUpdates_eq, hl]
    split
    · rfl
    · rfl
  · rw [if_neg hl, if_neg hl, settle_succ, if_pos rfl]

/-- the result of the step with a batch of updates when the compaction is left out -/
def stepNC (s : Node) (us : List ReplUpdate) (ra : List Nat) (ord : List (List Nat)) : Node :=
  if (s.begin ra ord).role = .leader then
    if (replUpdLoop (s.begin ra ord) {} us).2.stop then settle 6 (replUpdLoop (s.begin ra ord) {} us).1 .leader
    else updFin (replUpdLoop (s.begin ra ord) {} us).2 (updPre (s.begin ra ord) us)
  else s.begin ra ord

/-- the step is the step without compaction when the batch holds no compaction report -/
theorem stepNC_noRm (s : Node) (us : List ReplUpdate) (ra : List Nat) (ord : List (List Nat)) (h : NoRm us) :
    s.step (.replUpdates us) ra ord = stepNC s us ra ord := by
  rw [step_rm_eq]
  unfold stepNC
  rw [updCompact_noRm _ _ (replUpdLoop_flag us h _ {})]

/-! #### the role never becomes candidate -/

theorem notCand_replUpdLoop (us : List ReplUpdate) : ∀ (s : Node) (f : UpdFlags), s.role ≠ .candidate →
    (replUpdLoop s f us).1.role ≠ .candidate := by
  induction us with
  | nil => intro s f h; exact h
  | cons u us ih =>
    intro s f h
    unfold replUpdLoop
    split
    · exact ih s f h
    · split
      · exact ih s f h
      · split
        · dsimp only
          apply ih
          split
          · exact (LC.notCandidate_closed.block _).2.2.2.2.2.1 _ _ _ _ (LC.notCandidate_closed.setRepl_inv _ _ h)
          · exact LC.notCandidate_closed.setRepl_inv _ _ h
        · exact ih _ _ (LC.notCandidate_closed.setRepl_inv _ _ h)
        · exact ih _ _ (LC.notCandidate_closed.setRepl_inv _ _ h)
        · show (Node.setTerm _ _).role ≠ _
          rw [LC.role_setTerm]
          exact fun x => by cases x

theorem role_checkQuorum (s : Node) : s.checkQuorum.role = s.role ∨ s.checkQuorum.role = .follower := by
  unfold Node.checkQuorum
  dsimp only
  repeat' split
  all_goals first | exact Or.inl rfl | exact Or.inr rfl | exact Or.inl (LC.role_panic _ _)

theorem notCand_updPre (s : Node) (us : List ReplUpdate) (h : s.role ≠ .candidate) :
    (updPre s us).role ≠ .candidate := by
  unfold updPre
  dsimp only
  have h1 := notCand_replUpdLoop us s {} h
  have h2 : (if (replUpdLoop s {} us).2.matchU = true then onMajorityCommit (fuelFor 0) (replUpdLoop s {} us).1
      else (replUpdLoop s {} us).1).role ≠ .candidate := by
    split
    · exact (LC.notCandidate_closed.block _).2.2.2.2.2.2.2 _ h1
    · exact h1
  split
  · rcases role_checkQuorum (if (replUpdLoop s {} us).2.matchU = true then onMajorityCommit (fuelFor 0) (replUpdLoop s {} us).1
      else (replUpdLoop s {} us).1) with e | e
    · rw [e]; exact h2
    · rw [e]; exact fun x => by cases x
  · exact h2

/-! #### the real node -/

/-- the step compacted the log (`checkLogCompact` ran `compactLog`) -/
structure Compacted (s : Node) (us : List ReplUpdate) (ra : List Nat) (ord : List (List Nat)) : Prop where
  leader : (s.begin ra ord).role = .leader
  go : (replUpdLoop (s.begin ra ord) {} us).2.stop = false
  gt : (updPre (s.begin ra ord) us).log.prev < (updPre (s.begin ra ord) us).ldr.removeLTE
  all : ∀ r ∈ (updPre (s.begin ra ord) us).ldr.repls, (updPre (s.begin ra ord) us).ldr.removeLTE ≤ r.removeLTE
  step : s.step (.replUpdates us) ra ord =
    relog (stepNC s us ra ord)
      ((updPre (s.begin ra ord) us).log.removeLTE (updPre (s.begin ra ord) us).ldr.removeLTE)
      ((updPre (s.begin ra ord) us).trace ++ [("compactLog",
        ((updPre (s.begin ra ord) us).compactLog (updPre (s.begin ra ord) us).ldr.removeLTE).durable)])
  log : (stepNC s us ra ord).log = (updPre (s.begin ra ord) us).log
  trace : (stepNC s us ra ord).trace = (updPre (s.begin ra ord) us).trace

/-- **the step of the real node**: the step without the compaction, or that state with the compacted log and one more
crash point -/
theorem step_rm_real (s : Node) (us : List ReplUpdate) (ra : List Nat) (ord : List (List Nat)) :
    s.step (.replUpdates us) ra ord = stepNC s us ra ord ∨ Compacted s us ra ord := by
  by_cases hl : (s.begin ra ord).role = .leader
  · cases hst : (replUpdLoop (s.begin ra ord) {} us).2.stop with
    | true =>
      left
      rw [step_rm_eq]
      unfold stepNC
      rw [if_pos hl, if_pos hl, hst]
      rfl
    | false =>
      have hnc : (updPre (s.begin ra ord) us).role ≠ .candidate :=
        notCand_updPre _ us (by rw [hl]; exact fun x => by cases x)
      have hN : stepNC s us ra ord = updFin (replUpdLoop (s.begin ra ord) {} us).2 (updPre (s.begin ra ord) us) := by
        unfold stepNC
        rw [if_pos hl, hst]
        rfl
      have hS : s.step (.replUpdates us) ra ord = updFin (replUpdLoop (s.begin ra ord) {} us).2
          (updCompact (replUpdLoop (s.begin ra ord) {} us).2 (updPre (s.begin ra ord) us)) := by
        rw [step_rm_eq, if_pos hl, hst]
        rfl
      by_cases hg : (replUpdLoop (s.begin ra ord) {} us).2.removeLTEU = true ∧
          (updPre (s.begin ra ord) us).ldr.removeLTE > (updPre (s.begin ra ord) us).log.prev
      · rcases C09.checkLogCompact_effect (updPre (s.begin ra ord) us) with ⟨_, e⟩ | ⟨hall, e⟩
        · left
          rw [hS, hN]
          unfold updCompact
          rw [if_pos hg, e]
        · right
          have hlt := updFin_log (replUpdLoop (s.begin ra ord) {} us).2 _ hnc
          refine ⟨hl, hst, hg.2, hall, ?_, by rw [hN]; exact hlt.1, by rw [hN]; exact hlt.2⟩
          rw [hS, hN]
          unfold updCompact
          rw [if_pos hg, e, compactLog_relog, updFin_relog _ _ _ _ hnc]
          rfl
      · left
        rw [hS, hN]
        unfold updCompact
        rw [if_neg hg]
  · left
    rw [step_rm_eq]
    unfold stepNC
    rw [if_neg hl, if_neg hl]

/-! #### a recorded failure persists -/

theorem P_updFin (π : String) (f : UpdFlags) (x : Node) : updFin f (P π x) = P π (updFin f x) := by
  unfold updFin updTail
  pcomm

theorem updFin_sticky (f : UpdFlags) (x : Node) (h : (updFin f x).panicked = none) : x.panicked = none :=
  npk (k := fun x => updFin f x) (fun π x => P_updFin π f x) h

theorem updPre_sticky (s : Node) (us : List ReplUpdate) (h : (updPre s us).panicked = none) :
    (replUpdLoop s {} us).1.panicked = none ∧
    (if (replUpdLoop s {} us).2.matchU = true then onMajorityCommit (fuelFor 0) (replUpdLoop s {} us).1
      else (replUpdLoop s {} us).1).panicked = none := by
  unfold updPre at h
  dsimp only at h
  have h2 : (if (replUpdLoop s {} us).2.matchU = true then onMajorityCommit (fuelFor 0) (replUpdLoop s {} us).1
      else (replUpdLoop s {} us).1).panicked = none := by
    split at h
    · exact npk (k := fun x => x.checkQuorum) (fun π x => P_checkQuorum x) h
    · exact h
  refine ⟨?_, h2⟩
  split at h2
  · exact npk (k := fun x => onMajorityCommit (fuelFor 0) x) (fun π x => P_onMajorityCommit _ x) h2
  · exact h2

/-- the step without the compaction records a failure iff the step does -/
theorem stepNC_panicked (s : Node) (us : List ReplUpdate) (ra : List Nat) (ord : List (List Nat)) :
    (stepNC s us ra ord).panicked = (s.step (.replUpdates us) ra ord).panicked := by
  rcases step_rm_real s us ra ord with e | hc
  · rw [e]
  · rw [hc.step]; rfl

/-! #### the un-compacted node -/

theorem U_updPre (s : Node) (us : List ReplUpdate) (hc : LC.Cache s) (hp : (updPre s us).panicked = none) :
    updPre (U β s) (rmF us) = U β (updPre s us) := by
  obtain ⟨h1, h2⟩ := updPre_sticky s us hp
  have hl := U_replUpdLoop_rm (β := β) us s {} {} hc ⟨rfl, rfl, rfl⟩ h1
  unfold updPre
  rw [hl]
  dsimp only
  have e1 : (if (replUpdLoop s {} us).2.matchU = true then onMajorityCommit (fuelFor 0) (U β (replUpdLoop s {} us).1)
      else U β (replUpdLoop s {} us).1) =
      U β (if (replUpdLoop s {} us).2.matchU = true then onMajorityCommit (fuelFor 0) (replUpdLoop s {} us).1
      else (replUpdLoop s {} us).1) := by
    split
    · rename_i hm
      rw [if_pos hm] at h2
      exact U_onMajorityCommit _ _ h2
    · rfl
  rw [e1]
  split
  · exact U_checkQuorum _
  · rfl

theorem U_updFin (f g : UpdFlags) (a : Node) (h1 : g.matchU = f.matchU) (h2 : g.noContactU = f.noContactU)
    (hp : (updFin f a).panicked = none) : updFin g (U β a) = U β (updFin f a) := by
  unfold updFin at hp ⊢
  have e : updTail g (U β a) = U β (updTail f a) := by
    unfold updTail
    rw [h1, h2]
    show (if (f.matchU = true ∨ f.noContactU = true) ∧ a.ldr.transfer.active = true ∧
      (!a.ldr.transfer.targetChosen) = true then _ else _) = _
    split
    · exact U_tryTransfer a
    · rfl
  rw [e]
  exact U_settle 6 _ _ hp

/-- **the step of the un-compacted node with the batch without its compaction reports** is the un-compaction of the
step without the compaction -/
theorem step_rm_U (s : Node) (us : List ReplUpdate) (ra : List Nat) (ord : List (List Nat))
    (hc : (s.begin ra ord).role = .leader → LC.Cache (s.begin ra ord))
    (hp : (s.step (.replUpdates us) ra ord).panicked = none) :
    (U β s).step (.replUpdates (rmF us)) ra ord = U β (stepNC s us ra ord) := by
  rw [← stepNC_panicked] at hp
  rw [stepNC_noRm (U β s) (rmF us) ra ord (rmF_noRm us)]
  unfold stepNC at hp ⊢
  show (if (s.begin ra ord).role = .leader then _ else _) = _
  by_cases hl : (s.begin ra ord).role = .leader
  · rw [if_pos hl] at hp ⊢
    rw [if_pos hl]
    have hC := hc hl
    rw [show (U β s).begin ra ord = U β (s.begin ra ord) from rfl]
    cases hst : (replUpdLoop (s.begin ra ord) {} us).2.stop with
    | true =>
      rw [hst] at hp
      simp only [if_true] at hp
      have h1 : (replUpdLoop (s.begin ra ord) {} us).1.panicked = none := settle_sticky 6 _ _ hp
      have hloop := U_replUpdLoop_rm (β := β) us (s.begin ra ord) {} {} hC ⟨rfl, rfl, rfl⟩ h1
      rw [hloop]
      dsimp only
      rw [hst]
      simp only [if_true]
      exact U_settle 6 _ _ hp
    | false =>
      rw [hst] at hp
      simp only [Bool.false_eq_true, if_false] at hp
      have h0 : (updPre (s.begin ra ord) us).panicked = none := updFin_sticky _ _ hp
      have h1 := (updPre_sticky _ us h0).1
      have hloop := U_replUpdLoop_rm (β := β) us (s.begin ra ord) {} {} hC ⟨rfl, rfl, rfl⟩ h1
      rw [hloop]
      dsimp only
      rw [hst]
      simp only [Bool.false_eq_true, if_false]
      rw [U_updPre _ us hC h0]
      exact U_updFin _ _ _ rfl rfl hp
  · rw [if_neg hl] at hp ⊢
    rw [if_neg hl]
    rfl

end SnapDelay
end Raft
