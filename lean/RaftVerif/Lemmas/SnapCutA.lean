/-
The stale reset, seen by the invariant of the cluster with local snapshots (stage 1, `SnapInv.SInv`).

When a process dies and the log on its disk ENDS BELOW the newest snapshot file on that disk, `openStorage` resets the log
to the snapshot (`Node.staleLog`).  The crash analysis of Lemmas/SnapInv.lean (`sinv_crash`) does not cover this: it
restarts the view from the un-reset disk.  `sinv_crash_stale` closes that case:

* stage A — the crash of the view WITHOUT snapshot data (`C02Sys.CC`): the node restarted from the erased disk holds the
  log `D` on disk, the durable `(term, vote)`, and the ledgers (`created`, `camps`) are those of the crash;
* stage B — the node is REPLACED (`SnapInst.cinv_replace`) by the follower `N` whose log is the first `F` entries of the
  log before the crash (`F` = index of the newest file on disk `≤ commitIndex`): a committed root path; `D` is a prefix
  of it (`crash_keep`: up to the commit index the disk holds what the log held), so nothing the node acknowledged as
  stored is lost.
-/
import RaftVerif.Lemmas.SnapInstA
import RaftVerif.Props.C10

namespace Raft
namespace SnapCut
open Node Election LogRel Replication CommitRel Commit C02Sys C03Sys SnapRel SnapSim Snap SnapInv SnapInst

/-- **the node `N` is what a restart makes of the disk `d` of node `s` when the log on `d` is reset to the newest snapshot
file on `d`** (virtual form: the log is the prefix of `s`'s log the file stands for; `log.prev = 0`) -/
structure StaleN (s : Node) (d : Durable) (N : Node) : Prop where
  nid : N.nid = d.nid
  term : N.term = d.term
  vote : N.votedFor = d.vote
  vwf : C05.VoteWF N
  role : N.role = .follower
  entries : N.log.entries = s.log.entries.take (headOf d.snaps).index
  prev : N.log.prev = 0
  flushed : N.log.flushed = (headOf d.snaps).index
  lwf : C06.LogWF N.log
  lastI : N.lastLogIndex = (headOf d.snaps).index
  lastT : N.lastLogTerm = lastTerm N.log.entries
  snapI : N.snapIndex = (headOf d.snaps).index
  snaps : N.snapsDisk = d.snaps
  commit : N.commitIndex = (headOf d.snaps).index
  fsm : N.fsm = { index := (headOf d.snaps).index, term := (headOf d.snaps).term, applied := (headOf d.snaps).data,
                  config := (headOf d.snaps).config }
  retain : 1 ≤ N.retain

theorem holds_of_prefix {D P : List Entry} (h : D <+: P) {k τ : Nat} (hh : Holds D k τ) : Holds P k τ := by
  obtain ⟨h1, h2, h3⟩ := hh
  have hl := h.length_le
  refine ⟨h1, by omega, ?_⟩
  rw [← h3]
  unfold termAt
  rw [if_neg (by omega), if_neg (by omega)]
  obtain ⟨t, rfl⟩ := h
  rw [List.getElem?_append_left (by omega)]

theorem termAt_take (es : List Entry) (F k : Nat) (hk : k ≤ F) : termAt (es.take F) k = termAt es k := by
  unfold termAt
  by_cases h0 : k = 0
  · rw [if_pos h0, if_pos h0]
  · rw [if_neg h0, if_neg h0, List.getElem?_take, if_pos (by omega)]

theorem headOf_mem (l : List SnapFile) (h : 0 < (headOf l).index) : headOf l ∈ l := by
  unfold headOf at h ⊢
  cases l with
  | nil => simp at h
  | cons a as => simp

/-- the state after the crash, seen without snapshot data, is the crash of the erased view followed by the replacement -/
theorem eview_crashC_repl (x : Commit.Sys) (i : Nat) (op op' : Op) (N n0 : Node)
    (hcr : newCreated i (x.node i).log.entries n0.log.entries op' = newCreated i (x.node i).log.entries N.log.entries op)
    (ht : n0.term = N.term) (hv : n0.votedFor = N.votedFor) :
    eview (crashC x i op N) = repl (crashC (eview x) i op' n0) i (E σ0 N) := by
  have hnodes : (fun j => E σ0 (setNode x.rp.el.node i N j)) =
      setNode (setNode (fun j => E σ0 (x.rp.el.node j)) i n0) i (E σ0 N) := by
    funext j
    unfold setNode
    split <;> rfl
  have hcr' : newCreated i (E σ0 (x.rp.el.node i)).log.entries n0.log.entries op' =
      newCreated i (x.rp.el.node i).log.entries N.log.entries op := hcr
  unfold eview repl withNodes crashC crashRp campOf
  simp only [Commit.Sys.node, hnodes, hcr', ht, hv]
  rfl

section
variable {V : List Nat}

/-- the crash of the view without snapshot data that corresponds to a crash of the cluster with snapshots -/
theorem crash_view {x : Snap.Sys} (hI : SInv V x) {i : Nat} {op : Op} (ra : List Nat) (ord : List (List Nat))
    {src : Nat} (k : Nat) (en : Snap.Enabled x.cs i op src)
    (hlog : op = .snapTaken → ((x.node i).step op ra ord).log = (x.node i).log) :
    ∃ op' k', Commit.Enabled (eview x.cs) i op' src ∧
      C05.crashDisk (E σ0 (x.node i)) op' ra ord k' = eraseD σ0 (C05.crashDisk (x.node i) op ra ord k) ∧
      ∀ a b, newCreated i a b op' = newCreated i a b op := by
  by_cases hsnap : op = .snapRun ∨ op = .snapTaken
  · refine ⟨.disconnected 0, 0, ?_, ?_, ?_⟩
    · refine ⟨⟨en.id, fun q hq => ?_, fun hc => ?_, trivial, fun q hq => ?_⟩,
        ⟨trivial, fun b hb => ?_, fun t c hc => ?_⟩, fun q hq => ?_, fun q hq => ?_, fun us hus => ?_⟩
      · cases hq
      · obtain ⟨_, _, _, he⟩ := hc; cases he
      · cases hq
      · cases hb
      · cases hc
      · cases hq
      · cases hq
      · cases hus
    · have := (snap_crashDisk (x.node i) op ra ord k
        (hsnap.imp id (fun h => ⟨h, hlog h⟩))).1
      rw [this]; rfl
    · intro a b
      rcases hsnap with rfl | rfl <;> rfl
  · have h1 : op ≠ .snapRun := fun h => hsnap (Or.inl h)
    have h2 : op ≠ .snapTaken := fun h => hsnap (Or.inr h)
    exact ⟨eraseOp σ0 (x.node i) op, k, enabled_eview en h1 h2,
      crashDisk_E _ op _ ra ord (step_comm hI en h1 ra ord) k, fun a b => newCreated_E i op _ a b⟩

/-- **whatever the disk holds when the process dies** (cluster with snapshots, stage 1): up to the commit index, and as
far as the log on disk reaches, it holds the entries the log held before the step -/
theorem crash_keep_snap (hV : V.Nodup) {x : Snap.Sys} (hI : SInv V x) (hS : SideS V x) {i : Nat} {op : Op}
    (ra : List Nat) (ord : List (List Nat)) {src : Nat} (k : Nat) (en : Snap.Enabled x.cs i op src)
    (hlog : op = .snapTaken → ((x.node i).step op ra ord).log = (x.node i).log) (K : Nat)
    (hK : K ≤ (x.node i).commitIndex) (hd : K ≤ (C05.crashDisk (x.node i) op ra ord k).log.entries.length) :
    (C05.crashDisk (x.node i) op ra ord k).log.entries.take K = (x.node i).log.entries.take K := by
  obtain ⟨op', k', en', hdisk, _⟩ := crash_view hI ra ord k en hlog
  have sc : SC V (eview x.cs) i op' ra ord src := ⟨hV, hI.cinv, sideV_eview hS.sideV, en'⟩
  have hdisk' : C05.crashDisk ((eview x.cs).node i) op' ra ord k' = eraseD σ0 (C05.crashDisk (x.node i) op ra ord k) :=
    hdisk
  have := crash_keep sc k' K hK (by rw [hdisk']; exact hd)
  rw [hdisk'] at this
  exact this

/-- **a crash at any storage point of any enabled operation after which the log on disk ends below the newest snapshot
file on disk, and the restart that resets the log to that file** (stage 1: nothing is compacted, the restarted node is
given in virtual form, `StaleN`) -/
theorem sinv_crash_stale (hV : V.Nodup) {x : Snap.Sys} (hI : SInv V x) (hS : SideS V x) {i : Nat}
    {op : Op} {ra : List Nat} {ord : List (List Nat)} {src k retain : Nat} {sor : Bool} {N : Node}
    (en : Snap.Enabled x.cs i op src)
    (hlog : op = .snapTaken → ((x.node i).step op ra ord).log = (x.node i).log)
    (hcid : (C05.crashDisk (x.node i) op ra ord k).cid ≠ 0) (hnid : (C05.crashDisk (x.node i) op ra ord k).nid ≠ 0)
    (hdp : (C05.crashDisk (x.node i) op ra ord k).log.prev = 0)
    (hshort : (C05.crashDisk (x.node i) op ra ord k).log.entries.length <
      (headOf (C05.crashDisk (x.node i) op ra ord k).snaps).index)
    (hN : StaleN (x.node i) (C05.crashDisk (x.node i) op ra ord k) N)
    (hdec : ∀ e ∈ N.log.entries, e.typ = etConfig → e.cfg.isSome = true) :
    SInv V { cs := crashC x.cs i op N
             snaps := newSnaps i (x.node i).snapsDisk N.snapsDisk ++ x.snaps } := by
  have fbi : FB (E σ0 (x.node i)) := hI.fsm i
  have hf : FsmOK 0 (x.node i) := ⟨fbi.fsm.le, fbi.fsm.len, fbi.fsm.applied, fbi.fsm.mono⟩
  have so := hI.snap i
  obtain ⟨hfiles, hsn⟩ := crash_snaps (x.node i) op ra ord k en.ok2.1 so hf
  -- the crash of the view
  have hview : ∃ op' k', Commit.Enabled (eview x.cs) i op' src ∧
      C05.crashDisk (E σ0 (x.node i)) op' ra ord k' = eraseD σ0 (C05.crashDisk (x.node i) op ra ord k) ∧
      ∀ a b, newCreated i a b op' = newCreated i a b op := by
    by_cases hsnap : op = .snapRun ∨ op = .snapTaken
    · refine ⟨.disconnected 0, 0, ?_, ?_, ?_⟩
      · refine ⟨⟨en.id, fun q hq => ?_, fun hc => ?_, trivial, fun q hq => ?_⟩,
          ⟨trivial, fun b hb => ?_, fun t c hc => ?_⟩, fun q hq => ?_, fun q hq => ?_, fun us hus => ?_⟩
        · cases hq
        · obtain ⟨_, _, _, he⟩ := hc; cases he
        · cases hq
        · cases hb
        · cases hc
        · cases hq
        · cases hq
        · cases hus
      · have := (snap_crashDisk (x.node i) op ra ord k
          (hsnap.imp id (fun h => ⟨h, hlog h⟩))).1
        rw [this]; rfl
      · intro a b
        rcases hsnap with rfl | rfl <;> rfl
    · have h1 : op ≠ .snapRun := fun h => hsnap (Or.inl h)
      have h2 : op ≠ .snapTaken := fun h => hsnap (Or.inr h)
      exact ⟨eraseOp σ0 (x.node i) op, k, enabled_eview en h1 h2,
        crashDisk_E _ op _ ra ord (step_comm hI en h1 ra ord) k, fun a b => newCreated_E i op _ a b⟩
  obtain ⟨op', k', en', hdisk, hnc⟩ := hview
  generalize hd : C05.crashDisk (x.node i) op ra ord k = d at hfiles hsn hdisk hcid hnid hdp hshort hN
  have sc : SC V (eview x.cs) i op' ra ord src := ⟨hV, hI.cinv, sideV_eview hS.sideV, en'⟩
  have hF : 0 < (headOf d.snaps).index := by omega
  have hFm : headOf d.snaps ∈ d.snaps := headOf_mem _ hF
  have hKci : (headOf d.snaps).index ≤ (x.node i).commitIndex := hfiles.head_le
  have hFlen : (headOf d.snaps).index ≤ (x.node i).log.entries.length :=
    (hI.cinv.cmt.cc i _ hF hKci).1
  -- the log on disk is a prefix of the committed prefix the newest file stands for
  have hDtake : d.log.entries = (x.node i).log.entries.take d.log.entries.length := by
    have hdisk' : C05.crashDisk ((eview x.cs).node i) op' ra ord k' = eraseD σ0 d := hdisk
    have := crash_keep sc k' d.log.entries.length (by show _ ≤ (x.node i).commitIndex; omega)
      (by rw [hdisk']; exact Nat.le_refl _)
    rw [hdisk'] at this
    have e : (eraseD σ0 d).log.entries = d.log.entries := rfl
    rw [e, List.take_length] at this
    exact this
  have hDP : d.log.entries <+: N.log.entries := by
    rw [hN.entries]
    rw [hDtake]
    exact List.take_prefix_take_left (Nat.le_of_lt hshort)
  have hPlen : N.log.entries.length = (headOf d.snaps).index := by
    rw [hN.entries, List.length_take]; omega
  -- the restart without the snapshot files
  have hnst : staleLog (eraseD σ0 d) = false := notstale_nosnap _ rfl
  have hlo : C10.logOf (eraseD σ0 d) = d.log := by
    unfold C10.logOf; rw [hnst]; rfl
  obtain ⟨hfail, _, _⟩ := C10.restart_configs (eraseD σ0 d) retain sor
    (by show d.log.prev ≤ _; rw [hdp]; exact Nat.zero_le _)
    (by
      rw [hlo]
      intro e he ht
      have hm : e ∈ d.log.entries := by
        unfold C10.window at he
        exact List.mem_of_mem_take (List.mem_of_mem_drop (List.mem_reverse.mp he))
      have := hdec e (hDP.subset hm) ht
      unfold Entry.config?
      rw [if_pos ht]
      cases hc : e.cfg with
      | none => rw [hc] at this; cases this
      | some c => rfl)
  obtain ⟨n0, hn0, _, _⟩ := C10.restart_ok_contiguous (eraseD σ0 d) retain sor hcid hnid hfail
  have cc : CC V (eview x.cs) i op' ra ord src k' retain sor n0 := ⟨sc, by
    show Node.restart (C05.crashDisk (E σ0 (x.node i)) op' ra ord k') retain sor = some n0
    rw [hdisk]; exact hn0⟩
  have cz := cc.cinv
  obtain ⟨f1, f2, f3, f4, f5, f6, f7, f8, f9⟩ := cc.facts
  have hdisk' : C05.crashDisk ((eview x.cs).node i) op' ra ord k' = eraseD σ0 d := hdisk
  rw [hdisk'] at f1 f2 f9
  have f1' : n0.term = d.term := f1
  have f2' : n0.votedFor = d.vote := f2
  have f9' : n0.log.entries = d.log.entries := f9
  have fz : FsmInv (crashC (eview x.cs) i op' n0) := by
    intro j
    by_cases hj : j = i
    · subst hj
      rw [cc.node_i]
      exact ⟨⟨by rw [f6]; exact Nat.zero_le _, by rw [f6]; exact Nat.zero_le _, by rw [f6]; rfl, Nat.zero_le _⟩,
        fun hl => by rw [f4] at hl; cases hl⟩
    · rw [cc.node_j hj]; exact hI.fsm j
  have hnid0 : n0.nid = d.nid := (Election.restart_role_nid _ _ _ _ hn0).2
  have hterm0 : ((eview x.cs).node i).term ≤ n0.term := by
    have := cc.ext.term i
    rw [cc.node_i] at this
    exact this
  have hdata : (headOf d.snaps).data = ups (N.log.entries.take (headOf d.snaps).index) := by
    rw [(hfiles.files _ hFm).2.2, hN.entries, List.take_take, Nat.min_self]
  -- stage B: the replacement
  have hrep : ReplOK (crashC (eview x.cs) i op' n0) i (E σ0 N) := by
    refine ⟨?_, ?_, hN.vwf, hN.role, ?_, hN.lwf, ?_, ?_, ?_, ?_, ?_, ?_⟩
    · rw [cc.node_i, hnid0]; exact hN.nid
    · left
      rw [cc.node_i, f1', f2']
      exact ⟨hN.term, hN.vote⟩
    · refine ⟨rfl, rfl, hN.prev, ?_, ?_, hN.lastT⟩
      · show ∀ k (hk : k < N.log.entries.length), N.log.entries[k].index = k + 1
        intro k hk
        have hc := (nwf hI.cinv i).contig
        have hk' : k < (x.node i).log.entries.length := by rw [hPlen] at hk; omega
        have := hc k hk'
        have e : N.log.entries[k] = (x.node i).log.entries[k] := by
          have h1 : N.log.entries[k]? = (x.node i).log.entries[k]? := by
            rw [hN.entries, List.getElem?_take, if_pos (by rw [hPlen] at hk; exact hk)]
          rw [List.getElem?_eq_getElem hk, List.getElem?_eq_getElem hk'] at h1
          exact Option.some.inj h1
        rw [e]; exact this
      · show N.lastLogIndex = N.log.entries.length
        rw [hN.lastI, hPlen]
    · intro k h1 h2
      have h1' : N.log.flushed < k := h1
      have h2' : k ≤ N.log.entries.length := h2
      rw [hN.flushed] at h1'; rw [hPlen] at h2'; omega
    · show Path _ N.log.entries
      rw [hN.entries]
      exact ((log_path hI.cinv i).prefix (List.take_prefix _ _)).mono cc.ext.T
    · intro e he
      have he' : e ∈ N.log.entries := he
      rw [hN.entries] at he'
      have := hI.cinv.node.termLe i e (List.mem_of_mem_take he')
      show e.term ≤ N.term
      rw [hN.term, ← f1']
      exact Nat.le_trans this hterm0
    · intro k h1 h2
      have h2' : k ≤ N.commitIndex := h2
      rw [hN.commit] at h2'
      obtain ⟨c1, c2⟩ := hI.cinv.cmt.cc i k h1 (Nat.le_trans h2' hKci)
      show k ≤ N.log.entries.length ∧ Cmt _ (k, termAt N.log.entries k) N.term
      refine ⟨by rw [hPlen]; exact h2', ?_⟩
      rw [hN.entries, termAt_take _ _ _ h2', hN.term, ← f1']
      exact cc.ext.cmt hterm0 c2
    · refine ⟨?_, ?_, ?_, Nat.zero_le _⟩
      · show N.fsm.index ≤ N.commitIndex
        rw [hN.fsm, hN.commit]; exact Nat.le_refl _
      · show N.fsm.index ≤ N.log.entries.length
        rw [hN.fsm, hPlen]; exact Nat.le_refl _
      · show N.fsm.applied = ups (N.log.entries.take N.fsm.index)
        rw [hN.fsm]; exact hdata
    · intro b hb _
      left
      rw [cc.node_i] at hb
      obtain ⟨b1, b2⟩ := hb
      rw [f9'] at b2
      have hh := holds_of_prefix hDP b2
      refine ⟨?_, hh⟩
      show b.1 ≤ N.log.flushed
      rw [hN.flushed, ← hPlen]; exact hh.2.1
  obtain ⟨c1, c2⟩ := cinv_replace cz fz hrep
  -- the ledgers of the two stages are those of the crash
  have hviewy : eview (crashC x.cs i op N) = repl (crashC (eview x.cs) i op' n0) i (E σ0 N) := by
    refine eview_crashC_repl x.cs i op op' N n0 ?_ (by rw [f1', hN.term]) (by rw [f2', hN.vote])
    rw [hnc]
    by_cases hap : ∃ q, op = .append q
    · obtain ⟨q, rfl⟩ := hap; rfl
    · have hna : ∀ q, op ≠ .append q := fun q h => hap ⟨q, h⟩
      rw [C04Sys.newCreated_other _ _ _ _ hna, C04Sys.newCreated_other _ _ _ _ hna,
        List.drop_eq_nil_of_le (by rw [f9']; show d.log.entries.length ≤ (x.node i).log.entries.length; omega),
        List.drop_eq_nil_of_le (by rw [hPlen]; exact hFlen)]
  have hagree : ∀ K, K ≤ (headOf d.snaps).index → N.log.entries.take K = (x.node i).log.entries.take K := by
    intro K hK
    rw [hN.entries, List.take_take, Nat.min_eq_left hK]
  refine ⟨by rw [hviewy]; exact c1, by rw [hviewy]; exact c2, fun j => ?_, fun p hp' => ?_⟩
  · show SnapOK ((crashC x.cs i op N).node j)
    by_cases hj : j = i
    · subst hj
      rw [crashC_node_i]
      refine ⟨hN.retain, ?_, by rw [hN.snapI, hN.snaps], by rw [hN.snapI, hN.fsm]; exact Nat.le_refl _⟩
      rw [hN.snaps, hN.commit]
      refine ⟨fun g hg => ?_, hfiles.sorted⟩
      obtain ⟨a, _, c⟩ := hfiles.files g hg
      have hgl := hfiles.le_head g hg
      exact ⟨a, hgl, by rw [c, hagree g.index hgl]⟩
    · rw [crashC_node_j _ _ _ _ hj]; exact hI.snap j
  · show 1 ≤ p.2.index ∧ p.2.index ≤ ((crashC x.cs i op N).node p.1).snapIndex ∧
      p.2.data = ups (((crashC x.cs i op N).node p.1).log.entries.take p.2.index)
    rcases List.mem_append.mp hp' with hnw | ho
    · unfold newSnaps at hnw
      obtain ⟨g, hg, rfl⟩ := List.mem_map.mp hnw
      obtain ⟨hg1, _⟩ := List.mem_filter.mp hg
      rw [crashC_node_i]
      rw [hN.snaps] at hg1
      obtain ⟨a, _, c⟩ := hfiles.files g hg1
      have hgl := hfiles.le_head g hg1
      exact ⟨a, by rw [hN.snapI]; exact hgl, by rw [c, hagree g.index hgl]⟩
    · obtain ⟨a, b, c⟩ := hI.ledger p ho
      by_cases hj : p.1 = i
      · rw [hj, crashC_node_i]
        rw [hj] at b c
        have hle : p.2.index ≤ (headOf d.snaps).index := Nat.le_trans b hsn
        exact ⟨a, by rw [hN.snapI]; exact hle, by rw [c, hagree p.2.index hle]⟩
      · rw [crashC_node_j _ _ _ _ hj]; exact ⟨a, b, c⟩

end

end SnapCut
end Raft
