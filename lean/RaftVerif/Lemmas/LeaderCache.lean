/-
Helper lemmas for Props/C06Cache: the leader's cached view of the latest configuration
(`ldr.numVoters`, `ldr.node`, one replication per other member with the member's current `CNode`).

* `CView` / `view`: the part of the state the cache property talks about; `CacheV` the property on it.
* `view_*`: the primitives and handlers that leave the view alone.
* `insertRepl` on id-sorted lists, the "synchronise replications with a configuration" fold.
* `Cache.block`: the mutually recursive leader block preserves `Cache` (by induction on the fuel,
  following `Closed.block`; `Closed` itself does not fit: its `ldr`/`changeConfigR` fields are unconditional).
-/
import RaftVerif.Lemmas.LocalA

namespace Raft
namespace Node
namespace LC

/-! ### replication lists sorted by id -/

/-- what the cache property reads of a replication: its id and the configuration node it caches -/
def key (r : Repl) : Nat × CNode := (r.id, r.node)

/-- strictly increasing ids (Go: `l.repls` is a map keyed by id) -/
def Sorted (l : List Repl) : Prop := l.Pairwise (fun a b => a.id < b.id)

theorem mem_insertRepl_self (r : Repl) (l : List Repl) : r ∈ insertRepl r l := by
  induction l with
  | nil => simp [insertRepl]
  | cons m ms ih =>
    unfold insertRepl
    split
    · simp
    · split
      · simp
      · exact List.mem_cons_of_mem _ ih

/-- members of `insertRepl r l` for sorted `l`: `r`, or members of `l` with another id -/
theorem mem_insertRepl (r x : Repl) (l : List Repl) (hs : Sorted l) (hx : x ∈ insertRepl r l) :
    x = r ∨ (x ∈ l ∧ x.id ≠ r.id) := by
  induction l with
  | nil => simp [insertRepl] at hx; exact Or.inl hx
  | cons m ms ih =>
    have hms : Sorted ms := (List.pairwise_cons.mp hs).2
    have hlt : ∀ y ∈ ms, m.id < y.id := (List.pairwise_cons.mp hs).1
    unfold insertRepl at hx
    split at hx
    · rename_i h1
      rcases List.mem_cons.mp hx with e | hx'
      · exact Or.inl e
      · right
        refine ⟨hx', ?_⟩
        rcases List.mem_cons.mp hx' with e | hx''
        · rw [e]; omega
        · have := hlt x hx''; omega
    · split at hx
      · rename_i h1 h2
        rcases List.mem_cons.mp hx with e | hx'
        · exact Or.inl e
        · right
          have := hlt x hx'
          exact ⟨List.mem_cons_of_mem _ hx', by omega⟩
      · rename_i h1 h2
        rcases List.mem_cons.mp hx with e | hx'
        · right; rw [e]; exact ⟨List.mem_cons_self, fun h => h2 h.symm⟩
        · rcases ih hms hx' with e | ⟨h3, h4⟩
          · exact Or.inl e
          · exact Or.inr ⟨List.mem_cons_of_mem _ h3, h4⟩

/-- members of `l` with another id survive `insertRepl r` -/
theorem mem_insertRepl_of_mem (r x : Repl) (l : List Repl) (hx : x ∈ l) (hne : x.id ≠ r.id) :
    x ∈ insertRepl r l := by
  induction l with
  | nil => cases hx
  | cons m ms ih =>
    unfold insertRepl
    split
    · exact List.mem_cons_of_mem _ hx
    · split
      · rename_i h1 h2
        rcases List.mem_cons.mp hx with e | hx'
        · rw [e] at hne; exact absurd h2.symm hne
        · exact List.mem_cons_of_mem _ hx'
      · rcases List.mem_cons.mp hx with e | hx'
        · rw [e]; exact List.mem_cons_self
        · exact List.mem_cons_of_mem _ (ih hx')

theorem sorted_insertRepl (r : Repl) (l : List Repl) (hs : Sorted l) : Sorted (insertRepl r l) := by
  induction l with
  | nil => simp [insertRepl, Sorted]
  | cons m ms ih =>
    have hms : Sorted ms := (List.pairwise_cons.mp hs).2
    have hlt : ∀ y ∈ ms, m.id < y.id := (List.pairwise_cons.mp hs).1
    unfold insertRepl
    split
    · rename_i h1
      refine List.pairwise_cons.mpr ⟨?_, hs⟩
      intro y hy
      rcases List.mem_cons.mp hy with e | hy'
      · rw [e]; exact h1
      · have := hlt y hy'; omega
    · split
      · rename_i h1 h2
        refine List.pairwise_cons.mpr ⟨?_, hms⟩
        intro y hy
        have := hlt y hy; omega
      · rename_i h1 h2
        refine List.pairwise_cons.mpr ⟨?_, ih hms⟩
        intro y hy
        rcases mem_insertRepl r y ms hms hy with e | ⟨h3, _⟩
        · rw [e]; omega
        · exact hlt y h3

/-- replacing a replication by one with the same key does not change the keys -/
theorem map_key_insertRepl (r st : Repl) (l : List Repl) (hs : Sorted l) (hst : st ∈ l)
    (hk : key r = key st) : (insertRepl r l).map key = l.map key := by
  have hid : r.id = st.id := congrArg Prod.fst hk
  induction l with
  | nil => cases hst
  | cons m ms ih =>
    have hms : Sorted ms := (List.pairwise_cons.mp hs).2
    have hlt : ∀ y ∈ ms, m.id < y.id := (List.pairwise_cons.mp hs).1
    unfold insertRepl
    split
    · rename_i h1
      exfalso
      rcases List.mem_cons.mp hst with e | h'
      · rw [e] at hid; omega
      · have := hlt st h'; omega
    · split
      · rename_i h1 h2
        rcases List.mem_cons.mp hst with e | h'
        · rw [List.map_cons, List.map_cons, hk, e]
        · have := hlt st h'; omega
      · rename_i h1 h2
        rcases List.mem_cons.mp hst with e | h'
        · rw [e] at hid; exact absurd hid h2
        · rw [List.map_cons, List.map_cons, ih hms h']

theorem find_mem {l : List Repl} {id : Nat} {st : Repl} (h : l.find? (·.id == id) = some st) :
    st ∈ l ∧ st.id = id := by
  refine ⟨List.mem_of_find?_eq_some h, ?_⟩
  have := List.find?_some h
  simpa using this

/-! ### the view and the cache property -/

/-- the part of a node state the cache property reads -/
structure CView where
  nid : Nat
  latest : Config
  node : CNode
  numVoters : Nat
  repls : List (Nat × CNode)

def view (s : Node) : CView :=
  { nid := s.nid, latest := s.configs.latest, node := s.ldr.node, numVoters := s.ldr.numVoters,
    repls := s.ldr.repls.map key }

/-- the cache property, on the view -/
structure CacheV (v : CView) : Prop where
  numVoters : v.numVoters = v.latest.numVoters
  node : v.node = v.latest.get v.nid
  sorted : v.repls.Pairwise (fun a b => a.1 < b.1)
  member : ∀ k ∈ v.repls, k.1 ≠ v.nid ∧ k.2 ∈ v.latest.nodes ∧ k.2.id = k.1
  cover : ∀ n ∈ v.latest.nodes, n.id ≠ v.nid → ∃ k ∈ v.repls, k.1 = n.id

/-- **the leader's caches describe the latest configuration** (unconditional form; the invariant is
`role = leader → Cache`). -/
def Cache (s : Node) : Prop := CacheV (view s)

theorem Cache.congr {s s' : Node} (h : Cache s) (e : view s' = view s) : Cache s' := by
  unfold Cache; rw [e]; exact h

theorem sorted_iff (l : List Repl) : (l.map key).Pairwise (fun a b => a.1 < b.1) ↔ Sorted l := by
  unfold Sorted
  rw [List.pairwise_map]
  exact Iff.rfl

/-- readable form of `Cache` -/
theorem cache_iff (s : Node) : Cache s ↔
    (s.ldr.numVoters = s.configs.latest.numVoters ∧
     s.ldr.node = s.configs.latest.get s.nid ∧
     Sorted s.ldr.repls ∧
     (∀ r ∈ s.ldr.repls, r.id ≠ s.nid ∧ r.node ∈ s.configs.latest.nodes ∧ r.node.id = r.id) ∧
     (∀ n ∈ s.configs.latest.nodes, n.id ≠ s.nid → ∃ r ∈ s.ldr.repls, r.id = n.id)) := by
  constructor
  · intro h
    refine ⟨h.numVoters, h.node, (sorted_iff _).mp h.sorted, ?_, ?_⟩
    · intro r hr
      exact h.member (key r) (List.mem_map_of_mem hr)
    · intro n hn hne
      obtain ⟨k, hk, e⟩ := h.cover n hn hne
      obtain ⟨r, hr, rfl⟩ := List.mem_map.mp hk
      exact ⟨r, hr, e⟩
  · rintro ⟨h1, h2, h3, h4, h5⟩
    refine ⟨h1, h2, (sorted_iff _).mpr h3, ?_, ?_⟩
    · intro k hk
      obtain ⟨r, hr, rfl⟩ := List.mem_map.mp hk
      exact h4 r hr
    · intro n hn hne
      obtain ⟨r, hr, e⟩ := h5 n hn hne
      exact ⟨key r, List.mem_map_of_mem hr, e⟩

theorem Cache.sortedRepls {s : Node} (h : Cache s) : Sorted s.ldr.repls := ((cache_iff s).mp h).2.2.1

/-! ### primitives that leave the view alone -/

theorem view_panic (s : Node) (site : String) : view (s.panic site) = view s := by
  unfold Node.panic; split <;> rfl
theorem view_assert (s : Node) (b : Bool) (site : String) : view (s.assert b site) = view s := by
  unfold Node.assert; split
  · rfl
  · exact view_panic s site
theorem view_reply (s : Node) (t : Nat) (r : String) : view (s.reply t r) = view s := by
  unfold Node.reply; split <;> rfl
theorem view_point (s : Node) (n : String) : view (s.point n) = view s := rfl
theorem view_popOrder (s : Node) : view s.popOrder = view s := rfl
theorem view_fsm (s : Node) (f : Fsm) : view (s.withFsm f) = view s := rfl
theorem view_setRole (s : Node) (r : Role) : view (s.setRole r) = view s := rfl
theorem view_setLeader (s : Node) (l : Nat) : view (s.setLeader l) = view s := rfl
theorem view_ret (s : Node) (r : Nat) : view (s.ret r) = view s := rfl
theorem view_doClose (s : Node) (r : String) : view (s.doClose r) = view s := by
  unfold Node.doClose; split <;> rfl

/-- a leader record that keeps `node`, `numVoters` and the keys of `repls` -/
theorem view_ldr (s : Node) (l : Leader) (h1 : l.node = s.ldr.node) (h2 : l.numVoters = s.ldr.numVoters)
    (h3 : l.repls.map key = s.ldr.repls.map key) : view (s.withLdr l) = view s := by
  unfold view Node.withLdr
  simp only [h1, h2, h3]

theorem viewFsmFrame : FsmFrame view := ⟨view_panic, view_reply, view_fsm⟩

theorem view_appendEntry (s : Node) (e : Entry) : view (s.appendEntry e) = view s := by
  unfold Node.appendEntry
  exact view_assert s _ _

theorem view_commitLog (s : Node) (n : Nat) : view (s.commitLog n) = view s := rfl
theorem view_compactLog (s : Node) (n : Nat) : view (s.compactLog n) = view s := rfl

theorem view_applyCommittedL (s : Node) : view s.applyCommittedL = view s := by
  unfold Node.applyCommittedL
  rw [viewFsmFrame.fsmApply_eq]
  exact view_ldr _ _ rfl rfl rfl

theorem view_notifyFlr (s : Node) : view s.notifyFlr = view s := by
  unfold Node.notifyFlr
  split
  · rfl
  · split
    · rfl
    · exact view_panic _ _

theorem view_beginFinishedRounds (s : Node) : view s.beginFinishedRounds = view s := by
  unfold Node.beginFinishedRounds
  refine view_ldr s _ rfl rfl ?_
  dsimp only
  rw [List.map_map]
  apply List.map_congr_left
  intro r _
  dsimp only [Function.comp]
  repeat' split
  all_goals rfl

theorem view_commitConfig (s : Node) : view s.commitConfig = view s := by
  unfold Node.commitConfig; dsimp only; split <;> rfl

theorem view_stepDownIfNotVoter (s : Node) : view s.stepDownIfNotVoter = view s := by
  unfold Node.stepDownIfNotVoter; split <;> rfl

theorem view_closeIfRemoved (s : Node) : view s.closeIfRemoved = view s := by
  unfold Node.closeIfRemoved; split
  · exact view_doClose _ _
  · rfl

theorem view_afterConfigCommit (s : Node) : view s.afterConfigCommit = view s := by
  unfold Node.afterConfigCommit
  rw [view_closeIfRemoved, view_stepDownIfNotVoter]

theorem view_setCommitIndexR (s : Node) (i : Nat) : view (s.setCommitIndexR i).1 = view s := by
  unfold Node.setCommitIndexR
  split
  · show view ((s.withCommitIndex i).commitConfig.afterConfigCommit) = _
    rw [view_afterConfigCommit, view_commitConfig]; rfl
  · rfl

theorem view_foldl {β : Type} (f : Node → β → Node) (hf : ∀ s x, view (f s x) = view s)
    (xs : List β) (s : Node) : view (xs.foldl f s) = view s := by
  induction xs generalizing s with
  | nil => rfl
  | cons x xs ih => rw [List.foldl_cons, ih, hf]

/-- updating a replication that exists, keeping its id and node -/
theorem view_setRepl (s : Node) (r st : Repl) (hs : Sorted s.ldr.repls) (hst : st ∈ s.ldr.repls)
    (hk : key r = key st) : view (s.setRepl r) = view s := by
  unfold Node.setRepl
  exact view_ldr _ _ rfl rfl (map_key_insertRepl r st _ hs hst hk)

/-! ### synchronising the replications with a configuration (the loops of `leader.init` and
`leader.changeConfig`) -/

/-- one iteration of such a loop: self is skipped, for any other node a replication with the node's id
and the node itself as cached `node` is inserted (added or refreshed) -/
structure SyncStep (f : Node → CNode → Node) : Prop where
  frame : ∀ s n, (f s n).nid = s.nid ∧ (f s n).configs = s.configs ∧ (f s n).ldr.node = s.ldr.node ∧
    (f s n).ldr.numVoters = s.ldr.numVoters
  self : ∀ s n, n.id = s.nid → (f s n).ldr.repls = s.ldr.repls
  other : ∀ s n, n.id ≠ s.nid → ∃ r : Repl, r.id = n.id ∧ r.node = n ∧ (f s n).ldr.repls = insertRepl r s.ldr.repls

theorem sync_fold {f : Node → CNode → Node} (hf : SyncStep f) (ns : List CNode) (s : Node)
    (hs : Sorted s.ldr.repls) (hn : ∀ r ∈ s.ldr.repls, r.id ≠ s.nid) :
    (ns.foldl f s).nid = s.nid ∧ (ns.foldl f s).configs = s.configs ∧
    (ns.foldl f s).ldr.node = s.ldr.node ∧ (ns.foldl f s).ldr.numVoters = s.ldr.numVoters ∧
    Sorted (ns.foldl f s).ldr.repls ∧
    (∀ r ∈ (ns.foldl f s).ldr.repls, r.id ≠ s.nid ∧
      ((r ∈ s.ldr.repls ∧ ∀ n ∈ ns, n.id ≠ r.id) ∨ (r.node ∈ ns ∧ r.node.id = r.id))) ∧
    (∀ n ∈ ns, n.id ≠ s.nid → ∃ r ∈ (ns.foldl f s).ldr.repls, r.id = n.id) ∧
    (∀ r ∈ s.ldr.repls, ∃ r' ∈ (ns.foldl f s).ldr.repls, r'.id = r.id) := by
  induction ns generalizing s with
  | nil =>
    refine ⟨rfl, rfl, rfl, rfl, hs, ?_, ?_, ?_⟩
    · intro r hr; exact ⟨hn r hr, Or.inl ⟨hr, fun n hn => by cases hn⟩⟩
    · intro n hn; cases hn
    · intro r hr; exact ⟨r, hr, rfl⟩
  | cons n ns ih =>
    rw [List.foldl_cons]
    obtain ⟨f1, f2, f3, f4⟩ := hf.frame s n
    -- facts about the state after the first iteration
    have step : Sorted (f s n).ldr.repls ∧ (∀ r ∈ (f s n).ldr.repls, r.id ≠ s.nid) ∧
        (∀ r ∈ (f s n).ldr.repls, (r ∈ s.ldr.repls ∧ n.id ≠ r.id) ∨ (r.node = n ∧ r.node.id = r.id)) ∧
        (n.id ≠ s.nid → ∃ r ∈ (f s n).ldr.repls, r.id = n.id) ∧
        (∀ r ∈ s.ldr.repls, ∃ r' ∈ (f s n).ldr.repls, r'.id = r.id) := by
      by_cases hself : n.id = s.nid
      · rw [hf.self s n hself]
        refine ⟨hs, hn, ?_, fun h => absurd hself h, fun r hr => ⟨r, hr, rfl⟩⟩
        intro r hr
        exact Or.inl ⟨hr, by rw [hself]; exact fun e => hn r hr e.symm⟩
      · obtain ⟨r0, e1, e2, e3⟩ := hf.other s n hself
        rw [e3]
        refine ⟨sorted_insertRepl _ _ hs, ?_, ?_, ?_, ?_⟩
        · intro r hr
          rcases mem_insertRepl r0 r _ hs hr with e | ⟨h1, _⟩
          · rw [e, e1]; exact hself
          · exact hn r h1
        · intro r hr
          rcases mem_insertRepl r0 r _ hs hr with e | ⟨h1, h2⟩
          · right; rw [e, e2]; exact ⟨rfl, e1.symm⟩
          · left; exact ⟨h1, by rw [← e1]; exact fun e => h2 e.symm⟩
        · intro _; exact ⟨r0, mem_insertRepl_self _ _, e1⟩
        · intro r hr
          by_cases e : r.id = r0.id
          · exact ⟨r0, mem_insertRepl_self _ _, e.symm⟩
          · exact ⟨r, mem_insertRepl_of_mem _ _ _ hr e, rfl⟩
    obtain ⟨s1, s2, s3, s4, s5⟩ := step
    obtain ⟨i1, i2, i3, i4, i5, i6, i7, i8⟩ := ih (f s n) s1 (by rw [f1]; exact s2)
    rw [f1] at i1 i6 i7
    refine ⟨i1, i2.trans f2, i3.trans f3, i4.trans f4, i5, ?_, ?_, ?_⟩
    · intro r hr
      obtain ⟨h1, h2⟩ := i6 r hr
      refine ⟨h1, ?_⟩
      rcases h2 with ⟨h3, h4⟩ | ⟨h3, h4⟩
      · rcases s3 r h3 with ⟨h5, h6⟩ | ⟨h5, h6⟩
        · left
          refine ⟨h5, ?_⟩
          intro m hm
          rcases List.mem_cons.mp hm with e | hm'
          · rw [e]; exact h6
          · exact h4 m hm'
        · right; exact ⟨by rw [h5]; exact List.mem_cons_self, h6⟩
      · right; exact ⟨List.mem_cons_of_mem _ h3, h4⟩
    · intro m hm hne
      rcases List.mem_cons.mp hm with e | hm'
      · obtain ⟨r, hr, e'⟩ := s4 (by rw [← e]; exact hne)
        obtain ⟨r', hr', e''⟩ := i8 r hr
        exact ⟨r', hr', by rw [e'', e', e]⟩
      · exact i7 m hm' hne
    · intro r hr
      obtain ⟨r1, hr1, e1⟩ := s5 r hr
      obtain ⟨r2, hr2, e2⟩ := i8 r1 hr1
      exact ⟨r2, hr2, e2.trans e1⟩

/-- after the loop ran over all nodes of `c`, starting from replications that all belong to members of
`c`, with `configs.latest = c` and `node`/`numVoters` taken from `c`: the caches describe `c`. -/
theorem cache_of_sync {f : Node → CNode → Node} (hf : SyncStep f) (s : Node)
    (hs : Sorted s.ldr.repls) (hn : ∀ r ∈ s.ldr.repls, r.id ≠ s.nid)
    (hmem : ∀ r ∈ s.ldr.repls, ∃ n ∈ s.configs.latest.nodes, n.id = r.id)
    (h1 : s.ldr.numVoters = s.configs.latest.numVoters) (h2 : s.ldr.node = s.configs.latest.get s.nid) :
    Cache (s.configs.latest.nodes.foldl f s) := by
  obtain ⟨i1, i2, i3, i4, i5, i6, i7, _⟩ := sync_fold hf s.configs.latest.nodes s hs hn
  rw [cache_iff, i1, i2, i3, i4]
  refine ⟨h1, h2, i5, ?_, i7⟩
  intro r hr
  obtain ⟨a, b⟩ := i6 r hr
  refine ⟨a, ?_⟩
  rcases b with ⟨b1, b2⟩ | b
  · obtain ⟨n, hn1, hn2⟩ := hmem r b1
    exact absurd hn2 (b2 n hn1)
  · exact b

/-! ### the two loop bodies -/

theorem panic_frame (s : Node) (site : String) :
    (s.panic site).nid = s.nid ∧ (s.panic site).configs = s.configs ∧ (s.panic site).ldr = s.ldr := by
  unfold Node.panic; split <;> exact ⟨rfl, rfl, rfl⟩

theorem assert_frame (s : Node) (b : Bool) (site : String) :
    (s.assert b site).nid = s.nid ∧ (s.assert b site).configs = s.configs ∧ (s.assert b site).ldr = s.ldr := by
  unfold Node.assert; split
  · exact ⟨rfl, rfl, rfl⟩
  · exact panic_frame s site

theorem addReplication_spec (s : Node) (n : CNode) :
    (s.addReplication n).nid = s.nid ∧ (s.addReplication n).configs = s.configs ∧
    (s.addReplication n).ldr.node = s.ldr.node ∧ (s.addReplication n).ldr.numVoters = s.ldr.numVoters ∧
    ∃ r : Repl, r.id = n.id ∧ r.node = n ∧ (s.addReplication n).ldr.repls = insertRepl r s.ldr.repls := by
  unfold Node.addReplication
  extract_lets s1 s2
  have e1 : s1.nid = s.nid ∧ s1.configs = s.configs ∧ s1.ldr = s.ldr := assert_frame s _ _
  have e2 : s2.nid = s.nid ∧ s2.configs = s.configs ∧ s2.ldr = s.ldr := by
    unfold s2; split
    · exact e1
    · obtain ⟨a, b, c⟩ := panic_frame s1 "nilView"
      exact ⟨a.trans e1.1, b.trans e1.2.1, c.trans e1.2.2⟩
  obtain ⟨a, b, c⟩ := e2
  unfold Node.setRepl Node.withLdr
  dsimp only
  rw [c]
  exact ⟨a, b, rfl, rfl, _, rfl, rfl, rfl⟩

/-- the loop body of `leader.init` -/
def initBody (s : Node) (n : CNode) : Node := if n.id = s.nid then s else s.addReplication n

/-- the loop body of `leader.changeConfig` -/
def changeBody (s : Node) (n : CNode) : Node :=
  if n.id = s.nid then s
  else match s.findRepl? n.id with
    | none => s.addReplication n
    | some r => s.setRepl { r with node := n }

theorem initBody_sync : SyncStep initBody where
  frame := by
    intro s n; unfold initBody; split
    · exact ⟨rfl, rfl, rfl, rfl⟩
    · obtain ⟨a, b, c, d, _⟩ := addReplication_spec s n; exact ⟨a, b, c, d⟩
  self := by intro s n h; unfold initBody; rw [if_pos h]
  other := by
    intro s n h; unfold initBody; rw [if_neg h]
    exact (addReplication_spec s n).2.2.2.2

theorem changeBody_sync : SyncStep changeBody where
  frame := by
    intro s n; unfold changeBody; split
    · exact ⟨rfl, rfl, rfl, rfl⟩
    · split
      · obtain ⟨a, b, c, d, _⟩ := addReplication_spec s n; exact ⟨a, b, c, d⟩
      · exact ⟨rfl, rfl, rfl, rfl⟩
  self := by intro s n h; unfold changeBody; rw [if_pos h]
  other := by
    intro s n h; unfold changeBody; rw [if_neg h]
    split
    · exact (addReplication_spec s n).2.2.2.2
    · rename_i r hr
      unfold Node.findRepl? at hr
      exact ⟨{ r with node := n }, (find_mem hr).2, rfl, rfl⟩

/-! ### `leader.changeConfig` re-establishes the caches for the new configuration -/

theorem changeConfigR_frame (s : Node) (c : Config) :
    (s.changeConfigR c).nid = s.nid ∧ (s.changeConfigR c).ldr = s.ldr ∧ (s.changeConfigR c).configs.latest = c := by
  unfold Node.changeConfigR; dsimp only; split <;> exact ⟨rfl, rfl, rfl⟩

/-- the state `leader.changeConfig` has built when its "add new repls / refresh node" loop starts -/
def changePre (s : Node) (c : Config) : Node :=
  let s := (s.withLdr ({ s.ldr with node := c.get s.nid, numVoters := c.numVoters }))
  let s := s.changeConfigR c
  (s.withLdr ({ s.ldr with repls := s.ldr.repls.filter (fun r => c.has r.id) }))

theorem changePre_spec (s : Node) (c : Config) :
    (changePre s c).nid = s.nid ∧ (changePre s c).configs.latest = c ∧
    (changePre s c).ldr.node = c.get s.nid ∧ (changePre s c).ldr.numVoters = c.numVoters ∧
    (changePre s c).ldr.repls = s.ldr.repls.filter (fun r => c.has r.id) := by
  unfold changePre
  extract_lets l1 s1 s2 l2
  obtain ⟨a, b, d⟩ := changeConfigR_frame s1 c
  refine ⟨a, d, ?_, ?_, ?_⟩
  · show s2.ldr.node = _; unfold s2; rw [b]; rfl
  · show s2.ldr.numVoters = _; unfold s2; rw [b]; rfl
  · show s2.ldr.repls.filter _ = _; unfold s2; rw [b]; rfl

theorem has_exists (c : Config) (id : Nat) (h : c.has id = true) : ∃ n ∈ c.nodes, n.id = id := by
  unfold Config.has Config.find? at h
  cases hf : c.nodes.find? (·.id == id) with
  | none => rw [hf] at h; cases h
  | some n =>
    refine ⟨n, List.mem_of_find?_eq_some hf, ?_⟩
    have := List.find?_some hf
    simpa using this

/-- whatever the caches were (only: replications sorted by id, none for self), after the loop of
`leader.changeConfig c` they describe `c`, which is now `configs.latest` -/
theorem cache_changeSync (s : Node) (c : Config) (hs : Sorted s.ldr.repls) (hn : ∀ r ∈ s.ldr.repls, r.id ≠ s.nid) :
    Cache (c.nodes.foldl changeBody (changePre s c)) := by
  obtain ⟨e1, e2, e3, e4, e5⟩ := changePre_spec s c
  have := cache_of_sync changeBody_sync (changePre s c)
    (by rw [e5]; exact List.Pairwise.filter _ hs)
    (by rw [e5, e1]; intro r hr; exact hn r (List.mem_filter.mp hr).1)
    (by
      rw [e5, e2]; intro r hr
      exact has_exists c r.id (List.mem_filter.mp hr).2)
    (by rw [e4, e2]) (by rw [e3, e2, e1])
  rw [e2] at this
  exact this

/-! ### the leader block preserves `Cache` -/

theorem cpanic {s : Node} (site : String) (h : Cache s) : Cache (s.panic site) := h.congr (view_panic _ _)
theorem creply {s : Node} (t : Nat) (r : String) (h : Cache s) : Cache (s.reply t r) := h.congr (view_reply _ _ _)
theorem cassert {s : Node} (b : Bool) (site : String) (h : Cache s) : Cache (s.assert b site) := h.congr (view_assert _ _ _)
theorem cnotify {s : Node} (h : Cache s) : Cache s.notifyFlr := h.congr (view_notifyFlr _)
theorem cbegin {s : Node} (h : Cache s) : Cache s.beginFinishedRounds := h.congr (view_beginFinishedRounds _)
theorem capplyL {s : Node} (h : Cache s) : Cache s.applyCommittedL := h.congr (view_applyCommittedL _)
theorem cappend {s : Node} (e : Entry) (h : Cache s) : Cache (s.appendEntry e) := h.congr (view_appendEntry _ _)
theorem ccommitR {s : Node} (i : Nat) (h : Cache s) : Cache (s.setCommitIndexR i).1 := h.congr (view_setCommitIndexR _ _)
theorem cpop {s : Node} (h : Cache s) : Cache s.popOrder := h.congr (view_popOrder _)
theorem cldr {s : Node} (l : Leader) (h : Cache s) (h1 : l.node = s.ldr.node) (h2 : l.numVoters = s.ldr.numVoters)
    (h3 : l.repls.map key = s.ldr.repls.map key) : Cache (s.withLdr l) := h.congr (view_ldr _ _ h1 h2 h3)

theorem cfoldl {β : Type} (f : Node → β → Node) (hf : ∀ s x, Cache s → Cache (f s x))
    (xs : List β) (s : Node) (hs : Cache s) : Cache (xs.foldl f s) :=
  Closed.foldl_inv f hf xs s hs

/-- updating a replication found by `findRepl?`, keeping id and node -/
theorem csetRepl {s : Node} (r st : Repl) (id : Nat) (h : Cache s) (hf : s.findRepl? id = some st)
    (hk : key r = key st) : Cache (s.setRepl r) :=
  h.congr (view_setRepl s r st h.sortedRepls (find_mem hf).1 hk)

theorem roundStep_key (l a : Nat) (st : Repl) : key (roundStep l a st).1 = key st := by
  unfold roundStep startRound finishRound
  dsimp only
  repeat' split
  all_goals rfl

theorem block : ∀ fuel : Nat,
    (∀ s b, Cache s → Cache (storeEntry fuel s b)) ∧
    (∀ s b, Cache s → Cache (storeItems fuel s b)) ∧
    (∀ s c, Cache s → Cache (changeConfigL fuel s c)) ∧
    (∀ s t c, Cache s → Cache (doChangeConfig fuel s t c)) ∧
    (∀ s t c, Cache s → Cache (checkConfigActions fuel s t c)) ∧
    (∀ s t c id, Cache s → Cache (checkConfigAction fuel s t c id)) ∧
    (∀ s i, Cache s → Cache (setCommitIndexL fuel s i)) ∧
    (∀ s, Cache s → Cache (onMajorityCommit fuel s)) := by
  intro fuel
  induction fuel with
  | zero =>
    refine ⟨?_, ?_, ?_, ?_, ?_, ?_, ?_, ?_⟩ <;> intros <;> (try unfold storeItems) <;>
      (try unfold storeEntry) <;> (try unfold changeConfigL) <;> (try unfold doChangeConfig) <;>
      (try unfold checkConfigActions) <;> (try unfold checkConfigAction) <;>
      (try unfold setCommitIndexL) <;> (try unfold onMajorityCommit) <;>
      (try split) <;> first | assumption | (apply cpanic; assumption)
  | succ n ih =>
    obtain ⟨ihSE, ihSI, ihCL, ihDC, ihCAs, ihCA, ihSC, ihMC⟩ := ih
    refine ⟨?_, ?_, ?_, ?_, ?_, ?_, ?_, ?_⟩
    · -- storeEntry
      intro s b hs
      unfold storeEntry; dsimp only
      have h1 : Cache (storeItems n s b) := ihSI _ _ hs
      have h2 := capplyL h1
      repeat' split
      all_goals first
        | exact ihMC _ (cnotify (cbegin h2))
        | exact ihMC _ (cnotify (cbegin h1))
        | exact cnotify (cbegin h2)
        | exact cnotify (cbegin h1)
        | exact h2
        | exact h1
    · -- storeItems
      intro s b hs
      cases b with
      | nil => unfold storeItems; exact hs
      | cons q qs =>
        unfold storeItems; dsimp only
        apply ihSI
        split
        · exact creply _ _ hs
        · split
          · split
            · exact creply _ _ hs
            · exact creply _ _ hs
          · have h1 := cldr { s.ldr with queue := s.ldr.queue ++ [{ q with index := s.lastLogIndex + 1, term := s.term, cfg := q.cfg.map Config.payload }] } hs rfl rfl rfl
            split
            · split
              · split
                · exact ihCL _ _ (cappend _ h1)
                · exact cpanic _ (cappend _ h1)
              · exact cappend _ h1
            · exact h1
    · -- changeConfigL
      intro s c hs
      unfold changeConfigL; dsimp only
      apply ihCAs
      have hm := ((cache_iff s).mp hs).2.2.2.1
      exact cache_changeSync s c hs.sortedRepls (fun r hr => (hm r hr).1)
    · -- doChangeConfig
      intro s t c hs
      unfold doChangeConfig; exact ihSE _ _ hs
    · -- checkConfigActions
      intro s t c hs
      unfold checkConfigActions; dsimp only
      apply cfoldl
      · intro s x hs
        split
        · exact ihCA _ _ _ _ hs
        · exact hs
      · apply cpop
        split
        · split
          · exact ihDC _ _ _ hs
          · split
            · exact ihDC _ _ _ hs
            · exact cpanic _ hs
        · exact hs
    · -- checkConfigAction
      intro s t c id hs
      unfold checkConfigAction; dsimp only
      split
      · exact hs
      · rename_i st hst
        have h1 : Cache (s.setRepl (roundStep s.lastLogIndex (c.get id).nextAction st).1) :=
          csetRepl _ st id hs hst (roundStep_key _ _ _)
        repeat' split
        all_goals first | exact hs | exact h1 | exact ihDC _ _ _ h1
    · -- setCommitIndexL
      intro s i hs
      unfold setCommitIndexL
      extract_lets s1 ready r s2 s3
      have h2 : Cache s2 := ccommitR i (hs.congr (view_commitLog s i))
      have h3 : Cache s3 := by
        unfold s3; split
        · exact ihCAs _ _ _ h2
        · exact h2
      split
      · split
        · exact cldr _ (cfoldl _ (fun s t hs => creply _ _ hs) _ _ h3) rfl rfl rfl
        · exact ihCAs _ _ _ h3
      · exact h3
    · -- onMajorityCommit
      intro s hs
      unfold onMajorityCommit; dsimp only
      have h1 := cpanic "nil.majorityMatchIndex" hs
      split
      · split
        · exact cnotify (capplyL (ihSC _ _ hs))
        · exact hs
      · split
        · exact cnotify (capplyL (ihSC _ _ h1))
        · exact h1

/-! ### the leader-side handlers outside the block preserve `Cache` -/

theorem csetRole {s : Node} (r : Role) (h : Cache s) : Cache (s.setRole r) := h
theorem csetLeader {s : Node} (l : Nat) (h : Cache s) : Cache (s.setLeader l) := h
theorem cret {s : Node} (r : Nat) (h : Cache s) : Cache (s.ret r) := h
theorem cpoint {s : Node} (n : String) (h : Cache s) : Cache (s.point n) := h
theorem ccompactLog {s : Node} (i : Nat) (h : Cache s) : Cache (s.compactLog i) := h
theorem csnapPending {s : Node} (v : Option SnapReq) (h : Cache s) : Cache (s.withSnapPending v) := h
theorem csnapResult {s : Node} (v : Option SnapRes) (h : Cache s) : Cache (s.withSnapResult v) := h
theorem crpcReply {s : Node} (v : Option RpcReply) (h : Cache s) : Cache (s.withRpcReply v) := h
theorem ccandTransfer {s : Node} (v : Bool) (h : Cache s) : Cache (s.withCandTransfer v) := h
theorem cpublish {s : Node} (f : SnapFile) (h : Cache s) : Cache (s.publishSnapshot f) := h
theorem cdoClose {s : Node} (r : String) (h : Cache s) : Cache (s.doClose r) := h.congr (view_doClose _ _)

theorem view_storeTermVote (s : Node) (t c : Nat) : view (s.storeTermVote t c) = view s := by
  unfold Node.storeTermVote; dsimp only; split <;> rfl
theorem view_setTerm (s : Node) (t : Nat) : view (s.setTerm t) = view s := by
  unfold Node.setTerm
  split
  · split
    · exact view_storeTermVote _ _ _
    · exact view_panic _ _
  · rfl
theorem view_setVotedFor (s : Node) (t c : Nat) : view (s.setVotedFor t c) = view s := by
  unfold Node.setVotedFor
  split
  · split
    · exact view_storeTermVote _ _ _
    · exact view_panic _ _
  · rfl
theorem csetTerm {s : Node} (t : Nat) (h : Cache s) : Cache (s.setTerm t) := h.congr (view_setTerm _ _)
theorem csetVotedFor {s : Node} (t c : Nat) (h : Cache s) : Cache (s.setVotedFor t c) := h.congr (view_setVotedFor _ _ _)

/-- a leader record that differs from the current one outside `node`, `numVoters`, `repls` -/
theorem cldr0 {s : Node} (l : Leader) (h1 : l.node = s.ldr.node) (h2 : l.numVoters = s.ldr.numVoters)
    (h3 : l.repls = s.ldr.repls) (h : Cache s) : Cache (s.withLdr l) := cldr l h h1 h2 (by rw [h3])

/-- one backward step for goals `Cache (…)` -/
syntax "cache_step" : tactic
macro_rules
  | `(tactic| cache_step) => `(tactic| first
      | with_reducible assumption
      | with_reducible apply cpanic
      | with_reducible apply creply
      | with_reducible apply cpop
      | with_reducible apply cassert
      | with_reducible apply cnotify
      | with_reducible apply csetRole
      | with_reducible apply csetLeader
      | with_reducible apply cret
      | with_reducible apply cpoint
      | with_reducible apply ccompactLog
      | with_reducible apply csnapPending
      | with_reducible apply csnapResult
      | with_reducible apply crpcReply
      | with_reducible apply ccandTransfer
      | with_reducible apply cpublish
      | with_reducible apply cdoClose
      | with_reducible apply csetTerm
      | with_reducible apply csetVotedFor
      | ((with_reducible apply cldr0 _ ?_ ?_ ?_) <;> first | rfl | skip)
      | split)

theorem ccheckQuorum {s : Node} (h : Cache s) : Cache s.checkQuorum := by
  unfold Node.checkQuorum; dsimp only
  repeat' cache_step

theorem ctransferReply {s : Node} (r : String) (h : Cache s) : Cache (s.transferReply r) := by
  unfold Node.transferReply
  repeat' cache_step

theorem ctryTransfer {s : Node} (h : Cache s) : Cache s.tryTransfer := by
  unfold Node.tryTransfer; dsimp only
  repeat' cache_step

theorem conTransfer {s : Node} (t g : Nat) (h : Cache s) : Cache (s.onTransfer t g) := by
  unfold Node.onTransfer; dsimp only
  split
  · exact creply _ _ h
  · apply ctryTransfer
    repeat' cache_step

theorem ccheckConfigActions {s : Node} (f t : Nat) (c : Config) (h : Cache s) : Cache (checkConfigActions f s t c) :=
  (block f).2.2.2.2.1 s t c h
theorem ccheckConfigAction {s : Node} (f t : Nat) (c : Config) (id : Nat) (h : Cache s) :
    Cache (checkConfigAction f s t c id) := (block f).2.2.2.2.2.1 s t c id h
theorem cstoreEntry {s : Node} (f : Nat) (b : List QItem) (h : Cache s) : Cache (storeEntry f s b) := (block f).1 s b h
theorem cdoChangeConfig {s : Node} (f t : Nat) (c : Config) (h : Cache s) : Cache (doChangeConfig f s t c) :=
  (block f).2.2.2.1 s t c h
theorem conMajorityCommit {s : Node} (f : Nat) (h : Cache s) : Cache (onMajorityCommit f s) :=
  (block f).2.2.2.2.2.2.2 s h

theorem creplyTransfer {s : Node} (r : String) (h : Cache s) : Cache (s.replyTransfer r) := by
  unfold Node.replyTransfer; exact ccheckConfigActions _ _ _ (ctransferReply _ h)

theorem conTimeoutNowResult {s : Node} (src : Nat) (e : Bool) (r : Nat) (hs : Cache s) :
    Cache (s.onTimeoutNowResult src e r) := by
  unfold Node.onTimeoutNowResult
  extract_lets l0 t0 s1 s2 l1 t1
  have h0 : Cache s1 := cldr0 _ rfl rfl rfl hs
  have h2 : Cache s2 := by
    unfold s2
    split
    · rename_i st hst
      split
      · exact csetRepl _ st src h0 hst rfl
      · exact h0
    · exact cpanic _ h0
  split
  · split
    · exact ctryTransfer h2
    · exact h2
  · split
    · split
      · exact creplyTransfer _ h0
      · exact ctryTransfer h0
    · exact cldr0 _ rfl rfl rfl h0

theorem conChangeConfig {s : Node} (t : Nat) (c : Config) (hs : Cache s) : Cache (s.onChangeConfig t c) := by
  unfold Node.onChangeConfig
  dsimp only
  repeat' split
  all_goals first
    | exact creply _ _ hs
    | exact cdoChangeConfig _ _ _ (ccheckConfigActions _ _ _ hs)
    | exact ccheckConfigActions _ _ _ hs

theorem conWaitForStable {s : Node} (t : Nat) (hs : Cache s) : Cache (s.onWaitForStable t) := by
  unfold Node.onWaitForStable
  repeat' cache_step

theorem creplUpdLoop (s : Node) (f : UpdFlags) (us : List ReplUpdate) (hs : Cache s) :
    Cache (replUpdLoop s f us).1 := by
  induction us generalizing s f with
  | nil => exact hs
  | cons u us ih =>
    unfold replUpdLoop
    dsimp only
    split
    · exact ih _ _ hs
    · split
      · exact ih _ _ hs
      · rename_i st hst
        split
        · rename_i v _
          apply ih
          have h1 : Cache (s.setRepl { st with matchIndex := v }) := csetRepl _ st u.id hs hst rfl
          split
          · exact ccheckConfigAction _ _ _ _ h1
          · exact h1
        · rename_i v _
          exact ih _ _ (csetRepl _ st u.id hs hst rfl)
        · rename_i b _
          exact ih _ _ (csetRepl _ st u.id hs hst rfl)
        · exact csetTerm _ (csetLeader _ (csetRole _ hs))

theorem ccheckLogCompact {s : Node} (hs : Cache s) : Cache s.checkLogCompact := by
  unfold Node.checkLogCompact
  repeat' cache_step

theorem ccheckReplUpdates {s : Node} (us : List ReplUpdate) (hs : Cache s) : Cache (s.checkReplUpdates us) := by
  unfold Node.checkReplUpdates
  dsimp only
  have hL : Cache (replUpdLoop s {} us).1 := creplUpdLoop _ _ _ hs
  repeat' (first | cache_step | apply ctryTransfer | apply ccheckLogCompact | apply ccheckQuorum | apply conMajorityCommit)

theorem conTakeSnapshot {s : Node} (t th : Nat) (hs : Cache s) : Cache (s.onTakeSnapshot t th) := by
  unfold Node.onTakeSnapshot
  repeat' cache_step

theorem csnapRun {s : Node} (hs : Cache s) : Cache s.snapRun := by
  unfold Node.snapRun
  dsimp only
  repeat' cache_step

theorem conSnapshotTaken {s : Node} (hs : Cache s) : Cache s.onSnapshotTaken := by
  unfold Node.onSnapshotTaken
  dsimp only
  repeat' cache_step

theorem crpcDone {s : Node} (a b : Bool) (hs : Cache s) : Cache (s.rpcDone a b) := by
  unfold Node.rpcDone
  repeat' cache_step

theorem conVoteRequest {s : Node} (q : VoteReq) (hs : Cache s) : Cache (s.onVoteRequest q) := by
  unfold Node.onVoteRequest
  dsimp only
  repeat' cache_step

theorem conTimeoutNow {s : Node} (hs : Cache s) : Cache s.onTimeoutNow := by
  unfold Node.onTimeoutNow
  repeat' cache_step

/-! ### `leader.init` establishes the caches, whatever they were -/

/-- the state `leader.init` has built when its "add replications" loop starts -/
def initPre (s : Node) : Node :=
  let s := s.assert (s.leader == s.nid) "assert.leaderInit"
  (s.withLdr ({ node := s.configs.latest.get s.nid, numVoters := s.configs.latest.numVoters,
                startIndex := s.lastLogIndex + 1, removeLTE := s.log.prev,
                queue := [], repls := [], transfer := {}, waitStable := [] }))

theorem cache_initSync (s : Node) : Cache ((initPre s).configs.latest.nodes.foldl initBody (initPre s)) :=
  cache_of_sync initBody_sync (initPre s) List.Pairwise.nil (fun r hr => by cases hr) (fun r hr => by cases hr) rfl rfl

theorem cleaderInit (s : Node) : Cache s.leaderInit := by
  unfold Node.leaderInit; dsimp only
  apply cstoreEntry
  apply ccheckConfigActions
  exact cache_initSync s

/-! ### roles through `release` / `init` -/

theorem role_panic (s : Node) (site : String) : (s.panic site).role = s.role := by
  unfold Node.panic; split <;> rfl
theorem role_reply (s : Node) (t : Nat) (r : String) : (s.reply t r).role = s.role := by
  unfold Node.reply; split <;> rfl
theorem role_assert (s : Node) (b : Bool) (site : String) : (s.assert b site).role = s.role := by
  unfold Node.assert; split
  · rfl
  · exact role_panic _ _
theorem role_doClose (s : Node) (r : String) : (s.doClose r).role = s.role := by
  unfold Node.doClose; split <;> rfl
theorem role_storeTermVote (s : Node) (t c : Nat) : (s.storeTermVote t c).role = s.role := by
  unfold Node.storeTermVote; dsimp only; split <;> rfl
theorem role_setTerm (s : Node) (t : Nat) : (s.setTerm t).role = s.role := by
  unfold Node.setTerm
  split
  · split
    · exact role_storeTermVote _ _ _
    · exact role_panic _ _
  · rfl
theorem role_setVotedFor (s : Node) (t c : Nat) : (s.setVotedFor t c).role = s.role := by
  unfold Node.setVotedFor
  split
  · split
    · exact role_storeTermVote _ _ _
    · exact role_panic _ _
  · rfl
theorem role_changeConfigR (s : Node) (c : Config) : (s.changeConfigR c).role = s.role := by
  unfold Node.changeConfigR; dsimp only; split <;> rfl
theorem role_commitConfig (s : Node) : s.commitConfig.role = s.role := by
  unfold Node.commitConfig; dsimp only; split <;> rfl
theorem role_closeIfRemoved (s : Node) : s.closeIfRemoved.role = s.role := by
  unfold Node.closeIfRemoved; split
  · exact role_doClose _ _
  · rfl
theorem role_stepDown (s : Node) : s.stepDownIfNotVoter.role = s.role ∨ s.stepDownIfNotVoter.role = .follower := by
  unfold Node.stepDownIfNotVoter; split
  · exact Or.inr rfl
  · exact Or.inl rfl

theorem role_afterConfigCommit (s : Node) :
    s.afterConfigCommit.role = s.role ∨ s.afterConfigCommit.role = .follower := by
  unfold Node.afterConfigCommit
  rw [role_closeIfRemoved]
  exact role_stepDown s

theorem role_setCommitIndexR (s : Node) (i : Nat) :
    (s.setCommitIndexR i).1.role = s.role ∨ (s.setCommitIndexR i).1.role = .follower := by
  unfold Node.setCommitIndexR
  split
  · show ((s.withCommitIndex i).commitConfig.afterConfigCommit).role = s.role ∨
      ((s.withCommitIndex i).commitConfig.afterConfigCommit).role = .follower
    rcases role_afterConfigCommit (s.withCommitIndex i).commitConfig with h | h
    · left; rw [h, role_commitConfig]; rfl
    · right; exact h
  · exact Or.inl rfl

theorem role_foldl {β : Type} (f : Node → β → Node) (hf : ∀ s x, (f s x).role = s.role)
    (xs : List β) (s : Node) : (xs.foldl f s).role = s.role := by
  induction xs generalizing s with
  | nil => rfl
  | cons x xs ih => rw [List.foldl_cons, ih, hf]

theorem role_leaderReleaseRest (s : Node) : s.leaderReleaseRest.role = s.role := by
  unfold Node.leaderReleaseRest
  extract_lets s1 err s2 s3
  have e1 : s1.role = s.role := by unfold s1; split <;> rfl
  have e2 : s2.role = s1.role := role_foldl _ (fun s t => role_reply _ _ _) _ _
  have e3 : s3.role = s2.role := role_foldl _ (fun s t => role_reply _ _ _) _ _
  show s3.role = s.role
  rw [e3, e2, e1]

theorem role_transferReply (s : Node) (r : String) : (s.transferReply r).role = s.role := by
  unfold Node.transferReply
  show (Node.reply _ _ _).role = _
  exact role_reply _ _ _

theorem role_leaderRelease (s : Node) : s.leaderRelease.role = s.role := by
  unfold Node.leaderRelease
  rw [role_leaderReleaseRest]
  split
  · exact role_transferReply _ _
  · rfl

theorem role_releaseRole (s : Node) (r : Role) : (s.releaseRole r).role = s.role := by
  unfold Node.releaseRole
  split
  · rfl
  · rfl
  · exact role_leaderRelease s

theorem role_startElection (s : Node) : s.startElection.role = s.role ∨ s.startElection.role = .leader := by
  unfold Node.startElection
  dsimp only
  split
  · exact Or.inr rfl
  · left
    show (Node.setVotedFor _ _ _).role = _
    rw [role_setVotedFor]
    exact role_assert _ _ _

/-- the leader block never makes a node candidate -/
theorem notCandidate_closed : Closed (fun s : Node => s.role ≠ .candidate) where
  panic := fun s site h => by rw [role_panic]; exact h
  reply := fun s t r h => by rw [role_reply]; exact h
  point := fun s n h => h
  ldr := fun s l h => h
  append := fun s e r h => h
  commitN := fun s n h => h
  fsm := fun s f h => h
  changeConfigR := fun s c h => by rw [role_changeConfigR]; exact h
  setCommitIndexR := fun s i h _ => by
    rcases role_setCommitIndexR s i with e | e <;> rw [e]
    · exact h
    · exact fun x => by cases x
  popOrder := fun s h => h

theorem role_leaderInit (s : Node) (h : s.role ≠ .candidate) : s.leaderInit.role ≠ .candidate :=
  notCandidate_closed.leaderInit_inv' s h

/-! ### a node that is not leader stays so through the follower-side request handling -/

/-- not leader -/
def NL (s : Node) : Prop := s.role ≠ .leader

theorem NL.congr {s s' : Node} (h : NL s) (e : s'.role = s.role) : NL s' := by unfold NL; rw [e]; exact h

theorem nl_panic {s : Node} (site : String) (h : NL s) : NL (s.panic site) := h.congr (role_panic _ _)
theorem nl_reply {s : Node} (t : Nat) (r : String) (h : NL s) : NL (s.reply t r) := h.congr (role_reply _ _ _)
theorem nl_assert {s : Node} (b : Bool) (site : String) (h : NL s) : NL (s.assert b site) := h.congr (role_assert _ _ _)
theorem nl_ret {s : Node} (r : Nat) (h : NL s) : NL (s.ret r) := h
theorem nl_point {s : Node} (n : String) (h : NL s) : NL (s.point n) := h
theorem nl_fsm {s : Node} (f : Fsm) (h : NL s) : NL (s.withFsm f) := h
theorem nl_setLeader {s : Node} (l : Nat) (h : NL s) : NL (s.setLeader l) := h
theorem nl_commitLog {s : Node} (n : Nat) (h : NL s) : NL (s.commitLog n) := h
theorem nl_removeGTE {s : Node} (i pt : Nat) (h : NL s) : NL (s.removeGTE i pt) := h
theorem nl_revertConfig {s : Node} (h : NL s) : NL s.revertConfig := h
theorem nl_clearLog {s : Node} (h : NL s) : NL s.clearLog := h
theorem nl_publish {s : Node} (f : SnapFile) (h : NL s) : NL (s.publishSnapshot f) := h
theorem nl_withCommitIndex {s : Node} (i : Nat) (h : NL s) : NL (s.withCommitIndex i) := h
theorem nl_appendEntry {s : Node} (e : Entry) (h : NL s) : NL (s.appendEntry e) := by
  unfold Node.appendEntry; exact nl_assert _ _ h
theorem nl_changeConfigR {s : Node} (c : Config) (h : NL s) : NL (s.changeConfigR c) := h.congr (role_changeConfigR _ _)
theorem nl_commitConfig {s : Node} (h : NL s) : NL s.commitConfig := h.congr (role_commitConfig _)
theorem nl_setCommitIndexR {s : Node} (i : Nat) (h : NL s) : NL (s.setCommitIndexR i).1 := by
  rcases role_setCommitIndexR s i with e | e
  · exact h.congr e
  · unfold NL; rw [e]; exact fun x => by cases x

theorem roleFsmFrame : FsmFrame (·.role) := ⟨role_panic, role_reply, fun _ _ => rfl⟩

theorem nl_applyCommitted {s : Node} (h : NL s) : NL s.applyCommitted := h.congr (roleFsmFrame.applyCommitted_eq s)

theorem nl_fsmRestore {s : Node} (h : NL s) : NL s.fsmRestore := by
  unfold Node.fsmRestore
  split
  · exact nl_panic _ h
  · split
    · exact nl_fsm _ h
    · exact nl_panic _ h

syntax "nl_step" : tactic
macro_rules
  | `(tactic| nl_step) => `(tactic| first
      | with_reducible assumption
      | with_reducible apply nl_panic
      | with_reducible apply nl_reply
      | with_reducible apply nl_assert
      | with_reducible apply nl_ret
      | with_reducible apply nl_point
      | with_reducible apply nl_fsm
      | with_reducible apply nl_setLeader
      | with_reducible apply nl_commitLog
      | with_reducible apply nl_removeGTE
      | with_reducible apply nl_revertConfig
      | with_reducible apply nl_clearLog
      | with_reducible apply nl_publish
      | with_reducible apply nl_withCommitIndex
      | with_reducible apply nl_appendEntry
      | with_reducible apply nl_changeConfigR
      | with_reducible apply nl_commitConfig
      | with_reducible apply nl_setCommitIndexR
      | with_reducible apply nl_applyCommitted
      | with_reducible apply nl_fsmRestore
      | split)

theorem nl_resolveConflict {s : Node} (ne : Entry) (pt : Nat) (h : NL s) : NL (s.resolveConflict ne pt) := by
  unfold Node.resolveConflict
  dsimp only
  repeat' nl_step

theorem nl_appendLoop (st : AppLoop) (es : List Entry) (hs : NL st.s) : NL (appendLoop st es).s := by
  induction es generalizing st with
  | nil => exact hs
  | cons ne rest ih =>
    unfold appendLoop
    dsimp only
    have hR : ∀ x a b, NL x → NL (Node.resolveConflict x a b) := fun x a b hx => nl_resolveConflict a b hx
    repeat' (first | nl_step | apply hR)
    all_goals (first | (apply ih; dsimp only; repeat' (first | nl_step | apply hR)) | skip)

theorem nl_appendCheck {s : Node} (q : AppendReq) (h : NL s) : NL (s.appendCheck q) := by
  unfold Node.appendCheck
  dsimp only
  repeat' nl_step

/-- an append request that is not stale leaves the node a non-leader -/
theorem nl_onAppendEntries (s : Node) (q : AppendReq) (hq : ¬ q.term < s.term) : NL (s.onAppendEntries q) := by
  unfold Node.onAppendEntries
  rw [if_neg hq]
  extract_lets s1 s2 s3 st s4 s5 s6
  have h2 : NL s2 := fun x => by cases x
  have h3 : NL s3 := nl_appendCheck q h2
  have hL : ∀ st, NL st.s → NL (appendLoop st q.entries).s := fun st hst => nl_appendLoop st _ hst
  split
  · exact h3
  · unfold s6 s5 s4 st
    repeat' (first | nl_step | (apply hL; dsimp only))

/-- an install-snapshot request that is not stale leaves the node a non-leader -/
theorem nl_onInstallSnap (s : Node) (q : InstallReq) (hq : ¬ q.term < s.term) : NL (s.onInstallSnap q) := by
  unfold Node.onInstallSnap
  rw [if_neg hq]
  extract_lets s1 s2 s3 s4 s5 s6 s7
  have h2 : NL s2 := fun x => by cases x
  have h3 : NL s3 := nl_publish _ h2
  repeat' nl_step

/-! ### `settle`: the role transitions after a handler -/

/-- how many iterations of `settle` are needed at most: follower `init` is the identity, `leader.init`
can only step down to follower, `startElection` can only make a leader -/
def need (r cur : Role) : Nat :=
  if r = cur then 0 else match r with
    | .follower => 1
    | .leader => 2
    | .candidate => 3

theorem need_self (r : Role) : need r r = 0 := by unfold need; rw [if_pos rfl]

theorem need_zero {r cur : Role} (h : need r cur = 0) : r = cur := by
  unfold need at h
  split at h
  · assumption
  · cases r <;> simp at h

theorem need_le (r cur : Role) : need r cur ≤ 3 := by
  unfold need; split
  · omega
  · cases r <;> simp

theorem settle_cache (fuel : Nat) (s : Node) (cur : Role) (hf : need s.role cur ≤ fuel)
    (hI : cur = .leader → s.role = .leader → Cache s) :
    (settle fuel s cur).role = .leader → Cache (settle fuel s cur) := by
  induction fuel generalizing s cur with
  | zero =>
    have e : s.role = cur := need_zero (Nat.le_zero.mp hf)
    unfold settle
    intro hl
    exact hI (by rw [← e]; exact hl) hl
  | succ n ih =>
    unfold settle
    split
    · rename_i e
      intro hl
      exact hI (by rw [← e]; exact hl) hl
    · rename_i hne
      dsimp only
      have hr : (s.releaseRole cur).role = s.role := role_releaseRole s cur
      apply ih
      · -- enough fuel remains
        have hneed : need s.role cur = match s.role with
            | .follower => 1 | .leader => 2 | .candidate => 3 := by
          unfold need; rw [if_neg hne]
        unfold Node.initRole
        cases hrole : s.role with
        | follower =>
          rw [hr, hrole]; dsimp only; rw [hr, hrole, need_self]; omega
        | candidate =>
          rw [hr, hrole]; dsimp only
          rw [hrole] at hneed hf; dsimp only at hneed
          rcases role_startElection (s.releaseRole cur) with e | e
          · rw [e, hr, hrole, need_self]; omega
          · rw [e]; unfold need; simp; omega
        | leader =>
          rw [hr, hrole]; dsimp only
          rw [hrole] at hneed hf; dsimp only at hneed
          have hc := role_leaderInit (s.releaseRole cur) (by rw [hr, hrole]; exact fun x => by cases x)
          cases hrl : (s.releaseRole cur).leaderInit.role with
          | candidate => exact absurd hrl hc
          | leader => rw [need_self]; omega
          | follower => unfold need; simp; omega
      · intro hl _
        unfold Node.initRole
        rw [hl]
        exact cleaderInit _

end LC
end Node
end Raft
